(* C10, phase 2 — proofs about the MergeDir protocol run over the Merge model
   (Proto/MergeDirMerge.v): for EVERY schedule the out-file list [sorted] is the Merge model's
   state after adding the arrived files in arrival order to an out-file seeded by the first
   file a worker finished reading; hence what MergeDir returns is literally a MergeFilesWith
   result, and the theorems of C08/C09 about MergeFilesWith apply to it. *)
From Coq Require Import List NArith ZArith Bool Arith Lia Permutation.
From ACH Require Import Bytes Merge MergeFacts MergeDir MergeDirFacts MergeDirMerge.
Import ListNotations.

(* ------------------------------------------------------------ the Merge model side *)

Lemma bytes_eqb_refl a : bytes_eqb a a = true.
Proof. now apply bytes_eqb_eq. Qed.

(* a header-only file put in front of MergeFilesWith's input seeds the first out-file and adds nothing *)
Lemma build_state_header_only seed fs : build_state (header_only seed :: fs) = dir_state seed fs.
Proof.
  unfold build_state, dir_state. cbn [fold_left]. f_equal.
  cbn [add_file]. unfold same_route, header_only, new_ofile. cbn [if_origin if_dest if_hid of_origin of_dest].
  rewrite !bytes_eqb_refl. cbn [andb]. reflexivity.
Qed.

Lemma build_state_dir_state f fs : build_state (f :: fs) = dir_state f (f :: fs).
Proof. reflexivity. Qed.

Lemma merge_files_header_only seed fs c : merge_files (header_only seed :: fs) c = convert c (dir_state seed fs).
Proof. unfold merge_files. now rewrite build_state_header_only. Qed.

(* convertToFiles of the untouched  &outFile{}  returns no file, as MergeFilesWith(nil) does *)
Lemma convert_zero c : convert c [zero_ofile] = merge_files [] c.
Proof. reflexivity. Qed.

Lemma ids_header_only f : ids_ifile (header_only f) = [].
Proof. reflexivity. Qed.

Lemma ids_in_as_input seed fs : ids_in (as_mergefiles_input seed fs) = ids_in fs.
Proof. destruct seed as [f0|]; reflexivity. Qed.

Lemma filter_perm {A} (f : A -> bool) l l' : Permutation l l' -> Permutation (filter f l) (filter f l').
Proof.
  induction 1 as [|x l l' _ IH|x y l|l l' l'' _ IH1 _ IH2]; cbn [filter].
  - constructor.
  - destruct (f x); [now constructor|exact IH].
  - destruct (f x), (f y); try apply Permutation_refl. apply perm_swap.
  - eapply Permutation_trans; eassumption.
Qed.

(* ------------------------------------------------------------ the protocol side *)
Section MFacts.
  Variable sel : bool.
  Variable parse : N -> outcome.
  Variable content : N -> ifile.
  Variable add_ok : N -> bool.

  Notation fire := (fire sel parse add_ok).
  Notation run := (run sel parse add_ok).
  Notation fire_m := (fire_m sel parse content add_ok).
  Notation run_m := (run_m sel parse content add_ok).
  Notation step := (step sel parse add_ok).

  (* ---------------------------------------------------------- same schedules as the protocol *)
  Lemma fire_m_proto l s s' : fire_m l s = Some s' -> fire l (proto s) = Some (proto s').
  Proof.
    unfold MergeDirMerge.fire_m. destruct (fire l (proto s)) as [p'|] eqn:F; [|discriminate].
    intros H. f_equal.
    destruct l; try (injection H as <-; reflexivity).
    - destruct (nth_error (ws (proto s)) i) as [[|p|p|f| | ]|]; try (injection H as <-; reflexivity).
      destruct (parse p), (seeded s); injection H as <-; reflexivity.
    - destruct (mg (proto s)) as [|f| |]; try (injection H as <-; reflexivity).
      destruct (add_ok f); injection H as <-; reflexivity.
  Qed.

  Lemma fire_m_some l s p' : fire l (proto s) = Some p' -> exists s', fire_m l s = Some s' /\ proto s' = p'.
  Proof.
    intros F. unfold MergeDirMerge.fire_m. rewrite F.
    destruct l; try (eexists; split; [reflexivity|reflexivity]).
    - destruct (nth_error (ws (proto s)) i) as [[|p|p|f| | ]|]; try (eexists; split; [reflexivity|reflexivity]).
      destruct (parse p), (seeded s); eexists; split; reflexivity.
    - destruct (mg (proto s)) as [|f| |]; try (eexists; split; [reflexivity|reflexivity]).
      destruct (add_ok f); eexists; split; reflexivity.
  Qed.

  Lemma run_m_proto sched : forall s s', run_m sched s = Some s' -> run sched (proto s) = Some (proto s').
  Proof.
    induction sched as [|l rest IH]; cbn [MergeDirMerge.run_m MergeDir.run]; intros s s' H.
    - now injection H as <-.
    - destruct (fire_m l s) as [s1|] eqn:F; [|discriminate].
      rewrite (fire_m_proto _ _ _ F). now apply IH.
  Qed.

  Lemma run_m_some sched : forall s t, run sched (proto s) = Some t -> exists s', run_m sched s = Some s' /\ proto s' = t.
  Proof.
    induction sched as [|l rest IH]; cbn [MergeDirMerge.run_m MergeDir.run]; intros s t H.
    - injection H as <-. now exists s.
    - destruct (fire l (proto s)) as [p1|] eqn:F; [|discriminate].
      destruct (fire_m_some _ _ _ F) as (s1 & F1 & E1). rewrite F1. apply IH. now rewrite E1.
  Qed.

  (* ---------------------------------------------------------- the invariant *)
  (* before setup.Do has run no file has been parsed: nothing merged, in the merger or held *)
  Definition no_file_yet (t : st) : Prop :=
    merged t = [] /\ (forall f, mg t <> MAdding f) /\ (forall f, ~ In (WHolding f) (ws t)).

  Definition InvM (paths : list N) (s : mstate) : Prop :=
    match seeded s with
    | None => sorted s = [zero_ofile] /\ no_file_yet (proto s)
    | Some f0 => sorted s = dir_state (content f0) (map content (arrivals s)) /\ In f0 (files_of parse paths)
    end.

  Lemma invm_init n paths : InvM paths (init_m n paths).
  Proof.
    unfold InvM, init_m, no_file_yet; cbn. repeat split; try discriminate.
    intros f H. apply repeat_spec in H. discriminate.
  Qed.

  (* a file some worker holds was parsed from one of the walked paths *)
  Lemma holding_in_files paths t f : Inv parse paths t -> In (WHolding f) (ws t) -> In f (files_of parse paths).
  Proof.
    intros ((d & P & _) & _) Hw.
    assert (Hin : In (TFile f) (total parse t ++ d)).
    { apply in_or_app. left. unfold total. apply in_or_app. right. apply in_or_app. right. apply in_or_app. left.
      apply in_flat_map. exists (WHolding f). split; [exact Hw|now left]. }
    apply (Permutation_in _ P) in Hin. apply in_flat_map in Hin as (p & Hp & Hin).
    unfold files_of. apply in_flat_map. exists p. split; [exact Hp|].
    unfold ptoks in Hin. destruct (parse p) as [| |g]; cbn in Hin; try tauto.
    - destruct Hin as [E|[]]. discriminate.
    - destruct Hin as [E|[]]. injection E as ->. now left.
  Qed.

  Lemma in_mid_replace {A} (x a b : A) l1 l2 : In x (l1 ++ b :: l2) -> x <> b -> In x (l1 ++ a :: l2).
  Proof. rewrite !in_app_iff. cbn. intros [H|[H|H]] Hn; auto. congruence. Qed.

  Lemma invm_step paths l s s' :
    fire_m l s = Some s' -> Inv parse paths (proto s') -> InvM paths s -> InvM paths s'.
  Proof.
    intros F I' IM. pose proof (fire_step _ _ _ _ _ _ (fire_m_proto _ _ _ F)) as St.
    unfold MergeDirMerge.fire_m in F. rewrite (fire_m_proto _ _ _ F) in F.
    destruct s as [t so se]. destruct s' as [t' so' se']. cbn [proto sorted seeded] in *.
    unfold InvM in *. cbn [proto sorted seeded] in *. unfold arrivals in *. cbn [proto] in *.
    inversion St; subst; cbn [ws mg merged] in F; rewrite ?nth_error_mid in F.
    - (* hand *) injection F as <- <-.
      destruct se as [f0|]; [exact IM|]. destruct IM as [E (M & G & W)]. split; [exact E|]. cbn [merged mg ws] in *.
      repeat split; auto. intros f Hf. apply (W f). eapply in_mid_replace; [exact Hf|discriminate].
    - (* start *) injection F as <- <-.
      destruct se as [f0|]; [exact IM|]. destruct IM as [E (M & G & W)]. split; [exact E|]. cbn [merged mg ws] in *.
      repeat split; auto. intros f Hf. apply (W f). eapply in_mid_replace; [exact Hf|discriminate].
    - (* parse *)
      unfold after_parse in *. destruct (parse p) as [| |f] eqn:P.
      + injection F as <- <-.
        destruct se as [f0|]; [exact IM|]. destruct IM as [E (M & G & W)]. split; [exact E|]. cbn [merged mg ws] in *.
        repeat split; auto. intros f Hf. apply (W f). eapply in_mid_replace; [exact Hf|discriminate].
      + injection F as <- <-.
        destruct se as [f0|]; [exact IM|]. destruct IM as [E (M & G & W)]. split; [exact E|]. cbn [merged mg ws] in *.
        repeat split; auto. intros f Hf. apply (W f). eapply in_mid_replace; [exact Hf|discriminate].
      + destruct se as [f0|]; injection F as <- <-; [exact IM|].
        destruct IM as [E (M & G & W)]. cbn [merged mg ws] in *. rewrite E, M. split; [reflexivity|].
        eapply holding_in_files; [exact I'|]. cbn [ws]. apply in_or_app. right. now left.
    - (* deliver *) injection F as <- <-.
      destruct se as [f0|]; [exact IM|]. destruct IM as [E (M & G & W)]. exfalso. cbn [ws] in W.
      apply (W f). apply in_or_app. right. now left.
    - (* add ok *) match goal with Ha : add_ok _ = _ |- _ => rewrite Ha in F end. injection F as <- <-.
      destruct se as [f0|].
      + destruct IM as [E Hin]. split; [|exact Hin]. cbn [merged rev] in *.
        rewrite map_app. unfold dir_state in *. rewrite fold_left_app. cbn [map fold_left]. now rewrite <- E.
      + destruct IM as [E (M & G & W)]. exfalso. now apply (G f).
    - (* add err *) match goal with Ha : add_ok _ = _ |- _ => rewrite Ha in F end. injection F as <- <-.
      destruct se as [f0|]; [exact IM|]. destruct IM as [E (M & G & W)]. exfalso. now apply (G f).
    - injection F as <- <-. exact IM.
    - injection F as <- <-. exact IM.
    - injection F as <- <-. exact IM.
    - (* worker exit *) injection F as <- <-.
      destruct se as [f0|]; [exact IM|]. destruct IM as [E (M & G & W)]. split; [exact E|]. cbn [merged mg ws] in *.
      repeat split; auto. intros f Hf. apply (W f). eapply in_mid_replace; [exact Hf|discriminate].
    - (* worker cancel *) injection F as <- <-.
      destruct se as [f0|]; [exact IM|]. destruct IM as [E (M & G & W)]. exfalso. cbn [ws] in W.
      apply (W f). apply in_or_app. right. now left.
    - injection F as <- <-. exact IM.
    - (* merger exit *) injection F as <- <-.
      destruct se as [f0|]; [exact IM|]. destruct IM as [E (M & G & W)]. split; [exact E|]. cbn [merged mg ws] in *.
      repeat split; auto. intros f. discriminate.
  Qed.
End MFacts.

(* ------------------------------------------------------------ theorems over schedules *)
Section MMain.
  Variable sel : bool.
  Variable parse : N -> outcome.
  Variable content : N -> ifile.
  Variable add_ok : N -> bool.
  Variable n : nat.
  Variable paths : list N.

  Notation run := (run sel parse add_ok).
  Notation run_m := (run_m sel parse content add_ok).

  (* the parse results of the walked paths, in directory (walk) order: MergeFiles' argument *)
  Definition dir_files : list ifile := map content (files_of parse paths).

  Lemma invm_run sched : forall s s', Inv parse paths (proto s) -> InvM parse content paths s ->
    run_m sched s = Some s' -> Inv parse paths (proto s') /\ InvM parse content paths s'.
  Proof.
    induction sched as [|l rest IH]; cbn [MergeDirMerge.run_m]; intros s s' I IM H.
    - injection H as <-. now split.
    - destruct (fire_m sel parse content add_ok l s) as [s1|] eqn:F; [|discriminate].
      assert (I1 : Inv parse paths (proto s1)).
      { eapply inv_step; [|exact I]. eapply fire_step. eapply fire_m_proto. exact F. }
      eapply IH; [exact I1| |exact H]. eapply invm_step; eassumption.
  Qed.

  Lemma reach_m sched s : run_m sched (init_m n paths) = Some s ->
    run sched (init n paths) = Some (proto s) /\ Inv parse paths (proto s) /\ InvM parse content paths s.
  Proof.
    intros H. split; [exact (run_m_proto _ _ _ _ _ _ _ H)|].
    eapply invm_run; [| |exact H]; [apply inv_init|apply invm_init].
  Qed.

  (* every schedule of the protocol is a schedule of the extended system and vice versa *)
  Theorem same_schedules sched :
    (forall t, run sched (init n paths) = Some t -> exists s, run_m sched (init_m n paths) = Some s /\ proto s = t) /\
    (forall s, run_m sched (init_m n paths) = Some s -> run sched (init n paths) = Some (proto s)).
  Proof.
    split.
    - intros t H. exact (run_m_some sel parse content add_ok sched (init_m n paths) t H).
    - intros s H. exact (run_m_proto _ _ _ _ _ _ _ H).
  Qed.

  (* in EVERY reachable state (any schedule, any n) the shared out-file list is the Merge model's
     state for the files added so far, in the order in which the merger received them *)
  Theorem sorted_is_merge_state sched s : run_m sched (init_m n paths) = Some s ->
    match seeded s with
    | None => sorted s = [zero_ofile] /\ arrivals s = []
    | Some f0 => sorted s = build_state (header_only (content f0) :: map content (arrivals s))
                 /\ In f0 (files_of parse paths)
    end.
  Proof.
    intros H. destruct (reach_m _ _ H) as (_ & _ & IM). unfold InvM in IM.
    destruct (seeded s) as [f0|].
    - destruct IM as [E Hin]. split; [|exact Hin]. now rewrite build_state_header_only.
    - destruct IM as [E (M & _ & _)]. split; [exact E|]. unfold arrivals. now rewrite M.
  Qed.

  (* THE characterisation: whatever the interleaving, a run that returns without error returns
     exactly what MergeFilesWith returns on  [header of the seeding file] :: files in arrival order,
     where the arrivals are a permutation of the directory's files and the seeding file is one of
     them (no file at all: MergeFilesWith(nil)) *)
  Theorem output_exact c sched s out : run_m sched (init_m n paths) = Some s ->
    terminal (proto s) = true -> result_m c s = Some out ->
    Permutation (arrivals s) (files_of parse paths) /\
    (forall p, In p paths -> parse p <> PErr) /\
    match seeded s with None => arrivals s = [] | Some f0 => In f0 (arrivals s) end /\
    out = merge_files (as_mergefiles_input (option_map content (seeded s)) (map content (arrivals s))) c.
  Proof.
    intros H Ht Hr. destruct (reach_m _ _ H) as (Hp & _ & IM).
    unfold result_m in Hr. destruct (gcancel (proto s)) eqn:G; [discriminate|]. injection Hr as <-.
    assert (R : result_of (proto s) = ROk (merged (proto s))) by (unfold result_of; now rewrite G).
    destruct (result_ok _ _ _ _ _ _ _ _ Hp Ht R) as [P NoErr].
    assert (P' : Permutation (arrivals s) (files_of parse paths)).
    { unfold arrivals. eapply Permutation_trans; [apply Permutation_sym, Permutation_rev|exact P]. }
    split; [exact P'|]. split; [exact NoErr|].
    unfold InvM in IM. unfold output_of. destruct (seeded s) as [f0|]; cbn [option_map as_mergefiles_input].
    - destruct IM as [E Hin]. split.
      + eapply Permutation_in; [apply Permutation_sym; exact P'|exact Hin].
      + rewrite E. symmetry. apply merge_files_header_only.
    - destruct IM as [E (M & _ & _)]. unfold arrivals. rewrite M, E. cbn [rev map]. split; [reflexivity|apply convert_zero].
  Qed.

  (* C10 proper: the result has the same entry identities (routing pair, the seven header fields
     BatchHeader.Equal compares, entry) as MergeFiles over the directory's files, as multisets *)
  Theorem equals_mergefiles c sched s out : run_m sched (init_m n paths) = Some s ->
    terminal (proto s) = true -> result_m c s = Some out ->
    Permutation (ids_out out) (ids_out (merge_files dir_files c)).
  Proof.
    intros H Ht Hr. destruct (output_exact c sched s out H Ht Hr) as (P & _ & _ & ->).
    eapply Permutation_trans; [apply merge_conservation|].
    rewrite ids_in_as_input.
    eapply Permutation_trans; [|apply Permutation_sym, merge_conservation].
    apply ids_in_perm. unfold dir_files. now apply Permutation_map.
  Qed.

  (* ... in particular per routing pair *)
  Theorem equals_mergefiles_per_route c sched s out (sel_route : route_t -> bool) :
    run_m sched (init_m n paths) = Some s -> terminal (proto s) = true -> result_m c s = Some out ->
    Permutation (filter (fun i => sel_route (fst (fst i))) (ids_out out))
                (filter (fun i => sel_route (fst (fst i))) (ids_out (merge_files dir_files c))).
  Proof. intros H Ht Hr. apply filter_perm. eapply equals_mergefiles; eassumption. Qed.

  (* the result is the MergeFiles result of SOME ordering of the directory's files whenever the
     file that seeded the header is also the first to reach the merger *)
  Theorem output_is_a_mergefiles_result c sched s out f0 rest : run_m sched (init_m n paths) = Some s ->
    terminal (proto s) = true -> result_m c s = Some out ->
    seeded s = Some f0 -> arrivals s = f0 :: rest ->
    out = merge_files (map content (arrivals s)) c /\ Permutation (map content (arrivals s)) dir_files.
  Proof.
    intros H Ht Hr Hs Ha. destruct (output_exact c sched s out H Ht Hr) as (P & _ & _ & ->).
    split; [|unfold dir_files; now apply Permutation_map].
    rewrite Hs, Ha. cbn [option_map as_mergefiles_input map]. unfold merge_files.
    now rewrite build_state_header_only, build_state_dir_state.
  Qed.
End MMain.

(* ------------------------------------------------------------ one parse worker: arrival order = directory order *)
Section OneWorker.
  Local Open Scope nat_scope.
  Variable sel : bool.
  Variable parse : N -> outcome.
  Variable content : N -> ifile.
  Variable add_ok : N -> bool.

  Notation fire_m := (fire_m sel parse content add_ok).
  Notation run_m := (run_m sel parse content add_ok).
  Notation step := (step sel parse add_ok).

  Definition mfile (m : mst) : list N := match m with MAdding f => [f] | _ => [] end.
  Definition wfile (w : wst) : list N :=
    match w with WGot p | WParsing p => files_of parse [p] | WHolding f => [f] | _ => [] end.
  (* the files merged, in the merger, with the worker and still to be walked — in this order *)
  Definition pipeline (t : st) : list N :=
    rev (merged t) ++ mfile (mg t) ++ flat_map wfile (ws t) ++ files_of parse (queue t).

  Lemma files_of_cons p q : files_of parse (p :: q) = files_of parse [p] ++ files_of parse q.
  Proof. unfold files_of. cbn [flat_map]. now rewrite app_nil_r. Qed.

  Lemma one_mid {A} (l1 l2 : list A) w : length (l1 ++ w :: l2) = 1 -> l1 = [] /\ l2 = [].
  Proof.
    rewrite app_length. cbn [length]. intros H.
    destruct l1 as [|a l1]; [|cbn [length] in H; lia]. destruct l2 as [|b l2]; [auto|cbn [length] in H; lia].
  Qed.

  Lemma pipeline_step l t t' : step l t t' -> length (ws t) = 1 -> gcancel t' = false -> pipeline t' = pipeline t.
  Proof.
    intros St L G. destruct St; cbn [ws] in L; try (apply one_mid in L as [-> ->]);
      unfold pipeline; cbn [ws mg merged queue app flat_map wfile mfile]; rewrite ?app_nil_r; try reflexivity.
    - now rewrite (files_of_cons p q).
    - unfold after_parse. destruct (parse p) as [| |f] eqn:P; cbn [wfile];
        unfold files_of; cbn [flat_map]; rewrite P; cbn [app]; reflexivity.
    - cbn [rev]. now rewrite <- app_assoc.
    - unfold gcancel in G. cbn [ws mg m_err] in G. rewrite orb_true_r in G. discriminate.
    - (* the walker drops a path: only after a failure *)
      unfold gcancel in *. cbn [ws mg] in *. congruence.
    - unfold gcancel in *. cbn [ws mg app existsb w_err] in *. congruence.
  Qed.

  Lemma seeded_step l s s' : fire_m l s = Some s' ->
    seeded s' = seeded s \/
    (seeded s = None /\ merged (proto s') = merged (proto s) /\ mg (proto s') = mg (proto s) /\
     exists f, seeded s' = Some f /\ In (WHolding f) (ws (proto s'))).
  Proof.
    intros F. pose proof (fire_step _ _ _ _ _ _ (fire_m_proto _ _ _ _ _ _ _ F)) as St.
    unfold MergeDirMerge.fire_m in F. rewrite (fire_m_proto _ _ _ _ _ _ _ F) in F.
    destruct s as [t so se]. destruct s' as [t' so' se']. cbn [proto sorted seeded] in *.
    inversion St; subst; cbn [ws mg merged] in F; rewrite ?nth_error_mid in F;
      try (injection F as <- <-; now left).
    - unfold after_parse in *. destruct (parse p) as [| |f] eqn:P; try (injection F as <- <-; now left).
      destruct se as [f0|]; injection F as <- <-; [now left|]. right.
      repeat split; auto. exists f. split; [reflexivity|]. cbn [ws]. apply in_or_app. right. now left.
    - match goal with Ha : add_ok _ = _ |- _ => rewrite Ha in F end. injection F as <- <-. now left.
    - match goal with Ha : add_ok _ = _ |- _ => rewrite Ha in F end. injection F as <- <-. now left.
  Qed.

  Definition InvOne (paths : list N) (s : mstate) : Prop :=
    gcancel (proto s) = false ->
    pipeline (proto s) = files_of parse paths /\
    (forall f0, seeded s = Some f0 -> hd_error (files_of parse paths) = Some f0).

  Lemma invone_step paths l s s' : fire_m l s = Some s' -> length (ws (proto s)) = 1 ->
    InvM parse content paths s -> InvOne paths s -> InvOne paths s'.
  Proof.
    intros F L IM IO G'.
    pose proof (fire_step _ _ _ _ _ _ (fire_m_proto _ _ _ _ _ _ _ F)) as St.
    assert (G : gcancel (proto s) = false).
    { destruct (gcancel (proto s)) eqn:G; [|reflexivity]. rewrite (gcancel_mono _ _ _ _ _ _ St G) in G'. discriminate. }
    destruct (IO G) as [Pp Sd].
    assert (Pp' : pipeline (proto s') = files_of parse paths) by (rewrite <- Pp; eapply pipeline_step; eassumption).
    split; [exact Pp'|]. intros f0 Hs.
    destruct (seeded_step _ _ _ F) as [E|(E & Em & Eg & f & Ef & Hin)].
    - apply Sd. now rewrite <- E.
    - rewrite Hs in Ef. injection Ef as ->.
      unfold InvM in IM. rewrite E in IM. destruct IM as [_ (M & Gm & _)].
      pose proof (ws_length_step _ _ _ _ _ _ St) as L'. rewrite L in L'.
      destruct (ws (proto s')) as [|w [|w2 r]] eqn:W; cbn [length] in L'; try lia.
      destruct Hin as [->|[]].
      unfold pipeline in Pp'. rewrite W, Em, M, Eg in Pp'. cbn [rev app flat_map wfile] in Pp'.
      destruct (mg (proto s)) as [|g| |] eqn:Emg; cbn [mfile app] in Pp'; try (rewrite <- Pp'; reflexivity).
      exfalso. now apply (Gm g).
  Qed.

  Lemma invone_run paths sched : forall s s', length (ws (proto s)) = 1 ->
    Inv parse paths (proto s) -> InvM parse content paths s -> InvOne paths s ->
    run_m sched s = Some s' -> InvOne paths s'.
  Proof.
    induction sched as [|l rest IH]; cbn [MergeDirMerge.run_m]; intros s s' L I IM IO H.
    - now injection H as <-.
    - destruct (fire_m l s) as [s1|] eqn:F; [|discriminate].
      pose proof (fire_step _ _ _ _ _ _ (fire_m_proto _ _ _ _ _ _ _ F)) as St.
      assert (I1 : Inv parse paths (proto s1)) by (eapply inv_step; eassumption).
      eapply (IH s1); [| | | |exact H].
      + rewrite (ws_length_step _ _ _ _ _ _ St). exact L.
      + exact I1.
      + eapply invm_step; eassumption.
      + eapply invone_step; eassumption.
  Qed.

  Lemma exited_no_files w : forallb w_exited w = true -> flat_map wfile w = [].
  Proof.
    induction w as [|x w IH]; cbn [forallb flat_map]; [reflexivity|]. intros H. apply andb_prop in H as [Hx Hw].
    rewrite (IH Hw). destruct x; try discriminate; reflexivity.
  Qed.

  (* ParseWorkers = 1: the merger receives the files in directory order and the first of them seeds
     the header, so MergeDir returns EXACTLY (structure, batch numbers, entry order) what MergeFiles
     returns on the directory's files *)
  Theorem single_worker_exact paths c sched s out : run_m sched (init_m 1 paths) = Some s ->
    terminal (proto s) = true -> result_m c s = Some out ->
    arrivals s = files_of parse paths /\ out = merge_files (dir_files parse content paths) c.
  Proof.
    intros H Ht Hr.
    destruct (reach_m sel parse content add_ok 1 paths sched s H) as (Hp & I & IM).
    assert (IO : InvOne paths s).
    { eapply invone_run; [| | | |exact H].
      - reflexivity.
      - apply inv_init.
      - apply invm_init.
      - intros _. split; [|discriminate]. unfold pipeline, init_m, init. cbn. reflexivity. }
    pose proof Hr as Hr0. unfold result_m in Hr0. destruct (gcancel (proto s)) eqn:G; [discriminate|]. clear Hr0.
    destruct (IO G) as [Pp Sd].
    assert (A : arrivals s = files_of parse paths).
    { destruct I as (_ & _ & I3 & _).
      unfold terminal in Ht. apply andb_prop in Ht as [Ht Hme]. apply andb_prop in Ht as [Ht _].
      apply andb_prop in Ht as [Ht Hwe]. apply andb_prop in Ht as [Hwd _].
      destruct (I3 Hwd) as [Q|Q]; [|congruence].
      unfold pipeline in Pp. rewrite Q, (exited_no_files _ Hwe) in Pp.
      destruct (mg (proto s)); try discriminate; cbn [mfile files_of flat_map app] in Pp; now rewrite app_nil_r in Pp. }
    split; [exact A|].
    destruct (output_exact sel parse content add_ok 1 paths c sched s out H Ht Hr) as (_ & _ & Hseed & E).
    destruct (seeded s) as [f0|] eqn:Es.
    - specialize (Sd f0 eq_refl). rewrite <- A in Sd.
      destruct (arrivals s) as [|a rest] eqn:Ea; [discriminate|]. injection Sd as ->.
      destruct (output_is_a_mergefiles_result sel parse content add_ok 1 paths c sched s out f0 rest H Ht Hr Es Ea) as [-> _].
      unfold dir_files. now rewrite <- A, Ea.
    - rewrite E. cbn [option_map as_mergefiles_input]. unfold dir_files. now rewrite <- A.
  Qed.
End OneWorker.

(* ------------------------------------------------------------ C08/C09 theorems carried over to MergeDir's result *)
Section Transfer.
  Variable sel : bool.
  Variable parse : N -> outcome.
  Variable content : N -> ifile.
  Variable add_ok : N -> bool.
  Variable n : nat.
  Variable paths : list N.
  Variable c : conds.
  Variable sched : list label.
  Variable s : mstate.
  Variable out : list rfile.
  Hypothesis Hrun : run_m sel parse content add_ok sched (init_m n paths) = Some s.
  Hypothesis Hterm : terminal (proto s) = true.
  Hypothesis Hres : result_m c s = Some out.

  Let fs : list ifile := as_mergefiles_input (option_map content (seeded s)) (map content (arrivals s)).

  Lemma out_is_mergefiles : out = merge_files fs c.
  Proof. exact (proj2 (proj2 (proj2 (output_exact sel parse content add_ok n paths c sched s out Hrun Hterm Hres)))). Qed.

  (* every file of that list is a file of the directory, or the batch-less seeding header *)
  Lemma fs_from_dir f : In f fs -> In f (dir_files parse content paths) \/ if_batches f = [].
  Proof.
    destruct (output_exact sel parse content add_ok n paths c sched s out Hrun Hterm Hres) as (P & _ & _ & _).
    assert (Hm : forall g, In g (map content (arrivals s)) -> In g (dir_files parse content paths)).
    { intros g Hg. unfold dir_files. eapply Permutation_in; [apply Permutation_map; exact P|exact Hg]. }
    unfold fs. destruct (seeded s) as [f0|]; cbn [option_map as_mergefiles_input].
    - intros [<-|Hf]; [right; reflexivity|left; now apply Hm].
    - intros Hf. left. now apply Hm.
  Qed.

  Lemma fs_batches_from_dir f ib : In f fs -> In ib (if_batches f) -> In f (dir_files parse content paths).
  Proof. intros Hf Hib. destruct (fs_from_dir f Hf) as [H|H]; [exact H|]. rewrite H in Hib. destruct Hib. Qed.

  (* C09_limits, C09_batch_numbers_ascending, C09_traces_ascending for MergeDir (same convertToFiles) *)
  Theorem dir_limits g : In g out ->
    (0 < maxLines c -> file_lines g <= maxLines c \/ length (file_entries g) = 1%nat)%Z /\
    (0 < effective_dollar c -> file_amount g <= effective_dollar c \/ length (file_entries g) = 1%nat)%Z /\
    rf_batches g <> [] /\ Forall (fun rb => rb_entries rb <> []) (rf_batches g) /\
    asc 0 (map rb_number (rf_batches g)) /\
    Forall (fun rb => tasc (rb_entries rb)) (rf_batches g).
  Proof.
    rewrite out_is_mergefiles. intros Hg.
    destruct (merge_limits fs c g Hg) as (H1 & H2 & H3 & H4).
    repeat split; try assumption.
    - now apply (merge_numbers fs c).
    - apply Forall_forall. intros rb Hrb. now apply (merge_traces fs c g).
  Qed.

  (* C08_no_mixing for MergeDir: an output entry is an entry of a directory file with the output
     file's routing pair, under a header with the same identifying fields *)
  Theorem dir_no_mixing g rb e : In g out -> In rb (rf_batches g) -> In e (rb_entries rb) ->
    exists f ib, In f (dir_files parse content paths) /\ In ib (if_batches f) /\ In e (ib_entries ib)
                 /\ if_route f = rf_route g /\ hkey (ib_header ib) = hkey (rb_header rb).
  Proof.
    rewrite out_is_mergefiles. intros Hg Hrb He.
    destruct (merge_no_mixing fs c g rb e Hg Hrb He) as (f & ib & Hf & Hib & Hie & Hr & Hk).
    exists f, ib. repeat split; try assumption. eapply fs_batches_from_dir; eassumption.
  Qed.
End Transfer.

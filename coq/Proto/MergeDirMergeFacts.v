(* C10, phase 2 — proofs about the MergeDir protocol run over the Merge model
   (Proto/MergeDirMerge.v): for EVERY schedule the out-file list [sorted] is the Merge model's
   state after adding the arrived files in arrival order to an out-file seeded by the first
   file a worker finished reading; hence what MergeDir returns is literally a MergeFilesWith
   result, and the theorems of C08/C09 about MergeFilesWith apply to it. *)
From Coq Require Import List NArith ZArith Bool Arith Lia Permutation.
From ACH Require Import Bytes Merge MergeFacts MergeDir MergeDirFacts MergeDirMerge.
Import ListNotations.

(* ------------------------------------------------------------ the Merge model side *)

Lemma bytes_eqb_refl a : bytes_eqb a a = true.
Proof. now apply bytes_eqb_eq. Qed.

(* a header-only file put in front of MergeFilesWith's input seeds the first out-file and adds nothing *)
Lemma build_state_header_only seed fs : build_state (header_only seed :: fs) = dir_state seed fs.
Proof.
  unfold build_state, dir_state. cbn [fold_left]. f_equal.
  cbn [add_file]. unfold same_route, header_only, new_ofile. cbn [if_origin if_dest if_hid of_origin of_dest].
  rewrite !bytes_eqb_refl. cbn [andb]. reflexivity.
Qed.

Lemma build_state_dir_state f fs : build_state (f :: fs) = dir_state f (f :: fs).
Proof. reflexivity. Qed.

Lemma merge_files_header_only seed fs c : merge_files (header_only seed :: fs) c = convert c (dir_state seed fs).
Proof. unfold merge_files. now rewrite build_state_header_only. Qed.

(* convertToFiles of the untouched  &outFile{}  returns no file, as MergeFilesWith(nil) does *)
Lemma convert_zero c : convert c [zero_ofile] = merge_files [] c.
Proof. reflexivity. Qed.

Lemma ids_header_only f : ids_ifile (header_only f) = [].
Proof. reflexivity. Qed.

Lemma ids_in_as_input seed fs : ids_in (as_mergefiles_input seed fs) = ids_in fs.
Proof. destruct seed as [f0|]; reflexivity. Qed.

Lemma filter_perm {A} (f : A -> bool) l l' : Permutation l l' -> Permutation (filter f l) (filter f l').
Proof.
  induction 1 as [|x l l' _ IH|x y l|l l' l'' _ IH1 _ IH2]; cbn [filter].
  - constructor.
  - destruct (f x); [now constructor|exact IH].
  - destruct (f x), (f y); try apply Permutation_refl. apply perm_swap.
  - eapply Permutation_trans; eassumption.
Qed.

(* ------------------------------------------------------------ the protocol side *)
Section MFacts.
  Variable sel : bool.
  Variable parse : N -> outcome.
  Variable content : N -> ifile.
  Variable add_ok : N -> bool.

  Notation fire := (fire sel parse add_ok).
  Notation run := (run sel parse add_ok).
  Notation fire_m := (fire_m sel parse content add_ok).
  Notation run_m := (run_m sel parse content add_ok).
  Notation step := (step sel parse add_ok).

  (* ---------------------------------------------------------- same schedules as the protocol *)
  Lemma fire_m_proto l s s' : fire_m l s = Some s' -> fire l (proto s) = Some (proto s').
  Proof.
    unfold MergeDirMerge.fire_m. destruct (fire l (proto s)) as [p'|] eqn:F; [|discriminate].
    intros H. f_equal.
    destruct l; try (injection H as <-; reflexivity).
    - destruct (nth_error (ws (proto s)) i) as [[|p|p|f| | ]|]; try (injection H as <-; reflexivity).
      destruct (parse p), (seeded s); injection H as <-; reflexivity.
    - destruct (mg (proto s)) as [|f| |]; try (injection H as <-; reflexivity).
      destruct (add_ok f); injection H as <-; reflexivity.
  Qed.

  Lemma fire_m_some l s p' : fire l (proto s) = Some p' -> exists s', fire_m l s = Some s' /\ proto s' = p'.
  Proof.
    intros F. unfold MergeDirMerge.fire_m. rewrite F.
    destruct l; try (eexists; split; [reflexivity|reflexivity]).
    - destruct (nth_error (ws (proto s)) i) as [[|p|p|f| | ]|]; try (eexists; split; [reflexivity|reflexivity]).
      destruct (parse p), (seeded s); eexists; split; reflexivity.
    - destruct (mg (proto s)) as [|f| |]; try (eexists; split; [reflexivity|reflexivity]).
      destruct (add_ok f); eexists; split; reflexivity.
  Qed.

  Lemma run_m_proto sched : forall s s', run_m sched s = Some s' -> run sched (proto s) = Some (proto s').
  Proof.
    induction sched as [|l rest IH]; cbn [MergeDirMerge.run_m MergeDir.run]; intros s s' H.
    - now injection H as <-.
    - destruct (fire_m l s) as [s1|] eqn:F; [|discriminate].
      rewrite (fire_m_proto _ _ _ F). now apply IH.
  Qed.

  Lemma run_m_some sched : forall s t, run sched (proto s) = Some t -> exists s', run_m sched s = Some s' /\ proto s' = t.
  Proof.
    induction sched as [|l rest IH]; cbn [MergeDirMerge.run_m MergeDir.run]; intros s t H.
    - injection H as <-. now exists s.
    - destruct (fire l (proto s)) as [p1|] eqn:F; [|discriminate].
      destruct (fire_m_some _ _ _ F) as (s1 & F1 & E1). rewrite F1. apply IH. now rewrite E1.
  Qed.

  (* ---------------------------------------------------------- the invariant *)
  (* before setup.Do has run no file has been parsed: nothing merged, in the merger or held *)
  Definition no_file_yet (t : st) : Prop :=
    merged t = [] /\ (forall f, mg t <> MAdding f) /\ (forall f, ~ In (WHolding f) (ws t)).

  Definition InvM (paths : list N) (s : mstate) : Prop :=
    match seeded s with
    | None => sorted s = [zero_ofile] /\ no_file_yet (proto s)
    | Some f0 => sorted s = dir_state (content f0) (map content (arrivals s)) /\ In f0 (files_of parse paths)
    end.

  Lemma invm_init n paths : InvM paths (init_m n paths).
  Proof.
    unfold InvM, init_m, no_file_yet; cbn. repeat split; try discriminate.
    intros f H. apply repeat_spec in H. discriminate.
  Qed.

  (* a file some worker holds was parsed from one of the walked paths *)
  Lemma holding_in_files paths t f : Inv parse paths t -> In (WHolding f) (ws t) -> In f (files_of parse paths).
  Proof.
    intros ((d & P & _) & _) Hw.
    assert (Hin : In (TFile f) (total parse t ++ d)).
    { apply in_or_app. left. unfold total. apply in_or_app. right. apply in_or_app. right. apply in_or_app. left.
      apply in_flat_map. exists (WHolding f). split; [exact Hw|now left]. }
    apply (Permutation_in _ P) in Hin. apply in_flat_map in Hin as (p & Hp & Hin).
    unfold files_of. apply in_flat_map. exists p. split; [exact Hp|].
    unfold ptoks in Hin. destruct (parse p) as [| |g]; cbn in Hin; try tauto.
    - destruct Hin as [E|[]]. discriminate.
    - destruct Hin as [E|[]]. injection E as ->. now left.
  Qed.

  Lemma in_mid_replace {A} (x a b : A) l1 l2 : In x (l1 ++ b :: l2) -> x <> b -> In x (l1 ++ a :: l2).
  Proof. rewrite !in_app_iff. cbn. intros [H|[H|H]] Hn; auto. congruence. Qed.

  Lemma invm_step paths l s s' :
    fire_m l s = Some s' -> Inv parse paths (proto s') -> InvM paths s -> InvM paths s'.
  Proof.
    intros F I' IM. pose proof (fire_step _ _ _ _ _ _ (fire_m_proto _ _ _ F)) as St.
    unfold MergeDirMerge.fire_m in F. rewrite (fire_m_proto _ _ _ F) in F.
    destruct s as [t so se]. destruct s' as [t' so' se']. cbn [proto sorted seeded] in *.
    unfold InvM in *. cbn [proto sorted seeded] in *. unfold arrivals in *. cbn [proto] in *.
    inversion St; subst; cbn [ws mg merged] in F; rewrite ?nth_error_mid in F.
    - (* hand *) injection F as <- <-.
      destruct se as [f0|]; [exact IM|]. destruct IM as [E (M & G & W)]. split; [exact E|]. cbn [merged mg ws] in *.
      repeat split; auto. intros f Hf. apply (W f). eapply in_mid_replace; [exact Hf|discriminate].
    - (* start *) injection F as <- <-.
      destruct se as [f0|]; [exact IM|]. destruct IM as [E (M & G & W)]. split; [exact E|]. cbn [merged mg ws] in *.
      repeat split; auto. intros f Hf. apply (W f). eapply in_mid_replace; [exact Hf|discriminate].
    - (* parse *)
      unfold after_parse in *. destruct (parse p) as [| |f] eqn:P.
      + injection F as <- <-.
        destruct se as [f0|]; [exact IM|]. destruct IM as [E (M & G & W)]. split; [exact E|]. cbn [merged mg ws] in *.
        repeat split; auto. intros f Hf. apply (W f). eapply in_mid_replace; [exact Hf|discriminate].
      + injection F as <- <-.
        destruct se as [f0|]; [exact IM|]. destruct IM as [E (M & G & W)]. split; [exact E|]. cbn [merged mg ws] in *.
        repeat split; auto. intros f Hf. apply (W f). eapply in_mid_replace; [exact Hf|discriminate].
      + destruct se as [f0|]; injection F as <- <-; [exact IM|].
        destruct IM as [E (M & G & W)]. cbn [merged mg ws] in *. rewrite E, M. split; [reflexivity|].
        eapply holding_in_files; [exact I'|]. cbn [ws]. apply in_or_app. right. now left.
    - (* deliver *) injection F as <- <-.
      destruct se as [f0|]; [exact IM|]. destruct IM as [E (M & G & W)]. exfalso. cbn [ws] in W.
      apply (W f). apply in_or_app. right. now left.
    - (* add ok *) rewrite H in F. injection F as <- <-.
      destruct se as [f0|].
      + destruct IM as [E Hin]. split; [|exact Hin]. cbn [merged rev] in *.
        rewrite map_app. unfold dir_state in *. rewrite fold_left_app. cbn [map fold_left]. now rewrite <- E.
      + destruct IM as [E (M & G & W)]. exfalso. now apply (G f).
    - (* add err *) rewrite H in F. injection F as <- <-.
      destruct se as [f0|]; [exact IM|]. destruct IM as [E (M & G & W)]. exfalso. now apply (G f).
    - injection F as <- <-. exact IM.
    - injection F as <- <-. exact IM.
    - injection F as <- <-. exact IM.
    - (* worker exit *) injection F as <- <-.
      destruct se as [f0|]; [exact IM|]. destruct IM as [E (M & G & W)]. split; [exact E|]. cbn [merged mg ws] in *.
      repeat split; auto. intros f Hf. apply (W f). eapply in_mid_replace; [exact Hf|discriminate].
    - (* worker cancel *) injection F as <- <-.
      destruct se as [f0|]; [exact IM|]. destruct IM as [E (M & G & W)]. exfalso. cbn [ws] in W.
      apply (W f). apply in_or_app. right. now left.
    - injection F as <- <-. exact IM.
    - (* merger exit *) injection F as <- <-.
      destruct se as [f0|]; [exact IM|]. destruct IM as [E (M & G & W)]. split; [exact E|]. cbn [merged mg ws] in *.
      repeat split; auto. intros f. discriminate.
  Qed.
End MFacts.

(* ------------------------------------------------------------ theorems over schedules *)
Section MMain.
  Variable sel : bool.
  Variable parse : N -> outcome.
  Variable content : N -> ifile.
  Variable add_ok : N -> bool.
  Variable n : nat.
  Variable paths : list N.

  Notation run := (run sel parse add_ok).
  Notation run_m := (run_m sel parse content add_ok).

  (* the parse results of the walked paths, in directory (walk) order: MergeFiles' argument *)
  Definition dir_files : list ifile := map content (files_of parse paths).

  Lemma invm_run sched : forall s s', Inv parse paths (proto s) -> InvM parse content paths s ->
    run_m sched s = Some s' -> Inv parse paths (proto s') /\ InvM parse content paths s'.
  Proof.
    induction sched as [|l rest IH]; cbn [MergeDirMerge.run_m]; intros s s' I IM H.
    - injection H as <-. now split.
    - destruct (fire_m sel parse content add_ok l s) as [s1|] eqn:F; [|discriminate].
      assert (I1 : Inv parse paths (proto s1)).
      { eapply inv_step; [|exact I]. eapply fire_step. eapply fire_m_proto. exact F. }
      eapply IH; [exact I1| |exact H]. eapply invm_step; eassumption.
  Qed.

  Lemma reach_m sched s : run_m sched (init_m n paths) = Some s ->
    run sched (init n paths) = Some (proto s) /\ Inv parse paths (proto s) /\ InvM parse content paths s.
  Proof.
    intros H. split; [exact (run_m_proto _ _ _ _ _ _ _ H)|].
    eapply invm_run; [| |exact H]; [apply inv_init|apply invm_init].
  Qed.

  (* every schedule of the protocol is a schedule of the extended system and vice versa *)
  Theorem same_schedules sched :
    (forall t, run sched (init n paths) = Some t -> exists s, run_m sched (init_m n paths) = Some s /\ proto s = t) /\
    (forall s, run_m sched (init_m n paths) = Some s -> run sched (init n paths) = Some (proto s)).
  Proof.
    split.
    - intros t H. exact (run_m_some sel parse content add_ok sched (init_m n paths) t H).
    - intros s H. exact (run_m_proto _ _ _ _ _ _ _ H).
  Qed.

  (* in EVERY reachable state (any schedule, any n) the shared out-file list is the Merge model's
     state for the files added so far, in the order in which the merger received them *)
  Theorem sorted_is_merge_state sched s : run_m sched (init_m n paths) = Some s ->
    match seeded s with
    | None => sorted s = [zero_ofile] /\ arrivals s = []
    | Some f0 => sorted s = build_state (header_only (content f0) :: map content (arrivals s))
                 /\ In f0 (files_of parse paths)
    end.
  Proof.
    intros H. destruct (reach_m _ _ H) as (_ & _ & IM). unfold InvM in IM.
    destruct (seeded s) as [f0|].
    - destruct IM as [E Hin]. split; [|exact Hin]. now rewrite build_state_header_only.
    - destruct IM as [E (M & _ & _)]. split; [exact E|]. unfold arrivals. now rewrite M.
  Qed.

  (* THE characterisation: whatever the interleaving, a run that returns without error returns
     exactly what MergeFilesWith returns on  [header of the seeding file] :: files in arrival order,
     where the arrivals are a permutation of the directory's files and the seeding file is one of
     them (no file at all: MergeFilesWith(nil)) *)
  Theorem output_exact c sched s out : run_m sched (init_m n paths) = Some s ->
    terminal (proto s) = true -> result_m c s = Some out ->
    Permutation (arrivals s) (files_of parse paths) /\
    (forall p, In p paths -> parse p <> PErr) /\
    match seeded s with None => arrivals s = [] | Some f0 => In f0 (arrivals s) end /\
    out = merge_files (as_mergefiles_input (option_map content (seeded s)) (map content (arrivals s))) c.
  Proof.
    intros H Ht Hr. destruct (reach_m _ _ H) as (Hp & _ & IM).
    unfold result_m in Hr. destruct (gcancel (proto s)) eqn:G; [discriminate|]. injection Hr as <-.
    assert (R : result_of (proto s) = ROk (merged (proto s))) by (unfold result_of; now rewrite G).
    destruct (result_ok _ _ _ _ _ _ _ _ Hp Ht R) as [P NoErr].
    assert (P' : Permutation (arrivals s) (files_of parse paths)).
    { unfold arrivals. eapply Permutation_trans; [apply Permutation_sym, Permutation_rev|exact P]. }
    split; [exact P'|]. split; [exact NoErr|].
    unfold InvM in IM. unfold output_of. destruct (seeded s) as [f0|]; cbn [option_map as_mergefiles_input].
    - destruct IM as [E Hin]. split.
      + eapply Permutation_in; [apply Permutation_sym; exact P'|exact Hin].
      + rewrite E. symmetry. apply merge_files_header_only.
    - destruct IM as [E (M & _ & _)]. unfold arrivals. rewrite M, E. cbn [rev map]. split; [reflexivity|apply convert_zero].
  Qed.

  (* C10 proper: the result has the same entry identities (routing pair, the seven header fields
     BatchHeader.Equal compares, entry) as MergeFiles over the directory's files, as multisets *)
  Theorem equals_mergefiles c sched s out : run_m sched (init_m n paths) = Some s ->
    terminal (proto s) = true -> result_m c s = Some out ->
    Permutation (ids_out out) (ids_out (merge_files dir_files c)).
  Proof.
    intros H Ht Hr. destruct (output_exact c sched s out H Ht Hr) as (P & _ & _ & ->).
    eapply Permutation_trans; [apply merge_conservation|].
    rewrite ids_in_as_input.
    eapply Permutation_trans; [|apply Permutation_sym, merge_conservation].
    apply ids_in_perm. unfold dir_files. now apply Permutation_map.
  Qed.

  (* ... in particular per routing pair *)
  Theorem equals_mergefiles_per_route c sched s out (sel_route : route_t -> bool) :
    run_m sched (init_m n paths) = Some s -> terminal (proto s) = true -> result_m c s = Some out ->
    Permutation (filter (fun i => sel_route (fst (fst i))) (ids_out out))
                (filter (fun i => sel_route (fst (fst i))) (ids_out (merge_files dir_files c))).
  Proof. intros H Ht Hr. apply filter_perm. eapply equals_mergefiles; eassumption. Qed.

  (* the result is the MergeFiles result of SOME ordering of the directory's files whenever the
     file that seeded the header is also the first to reach the merger *)
  Theorem output_is_a_mergefiles_result c sched s out f0 rest : run_m sched (init_m n paths) = Some s ->
    terminal (proto s) = true -> result_m c s = Some out ->
    seeded s = Some f0 -> arrivals s = f0 :: rest ->
    out = merge_files (map content (arrivals s)) c /\ Permutation (map content (arrivals s)) dir_files.
  Proof.
    intros H Ht Hr Hs Ha. destruct (output_exact c sched s out H Ht Hr) as (P & _ & _ & ->).
    split; [|unfold dir_files; now apply Permutation_map].
    rewrite Hs, Ha. cbn [option_map as_mergefiles_input map]. unfold merge_files.
    now rewrite build_state_header_only, build_state_dir_state.
  Qed.
End MMain.

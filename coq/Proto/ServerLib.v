(* C17, phase 2 — a CONCRETE interpretation of the library symbols of Proto/Server.v.

   Server.v keeps a stored file as a symbolic term over library calls and its theorems
   hold for every interpretation of those calls; C17_unchanged_if_tabulated takes what it
   needs of the library as hypotheses.  Here the value of a stored file is the state of
   the models of the properties that own those library functions:

     lf_off : Offsets.file   C05 — what File.Create / Batch.build read and write: header
                             verdict, per batch (ODFI, service class, number, entries
                             with their trace numbers, batch control, offset), file
                             control.  f_batches stands for File.Batches ++ File.IATBatches
                             (Create runs the same loop over both with one batchSeq).
     lf_pur : Purity.file    C14 — what Validate / Write / MarshalJSON / String can write:
                             per element of File.Batches whether Header / Control is nil
                             and the SEC code (File.IsADV installs the missing ones).
     lf_opts                 the three bits of File.validateOpts that File.Create reads
     lf_id                   File.ID

   and every library call the handlers make on the STORED object is the function of the
   owning model, composed in the order of server/service.go.  Executable definitions only.

   Outcomes that depend on parts of the file outside these views (verdict of
   FileHeader.ValidateWith and of the whole Validate, which entries the Batch.Create of a
   consolidated / segmented batch reaches and at which position, decoded bodies, results
   of FlattenBatches / SegmentFile as new objects) are LABELS: functions of the value the
   call is applied to, arbitrary in every theorem. *)
From Coq Require Import List ZArith NArith Bool.
Import ListNotations.
From ACH Require Import Server.
From ACH Require Offsets Purity.

(* ---------------------------------------------------------------- values *)

Record copts := mkco {
  co_skip : bool;      (* ValidateOpts.SkipAll *)
  co_nohdr : bool;     (* AllowMissingFileHeader *)
  co_zero : bool }.    (* AllowZeroBatches *)

Definition co_nil : copts := mkco false false false.   (* validateOpts == nil *)

Record lfile := mklf {
  lf_id : id;
  lf_opts : copts;
  lf_off : Offsets.file;
  lf_pur : Purity.file }.

Definition with_pur (v : lfile) (p : Purity.file) : lfile := mklf (lf_id v) (lf_opts v) (lf_off v) p.
Definition with_off (v : lfile) (f : Offsets.file) : lfile := mklf (lf_id v) (lf_opts v) f (lf_pur v).
Definition lsetid (v : lfile) (i : id) : lfile := mklf i (lf_opts v) (lf_off v) (lf_pur v).

Inductive cstat := SOk | SErr | SPanic.

(* ---------------------------------------------------------------- File.Create *)

Open Scope Z_scope.

(* the non-ADV branch past the guards: the loop over Batches and IATBatches and the new
   FileControl — Offsets.file_create without its two guards (which read validateOpts) *)
Definition tabulate (f : Offsets.file) : Offsets.file :=
  let bs := Offsets.renumber 1 (Offsets.f_batches f) in
  Offsets.mkfile (Offsets.f_hdr_ok f) bs (Offsets.file_control bs).

(* createFileADV writes Header.BatchNumber and ADVControl.BatchNumber (the ADV control and
   the ADV file control are outside the view: only the header number shows) *)
Definition set_hnum (b : Offsets.batch) (n : Z) : Offsets.batch :=
  Offsets.mkbatch (Offsets.b_hdr_ok b) (Offsets.b_odfi b) (Offsets.b_svc b) n
                  (Offsets.b_entries b) (Offsets.b_ctl b) (Offsets.b_off b).

(* createFileADV: for i, batch := range f.Batches { if SEC != ADV { return ErrFileADVOnly };
   renumber }.  IsADV returned at the first ADV batch, so a later element may still have a
   nil header: batch.GetHeader().StandardEntryClassCode then panics.  IAT batches are not
   visited. *)
Fixpoint adv_renumber (seq : Z) (bs : list Offsets.batch) (ps : Purity.file) : list Offsets.batch * cstat :=
  match bs, ps with
  | b :: r, p :: pr =>
      match Purity.b_hdr p with
      | None => (b :: r, SPanic)
      | Some _ =>
          if Purity.is_adv p then
            let b' := if Offsets.b_num b <=? 1 then set_hnum b seq else b in
            let rr := adv_renumber (seq + 1) r pr in (b' :: fst rr, snd rr)
          else (b :: r, SErr)
      end
  | _, _ => (bs, SOk)
  end.

Definition is_nil {A} (l : list A) : bool := match l with [] => true | _ => false end.

(* File.Create (file.go) on the stored object, as coded:
     opts := f.validateOpts (nil: all false)
     if !SkipAll { if !AllowMissingFileHeader { Header.Validate() }; if !AllowZeroBatches && no batches { error } }
     if !f.IsADV() { loop over Batches, IATBatches; f.Control = fc } else { createFileADV() } *)
Definition lcreate (v : lfile) : cstat * lfile :=
  let o := lf_opts v in
  let f := lf_off v in
  if negb (co_skip o) && negb (co_nohdr o) && negb (Offsets.f_hdr_ok f) then (SErr, v)
  else if negb (co_skip o) && negb (co_zero o) && is_nil (Offsets.f_batches f) then (SErr, v)
  else
    let r := Purity.isADV (lf_pur v) in
    if snd r then
      let a := adv_renumber 1 (Offsets.f_batches f) (fst r) in
      (snd a, mklf (lf_id v) o (Offsets.mkfile (Offsets.f_hdr_ok f) (fst a) (Offsets.f_ctl f)) (fst r))
    else (SOk, mklf (lf_id v) o (tabulate f) (fst r)).

Definition lcreate' (v : lfile) : lfile := snd (lcreate v).

(* ---------------------------------------------------------------- the read-only calls (C14) *)

Definition lop (o : Purity.op) (v : lfile) : lfile := with_pur v (Purity.step (lf_pur v) o).

Definition lmarshal : lfile -> lfile := lop Purity.OMarshalJSON.             (* json.Marshal of the file / its batches *)
Definition lvalidate (vf : Purity.vflags) : lfile -> lfile := lop (Purity.OValidateWith vf).

(* service.GetFileContents: f.Create(); on success NewWriterWithOpts(&buf, opts).Write(f) *)
Definition lcontents (wf : lfile -> Purity.vflags) (v : lfile) : lfile :=
  let r := lcreate v in
  match fst r with
  | SOk => lop (Purity.OWriteValidating (wf (snd r))) (snd r)
  | _ => snd r
  end.

(* service.BuildFile: file.Create(); the response encoder marshals the file *)
Definition lbuild (v : lfile) : lfile := lmarshal (lcreate' v).

(* ---------------------------------------------------------------- FlattenBatches / SegmentFile: what reaches the receiver *)

(* The consolidated batch of Flatten (mergeableBatcher.Copy / Consume) and the two fresh
   batches of segmentFileBatches / segmentFileIATBatches get their OWN header, control and
   Entries slice, but the slice holds the receiver's *EntryDetail pointers.  Batch.build of
   the new batch then writes through them:
     entry.SetTraceNumber(Header.ODFIIdentification, seq)   when the first 8 digits of the
                                                            trace differ from the header's ODFI
   (seq = position in the NEW batch), and segmentFileIATBatches first does
     IATEntry.TraceNumber = ""                              on every entry of a mixed IAT batch.
   (Addenda05 sequence numbers and ADVEntryDetail.SequenceNumber are rewritten the same way;
   they are outside the Offsets view — the direct check of harness/cmd/c17 lib covers them.)
   The new batch copies the ODFI of the stored one, so [b_odfi] of the stored batch is the
   ODFI the trace is compared with. *)
Record touch := mktouch {
  t_sel : nat -> nat -> bool;   (* the build of a new batch holding entry j of stored batch i reached that entry in its trace loop *)
  t_reset : nat -> bool;        (* stored batch i is a mixed IAT batch being segmented: TraceNumber = "" first *)
  t_pos : nat -> nat -> Z }.    (* seq of entry j of stored batch i in the new batch *)

Definition touch_entry (odfi : Z) (sel reset : bool) (s : Z) (e : Offsets.entry) : Offsets.entry :=
  let e0 := if reset then Offsets.set_trace e 0 else e in
  if sel && negb (Offsets.trace_odfi (Offsets.e_trace e0) =? odfi)
  then Offsets.set_trace e0 (odfi * Offsets.P7 + s mod Offsets.P7)
  else e0.

Fixpoint touch_entries (odfi : Z) (sel : nat -> bool) (reset : bool) (pos : nat -> Z) (j : nat) (es : list Offsets.entry) : list Offsets.entry :=
  match es with
  | [] => []
  | e :: r => touch_entry odfi (sel j) reset (pos j) e :: touch_entries odfi sel reset pos (S j) r
  end.

(* the stored batch keeps its own control: nothing recomputes it *)
Definition with_entries (b : Offsets.batch) (es : list Offsets.entry) : Offsets.batch :=
  Offsets.mkbatch (Offsets.b_hdr_ok b) (Offsets.b_odfi b) (Offsets.b_svc b) (Offsets.b_num b) es
                  (Offsets.b_ctl b) (Offsets.b_off b).

Fixpoint touch_batches (t : touch) (i : nat) (bs : list Offsets.batch) : list Offsets.batch :=
  match bs with
  | [] => []
  | b :: r => with_entries b (touch_entries (Offsets.b_odfi b) (t_sel t i) (t_reset t i) (t_pos t i) 0 (Offsets.b_entries b))
              :: touch_batches t (S i) r
  end.

Definition ltouch (t : touch) (v : lfile) : lfile :=
  with_off v (Offsets.with_batches (lf_off v) (touch_batches t 0 (Offsets.f_batches (lf_off v)))).

Definition no_reset (t : touch) : touch := mktouch (t_sel t) (fun _ => false) (t_pos t).

(* SegmentFile hands a credits-only / debits-only batch itself (header, control and all)
   to the credit / debit file; that file's Create then renumbers it when its number is <= 1:
   the new number is its position in the half. *)
Record share := mkshare {
  s_half : nat -> option bool;      (* stored batch i is handed whole to the credit (true) / debit (false) file *)
  s_in : bool -> nat -> bool;       (* stored batch i contributes a batch to that half *)
  s_created : bool -> bool }.       (* that half's File.Create passed its guards *)

Fixpoint count_below (p : nat -> bool) (i : nat) : Z :=
  match i with O => 0 | S k => (if p k then 1 else 0) + count_below p k end.

Fixpoint share_batches (s : share) (i : nat) (bs : list Offsets.batch) : list Offsets.batch :=
  match bs with
  | [] => []
  | b :: r =>
      (match s_half s i with
       | Some h => if s_created s h && (Offsets.b_num b <=? 1)
                   then Offsets.set_num b (1 + count_below (s_in s h) i) else b
       | None => b
       end) :: share_batches s (S i) r
  end.

Definition lshare (s : share) (v : lfile) : lfile :=
  with_off v (Offsets.with_batches (lf_off v) (share_batches s 0 (Offsets.f_batches (lf_off v)))).

(* ---------------------------------------------------------------- labels *)

Record labels := mklab {
  l_parse : fmt -> body -> opts -> lfile;       (* what decodeCreateFileRequest built from pool body b *)
  l_parseb : fmt -> body -> lfile;
  l_vf : lfile -> opts -> Purity.vflags;        (* outcome bits of ValidateWith(o) on that file *)
  l_wf : lfile -> Purity.vflags;                (* of the Validate inside Writer.Write *)
  l_sv : lfile -> Purity.vflags;                (* of the Validate that opens SegmentFile *)
  l_flat : lfile -> touch;                      (* FlattenBatches on that file *)
  l_seg : lfile -> touch;                       (* SegmentFile on that file *)
  l_share : lfile -> share;
  l_addb : lfile -> body -> lfile;              (* service.CreateBatch + StoreBatch *)
  l_delb : lfile -> bid -> lfile;               (* repository.DeleteBatch *)
  l_flatres : lfile -> id -> lfile;             (* the new objects *)
  l_cred : lfile -> id -> lfile;
  l_deb : lfile -> id -> lfile;
  l_offs : offs -> Offsets.offcfg;              (* the decoded ach.Offset of pool index o *)
  l_balv : lfile -> nat -> bool }.              (* BalanceFile: verdict of the SEC specific Validate closing Batch.Create of batch i *)

(* service.FlattenBatches: f.Create(); on success f.FlattenBatches() *)
Definition lflatsrc (L : labels) (v : lfile) : lfile :=
  let r := lcreate v in
  match fst r with
  | SOk => ltouch (no_reset (l_flat L (snd r))) (snd r)
  | _ => snd r
  end.

(* service.SegmentFile: file.Create(); on success file.SegmentFile(): f.Validate() first
   (= ValidateWith(f.validateOpts)), an error returns; then the batches are split / shared
   and the halves created *)
Definition lsegsrc (L : labels) (v : lfile) : lfile :=
  let r := lcreate v in
  match fst r with
  | SOk =>
      let vf := l_sv L (snd r) in
      let v1 := lop (Purity.OValidate vf) (snd r) in
      if Purity.v_ok vf then lshare (l_share L v1) (ltouch (l_seg L v1) v1) else v1
  | _ => snd r
  end.

(* ---------------------------------------------------------------- service.BalanceFile *)

Definition with_offcfg (b : Offsets.batch) (o : Offsets.offcfg) : Offsets.batch :=
  Offsets.mkbatch (Offsets.b_hdr_ok b) (Offsets.b_odfi b) (Offsets.b_svc b) (Offsets.b_num b)
                  (Offsets.b_entries b) (Offsets.b_ctl b) (Some o).

(* for i := range f.Batches { f.Batches[i].WithOffset(off); if err := f.Batches[i].Create(); err != nil { return } }
   — Batch.Create = build, then the SEC specific Validate (its verdict on batch i is the
   label [vok i]); the first failing batch keeps what its build left, the rest is not reached.
   (A build that panics or hangs would end the loop the same way; C05_build_total: never.) *)
Fixpoint bal_batches (T : Offsets.otable) (o : Offsets.offcfg) (vok : nat -> bool) (i : nat) (bs : list Offsets.batch)
  : bool * list Offsets.batch :=
  match bs with
  | [] => (true, [])
  | b :: r =>
      match Offsets.build T (with_offcfg b o) with
      | Offsets.Ret true b' =>
          if vok i then let rr := bal_batches T o vok (S i) r in (fst rr, b' :: snd rr) else (false, b' :: r)
      | Offsets.Ret false b' => (false, b' :: r)
      | _ => (false, with_offcfg b o :: r)
      end
  end.

(* f.Create(); the loop; f.ID = base.ID(); f.Create(); StoreFile(f) — all on the stored object *)
Definition lbal (T : Offsets.otable) (L : labels) (v : lfile) (o : offs) (i : id) : lfile :=
  let r := lcreate v in
  match fst r with
  | SOk =>
      let v1 := snd r in
      let bb := bal_batches T (l_offs L o) (l_balv L v1) 0 (Offsets.f_batches (lf_off v1)) in
      let v2 := with_off v1 (Offsets.with_batches (lf_off v1) (snd bb)) in
      if fst bb then lcreate' (lsetid v2 i) else v2
  | _ => snd r
  end.

(* ---------------------------------------------------------------- the store of values *)

Open Scope N_scope.

Record vstate := VState { vfiles : list (id * lfile); vnid : N }.

Definition vinit : vstate := VState [] 0.

Definition vset (m : vstate) (i : id) (v : lfile) : vstate := VState (update (vfiles m) i v) (vnid m).

Definition von (m : vstate) (i : id) (k : lfile -> lfile) : vstate :=
  match lookup (vfiles m) i with
  | None => m
  | Some v => vset m i (k v)
  end.

Definition valloc (m : vstate) (f : N -> lfile) : vstate :=
  VState ((Gen (vnid m), f (vnid m)) :: vfiles m) (vnid m + 1).

Definition valloc_if (b : bool) (m : vstate) (f : N -> lfile) : vstate := if b then valloc m f else m.

(* The handlers of server/files.go, batches.go on a map ID -> value, with every library
   call they make on the stored object — the mutating ones of Server.gstep false AND the
   read-only ones (marshalling of the response, ValidateWith, Writer.Write), which the term
   machine leaves out because C14 says they store nothing. *)
Definition vstep (T : Offsets.otable) (L : labels) (m : vstate) (r : request) : vstate :=
  match r with
  | RCreate f b o url bodyid =>
      let (i, n') := resolve url bodyid (vnid m) in
      match lookup (vfiles m) i with
      | Some _ => VState (vfiles m) n'
      | None => VState ((i, lsetid (l_parse L f b o) i) :: vfiles m) n'
      end
  | RGet i => von m i lmarshal
  | RList => VState (map (fun iv => (fst iv, lmarshal (snd iv))) (vfiles m)) (vnid m)
  | RContents i _ => von m i (lcontents (l_wf L))
  | RValidate i o => von m i (fun v => lvalidate (l_vf L v o) v)
  | RBuild i => von m i lbuild
  | RDelete i => VState (remove (vfiles m) i) (vnid m)
  | RAddBatch i b decodes dup =>
      if negb decodes then m else if dup then m else von m i (fun v => l_addb L v b)
  | RGetBatch i _ => von m i lmarshal
  | RListBatches i => von m i lmarshal
  | RDeleteBatch i k => von m i (fun v => l_delb L v k)
  | RFlatten i ok =>
      match lookup (vfiles m) i with
      | None => m
      | Some v => valloc_if ok (vset m i (lflatsrc L v)) (fun n => l_flatres L (lcreate' v) (Gen n))
      end
  | RSegment i ok hc hd =>
      match lookup (vfiles m) i with
      | None => m
      | Some v =>
          let m1 := vset m i (lsegsrc L v) in
          let m2 := valloc_if (ok && hc) m1 (fun n => l_cred L (lcreate' v) (Gen n)) in
          valloc_if (ok && hd) m2 (fun n => l_deb L (lcreate' v) (Gen n))
      end
  | RSegmentBody f b ok hc hd =>
      let v := l_parseb L f b in
      let m2 := valloc_if (ok && hc) m (fun n => l_cred L (lcreate' v) (Gen n)) in
      valloc_if (ok && hd) m2 (fun n => l_deb L (lcreate' v) (Gen n))
  | RBalance i o ok =>
      match lookup (vfiles m) i with
      | None => m
      | Some v =>
          let v' := lbal T L v o (Gen (vnid m)) in
          if ok then VState ((Gen (vnid m), v') :: update (vfiles m) i v') (vnid m + 1)
          else vset m i v'
      end
  end.

Definition vrun (T : Offsets.otable) (L : labels) (m : vstate) (rs : list request) : vstate :=
  fold_left (vstep T L) rs m.

(* what GET i returns: the stored value *)
Definition vshows (m : vstate) (i : id) : option lfile := lookup (vfiles m) i.

Definition vold (m : vstate) (i : id) : Prop := match i with Gen k => k < vnid m | Client _ => True end.

(* the read requests that run neither FlattenBatches nor SegmentFile on a stored file *)
Definition plainread (r : request) : bool :=
  match r with
  | RGet _ | RList | RContents _ _ | RValidate _ _ | RBuild _ | RGetBatch _ _ | RListBatches _
  | RSegmentBody _ _ _ _ _ => true
  | _ => false
  end.

(* ---------------------------------------------------------------- predicates on stored values *)

(* every entry carries its batch header's ODFI in the first eight digits of its trace
   number: what Batch.build leaves behind (C05_traces_assigned) *)
Definition traced_batch (b : Offsets.batch) : bool :=
  forallb (fun e => Offsets.trace_odfi (Offsets.e_trace e) =? Offsets.b_odfi b)%Z (Offsets.b_entries b).

Definition traced (v : lfile) : bool := forallb traced_batch (Offsets.f_batches (lf_off v)).

(* the concrete interpretation of Server's library symbols (for ServerFacts.den) *)
Definition lib_create : lfile -> lfile := lcreate'.
Definition lib_bal (T : Offsets.otable) (L : labels) : lfile -> offs -> id -> lfile := lbal T L.

(* C17, phase 4 — records shared BETWEEN stored files.

   Server.v keeps one symbolic term per stored object and ServerLib.v one value per stored
   object: neither can say that the file POST /files/{id}/flatten stores holds the very
   *EntryDetail pointers of the file it was made from, that SegmentFile hands a credits-only
   batch to the credit file as the same object, or that a later request on the derived file
   writes into the source.  Here the store is the pointer graph the code builds:

     ID  ->  file object  ->  batch cells  ->  entry cells

     ss_store : ID -> file pointer        repositoryInMemory.files (BalanceFile binds a second ID to the same pointer)
     ss_file  : pointer -> fobj           *ach.File: ID, the validateOpts bits File.Create and SegmentFile read, header
                                          verdict, File.Batches and File.IATBatches as lists of batch pointers, FileControl
     ss_bat   : pointer -> bcell          a Batcher / the header+control+entries an IATBatch value points to: header
                                          verdict, ODFI, ServiceClassCode, Header.BatchNumber, the batch's validateOpts
                                          bit that stops Batch.build from assigning trace numbers, BatchControl, Entries
                                          as a list of entry pointers
     ss_ent   : pointer -> ecell          *EntryDetail / *IATEntryDetail: TraceNumber (everything else of an entry is
                                          never written by a handler)

   and every route is written out as the heap writes it performs, in the order of
   server/files.go, server/batches.go, server/service.go, file.go (Create, SegmentFile),
   file_flattener.go, batch.go (build):

     File.Create        renumbers Header/Control.BatchNumber <= 1 IN the batch cells (shared with whoever
                        holds the same batch), recomputes the file control from the batch controls
     Batch.build        SetTraceNumber(ODFI, seq) IN the entry cells whose first eight digits differ from
                        the header's ODFI (unless the batch's validateOpts say Bypass/Custom)
     FlattenBatches     new batch cells (own header, own control, own Entries slice) whose Entries are the
                        receiver's entry cells; Batch.Create on each; a new file object
     SegmentFile        a mixed batch: two new batch cells over the receiver's entry cells, Batch.Create on
                        each; a credits-only / debits-only batch: THE SAME batch cell in the half; a mixed
                        IAT batch first gets TraceNumber = "" in every entry cell
     BalanceFile        Batch.Create on the receiver's own batch cells, new Entries list (offset entries are
                        fresh cells), new ID on the same file object, a second store binding
     AddBatch / DeleteBatch   the file object's own Batches list

   What only the library can know (how a body parses, which entries FlattenBatches puts into
   which consolidated batch and in which order, which entries are credits, the control record a
   Batch.Create computed, verdicts of Validate) LABELS the request; every theorem holds for all
   labels, the correspondence run reads them off the real objects.

   [fo_fam], [bc_fam], [ec_fam] are GHOST fields: the family (create request or posted segment
   body) an object descends from.  No step reads them (ServerShareFacts.sstep_ghost_free); the
   separation invariant is stated with them.  Executable definitions only. *)
From Coq Require Import List ZArith NArith Bool.
Import ListNotations.
From ACH Require Import Server ServerLib.
From ACH Require Offsets.

Open Scope N_scope.

(* ---------------------------------------------------------------- cells *)

Record ecell := mkec { ec_fam : N; ec_trace : Z }.

Record bcell := mkbc {
  bc_fam : N;
  bc_iat : bool;            (* element of File.IATBatches *)
  bc_adv : bool;            (* Header.StandardEntryClassCode == ADV: Entries is empty, ADVEntries are outside this view *)
  bc_hdr_ok : bool;         (* Header.Validate() == nil *)
  bc_odfi : Z;              (* Atoi(Header.ODFIIdentificationField()[:8]) *)
  bc_keep : bool;           (* validateOpts != nil && (BypassOriginValidation || CustomTraceNumbers) *)
  bc_svc : Z;               (* Header.ServiceClassCode *)
  bc_num : Z;               (* Header.BatchNumber *)
  bc_ents : list N;         (* Entries *)
  bc_ctl : Offsets.control }.

Record fobj := mkfo {
  fo_fam : N;
  fo_id : id;
  fo_opts : copts;          (* the bits of File.validateOpts File.Create reads *)
  fo_keep : bool;           (* File.validateOpts: BypassOriginValidation || CustomTraceNumbers (SegmentFile merges it into the split batches) *)
  fo_hdr_ok : bool;
  fo_bats : list N;         (* File.Batches *)
  fo_iats : list N;         (* File.IATBatches *)
  fo_ctl : Offsets.fctl }.

Record sstate := mkss {
  ss_store : list (id * N);
  ss_file : N -> fobj;
  ss_bat : N -> bcell;
  ss_ent : N -> ecell;
  ss_nid : N;               (* random IDs drawn so far that were stored *)
  ss_nf : N; ss_nb : N; ss_ne : N;   (* allocation pointers *)
  ss_nfam : N }.

Definition zctl : Offsets.control := Offsets.mkctl 0 0 0 0 0 0.
Definition zfctl : Offsets.fctl := Offsets.mkfctl 0 0 0 0 0 0.

Definition sinit : sstate :=
  mkss [] (fun _ => mkfo 0 (Client 0) co_nil false false [] [] zfctl)
       (fun _ => mkbc 0 false false false 0 false 0 0 [] zctl)
       (fun _ => mkec 0 0) 0 0 0 0 0.

(* ---------------------------------------------------------------- heap primitives *)

Definition hupd {A} (h : N -> A) (p : N) (a : A) : N -> A := fun q => if q =? p then a else h q.

Definition set_ent (s : sstate) (e : N) (c : ecell) : sstate :=
  mkss (ss_store s) (ss_file s) (ss_bat s) (hupd (ss_ent s) e c) (ss_nid s) (ss_nf s) (ss_nb s) (ss_ne s) (ss_nfam s).
Definition set_bat (s : sstate) (q : N) (b : bcell) : sstate :=
  mkss (ss_store s) (ss_file s) (hupd (ss_bat s) q b) (ss_ent s) (ss_nid s) (ss_nf s) (ss_nb s) (ss_ne s) (ss_nfam s).
Definition set_file (s : sstate) (p : N) (f : fobj) : sstate :=
  mkss (ss_store s) (hupd (ss_file s) p f) (ss_bat s) (ss_ent s) (ss_nid s) (ss_nf s) (ss_nb s) (ss_ne s) (ss_nfam s).
Definition set_store (s : sstate) (l : list (id * N)) (nid : N) : sstate :=
  mkss l (ss_file s) (ss_bat s) (ss_ent s) nid (ss_nf s) (ss_nb s) (ss_ne s) (ss_nfam s).

Definition new_ent (s : sstate) (c : ecell) : sstate * N :=
  (mkss (ss_store s) (ss_file s) (ss_bat s) (hupd (ss_ent s) (ss_ne s) c) (ss_nid s) (ss_nf s) (ss_nb s) (ss_ne s + 1) (ss_nfam s),
   ss_ne s).
Definition new_bat (s : sstate) (b : bcell) : sstate * N :=
  (mkss (ss_store s) (ss_file s) (hupd (ss_bat s) (ss_nb s) b) (ss_ent s) (ss_nid s) (ss_nf s) (ss_nb s + 1) (ss_ne s) (ss_nfam s),
   ss_nb s).
Definition new_file (s : sstate) (f : fobj) : sstate * N :=
  (mkss (ss_store s) (hupd (ss_file s) (ss_nf s) f) (ss_bat s) (ss_ent s) (ss_nid s) (ss_nf s + 1) (ss_nb s) (ss_ne s) (ss_nfam s),
   ss_nf s).
Definition new_fam (s : sstate) : sstate * N :=
  (mkss (ss_store s) (ss_file s) (ss_bat s) (ss_ent s) (ss_nid s) (ss_nf s) (ss_nb s) (ss_ne s) (ss_nfam s + 1), ss_nfam s).

(* field updates that keep family and references *)
Definition eset_trace (c : ecell) (t : Z) : ecell := mkec (ec_fam c) t.

Definition cset_num (c : Offsets.control) (n : Z) : Offsets.control :=
  Offsets.mkctl (Offsets.c_svc c) n (Offsets.c_count c) (Offsets.c_hash c) (Offsets.c_credit c) (Offsets.c_debit c).

(* Header.BatchNumber = n; Control.BatchNumber = n *)
Definition bset_num (b : bcell) (n : Z) : bcell :=
  mkbc (bc_fam b) (bc_iat b) (bc_adv b) (bc_hdr_ok b) (bc_odfi b) (bc_keep b) (bc_svc b) n (bc_ents b) (cset_num (bc_ctl b) n).
(* createFileADV: Header.BatchNumber = n; ADVControl.BatchNumber = n (the ADV control is outside the view) *)
Definition bset_hnum (b : bcell) (n : Z) : bcell :=
  mkbc (bc_fam b) (bc_iat b) (bc_adv b) (bc_hdr_ok b) (bc_odfi b) (bc_keep b) (bc_svc b) n (bc_ents b) (bc_ctl b).
(* what an observed write to the two numbers leaves (failed SegmentFile) *)
Definition bset_nums (b : bcell) (n cn : Z) : bcell :=
  mkbc (bc_fam b) (bc_iat b) (bc_adv b) (bc_hdr_ok b) (bc_odfi b) (bc_keep b) (bc_svc b) n (bc_ents b) (cset_num (bc_ctl b) cn).
(* Batch.Create of BalanceFile: new Entries, new control, Header.ServiceClassCode *)
Definition bset_res (b : bcell) (es : list N) (c : Offsets.control) (svc : Z) : bcell :=
  mkbc (bc_fam b) (bc_iat b) (bc_adv b) (bc_hdr_ok b) (bc_odfi b) (bc_keep b) svc (bc_num b) es c.

Definition fset_ctl (f : fobj) (c : Offsets.fctl) : fobj :=
  mkfo (fo_fam f) (fo_id f) (fo_opts f) (fo_keep f) (fo_hdr_ok f) (fo_bats f) (fo_iats f) c.
Definition fset_id (f : fobj) (i : id) : fobj :=
  mkfo (fo_fam f) i (fo_opts f) (fo_keep f) (fo_hdr_ok f) (fo_bats f) (fo_iats f) (fo_ctl f).
Definition fset_bats (f : fobj) (bs : list N) : fobj :=
  mkfo (fo_fam f) (fo_id f) (fo_opts f) (fo_keep f) (fo_hdr_ok f) bs (fo_iats f) (fo_ctl f).

Definition all_bats (f : fobj) : list N := fo_bats f ++ fo_iats f.

(* ---------------------------------------------------------------- File.Create on a file object *)

Open Scope Z_scope.

Fixpoint sumc (f : Offsets.control -> Z) (cs : list Offsets.control) : Z :=
  match cs with [] => 0 | c :: r => f c + sumc f r end.

(* the FileControl File.Create builds from the batch controls (= Offsets.file_control, ServerShareFacts.fctl_of_file_control) *)
Definition fctl_of (cs : list Offsets.control) : Offsets.fctl :=
  let recs := 2 + sumc (fun c => 2 + Offsets.c_count c) cs in
  Offsets.mkfctl (Z.of_nat (length cs))
         (if Z.rem recs 10 =? 0 then Z.quot recs 10 else Z.quot recs 10 + 1)
         (sumc Offsets.c_count cs)
         (Z.rem (sumc Offsets.c_hash cs) Offsets.P10)
         (sumc Offsets.c_debit cs)
         (sumc Offsets.c_credit cs).

(* for i := range f.Batches { if Header.BatchNumber <= 1 { Header.BatchNumber = seq; Control.BatchNumber = seq }; seq++ }
   and the same loop over f.IATBatches with the same counter — writes INTO the batch cells *)
Fixpoint renum (s : sstate) (seq : Z) (qs : list N) : sstate :=
  match qs with
  | [] => s
  | q :: r => let b := ss_bat s q in
              renum (if bc_num b <=? 1 then set_bat s q (bset_num b seq) else s) (seq + 1) r
  end.

(* createFileADV: a batch that is not ADV ends the loop with ErrFileADVOnly, the numbers before it stay *)
Fixpoint renum_adv (s : sstate) (seq : Z) (qs : list N) : sstate * cstat :=
  match qs with
  | [] => (s, SOk)
  | q :: r => let b := ss_bat s q in
              if bc_adv b
              then renum_adv (if bc_num b <=? 1 then set_bat s q (bset_hnum b seq) else s) (seq + 1) r
              else (s, SErr)
  end.

Definition ctls (s : sstate) (qs : list N) : list Offsets.control := map (fun q => bc_ctl (ss_bat s q)) qs.

(* File.Create (file.go) on file object p: guards by validateOpts; IsADV = some element of
   f.Batches is ADV; ADV: IAT batches present -> ErrFileADVOnly, else createFileADV (the ADV
   file control is outside the view); otherwise the two loops and f.Control = fc *)
Definition s_create (s : sstate) (p : N) : sstate * cstat :=
  let f := ss_file s p in
  let o := fo_opts f in
  if negb (co_skip o) && negb (co_nohdr o) && negb (fo_hdr_ok f) then (s, SErr)
  else if negb (co_skip o) && negb (co_zero o) && is_nil (all_bats f) then (s, SErr)
  else if existsb (fun q => bc_adv (ss_bat s q)) (fo_bats f) then
    match fo_iats f with
    | _ :: _ => (s, SErr)
    | [] => renum_adv s 1 (fo_bats f)
    end
  else
    let s1 := renum s 1 (all_bats f) in
    (set_file s1 p (fset_ctl (ss_file s1 p) (fctl_of (ctls s1 (all_bats f)))), SOk).

(* ---------------------------------------------------------------- Batch.build: the trace loop *)

(* if currentTraceNumberODFI != batchHeaderODFI { if opts == nil || (!opts.Bypass && !opts.Custom) { entry.SetTraceNumber(ODFI, seq) } } *)
Definition retrace_cell (odfi : Z) (keep : bool) (seq : Z) (c : ecell) : ecell :=
  if keep || (Offsets.trace_odfi (ec_trace c) =? odfi) then c
  else eset_trace c (odfi * Offsets.P7 + seq mod Offsets.P7).

(* the loop reaches the first [reach] entries (an Atoi / addendaFieldInclusion error returns from inside it) *)
Fixpoint retrace_cells (s : sstate) (odfi : Z) (keep : bool) (seq : Z) (reach : nat) (es : list N) : sstate :=
  match reach, es with
  | S k, e :: r => retrace_cells (set_ent s e (retrace_cell odfi keep seq (ss_ent s e))) odfi keep (seq + 1) k r
  | _, _ => s
  end.

(* Batch.build on batch cell q up to the control record: nothing when the header does not
   validate (first statement of build) *)
Definition s_build (s : sstate) (q : N) (reach : nat) : sstate :=
  let b := ss_bat s q in
  if bc_hdr_ok b then retrace_cells s (bc_odfi b) (bc_keep b) 1 reach (bc_ents b) else s.

Open Scope N_scope.

(* ---------------------------------------------------------------- labels *)

(* what a body decodes to *)
Record pbatch := mkpb {
  pb_adv : bool; pb_hdr_ok : bool; pb_odfi : Z; pb_keep : bool; pb_svc : Z; pb_num : Z;
  pb_traces : list Z; pb_ctl : Offsets.control }.

Record pfile := mkpf {
  pf_opts : copts; pf_keep : bool; pf_hdr_ok : bool;
  pf_bats : list pbatch; pf_iats : list pbatch; pf_ctl : Offsets.fctl }.

(* a consolidated batch of FlattenBatches *)
Record group := mkgroup {
  g_srcs : list nat;           (* positions in Batches ++ IATBatches of the batches it consumed; the header is a copy of the first one's *)
  g_refs : list (nat * nat);   (* its Entries after the sort of AddToFile: (batch position, entry position) in the receiver *)
  g_ctl : Offsets.control }.   (* the control record its Batch.Create computed *)

(* an observed write into the receiver (requests that fail half way return no files to read the labels from) *)
Inductive write := WTrace (k j : nat) (t : Z) | WNum (k : nat) (n cn : Z).

Inductive flat_label :=
| FlatOk (gs : list group) (hdr_ok : bool)     (* hdr_ok: the new FileHeader validates *)
| FlatErr (ws : list write).

(* how SegmentFile splits the batch at one position (read only for a mixed batch) *)
Record split := mksplit {
  sp_c : list nat; sp_d : list nat;               (* entry positions that went to the credit / debit batch, in order *)
  sp_hasc : bool; sp_hasd : bool;                 (* that batch was added to its file (ADV: decided by ADVEntries) *)
  sp_chdr : bool; sp_dhdr : bool;                 (* the new header validates *)
  sp_creach : nat; sp_dreach : nat;               (* how far the trace loop of its (unchecked) Create got *)
  sp_cctl : Offsets.control; sp_dctl : Offsets.control }.

Definition no_split : split := mksplit [] [] false false false false 0 0 zctl zctl.

Inductive seg_label :=
| SegOk (sps : list split) (chdr dhdr : bool)   (* one split per batch position; the halves' FileHeader verdicts *)
| SegErr (valid : bool) (ws : list write).      (* valid = the f.Validate() that opens SegmentFile passed *)

(* Batch.Create of BalanceFile on one batch *)
Inductive eref := EOld (j : nat) | EFresh (t : Z).
Record ballab := mkbl {
  bl_reach : nat;                                         (* trace loop *)
  bl_res : option (list eref * Offsets.control * Z);      (* None: build returned before the control record; else Entries, control, ServiceClassCode it left *)
  bl_ok : bool }.                                         (* Create returned nil *)

Inductive srequest :=
| SCreate (url bodyid : option N) (pf : pfile)
| SGet (i : id)
| SList
| SContents (i : id)
| SValidate (i : id)
| SBuild (i : id)
| SDelete (i : id)
| SAddBatch (i : id) (decodes dup : bool) (b : pbatch)
| SGetBatch (i : id)
| SListBatches (i : id)
| SDelBatch (i : id) (pos : option nat)     (* position in File.Batches of the last batch carrying that ID *)
| SFlatten (i : id) (l : flat_label)
| SSegment (i : id) (l : seg_label)
| SSegmentBody (pf : pfile) (l : seg_label)
| SBalance (i : id) (o : offs) (ls : list ballab).

(* ---------------------------------------------------------------- allocation of decoded bodies *)

Fixpoint new_ents (s : sstate) (fam : N) (ts : list Z) : sstate * list N :=
  match ts with
  | [] => (s, [])
  | t :: r => let (s1, e) := new_ent s (mkec fam t) in
              let (s2, es) := new_ents s1 fam r in (s2, e :: es)
  end.

Definition new_pbatch (s : sstate) (fam : N) (iat : bool) (b : pbatch) : sstate * N :=
  let (s1, es) := new_ents s fam (pb_traces b) in
  new_bat s1 (mkbc fam iat (pb_adv b) (pb_hdr_ok b) (pb_odfi b) (pb_keep b) (pb_svc b) (pb_num b) es (pb_ctl b)).

Fixpoint new_pbatches (s : sstate) (fam : N) (iat : bool) (bs : list pbatch) : sstate * list N :=
  match bs with
  | [] => (s, [])
  | b :: r => let (s1, q) := new_pbatch s fam iat b in
              let (s2, qs) := new_pbatches s1 fam iat r in (s2, q :: qs)
  end.

Definition new_pfile (s : sstate) (fam : N) (i : id) (pf : pfile) : sstate * N :=
  let (s1, bs) := new_pbatches s fam false (pf_bats pf) in
  let (s2, js) := new_pbatches s1 fam true (pf_iats pf) in
  new_file s2 (mkfo fam i (pf_opts pf) (pf_keep pf) (pf_hdr_ok pf) bs js (pf_ctl pf)).

(* ---------------------------------------------------------------- references into a file object *)

Definition bat_at (s : sstate) (p : N) (k : nat) : option N := nth_error (all_bats (ss_file s p)) k.

Definition ent_at (s : sstate) (p : N) (kj : nat * nat) : option N :=
  match bat_at s p (fst kj) with
  | Some q => nth_error (bc_ents (ss_bat s q)) (snd kj)
  | None => None
  end.

Fixpoint somes {A} (l : list (option A)) : list A :=
  match l with
  | [] => []
  | Some a :: r => a :: somes r
  | None :: r => somes r
  end.

Definition picks {A} (l : list A) (js : list nat) : list A := somes (map (nth_error l) js).

(* observed writes, confined to the cells the file object reaches *)
Definition apply_write (p : N) (s : sstate) (w : write) : sstate :=
  match w with
  | WTrace k j t => match ent_at s p (k, j) with
                    | Some e => set_ent s e (eset_trace (ss_ent s e) t)
                    | None => s
                    end
  | WNum k n cn => match bat_at s p k with
                   | Some q => set_bat s q (bset_nums (ss_bat s q) n cn)
                   | None => s
                   end
  end.

Definition apply_writes (s : sstate) (p : N) (ws : list write) : sstate := fold_left (apply_write p) ws s.

(* ---------------------------------------------------------------- FlattenBatches *)

(* mergeable.Copy + Consume…: a new batch cell; AddToFile: sort, Batch.Create (the trace loop
   runs over all of its Entries: the flatten succeeded), Header.BatchNumber = 0, AddBatch / AddIATBatch *)
Definition flat_group (p : N) (acc : sstate * (list N * list N)) (g : group) : sstate * (list N * list N) :=
  let '(s, (bs, js)) := acc in
  let srcs := somes (map (bat_at s p) (g_srcs g)) in
  match srcs with
  | [] => acc
  | q0 :: _ =>
      let b0 := ss_bat s q0 in
      let es := somes (map (ent_at s p) (g_refs g)) in
      let keep := existsb (fun q => bc_keep (ss_bat s q)) srcs in
      let (s1, q) := new_bat s (mkbc (fo_fam (ss_file s p)) (bc_iat b0) (bc_adv b0) (bc_hdr_ok b0) (bc_odfi b0) keep
                                      (bc_svc b0) 0 es (g_ctl g)) in
      let s2 := s_build s1 q (length es) in
      if bc_iat b0 then (s2, (bs, js ++ [q])) else (s2, (bs ++ [q], js))
  end.

(* service.FlattenBatches + flattenBatchesEndpoint on file object p *)
Definition s_flatten (s : sstate) (p : N) (l : flat_label) : sstate :=
  let (s1, st) := s_create s p in
  match st with
  | SOk =>
      match l with
      | FlatErr ws => apply_writes s1 p ws
      | FlatOk gs hdr_ok =>
          let '(s2, (bs, js)) := fold_left (flat_group p) gs (s1, ([], [])) in
          let f := ss_file s2 p in
          let (s3, p') := new_file s2 (mkfo (fo_fam f) (Gen (ss_nid s2)) (fo_opts f) (fo_keep f) hdr_ok bs js zfctl) in
          let s4 := fst (s_create s3 p') in
          set_store s4 ((Gen (ss_nid s4), p') :: ss_store s4) (ss_nid s4 + 1)
      end
  | _ => s1
  end.

(* ---------------------------------------------------------------- SegmentFile *)

Definition svc_mixed : Z := 200.
Definition svc_credits : Z := 220.
Definition svc_debits : Z := 225.
Definition svc_adv : Z := 280.

Inductive segkind := KSplit | KWholeC | KWholeD | KDrop.

(* the switches of segmentFileBatches / segmentFileIATBatches *)
Definition seg_kind (b : bcell) : segkind :=
  if bc_iat b then
    (if (bc_svc b =? svc_mixed)%Z then KSplit else if (bc_svc b =? svc_credits)%Z then KWholeC
     else if (bc_svc b =? svc_debits)%Z then KWholeD else KDrop)
  else if bc_adv b then (if (bc_svc b =? svc_adv)%Z then KSplit else KDrop)
  else (if (bc_svc b =? svc_mixed)%Z then KSplit else if (bc_svc b =? svc_credits)%Z then KWholeC
        else if (bc_svc b =? svc_debits)%Z then KWholeD else KDrop).

(* IATEntry.TraceNumber = "" on every entry of a mixed IAT batch *)
Fixpoint reset_traces (s : sstate) (es : list N) : sstate :=
  match es with
  | [] => s
  | e :: r => reset_traces (set_ent s e (eset_trace (ss_ent s e) 0%Z)) r
  end.

Record halves := mkhalves { h_cb : list N; h_ci : list N; h_db : list N; h_di : list N }.

Definition add_half (credit : bool) (iat : bool) (q : N) (h : halves) : halves :=
  match credit, iat with
  | true, false => mkhalves (h_cb h ++ [q]) (h_ci h) (h_db h) (h_di h)
  | true, true => mkhalves (h_cb h) (h_ci h ++ [q]) (h_db h) (h_di h)
  | false, false => mkhalves (h_cb h) (h_ci h) (h_db h ++ [q]) (h_di h)
  | false, true => mkhalves (h_cb h) (h_ci h) (h_db h) (h_di h ++ [q])
  end.

(* createSegmentFileBatchHeader copies the batch number (IAT: NewIATBatchHeader leaves 1);
   setSegmentBatchValidation: f.validateOpts.merge(batch's) *)
Definition split_cell (fkeep : bool) (b : bcell) (credit : bool) (hdr_ok : bool) (es : list N) (c : Offsets.control) : bcell :=
  mkbc (bc_fam b) (bc_iat b) (bc_adv b) hdr_ok (bc_odfi b) (fkeep || bc_keep b)
       (if bc_adv b then svc_adv else if credit then svc_credits else svc_debits)
       (if bc_iat b then 1%Z else bc_num b) es c.

(* one batch of the receiver *)
Definition seg_batch (fkeep : bool) (acc : sstate * halves) (qsp : N * split) : sstate * halves :=
  let (s, h) := acc in
  let (q, sp) := qsp in
  let b := ss_bat s q in
  match seg_kind b with
  | KDrop => acc
  | KWholeC => (s, add_half true (bc_iat b) q h)
  | KWholeD => (s, add_half false (bc_iat b) q h)
  | KSplit =>
      (* fix 66a624ee: the trace numbers are cleared only when build will assign new ones, i.e. unless the
         merged options (file's and batch's) hold BypassOriginValidation or CustomTraceNumbers *)
      let s0 := if bc_iat b && negb (fkeep || bc_keep b) then reset_traces s (bc_ents b) else s in
      let ces := picks (bc_ents b) (sp_c sp) in
      let des := picks (bc_ents b) (sp_d sp) in
      (* both new batches are filled first, then creditBatch.Create(), then debitBatch.Create() *)
      let (s1, h1) :=
        if sp_hasc sp then
          let (s', qc) := new_bat s0 (split_cell fkeep b true (sp_chdr sp) ces (sp_cctl sp)) in
          (s_build s' qc (sp_creach sp), add_half true (bc_iat b) qc h)
        else (s0, h) in
      if sp_hasd sp then
        let (s', qd) := new_bat s1 (split_cell fkeep b false (sp_dhdr sp) des (sp_dctl sp)) in
        (s_build s' qd (sp_dreach sp), add_half false (bc_iat b) qd h1)
      else (s1, h1)
  end.

Fixpoint zip_splits (qs : list N) (sps : list split) : list (N * split) :=
  match qs with
  | [] => []
  | q :: r => (q, hd no_split sps) :: zip_splits r (tl sps)
  end.

(* a half that got batches: addFileHeaderData (new ID), Create; the endpoint stores it *)
Definition store_half (f : fobj) (hdr_ok : bool) (bs js : list N) (s : sstate) : sstate :=
  match bs ++ js with
  | [] => s
  | _ =>
      let (s1, p') := new_file s (mkfo (fo_fam f) (Gen (ss_nid s)) (fo_opts f) (fo_keep f) hdr_ok bs js zfctl) in
      let s2 := fst (s_create s1 p') in
      set_store s2 ((Gen (ss_nid s2), p') :: ss_store s2) (ss_nid s2 + 1)
  end.

(* service.SegmentFile + the endpoint on file object p *)
Definition s_segment (s : sstate) (p : N) (l : seg_label) : sstate :=
  let (s1, st) := s_create s p in
  match st with
  | SOk =>
      match l with
      | SegErr valid ws => if valid then apply_writes s1 p ws else s1
      | SegOk sps chdr dhdr =>
          let f := ss_file s1 p in
          let (s2, h) := fold_left (seg_batch (fo_keep f)) (zip_splits (all_bats f) sps)
                                   (s1, mkhalves [] [] [] []) in
          let s3 := store_half f chdr (h_cb h) (h_ci h) s2 in
          store_half f dhdr (h_db h) (h_di h) s3
      end
  | _ => s1
  end.

(* ---------------------------------------------------------------- BalanceFile *)

Fixpoint bal_ents (s : sstate) (fam : N) (old : list N) (rs : list eref) : sstate * list N :=
  match rs with
  | [] => (s, [])
  | EOld j :: r => let (s1, es) := bal_ents s fam old r in
                   (s1, match nth_error old j with Some e => e :: es | None => es end)
  | EFresh t :: r => let (s1, e) := new_ent s (mkec fam t) in
                     let (s2, es) := bal_ents s1 fam old r in (s2, e :: es)
  end.

(* f.Batches[i].WithOffset(off); f.Batches[i].Create(): the trace loop over the batch's own
   (possibly shared) entry cells, then — if build got that far — the new control, the new
   Entries (offset entries removed / appended: fresh cells) and ServiceClassCode INTO the
   batch cell; the first failing batch ends the loop *)
Fixpoint bal_loop (s : sstate) (qs : list N) (ls : list ballab) : sstate * bool :=
  match qs with
  | [] => (s, true)
  | q :: r =>
      let l := hd (mkbl 0 None false) ls in
      let s1 := s_build s q (bl_reach l) in
      let b := ss_bat s1 q in
      let s2 := match bl_res l with
                | Some (rs, c, svc) =>
                    let (s', es) := bal_ents s1 (bc_fam b) (bc_ents b) rs in
                    set_bat s' q (bset_res b es c svc)
                | None => s1
                end in
      if bl_ok l then bal_loop s2 r (tl ls) else (s2, false)
  end.

(* service.BalanceFile on file object p: Create; the loop over f.Batches (not IATBatches);
   f.ID = base.ID(); Create; StoreFile(f) — the same pointer under the new ID *)
Definition s_balance (s : sstate) (p : N) (ls : list ballab) : sstate :=
  let (s1, st) := s_create s p in
  match st with
  | SOk =>
      let (s2, ok) := bal_loop s1 (fo_bats (ss_file s1 p)) ls in
      if ok then
        let s3 := set_file s2 p (fset_id (ss_file s2 p) (Gen (ss_nid s2))) in
        let s4 := fst (s_create s3 p) in
        set_store s4 ((Gen (ss_nid s4), p) :: ss_store s4) (ss_nid s4 + 1)
      else s2
  | _ => s1
  end.

(* ---------------------------------------------------------------- the handlers *)

Definition remove_nth {A} (k : nat) (l : list A) : list A := firstn k l ++ skipn (S k) l.

Inductive sresp := SResp (c : cls) (status : N).

Definition sstep (s : sstate) (r : srequest) : sstate * sresp :=
  match r with
  | SCreate url bodyid pf =>
      let (i, n') := resolve url bodyid (ss_nid s) in
      match lookup (ss_store s) i with
      | Some _ => (set_store s (ss_store s) n', SResp Refused 0)
      | None =>
          let (s1, fam) := new_fam s in
          let (s2, p) := new_pfile s1 fam i pf in
          (set_store s2 ((i, p) :: ss_store s2) n', SResp Found 0)
      end
  | SGet i =>
      match lookup (ss_store s) i with
      | None => (s, SResp NotFound nf_get)
      | Some _ => (s, SResp Found 200)
      end
  | SList => (s, SResp Found 200)
  | SContents i =>
      match lookup (ss_store s) i with
      | None => (s, SResp NotFound nf_contents)
      | Some p => (fst (s_create s p), SResp Found 0)
      end
  | SValidate i =>
      match lookup (ss_store s) i with
      | None => (s, SResp NotFound nf_validate)
      | Some _ => (s, SResp Found 0)
      end
  | SBuild i =>
      match lookup (ss_store s) i with
      | None => (s, SResp NotFound nf_build)
      | Some p => (fst (s_create s p), SResp Found 0)
      end
  | SDelete i => (set_store s (remove (ss_store s) i) (ss_nid s), SResp Found 200)
  | SAddBatch i decodes dup b =>
      if negb decodes then (s, SResp BadBody 0) else
      match lookup (ss_store s) i with
      | None => (s, SResp NotFound nf_notfound)
      | Some p =>
          if dup then (s, SResp Refused 400)
          else let (s1, q) := new_pbatch s (fo_fam (ss_file s p)) false b in
               (set_file s1 p (fset_bats (ss_file s1 p) (fo_bats (ss_file s1 p) ++ [q])), SResp Found 200)
      end
  | SGetBatch i =>
      match lookup (ss_store s) i with
      | None => (s, SResp NotFound nf_notfound)
      | Some _ => (s, SResp Found 0)
      end
  | SListBatches i => (s, SResp Found 200)
  | SDelBatch i pos =>
      match lookup (ss_store s) i with
      | None => (s, SResp NotFound nf_delbatch)
      | Some p =>
          match pos with
          | None => (s, SResp Found 0)
          | Some k => (set_file s p (fset_bats (ss_file s p) (remove_nth k (fo_bats (ss_file s p)))), SResp Found 0)
          end
      end
  | SFlatten i l =>
      match lookup (ss_store s) i with
      | None => (s, SResp NotFound nf_notfound)
      | Some p => (s_flatten s p l, SResp Found 0)
      end
  | SSegment i l =>
      match lookup (ss_store s) i with
      | None => (s, SResp NotFound nf_notfound)
      | Some p => (s_segment s p l, SResp Found 0)
      end
  | SSegmentBody pf l =>
      (* decodeSegmentFileRequest: the posted file is an object of its own, never stored *)
      let (s1, fam) := new_fam s in
      let (s2, p) := new_pfile s1 fam (Client 0) pf in
      (s_segment s2 p l, SResp Found 0)
  | SBalance i _ ls =>
      match lookup (ss_store s) i with
      | None => (s, SResp NotFound nf_notfound)
      | Some p => (s_balance s p ls, SResp Found 0)
      end
  end.

Definition srun (s : sstate) (rs : list srequest) : sstate := fold_left (fun s r => fst (sstep s r)) rs s.

(* ---------------------------------------------------------------- what GET shows *)

Record vbatch := mkvb {
  vb_iat : bool; vb_adv : bool; vb_keep : bool; vb_hdr_ok : bool; vb_odfi : Z; vb_svc : Z; vb_num : Z;
  vb_ctl : Offsets.control; vb_traces : list Z }.

Record vfile := mkvf {
  vf_id : id; vf_opts : copts; vf_keep : bool; vf_hdr_ok : bool; vf_ctl : Offsets.fctl;
  vf_bats : list vbatch; vf_iats : list vbatch }.

Definition view_bat (s : sstate) (q : N) : vbatch :=
  let b := ss_bat s q in
  mkvb (bc_iat b) (bc_adv b) (bc_keep b) (bc_hdr_ok b) (bc_odfi b) (bc_svc b) (bc_num b) (bc_ctl b)
       (map (fun e => ec_trace (ss_ent s e)) (bc_ents b)).

Definition view_file (s : sstate) (p : N) : vfile :=
  let f := ss_file s p in
  mkvf (fo_id f) (fo_opts f) (fo_keep f) (fo_hdr_ok f) (fo_ctl f)
       (map (view_bat s) (fo_bats f)) (map (view_bat s) (fo_iats f)).

Definition shows (s : sstate) (i : id) : option vfile := option_map (view_file s) (lookup (ss_store s) i).

(* the pointer graph below an ID: file pointer, then per batch its pointer and entry pointers *)
Definition graph_file (s : sstate) (p : N) : list (N * list N) :=
  map (fun q => (q, bc_ents (ss_bat s q))) (all_bats (ss_file s p)).

Definition snapshot (s : sstate) : list (id * (N * (vfile * list (N * list N)))) :=
  map (fun ip => (fst ip, (snd ip, (view_file s (snd ip), graph_file s (snd ip))))) (ss_store s).

(* ---------------------------------------------------------------- classes of requests *)

(* the target of a request *)
Definition target (r : srequest) : option id :=
  match r with
  | SGet i | SContents i | SValidate i | SBuild i | SDelete i | SAddBatch i _ _ _ | SGetBatch i | SListBatches i
  | SDelBatch i _ | SFlatten i _ | SSegment i _ | SBalance i _ _ => Some i
  | SCreate _ _ _ | SList | SSegmentBody _ _ => None
  end.

(* requests the property text treats as reads (Server.readonly) *)
Definition sreadonly (r : srequest) : bool :=
  match r with
  | SGet _ | SList | SContents _ | SValidate _ | SBuild _ | SGetBatch _ | SListBatches _
  | SFlatten _ _ | SSegment _ _ | SSegmentBody _ _ => true
  | _ => false
  end.

(* handlers that make no library call that writes: the response is marshalled (C14) *)
Definition spure (r : srequest) : bool :=
  match r with
  | SGet _ | SList | SValidate _ | SGetBatch _ | SListBatches _ => true
  | _ => false
  end.

(* which library calls a handler makes on the object it looks up *)
Inductive rclass :=
| KNone      (* no stored object is looked up: create, list, segment of a posted body *)
| KPure      (* the object is marshalled / validated (C14: stores nothing) *)
| KEdit      (* the ID map or the object's own Batches list: delete, add batch, delete batch *)
| KCreate    (* File.Create runs on it: contents, build *)
| KDerive.   (* Batch.Create runs on batches holding its entries: flatten, segment, balance *)

Definition rclass_of (r : srequest) : rclass :=
  match r with
  | SCreate _ _ _ | SList | SSegmentBody _ _ => KNone
  | SGet _ | SValidate _ | SGetBatch _ | SListBatches _ => KPure
  | SDelete _ | SAddBatch _ _ _ _ | SDelBatch _ _ => KEdit
  | SContents _ | SBuild _ => KCreate
  | SFlatten _ _ | SSegment _ _ | SBalance _ _ _ => KDerive
  end.

(* ---------------------------------------------------------------- stored files the read routes leave alone *)

Open Scope Z_scope.

(* File.Create keeps this header / control number at position seq *)
Definition num_fix (seq : Z) (b : bcell) : bool :=
  (1 <? bc_num b) || ((bc_num b =? seq) && (Offsets.c_num (bc_ctl b) =? seq)).

Fixpoint nums_fix (s : sstate) (seq : Z) (qs : list N) : bool :=
  match qs with
  | [] => true
  | q :: r => num_fix seq (ss_bat s q) && nums_fix s (seq + 1) r
  end.

Definition fctl_eqb (a b : Offsets.fctl) : bool :=
  (Offsets.fc_batches a =? Offsets.fc_batches b) && (Offsets.fc_blocks a =? Offsets.fc_blocks b) &&
  (Offsets.fc_count a =? Offsets.fc_count b) && (Offsets.fc_hash a =? Offsets.fc_hash b) &&
  (Offsets.fc_debit a =? Offsets.fc_debit b) && (Offsets.fc_credit a =? Offsets.fc_credit b).

(* the two guards of File.Create pass *)
Definition guards_ok (s : sstate) (p : N) : bool :=
  let f := ss_file s p in
  let o := fo_opts f in
  negb (negb (co_skip o) && negb (co_nohdr o) && negb (fo_hdr_ok f)) &&
  negb (negb (co_skip o) && negb (co_zero o) && is_nil (all_bats f)).

(* File.Create on the object writes nothing new: its guards refuse it, or (no ADV batch) every
   batch number is one it keeps and the file control is the one it would compute *)
Definition file_fix (s : sstate) (p : N) : bool :=
  let f := ss_file s p in
  negb (guards_ok s p) ||
  (negb (existsb (fun q => bc_adv (ss_bat s q)) (fo_bats f)) &&
   nums_fix s 1 (all_bats f) &&
   fctl_eqb (fo_ctl f) (fctl_of (ctls s (all_bats f)))).

(* the trace loop of a Batch.build with this ODFI / these options leaves the entry alone *)
Definition ent_quiet (s : sstate) (odfi : Z) (keep : bool) (e : N) : bool :=
  keep || (Offsets.trace_odfi (ec_trace (ss_ent s e)) =? odfi).

(* every entry carries the batch's ODFI (or the batch's options keep trace numbers), the batch is
   no mixed IAT batch (SegmentFile would blank its trace numbers) and no ADV batch *)
Definition bat_calm (s : sstate) (q : N) : bool :=
  let b := ss_bat s q in
  forallb (ent_quiet s (bc_odfi b) (bc_keep b)) (bc_ents b) &&
  negb (bc_iat b && (bc_svc b =? svc_mixed)) && negb (bc_adv b).

Fixpoint nodupb (l : list N) : bool :=
  match l with
  | [] => true
  | a :: r => negb (existsb (N.eqb a) r) && nodupb r
  end.

(* no batch twice in the file; File.Batches holds the standard batches, File.IATBatches the IAT ones *)
Definition lists_ok (s : sstate) (p : N) : bool :=
  let f := ss_file s p in
  nodupb (all_bats f) &&
  forallb (fun q => negb (bc_iat (ss_bat s q))) (fo_bats f) &&
  forallb (fun q => bc_iat (ss_bat s q)) (fo_iats f).

Definition file_stable (s : sstate) (p : N) : bool :=
  file_fix s p && forallb (bat_calm s) (all_bats (ss_file s p)) && lists_ok s p.

Definition all_stable (s : sstate) : bool := forallb (fun ip => file_stable s (snd ip)) (ss_store s).

(* the label of a flatten names batches FlattenBatches may consolidate: one ODFI per group
   (equal header signatures), every entry of the group taken from a batch of the group *)
Definition wf_group (s : sstate) (p : N) (g : group) : bool :=
  match somes (map (bat_at s p) (g_srcs g)) with
  | [] => true
  | q0 :: r =>
      forallb (fun q => bc_odfi (ss_bat s q) =? bc_odfi (ss_bat s q0)) (q0 :: r) &&
      forallb (fun kj => existsb (Nat.eqb (fst kj)) (g_srcs g)) (g_refs g)
  end.

(* an observed write that writes what is there *)
Definition write_noop (s : sstate) (p : N) (w : write) : bool :=
  match w with
  | WTrace k j t => match ent_at s p (k, j) with
                    | Some e => ec_trace (ss_ent s e) =? t
                    | None => true
                    end
  | WNum k n cn => match bat_at s p k with
                   | Some q => (bc_num (ss_bat s q) =? n) && (Offsets.c_num (bc_ctl (ss_bat s q)) =? cn)
                   | None => true
                   end
  end.

Definition wf_label (s : sstate) (r : srequest) : bool :=
  match r with
  | SFlatten i l =>
      match lookup (ss_store s) i with
      | Some p => match l with
                  | FlatOk gs _ => forallb (wf_group s p) gs
                  | FlatErr ws => forallb (write_noop s p) ws
                  end
      | None => true
      end
  | SSegment i (SegErr _ ws) =>
      match lookup (ss_store s) i with
      | Some p => forallb (write_noop s p) ws
      | None => true
      end
  | _ => true
  end.

Open Scope N_scope.

(* the read requests that address a stored file, and the listing *)
Definition sread_stored (r : srequest) : bool :=
  match r with
  | SGet _ | SList | SContents _ | SValidate _ | SBuild _ | SGetBatch _ | SListBatches _
  | SFlatten _ _ | SSegment _ _ => true
  | _ => false
  end.

(* the labels along a history are well formed, each in the state its request meets *)
Fixpoint wf_run (s : sstate) (rs : list srequest) : bool :=
  match rs with
  | [] => true
  | r :: t => wf_label s r && wf_run (fst (sstep s r)) t
  end.

(* ---------------------------------------------------------------- the label of a flatten that stored its result *)

Open Scope Z_scope.

Definition odfi_okb (z : Z) : bool := (0 <=? z) && (z <? 100000000).

(* the header the consolidated batch copies validates (its Batch.Create succeeded), is no ADV and no
   mixed IAT header, and carries an eight digit ODFI *)
Definition group_cell_ok (s : sstate) (p : N) (g : group) : bool :=
  match somes (map (bat_at s p) (g_srcs g)) with
  | [] => true
  | q0 :: _ => let b := ss_bat s q0 in
               bc_hdr_ok b && negb (bc_adv b) && negb (bc_iat b && (bc_svc b =? svc_mixed)) && odfi_okb (bc_odfi b)
  end.

Definition group_ents (s : sstate) (p : N) (g : group) : list N :=
  match somes (map (bat_at s p) (g_srcs g)) with
  | [] => []
  | _ :: _ => somes (map (ent_at s p) (g_refs g))
  end.

(* FlattenBatches puts every entry of the receiver into exactly one consolidated batch *)
Definition wf_flat_result (s : sstate) (p : N) (gs : list group) : bool :=
  forallb (group_cell_ok s p) gs && nodupb (concat (map (group_ents s p) gs)).

Open Scope N_scope.

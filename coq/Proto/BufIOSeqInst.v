(* C16, phase 4 — the two sink instances of the generic writer theorems
   (scripted sink, fault-at-offset sink), site irrelevance, and the reader over an
   arbitrary response sequence. *)
From Coq Require Import List NArith Arith Bool Lia.
From ACH Require Import Bytes BufIO BufIOFacts Framing BufIOSeq BufIOSeqFacts.
Import ListNotations.
Open Scope N_scope.

(* ------------------------------------------------------------------ scripted sink: the laws *)

Lemma ssink_ok s p s' n : ssink_write s p = (s', n, None) -> blen p <= n -> 0 < blen p ->
  ss_got s' = ss_got s ++ p /\ ss_bad s' = ss_bad s.
Proof.
  unfold ssink_write. intros H Hn Hp. destruct (ss_script s) as [|r rest].
  - injection H as <- _. now split.
  - injection H as <- Hn' He. cbn [ss_got ss_bad].
    assert (Hm : N.min (sr_take r) (blen p) = blen p) by lia. rewrite Hm.
    destruct (sr_err r); [discriminate|]. cbn [is_some orb].
    rewrite N.ltb_irrefl, orb_false_r. split; [|reflexivity].
    f_equal. unfold blen. rewrite Nat2N.id. apply firstn_all.
Qed.

Lemma ssink_bad s p s' n e : ssink_write s p = (s', n, e) -> e <> None \/ n < blen p -> ss_bad s' = true.
Proof.
  unfold ssink_write. intros H Hb. destruct (ss_script s) as [|r rest].
  - injection H as _ <- <-. destruct Hb as [Hb|Hb]; [now elim Hb|lia].
  - injection H as <- <- <-. cbn [ss_bad]. destruct Hb as [Hb|Hb].
    + destruct (sr_err r); [cbn; now rewrite orb_true_r|now elim Hb].
    + apply N.ltb_lt in Hb. rewrite Hb. now rewrite !orb_true_r.
Qed.

Lemma ssink_fuel s p s' n e : ssink_write s p = (s', n, Some e) -> e <> EFuel.
Proof.
  unfold ssink_write. intros H. destruct (ss_script s) as [|r rest]; [discriminate|].
  injection H as _ _ He. destruct (sr_err r) as [x|]; [|discriminate]. injection He as <-. now destruct x.
Qed.

(* once an answer was faulty the sink is never called again *)
Definition never_late (s : ssink) : Prop := ss_late s = 0.

Lemma ssink_inv s p s' n e : never_late s -> ss_bad s = false -> ssink_write s p = (s', n, e) -> never_late s'.
Proof.
  unfold ssink_write, never_late. intros Hl Hb H. rewrite Hb in H.
  destruct (ss_script s); injection H as <- _ _; exact Hl.
Qed.

(* an empty script: a healthy sink *)
Definition healthy_ssink (s : ssink) : Prop := ss_script s = [] /\ ss_bad s = false.

Lemma ssink_inv_healthy s p s' n e : healthy_ssink s -> ss_bad s = false -> ssink_write s p = (s', n, e) -> healthy_ssink s'.
Proof.
  unfold ssink_write, healthy_ssink. intros [Hs Hb] _ H. rewrite Hs in H. injection H as <- _ _. now split.
Qed.

(* ------------------------------------------------------------------ fault-at-offset sink: the laws *)

Definition off_inv (fo : option fault) (s : sink) : Prop :=
  s_fault s = fo /\ sbound s /\ (fo = None -> s_tripped s = false).

Lemma off_sink_inv fo s p s' n e : off_inv fo s -> s_tripped s = false -> sink_write s p = (s', n, e) -> off_inv fo s'.
Proof.
  intros (H1 & H2 & H3) _ H. split; [|split].
  - rewrite <- H1, <- (sink_write_fault s p). now rewrite H.
  - eapply sink_write_bound; eauto.
  - intros Hn. rewrite <- (H3 Hn). rewrite <- H1 in Hn.
    pose proof (sink_write_tripped_none s p Hn) as Hq. now rewrite H in Hq.
Qed.

Lemma off_inv_new fo : off_inv fo (new_sink fo).
Proof.
  split; [reflexivity|]. split; [|reflexivity]. intros _ f _. unfold blen. cbn. lia.
Qed.

(* ------------------------------------------------------------------ the writer theorems, per site *)

Lemma spolicy_ok_on_parts f p : spolicy_ok_on f p = true ->
  spolicy_common_ok p = true /\ soft (ctl_handler p (sf_adv f)) = true /\
  sites_lsoft (sp_batch p) (sf_batch f) = true /\ sites_lsoft (sp_iat p) (sf_iat f) = true.
Proof.
  unfold spolicy_ok_on. intros H. apply andb_prop in H as [H H4]. apply andb_prop in H as [H H3].
  apply andb_prop in H as [H1 H2]. now repeat split.
Qed.

Lemma sites_lsoft_of_all hs recs : forallb lsoft hs = true -> sites_in_range hs recs = true -> sites_lsoft hs recs = true.
Proof.
  intros Ha Hr. unfold sites_lsoft, sites_in_range in *. rewrite forallb_forall in *.
  intros r Hin. specialize (Hr r Hin). apply Nat.ltb_lt in Hr. unfold site_handler.
  apply Ha. now apply nth_In.
Qed.

(* the checker on all sites implies the checker on the sites a file uses *)
Lemma spolicy_ok_on_of_all f p : spolicy_ok p = true -> sfile_in_range f p = true -> spolicy_ok_on f p = true.
Proof.
  unfold spolicy_ok, spolicy_ok_on, sfile_in_range. intros H Hr.
  apply andb_prop in H as [H Hi]. apply andb_prop in H as [H Hb]. apply andb_prop in H as [H Ha].
  apply andb_prop in H as [H Hcc]. apply andb_prop in Hr as [Hr1 Hr2].
  rewrite H. cbn [andb]. unfold ctl_handler.
  assert (Hc : soft (if sf_adv f then sp_advctl p else sp_ctl p) = true) by (destruct (sf_adv f); assumption).
  rewrite Hc. cbn [andb]. rewrite !sites_lsoft_of_all by assumption. reflexivity.
Qed.

Section SeqWriter.
Variable p : spolicy.
Variable le : bytes.
Variable f : sfile.
Hypothesis Hok : spolicy_ok_on f p = true.

Let Hc := proj1 (spolicy_ok_on_parts f p Hok).
Let Hctl := proj1 (proj2 (spolicy_ok_on_parts f p Hok)).
Let Hsb := proj1 (proj2 (proj2 (spolicy_ok_on_parts f p Hok))).
Let Hsi := proj2 (proj2 (proj2 (spolicy_ok_on_parts f p Hok))).

(* a sink that answers with an arbitrary sequence of (bytes taken, error) *)
Theorem seq_writer_safe script :
  let r := seq_writer_run p le f script in
  (gr_write r = None \/ gr_flush r = None) ->
  ss_got (gr_sink r) = sfull_output le f /\ ss_bad (gr_sink r) = false.
Proof.
  intros r Hr.
  destruct (gwriter_safe ssink ssink_write ss_got ss_bad never_late ssink_ok ssink_bad ssink_fuel ssink_inv
              p le Hc f Hctl Hsb Hsi (new_ssink script) eq_refl eq_refl eq_refl Hr) as (H1 & H2 & _).
  now split.
Qed.

Theorem seq_writer_reports script :
  let r := seq_writer_run p le f script in
  ss_bad (gr_sink r) = true -> gr_write r <> None /\ gr_flush r <> None.
Proof.
  exact (gwriter_reports ssink ssink_write ss_got ss_bad never_late ssink_ok ssink_bad ssink_fuel ssink_inv
           p le Hc f Hctl Hsb Hsi (new_ssink script) eq_refl eq_refl eq_refl).
Qed.

Theorem seq_writer_no_false_error script :
  let r := seq_writer_run p le f script in
  ss_bad (gr_sink r) = false ->
  gr_write r = None /\ gr_flush r = None /\ ss_got (gr_sink r) = sfull_output le f.
Proof.
  exact (gwriter_no_false_error ssink ssink_write ss_got ss_bad never_late ssink_ok ssink_bad ssink_fuel ssink_inv
           p le Hc f Hctl Hsb Hsi (new_ssink script) eq_refl eq_refl eq_refl).
Qed.

(* bufio's error is sticky: after the first faulty answer the sink sees no further call,
   so whether the sink would have recovered is never observed *)
Theorem seq_writer_never_called_again script :
  ss_late (gr_sink (seq_writer_run p le f script)) = 0.
Proof.
  exact (gwriter_inv ssink ssink_write ss_got ss_bad never_late ssink_ok ssink_bad ssink_fuel ssink_inv
           p le Hc f Hctl Hsb Hsi (new_ssink script) eq_refl eq_refl eq_refl).
Qed.

Theorem seq_writer_results_agree script :
  let r := seq_writer_run p le f script in gr_write r = gr_flush r.
Proof.
  exact (gwriter_results_agree ssink ssink_write ss_got ss_bad never_late ssink_ok ssink_bad ssink_fuel ssink_inv
           p le Hc f Hctl Hsb Hsi (new_ssink script) eq_refl eq_refl eq_refl).
Qed.

Theorem seq_writer_healthy :
  let r := seq_writer_run p le f [] in
  gr_write r = None /\ gr_flush r = None /\ ss_got (gr_sink r) = sfull_output le f.
Proof.
  intros r.
  assert (Hh : healthy_ssink (new_ssink [])) by (split; reflexivity).
  pose proof (gwriter_inv ssink ssink_write ss_got ss_bad healthy_ssink ssink_ok ssink_bad ssink_fuel ssink_inv_healthy
           p le Hc f Hctl Hsb Hsi (new_ssink []) Hh eq_refl eq_refl) as [_ Hb].
  exact (gwriter_no_false_error ssink ssink_write ss_got ss_bad healthy_ssink ssink_ok ssink_bad ssink_fuel ssink_inv_healthy
           p le Hc f Hctl Hsb Hsi (new_ssink []) Hh eq_refl eq_refl Hb).
Qed.

Theorem seq_writer_fuel script :
  let r := seq_writer_run p le f script in gr_write r <> Some EFuel /\ gr_flush r <> Some EFuel.
Proof.
  exact (gwriter_fuel ssink ssink_write ss_got ss_bad never_late ssink_ok ssink_bad ssink_fuel ssink_inv
           p le Hc f Hctl Hsb Hsi (new_ssink script) eq_refl eq_refl eq_refl).
Qed.

(* the sink of BufIO.v: a fault at byte offset k (any kind, persistent or transient) *)
Theorem off_writer_safe fo :
  let r := off_writer_run p le f fo in
  (gr_write r = None \/ gr_flush r = None) ->
  s_got (gr_sink r) = sfull_output le f /\ s_tripped (gr_sink r) = false.
Proof.
  intros r Hr.
  destruct (gwriter_safe sink sink_write s_got s_tripped (off_inv fo) sink_write_ok sink_write_bad sink_write_err_kind (off_sink_inv fo)
              p le Hc f Hctl Hsb Hsi (new_sink fo) (off_inv_new fo) eq_refl eq_refl Hr) as (H1 & H2 & _).
  now split.
Qed.

Theorem off_writer_detects flt :
  f_k flt < blen (sfull_output le f) ->
  let r := off_writer_run p le f (Some flt) in gr_write r <> None /\ gr_flush r <> None.
Proof.
  intros Hk r.
  assert (H : ~ (gr_write r = None \/ gr_flush r = None)).
  { intros Hr.
    destruct (gwriter_safe sink sink_write s_got s_tripped (off_inv (Some flt)) sink_write_ok sink_write_bad sink_write_err_kind (off_sink_inv (Some flt))
                p le Hc f Hctl Hsb Hsi (new_sink (Some flt)) (off_inv_new (Some flt)) eq_refl eq_refl Hr) as (Hg & Ht & (Hf & Hb & _)).
    fold r in Hg, Ht, Hf, Hb. specialize (Hb Ht flt Hf). rewrite Hg in Hb. lia. }
  split; intros E; apply H; [now left|now right].
Qed.

Theorem off_writer_no_false_error fo :
  let r := off_writer_run p le f fo in
  s_tripped (gr_sink r) = false ->
  gr_write r = None /\ gr_flush r = None /\ s_got (gr_sink r) = sfull_output le f.
Proof.
  exact (gwriter_no_false_error sink sink_write s_got s_tripped (off_inv fo) sink_write_ok sink_write_bad sink_write_err_kind (off_sink_inv fo)
           p le Hc f Hctl Hsb Hsi (new_sink fo) (off_inv_new fo) eq_refl eq_refl).
Qed.

Theorem off_writer_healthy :
  let r := off_writer_run p le f None in
  gr_write r = None /\ gr_flush r = None /\ s_got (gr_sink r) = sfull_output le f.
Proof.
  intros r. apply (off_writer_no_false_error None).
  pose proof (gwriter_inv sink sink_write s_got s_tripped (off_inv None) sink_write_ok sink_write_bad sink_write_err_kind (off_sink_inv None)
           p le Hc f Hctl Hsb Hsi (new_sink None) (off_inv_new None) eq_refl eq_refl) as (_ & _ & H).
  now apply H.
Qed.

End SeqWriter.

(* ------------------------------------------------------------------ site irrelevance *)

(* the handlers of call sites a file does not exercise do not influence its run: a
   per-site defect is visible exactly on files that reach the site *)
Definition with_sites (p : spolicy) (hb hi : list handler) : spolicy :=
  mkspol (sp_wl_line p) (sp_wl_le p) (sp_wl_flush p) (sp_thresh p) (sp_api_flush p) (sp_flush_guard p)
         (sp_hdr p) (sp_call_batch p) (sp_call_iat p) (sp_ctl p) (sp_advctl p) hb hi
         (sp_pad_line p) (sp_pad_le p) (sp_final p).
Definition with_ctls (p : spolicy) (hc ha : handler) : spolicy :=
  mkspol (sp_wl_line p) (sp_wl_le p) (sp_wl_flush p) (sp_thresh p) (sp_api_flush p) (sp_flush_guard p)
         (sp_hdr p) (sp_call_batch p) (sp_call_iat p) hc ha (sp_batch p) (sp_iat p)
         (sp_pad_line p) (sp_pad_le p) (sp_final p).

Definition same_on (hs hs' : list handler) (recs : list (N * bytes)) : Prop :=
  forall r, In r recs -> site_handler hs' (fst r) = site_handler hs (fst r).

Section Irrelevance.
Variable K : Type.
Variable sw : K -> bytes -> K * N * option werr.

Lemma gwrite_sites_same p p' le hs hs' recs : forall st,
  (forall st0 l, gwrite_line sw p' le st0 l = gwrite_line sw p le st0 l) ->
  same_on hs hs' recs ->
  gwrite_sites sw p' le hs' st recs = gwrite_sites sw p le hs st recs.
Proof.
  intros st Hl. revert st. induction recs as [|[i l] rest IH]; intros st Hs; cbn [gwrite_sites]; [reflexivity|].
  rewrite Hl. destruct (gwrite_line sw p le st l) as [st1 e].
  pose proof (Hs (i, l) (or_introl eq_refl)) as Hh. cbn [fst] in Hh. rewrite Hh.
  destruct (on_err (site_handler hs i) e); [|reflexivity].
  apply IH. intros r Hin. apply Hs. now right.
Qed.

Theorem unused_sites_irrelevant p le f s hb hi :
  same_on (sp_batch p) hb (sf_batch f) -> same_on (sp_iat p) hi (sf_iat f) ->
  gwriter_run sw (with_sites p hb hi) le f s = gwriter_run sw p le f s.
Proof.
  intros Hb Hi. unfold gwriter_run, gwrite_file. cbn [with_sites sp_hdr sp_batch sp_iat sp_call_batch sp_call_iat].
  change (gwrite_line sw (with_sites p hb hi) le) with (gwrite_line sw p le).
  destruct (gwrite_line sw p le (gnew s, 0) (sf_hdr f)) as [st1 e0].
  destruct (on_err (sp_hdr p) e0); [|reflexivity].
  rewrite (gwrite_sites_same p (with_sites p hb hi) le (sp_batch p) hb (sf_batch f) st1 (fun _ _ => eq_refl) Hb).
  destruct (gwrite_sites sw p le (sp_batch p) st1 (sf_batch f)) as [st2 a2].
  destruct (on_err (sp_call_batch p) (act_result a2)); [|reflexivity].
  rewrite (gwrite_sites_same p (with_sites p hb hi) le (sp_iat p) hi (sf_iat f) st2 (fun _ _ => eq_refl) Hi).
  reflexivity.
Qed.

(* the control site the file does not use *)
Theorem unused_ctl_irrelevant p le f s hc ha :
  (if sf_adv f then ha = sp_advctl p else hc = sp_ctl p) ->
  gwriter_run sw (with_ctls p hc ha) le f s = gwriter_run sw p le f s.
Proof.
  intros H. unfold gwriter_run, gwrite_file.
  assert (Hh : ctl_handler (with_ctls p hc ha) (sf_adv f) = ctl_handler p (sf_adv f)).
  { unfold ctl_handler. cbn [with_ctls sp_ctl sp_advctl]. destruct (sf_adv f); exact H. }
  rewrite Hh. reflexivity.
Qed.

End Irrelevance.

(* ------------------------------------------------------------------ reader: response sequences *)

Definition data_of (rs : list rresp) : bytes := concat (map rr_data rs).
Definition plain (rs : list rresp) : bool := forallb (fun r => negb (is_some (rr_term r))) rs.
Definition nlen {A} (l : list A) : N := N.of_nat (length l).

Lemma data_of_app a b : data_of (a ++ b) = data_of a ++ data_of b.
Proof. unfold data_of. now rewrite map_app, concat_app. Qed.

Lemma firstn_app_ge need (c d : bytes) : blen c <= need ->
  firstn (N.to_nat need) (c ++ d) = c ++ firstn (N.to_nat (need - blen c)) d.
Proof.
  unfold blen. intros H. rewrite firstn_app. rewrite firstn_all2 by lia. f_equal. f_equal. lia.
Qed.

Lemma skipn_app_ge need (c d : bytes) : blen c <= need ->
  skipn (N.to_nat need) (c ++ d) = skipn (N.to_nat (need - blen c)) d.
Proof.
  unfold blen. intros H. rewrite skipn_app. rewrite skipn_all2 by lia. cbn [app]. f_equal. lia.
Qed.

Lemma firstn_app_lt need (c d : bytes) : need <= blen c ->
  firstn (N.to_nat need) (c ++ d) = firstn (N.to_nat need) c.
Proof.
  unfold blen. intros H. rewrite firstn_app. replace (N.to_nat need - length c)%nat with O by lia.
  cbn [firstn]. apply app_nil_r.
Qed.

Lemma skipn_app_lt need (c d : bytes) : need <= blen c ->
  skipn (N.to_nat need) (c ++ d) = skipn (N.to_nat need) c ++ d.
Proof.
  unfold blen. intros H. rewrite skipn_app. replace (N.to_nat need - length c)%nat with O by lia. reflexivity.
Qed.

Lemma preview_seq_zero rs acc used : preview_seq 0 rs acc used = (acc, rs, PFilled, used).
Proof. destruct rs; reflexivity. Qed.

(* io.ReadFull over a prefix of error-free responses *)
Lemma preview_seq_app : forall pre tail need acc used, plain pre = true -> 0 < need ->
  (blen (data_of pre) < need ->
     preview_seq need (pre ++ tail) acc used =
     preview_seq (need - blen (data_of pre)) tail (acc ++ data_of pre) (used + nlen pre)) /\
  (need <= blen (data_of pre) ->
     exists rest' used', preview_seq need (pre ++ tail) acc used =
        (acc ++ firstn (N.to_nat need) (data_of pre), rest' ++ tail, PFilled, used') /\
        plain rest' = true /\ data_of rest' = skipn (N.to_nat need) (data_of pre) /\
        used' + nlen rest' = used + nlen pre).
Proof.
  induction pre as [|a pre IH]; intros tail need acc used Hp Hneed.
  - unfold data_of, nlen. cbn [map concat app length]. change (blen []) with 0. split.
    + intros _. now rewrite N.sub_0_r, app_nil_r, N.add_0_r.
    + intros H. lia.
  - cbn [plain forallb] in Hp. apply andb_prop in Hp as [Ha Hp].
    assert (Eta : rr_term a = None) by (destruct (rr_term a); [discriminate|reflexivity]).
    assert (Ed : data_of (a :: pre) = rr_data a ++ data_of pre) by reflexivity.
    rewrite Ed, blen_app. cbn [app preview_seq].
    assert (En0 : (need =? 0) = false) by (apply N.eqb_neq; lia). rewrite En0.
    destruct (need <? blen (rr_data a)) eqn:Elt.
    + apply N.ltb_lt in Elt. split; [intros H; lia|]. intros _.
      exists (mkrresp (skipn (N.to_nat need) (rr_data a)) (rr_term a) :: pre), used.
      split; [|split; [|split]].
      * rewrite firstn_app_lt by lia. reflexivity.
      * cbn [plain forallb rr_term]. rewrite Eta. cbn. exact Hp.
      * change (data_of (mkrresp (skipn (N.to_nat need) (rr_data a)) (rr_term a) :: pre))
          with (skipn (N.to_nat need) (rr_data a) ++ data_of pre).
        now rewrite skipn_app_lt by lia.
      * unfold nlen. cbn [length]. reflexivity.
    + apply N.ltb_ge in Elt. rewrite Eta.
      destruct (N.eq_dec (need - blen (rr_data a)) 0) as [E0|E0].
      * rewrite E0, preview_seq_zero. split; [intros H; lia|]. intros _.
        exists pre, (used + 1). split; [|split; [exact Hp|split]].
        -- rewrite firstn_app_ge by lia. rewrite E0. cbn [N.to_nat firstn]. now rewrite app_nil_r.
        -- rewrite skipn_app_ge by lia. rewrite E0. reflexivity.
        -- unfold nlen. cbn [length]. lia.
      * destruct (IH tail (need - blen (rr_data a)) (acc ++ rr_data a) (used + 1) Hp ltac:(lia)) as [IH1 IH2].
        split.
        -- intros H. rewrite IH1 by lia.
           replace (need - blen (rr_data a) - blen (data_of pre)) with (need - (blen (rr_data a) + blen (data_of pre))) by lia.
           replace (used + 1 + nlen pre) with (used + nlen (a :: pre)) by (unfold nlen; cbn [length]; lia).
           now rewrite <- app_assoc.
        -- intros H. destruct IH2 as (rest' & used' & Hr & Hpl & Hda & Hu); [lia|].
           exists rest', used'. split; [|split; [exact Hpl|split]].
           ++ rewrite Hr. rewrite firstn_app_ge by lia. now rewrite app_assoc.
           ++ rewrite Hda. now rewrite skipn_app_ge by lia.
           ++ rewrite Hu. unfold nlen. cbn [length]. lia.
Qed.

Lemma stream_seq_app : forall pre tail u, plain pre = true ->
  stream_seq (pre ++ tail) u =
  let '(d, t, u') := stream_seq tail (u + nlen pre) in (data_of pre ++ d, t, u').
Proof.
  induction pre as [|a pre IH]; intros tail u Hp.
  - unfold nlen. cbn [app length data_of map concat]. rewrite N.add_0_r. now destruct (stream_seq tail u) as [[d t] u'].
  - cbn [plain forallb] in Hp. apply andb_prop in Hp as [Ha Hp].
    assert (Eta : rr_term a = None) by (destruct (rr_term a); [discriminate|reflexivity]).
    cbn [app stream_seq]. rewrite Eta, (IH tail (u + 1) Hp).
    replace (u + 1 + nlen pre) with (u + nlen (a :: pre)) by (unfold nlen; cbn [length]; lia).
    destruct (stream_seq tail (u + nlen (a :: pre))) as [[d t] u'].
    change (data_of (a :: pre)) with (rr_data a ++ data_of pre). now rewrite app_assoc.
Qed.

Lemma stream_seq_plain rs u : plain rs = true -> stream_seq rs u = (data_of rs, TEOF, u + nlen rs).
Proof.
  intros Hp. rewrite <- (app_nil_r rs) at 1. rewrite (stream_seq_app rs [] u Hp). cbn [stream_seq].
  now rewrite app_nil_r.
Qed.

(* what an accepted reader policy makes of the scan loop *)
Definition scan_spec (m : N) (d : bytes) (t : term) : qresult :=
  if too_long m d then QTooLong
  else match t with TEOF => QParsed d | TErr e => QScanErr e end.

Lemma scan_loop_ok p m d t : rpolicy3_ok p = true -> scan_loop p m d t = scan_spec m d t.
Proof.
  unfold rpolicy3_ok, scan_loop, scan_spec. intros H.
  destruct (r3_ctor p); try discriminate. destruct (r3_scan p); try discriminate.
  destruct (r3_maxl p); try discriminate. reflexivity.
Qed.

Section Reader.
Variable p : rpolicy3.
Variable m : N.
Hypothesis Hp : rpolicy3_ok p = true.

Lemma ctor_prop : r3_ctor p = Propagate.
Proof. unfold rpolicy3_ok in Hp. destruct (r3_ctor p); try discriminate. reflexivity. Qed.

(* no response carries an event: the complete data is scanned, every response consumed *)
Theorem reader_seq_plain rs : plain rs = true ->
  reader_seq p m rs = (scan_spec m (data_of rs) TEOF, nlen rs).
Proof.
  intros Hpl. unfold reader_seq.
  destruct (preview_seq_app rs [] preview_size [] 0 Hpl ltac:(unfold preview_size; lia)) as [H1 H2].
  rewrite app_nil_r in H1, H2.
  destruct (N.lt_ge_cases (blen (data_of rs)) preview_size) as [Hlt|Hge].
  - rewrite (H1 Hlt). cbn [preview_seq app].
    assert (E : (preview_size - blen (data_of rs) =? 0) = false) by (apply N.eqb_neq; lia).
    rewrite E. rewrite scan_loop_ok by exact Hp. now rewrite N.add_0_l.
  - destruct (H2 Hge) as (rest' & used' & Hr & Hpl' & Hda & Hu). rewrite Hr. cbn [app]. rewrite app_nil_r.
    rewrite (stream_seq_plain rest' used' Hpl'), Hda, firstn_skipn, scan_loop_ok by exact Hp.
    now rewrite Hu, N.add_0_l.
Qed.

(* the first response with an event is r, after error-free responses pre; post follows *)
Variable pre post : list rresp.
Variable r : rresp.
Variable t : term.
Hypothesis Hpre : plain pre = true.
Hypothesis Ht : rr_term r = Some t.

Let n := blen (data_of pre).
Let c := blen (rr_data r).
Let D := data_of pre ++ rr_data r.

(* (a) fewer than 1024 bytes before the event: charset.NewReader sees it *)
Theorem reader_seq_short : n + c < preview_size ->
  reader_seq p m (pre ++ r :: post) =
  (match t with TErr RInj => QCtorErr | _ => scan_spec m D TEOF end, nlen pre + 1).
Proof.
  intros Hs. unfold reader_seq.
  destruct (preview_seq_app pre (r :: post) preview_size [] 0 Hpre ltac:(unfold preview_size; lia)) as [H1 _].
  fold n in H1. rewrite H1 by lia. cbn [preview_seq app].
  assert (E0 : (preview_size - n =? 0) = false) by (apply N.eqb_neq; lia). rewrite E0.
  fold c. assert (E1 : (preview_size - n <? c) = false) by (apply N.ltb_ge; lia). rewrite E1, Ht.
  assert (E2 : (c =? preview_size - n) = false) by (apply N.eqb_neq; lia). rewrite E2.
  rewrite N.add_0_l. fold D.
  destruct t as [|[|]]; rewrite ?scan_loop_ok by exact Hp; try reflexivity.
  now rewrite ctor_prop.
Qed.

(* (b) the event arrives with the byte that completes the preview: io.ReadFull returns
   err = nil because n >= min, the event is lost, the run goes on as if r carried none *)
Theorem reader_seq_boundary : n < preview_size -> n + c = preview_size ->
  reader_seq p m (pre ++ r :: post) = reader_seq p m (pre ++ mkrresp (rr_data r) None :: post).
Proof.
  intros Hn Hb. unfold reader_seq.
  destruct (preview_seq_app pre (r :: post) preview_size [] 0 Hpre ltac:(unfold preview_size; lia)) as [H1 _].
  destruct (preview_seq_app pre (mkrresp (rr_data r) None :: post) preview_size [] 0 Hpre ltac:(unfold preview_size; lia)) as [H1' _].
  fold n in H1, H1'. rewrite H1, H1' by lia. cbn [preview_seq app rr_data rr_term].
  assert (E0 : (preview_size - n =? 0) = false) by (apply N.eqb_neq; lia). rewrite E0.
  fold c. assert (E1 : (preview_size - n <? c) = false) by (apply N.ltb_ge; lia). rewrite E1, Ht.
  assert (E2 : (c =? preview_size - n) = true) by (apply N.eqb_eq; lia). rewrite E2.
  replace (preview_size - n - c) with 0 by lia. now rewrite preview_seq_zero.
Qed.

(* (c) otherwise the event reaches the scanner: all data up to it is scanned, then it
   is reported; nothing after r is ever requested from the source *)
Theorem reader_seq_stream : (preview_size <= n \/ preview_size < n + c) ->
  reader_seq p m (pre ++ r :: post) = (scan_spec m D t, nlen pre + 1).
Proof.
  intros Hc. unfold reader_seq.
  destruct (preview_seq_app pre (r :: post) preview_size [] 0 Hpre ltac:(unfold preview_size; lia)) as [H1 H2].
  fold n in H1, H2.
  destruct (N.lt_ge_cases n preview_size) as [Hlt|Hge].
  - (* the preview ends inside r *)
    rewrite H1 by lia. cbn [preview_seq app].
    assert (E0 : (preview_size - n =? 0) = false) by (apply N.eqb_neq; lia). rewrite E0.
    fold c. assert (E1 : (preview_size - n <? c) = true) by (apply N.ltb_lt; lia). rewrite E1.
    cbn [stream_seq rr_term rr_data]. rewrite Ht. rewrite scan_loop_ok by exact Hp.
    rewrite <- app_assoc, firstn_skipn. now rewrite N.add_0_l.
  - (* the preview ends inside pre *)
    destruct (H2 Hge) as (rest' & used' & Hr & Hpl' & Hda & Hu). rewrite Hr. cbn [app].
    rewrite (stream_seq_app rest' (r :: post) used' Hpl'). cbn [stream_seq]. rewrite Ht.
    rewrite scan_loop_ok by exact Hp. rewrite Hda, app_assoc, firstn_skipn.
    now rewrite Hu, N.add_0_l.
Qed.

(* a source whose error is not sticky is reported exactly like a sticky one: outside
   the boundary case whatever follows the first event is irrelevant *)
Theorem reader_seq_after_event_irrelevant post' :
  ~ (n < preview_size /\ n + c = preview_size) ->
  reader_seq p m (pre ++ r :: post) = reader_seq p m (pre ++ r :: post').
Proof.
  intros Hnb.
  destruct (N.lt_ge_cases (n + c) preview_size) as [Hs|Hs].
  - unfold reader_seq.
    destruct (preview_seq_app pre (r :: post) preview_size [] 0 Hpre ltac:(unfold preview_size; lia)) as [H1 _].
    destruct (preview_seq_app pre (r :: post') preview_size [] 0 Hpre ltac:(unfold preview_size; lia)) as [H1' _].
    fold n in H1, H1'. rewrite H1, H1' by lia. cbn [preview_seq app].
    assert (E0 : (preview_size - n =? 0) = false) by (apply N.eqb_neq; lia). rewrite E0.
    fold c. assert (E1 : (preview_size - n <? c) = false) by (apply N.ltb_ge; lia). rewrite E1, Ht.
    assert (E2 : (c =? preview_size - n) = false) by (apply N.eqb_neq; lia). now rewrite E2.
  - assert (Hc : preview_size <= n \/ preview_size < n + c) by lia.
    unfold reader_seq.
    destruct (preview_seq_app pre (r :: post) preview_size [] 0 Hpre ltac:(unfold preview_size; lia)) as [H1 H2].
    destruct (preview_seq_app pre (r :: post') preview_size [] 0 Hpre ltac:(unfold preview_size; lia)) as [H1' H2'].
    fold n in H1, H2, H1', H2'.
    destruct (N.lt_ge_cases n preview_size) as [Hlt|Hge].
    + rewrite H1, H1' by lia. cbn [preview_seq app].
      assert (E0 : (preview_size - n =? 0) = false) by (apply N.eqb_neq; lia). rewrite E0.
      fold c. assert (E1 : (preview_size - n <? c) = true) by (apply N.ltb_lt; lia). rewrite E1.
      cbn [stream_seq rr_term]. now rewrite Ht.
    + destruct (H2 Hge) as (rest1 & used1 & Hr1 & Hpl1 & Hda1 & Hu1).
      destruct (H2' Hge) as (rest2 & used2 & Hr2 & Hpl2 & Hda2 & Hu2).
      rewrite Hr1, Hr2. cbn [app].
      rewrite (stream_seq_app rest1 (r :: post) used1 Hpl1), (stream_seq_app rest2 (r :: post') used2 Hpl2).
      cbn [stream_seq]. rewrite Ht, Hda1, Hda2. replace (used2 + nlen rest2) with (used1 + nlen rest1) by lia.
      reflexivity.
Qed.

End Reader.

Definition reports_error (q : qresult) : bool := match q with QParsed _ | QCutNil => false | _ => true end.

(* C16 for an arbitrary source: the first event is an error other than
   io.ErrUnexpectedEOF, not at the preview boundary: Read returns an error *)
Theorem reader_seq_error_reported p m pre r post :
  rpolicy3_ok p = true -> plain pre = true -> rr_term r = Some (TErr RInj) ->
  ~ (blen (data_of pre) < preview_size /\ blen (data_of pre) + blen (rr_data r) = preview_size) ->
  reports_error (fst (reader_seq p m (pre ++ r :: post))) = true.
Proof.
  intros Hp Hpre Ht Hnb.
  destruct (N.lt_ge_cases (blen (data_of pre) + blen (rr_data r)) preview_size) as [Hs|Hs].
  - rewrite (reader_seq_short p m Hp pre post r _ Hpre Ht Hs). reflexivity.
  - rewrite (reader_seq_stream p m Hp pre post r _ Hpre Ht ltac:(lia)). cbn [fst]. unfold scan_spec.
    now destruct (too_long m _).
Qed.

(* io.ErrUnexpectedEOF is reported once 1024 bytes have been delivered (the known
   finding is the case below 1024) *)
Theorem reader_seq_ueof_reported p m pre r post :
  rpolicy3_ok p = true -> plain pre = true -> rr_term r = Some (TErr RUnexpectedEOF) ->
  (preview_size <= blen (data_of pre) \/ preview_size < blen (data_of pre) + blen (rr_data r)) ->
  reports_error (fst (reader_seq p m (pre ++ r :: post))) = true.
Proof.
  intros Hp Hpre Ht Hc. rewrite (reader_seq_stream p m Hp pre post r _ Hpre Ht Hc). cbn [fst]. unfold scan_spec.
  now destruct (too_long m _).
Qed.

(* every list of responses is error free or has a first event *)
Lemma first_event rs : plain rs = true \/
  exists pre r post t, rs = pre ++ r :: post /\ plain pre = true /\ rr_term r = Some t.
Proof.
  induction rs as [|a rs IH]; [now left|].
  destruct (rr_term a) as [t|] eqn:Ea.
  - right. exists [], a, rs, t. now repeat split.
  - destruct IH as [IH|(pre & r & post & t & -> & Hp & Ht)].
    + left. cbn [plain forallb]. rewrite Ea. exact IH.
    + right. exists (a :: pre), r, post, t. repeat split; [|exact Ht]. cbn [plain forallb]. rewrite Ea. exact Hp.
Qed.

(* the converse: Read reports no error only if the source had no event at all, or its
   first event is io.EOF, or io.ErrUnexpectedEOF inside the preview, or sits at the
   preview boundary *)
Definition at_boundary (pre : list rresp) (r : rresp) : Prop :=
  blen (data_of pre) < preview_size /\ blen (data_of pre) + blen (rr_data r) = preview_size.

Theorem reader_seq_parsed_only_if p m rs d :
  rpolicy3_ok p = true -> fst (reader_seq p m rs) = QParsed d ->
  (plain rs = true /\ d = data_of rs) \/
  exists pre r post t, rs = pre ++ r :: post /\ plain pre = true /\ rr_term r = Some t /\
    (at_boundary pre r \/
     (d = data_of pre ++ rr_data r /\
      (t = TEOF \/ (t = TErr RUnexpectedEOF /\ blen (data_of pre) + blen (rr_data r) < preview_size)))).
Proof.
  intros Hp Hq. destruct (first_event rs) as [Hpl|(pre & r & post & t & -> & Hpre & Ht)].
  - left. split; [exact Hpl|]. rewrite (reader_seq_plain p m Hp rs Hpl) in Hq. cbn [fst] in Hq.
    unfold scan_spec in Hq. destruct (too_long m (data_of rs)); [discriminate|]. now injection Hq as <-.
  - right. exists pre, r, post, t. split; [reflexivity|]. split; [exact Hpre|]. split; [exact Ht|].
    destruct (N.lt_ge_cases (blen (data_of pre) + blen (rr_data r)) preview_size) as [Hs|Hs].
    + right. rewrite (reader_seq_short p m Hp pre post r t Hpre Ht Hs) in Hq. cbn [fst] in Hq.
      destruct t as [|[|]]; try discriminate;
        unfold scan_spec in Hq; destruct (too_long m _); try discriminate; injection Hq as <-.
      * split; [reflexivity|now left].
      * split; [reflexivity|right; now split].
    + destruct (N.lt_ge_cases (blen (data_of pre)) preview_size) as [Hn|Hn].
      * destruct (N.eq_dec (blen (data_of pre) + blen (rr_data r)) preview_size) as [Hb|Hb]; [left; now split|].
        right. rewrite (reader_seq_stream p m Hp pre post r t Hpre Ht ltac:(lia)) in Hq. cbn [fst] in Hq.
        unfold scan_spec in Hq. destruct (too_long m _); [discriminate|]. destruct t; [|discriminate].
        injection Hq as <-. split; [reflexivity|now left].
      * right. rewrite (reader_seq_stream p m Hp pre post r t Hpre Ht ltac:(lia)) in Hq. cbn [fst] in Hq.
        unfold scan_spec in Hq. destruct (too_long m _); [discriminate|]. destruct t; [|discriminate].
        injection Hq as <-. split; [reflexivity|now left].
Qed.

(* a nil error is never returned for data holding more than maxLines lines *)
Lemma scan_spec_parsed m d t d' : scan_spec m d t = QParsed d' -> too_long m d' = false /\ d' = d /\ t = TEOF.
Proof.
  unfold scan_spec. destruct (too_long m d) eqn:E; [discriminate|]. destruct t; [|discriminate].
  intros H. injection H as <-. now repeat split.
Qed.

(* the sticky source of BufIO.v is the special case: chunks, then one empty response
   carrying the terminal event *)
Definition qresult_of (x : rresult) : qresult :=
  match x with RCtorErr => QCtorErr | RScanErr e => QScanErr e | RParsed d => QParsed d end.

Lemma plain_map_chunks chunks : plain (map (fun c => mkrresp c None) chunks) = true.
Proof. induction chunks; [reflexivity|exact IHchunks]. Qed.

Lemma data_of_map_chunks chunks : data_of (map (fun c => mkrresp c None) chunks) = concat chunks.
Proof. unfold data_of. rewrite map_map. cbn [rr_data]. now rewrite map_id. Qed.

Theorem reader_seq_extends_reader_run p0 p m chunks t :
  rpolicy_ok p0 = true -> rpolicy3_ok p = true -> too_long m (concat chunks) = false ->
  fst (reader_seq p m (resps_of_source (mksrc chunks t))) = qresult_of (reader_run p0 (mksrc chunks t)).
Proof.
  intros Hp0 Hp Hl. rewrite (reader_run_spec p0 chunks t Hp0). cbv zeta.
  unfold resps_of_source. cbn [src_chunks src_term].
  set (pre := map (fun c => mkrresp c None) chunks).
  assert (Hpre : plain pre = true) by apply plain_map_chunks.
  assert (Hd : data_of pre = concat chunks) by apply data_of_map_chunks.
  set (r := mkrresp [] (Some t)).
  assert (Hr : rr_term r = Some t) by reflexivity.
  destruct (preview_size <=? blen (concat chunks)) eqn:Ec.
  - apply N.leb_le in Ec.
    rewrite (reader_seq_stream p m Hp pre [] r t Hpre Hr ltac:(left; rewrite Hd; exact Ec)).
    cbn [fst rr_data r]. rewrite app_nil_r, Hd. unfold scan_spec. rewrite Hl. now destruct t as [|[|]].
  - apply N.leb_gt in Ec.
    rewrite (reader_seq_short p m Hp pre [] r t Hpre Hr ltac:(rewrite Hd; cbn [rr_data r]; change (blen []) with 0; lia)).
    cbn [fst rr_data r]. rewrite app_nil_r, Hd. unfold scan_spec. rewrite Hl. now destruct t as [|[|]].
Qed.

(* C17, phase 4 — the file POST /files/{id}/flatten stores is stable WHATEVER the file it was made
   from looked like: every entry went through the Batch.Create of its consolidated batch, the
   new file through File.Create (proofs about ServerShare.v). *)
From Coq Require Import List ZArith NArith Bool Lia.
Import ListNotations.
From ACH Require Import Server ServerFacts ServerLib ServerShare ServerShareFacts ServerShareStable.
From ACH Require Offsets OffsetsFacts.
Open Scope N_scope.

(* ---------------------------------------------------------------- Batch.build makes its entries quiet *)

Lemma retrace_cell_quiet odfi keep seq c : OffsetsFacts.odfi_ok odfi ->
  (keep || (Offsets.trace_odfi (ec_trace (retrace_cell odfi keep seq c)) =? odfi)%Z) = true.
Proof.
  intro O. unfold retrace_cell. destruct keep; [reflexivity|]. simpl.
  destruct (Offsets.trace_odfi (ec_trace c) =? odfi)%Z eqn:E; [exact E|].
  cbn [eset_trace ec_trace]. rewrite OffsetsFacts.trace_prefix by exact O. apply Z.eqb_refl.
Qed.

Lemma retrace_all_quiet odfi keep : OffsetsFacts.odfi_ok odfi -> forall es s seq, NoDup es ->
  let s' := retrace_cells s odfi keep seq (length es) es in
  (forall e, In e es -> ent_quiet s' odfi keep e = true) /\
  (forall e, ~ In e es -> ss_ent s' e = ss_ent s e).
Proof.
  intro O. induction es as [|e r IH]; intros s seq ND; cbn [length retrace_cells]; [split; [intros ? []|reflexivity]|].
  inversion ND as [|? ? NI ND']; subst.
  set (s1 := set_ent s e (retrace_cell odfi keep seq (ss_ent s e))).
  destruct (IH s1 (seq + 1)%Z ND') as [Q K]. split.
  - intros e' [<-|X]; [|now apply Q].
    unfold ent_quiet. rewrite (K e NI). cbn [s1 set_ent ss_ent]. rewrite hupd_eq. now apply retrace_cell_quiet.
  - intros e' X. rewrite K by (intro Y; apply X; now right). cbn [s1 set_ent ss_ent]. apply hupd_neq.
    intros ->. apply X. now left.
Qed.

(* ---------------------------------------------------------------- the consolidated batches *)

Section FlattenResult.
  Variables (s1 : sstate) (p : N).

  (* new cells of the flatten so far: distinct, calm, of the kind of their list, over entries already done *)
  Definition fr_ok (sk : sstate) (done : list N) (bs js : list N) : Prop :=
    ss_file sk = ss_file s1 /\ ss_nf sk = ss_nf s1 /\ ss_nb s1 <= ss_nb sk /\
    (forall q, q < ss_nb s1 -> ss_bat sk q = ss_bat s1 q) /\
    NoDup (bs ++ js) /\
    (forall q, In q (bs ++ js) -> ss_nb s1 <= q /\ q < ss_nb sk /\ bat_calm sk q = true /\ incl (bc_ents (ss_bat sk q)) done) /\
    typed sk bs js.

  Hypothesis BOUND : forall q, In q (all_bats (ss_file s1 p)) -> q < ss_nb s1.

  Lemma bat_at_sk sk k : ss_file sk = ss_file s1 -> bat_at sk p k = bat_at s1 p k.
  Proof. intro F. unfold bat_at. now rewrite F. Qed.

  Lemma srcs_sk sk ks : ss_file sk = ss_file s1 -> somes (map (bat_at sk p) ks) = somes (map (bat_at s1 p) ks).
  Proof. intro F. f_equal. apply map_ext. intro. now apply bat_at_sk. Qed.

  Lemma ent_at_sk sk kj : ss_file sk = ss_file s1 -> (forall q, q < ss_nb s1 -> ss_bat sk q = ss_bat s1 q) ->
    ent_at sk p kj = ent_at s1 p kj.
  Proof.
    intros F B. unfold ent_at. rewrite (bat_at_sk sk _ F). destruct (bat_at s1 p (fst kj)) as [q|] eqn:E; [|reflexivity].
    rewrite B; [reflexivity|]. apply BOUND. eapply nth_error_In; eauto.
  Qed.

  Lemma flat_group_result g sk done bs js :
    fr_ok sk done bs js -> group_cell_ok s1 p g = true ->
    NoDup (done ++ group_ents s1 p g) ->
    let r := flat_group p (sk, (bs, js)) g in
    fr_ok (fst r) (done ++ group_ents s1 p g) (fst (snd r)) (snd (snd r)).
  Proof.
    intros K GO NDE. pose proof K as [F [NF [NB [BK [ND [CE TY]]]]]]. unfold flat_group.
    rewrite (srcs_sk sk _ F). unfold group_cell_ok in GO. unfold group_ents in *.
    destruct (somes (map (bat_at s1 p) (g_srcs g))) as [|q0 qs] eqn:SR; cbn zeta.
    { cbn [fst snd]. rewrite app_nil_r. exact K. }
    assert (Q0 : q0 < ss_nb s1).
    { apply BOUND. assert (X : In q0 (q0 :: qs)) by now left. rewrite <- SR in X. apply somes_inv in X.
      destruct X as [k [_ X]]. eapply nth_error_In; eauto. }
    assert (ES : somes (map (ent_at sk p) (g_refs g)) = somes (map (ent_at s1 p) (g_refs g))).
    { f_equal. apply map_ext. intro. now apply ent_at_sk. }
    rewrite ES. set (es := somes (map (ent_at s1 p) (g_refs g))) in *.
    rewrite (BK q0 Q0), F.
    repeat (apply andb_true_iff in GO; destruct GO as [GO ?]).
    rename GO into HOK. rename H into OD. rename H0 into NM. rename H1 into NA.
    apply negb_true_iff in NA.
    assert (OO : OffsetsFacts.odfi_ok (bc_odfi (ss_bat s1 q0))).
    { unfold odfi_okb in OD. apply andb_true_iff in OD. destruct OD as [A B]. apply Z.leb_le in A. apply Z.ltb_lt in B.
      unfold OffsetsFacts.odfi_ok. lia. }
    set (c := mkbc _ _ _ _ _ _ _ _ es _).
    cbn [new_bat].
    set (sk1 := mkss (ss_store sk) (ss_file sk) (hupd (ss_bat sk) (ss_nb sk) c) (ss_ent sk) (ss_nid sk) (ss_nf sk) (ss_nb sk + 1) (ss_ne sk) (ss_nfam sk)).
    assert (B1 : ss_bat sk1 (ss_nb sk) = c) by (cbn [sk1 ss_bat]; apply hupd_eq).
    assert (NDes : NoDup es) by (eapply nodup_app_r; eauto).
    unfold s_build. rewrite B1. cbn [c bc_hdr_ok bc_odfi bc_keep bc_ents]. rewrite HOK.
    set (kp := existsb (fun q => bc_keep (ss_bat sk q)) (q0 :: qs)).
    destruct (retrace_all_quiet (bc_odfi (ss_bat s1 q0)) kp OO es sk1 1%Z NDes) as [QU KE].
    destruct (file_retrace (bc_odfi (ss_bat s1 q0)) kp (length es) es sk1 1%Z) as [FB1 [FB2 [FB3 FB4]]].
    set (sk2 := retrace_cells sk1 (bc_odfi (ss_bat s1 q0)) kp 1 (length es) es) in *.
    assert (OLD : forall q', In q' (bs ++ js) -> ss_bat sk2 q' = ss_bat sk q' /\ bat_calm sk2 q' = bat_calm sk q').
    { intros q' Q'. destruct (CE q' Q') as [_ [L [_ IN]]].
      assert (E : ss_bat sk2 q' = ss_bat sk q') by (rewrite FB4; cbn [sk1 ss_bat]; apply hupd_neq; lia).
      split; [exact E|]. apply bat_calm_ext; [exact E|]. intros e X. rewrite KE; [reflexivity|].
      intro Y. exact (nodup_app_disj _ _ e NDE (IN e X) Y). }
    assert (NEW : ss_nb s1 <= ss_nb sk /\ ss_nb sk < ss_nb sk2 /\ bat_calm sk2 (ss_nb sk) = true /\
                  incl (bc_ents (ss_bat sk2 (ss_nb sk))) (done ++ es)).
    { split; [exact NB|]. split; [rewrite FB3; cbn [sk1 ss_nb]; lia|]. rewrite FB4, B1. split; [|cbn [c bc_ents]; now apply incl_appr].
      unfold bat_calm. rewrite FB4, B1. cbn [c bc_ents bc_odfi bc_keep bc_iat bc_svc bc_adv].
      rewrite NM, NA, !andb_true_r. apply forallb_forall. intros e E. now apply QU. }
    assert (NI : ~ In (ss_nb sk) (bs ++ js)) by (intro Q; destruct (CE _ Q) as [_ [L _]]; lia).
    assert (BK2 : forall q, q < ss_nb s1 -> ss_bat sk2 q = ss_bat s1 q).
    { intros q Q. rewrite FB4. cbn [sk1 ss_bat]. rewrite hupd_neq by lia. now apply BK. }
    assert (CE2 : forall q', In q' (bs ++ js) -> ss_nb s1 <= q' /\ q' < ss_nb sk2 /\ bat_calm sk2 q' = true /\
                                               incl (bc_ents (ss_bat sk2 q')) (done ++ es)).
    { intros q' Q'. destruct (CE q' Q') as [A [B [C D]]]. destruct (OLD q' Q') as [E1 E2].
      split; [exact A|]. split; [rewrite FB3; cbn [sk1 ss_nb]; lia|]. split; [now rewrite E2|]. rewrite E1. now apply incl_appl. }
    assert (IA : bc_iat (ss_bat sk2 (ss_nb sk)) = bc_iat (ss_bat s1 q0)) by (rewrite FB4, B1; reflexivity).
    destruct TY as [TA TB].
    assert (TA2 : forall q, In q bs -> bc_iat (ss_bat sk2 q) = false).
    { intros q Q. rewrite (proj1 (OLD q (in_or_app _ _ _ (or_introl Q)))). now apply TA. }
    assert (TB2 : forall q, In q js -> bc_iat (ss_bat sk2 q) = true).
    { intros q Q. rewrite (proj1 (OLD q (in_or_app _ _ _ (or_intror Q)))). now apply TB. }
    destruct (bc_iat (ss_bat s1 q0)) eqn:IQ; cbn [fst snd]; unfold fr_ok;
      (split; [rewrite FB1; exact F|]); (split; [rewrite FB2; exact NF|]); (split; [rewrite FB3; cbn [sk1 ss_nb]; lia|]);
      (split; [exact BK2|]).
    - split; [rewrite app_assoc; now apply NoDup_snoc|]. split.
      + intros q Q. rewrite app_assoc in Q. apply in_app_or in Q. destruct Q as [Q|[<-|[]]]; [now apply CE2|exact NEW].
      + split; [exact TA2|]. intros q Q. apply in_app_or in Q. destruct Q as [Q|[<-|[]]]; auto.
    - split; [now apply NoDup_mid|]. split.
      + intros q Q. apply in_app_or in Q. destruct Q as [Q|Q]; [apply in_app_or in Q; destruct Q as [Q|[<-|[]]]|].
        * apply CE2. apply in_or_app. now left.
        * exact NEW.
        * apply CE2. apply in_or_app. now right.
      + split; [|exact TB2]. intros q Q. apply in_app_or in Q. destruct Q as [Q|[<-|[]]]; auto.
  Qed.

  Lemma fold_flat_result : forall gs sk done bs js,
    fr_ok sk done bs js -> forallb (group_cell_ok s1 p) gs = true ->
    NoDup (done ++ concat (map (group_ents s1 p) gs)) ->
    let r := fold_left (flat_group p) gs (sk, (bs, js)) in
    exists done', fr_ok (fst r) done' (fst (snd r)) (snd (snd r)).
  Proof.
    induction gs as [|g r IH]; intros sk done bs js K GO ND; cbn [fold_left].
    - exists done. exact K.
    - simpl in GO. apply andb_true_iff in GO. destruct GO as [G1 G2].
      cbn [map concat] in ND. rewrite app_assoc in ND.
      pose proof (flat_group_result g sk done bs js K G1 (nodup_app_l _ _ ND)) as K1.
      destruct (flat_group p (sk, (bs, js)) g) as [sk1 [bs1 js1]]. cbn [fst snd] in *.
      apply (IH sk1 _ bs1 js1 K1 G2 ND).
  Qed.
End FlattenResult.

(* a new file object over distinct calm cells of the right kinds is stable after its File.Create *)
Lemma new_file_stable sk g :
  NoDup (all_bats g) -> (forall q, In q (all_bats g) -> bat_calm sk q = true) -> typed sk (fo_bats g) (fo_iats g) ->
  let s1 := fst (new_file sk g) in
  file_stable (fst (s_create s1 (ss_nf sk))) (ss_nf sk) = true.
Proof.
  intros ND CALM [TA TB] s1. set (s2 := fst (s_create s1 (ss_nf sk))).
  assert (F1 : ss_file s1 (ss_nf sk) = g) by (cbn [s1 new_file fst ss_file]; apply hupd_eq).
  assert (ADV : existsb (fun q => bc_adv (ss_bat s1 q)) (fo_bats (ss_file s1 (ss_nf sk))) = false).
  { rewrite F1. apply not_true_iff_false. intro E. apply existsb_exists in E. destruct E as [q [Q A]].
    assert (C : bat_calm sk q = true) by (apply CALM; unfold all_bats; apply in_or_app; now left).
    unfold bat_calm in C. apply andb_true_iff in C. destruct C as [_ C]. apply negb_true_iff in C.
    cbn [s1 new_file fst ss_bat] in A. congruence. }
  pose proof (s_create_foot s1 (ss_nf sk)) as CF. fold s2 in CF.
  destruct (cr_self _ _ _ CF) as [c FS]. rewrite F1 in FS.
  assert (AB : all_bats (ss_file s2 (ss_nf sk)) = all_bats g) by (now rewrite FS).
  assert (SH : forall q, bat_calm s2 q = bat_calm sk q).
  { intro q. apply (bat_calm_shape s1 s2 q (cr_shape _ _ _ CF q)). intros. now rewrite (cr_ent _ _ _ CF). }
  unfold file_stable. rewrite !andb_true_iff. split; [split|].
  - apply create_establishes_fix; [now rewrite F1|exact ADV].
  - rewrite AB. apply forallb_forall. intros q Q. rewrite SH. now apply CALM.
  - unfold lists_ok. rewrite AB, FS. cbn [fset_ctl fo_bats fo_iats]. rewrite !andb_true_iff. split; [split|].
    + now apply nodupb_NoDup.
    + apply forallb_forall. intros q Q. apply negb_true_iff.
      destruct (cr_shape _ _ _ CF q) as [_ [E _]]. rewrite E. now apply TA.
    + apply forallb_forall. intros q Q. destruct (cr_shape _ _ _ CF q) as [_ [E _]]. rewrite E. now apply TB.
Qed.

(* File.Create keeps what the labels are resolved against *)
Section AfterCreate.
  Variables (s : sstate) (p : N).
  Let s1 := fst (s_create s p).

  Lemma bat_at_create k : bat_at s1 p k = bat_at s p k.
  Proof.
    unfold bat_at, s1. destruct (cr_self _ _ _ (s_create_foot s p)) as [c ->]. reflexivity.
  Qed.

  Lemma bat_flags_create q : bshape (ss_bat s1 q) (ss_bat s q).
  Proof. apply (cr_shape _ _ _ (s_create_foot s p)). Qed.

  Lemma ent_at_create kj : ent_at s1 p kj = ent_at s p kj.
  Proof.
    unfold ent_at. rewrite bat_at_create. destruct (bat_at s p (fst kj)) as [q|]; [|reflexivity].
    destruct (bat_flags_create q) as [_ [_ [_ [_ [_ [_ [_ E]]]]]]]. now rewrite E.
  Qed.

  Lemma group_cell_ok_create g : group_cell_ok s1 p g = group_cell_ok s p g.
  Proof.
    unfold group_cell_ok.
    rewrite (map_ext (bat_at s1 p) (bat_at s p) bat_at_create).
    destruct (somes (map (bat_at s p) (g_srcs g))) as [|q0 qs]; [reflexivity|].
    destruct (bat_flags_create q0) as [_ [A [B [C [D [_ [E _]]]]]]]. now rewrite A, B, C, D, E.
  Qed.

  Lemma group_ents_create g : group_ents s1 p g = group_ents s p g.
  Proof.
    unfold group_ents. rewrite (map_ext (bat_at s1 p) (bat_at s p) bat_at_create).
    now rewrite (map_ext (ent_at s1 p) (ent_at s p) ent_at_create).
  Qed.
End AfterCreate.

(* POST /files/{id}/flatten that stored its result, well formed label: the stored file is stable —
   no hypothesis on the file it was made from *)
Theorem flatten_result_stable s p gs hdr s1 :
  sinv s -> p < ss_nf s -> s_create s p = (s1, SOk) -> wf_flat_result s p gs = true ->
  file_stable (s_flatten s p (FlatOk gs hdr)) (ss_nf s) = true.
Proof.
  intros I P C W. unfold s_flatten. rewrite C.
  assert (E1 : s1 = fst (s_create s p)) by now rewrite C.
  pose proof (s_create_foot s p) as CF. rewrite <- E1 in CF.
  unfold wf_flat_result in W. apply andb_true_iff in W. destruct W as [W1 W2]. apply nodupb_NoDup in W2.
  assert (W1' : forallb (group_cell_ok s1 p) gs = true).
  { rewrite <- W1. apply forallb_ext_in. intros g _. rewrite E1. apply group_cell_ok_create. }
  assert (W2' : NoDup ([] ++ concat (map (group_ents s1 p) gs))).
  { simpl. rewrite (map_ext (group_ents s1 p) (group_ents s p)); [exact W2|]. intro g. rewrite E1. apply group_ents_create. }
  assert (BOUND : forall q, In q (all_bats (ss_file s1 p)) -> q < ss_nb s1).
  { intros q Q. destruct (cr_self _ _ _ CF) as [c FS]. rewrite FS in Q. rewrite (cr_nb _ _ _ CF).
    now apply (reach_bat s p q I P). }
  assert (K0 : fr_ok s1 s1 [] [] []).
  { unfold fr_ok, typed. simpl. repeat split; auto; try lia; try constructor; intros q []. }
  destruct (fold_flat_result s1 p BOUND gs s1 [] [] [] K0 W1' W2') as [done K].
  destruct (fold_left (flat_group p) gs (s1, ([], []))) as [s2 [bs js]]. cbn [fst snd] in K.
  destruct K as [F2 [NF2 [NB2 [BK2 [ND2 [CE2 TY2]]]]]].
  set (g := mkfo _ _ _ _ _ bs js _). cbn [new_file fst snd].
  rewrite file_stable_set_store.
  replace (ss_nf s) with (ss_nf s2) by (rewrite NF2; apply (cr_nf _ _ _ CF)).
  apply (new_file_stable s2 g); [exact ND2| |exact TY2].
  intros q Q. now apply (CE2 q Q).
Qed.

(* ... so EVERY read request addressed to the flattened file g — flatten and segment of g included —
   leaves what every ID shows, the file g was made from among them *)
Theorem reads_on_flattened_file s i p gs hdr s1 r j p' :
  sinv s -> lookup (ss_store s) i = Some p -> s_create s p = (s1, SOk) -> wf_flat_result s p gs = true ->
  let s' := fst (sstep s (SFlatten i (FlatOk gs hdr))) in
  target r = Some (Gen (ss_nid s)) -> sread_stored r = true -> wf_label s' r = true ->
  lookup (ss_store s') j = Some p' ->
  shows (fst (sstep s' r)) j = shows s' j.
Proof.
  intros I L C W s' T RD WF Lj.
  assert (P : p < ss_nf s) by (apply (inv_store s I i p); now apply lookup_In).
  assert (E : s' = s_flatten s p (FlatOk gs hdr)) by (unfold s'; cbn [sstep]; now rewrite L).
  destruct (flatten_result_cells s p gs hdr s1 I P C) as [ST _]. rewrite <- E in ST.
  pose proof (sinv_step s (SFlatten i (FlatOk gs hdr)) I) as I'. fold s' in I'.
  assert (Lg : lookup (ss_store s') (Gen (ss_nid s)) = Some (ss_nf s)) by (rewrite ST; cbn [lookup]; now rewrite id_eqb_refl).
  assert (S : file_stable s' (ss_nf s) = true) by (rewrite E; now apply (flatten_result_stable s p gs hdr s1)).
  exact (read_of_stable_shows s' r (Gen (ss_nid s)) (ss_nf s) j p' I' T Lg S RD WF Lj).
Qed.

(* C10 — protocol model of ach.MergeDir (merge.go): one walker goroutine, N parse
   workers (queueFileForMerging), one merger goroutine, two unbuffered channels
   (discoveredPaths, mergableFiles), the two completion contexts (pathsCtx,
   parsingCtx) and the errgroup context that the first error cancels.

   Executable definitions only.  Paths and parsed files are abstract ids (N).
   A schedule is a list of labels; [fire] is the (partial) effect of one label,
   [run] folds it.  Every interleaving the Go scheduler can produce is a schedule. *)
From Coq Require Import List NArith Bool Arith.
Import ListNotations.

(* outcome of AcceptFile + readFile on one discovered path *)
Inductive outcome := PSkip | PErr | POk (f : N).

(* a parse worker (queueFileForMerging):
   WIdle      blocked in  select { <-discoveredPaths | <-pathsCtx.Done() }
   WGot p     received p, AcceptFile(p) not yet called
   WParsing p AcceptFile called, reading / parsing
   WHolding f parsed, blocked in select { mergableFiles <- f | <-groupCtx.Done() }
   WExitOk    returned nil        WExitErr   returned the read error *)
Inductive wst := WIdle | WGot (p : N) | WParsing (p : N) | WHolding (f : N) | WExitOk | WExitErr.

(* the merger goroutine: waiting in its select / inside sorted.add(f) / returned *)
Inductive mst := MRun | MAdding (f : N) | MExitOk | MExitErr.

Record st := mk {
  queue : list N;        (* paths the walker still has to send, in walk order *)
  walker_done : bool;    (* walkDir returned (pathsGroup.Done) *)
  ws : list wst;
  mg : mst;
  merged : list N;       (* files accumulated into sorted, newest first *)
  paths_done : bool;     (* pathsCtx canceled *)
  parse_done : bool      (* parsingCtx canceled *)
}.

Inductive label :=
| LHand (i : nat)        (* rendezvous walker -> idle worker i on discoveredPaths *)
| LStart (i : nat)       (* worker i calls AcceptFile (observable) *)
| LParse (i : nat)       (* worker i finishes AcceptFile/readFile: skip, error or file (observable) *)
| LDeliver (i : nat)     (* rendezvous worker i -> merger on mergableFiles *)
| LAdd                   (* sorted.add returns *)
| LWalkerDone            (* listing exhausted, walkDir returns nil *)
| LWalkerCancel          (* walker's select takes <-groupCtx.Done(): the path at hand is dropped *)
| LPathsCancel           (* pathsGroup.Wait() returned; pathsCancelFunc() *)
| LWorkerExit (i : nat)  (* idle worker takes <-pathsCtx.Done() *)
| LWorkerCancel (i : nat)(* holding worker takes <-groupCtx.Done() *)
| LParseCancel           (* parsingGroup.Wait() returned; parsingCancelFunc() *)
| LMergerExit.           (* merger takes <-parsingCtx.Done() *)

Fixpoint set_nth {A} (k : nat) (x : A) (l : list A) : list A :=
  match l, k with
  | [], _ => []
  | _ :: t, O => x :: t
  | y :: t, S k' => y :: set_nth k' x t
  end.

Definition w_exited (w : wst) : bool := match w with WExitOk | WExitErr => true | _ => false end.
Definition w_err (w : wst) : bool := match w with WExitErr => true | _ => false end.
Definition m_err (m : mst) : bool := match m with MExitErr => true | _ => false end.
Definition m_exited (m : mst) : bool := match m with MExitOk | MExitErr => true | _ => false end.

(* the errgroup context: canceled as soon as one goroutine has returned an error *)
Definition gcancel (s : st) : bool := existsb w_err (ws s) || m_err (mg s).

Definition set_w (i : nat) (w : wst) (s : st) : st :=
  mk (queue s) (walker_done s) (set_nth i w (ws s)) (mg s) (merged s) (paths_done s) (parse_done s).

Section Proto.
  Variable sel : bool.             (* do the two channel sends select on groupCtx.Done()? *)
  Variable parse : N -> outcome.
  Variable add_ok : N -> bool.     (* does sorted.add accept the file *)

  Definition after_parse (p : N) : wst :=
    match parse p with PSkip => WIdle | PErr => WExitErr | POk f => WHolding f end.

  Definition fire (l : label) (s : st) : option st :=
    match l with
    | LHand i =>
        match queue s, nth_error (ws s) i with
        | p :: q, Some WIdle =>
            if walker_done s then None
            else Some (mk q false (set_nth i (WGot p) (ws s)) (mg s) (merged s) (paths_done s) (parse_done s))
        | _, _ => None
        end
    | LStart i =>
        match nth_error (ws s) i with
        | Some (WGot p) => Some (set_w i (WParsing p) s)
        | _ => None
        end
    | LParse i =>
        match nth_error (ws s) i with
        | Some (WParsing p) => Some (set_w i (after_parse p) s)
        | _ => None
        end
    | LDeliver i =>
        match nth_error (ws s) i, mg s with
        | Some (WHolding f), MRun =>
            Some (mk (queue s) (walker_done s) (set_nth i WIdle (ws s)) (MAdding f) (merged s) (paths_done s) (parse_done s))
        | _, _ => None
        end
    | LAdd =>
        match mg s with
        | MAdding f =>
            if add_ok f
            then Some (mk (queue s) (walker_done s) (ws s) MRun (f :: merged s) (paths_done s) (parse_done s))
            else Some (mk (queue s) (walker_done s) (ws s) MExitErr (merged s) (paths_done s) (parse_done s))
        | _ => None
        end
    | LWalkerDone =>
        match queue s with
        | [] => if walker_done s then None
                else Some (mk [] true (ws s) (mg s) (merged s) (paths_done s) (parse_done s))
        | _ => None
        end
    | LWalkerCancel =>
        (* the select of walkDir takes <-ctx.Done(): this path is never sent and walkDir returns nil.
           When the caller is an enclosing walkDir its loop goes on with the next entry, which may be
           sent or dropped in turn (observed on the real code: a path after the abandoned
           sub-directory was still handed to a worker) — so one path is dropped per step and the
           walker is done when none is left *)
        match queue s with
        | _ :: q =>
            if sel && negb (walker_done s) && gcancel s
            then Some (mk q false (ws s) (mg s) (merged s) (paths_done s) (parse_done s))
            else None
        | [] => None
        end
    | LPathsCancel =>
        if walker_done s && negb (paths_done s)
        then Some (mk (queue s) (walker_done s) (ws s) (mg s) (merged s) true (parse_done s))
        else None
    | LWorkerExit i =>
        match nth_error (ws s) i with
        | Some WIdle => if paths_done s then Some (set_w i WExitOk s) else None
        | _ => None
        end
    | LWorkerCancel i =>
        match nth_error (ws s) i with
        | Some (WHolding _) => if sel && gcancel s then Some (set_w i WExitOk s) else None
        | _ => None
        end
    | LParseCancel =>
        if forallb w_exited (ws s) && negb (parse_done s)
        then Some (mk (queue s) (walker_done s) (ws s) (mg s) (merged s) (paths_done s) true)
        else None
    | LMergerExit =>
        match mg s with
        | MRun => if parse_done s
                  then Some (mk (queue s) (walker_done s) (ws s) MExitOk (merged s) (paths_done s) (parse_done s))
                  else None
        | _ => None
        end
    end.

  Fixpoint run (sched : list label) (s : st) : option st :=
    match sched with
    | [] => Some s
    | l :: rest => match fire l s with Some s' => run rest s' | None => None end
    end.

  (* g.Wait() has returned: every goroutine of the group is gone *)
  Definition terminal (s : st) : bool :=
    walker_done s && paths_done s && forallb w_exited (ws s) && parse_done s && m_exited (mg s).

  (* what the trace harness can see of a step: AcceptFile(p) called, read of p finished *)
  Inductive event := EStart (p : N) | EDone (p : N).

  Definition obs (l : label) (s : st) : option event :=
    match l with
    | LStart i => match nth_error (ws s) i with Some (WGot p) => Some (EStart p) | _ => None end
    | LParse i => match nth_error (ws s) i with Some (WParsing p) => Some (EDone p) | _ => None end
    | _ => None
    end.

  Fixpoint trace_of (sched : list label) (s : st) : list event :=
    match sched with
    | [] => []
    | l :: rest =>
        match fire l s with
        | Some s' => match obs l s with Some e => e :: trace_of rest s' | None => trace_of rest s' end
        | None => []
        end
    end.
End Proto.

Definition init (n : nat) (paths : list N) : st :=
  mk paths false (repeat WIdle n) MRun [] false false.

(* MergeDir's return value: any goroutine error => (nil, err); else convertToFiles(sorted) *)
Inductive result := RErr | ROk (files : list N).
Definition result_of (s : st) : result := if gcancel s then RErr else ROk (merged s).

(* potential function: strictly decreased by every step *)
Definition wweight (w : wst) : nat :=
  match w with WIdle => 1 | WGot _ => 6 | WParsing _ => 5 | WHolding _ => 4 | WExitOk | WExitErr => 0 end.
Definition mweight (m : mst) : nat := match m with MRun => 1 | MAdding _ => 3 | MExitOk | MExitErr => 0 end.
Fixpoint wsum (l : list wst) : nat := match l with [] => 0 | w :: t => wweight w + wsum t end.
Definition b2n (b : bool) : nat := if b then 0 else 1.
Definition measure (s : st) : nat :=
  6 * length (queue s) + wsum (ws s) + mweight (mg s) + b2n (walker_done s) + b2n (paths_done s) + b2n (parse_done s).

(* every label that can possibly be enabled with n workers *)
Definition per_worker (n : nat) (f : nat -> label) : list label := map f (seq 0 n).
Definition all_labels (n : nat) : list label :=
  per_worker n LHand ++ per_worker n LStart ++ per_worker n LParse ++ per_worker n LDeliver ++
  per_worker n LWorkerExit ++ per_worker n LWorkerCancel ++
  [LAdd; LWalkerDone; LWalkerCancel; LPathsCancel; LParseCancel; LMergerExit].

Definition enabled (sel : bool) (parse : N -> outcome) (add_ok : N -> bool) (s : st) : list label :=
  filter (fun l => match fire sel parse add_ok l s with Some _ => true | None => false end) (all_labels (length (ws s))).

(* C16, phase 4 — proofs about Proto/BufIOSeq.v: writer side.
   The bufio.Writer invariant and the theorems about the per-site call sequence are
   proved once, for every sink that satisfies four laws; the fault-at-offset sink of
   BufIO.v and the scripted sink are instances. *)
From Coq Require Import List NArith Arith Bool Lia.
From ACH Require Import Bytes BufIO BufIOFacts Framing BufIOSeq.
Import ListNotations.
Open Scope N_scope.

(* ------------------------------------------------------------------ generic part *)

Section Generic.
Variable K : Type.
Variable sw : K -> bytes -> K * N * option werr.
Variable got : K -> bytes.      (* what the sink holds *)
Variable bad : K -> bool.       (* some answer so far was an error or a short count *)
Variable Inv : K -> Prop.       (* whatever else is known about the sink *)

(* an answer that reports neither an error nor a short count took everything *)
Hypothesis sw_ok : forall s p s' n, sw s p = (s', n, None) -> blen p <= n -> 0 < blen p ->
  got s' = got s ++ p /\ bad s' = bad s.
Hypothesis sw_bad : forall s p s' n e, sw s p = (s', n, e) -> e <> None \/ n < blen p -> bad s' = true.
Hypothesis sw_fuel : forall s p s' n e, sw s p = (s', n, Some e) -> e <> EFuel.
(* the invariant is kept by every call made while nothing has gone wrong yet *)
Hypothesis sw_inv : forall s p s' n e, Inv s -> bad s = false -> sw s p = (s', n, e) -> Inv s'.

Definition gwf (b : gbw K) : Prop := g_n b = blen (gbuf b).

(* W is everything handed to WriteString so far *)
Definition ggood (b : gbw K) (W : bytes) : Prop :=
  Inv (g_sink b) /\ gwf b /\
  (g_err b = None -> got (g_sink b) ++ gbuf b = W /\ bad (g_sink b) = false) /\
  (g_err b <> None -> bad (g_sink b) = true /\ g_err b <> Some EFuel).

Ltac mkgg := split; [|split; [|split]].

Lemma ggood_err b W W' : ggood b W -> g_err b <> None -> ggood b W'.
Proof.
  intros (H1 & H2 & _ & H4) He. mkgg; [exact H1|exact H2| |exact H4].
  intros E. now elim He.
Qed.

Lemma ggood_new s : Inv s -> got s = [] -> bad s = false -> ggood (gnew s) [].
Proof.
  intros Hi Hg Hb. mkgg; cbn [gnew g_sink g_err].
  - exact Hi.
  - reflexivity.
  - intros _. unfold gbuf. cbn. rewrite Hg. now split.
  - intros Hx. now elim Hx.
Qed.

Lemma gbuf_push (b : gbw K) s : gbuf (gpush b s) = gbuf b ++ s.
Proof. unfold gbuf, gpush. cbn [g_pend rev]. rewrite concat_app. cbn [concat]. now rewrite app_nil_r. Qed.

Lemma gpush_good b W s : ggood b W -> ggood (gpush b s) (W ++ s).
Proof.
  intros (H1 & H2 & H3 & H4). unfold ggood. rewrite gbuf_push. cbn [gpush g_sink g_err g_n].
  mkgg; [exact H1| | |exact H4].
  - unfold gwf in *. cbn [gpush g_n]. rewrite gbuf_push, blen_app. now rewrite H2.
  - intros E. destruct (H3 E) as [HW Ht]. split; [|exact Ht]. now rewrite app_assoc, HW.
Qed.

Lemma gbuf_single x n e (s : K) : gbuf (mkgbw [x] n e s) = x.
Proof. unfold gbuf. cbn. apply app_nil_r. Qed.

(* Flush: the result is the recorded error; after a successful one the buffer is empty *)
Lemma gflush_good b W b' e : ggood b W -> gflush sw b = (b', e) ->
  ggood b' W /\ e = g_err b' /\ (g_err b' = None -> gbuf b' = [] /\ g_n b' = 0 /\ g_err b = None)
  /\ (g_err b <> None -> b' = b).
Proof.
  intros G H. unfold gflush in H. destruct (g_err b) as [x|] eqn:Ee.
  { injection H as <- <-. rewrite Ee. split; [exact G|]. split; [reflexivity|]. split; [discriminate|reflexivity]. }
  destruct (g_n b =? 0) eqn:En.
  { injection H as <- <-. apply N.eqb_eq in En. pose proof G as (H1 & H2 & H3 & H4).
    split; [exact G|]. split; [now rewrite Ee|]. split; [|intros Hx; now elim Hx].
    intros _. split; [|split; [exact En|reflexivity]]. apply blen_nil_inv. now rewrite <- H2. }
  apply N.eqb_neq in En.
  destruct (sw (g_sink b) (gbuf b)) as [[s' n] e0] eqn:Es.
  destruct G as (H1 & H2 & H3 & H4). destruct (H3 Ee) as [HW Ht].
  assert (Hi : Inv s') by (eapply sw_inv; eauto).
  assert (Hwf : forall x, gwf (mkgbw [skipn (N.to_nat n) (gbuf b)] (g_n b - n) (Some x) s')).
  { intros x. unfold gwf. rewrite gbuf_single. cbn [g_n].
    unfold blen. rewrite skipn_length. unfold gwf, blen in H2. lia. }
  destruct e0 as [x|].
  - injection H as <- <-. cbn [g_err g_sink g_n]. split; [|split; [reflexivity|split; [discriminate|intros Hx; now elim Hx]]].
    mkgg; cbn [g_err g_sink]; [exact Hi|apply Hwf|discriminate|].
    intros _. split.
    + eapply sw_bad; [exact Es|]. left. discriminate.
    + intros Hq. injection Hq as ->. now apply (sw_fuel _ _ _ _ _ Es).
  - destruct (n <? g_n b) eqn:Elt.
    + injection H as <- <-. cbn [g_err g_sink g_n]. apply N.ltb_lt in Elt.
      split; [|split; [reflexivity|split; [discriminate|intros Hx; now elim Hx]]].
      mkgg; cbn [g_err g_sink]; [exact Hi|apply Hwf|discriminate|].
      intros _. split; [|discriminate]. eapply sw_bad; [exact Es|]. right. unfold gwf in H2. lia.
    + injection H as <- <-. cbn [g_err g_sink g_n]. apply N.ltb_ge in Elt.
      unfold gwf in H2. destruct (sw_ok _ _ _ _ Es) as [Hg Htr]; [lia|lia|].
      split; [|split; [reflexivity|split; [intros _; now repeat split|intros Hx; now elim Hx]]].
      mkgg; cbn [g_err g_sink]; [exact Hi|reflexivity| |intros Hx; now elim Hx].
      intros _. unfold gbuf. cbn [g_pend rev concat]. rewrite app_nil_r, Hg. split; [exact HW|congruence].
Qed.

Lemma gflush_empty (b : gbw K) : g_err b = None -> g_n b = 0 -> gflush sw b = (b, None).
Proof. unfold gflush. now intros -> ->. Qed.

Definition gfuel_need (b : gbw K) (s : bytes) : nat := (length s + (if (gavail b =? 0)%N then 1 else 0) + 2)%nat.

Lemma gws_loop_good fuel : forall b W s b' s', ggood b W -> (gfuel_need b s <= fuel)%nat ->
  gws_loop sw fuel b s = (b', s') ->
  exists c, s = c ++ s' /\ ggood b' (W ++ c) /\ (g_err b <> None -> b' = b).
Proof.
  induction fuel as [|f IH]; intros b W s b' s' G Hfuel H; cbn [gws_loop] in H.
  - unfold gfuel_need in Hfuel. lia.
  - destruct (g_err b) as [x|] eqn:Ee.
    { injection H as <- <-. exists []. rewrite app_nil_r. split; [reflexivity|]. split; [exact G|reflexivity]. }
    destruct (gavail b <? blen s) eqn:Ea.
    + set (a := N.to_nat (gavail b)) in *.
      destruct (gflush sw (gpush b (firstn a s))) as [b2 e2] eqn:Ef. cbn [fst] in H.
      pose proof (gpush_good b W (firstn a s) G) as G1.
      destruct (gflush_good _ _ _ _ G1 Ef) as (G2 & _ & M2 & _).
      assert (Hc : exists c, skipn a s = c ++ s' /\ ggood b' ((W ++ firstn a s) ++ c)).
      { destruct (g_err b2) as [x|] eqn:E2.
        - destruct f as [|f']; [unfold gfuel_need in Hfuel; lia|].
          cbn [gws_loop] in H. rewrite E2 in H. injection H as <- <-.
          exists []. rewrite app_nil_r. now split.
        - destruct (M2 eq_refl) as (_ & Hn2 & _).
          assert (Hf2 : (gfuel_need b2 (skipn a s) <= f)%nat).
          { unfold gfuel_need in *. unfold gavail at 1. rewrite Hn2. cbn [N.sub cap N.eqb].
            rewrite skipn_length. apply N.ltb_lt in Ea. unfold blen in Ea.
            destruct (gavail b =? 0) eqn:E0.
            * apply N.eqb_eq in E0. subst a. rewrite E0. cbn. lia.
            * apply N.eqb_neq in E0. subst a. lia. }
          destruct (IH _ _ _ _ _ G2 Hf2 H) as (c & Hc & G3 & _). now exists c. }
      destruct Hc as (c & Hc & G3).
      exists (firstn a s ++ c). split; [|split; [|intros Hx; now elim Hx]].
      * rewrite <- app_assoc, <- Hc. now rewrite firstn_skipn.
      * now rewrite app_assoc.
    + injection H as <- <-. exists []. rewrite app_nil_r. split; [reflexivity|]. split; [assumption|easy].
Qed.

Lemma gwrite_good b W s b' e : ggood b W -> gwrite sw b s = (b', e) ->
  ggood b' (W ++ s) /\ e = g_err b' /\ (g_err b' = None -> g_err b = None).
Proof.
  intros G H. unfold gwrite in H. destruct (gws_loop sw (length s + 3) b s) as [b1 s1] eqn:El.
  assert (Hfuel : (gfuel_need b s <= length s + 3)%nat) by (unfold gfuel_need; destruct (gavail b =? 0); lia).
  destruct (gws_loop_good _ _ _ _ _ _ G Hfuel El) as (c & Hc & G1 & Hst).
  assert (Hmono : g_err b1 = None -> g_err b = None).
  { intros E1. destruct (g_err b) as [x|] eqn:Ee; [|reflexivity].
    rewrite Hst in E1; [congruence|discriminate]. }
  destruct (g_err b1) as [x|] eqn:E1.
  - injection H as <- <-. split; [|split; [now rewrite E1|]].
    + apply ggood_err with (W := W ++ c); [assumption|]. now rewrite E1.
    + rewrite E1. discriminate.
  - injection H as <- <-. split; [|split; [now cbn; rewrite E1|intros _; now apply Hmono]].
    rewrite Hc, app_assoc. now apply gpush_good.
Qed.

(* from here on bufio's operations are used through the lemmas above only *)
Opaque gwrite gflush gws_loop.

(* ---------------------------------------------------------------- writer.go, per site *)

(* what one stage of Write guarantees.  (b, n) -> (b', n') with outcome a, having
   handed `out` (cnt lines) to bufio when nothing failed:
   - the invariant holds for W ++ out;
   - no recorded error afterwards: the stage ran to its end, counted its lines, and
     there was no error before;
   - a return from inside the stage happens only with a recorded error, and a
     non-nil returned value is that error *)
Definition stage (b : gbw K) (n : N) (W : bytes) (b' : gbw K) (n' : N) (a : act) (out : bytes) (cnt : N) : Prop :=
  ggood b' (W ++ out) /\
  (g_err b' = None -> a = Cont /\ n' = n + cnt /\ g_err b = None) /\
  (forall r, a = Ret r -> g_err b' <> None /\ (r <> None -> r = g_err b')).

Section Writer.
Variable p : spolicy.
Variable le : bytes.
Hypothesis Hc : spolicy_common_ok p = true.

Lemma spol :
  lsoft (sp_wl_line p) = true /\ lsoft (sp_wl_le p) = true /\ sp_api_flush p = Propagate /\ sp_flush_guard p = false /\
  soft (sp_hdr p) = true /\ soft (sp_call_batch p) = true /\ soft (sp_call_iat p) = true /\
  soft (sp_pad_line p) = true /\ soft (sp_pad_le p) = true /\ sp_final p = Propagate.
Proof.
  unfold spolicy_common_ok in Hc. repeat (apply andb_prop in Hc as [Hc ?]).
  repeat split; try assumption.
  - destruct (sp_api_flush p); try discriminate; reflexivity.
  - now destruct (sp_flush_guard p).
  - destruct (sp_final p); try discriminate; reflexivity.
Qed.

Lemma gapi_flush_eq b : gapi_flush sw p b = gflush sw b.
Proof.
  destruct spol as (_ & _ & Ha & Hg & _). unfold gapi_flush. rewrite Ha, Hg. cbn [andb].
  now destruct (gflush sw b).
Qed.

(* writeLine, as a stage whose outcome is its error result *)
Lemma gwrite_line_stage b n W l st' e :
  ggood b W -> gwrite_line sw p le (b, n) l = (st', e) ->
  ggood (fst st') (W ++ sline le l) /\
  (g_err (fst st') = None -> e = None /\ snd st' = n + scount l /\ g_err b = None) /\
  (e <> None -> e = g_err (fst st')).
Proof.
  intros G H. unfold gwrite_line in H. unfold sline, scount. destruct (nonempty l) eqn:En; cbn [negb] in H.
  2:{ injection H as <- <-. cbn [fst snd]. rewrite app_nil_r. split; [exact G|]. split; [|intros Hx; now elim Hx].
      intros E. split; [reflexivity|]. split; [lia|exact E]. }
  destruct spol as (S1 & S2 & _).
  destruct (gwrite sw b l) as [b1 e1] eqn:E1.
  destruct (gwrite_good _ _ _ _ _ G E1) as (G1 & He1 & M1).
  destruct (on_err_lsoft (sp_wl_line p) e1 S1) as [C1|(x & Hx & [C1|C1])]; rewrite C1 in H.
  2:{ injection H as <- <-. cbn [fst snd]. rewrite He1 in Hx. split; [|split].
      - rewrite app_assoc. apply ggood_err with (W := W ++ l); [exact G1|]. rewrite Hx. discriminate.
      - intros E. rewrite E in Hx. discriminate.
      - intros _. now rewrite Hx. }
  2:{ injection H as <- <-. cbn [fst snd]. rewrite He1 in Hx. split; [|split].
      - rewrite app_assoc. apply ggood_err with (W := W ++ l); [exact G1|]. rewrite Hx. discriminate.
      - intros E. rewrite E in Hx. discriminate.
      - intros Hq. now elim Hq. }
  destruct (gwrite sw b1 le) as [b2 e2] eqn:E2.
  destruct (gwrite_good _ _ _ _ _ G1 E2) as (G2 & He2 & M2). rewrite <- app_assoc in G2.
  destruct (on_err_lsoft (sp_wl_le p) e2 S2) as [C2|(x & Hx & [C2|C2])]; rewrite C2 in H.
  2:{ injection H as <- <-. cbn [fst snd]. rewrite He2 in Hx. split; [|split].
      - apply ggood_err with (W := W ++ l ++ le); [exact G2|]. rewrite Hx. discriminate.
      - intros E. rewrite E in Hx. discriminate.
      - intros _. now rewrite Hx. }
  2:{ injection H as <- <-. cbn [fst snd]. rewrite He2 in Hx. split; [|split].
      - apply ggood_err with (W := W ++ l ++ le); [exact G2|]. rewrite Hx. discriminate.
      - intros E. rewrite E in Hx. discriminate.
      - intros Hq. now elim Hq. }
  assert (Hplain : forall e', e' = None -> (b2, n + 1, e') = (st', e) ->
     ggood (fst st') (W ++ l ++ le) /\
     (g_err (fst st') = None -> e = None /\ snd st' = n + 1 /\ g_err b = None) /\
     (e <> None -> e = g_err (fst st'))).
  { intros e' -> Hq. injection Hq as <- <-. cbn [fst snd]. split; [exact G2|]. split; [|intros Hx; now elim Hx].
    intros E. split; [reflexivity|]. split; [reflexivity|]. auto. }
  destruct (gavail b2 <? sp_thresh p); [|now apply (Hplain None)].
  destruct (sp_wl_flush p) eqn:Ew; try (now apply (Hplain None));
    rewrite gapi_flush_eq in H; destruct (gflush sw b2) as [b3 e3] eqn:E3;
    destruct (gflush_good _ _ _ _ G2 E3) as (G3 & He3 & M3 & _);
    injection H as <- <-; cbn [fst snd]; (split; [exact G3|]); split.
  - intros E. destruct (M3 E) as (_ & _ & E2'). split; [congruence|]. split; [reflexivity|auto].
  - intros _. exact He3.
  - intros E. destruct (M3 E) as (_ & _ & E2'). split; [reflexivity|]. split; [reflexivity|auto].
  - intros Hx. now elim Hx.
  - intros E. destruct (M3 E) as (_ & _ & E2'). split; [reflexivity|]. split; [reflexivity|auto].
  - intros Hx. now elim Hx.
  - intros E. destruct (M3 E) as (_ & _ & E2'). split; [reflexivity|]. split; [reflexivity|auto].
  - intros Hx. now elim Hx.
Qed.

(* one writeLine call followed by its call site *)
Lemma site_call_stage h b n W l st' e :
  lsoft h = true -> ggood b W -> gwrite_line sw p le (b, n) l = (st', e) ->
  match on_err h e with
  | Cont => stage b n W (fst st') (snd st') Cont (sline le l) (scount l)
  | Ret r => stage b n W (fst st') (snd st') (Ret r) (sline le l) (scount l)
  end.
Proof.
  intros Hs G H. destruct (gwrite_line_stage _ _ _ _ _ _ G H) as (G1 & M1 & X1).
  destruct (on_err_lsoft h e Hs) as [C|(x & Hx & [C|C])]; rewrite C; (split; [exact G1|]); split.
  - intros E. destruct (M1 E) as (_ & Hn & Eb). now repeat split.
  - discriminate.
  - intros E. exfalso. subst e. assert (Hq : Some x = g_err (fst st')) by (apply X1; discriminate). congruence.
  - intros r Hr. injection Hr as <-. subst e. assert (Hq : Some x = g_err (fst st')) by (apply X1; discriminate).
    split; [rewrite <- Hq; discriminate|intros _; exact Hq].
  - intros E. exfalso. subst e. assert (Hq : Some x = g_err (fst st')) by (apply X1; discriminate). congruence.
  - intros r Hr. injection Hr as <-. subst e. assert (Hq : Some x = g_err (fst st')) by (apply X1; discriminate).
    split; [rewrite <- Hq; discriminate|intros Hn; now elim Hn].
Qed.

Lemma site_bytes_cons r rest : site_bytes le (r :: rest) = sline le (snd r) ++ site_bytes le rest.
Proof. reflexivity. Qed.

(* the body of writeBatch / writeIATBatch *)
Lemma gwrite_sites_stage hs recs : forall b n W st' a,
  sites_lsoft hs recs = true -> ggood b W -> gwrite_sites sw p le hs (b, n) recs = (st', a) ->
  stage b n W (fst st') (snd st') a (site_bytes le recs) (site_count recs).
Proof.
  induction recs as [|[i l] rest IH]; intros b n W st' a Hs G H; cbn [gwrite_sites] in H.
  - injection H as <- <-. cbn [fst snd site_count]. unfold site_bytes. cbn [map concat]. unfold stage. rewrite app_nil_r.
    split; [exact G|]. split; [|discriminate]. intros E. split; [reflexivity|]. split; [lia|exact E].
  - cbn [sites_lsoft forallb fst] in Hs. apply andb_prop in Hs as [Hs1 Hs2].
    destruct (gwrite_line sw p le (b, n) l) as [st1 e] eqn:E1.
    pose proof (site_call_stage _ _ _ _ _ _ _ Hs1 G E1) as Hst.
    rewrite site_bytes_cons. cbn [snd site_count].
    destruct (on_err (site_handler hs i) e) as [|r0] eqn:Eo.
    + destruct Hst as (G1 & M1 & _). destruct st1 as [b1 n1]. cbn [fst snd] in *.
      destruct (IH _ _ _ _ _ Hs2 G1 H) as (G2 & M2 & X2).
      split; [now rewrite app_assoc|]. split; [|exact X2].
      intros E. destruct (M2 E) as (-> & Hn & Eb1). destruct (M1 Eb1) as (_ & Hn1 & Eb).
      split; [reflexivity|]. split; [lia|exact Eb].
    + injection H as <- <-. destruct Hst as (G1 & M1 & X1).
      destruct (X1 r0 eq_refl) as [Hne Hr].
      split; [|split].
      * rewrite app_assoc. apply ggood_err with (W := W ++ sline le l); assumption.
      * intros E. now elim Hne.
      * intros r Hq. injection Hq as <-. now split.
Qed.

Lemma repeat_S_concat' (x : bytes) k : concat (repeat x (S k)) = x ++ concat (repeat x k).
Proof. reflexivity. Qed.

Lemma gpad_loop_stage k : forall b W b' a,
  ggood b W -> gpad_loop sw p le k b = (b', a) ->
  ggood b' (W ++ concat (repeat (nines ++ le) k)) /\
  (g_err b' = None -> a = Cont /\ g_err b = None) /\
  (forall r, a = Ret r -> r <> None /\ r = g_err b').
Proof.
  destruct spol as (_ & _ & _ & _ & _ & _ & _ & S1 & S2 & _).
  induction k as [|k IH]; intros b W b' a G H; cbn [gpad_loop] in H.
  - injection H as <- <-. change (concat (repeat (nines ++ le) 0)) with (@nil N). rewrite app_nil_r.
    split; [exact G|]. split; [|discriminate]. now intros E.
  - rewrite repeat_S_concat'.
    destruct (gwrite sw b nines) as [b1 e1] eqn:E1.
    destruct (gwrite_good _ _ _ _ _ G E1) as (G1 & He1 & M1).
    destruct (on_err_soft (sp_pad_line p) e1 S1) as [C1|(x & Hx & C1)]; rewrite C1 in H.
    2:{ injection H as <- <-. rewrite He1 in Hx. assert (Hne : g_err b1 <> None) by (rewrite Hx; discriminate).
        split; [|split].
        - apply ggood_err with (W := W ++ nines); assumption.
        - intros E. now elim Hne.
        - intros r Hr. injection Hr as <-. split; [discriminate|now rewrite Hx]. }
    destruct (gwrite sw b1 le) as [b2 e2] eqn:E2.
    destruct (gwrite_good _ _ _ _ _ G1 E2) as (G2 & He2 & M2).
    destruct (on_err_soft (sp_pad_le p) e2 S2) as [C2|(x & Hx & C2)]; rewrite C2 in H.
    2:{ injection H as <- <-. rewrite He2 in Hx. assert (Hne : g_err b2 <> None) by (rewrite Hx; discriminate).
        split; [|split].
        - apply ggood_err with (W := (W ++ nines) ++ le); assumption.
        - intros E. now elim Hne.
        - intros r Hr. injection Hr as <-. split; [discriminate|now rewrite Hx]. }
    destruct (IH _ _ _ _ G2 H) as (G3 & M3 & X3).
    split; [|split; [|exact X3]].
    + rewrite <- (app_assoc W nines le) in G3. rewrite <- (app_assoc W (nines ++ le)) in G3. exact G3.
    + intros E. destruct (M3 E) as [-> Eb2]. split; [reflexivity|auto].
Qed.

Lemma gfinal_flush_eq b : gfinal_flush sw p b = gflush sw b.
Proof.
  destruct spol as (_ & _ & _ & _ & _ & _ & _ & _ & _ & Hf). unfold gfinal_flush. rewrite Hf. now destruct (gflush sw b).
Qed.

(* what Write does with the result of writeBatch / writeIATBatch / a writeLine of its own:
   a soft handler either goes on or returns the recorded error *)
Lemma soft_after_stage h b n W b' n' a out cnt :
  soft h = true -> stage b n W b' n' a out cnt ->
  (on_err h (act_result a) = Cont) \/
  (exists x, on_err h (act_result a) = Ret (Some x) /\ g_err b' = Some x).
Proof.
  intros Hs (_ & _ & X). destruct a as [|r]; cbn [act_result]; [now left|].
  destruct (X r eq_refl) as [Hne Hr]. destruct r as [x|]; [|now left].
  destruct (on_err_soft h (Some x) Hs) as [C|(y & Hy & C)]; [now left|].
  right. injection Hy as <-. exists x. split; [exact C|]. symmetry. apply Hr. discriminate.
Qed.

(* a stage that was left from inside (or went through) and after which Write goes on:
   the running invariant for the next stage *)
Lemma stage_goes_on b n W b' n' a out cnt :
  stage b n W b' n' a out cnt ->
  ggood b' (W ++ out) /\ (g_err b' = None -> n' = n + cnt /\ g_err b = None).
Proof. intros (G & M & _). split; [exact G|]. intros E. now destruct (M E) as (_ & ? & ?). Qed.

Variable f : sfile.
Hypothesis Hctl : soft (ctl_handler p (sf_adv f)) = true.
Hypothesis Hsb : sites_lsoft (sp_batch p) (sf_batch f) = true.
Hypothesis Hsi : sites_lsoft (sp_iat p) (sf_iat f) = true.

(* Write: the result is nil exactly when no error is recorded, and then the buffer is
   empty and everything was handed over; a non-nil result is the recorded error *)
Lemma gwrite_file_good b b' r :
  ggood b [] -> gwrite_file sw p le f b = (b', r) ->
  ggood b' (sfull_output le f) /\
  (r = None -> g_err b' = None /\ gbuf b' = [] /\ g_n b' = 0) /\
  (g_err b' = None -> r = None) /\
  (r <> None -> r = g_err b').
Proof.
  intros G H. unfold gwrite_file in H.
  destruct spol as (_ & _ & _ & _ & Sh & Scb & Sci & _).
  (* a return of the recorded error from Write *)
  assert (Hret : forall (bx : gbw K) x W, ggood bx W -> g_err bx = Some x ->
    ggood bx (sfull_output le f) /\
    (Some x = None -> g_err bx = None /\ gbuf bx = [] /\ g_n bx = 0) /\
    (g_err bx = None -> Some x = None) /\ (Some x <> None -> Some x = g_err bx)).
  { intros bx x W Gx Ex. split; [|split; [discriminate|split; [congruence|now intros _]]].
    eapply ggood_err; [exact Gx|]. rewrite Ex. discriminate. }
  (* header *)
  destruct (gwrite_line sw p le (b, 0) (sf_hdr f)) as [st1 e0] eqn:E0.
  assert (St1 : stage b 0 [] (fst st1) (snd st1) (match on_err (sp_hdr p) e0 with Cont => Cont | Ret r0 => Ret r0 end)
                  (sline le (sf_hdr f)) (scount (sf_hdr f))).
  { pose proof (site_call_stage (sp_hdr p) _ _ _ _ _ _ (ltac:(destruct (sp_hdr p); try discriminate; reflexivity)) G E0) as Hs.
    destruct (on_err (sp_hdr p) e0); exact Hs. }
  destruct (on_err_soft (sp_hdr p) e0 Sh) as [C0|(x & Hx & C0)]; rewrite C0 in H, St1.
  2:{ injection H as <- <-. destruct St1 as (G1 & _ & X1). destruct (X1 _ eq_refl) as [_ Hr].
      eapply Hret; [exact G1|]. symmetry. apply Hr. discriminate. }
  destruct (stage_goes_on _ _ _ _ _ _ _ _ St1) as [G1 N1]. destruct st1 as [b1 n1]. cbn [fst snd app] in *.
  (* writeBatch *)
  destruct (gwrite_sites sw p le (sp_batch p) (b1, n1) (sf_batch f)) as [st2 a2] eqn:E2.
  pose proof (gwrite_sites_stage _ _ _ _ _ _ _ Hsb G1 E2) as St2.
  destruct (soft_after_stage _ _ _ _ _ _ _ _ _ Scb St2) as [C2|(x & C2 & Ex)]; rewrite C2 in H.
  2:{ injection H as <- <-. destruct St2 as (G2 & _). eapply Hret; [exact G2|exact Ex]. }
  destruct (stage_goes_on _ _ _ _ _ _ _ _ St2) as [G2 N2]. destruct st2 as [b2 n2]. cbn [fst snd] in *.
  (* writeIATBatch *)
  destruct (gwrite_sites sw p le (sp_iat p) (b2, n2) (sf_iat f)) as [st3 a3] eqn:E3.
  pose proof (gwrite_sites_stage _ _ _ _ _ _ _ Hsi G2 E3) as St3.
  destruct (soft_after_stage _ _ _ _ _ _ _ _ _ Sci St3) as [C3|(x & C3 & Ex)]; rewrite C3 in H.
  2:{ injection H as <- <-. destruct St3 as (G3 & _). eapply Hret; [exact G3|exact Ex]. }
  destruct (stage_goes_on _ _ _ _ _ _ _ _ St3) as [G3 N3]. destruct st3 as [b3 n3]. cbn [fst snd] in *.
  (* file control *)
  destruct (gwrite_line sw p le (b3, n3) (sf_ctl f)) as [st4 e4] eqn:E4.
  assert (St4 : stage b3 n3 ((sline le (sf_hdr f) ++ site_bytes le (sf_batch f)) ++ site_bytes le (sf_iat f))
                  (fst st4) (snd st4) (match on_err (ctl_handler p (sf_adv f)) e4 with Cont => Cont | Ret r0 => Ret r0 end)
                  (sline le (sf_ctl f)) (scount (sf_ctl f))).
  { pose proof (site_call_stage (ctl_handler p (sf_adv f)) _ _ _ _ _ _
                  (ltac:(destruct (ctl_handler p (sf_adv f)); try discriminate; reflexivity)) G3 E4) as Hs.
    destruct (on_err (ctl_handler p (sf_adv f)) e4); exact Hs. }
  destruct (on_err_soft (ctl_handler p (sf_adv f)) e4 Hctl) as [C4|(x & Hx & C4)]; rewrite C4 in H, St4.
  2:{ injection H as <- <-. destruct St4 as (G4 & _ & X4). destruct (X4 _ eq_refl) as [_ Hr].
      eapply Hret; [exact G4|]. symmetry. apply Hr. discriminate. }
  destruct (stage_goes_on _ _ _ _ _ _ _ _ St4) as [G4 N4]. destruct st4 as [b4 n4]. cbn [fst snd] in *.
  assert (Hbytes : ((sline le (sf_hdr f) ++ site_bytes le (sf_batch f)) ++ site_bytes le (sf_iat f)) ++ sline le (sf_ctl f)
                   = sfile_bytes le f).
  { unfold sfile_bytes. now rewrite <- !app_assoc. }
  rewrite Hbytes in G4.
  assert (Hcnt : g_err b4 = None -> n4 = sfile_count f).
  { intros E. destruct (N4 E) as [Hn4 Eb3]. destruct (N3 Eb3) as [Hn3 Eb2]. destruct (N2 Eb2) as [Hn2 Eb1].
    destruct (N1 Eb1) as [Hn1 _]. unfold sfile_count. lia. }
  (* padding *)
  destruct (gpad_loop sw p le (pad_count n4) b4) as [b5 a5] eqn:E5.
  destruct (gpad_loop_stage _ _ _ _ _ G4 E5) as (G5 & M5 & X5).
  destruct a5 as [|r5].
  2:{ injection H as <- <-. destruct (X5 r5 eq_refl) as [Hr Hq]. destruct r5 as [x|]; [|now elim Hr].
      eapply Hret; [exact G5|now symmetry]. }
  rewrite gfinal_flush_eq in H.
  destruct (gflush_good _ _ _ _ G5 H) as (G6 & He & M6 & _).
  assert (Hd : (exists x, g_err b' = Some x) \/ g_err b' = None) by (destruct (g_err b'); eauto).
  destruct Hd as [[x Eb]|Eb].
  - assert (Hr : r = Some x) by (rewrite He; exact Eb). rewrite Hr. eapply Hret; [exact G6|exact Eb].
  - destruct (M6 Eb) as (Hbuf & Hn0 & Eb5). destruct (M5 Eb5) as [_ Eb4]. rewrite (Hcnt Eb4) in G6.
    split; [exact G6|]. split; [intros _; now repeat split|]. split; [intros _; congruence|intros Hx; congruence].
Qed.

(* the run as a whole *)
Lemma gwriter_run_good s : Inv s -> got s = [] -> bad s = false ->
  let r := gwriter_run sw p le f s in
  exists b, g_sink b = gr_sink r /\ ggood b (sfull_output le f) /\
    gr_flush r = g_err b /\ (gr_write r = None -> g_err b = None) /\
    (g_err b = None -> gr_write r = None /\ gbuf b = []) /\
    (gr_write r <> None -> gr_write r = g_err b).
Proof.
  intros Hi Hg Hb. unfold gwriter_run.
  destruct (gwrite_file sw p le f (gnew s)) as [b1 r1] eqn:E1.
  destruct (gwrite_file_good _ _ _ (ggood_new s Hi Hg Hb) E1) as (G1 & M1 & N1 & X1).
  rewrite gapi_flush_eq. destruct (gflush sw b1) as [b2 fr] eqn:E2.
  destruct (gflush_good _ _ _ _ G1 E2) as (G2 & He & M2 & St). cbn [gr_write gr_flush gr_sink].
  exists b2. split; [reflexivity|]. split; [exact G2|]. split; [exact He|].
  split; [|split].
  - intros Hr. destruct (M1 Hr) as (Eb1 & Hbuf & Hn0). rewrite (gflush_empty b1 Eb1 Hn0) in E2. now injection E2 as <- _.
  - intros E. destruct (M2 E) as (Hbuf & _ & Eb1). split; [now apply N1|exact Hbuf].
  - intros Hr. rewrite (X1 Hr). destruct (g_err b1) as [x|] eqn:Eb1.
    + rewrite St; [now rewrite Eb1|discriminate].
    + rewrite (N1 eq_refl) in Hr. now elim Hr.
Qed.

(* a nil result of Write, or of the Flush that follows, means the sink holds exactly the
   complete output and never gave a faulty answer *)
Theorem gwriter_safe s : Inv s -> got s = [] -> bad s = false ->
  let r := gwriter_run sw p le f s in
  (gr_write r = None \/ gr_flush r = None) ->
  got (gr_sink r) = sfull_output le f /\ bad (gr_sink r) = false /\ Inv (gr_sink r).
Proof.
  intros Hi Hg Hb r Hr. destruct (gwriter_run_good s Hi Hg Hb) as (b & Hs & G & Hf & Hw & Hbb & _). fold r in Hs, Hf, Hw, Hbb.
  assert (E : g_err b = None) by (destruct Hr as [Hr|Hr]; [now apply Hw|congruence]).
  destruct (Hbb E) as [_ Hbuf]. destruct G as (Hi' & _ & H3 & _). destruct (H3 E) as [HW Ht].
  rewrite Hbuf, app_nil_r in HW. rewrite <- Hs. now repeat split.
Qed.

(* conversely: a faulty answer makes both fail *)
Theorem gwriter_reports s : Inv s -> got s = [] -> bad s = false ->
  let r := gwriter_run sw p le f s in
  bad (gr_sink r) = true -> gr_write r <> None /\ gr_flush r <> None.
Proof.
  intros Hi Hg Hb r Ht.
  assert (H : ~ (gr_write r = None \/ gr_flush r = None)).
  { intros Hr. destruct (gwriter_safe s Hi Hg Hb Hr) as (_ & Hx & _). fold r in Hx. congruence. }
  split; intros E; apply H; [now left|now right].
Qed.

(* no false alarm *)
Theorem gwriter_no_false_error s : Inv s -> got s = [] -> bad s = false ->
  let r := gwriter_run sw p le f s in
  bad (gr_sink r) = false ->
  gr_write r = None /\ gr_flush r = None /\ got (gr_sink r) = sfull_output le f.
Proof.
  intros Hi Hg Hb r Ht. destruct (gwriter_run_good s Hi Hg Hb) as (b & Hs & G & Hf & Hw & Hbb & _). fold r in Hs, Hf, Hw, Hbb.
  assert (E : g_err b = None).
  { destruct (g_err b) as [x|] eqn:Eb; [|reflexivity]. destruct G as (_ & _ & _ & H4).
    assert (Hne : g_err b <> None) by (rewrite Eb; discriminate). destruct (H4 Hne) as [Htr _]. rewrite Hs in Htr. congruence. }
  destruct (Hbb E) as [Hwn _]. split; [exact Hwn|]. split; [congruence|].
  apply (gwriter_safe s Hi Hg Hb). now left.
Qed.

(* Write and the Flush that follows return the same value *)
Theorem gwriter_results_agree s : Inv s -> got s = [] -> bad s = false ->
  let r := gwriter_run sw p le f s in gr_write r = gr_flush r.
Proof.
  intros Hi Hg Hb r. destruct (gwriter_run_good s Hi Hg Hb) as (b & _ & _ & Hf & Hw & Hbb & Hx). fold r in Hf, Hw, Hbb, Hx.
  rewrite Hf. destruct (gr_write r) as [x|] eqn:Ew.
  - apply Hx. discriminate.
  - symmetry. now apply Hw.
Qed.

Theorem gwriter_inv s : Inv s -> got s = [] -> bad s = false ->
  Inv (gr_sink (gwriter_run sw p le f s)).
Proof.
  intros Hi Hg Hb. destruct (gwriter_run_good s Hi Hg Hb) as (b & Hs & (Hi' & _) & _). now rewrite <- Hs.
Qed.

Theorem gwriter_fuel s : Inv s -> got s = [] -> bad s = false ->
  let r := gwriter_run sw p le f s in gr_write r <> Some EFuel /\ gr_flush r <> Some EFuel.
Proof.
  intros Hi Hg Hb r. destruct (gwriter_run_good s Hi Hg Hb) as (b & Hs & G & Hf & _ & _ & Hx). fold r in Hf, Hx.
  destruct G as (_ & _ & _ & H4).
  assert (Hbf : g_err b <> Some EFuel).
  { intros E. assert (Hne : g_err b <> None) by (rewrite E; discriminate). destruct (H4 Hne) as [_ Hn]. now elim Hn. }
  split; [|now rewrite Hf].
  intros E. apply Hbf. rewrite <- Hx; [exact E|]. rewrite E. discriminate.
Qed.

End Writer.
End Generic.

(* Model of server/repository.go (C18): the in-memory repository as an
   association list  file id -> (token of the stored *ach.File object, "older
   than the TTL" flag, batch ids in slice order), and every method body as a
   list of read / write micro-steps in source order (a check-then-insert is two
   steps).  Definitions only; proofs in RepoFacts.v.

   Method bodies (server/repository.go):
     StoreFile       lookup -> ErrAlreadyExists | r.files[id] = f
     FindFile        lookup
     FindAllFiles    range keys ; r.files[i] for each key
     DeleteFile      delete(r.files, id)
     StoreBatch      lookup -> ErrNotFound ; scan file.Batches -> ErrAlreadyExists ; r.files[id].AddBatch
     FindBatch       lookup -> ErrNotFound ; scan
     FindAllBatches  lookup -> nil ; copy
     DeleteBatch     lookup -> wrapped error ; scan from the end ; splice at the index found
     cleanupOldFiles range keys ; delete every key whose file is older than the TTL *)
From Coq Require Import List NArith Bool String.
Import ListNotations.
From ACH Require Import RWLock.

Definition fid := N.
Definition bid := N.

Record file := mkfile { f_tok : N; f_old : bool; f_batches : list bid }.
Definition St := list (fid * file).

Fixpoint lookup (k : fid) (s : St) : option file :=
  match s with
  | [] => None
  | (k', v) :: s' => if N.eqb k' k then Some v else lookup k s'
  end.

Fixpoint remove (k : fid) (s : St) : St :=
  match s with
  | [] => []
  | (k', v) :: s' => if N.eqb k' k then remove k s' else (k', v) :: remove k s'
  end.

(* Go map assignment: overwrite in place or add *)
Fixpoint set (k : fid) (v : file) (s : St) : St :=
  match s with
  | [] => [(k, v)]
  | (k', v') :: s' => if N.eqb k' k then (k', v) :: s' else (k', v') :: set k v s'
  end.

Definition keys (s : St) : list fid := map fst s.

Definition batches_of (k : fid) (s : St) : list bid :=
  match lookup k s with Some f => f_batches f | None => [] end.

Definition memb (b : bid) (l : list bid) : bool := existsb (N.eqb b) l.

(* index of the last occurrence (DeleteBatch scans from the end) *)
Fixpoint last_index (b : bid) (l : list bid) : option nat :=
  match l with
  | [] => None
  | x :: l' =>
      match last_index b l' with
      | Some i => Some (S i)
      | None => if N.eqb x b then Some 0 else None
      end
  end.

(* append(l[:i], l[i+1:]...) *)
Fixpoint remove_nth (i : nat) (l : list bid) : list bid :=
  match l, i with
  | [], _ => []
  | _ :: l', 0 => l'
  | x :: l', S i' => x :: remove_nth i' l'
  end.

Inductive err := ENotFound | EExists | EOther.

Inductive res :=
| RNone                          (* nil / no value *)
| ROk                            (* nil error *)
| RErr (e : err)
| RFile (tok : N)
| RFiles (l : list (option N))   (* tokens in map order; None = nil element *)
| RBatch (b : bid)
| RBatches (l : list bid).

Record arg := mkarg { a_fid : fid; a_bid : bid; a_tok : N; a_old : bool }.

Record loc := mkloc {
  l_arg : arg;
  l_keys : list fid;       (* keys seen by a range loop *)
  l_idx : option nat;      (* index found by DeleteBatch's scan *)
  l_res : res;
  l_done : bool }.         (* the method has executed a return statement *)

Inductive op :=
| StoreFile | FindFile | FindAllFiles | DeleteFile
| StoreBatch | FindBatch | FindAllBatches | DeleteBatch | Sweep.

Definition all_ops : list op :=
  [StoreFile; FindFile; FindAllFiles; DeleteFile; StoreBatch; FindBatch; FindAllBatches; DeleteBatch; Sweep].

Definition ret (l : loc) (r : res) : loc :=
  {| l_arg := l_arg l; l_keys := l_keys l; l_idx := l_idx l; l_res := r; l_done := true |}.
Definition with_keys (l : loc) (ks : list fid) : loc :=
  {| l_arg := l_arg l; l_keys := ks; l_idx := l_idx l; l_res := l_res l; l_done := l_done l |}.
Definition with_idx (l : loc) (i : nat) : loc :=
  {| l_arg := l_arg l; l_keys := l_keys l; l_idx := Some i; l_res := l_res l; l_done := l_done l |}.

(* micro-steps after a return are skipped *)
Definition rd (f : St -> loc -> loc) : mstep St loc :=
  MRead (fun s l => if l_done l then l else f s l).
Definition wr (f : St -> loc -> St * loc) : mstep St loc :=
  MWrite (fun s l => if l_done l then (s, l) else f s l).

Definition add_batch (f : file) (b : bid) : file :=
  {| f_tok := f_tok f; f_old := f_old f; f_batches := f_batches f ++ [b] |}.
Definition set_batches (f : file) (bs : list bid) : file :=
  {| f_tok := f_tok f; f_old := f_old f; f_batches := bs |}.

Definition need_file : mstep St loc :=
  rd (fun s l => match lookup (a_fid (l_arg l)) s with Some _ => l | None => ret l (RErr ENotFound) end).

Definition sweep_keys (ks : list fid) (s : St) : St :=
  fold_left (fun s k => match lookup k s with
                        | Some f => if f_old f then remove k s else s
                        | None => s
                        end) ks s.

Definition steps_of (o : op) : list (mstep St loc) :=
  match o with
  | StoreFile =>
      [ rd (fun s l => match lookup (a_fid (l_arg l)) s with Some _ => ret l (RErr EExists) | None => l end);
        wr (fun s l => (set (a_fid (l_arg l)) (mkfile (a_tok (l_arg l)) (a_old (l_arg l)) []) s, ret l ROk)) ]
  | FindFile =>
      [ rd (fun s l => match lookup (a_fid (l_arg l)) s with
                       | Some f => ret l (RFile (f_tok f))
                       | None => ret l (RErr ENotFound)
                       end) ]
  | FindAllFiles =>
      [ rd (fun s l => with_keys l (keys s));
        rd (fun s l => ret l (RFiles (map (fun k => option_map f_tok (lookup k s)) (l_keys l)))) ]
  | DeleteFile =>
      [ wr (fun s l => (remove (a_fid (l_arg l)) s, ret l ROk)) ]
  | StoreBatch =>
      [ need_file;
        rd (fun s l => if memb (a_bid (l_arg l)) (batches_of (a_fid (l_arg l)) s) then ret l (RErr EExists) else l);
        wr (fun s l => (match lookup (a_fid (l_arg l)) s with
                        | Some f => set (a_fid (l_arg l)) (add_batch f (a_bid (l_arg l))) s
                        | None => s
                        end, ret l ROk)) ]
  | FindBatch =>
      [ need_file;
        rd (fun s l => if memb (a_bid (l_arg l)) (batches_of (a_fid (l_arg l)) s)
                       then ret l (RBatch (a_bid (l_arg l))) else ret l (RErr ENotFound)) ]
  | FindAllBatches =>
      [ rd (fun s l => match lookup (a_fid (l_arg l)) s with Some _ => l | None => ret l RNone end);
        rd (fun s l => ret l (RBatches (batches_of (a_fid (l_arg l)) s))) ]
  | DeleteBatch =>
      [ rd (fun s l => match lookup (a_fid (l_arg l)) s with Some _ => l | None => ret l (RErr EOther) end);
        rd (fun s l => match last_index (a_bid (l_arg l)) (batches_of (a_fid (l_arg l)) s) with
                       | Some i => with_idx l i
                       | None => ret l (RErr ENotFound)
                       end);
        wr (fun s l => (match l_idx l, lookup (a_fid (l_arg l)) s with
                        | Some i, Some f => set (a_fid (l_arg l)) (set_batches f (remove_nth i (f_batches f))) s
                        | _, _ => s
                        end, ret l ROk)) ]
  | Sweep =>
      [ rd (fun s l => with_keys l (keys s));
        wr (fun s l => (sweep_keys (l_keys l) s, ret l ROk)) ]
  end.

Definition repo_body (o : op) : body St arg res loc :=
  {| b_init := fun a => {| l_arg := a; l_keys := []; l_idx := None; l_res := RNone; l_done := false |};
     b_steps := steps_of o;
     b_fin := l_res |}.

(* the sequential specification of the nine operations *)
Definition repo_spec : op -> arg -> St -> St * res := spec repo_body.

Definition op_writes (o : op) : bool := negb (forallb is_read (steps_of o)).

(* Go method implementing each op *)
Definition op_name (o : op) : string :=
  match o with
  | StoreFile => "StoreFile" | FindFile => "FindFile" | FindAllFiles => "FindAllFiles"
  | DeleteFile => "DeleteFile" | StoreBatch => "StoreBatch" | FindBatch => "FindBatch"
  | FindAllBatches => "FindAllBatches" | DeleteBatch => "DeleteBatch" | Sweep => "cleanupOldFiles"
  end%string.

(* run a whole list of calls sequentially (what the correspondence harness replays) *)
Fixpoint run_seq (cs : list (op * arg)) (s : St) : St * list res :=
  match cs with
  | [] => (s, [])
  | (o, a) :: cs' =>
      let '(s1, r) := repo_spec o a s in
      let '(s2, rs) := run_seq cs' s1 in (s2, r :: rs)
  end.

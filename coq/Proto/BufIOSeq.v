(* C16, phase 4 — the I/O model of Proto/BufIO.v made finer in three directions
   (definitions only; proofs in BufIOSeqFacts.v):

   1. per call site: the file is the sequence of writeLine calls writer.go makes —
      header, the calls of writeBatch, the calls of writeIATBatch, the file control
      (ADV or not) — and every call carries the *ordinal of its call site* inside
      writeBatch / writeIATBatch.  The policy has one handler per site
      (regenerated from writer.go), and the two levels of error handling are kept
      apart: what the site inside writeBatch does with writeLine's error, and what
      Write does with writeBatch's result.

   2. arbitrary sinks and sources: bufio.Writer and the call sequence are generic in
      the sink (any state machine  K -> bytes -> K * n * error).  Two instances:
      the fault-at-offset sink of BufIO.v, and a *scripted* sink that answers its
      i-th Write call with the i-th response of an arbitrary list (bytes taken,
      optional error) — every behaviour an io.Writer can show in one run, in
      particular failures that go away again.  The source of the reader is an
      arbitrary list of responses (data, optional terminal event): a reader whose
      error is not sticky, data delivered together with an error, io.EOF followed
      by more data.

   3. Reader.Read's maxLines early return; Writer.Flush's possible
      `if w.w.Buffered() == 0 { return nil }` shortcut.

   bufio / io / x/net/html/charset / x/text/transform behaviour is transcribed from
   the Go 1.23 and x/net, x/text sources (stated contract, exercised by the
   correspondence run). *)
From Coq Require Import List NArith Arith Bool.
From ACH Require Import Bytes BufIO Framing.
Import ListNotations.
Open Scope N_scope.

(* ------------------------------------------------------------------ per-site policy *)

Record spolicy := mkspol {
  sp_wl_line : handler;     (* writeLine: w.w.WriteString(line) *)
  sp_wl_le : handler;       (* writeLine: w.w.WriteString(w.LineEnding) *)
  sp_wl_flush : handler;    (* writeLine: if w.w.Available() < T { return w.Flush() } *)
  sp_thresh : N;            (* T *)
  sp_api_flush : handler;   (* Writer.Flush: return w.w.Flush() *)
  sp_flush_guard : bool;    (* Writer.Flush: if w.w.Buffered() == 0 { return nil } before it *)
  sp_hdr : handler;         (* Write: w.writeLine(&file.Header) *)
  sp_call_batch : handler;  (* Write: w.writeBatch(file, isADV) *)
  sp_call_iat : handler;    (* Write: w.writeIATBatch(file) *)
  sp_ctl : handler;         (* Write: w.writeLine(&file.Control) *)
  sp_advctl : handler;      (* Write: w.writeLine(&file.ADVControl) *)
  sp_batch : list handler;  (* writeBatch: its writeLine call sites, in source order *)
  sp_iat : list handler;    (* writeIATBatch: its writeLine call sites, in source order *)
  sp_pad_line : handler;    (* Write: w.w.WriteString(paddingLine) *)
  sp_pad_le : handler;      (* Write: w.w.WriteString(w.LineEnding) in the padding loop *)
  sp_final : handler }.     (* Write: return w.w.Flush() *)

Definition site_handler (hs : list handler) (i : N) : handler := nth (N.to_nat i) hs Unknown.

(* the writeLine calls of one Write, in order.  A call whose record is absent
   (String() = "") is an empty byte string: writeLine returns at once. *)
Record sfile := mksfile {
  sf_hdr : bytes;
  sf_batch : list (N * bytes);   (* (site ordinal in writeBatch, line) *)
  sf_iat : list (N * bytes);     (* (site ordinal in writeIATBatch, line) *)
  sf_adv : bool;                 (* file.IsADV(): which control site is used *)
  sf_ctl : bytes }.

Definition ctl_handler (p : spolicy) (adv : bool) : handler := if adv then sp_advctl p else sp_ctl p.

(* ------------------------------------------------------------------ bufio.Writer over any sink *)

Section GenericSink.
Variable K : Type.
(* io.Writer.Write: new state, bytes taken, error *)
Variable sw : K -> bytes -> K * N * option werr.

Record gbw := mkgbw { g_pend : list bytes; g_n : N; g_err : option werr; g_sink : K }.

Definition gnew (s : K) : gbw := mkgbw [] 0 None s.
Definition gbuf (b : gbw) : bytes := concat (rev (g_pend b)).
Definition gavail (b : gbw) : N := cap - g_n b.
Definition gpush (b : gbw) (s : bytes) : gbw := mkgbw (s :: g_pend b) (g_n b + blen s) (g_err b) (g_sink b).
Definition gset_err (b : gbw) (e : werr) : gbw := mkgbw (g_pend b) (g_n b) (Some e) (g_sink b).

(* func (b *Writer) Flush() error *)
Definition gflush (b : gbw) : gbw * option werr :=
  match g_err b with
  | Some e => (b, Some e)
  | None =>
      if g_n b =? 0 then (b, None)
      else
        let data := gbuf b in
        let '(s', n, e) := sw (g_sink b) data in
        let e' := match e with
                  | Some x => Some x
                  | None => if n <? g_n b then Some EShort else None
                  end in
        match e' with
        | Some x => (mkgbw [skipn (N.to_nat n) data] (g_n b - n) (Some x) s', Some x)
        | None => (mkgbw [] 0 None s', None)
        end
  end.

Fixpoint gws_loop (fuel : nat) (b : gbw) (s : bytes) : gbw * bytes :=
  match fuel with
  | O => (gset_err b EFuel, s)
  | S f =>
      match g_err b with
      | Some _ => (b, s)
      | None =>
          if gavail b <? blen s then
            let a := N.to_nat (gavail b) in
            gws_loop f (fst (gflush (gpush b (firstn a s)))) (skipn a s)
          else (b, s)
      end
  end.

(* func (b *Writer) WriteString(s string) (int, error) *)
Definition gwrite (b : gbw) (s : bytes) : gbw * option werr :=
  let (b1, s1) := gws_loop (length s + 3) b s in
  match g_err b1 with
  | Some e => (b1, Some e)
  | None => (gpush b1 s1, None)
  end.

(* ---------------------------------------------------------------- writer.go *)

Variable p : spolicy.
Variable le : bytes.

(* func (w *Writer) Flush() error *)
Definition gapi_flush (b : gbw) : gbw * option werr :=
  if sp_flush_guard p && (g_n b =? 0) then (b, None)
  else
    match sp_api_flush p with
    | Absent => (b, None)
    | h => let (b', e) := gflush b in
           (b', match h with Propagate => e | _ => None end)
    end.

(* func (w *Writer) writeLine(entry writeEntry) error; the N is w.lineNum *)
Definition gwrite_line (st : gbw * N) (line : bytes) : (gbw * N) * option werr :=
  let (b, n) := st in
  if negb (nonempty line) then (st, None)
  else
    let (b1, e1) := gwrite b line in
    match on_err (sp_wl_line p) e1 with
    | Ret r => ((b1, n), r)
    | Cont =>
        let (b2, e2) := gwrite b1 le in
        match on_err (sp_wl_le p) e2 with
        | Ret r => ((b2, n), r)
        | Cont =>
            if gavail b2 <? sp_thresh p then
              match sp_wl_flush p with
              | Absent => ((b2, n + 1), None)
              | h => let (b3, e3) := gapi_flush b2 in
                     ((b3, n + 1), match h with Propagate => e3 | _ => None end)
              end
            else ((b2, n + 1), None)
        end
    end.

(* the body of writeBatch / writeIATBatch: one writeLine call after the other, each
   followed by what its own call site does with the result.  Cont = the function
   reached its final `return nil`; Ret r = it returned r from inside *)
Fixpoint gwrite_sites (hs : list handler) (st : gbw * N) (recs : list (N * bytes)) : (gbw * N) * act :=
  match recs with
  | [] => (st, Cont)
  | (i, l) :: rest =>
      let (st1, e) := gwrite_line st l in
      match on_err (site_handler hs i) e with
      | Ret r => (st1, Ret r)
      | Cont => gwrite_sites hs st1 rest
      end
  end.

Definition act_result (a : act) : option werr := match a with Cont => None | Ret r => r end.

Fixpoint gpad_loop (k : nat) (b : gbw) : gbw * act :=
  match k with
  | O => (b, Cont)
  | S k' =>
      let (b1, e1) := gwrite b nines in
      match on_err (sp_pad_line p) e1 with
      | Ret r => (b1, Ret r)
      | Cont =>
          let (b2, e2) := gwrite b1 le in
          match on_err (sp_pad_le p) e2 with
          | Ret r => (b2, Ret r)
          | Cont => gpad_loop k' b2
          end
      end
  end.

Definition gfinal_flush (b : gbw) : gbw * option werr :=
  match sp_final p with
  | Absent => (b, None)
  | h => let (b', e) := gflush b in
         (b', match h with Propagate => e | _ => None end)
  end.

(* func (w *Writer) Write(file *File) error, after validation, on a fresh Writer *)
Definition gwrite_file (f : sfile) (b : gbw) : gbw * option werr :=
  let '(st1, e0) := gwrite_line (b, 0) (sf_hdr f) in
  match on_err (sp_hdr p) e0 with
  | Ret r => (fst st1, r)
  | Cont =>
      let '(st2, a2) := gwrite_sites (sp_batch p) st1 (sf_batch f) in
      match on_err (sp_call_batch p) (act_result a2) with
      | Ret r => (fst st2, r)
      | Cont =>
          let '(st3, a3) := gwrite_sites (sp_iat p) st2 (sf_iat f) in
          match on_err (sp_call_iat p) (act_result a3) with
          | Ret r => (fst st3, r)
          | Cont =>
              let '(st4, e4) := gwrite_line st3 (sf_ctl f) in
              match on_err (ctl_handler p (sf_adv f)) e4 with
              | Ret r => (fst st4, r)
              | Cont =>
                  let (b5, a5) := gpad_loop (pad_count (snd st4)) (fst st4) in
                  match a5 with
                  | Ret r => (b5, r)
                  | Cont => gfinal_flush b5
                  end
              end
          end
      end
  end.

Record gwres := mkgwres { gr_write : option werr; gr_flush : option werr; gr_sink : K }.

(* w := NewWriter(sink); err := w.Write(f); ferr := w.Flush() *)
Definition gwriter_run (f : sfile) (s : K) : gwres :=
  let (b1, r) := gwrite_file f (gnew s) in
  let (b2, fr) := gapi_flush b1 in
  mkgwres r fr (g_sink b2).

End GenericSink.

Arguments mkgbw {K}.
Arguments g_pend {K}.
Arguments g_n {K}.
Arguments g_err {K}.
Arguments g_sink {K}.
Arguments gnew {K}.
Arguments gbuf {K}.
Arguments gavail {K}.
Arguments gpush {K}.
Arguments gset_err {K}.
Arguments gflush {K}.
Arguments gws_loop {K}.
Arguments gwrite {K}.
Arguments gapi_flush {K}.
Arguments gwrite_line {K}.
Arguments gwrite_sites {K}.
Arguments gpad_loop {K}.
Arguments gfinal_flush {K}.
Arguments gwrite_file {K}.
Arguments gwriter_run {K}.
Arguments mkgwres {K}.
Arguments gr_write {K}.
Arguments gr_flush {K}.
Arguments gr_sink {K}.

(* specification of the complete output, independent of buffering, sites and policy *)
Definition sline (le l : bytes) : bytes := if nonempty l then l ++ le else [].
Definition scount (l : bytes) : N := if nonempty l then 1 else 0.
Definition site_bytes (le : bytes) (recs : list (N * bytes)) : bytes :=
  concat (map (fun r => sline le (snd r)) recs).
Fixpoint site_count (recs : list (N * bytes)) : N :=
  match recs with [] => 0 | r :: rest => scount (snd r) + site_count rest end.
Definition sfile_bytes (le : bytes) (f : sfile) : bytes :=
  sline le (sf_hdr f) ++ site_bytes le (sf_batch f) ++ site_bytes le (sf_iat f) ++ sline le (sf_ctl f).
Definition sfile_count (f : sfile) : N :=
  scount (sf_hdr f) + site_count (sf_batch f) + site_count (sf_iat f) + scount (sf_ctl f).
Definition sfull_output (le : bytes) (f : sfile) : bytes :=
  sfile_bytes le f ++ concat (repeat (nines ++ le) (pad_count (sfile_count f))).

(* the checker.  Inside writeBatch / writeIATBatch (as inside writeLine) even
   `return nil` on a failed call is covered: Write goes on, every later call fails
   with bufio's sticky error, the final Flush returns it.  At the level of Write the
   error must be returned or dropped, never answered with `return nil`. *)
Definition spolicy_common_ok (p : spolicy) : bool :=
  lsoft (sp_wl_line p) && lsoft (sp_wl_le p)
  && (soft (sp_wl_flush p) || match sp_wl_flush p with Absent => true | _ => false end)
  && match sp_api_flush p with Propagate => true | _ => false end
  && negb (sp_flush_guard p)
  && soft (sp_hdr p) && soft (sp_call_batch p) && soft (sp_call_iat p)
  && soft (sp_pad_line p) && soft (sp_pad_le p)
  && match sp_final p with Propagate => true | _ => false end.

(* ... on the call sites one file exercises *)
Definition sites_lsoft (hs : list handler) (recs : list (N * bytes)) : bool :=
  forallb (fun r => lsoft (site_handler hs (fst r))) recs.
Definition spolicy_ok_on (f : sfile) (p : spolicy) : bool :=
  spolicy_common_ok p && soft (ctl_handler p (sf_adv f))
  && sites_lsoft (sp_batch p) (sf_batch f) && sites_lsoft (sp_iat p) (sf_iat f).

(* ... on every call site *)
Definition spolicy_ok (p : spolicy) : bool :=
  spolicy_common_ok p && soft (sp_ctl p) && soft (sp_advctl p)
  && forallb lsoft (sp_batch p) && forallb lsoft (sp_iat p).

Definition sites_in_range (hs : list handler) (recs : list (N * bytes)) : bool :=
  forallb (fun r => N.to_nat (fst r) <? length hs)%nat recs.
Definition sfile_in_range (f : sfile) (p : spolicy) : bool :=
  sites_in_range (sp_batch p) (sf_batch f) && sites_in_range (sp_iat p) (sf_iat f).

(* writer.go as read at design time: 13 sites in writeBatch, 14 in writeIATBatch *)
Definition reference_spolicy : spolicy :=
  mkspol Propagate Propagate Propagate 94 Propagate false Propagate Propagate Propagate Propagate Propagate
         (repeat Propagate 13) (repeat Propagate 14) Propagate Propagate Propagate.

(* ------------------------------------------------------------------ scripted sink *)

Inductive serr := SInj | SShort.    (* the sink's own error value / io.ErrShortWrite *)
Definition werr_of (e : serr) : werr := match e with SInj => EInj | SShort => EShort end.

(* the answer to one Write(p) call: min(sr_take, len p) bytes are taken and sr_err is returned *)
Record sresp := mksresp { sr_take : N; sr_err : option serr }.

(* ss_script: the answers still to come (then the sink is healthy for ever);
   ss_bad: some answer so far was an error or a short count;
   ss_late: Write calls received after such an answer *)
Record ssink := mkssink { ss_script : list sresp; ss_got : bytes; ss_calls : N; ss_bad : bool; ss_late : N }.

Definition new_ssink (script : list sresp) : ssink := mkssink script [] 0 false 0.

Definition is_some {A} (o : option A) : bool := match o with Some _ => true | None => false end.

Definition ssink_write (s : ssink) (p : bytes) : ssink * N * option werr :=
  let late := if ss_bad s then ss_late s + 1 else ss_late s in
  match ss_script s with
  | [] => (mkssink [] (ss_got s ++ p) (ss_calls s + 1) (ss_bad s) late, blen p, None)
  | r :: rest =>
      let n := N.min (sr_take r) (blen p) in
      let faulty := is_some (sr_err r) || (n <? blen p) in
      (mkssink rest (ss_got s ++ firstn (N.to_nat n) p) (ss_calls s + 1) (ss_bad s || faulty) late,
       n, option_map werr_of (sr_err r))
  end.

(* the two instances of the generic run *)
Definition seq_writer_run (p : spolicy) (le : bytes) (f : sfile) (script : list sresp) : gwres ssink :=
  gwriter_run ssink_write p le f (new_ssink script).
Definition off_writer_run (p : spolicy) (le : bytes) (f : sfile) (fo : option fault) : gwres sink :=
  gwriter_run sink_write p le f (new_sink fo).

(* the grouped model of BufIO.v is the per-site model with one handler per group *)
Definition spolicy_of_wpolicy (q : wpolicy) (nb ni : nat) : spolicy :=
  mkspol (p_wl_line q) (p_wl_le q) (p_wl_flush q) (p_thresh q) (p_api_flush q) false
         (p_hdr q) Propagate Propagate (p_ctl q) (p_ctl q)
         (repeat (p_body q) nb) (repeat (p_body q) ni) (p_pad_line q) (p_pad_le q) (p_final q).

(* ------------------------------------------------------------------ scripted source *)

(* the answer to Read calls: rr_data is delivered (over several calls when the caller's
   buffer is smaller), and rr_term, if any, is returned together with its last byte
   (with 0 bytes when rr_data is empty).  After the list: io.EOF for ever.  Nothing
   makes the source repeat an error: what follows a response is the next response. *)
Record rresp := mkrresp { rr_data : bytes; rr_term : option term }.

Inductive pstat := PFilled | PTerm (t : term).

(* io.ReadFull(r, preview[0:1024]) = io.ReadAtLeast:
     for n < min && err == nil { nn, err = r.Read(buf[n:]); n += nn }
     if n >= min { err = nil } ...
   returns the preview, the responses not yet (completely) consumed, whether the
   buffer was filled, the number of responses completely consumed *)
Fixpoint preview_seq (need : N) (rs : list rresp) (acc : bytes) (used : N) : bytes * list rresp * pstat * N :=
  match rs with
  | [] => (acc, [], (if need =? 0 then PFilled else PTerm TEOF), used)
  | r :: rest =>
      if need =? 0 then (acc, rs, PFilled, used)
      else
        let c := rr_data r in
        if need <? blen c then
          (acc ++ firstn (N.to_nat need) c, mkrresp (skipn (N.to_nat need) c) (rr_term r) :: rest, PFilled, used)
        else
          match rr_term r with
          | None => preview_seq (need - blen c) rest (acc ++ c) (used + 1)
          | Some t =>
              if blen c =? need then (acc ++ c, rest, PFilled, used + 1)    (* n >= min: err = nil *)
              else (acc ++ c, rest, PTerm t, used + 1)
          end
  end.

(* what io.MultiReader(preview, r) -> [transform.Reader ->] bufio.Scanner deliver: all
   data up to and including the first response with a terminal event; every stage
   downstream of the source remembers that event and never reads again *)
Fixpoint stream_seq (rs : list rresp) (used : N) : bytes * term * N :=
  match rs with
  | [] => ([], TEOF, used)
  | r :: rest =>
      match rr_term r with
      | Some t => (rr_data r, t, used + 1)
      | None => let '(d, t, u) := stream_seq rest (used + 1) in (rr_data r ++ d, t, u)
      end
  end.

(* the scan loop of Read counts a line (r.lineNum++) at CR/LF after at least one
   character and after 94 characters; same structure as Framing.frame *)
Fixpoint line_events (cs : list char) (cnt : nat) : N :=
  match cs with
  | [] => 0
  | c :: rest =>
      if is_nl c then
        if (0 <? cnt)%nat then 1 + line_events rest 0 else line_events rest cnt
      else
        if (S cnt <? 94)%nat then line_events rest (S cnt) else 1 + line_events rest 0
  end.

(* if r.lineNum > r.maxLines *)
Definition too_long (m : N) (d : bytes) : bool := m <? line_events (chars d) 0.

Record rpolicy3 := mkrpol3 {
  r3_ctor : handler;   (* as BufIO.r_ctor *)
  r3_scan : handler;   (* as BufIO.r_scan *)
  r3_maxl : handler }. (* Read: if r.lineNum > r.maxLines { r.errors.Add(ErrFileTooLong); return r.File, r.errors }
                          Propagate = that; ReturnNil = `return r.File, nil`; Absent = no limit *)

Inductive qresult :=
  | QCtorErr                 (* Read fails: "nil scanner" *)
  | QScanErr (e : rerr)      (* Read returns the scanner's error *)
  | QTooLong                 (* Read returns r.errors holding ErrFileTooLong *)
  | QCutNil                  (* Read stops at maxLines and returns a nil error *)
  | QParsed (d : bytes).     (* no I/O error surfaced: d is parsed as if it were the whole input *)

(* the scan loop over the delivered data d followed by the event t, then scanner.Err() *)
Definition scan_loop (p : rpolicy3) (m : N) (d : bytes) (t : term) : qresult :=
  let limit := match r3_maxl p with Absent => false | _ => too_long m d end in
  if limit then match r3_maxl p with Propagate => QTooLong | _ => QCutNil end
  else match t with
       | TEOF => QParsed d
       | TErr e => match r3_scan p with Propagate => QScanErr e | _ => QParsed d end
       end.

(* r := NewReader(src); r.SetMaxLines(m); r.Read(): the result and the number of
   responses consumed (not meaningful for QTooLong / QCutNil: how far the scanner had
   read ahead when the loop returned depends on buffer sizes) *)
Definition reader_seq (p : rpolicy3) (m : N) (rs : list rresp) : qresult * N :=
  let '(pre, rest, st, used) := preview_seq preview_size rs [] 0 in
  match st with
  | PFilled => let '(d, t, u) := stream_seq rest used in (scan_loop p m (pre ++ d) t, u)
  | PTerm TEOF => (scan_loop p m pre TEOF, used)
  | PTerm (TErr RUnexpectedEOF) => (scan_loop p m pre TEOF, used)   (* charset: a short input *)
  | PTerm (TErr RInj) =>
      match r3_ctor p with
      | Propagate => (QCtorErr, used)
      | _ => (scan_loop p m [] TEOF, used)
      end
  end.

Definition rpolicy3_ok (p : rpolicy3) : bool :=
  match r3_ctor p, r3_scan p, r3_maxl p with Propagate, Propagate, Propagate => true | _, _, _ => false end.

Definition reference_rpolicy3 : rpolicy3 := mkrpol3 Propagate Propagate Propagate.

(* the sticky source of BufIO.v as a response list *)
Definition resps_of_source (s : source) : list rresp :=
  map (fun c => mkrresp c None) (src_chunks s) ++ [mkrresp [] (Some (src_term s))].

(* a source that fails once after text[:k] and then delivers the rest *)
Definition failing_once (text : bytes) (k : nat) (e : rerr) : list rresp :=
  [mkrresp (firstn k text) None; mkrresp [] (Some (TErr e)); mkrresp (skipn k text) None].

(* Proofs for the repository instance (C18): soundness of the lock-table
   checker, the linearizability theorems instantiated for the nine repository
   operations under ANY lock table that passes the checker, non-vacuity
   witnesses (a downgraded / dropped lock has a violating schedule), and the
   map-semantics facts of the sequential specification. *)
From Coq Require Import List NArith Bool String Lia.
Import ListNotations.
From ACH Require Import RWLock RWLockFacts Repo LockTable.

Lemma all_ops_complete o : In o all_ops.
Proof. destruct o; cbn; tauto. Qed.

(* the boolean checker implies the semantic discipline of RWLock.v *)
Theorem discipline_ok_sound t :
  discipline_ok t = true -> discipline repo_body (mode_of t).
Proof.
  intros H o. unfold discipline_ok in H.
  apply andb_true_iff in H as [_ Hops].
  rewrite forallb_forall in Hops. specialize (Hops o (all_ops_complete o)).
  unfold op_ok in Hops. unfold mode_of.
  destruct (find_entry t (op_name o)) as [e|]; [|discriminate].
  destruct (eff_mode e).
  - right. split; [reflexivity|]. unfold op_writes in Hops.
    apply negb_true_iff, negb_false_iff in Hops. exact Hops.
  - left. reflexivity.
  - discriminate.
Qed.

Section Instance.
Variable t : ltable.
Hypothesis Hok : discipline_ok t = true.

Notation gst := (gstate St arg res loc op).

Theorem repo_inv_reachable s0 tr (g : gst) :
  run repo_body (mode_of t) (init s0) tr g -> Inv St arg res loc op repo_body (mode_of t) g.
Proof. apply inv_reachable, discipline_ok_sound, Hok. Qed.

Theorem repo_linearizable s0 tr (g : gst) :
  run repo_body (mode_of t) (init s0) tr g ->
  exists a, arun repo_body (ainit s0) (erase tr) a /\ sim g a.
Proof. apply rw_linearizable, discipline_ok_sound, Hok. Qed.

Theorem repo_ret_matches_log s0 tr (g : gst) tid r g' :
  run repo_body (mode_of t) (init s0) tr g -> step repo_body (mode_of t) g tid (LRet r) g' ->
  exists o a, last_entry tid (glog g) = Some (tid, o, a, r).
Proof. apply ret_matches_log, discipline_ok_sound, Hok. Qed.

Theorem repo_quiescent s0 tr (g : gst) :
  run repo_body (mode_of t) (init s0) tr g -> (forall tid, ~ insec (th g tid)) -> store g = ghost g.
Proof.
  intros Hr Hq. eapply quiescent_store; [|exact Hq].
  eapply inv_reachable; [apply discipline_ok_sound, Hok|exact Hr].
Qed.
End Instance.

Theorem repo_glog_legal t s0 tr (g : gstate St arg res loc op) :
  run repo_body (mode_of t) (init s0) tr g -> legal repo_body s0 (glog g) (ghost g).
Proof. apply glog_legal. Qed.

(* ------------------------------------------------------------------ *)
(* Non-vacuity: the table the source is expected to produce passes; tables with
   a downgraded or dropped lock fail AND have a schedule on which a returned
   value differs from the specification's. *)

Definition reference_table : ltable :=
  {| lt_methods :=
       [ mklentry "StoreFile" LkW true true [];
         mklentry "FindFile" LkR true false [];
         mklentry "FindAllFiles" LkR true false [];
         mklentry "DeleteFile" LkW true true [];
         mklentry "StoreBatch" LkW true true [];
         mklentry "FindBatch" LkR true false [];
         mklentry "FindAllBatches" LkR true false [];
         mklentry "DeleteBatch" LkW true true [];
         mklentry "cleanupOldFiles" LkW true true [] ];
     lt_extern := [] |}.

Definition relock (name : string) (l : lk) (t : ltable) : ltable :=
  {| lt_methods := map (fun e => if String.eqb (le_name e) name
                                 then mklentry (le_name e) l (le_whole e) (le_writes e) (le_unknown e)
                                 else e) (lt_methods t);
     lt_extern := lt_extern t |}.

Lemma reference_table_ok : discipline_ok reference_table = true.
Proof. vm_compute. reflexivity. Qed.

Lemma downgraded_not_ok : discipline_ok (relock "StoreBatch" LkR reference_table) = false.
Proof. vm_compute. reflexivity. Qed.

Lemma dropped_not_ok : discipline_ok (relock "FindAllFiles" LkNone reference_table) = false.
Proof. vm_compute. reflexivity. Qed.

(* a run in which some thread is about to return a value different from the one
   the sequential specification assigned to it at its acquire *)
Definition violating (t : ltable) : Prop :=
  exists s0 tr (g : gstate St arg res loc op) tid o l e,
    run repo_body (mode_of t) (init s0) tr g /\
    th g tid = InSec o [] l e /\ b_fin (repo_body o) l <> e.

Definition store1 : St := [(1%N, mkfile 7%N false [])].
Definition argb : arg := mkarg 1%N 5%N 0%N false.

(* two StoreBatch(1,5) under a read lock: both scans miss, both append, both
   return nil although the second must fail with ErrAlreadyExists *)
Definition sched_downgraded : list (tid * action arg op) :=
  [ (0, ACall StoreBatch argb); (1, ACall StoreBatch argb); (0, AAcq); (1, AAcq);
    (0, AStep); (0, AStep); (1, AStep); (1, AStep); (0, AStep); (1, AStep) ].

Lemma violating_of_exec t s0 sch p tid o l e :
  exec_sched repo_body (mode_of t) 2 (init s0) sch = Some p ->
  th (snd p) tid = InSec o [] l e -> l_res l <> e -> violating t.
Proof.
  intros He Ht Hne. destruct p as [tr g]. exists s0, tr, g, tid, o, l, e. repeat split; try assumption.
  eapply exec_sched_sound; [|exact He]. apply bounded_init.
Qed.

Theorem discipline_needed_downgrade : violating (relock "StoreBatch" LkR reference_table).
Proof.
  eapply (violating_of_exec _ store1 sched_downgraded _ 1).
  - vm_compute. reflexivity.
  - vm_compute. reflexivity.
  - cbn. discriminate.
Qed.

(* FindAllFiles without the lock: DeleteFile runs between the key loop and the
   element reads; the result holds a nil element no sequential state produces *)
Definition sched_dropped : list (tid * action arg op) :=
  [ (0, ACall FindAllFiles argb); (0, AAcq); (0, AStep);
    (1, ACall DeleteFile argb); (1, AAcq); (1, AStep); (1, ARet);
    (0, AStep) ].

Theorem discipline_needed_drop : violating (relock "FindAllFiles" LkNone reference_table).
Proof.
  eapply (violating_of_exec _ store1 sched_dropped _ 0).
  - vm_compute. reflexivity.
  - vm_compute. reflexivity.
  - cbn. discriminate.
Qed.

(* and under the reference table the same schedules are rejected *)
Lemma sched_downgraded_blocked :
  exec_sched repo_body (mode_of reference_table) 2 (init store1) sched_downgraded = None.
Proof. vm_compute. reflexivity. Qed.

(* ------------------------------------------------------------------ *)
(* Map semantics of the sequential specification (the property's wording). *)

Lemma lookup_set_same k v s : lookup k (set k v s) = Some v.
Proof.
  induction s as [|[k' v'] s IH]; cbn.
  - now rewrite N.eqb_refl.
  - destruct (N.eqb k' k) eqn:E; cbn; rewrite E; [reflexivity|exact IH].
Qed.

Lemma lookup_set_other k k' v s : k' <> k -> lookup k' (set k v s) = lookup k' s.
Proof.
  intros Hne. induction s as [|[k2 v2] s IH]; cbn.
  - destruct (N.eqb k k') eqn:E; [apply N.eqb_eq in E; congruence|reflexivity].
  - destruct (N.eqb k2 k) eqn:E; cbn.
    + apply N.eqb_eq in E. subst k2.
      destruct (N.eqb k k') eqn:E2; [apply N.eqb_eq in E2; congruence|reflexivity].
    + destruct (N.eqb k2 k'); [reflexivity|exact IH].
Qed.

Lemma lookup_remove_same k s : lookup k (remove k s) = None.
Proof.
  induction s as [|[k' v'] s IH]; cbn; [reflexivity|].
  destruct (N.eqb k' k) eqn:E; [exact IH|]. cbn. now rewrite E.
Qed.

Lemma lookup_remove_other k k' s : k' <> k -> lookup k' (remove k s) = lookup k' s.
Proof.
  intros Hne. induction s as [|[k2 v2] s IH]; cbn; [reflexivity|].
  destruct (N.eqb k2 k) eqn:E; cbn.
  - apply N.eqb_eq in E. subst k2.
    destruct (N.eqb k k') eqn:E2; [apply N.eqb_eq in E2; congruence|exact IH].
  - destruct (N.eqb k2 k'); [reflexivity|exact IH].
Qed.

(* a second store of an existing id fails and leaves the store (hence the first file) in place *)
Theorem spec_store_existing a s f :
  lookup (a_fid a) s = Some f -> repo_spec StoreFile a s = (s, RErr EExists).
Proof. intros H. unfold repo_spec, spec. cbn. rewrite H. cbn. reflexivity. Qed.

Theorem spec_store_fresh a s :
  lookup (a_fid a) s = None ->
  repo_spec StoreFile a s = (set (a_fid a) (mkfile (a_tok a) (a_old a) []) s, ROk).
Proof. intros H. unfold repo_spec, spec. cbn. rewrite H. cbn. reflexivity. Qed.

Theorem spec_find_file a s :
  repo_spec FindFile a s =
  (s, match lookup (a_fid a) s with Some f => RFile (f_tok f) | None => RErr ENotFound end).
Proof. unfold repo_spec, spec. cbn. destruct (lookup (a_fid a) s); reflexivity. Qed.

Theorem spec_delete_file a s : repo_spec DeleteFile a s = (remove (a_fid a) s, ROk).
Proof. reflexivity. Qed.

(* a find after a completed delete fails; a find after a successful store returns that file *)
Theorem spec_find_after_delete a a' s :
  a_fid a' = a_fid a ->
  snd (repo_spec FindFile a' (fst (repo_spec DeleteFile a s))) = RErr ENotFound.
Proof.
  intros E. rewrite spec_delete_file, spec_find_file. cbn. rewrite E, lookup_remove_same. reflexivity.
Qed.

Theorem spec_find_after_store a a' s :
  a_fid a' = a_fid a -> lookup (a_fid a) s = None ->
  snd (repo_spec FindFile a' (fst (repo_spec StoreFile a s))) = RFile (a_tok a).
Proof.
  intros E Hn. rewrite (spec_store_fresh _ _ Hn), spec_find_file. cbn. rewrite E, lookup_set_same. reflexivity.
Qed.

(* well-formed stores: distinct keys (what a Go map is) *)
Definition wf (s : St) : Prop := NoDup (keys s).

Lemma lookup_in_keys k s f : lookup k s = Some f -> In k (keys s).
Proof.
  induction s as [|[k' v'] s IH]; cbn; [discriminate|].
  destruct (N.eqb k' k) eqn:E; [apply N.eqb_eq in E; auto|auto].
Qed.

Lemma lookup_not_in_keys k s : lookup k s = None -> ~ In k (keys s).
Proof.
  induction s as [|[k' v'] s IH]; cbn; [tauto|].
  destruct (N.eqb k' k) eqn:E; [discriminate|]. apply N.eqb_neq in E. intros H [H1|H1]; [congruence|]. now apply IH.
Qed.

(* listing returns exactly the stored set: one non-nil element per key, with that key's file *)
Theorem spec_list_files a s :
  wf s ->
  repo_spec FindAllFiles a s = (s, RFiles (map (fun kv => Some (f_tok (snd kv))) s)).
Proof.
  intros Hwf. unfold repo_spec, spec. cbn. f_equal. f_equal.
  unfold keys. rewrite map_map.
  assert (H : forall s', wf s' -> (forall kv, In kv s' -> lookup (fst kv) s = Some (snd kv)) ->
              map (fun x => option_map f_tok (lookup (fst x) s)) s' = map (fun kv => Some (f_tok (snd kv))) s').
  { intros s' _ Hl. apply map_ext_in. intros kv Hin. now rewrite (Hl kv Hin). }
  apply H; [assumption|].
  clear H. induction s as [|[k v] s IH]; intros kv Hin; [contradiction|].
  unfold wf, keys in Hwf. rewrite map_cons in Hwf. apply NoDup_cons_iff in Hwf as [Hnk Hnd]. cbn [fst] in Hnk.
  destruct Hin as [<-|Hin]; cbn.
  - now rewrite N.eqb_refl.
  - destruct (N.eqb k (fst kv)) eqn:E.
    + apply N.eqb_eq in E. exfalso. apply Hnk. rewrite E. now apply in_map.
    + now apply IH.
Qed.

(* batches: found in a file exactly between store and delete *)
Lemma memb_app b l x : memb b (l ++ [x]) = memb b l || N.eqb b x.
Proof. unfold memb. rewrite existsb_app. cbn. now rewrite orb_false_r. Qed.

Theorem spec_find_batch a s :
  repo_spec FindBatch a s =
  (s, match lookup (a_fid a) s with
      | None => RErr ENotFound
      | Some f => if memb (a_bid a) (f_batches f) then RBatch (a_bid a) else RErr ENotFound
      end).
Proof.
  unfold repo_spec, spec. cbn. unfold batches_of.
  destruct (lookup (a_fid a) s) as [f|] eqn:E; cbn; rewrite ?E; [|reflexivity].
  destruct (memb (a_bid a) (f_batches f)); reflexivity.
Qed.

Theorem spec_store_batch a s :
  repo_spec StoreBatch a s =
  match lookup (a_fid a) s with
  | None => (s, RErr ENotFound)
  | Some f => if memb (a_bid a) (f_batches f) then (s, RErr EExists)
              else (set (a_fid a) (add_batch f (a_bid a)) s, ROk)
  end.
Proof.
  unfold repo_spec, spec. cbn. unfold batches_of.
  destruct (lookup (a_fid a) s) as [f|] eqn:E; cbn; rewrite ?E; [|reflexivity].
  destruct (memb (a_bid a) (f_batches f)); cbn; rewrite ?E; reflexivity.
Qed.

Theorem spec_find_after_store_batch a a' s :
  a_fid a' = a_fid a -> a_bid a' = a_bid a ->
  snd (repo_spec StoreBatch a s) = ROk ->
  snd (repo_spec FindBatch a' (fst (repo_spec StoreBatch a s))) = RBatch (a_bid a).
Proof.
  intros Ef Eb. rewrite spec_store_batch.
  destruct (lookup (a_fid a) s) as [f|] eqn:E; cbn [fst snd]; [|discriminate].
  destruct (memb (a_bid a) (f_batches f)) eqn:Em; cbn [fst snd]; [discriminate|]. intros _.
  rewrite spec_find_batch. cbn [fst snd]. rewrite Ef, Eb, lookup_set_same. cbn [f_batches add_batch].
  rewrite memb_app, N.eqb_refl, orb_true_r. reflexivity.
Qed.

Lemma last_index_none b l : last_index b l = None <-> memb b l = false.
Proof.
  induction l as [|x l IH]; cbn; [tauto|].
  destruct (last_index b l) as [i|].
  - split; [discriminate|]. intros H. apply orb_false_iff in H as [_ H]. apply IH in H. discriminate.
  - rewrite (N.eqb_sym b x). destruct (N.eqb x b); cbn; split; intros H; try discriminate; try reflexivity.
    + now apply IH.
Qed.

Lemma memb_remove_last b l i :
  NoDup l -> last_index b l = Some i -> memb b (remove_nth i l) = false.
Proof.
  revert i. induction l as [|x l IH]; intros i Hnd H; cbn in H; [discriminate|].
  apply NoDup_cons_iff in Hnd as [Hx Hnd].
  destruct (last_index b l) as [j|] eqn:E.
  - injection H as <-. cbn [remove_nth]. unfold memb. cbn [existsb]. fold (memb b (remove_nth j l)). rewrite (IH j Hnd eq_refl), orb_false_r.
    destruct (N.eqb b x) eqn:Eb; [|reflexivity]. apply N.eqb_eq in Eb. subst x.
    exfalso. assert (Hm : memb b l = true).
    { destruct (memb b l) eqn:Em; [reflexivity|]. apply last_index_none in Em. congruence. }
    unfold memb in Hm. apply existsb_exists in Hm as (y & Hy & Hey). apply N.eqb_eq in Hey. subst y. contradiction.
  - destruct (N.eqb x b); [|discriminate]. injection H as <-. cbn. now apply last_index_none.
Qed.

Theorem spec_delete_batch a s :
  repo_spec DeleteBatch a s =
  match lookup (a_fid a) s with
  | None => (s, RErr EOther)
  | Some f => match last_index (a_bid a) (f_batches f) with
              | Some i => (set (a_fid a) (set_batches f (remove_nth i (f_batches f))) s, ROk)
              | None => (s, RErr ENotFound)
              end
  end.
Proof.
  unfold repo_spec, spec. cbn. unfold batches_of.
  destruct (lookup (a_fid a) s) as [f|] eqn:E; cbn; rewrite ?E; [|reflexivity].
  destruct (last_index (a_bid a) (f_batches f)); cbn; rewrite ?E; reflexivity.
Qed.

Theorem spec_find_all_batches a s :
  repo_spec FindAllBatches a s =
  (s, match lookup (a_fid a) s with Some f => RBatches (f_batches f) | None => RNone end).
Proof.
  unfold repo_spec, spec. cbn. unfold batches_of.
  destruct (lookup (a_fid a) s) as [f|] eqn:E; cbn; rewrite ?E; reflexivity.
Qed.

(* after a successful DeleteBatch the batch is no longer found (batch ids of a
   file are distinct: StoreBatch refuses duplicates) *)
Theorem spec_find_after_delete_batch a a' s f :
  a_fid a' = a_fid a -> a_bid a' = a_bid a ->
  lookup (a_fid a) s = Some f -> NoDup (f_batches f) ->
  snd (repo_spec DeleteBatch a s) = ROk ->
  snd (repo_spec FindBatch a' (fst (repo_spec DeleteBatch a s))) = RErr ENotFound.
Proof.
  intros Ef Eb Hl Hnd. rewrite spec_delete_batch, Hl.
  destruct (last_index (a_bid a) (f_batches f)) as [i|] eqn:Ei; cbn [fst snd]; [|discriminate].
  intros _. rewrite spec_find_batch. cbn [fst snd]. rewrite Ef, Eb, lookup_set_same. cbn [f_batches set_batches].
  now rewrite (memb_remove_last _ _ _ Hnd Ei).
Qed.

(* ------------------------------------------------------------------ *)
(* Every store produced by a legal sequential history from the empty
   repository has distinct keys and distinct batch ids per file, so the side
   conditions of the theorems above hold for every reachable ghost store. *)

Definition good (s : St) : Prop :=
  wf s /\ forall k f, lookup k s = Some f -> NoDup (f_batches f).

Lemma NoDup_app_snoc {A} (l : list A) (x : A) : NoDup l -> ~ In x l -> NoDup (l ++ [x])%list.
Proof.
  induction l as [|y l IH]; intros Hd Hn; cbn.
  - constructor; [tauto|constructor].
  - apply NoDup_cons_iff in Hd as [Hy Hd]. constructor.
    + rewrite in_app_iff. cbn. intros [H|[H|[]]]; [contradiction|]. apply Hn. now left.
    + apply IH; [assumption|]. intros H. apply Hn. now right.
Qed.

Lemma keys_set_present k v s f : lookup k s = Some f -> keys (set k v s) = keys s.
Proof.
  revert f. induction s as [|[k' v'] s IH]; intros f H; cbn in *; [discriminate|].
  destruct (N.eqb k' k) eqn:E; cbn; [reflexivity|]. f_equal. eapply IH; eassumption.
Qed.

Lemma keys_set_absent k v s : lookup k s = None -> keys (set k v s) = (keys s ++ [k])%list.
Proof.
  induction s as [|[k' v'] s IH]; intros H; cbn in *; [reflexivity|].
  destruct (N.eqb k' k) eqn:E; [discriminate|]. cbn. f_equal. now apply IH.
Qed.

Lemma in_keys_remove k k' s : In k' (keys (remove k s)) -> In k' (keys s).
Proof.
  induction s as [|[k2 v2] s IH]; cbn; [tauto|].
  destruct (N.eqb k2 k); cbn; intros H; [right; now apply IH|].
  destruct H as [H|H]; [now left|right; now apply IH].
Qed.

Lemma wf_remove k s : wf s -> wf (remove k s).
Proof.
  unfold wf. induction s as [|[k2 v2] s IH]; cbn; intros H; [constructor|].
  apply NoDup_cons_iff in H as [Hn Hd]. destruct (N.eqb k2 k); [now apply IH|].
  cbn. constructor; [|now apply IH]. intros Hin. apply Hn. eapply in_keys_remove; eassumption.
Qed.

Lemma lookup_remove_some k k' s f : lookup k' (remove k s) = Some f -> lookup k' s = Some f.
Proof.
  destruct (N.eq_dec k' k) as [->|Hne]; [now rewrite lookup_remove_same|now rewrite lookup_remove_other].
Qed.

Lemma good_remove k s : good s -> good (remove k s).
Proof.
  intros [Hw Hb]. split; [now apply wf_remove|].
  intros k' f H. eapply Hb, lookup_remove_some, H.
Qed.

Lemma good_set_present k v s f :
  good s -> lookup k s = Some f -> NoDup (f_batches v) -> good (set k v s).
Proof.
  intros [Hw Hb] Hl Hv. split.
  - unfold wf. now rewrite (keys_set_present _ _ _ _ Hl).
  - intros k' f' H. destruct (N.eq_dec k' k) as [->|Hne].
    + rewrite lookup_set_same in H. now injection H as <-.
    + rewrite lookup_set_other in H by assumption. eapply Hb, H.
Qed.

Lemma good_set_absent k v s :
  good s -> lookup k s = None -> NoDup (f_batches v) -> good (set k v s).
Proof.
  intros [Hw Hb] Hl Hv. split.
  - unfold wf. rewrite (keys_set_absent _ _ _ Hl).
    apply NoDup_app_snoc; [exact Hw|now apply lookup_not_in_keys].
  - intros k' f' H. destruct (N.eq_dec k' k) as [->|Hne].
    + rewrite lookup_set_same in H. now injection H as <-.
    + rewrite lookup_set_other in H by assumption. eapply Hb, H.
Qed.

Lemma memb_false_not_in b l : memb b l = false -> ~ In b l.
Proof.
  intros H Hin. unfold memb in H.
  assert (existsb (N.eqb b) l = true) by (apply existsb_exists; exists b; split; [assumption|apply N.eqb_refl]).
  congruence.
Qed.

Lemma in_remove_nth i l x : In x (remove_nth i l) -> In x l.
Proof.
  revert i. induction l as [|y l IH]; intros i H; cbn in *; [destruct i; exact H|].
  destruct i; [now right|]. destruct H as [H|H]; [now left|right; eapply IH, H].
Qed.

Lemma nodup_remove_nth i l : NoDup l -> NoDup (remove_nth i l).
Proof.
  revert i. induction l as [|y l IH]; intros i H; cbn; [destruct i; constructor|].
  apply NoDup_cons_iff in H as [Hn Hd]. destruct i; [assumption|].
  constructor; [|now apply IH]. intros Hin. apply Hn. eapply in_remove_nth, Hin.
Qed.

Lemma good_sweep ks s : good s -> good (sweep_keys ks s).
Proof.
  unfold sweep_keys. revert s. induction ks as [|k ks IH]; intros s H; cbn; [assumption|].
  apply IH. destruct (lookup k s) as [f|]; [|assumption].
  destruct (f_old f); [now apply good_remove|assumption].
Qed.

Theorem spec_sweep a s : repo_spec Sweep a s = (sweep_keys (keys s) s, ROk).
Proof. reflexivity. Qed.

Theorem spec_good o a s : good s -> good (fst (repo_spec o a s)).
Proof.
  intros Hg. destruct o.
  - destruct (lookup (a_fid a) s) as [f|] eqn:E.
    + now rewrite (spec_store_existing _ _ _ E).
    + rewrite (spec_store_fresh _ _ E). cbn [fst]. apply good_set_absent; [assumption|assumption|constructor].
  - now rewrite spec_find_file.
  - exact Hg.
  - rewrite spec_delete_file. now apply good_remove.
  - rewrite spec_store_batch. destruct (lookup (a_fid a) s) as [f|] eqn:E; [|assumption].
    destruct (memb (a_bid a) (f_batches f)) eqn:Em; [assumption|]. cbn [fst].
    eapply good_set_present; [assumption|exact E|]. cbn.
    apply NoDup_app_snoc; [eapply (proj2 Hg), E|now apply memb_false_not_in].
  - now rewrite spec_find_batch.
  - now rewrite spec_find_all_batches.
  - rewrite spec_delete_batch. destruct (lookup (a_fid a) s) as [f|] eqn:E; [|assumption].
    destruct (last_index (a_bid a) (f_batches f)) as [i|]; [|assumption]. cbn [fst].
    eapply good_set_present; [assumption|exact E|]. cbn. apply nodup_remove_nth. eapply (proj2 Hg), E.
  - rewrite spec_sweep. now apply good_sweep.
Qed.

Lemma good_empty : good [].
Proof. split; [constructor|]. intros k f H. discriminate. Qed.

Theorem legal_good s0 log s : good s0 -> legal repo_body s0 log s -> good s.
Proof. intros H0 Hl. induction Hl as [|log s t o a _ IH]; [assumption|]. now apply spec_good. Qed.

(* under a passing lock table every ghost store, and every quiescent real
   store, reached from the empty repository is well formed *)
Theorem repo_ghost_good t tr (g : gstate St arg res loc op) :
  run repo_body (mode_of t) (init []) tr g -> good (ghost g).
Proof. intros Hr. eapply legal_good; [apply good_empty|]. eapply glog_legal, Hr. Qed.

(* C16 — executable model of the I/O layer under ach.Writer / ach.Reader.

   Writer side: a failing io.Writer (sink), Go's bufio.Writer (capacity 4096,
   sticky error, Flush, WriteString with its fill-and-flush loop) and the call
   sequence of writer.go (Write, writeLine, the padding loop, Flush), driven by
   a policy that says, per call site, what the code does with the error result.
   The policy is regenerated from writer.go by the translator (Gen/WriterIO.v).

   Reader side: a source given as the trace of its successful reads followed by
   its terminal event (EOF or an error), io.ReadFull for charset's 1024-byte
   preview, charset.NewReader's error cases, NewReaderWithContentType's handling
   of them, and the scan loop with the scanner.Err() check after it.

   bufio / io / charset behaviour is transcribed from the Go 1.23 and x/net
   sources; it is a stated contract here, not verified against those sources. *)
From Coq Require Import List NArith Arith Bool.
From ACH Require Import Bytes.
Import ListNotations.
Open Scope N_scope.

Definition blen (l : bytes) : N := N.of_nat (length l).

(* ------------------------------------------------------------------ sink *)

Inductive werr := EInj | EShort | EFuel.
(* EInj: the error value the sink returned; EShort: io.ErrShortWrite;
   EFuel: recursion fuel of the model ran out (proved unreachable, BufIOFacts.fuel_enough) *)

Inductive skind := Hard | Short | ShortNil | FullErr.
Record fault := mkfault { f_k : N; f_kind : skind; f_transient : bool }.

Record sink := mksink { s_fault : option fault; s_got : bytes; s_calls : N; s_tripped : bool }.

Definition new_sink (fo : option fault) : sink := mksink fo [] 0 false.

(* io.Writer.Write of the failing sink: the byte with index f_k cannot be written *)
Definition sink_write (s : sink) (p : bytes) : sink * N * option werr :=
  let pos := blen (s_got s) in
  let lp := blen p in
  let healthy := (mksink (s_fault s) (s_got s ++ p) (s_calls s + 1) (s_tripped s), lp, None) in
  match s_fault s with
  | None => healthy
  | Some f =>
      if (f_transient f && s_tripped s) || (pos + lp <=? f_k f) then healthy
      else
        let n := f_k f - pos in
        let part := mksink (s_fault s) (s_got s ++ firstn (N.to_nat n) p) (s_calls s + 1) true in
        match f_kind f with
        | FullErr => (mksink (s_fault s) (s_got s ++ p) (s_calls s + 1) true, lp, Some EInj)
        | Hard => (part, n, Some EInj)
        | Short => (part, n, Some EShort)
        | ShortNil => (part, n, None)
        end
  end.

(* ------------------------------------------------------------------ bufio.Writer *)

Definition cap : N := 4096.

(* b_pend: the strings copied into the buffer since the last flush, newest first;
   b_n: bufio's b.n, kept beside it so that Available() costs nothing *)
Record bw := mkbw { b_pend : list bytes; b_n : N; b_err : option werr; b_sink : sink }.

Definition new_bw (s : sink) : bw := mkbw [] 0 None s.
Definition buf_bytes (b : bw) : bytes := concat (rev (b_pend b)).
Definition avail (b : bw) : N := cap - b_n b.
Definition push (b : bw) (s : bytes) : bw := mkbw (s :: b_pend b) (b_n b + blen s) (b_err b) (b_sink b).
Definition set_err (b : bw) (e : werr) : bw := mkbw (b_pend b) (b_n b) (Some e) (b_sink b).

(* func (b *Writer) Flush() error *)
Definition bw_flush (b : bw) : bw * option werr :=
  match b_err b with
  | Some e => (b, Some e)
  | None =>
      if b_n b =? 0 then (b, None)
      else
        let data := buf_bytes b in
        let '(s', n, e) := sink_write (b_sink b) data in
        let e' := match e with
                  | Some x => Some x
                  | None => if n <? b_n b then Some EShort else None
                  end in
        match e' with
        | Some x => (mkbw [skipn (N.to_nat n) data] (b_n b - n) (Some x) s', Some x)
        | None => (mkbw [] 0 None s', None)
        end
  end.

(* the loop of WriteString: for len(s) > b.Available() && b.err == nil { copy; Flush } *)
Fixpoint ws_loop (fuel : nat) (b : bw) (s : bytes) : bw * bytes :=
  match fuel with
  | O => (set_err b EFuel, s)
  | S f =>
      match b_err b with
      | Some _ => (b, s)
      | None =>
          if avail b <? blen s then
            let a := N.to_nat (avail b) in
            ws_loop f (fst (bw_flush (push b (firstn a s)))) (skipn a s)
          else (b, s)
      end
  end.

(* func (b *Writer) WriteString(s string) (int, error); the sink is not an io.StringWriter *)
Definition bw_write (b : bw) (s : bytes) : bw * option werr :=
  let (b1, s1) := ws_loop (length s + 3) b s in
  match b_err b1 with
  | Some e => (b1, Some e)
  | None => (push b1 s1, None)
  end.

(* ------------------------------------------------------------------ writer.go *)

(* what a call site does with the error result of the call *)
Inductive handler :=
  | Propagate   (* if err != nil { return err }   /   return call() *)
  | Ignore      (* result dropped, execution continues *)
  | ReturnNil   (* if err != nil { return nil } *)
  | Absent      (* the call is not there *)
  | Unknown.    (* anything the translator does not recognise *)

Record wpolicy := mkpol {
  p_wl_line : handler;    (* writeLine: w.w.WriteString(line) *)
  p_wl_le : handler;      (* writeLine: w.w.WriteString(w.LineEnding) *)
  p_wl_flush : handler;   (* writeLine: if w.w.Available() < T { return w.Flush() } *)
  p_thresh : N;           (* T *)
  p_api_flush : handler;  (* Writer.Flush: return w.w.Flush() *)
  p_hdr : handler;        (* Write: w.writeLine(&file.Header) *)
  p_body : handler;       (* writeBatch / writeIATBatch: every w.writeLine, and Write's use of both *)
  p_ctl : handler;        (* Write: w.writeLine(&file.Control / &file.ADVControl) *)
  p_pad_line : handler;   (* Write: w.w.WriteString(paddingLine) *)
  p_pad_le : handler;     (* Write: w.w.WriteString(w.LineEnding) in the padding loop *)
  p_final : handler }.    (* Write: return w.w.Flush() *)

Inductive act := Cont | Ret (r : option werr).

Definition on_err (h : handler) (e : option werr) : act :=
  match e with
  | None => Cont
  | Some x => match h with
              | Propagate => Ret (Some x)
              | Ignore => Cont
              | _ => Ret None
              end
  end.

(* func (w *Writer) Flush() error *)
Definition api_flush (p : wpolicy) (b : bw) : bw * option werr :=
  match p_api_flush p with
  | Absent => (b, None)
  | h => let (b', e) := bw_flush b in
         (b', match h with Propagate => e | _ => None end)
  end.

Inductive rtag := THdr | TBody | TCtl.
Definition tag_handler (p : wpolicy) (t : rtag) : handler :=
  match t with THdr => p_hdr p | TBody => p_body p | TCtl => p_ctl p end.

Definition nonempty (l : bytes) : bool := match l with [] => false | _ => true end.

(* func (w *Writer) writeLine(entry writeEntry) error; the N is w.lineNum *)
Definition write_line (p : wpolicy) (le : bytes) (st : bw * N) (line : bytes) : (bw * N) * option werr :=
  let (b, n) := st in
  if negb (nonempty line) then (st, None)
  else
    let (b1, e1) := bw_write b line in
    match on_err (p_wl_line p) e1 with
    | Ret r => ((b1, n), r)
    | Cont =>
        let (b2, e2) := bw_write b1 le in
        match on_err (p_wl_le p) e2 with
        | Ret r => ((b2, n), r)
        | Cont =>
            if avail b2 <? p_thresh p then
              match p_wl_flush p with
              | Absent => ((b2, n + 1), None)
              | h => let (b3, e3) := api_flush p b2 in
                     ((b3, n + 1), match h with Propagate => e3 | _ => None end)
              end
            else ((b2, n + 1), None)
        end
    end.

Fixpoint write_recs (p : wpolicy) (le : bytes) (st : bw * N) (recs : list (rtag * bytes)) : (bw * N) * act :=
  match recs with
  | [] => (st, Cont)
  | (t, l) :: rest =>
      let (st1, e) := write_line p le st l in
      match on_err (tag_handler p t) e with
      | Ret r => (st1, Ret r)
      | Cont => write_recs p le st1 rest
      end
  end.

Definition nines : bytes := repeat nine 94.

(* for i := 0; i < (10-(w.lineNum%10)) && w.lineNum%10 != 0; i++ *)
Definition pad_count (n : N) : nat := if n mod 10 =? 0 then O else N.to_nat (10 - n mod 10).

Fixpoint pad_loop (p : wpolicy) (le : bytes) (k : nat) (b : bw) : bw * act :=
  match k with
  | O => (b, Cont)
  | S k' =>
      let (b1, e1) := bw_write b nines in
      match on_err (p_pad_line p) e1 with
      | Ret r => (b1, Ret r)
      | Cont =>
          let (b2, e2) := bw_write b1 le in
          match on_err (p_pad_le p) e2 with
          | Ret r => (b2, Ret r)
          | Cont => pad_loop p le k' b2
          end
      end
  end.

Definition final_flush (p : wpolicy) (b : bw) : bw * option werr :=
  match p_final p with
  | Absent => (b, None)
  | h => let (b', e) := bw_flush b in
         (b', match h with Propagate => e | _ => None end)
  end.

(* func (w *Writer) Write(file *File) error, after validation, on a fresh Writer *)
Definition write_file (p : wpolicy) (le : bytes) (recs : list (rtag * bytes)) (b : bw) : bw * option werr :=
  let '((b1, n), a) := write_recs p le (b, 0) recs in
  match a with
  | Ret r => (b1, r)
  | Cont =>
      let (b2, a2) := pad_loop p le (pad_count n) b1 in
      match a2 with
      | Ret r => (b2, r)
      | Cont => final_flush p b2
      end
  end.

Record wresult := mkwres { wr_write : option werr; wr_flush : option werr; wr_sink : sink }.

(* w := NewWriter(sink); err := w.Write(f); ferr := w.Flush() *)
Definition writer_run (p : wpolicy) (le : bytes) (recs : list (rtag * bytes)) (fo : option fault) : wresult :=
  let (b1, r) := write_file p le recs (new_bw (new_sink fo)) in
  let (b2, fr) := api_flush p b1 in
  mkwres r fr (b_sink b2).

(* specification of the complete output, independent of any buffering *)
Definition rec_bytes (le : bytes) (recs : list (rtag * bytes)) : bytes :=
  concat (map (fun r => if nonempty (snd r) then snd r ++ le else []) recs).
Fixpoint rec_count (recs : list (rtag * bytes)) : N :=
  match recs with [] => 0 | r :: rest => (if nonempty (snd r) then 1 else 0) + rec_count rest end.
Definition full_output (le : bytes) (recs : list (rtag * bytes)) : bytes :=
  rec_bytes le recs ++ concat (repeat (nines ++ le) (pad_count (rec_count recs))).

(* the policy under which the theorems hold: every error is propagated or left to
   bufio's sticky error, the final Flush result is returned *)
Definition soft (h : handler) : bool := match h with Propagate | Ignore => true | _ => false end.
(* inside writeLine even `return nil` on a failed WriteString is covered: the caller goes
   on, every later call fails with the same sticky error, the final Flush returns it *)
Definition lsoft (h : handler) : bool := match h with Propagate | Ignore | ReturnNil => true | _ => false end.
Definition policy_ok (p : wpolicy) : bool :=
  lsoft (p_wl_line p) && lsoft (p_wl_le p)
  && (soft (p_wl_flush p) || match p_wl_flush p with Absent => true | _ => false end)
  && match p_api_flush p with Propagate => true | _ => false end
  && soft (p_hdr p) && soft (p_body p) && soft (p_ctl p)
  && soft (p_pad_line p) && soft (p_pad_le p)
  && match p_final p with Propagate => true | _ => false end.

(* writer.go as read at design time; Gen/WriterIO.v must regenerate exactly this *)
Definition reference_policy : wpolicy :=
  mkpol Propagate Propagate Propagate 94 Propagate Propagate Propagate Propagate Propagate Propagate Propagate.

(* ------------------------------------------------------------------ reader.go *)

Inductive rerr := RInj | RUnexpectedEOF.   (* a non-EOF error of the source / io.ErrUnexpectedEOF *)
Inductive term := TEOF | TErr (e : rerr).

(* the source as a trace: what its successive successful reads would deliver (when the
   caller's buffer is large enough), then the event it reports for ever after *)
Record source := mksrc { src_chunks : list bytes; src_term : term }.

(* io.ReadFull(r, buf) with len(buf) = need: the bytes read, the unread rest of the
   source, and whether the buffer was filled before the terminal event *)
Fixpoint read_full (need : N) (chunks : list bytes) (acc : bytes) : bytes * list bytes * bool :=
  if need =? 0 then (acc, chunks, true)
  else match chunks with
       | [] => (acc, [], false)
       | c :: cs =>
           if blen c <=? need then read_full (need - blen c) cs (acc ++ c)
           else (acc ++ firstn (N.to_nat need) c, skipn (N.to_nat need) c :: cs, true)
       end.

Definition preview_size : N := 1024.

Record rpolicy := mkrpol {
  r_ctor : handler;   (* NewReaderWithContentType: a non-EOF error of charset.NewReader leaves the
                         scanner nil (and Read then fails) = Propagate; anything else treats it as input end *)
  r_scan : handler }. (* Read: if err := r.scanner.Err(); err != nil { return r.File, err } *)

Inductive rresult :=
  | RCtorErr                 (* Read fails: "nil scanner" *)
  | RScanErr (e : rerr)      (* Read returns the scanner's error *)
  | RParsed (d : bytes).     (* no I/O error surfaced: d is parsed as if it were the whole input *)

(* NewReader(src).Read() *)
Definition reader_run (p : rpolicy) (s : source) : rresult :=
  let '(pre, rest, filled) := read_full preview_size (src_chunks s) [] in
  if filled then
    (* io.MultiReader(preview, r) -> transform -> bufio.Scanner: every byte, then the terminal *)
    let d := pre ++ concat rest in
    match src_term s with
    | TEOF => RParsed d
    | TErr e => match r_scan p with Propagate => RScanErr e | _ => RParsed d end
    end
  else
    match src_term s with
    | TEOF => RParsed pre      (* io.EOF with nothing read: empty reader; io.ErrUnexpectedEOF: preview only *)
    | TErr RUnexpectedEOF => RParsed pre   (* charset cannot tell it from a short input *)
    | TErr RInj => match r_ctor p with Propagate => RCtorErr | _ => RParsed [] end
    end.

Definition rpolicy_ok (p : rpolicy) : bool :=
  match r_ctor p, r_scan p with Propagate, Propagate => true | _, _ => false end.

Definition reference_rpolicy : rpolicy := mkrpol Propagate Propagate.

(* a source that yields text[:k] in pieces of at most c bytes (c = 0: one piece) and then fails *)
Fixpoint chop (fuel : nat) (c : nat) (l : bytes) : list bytes :=
  match fuel with
  | O => match l with [] => [] | _ => [l] end
  | S f => match l with
           | [] => []
           | _ => firstn c l :: chop f c (skipn c l)
           end
  end.
Definition chunked (c : nat) (l : bytes) : list bytes :=
  match c with O => (match l with [] => [] | _ => [l] end) | _ => chop (length l) c l end.
Definition failing_source (text : bytes) (k : nat) (c : nat) (e : rerr) : source :=
  mksrc (chunked c (firstn k text)) (TErr e).
Definition healthy_source (text : bytes) (c : nat) : source := mksrc (chunked c text) TEOF.

(* C16 — proofs about the I/O model of Proto/BufIO.v. *)
From Coq Require Import List NArith Arith Bool Lia.
From ACH Require Import Bytes BufIO.
Import ListNotations.
Open Scope N_scope.

(* ------------------------------------------------------------------ small facts *)

Lemma blen_app a b : blen (a ++ b) = blen a + blen b.
Proof. unfold blen. rewrite app_length. lia. Qed.

Lemma blen_nil_inv l : blen l = 0 -> l = [].
Proof. unfold blen. destruct l; cbn [length]; [easy|lia]. Qed.

Lemma blen_firstn n l : n <= blen l -> blen (firstn (N.to_nat n) l) = n.
Proof. unfold blen. intros H. rewrite firstn_length. lia. Qed.

(* ------------------------------------------------------------------ the sink *)

(* an untripped faulty sink holds at most f_k bytes *)
Definition sbound (s : sink) : Prop :=
  s_tripped s = false -> forall f, s_fault s = Some f -> blen (s_got s) <= f_k f.

Lemma sink_write_fault s p : s_fault (fst (fst (sink_write s p))) = s_fault s.
Proof.
  unfold sink_write. destruct (s_fault s) as [f|] eqn:Ef; [|reflexivity].
  destruct (_ || _); [reflexivity|]. destruct (f_kind f); reflexivity.
Qed.

(* a write that reports neither an error nor a short count went through completely *)
Lemma sink_write_ok s p s' n :
  sink_write s p = (s', n, None) -> blen p <= n -> 0 < blen p ->
  s_got s' = s_got s ++ p /\ s_tripped s' = s_tripped s.
Proof.
  unfold sink_write. intros H Hn Hp. destruct (s_fault s) as [f|] eqn:Ef.
  - destruct (_ || _) eqn:Eh.
    + injection H as <- _. now split.
    + apply orb_false_elim in Eh as [_ Eh]. apply N.leb_gt in Eh.
      destruct (f_kind f); try discriminate. injection H as _ Hn'. lia.
  - injection H as <- _. now split.
Qed.

(* every write that trips nothing is complete and error free *)
Lemma sink_write_untripped s p s' n e :
  sink_write s p = (s', n, e) -> s_tripped s' = false ->
  s_got s' = s_got s ++ p /\ n = blen p /\ e = None /\ s_tripped s = false.
Proof.
  unfold sink_write. intros H Ht. destruct (s_fault s) as [f|] eqn:Ef.
  - destruct (_ || _) eqn:Eh.
    + injection H as <- <- <-. cbn in Ht. now repeat split.
    + destruct (f_kind f); injection H as <- _ _; cbn in Ht; discriminate.
  - injection H as <- <- <-. cbn in Ht. now repeat split.
Qed.

(* an error or a short count means the fault was hit *)
Lemma sink_write_bad s p s' n e :
  sink_write s p = (s', n, e) -> e <> None \/ n < blen p -> s_tripped s' = true.
Proof.
  intros H Hb. destruct (s_tripped s') eqn:Et; [reflexivity|].
  destruct (sink_write_untripped _ _ _ _ _ H Et) as (_ & Hn & He & _). destruct Hb as [Hb|Hb]; [now elim Hb|lia].
Qed.

Lemma sink_write_err_kind s p s' n e : sink_write s p = (s', n, Some e) -> e <> EFuel.
Proof.
  unfold sink_write. intros H. destruct (s_fault s) as [f|]; [|discriminate].
  destruct (_ || _); [discriminate|]. destruct (f_kind f); inversion H; subst; discriminate.
Qed.

Lemma sink_write_bound s p s' n e : sink_write s p = (s', n, e) -> sbound s -> sbound s'.
Proof.
  unfold sink_write, sbound. intros H Hb Ht f Hf. destruct (s_fault s) as [f0|] eqn:Ef.
  - destruct (_ || _) eqn:Eh.
    + injection H as <- _ _. cbn in *. injection Hf as <-. specialize (Hb Ht f0 eq_refl).
      apply orb_prop in Eh as [Eh|Eh].
      * apply andb_prop in Eh as [_ Eh]. congruence.
      * apply N.leb_le in Eh. rewrite blen_app. exact Eh.
    + destruct (f_kind f0); injection H as <- _ _; cbn in Ht; discriminate.
  - injection H as <- _ _. cbn in Hf. congruence.
Qed.

Lemma sink_write_healthy s p : s_fault s = None ->
  sink_write s p = (mksink None (s_got s ++ p) (s_calls s + 1) (s_tripped s), blen p, None).
Proof. unfold sink_write. now intros ->. Qed.

(* ------------------------------------------------------------------ bufio.Writer invariant *)

Definition wf (b : bw) : Prop := b_n b = blen (buf_bytes b).

(* W is everything handed to WriteString so far.  While no error is recorded, the sink
   content followed by the buffer content is exactly W and the fault was never hit; a
   recorded error always stems from the fault (never from the model's fuel); a healthy
   sink is never tripped *)
Definition good (fo : option fault) (b : bw) (W : bytes) : Prop :=
  s_fault (b_sink b) = fo /\ sbound (b_sink b) /\ wf b /\
  (b_err b = None -> s_got (b_sink b) ++ buf_bytes b = W /\ s_tripped (b_sink b) = false) /\
  (b_err b <> None -> s_tripped (b_sink b) = true /\ b_err b <> Some EFuel) /\
  (fo = None -> s_tripped (b_sink b) = false).

Ltac mkgood := split; [|split; [|split; [|split; [|split]]]].

Lemma good_err fo b W W' : good fo b W -> b_err b <> None -> good fo b W'.
Proof.
  intros (H1 & H2 & H3 & _ & H5 & H6) He. mkgood; [exact H1|exact H2|exact H3| |exact H5|exact H6].
  intros E. now elim He.
Qed.

Lemma good_new fo : good fo (new_bw (new_sink fo)) [].
Proof.
  mkgood; try reflexivity.
  - intros _ f _. unfold blen. cbn. lia.
  - intros _. now split.
  - intros Hx. now elim Hx.
Qed.

Lemma buf_bytes_push b s : buf_bytes (push b s) = buf_bytes b ++ s.
Proof. unfold buf_bytes, push. cbn [b_pend rev]. rewrite concat_app. cbn [concat]. now rewrite app_nil_r. Qed.

Lemma push_good fo b W s : good fo b W -> good fo (push b s) (W ++ s).
Proof.
  intros (H1 & H2 & H3 & H4 & H5 & H6). unfold good. rewrite buf_bytes_push. cbn [push b_sink b_err b_n].
  mkgood; [exact H1|exact H2| | |exact H5|exact H6].
  - unfold wf in *. cbn [push b_n]. rewrite buf_bytes_push, blen_app. now rewrite H3.
  - intros E. destruct (H4 E) as [HW Ht]. split; [|exact Ht]. now rewrite app_assoc, HW.
Qed.

Lemma buf_bytes_single x n e s : buf_bytes (mkbw [x] n e s) = x.
Proof. unfold buf_bytes. cbn. apply app_nil_r. Qed.

Lemma sink_write_tripped_none s p : s_fault s = None ->
  s_tripped (fst (fst (sink_write s p))) = s_tripped s.
Proof. intros H. now rewrite (sink_write_healthy s p H). Qed.

(* Flush: the result is the recorded error; after a successful one the buffer is empty *)
Lemma flush_good fo b W b' e : good fo b W -> bw_flush b = (b', e) ->
  good fo b' W /\ e = b_err b' /\ (b_err b' = None -> buf_bytes b' = [] /\ b_n b' = 0 /\ b_err b = None)
  /\ (b_err b <> None -> b' = b).
Proof.
  intros G H. unfold bw_flush in H. destruct (b_err b) as [x|] eqn:Ee.
  { injection H as <- <-. rewrite Ee. split; [exact G|]. split; [reflexivity|]. split; [discriminate|reflexivity]. }
  destruct (b_n b =? 0) eqn:En.
  { injection H as <- <-. apply N.eqb_eq in En. pose proof G as (H1 & H2 & H3 & H4 & H5 & H6).
    split; [exact G|]. split; [now rewrite Ee|]. split; [|intros Hx; now elim Hx].
    intros _. split; [|split; [exact En|reflexivity]]. apply blen_nil_inv. now rewrite <- H3. }
  apply N.eqb_neq in En.
  destruct (sink_write (b_sink b) (buf_bytes b)) as [[s' n] e0] eqn:Es.
  destruct G as (H1 & H2 & H3 & H4 & H5 & H6). destruct (H4 Ee) as [HW Ht].
  assert (Hf : s_fault s' = fo) by (rewrite <- H1, <- (sink_write_fault (b_sink b) (buf_bytes b)); now rewrite Es).
  assert (Hb : sbound s') by (eapply sink_write_bound; eauto).
  assert (H6' : fo = None -> s_tripped s' = false).
  { intros Hn. rewrite <- (H6 Hn). rewrite <- H1 in Hn.
    pose proof (sink_write_tripped_none (b_sink b) (buf_bytes b) Hn) as Hq. now rewrite Es in Hq. }
  assert (Hwf : forall x, wf (mkbw [skipn (N.to_nat n) (buf_bytes b)] (b_n b - n) (Some x) s')).
  { intros x. unfold wf. rewrite buf_bytes_single. cbn [b_n].
    unfold blen. rewrite skipn_length. unfold wf, blen in H3. lia. }
  destruct e0 as [x|].
  - injection H as <- <-. cbn [b_err b_sink b_n]. split; [|split; [reflexivity|split; [discriminate|intros Hx; now elim Hx]]].
    mkgood; cbn [b_err b_sink]; [exact Hf|exact Hb|apply Hwf|discriminate| |exact H6'].
    intros _. split.
    + eapply sink_write_bad; [exact Es|]. left. discriminate.
    + intros Hq. injection Hq as ->. now apply (sink_write_err_kind _ _ _ _ _ Es).
  - destruct (n <? b_n b) eqn:Elt.
    + injection H as <- <-. cbn [b_err b_sink b_n]. apply N.ltb_lt in Elt.
      split; [|split; [reflexivity|split; [discriminate|intros Hx; now elim Hx]]].
      mkgood; cbn [b_err b_sink]; [exact Hf|exact Hb|apply Hwf|discriminate| |exact H6'].
      intros _. split; [|discriminate]. eapply sink_write_bad; [exact Es|]. right. unfold wf in H3. lia.
    + injection H as <- <-. cbn [b_err b_sink b_n]. apply N.ltb_ge in Elt.
      unfold wf in H3. destruct (sink_write_ok _ _ _ _ Es) as [Hg Htr]; [lia|lia|].
      split; [|split; [reflexivity|split; [intros _; now repeat split|intros Hx; now elim Hx]]].
      mkgood; cbn [b_err b_sink]; [exact Hf|exact Hb|reflexivity| |intros Hx; now elim Hx|exact H6'].
      intros _. unfold buf_bytes. cbn [b_pend rev concat]. rewrite app_nil_r, Hg. split; [exact HW|congruence].
Qed.

Lemma flush_err_sticky b e : b_err b = Some e -> bw_flush b = (b, Some e).
Proof. unfold bw_flush. now intros ->. Qed.

(* the fuel WriteString's loop is given is never used up *)
Definition fuel_need (b : bw) (s : bytes) : nat := (length s + (if (avail b =? 0)%N then 1 else 0) + 2)%nat.

Lemma ws_loop_good fo fuel : forall b W s b' s', good fo b W -> (fuel_need b s <= fuel)%nat ->
  ws_loop fuel b s = (b', s') ->
  exists c, s = c ++ s' /\ good fo b' (W ++ c) /\ (b_err b <> None -> b' = b).
Proof.
  induction fuel as [|f IH]; intros b W s b' s' G Hfuel H; cbn [ws_loop] in H.
  - unfold fuel_need in Hfuel. lia.
  - destruct (b_err b) as [x|] eqn:Ee.
    { injection H as <- <-. exists []. rewrite app_nil_r. split; [reflexivity|]. split; [exact G|reflexivity]. }
    destruct (avail b <? blen s) eqn:Ea.
    + set (a := N.to_nat (avail b)) in *.
      destruct (bw_flush (push b (firstn a s))) as [b2 e2] eqn:Ef. cbn [fst] in H.
      pose proof (push_good fo b W (firstn a s) G) as G1.
      destruct (flush_good _ _ _ _ _ G1 Ef) as (G2 & _ & M2 & _).
      assert (Hc : exists c, skipn a s = c ++ s' /\ good fo b' ((W ++ firstn a s) ++ c)).
      { destruct (b_err b2) as [x|] eqn:E2.
        - (* the flush failed: the loop stops at once *)
          destruct f as [|f']; [unfold fuel_need in Hfuel; lia|].
          cbn [ws_loop] in H. rewrite E2 in H. injection H as <- <-.
          exists []. rewrite app_nil_r. now split.
        - destruct (M2 eq_refl) as (_ & Hn2 & _).
          assert (Hf2 : (fuel_need b2 (skipn a s) <= f)%nat).
          { unfold fuel_need in *. unfold avail at 1. rewrite Hn2. cbn [N.sub cap N.eqb].
            rewrite skipn_length. apply N.ltb_lt in Ea. unfold blen in Ea.
            destruct (avail b =? 0) eqn:E0.
            * apply N.eqb_eq in E0. subst a. rewrite E0. cbn. lia.
            * apply N.eqb_neq in E0. subst a. lia. }
          destruct (IH _ _ _ _ _ G2 Hf2 H) as (c & Hc & G3 & _). now exists c. }
      destruct Hc as (c & Hc & G3).
      exists (firstn a s ++ c). split; [|split; [|intros Hx; now elim Hx]].
      * rewrite <- app_assoc, <- Hc. now rewrite firstn_skipn.
      * now rewrite app_assoc.
    + injection H as <- <-. exists []. rewrite app_nil_r. split; [reflexivity|]. split; [assumption|easy].
Qed.

Lemma write_good fo b W s b' e : good fo b W -> bw_write b s = (b', e) ->
  good fo b' (W ++ s) /\ e = b_err b' /\ (b_err b' = None -> b_err b = None).
Proof.
  intros G H. unfold bw_write in H. destruct (ws_loop (length s + 3) b s) as [b1 s1] eqn:El.
  assert (Hfuel : (fuel_need b s <= length s + 3)%nat) by (unfold fuel_need; destruct (avail b =? 0); lia).
  destruct (ws_loop_good _ _ _ _ _ _ _ G Hfuel El) as (c & Hc & G1 & Hst).
  assert (Hmono : b_err b1 = None -> b_err b = None).
  { intros E1. destruct (b_err b) as [x|] eqn:Ee; [|reflexivity].
    rewrite Hst in E1; [congruence|discriminate]. }
  destruct (b_err b1) as [x|] eqn:E1.
  - injection H as <- <-. split; [|split; [now rewrite E1|]].
    + apply good_err with (W := W ++ c); [assumption|]. now rewrite E1.
    + rewrite E1. discriminate.
  - injection H as <- <-. split; [|split; [now cbn; rewrite E1|intros _; now apply Hmono]].
    rewrite Hc, app_assoc. now apply push_good.
Qed.

Lemma write_err_sticky b s e : b_err b = Some e -> bw_write b s = (b, Some e).
Proof.
  intros E. unfold bw_write. rewrite Nat.add_comm. cbn [Nat.add ws_loop]. now rewrite E, E.
Qed.

Lemma flush_empty b : b_err b = None -> b_n b = 0 -> bw_flush b = (b, None).
Proof. unfold bw_flush. now intros -> ->. Qed.

(* from here on bufio's operations are used through the lemmas above only; keeping
   them folded also keeps the kernel from unrolling WriteString's fuel at Qed time *)
Opaque bw_write bw_flush ws_loop.

(* ------------------------------------------------------------------ writer.go *)

Lemma on_err_soft h e : soft h = true ->
  (on_err h e = Cont) \/ (exists x, e = Some x /\ on_err h e = Ret (Some x)).
Proof.
  intros Hs. destruct e as [x|]; [|now left]. destruct h; try discriminate; cbn.
  - right. now exists x.
  - now left.
Qed.

Lemma on_err_lsoft h e : lsoft h = true ->
  (on_err h e = Cont) \/ (exists x, e = Some x /\ (on_err h e = Ret (Some x) \/ on_err h e = Ret None)).
Proof.
  intros Hs. destruct e as [x|]; [|now left]. destruct h; try discriminate; cbn.
  - right. exists x. split; [reflexivity|now left].
  - now left.
  - right. exists x. split; [reflexivity|now right].
Qed.

Definition lb (le l : bytes) : bytes := if nonempty l then l ++ le else [].
Definition lc (l : bytes) : N := if nonempty l then 1 else 0.

Section Writer.
Variable p : wpolicy.
Variable le : bytes.
Hypothesis Hp : policy_ok p = true.

Lemma pol :
  lsoft (p_wl_line p) = true /\ lsoft (p_wl_le p) = true /\ p_api_flush p = Propagate /\
  soft (p_hdr p) = true /\ soft (p_body p) = true /\ soft (p_ctl p) = true /\
  soft (p_pad_line p) = true /\ soft (p_pad_le p) = true /\ p_final p = Propagate.
Proof.
  unfold policy_ok in Hp. repeat (apply andb_prop in Hp as [Hp ?]).
  repeat split; try assumption.
  - destruct (p_api_flush p); try discriminate; reflexivity.
  - destruct (p_final p); try discriminate; reflexivity.
Qed.

Lemma api_flush_eq b : api_flush p b = bw_flush b.
Proof.
  destruct pol as (_ & _ & Ha & _). unfold api_flush. rewrite Ha. now destruct (bw_flush b).
Qed.

Lemma tag_soft t : soft (tag_handler p t) = true.
Proof. destruct pol as (_ & _ & _ & H1 & H2 & H3 & _). now destruct t. Qed.

(* writeLine.  A non-nil result is the error recorded in the buffered writer. *)
Lemma write_line_good fo b n W l st' e :
  good fo b W -> write_line p le (b, n) l = (st', e) ->
  good fo (fst st') (W ++ lb le l) /\
  (b_err (fst st') = None -> e = None /\ snd st' = n + lc l /\ b_err b = None) /\
  (e <> None -> e = b_err (fst st')).
Proof.
  intros G H. unfold write_line in H. unfold lb, lc. destruct (nonempty l) eqn:En; cbn [negb] in H.
  2:{ injection H as <- <-. cbn [fst snd]. rewrite app_nil_r. split; [exact G|]. split; [|intros Hx; now elim Hx].
      intros E. split; [reflexivity|]. split; [lia|exact E]. }
  destruct pol as (S1 & S2 & _).
  destruct (bw_write b l) as [b1 e1] eqn:E1.
  destruct (write_good _ _ _ _ _ _ G E1) as (G1 & He1 & M1).
  destruct (on_err_lsoft (p_wl_line p) e1 S1) as [C1|(x & Hx & [C1|C1])]; rewrite C1 in H.
  2:{ injection H as <- <-. cbn [fst snd]. rewrite He1 in Hx. split; [|split].
      - rewrite app_assoc. apply good_err with (W := W ++ l); [exact G1|]. rewrite Hx. discriminate.
      - intros E. rewrite E in Hx. discriminate.
      - intros _. now rewrite Hx. }
  2:{ injection H as <- <-. cbn [fst snd]. rewrite He1 in Hx. split; [|split].
      - rewrite app_assoc. apply good_err with (W := W ++ l); [exact G1|]. rewrite Hx. discriminate.
      - intros E. rewrite E in Hx. discriminate.
      - intros Hq. now elim Hq. }
  destruct (bw_write b1 le) as [b2 e2] eqn:E2.
  destruct (write_good _ _ _ _ _ _ G1 E2) as (G2 & He2 & M2). rewrite <- app_assoc in G2.
  destruct (on_err_lsoft (p_wl_le p) e2 S2) as [C2|(x & Hx & [C2|C2])]; rewrite C2 in H.
  2:{ injection H as <- <-. cbn [fst snd]. rewrite He2 in Hx. split; [|split].
      - apply good_err with (W := W ++ l ++ le); [exact G2|]. rewrite Hx. discriminate.
      - intros E. rewrite E in Hx. discriminate.
      - intros _. now rewrite Hx. }
  2:{ injection H as <- <-. cbn [fst snd]. rewrite He2 in Hx. split; [|split].
      - apply good_err with (W := W ++ l ++ le); [exact G2|]. rewrite Hx. discriminate.
      - intros E. rewrite E in Hx. discriminate.
      - intros Hq. now elim Hq. }
  assert (Hplain : forall e', e' = None -> (b2, n + 1, e') = (st', e) ->
     good fo (fst st') (W ++ l ++ le) /\
     (b_err (fst st') = None -> e = None /\ snd st' = n + 1 /\ b_err b = None) /\
     (e <> None -> e = b_err (fst st'))).
  { intros e' -> Hq. injection Hq as <- <-. cbn [fst snd]. split; [exact G2|]. split; [|intros Hx; now elim Hx].
    intros E. split; [reflexivity|]. split; [reflexivity|]. auto. }
  destruct (avail b2 <? p_thresh p); [|now apply (Hplain None)].
  destruct (p_wl_flush p) eqn:Ew; try (now apply (Hplain None));
    rewrite api_flush_eq in H; destruct (bw_flush b2) as [b3 e3] eqn:E3;
    destruct (flush_good _ _ _ _ _ G2 E3) as (G3 & He3 & M3 & _);
    injection H as <- <-; cbn [fst snd]; (split; [exact G3|]); split.
  - intros E. destruct (M3 E) as (_ & _ & E2'). split; [congruence|]. split; [reflexivity|auto].
  - intros _. exact He3.
  - intros E. destruct (M3 E) as (_ & _ & E2'). split; [reflexivity|]. split; [reflexivity|auto].
  - intros Hx. now elim Hx.
  - intros E. destruct (M3 E) as (_ & _ & E2'). split; [reflexivity|]. split; [reflexivity|auto].
  - intros Hx. now elim Hx.
  - intros E. destruct (M3 E) as (_ & _ & E2'). split; [reflexivity|]. split; [reflexivity|auto].
  - intros Hx. now elim Hx.
Qed.

Lemma rec_bytes_cons r rest : rec_bytes le (r :: rest) = lb le (snd r) ++ rec_bytes le rest.
Proof. reflexivity. Qed.

Lemma write_recs_good fo recs : forall b n W st' a,
  good fo b W -> write_recs p le (b, n) recs = (st', a) ->
  good fo (fst st') (W ++ rec_bytes le recs) /\
  (b_err (fst st') = None -> a = Cont /\ snd st' = n + rec_count recs /\ b_err b = None) /\
  (forall r, a = Ret r -> r <> None /\ r = b_err (fst st')).
Proof.
  induction recs as [|[t l] rest IH]; intros b n W st' a G H; cbn [write_recs] in H.
  - injection H as <- <-. cbn [fst snd rec_count]. unfold rec_bytes. cbn [map concat]. rewrite app_nil_r.
    split; [exact G|]. split; [|discriminate]. intros E. split; [reflexivity|]. split; [lia|exact E].
  - destruct (write_line p le (b, n) l) as [st1 e] eqn:E1.
    destruct (write_line_good _ _ _ _ _ _ _ G E1) as (G1 & M1 & X1).
    rewrite rec_bytes_cons. cbn [snd rec_count]. fold (lc l).
    destruct (on_err_soft (tag_handler p t) e (tag_soft t)) as [C|(x & Hx & C)]; rewrite C in H.
    + destruct st1 as [b1 n1]. destruct (IH _ _ _ _ _ G1 H) as (G2 & M2 & X2). cbn [fst snd] in *.
      split; [now rewrite app_assoc|]. split; [|exact X2].
      intros E. destruct (M2 E) as (-> & Hn & Eb1). destruct (M1 Eb1) as (_ & Hn1 & Eb).
      split; [reflexivity|]. split; [lia|exact Eb].
    + injection H as <- <-. subst e. assert (Hq : Some x = b_err (fst st1)) by (apply X1; discriminate).
      assert (Hne : b_err (fst st1) <> None) by (rewrite <- Hq; discriminate).
      split; [|split].
      * rewrite app_assoc. apply good_err with (W := W ++ lb le l); assumption.
      * intros E. now elim Hne.
      * intros r Hr. injection Hr as <-. split; [discriminate|exact Hq].
Qed.

Lemma repeat_S_concat (x : bytes) k : concat (repeat x (S k)) = x ++ concat (repeat x k).
Proof. reflexivity. Qed.

Lemma pad_loop_good fo k : forall b W b' a,
  good fo b W -> pad_loop p le k b = (b', a) ->
  good fo b' (W ++ concat (repeat (nines ++ le) k)) /\
  (b_err b' = None -> a = Cont /\ b_err b = None) /\
  (forall r, a = Ret r -> r <> None /\ r = b_err b').
Proof.
  destruct pol as (_ & _ & _ & _ & _ & _ & S1 & S2 & _).
  induction k as [|k IH]; intros b W b' a G H; cbn [pad_loop] in H.
  - injection H as <- <-. change (concat (repeat (nines ++ le) 0)) with (@nil N). rewrite app_nil_r.
    split; [exact G|]. split; [|discriminate]. now intros E.
  - rewrite repeat_S_concat.
    destruct (bw_write b nines) as [b1 e1] eqn:E1.
    destruct (write_good _ _ _ _ _ _ G E1) as (G1 & He1 & M1).
    destruct (on_err_soft (p_pad_line p) e1 S1) as [C1|(x & Hx & C1)]; rewrite C1 in H.
    2:{ injection H as <- <-. rewrite He1 in Hx. assert (Hne : b_err b1 <> None) by (rewrite Hx; discriminate).
        split; [|split].
        - apply good_err with (W := W ++ nines); assumption.
        - intros E. now elim Hne.
        - intros r Hr. injection Hr as <-. split; [discriminate|now rewrite Hx]. }
    destruct (bw_write b1 le) as [b2 e2] eqn:E2.
    destruct (write_good _ _ _ _ _ _ G1 E2) as (G2 & He2 & M2).
    destruct (on_err_soft (p_pad_le p) e2 S2) as [C2|(x & Hx & C2)]; rewrite C2 in H.
    2:{ injection H as <- <-. rewrite He2 in Hx. assert (Hne : b_err b2 <> None) by (rewrite Hx; discriminate).
        split; [|split].
        - apply good_err with (W := (W ++ nines) ++ le); assumption.
        - intros E. now elim Hne.
        - intros r Hr. injection Hr as <-. split; [discriminate|now rewrite Hx]. }
    destruct (IH _ _ _ _ G2 H) as (G3 & M3 & X3).
    split; [|split; [|exact X3]].
    + rewrite <- (app_assoc W nines le) in G3. rewrite <- (app_assoc W (nines ++ le)) in G3. exact G3.
    + intros E. destruct (M3 E) as [-> Eb2]. split; [reflexivity|auto].
Qed.

Lemma final_flush_eq b : final_flush p b = bw_flush b.
Proof.
  destruct pol as (_ & _ & _ & _ & _ & _ & _ & _ & Hf). unfold final_flush. rewrite Hf. now destruct (bw_flush b).
Qed.

(* Write: whatever happens the invariant holds for the complete output; the result is
   nil exactly when no error is recorded, and then the buffer is empty; a non-nil
   result is the recorded error *)
Lemma write_file_good fo recs b b' r :
  good fo b [] -> write_file p le recs b = (b', r) ->
  good fo b' (full_output le recs) /\
  (r = None -> b_err b' = None /\ buf_bytes b' = [] /\ b_n b' = 0) /\
  (b_err b' = None -> r = None) /\
  (r <> None -> r = b_err b').
Proof.
  intros G H. unfold write_file in H.
  destruct (write_recs p le (b, 0) recs) as [[b1 n] a] eqn:E1.
  destruct (write_recs_good _ _ _ _ _ _ _ G E1) as (G1 & M1 & X1). cbn [fst snd app] in *.
  unfold full_output.
  destruct a as [|r1].
  2:{ injection H as <- <-. destruct (X1 r1 eq_refl) as [Hr Hq].
      assert (Hne : b_err b1 <> None) by (now rewrite <- Hq).
      split; [|split; [intros E; now elim Hr|split; [intros E; now elim Hne|intros _; exact Hq]]].
      apply good_err with (W := rec_bytes le recs); assumption. }
  destruct (pad_loop p le (pad_count n) b1) as [b2 a2] eqn:E2.
  destruct (pad_loop_good _ _ _ _ _ _ G1 E2) as (G2 & M2 & X2).
  assert (Hcnt : b_err b2 = None -> n = rec_count recs).
  { intros E. destruct (M2 E) as [_ Eb1]. destruct (M1 Eb1) as (_ & Hn & _). lia. }
  destruct a2 as [|r2].
  2:{ injection H as <- <-. destruct (X2 r2 eq_refl) as [Hr Hq].
      assert (Hne : b_err b2 <> None) by (now rewrite <- Hq).
      split; [|split; [intros E; now elim Hr|split; [intros E; now elim Hne|intros _; exact Hq]]].
      apply good_err with (W := rec_bytes le recs ++ concat (repeat (nines ++ le) (pad_count n))); assumption. }
  rewrite final_flush_eq in H.
  destruct (flush_good _ _ _ _ _ G2 H) as (G3 & He & M3 & _).
  destruct (b_err b') as [x|] eqn:Eb.
  - split; [|split; [intros E; congruence|split; [discriminate|intros _; exact He]]].
    eapply good_err; [exact G3|]. rewrite Eb. discriminate.
  - destruct (M3 eq_refl) as (Hbuf & Hn0 & Eb2). rewrite (Hcnt Eb2) in G3.
    split; [exact G3|]. split; [intros _; now repeat split|]. split; [intros _; exact He|intros Hx; now elim Hx].
Qed.

(* the run as a whole: invariant of the final state and how the two results relate to it *)
Lemma writer_run_good fo recs :
  let r := writer_run p le recs fo in
  exists b, b_sink b = wr_sink r /\ good fo b (full_output le recs) /\
    wr_flush r = b_err b /\ (wr_write r = None -> b_err b = None) /\
    (b_err b = None -> wr_write r = None /\ buf_bytes b = []) /\
    (wr_write r <> None -> wr_write r = b_err b).
Proof.
  unfold writer_run.
  destruct (write_file p le recs (new_bw (new_sink fo))) as [b1 r1] eqn:E1.
  destruct (write_file_good _ _ _ _ _ (good_new fo) E1) as (G1 & M1 & N1 & X1).
  rewrite api_flush_eq. destruct (bw_flush b1) as [b2 fr] eqn:E2.
  destruct (flush_good _ _ _ _ _ G1 E2) as (G2 & He & M2 & St). cbn [wr_write wr_flush wr_sink].
  exists b2. split; [reflexivity|]. split; [exact G2|]. split; [exact He|].
  assert (Hsame : b_err b1 <> None -> b2 = b1) by exact St.
  split; [|split].
  - intros Hr. destruct (M1 Hr) as (Eb1 & Hbuf & Hn0). rewrite (flush_empty b1 Eb1 Hn0) in E2. now injection E2 as <- _.
  - intros E. destruct (M2 E) as (Hbuf & _ & Eb1). split; [now apply N1|exact Hbuf].
  - intros Hr. rewrite (X1 Hr). destruct (b_err b1) as [x|] eqn:Eb1.
    + rewrite Hsame; [now rewrite Eb1|discriminate].
    + rewrite (N1 eq_refl) in Hr. now elim Hr.
Qed.

(* C16, writer side: a nil result of Write, or of the Flush that follows, means the
   sink holds exactly the complete output and its fault was never hit *)
Theorem writer_safe fo recs :
  let r := writer_run p le recs fo in
  (wr_write r = None \/ wr_flush r = None) ->
  s_got (wr_sink r) = full_output le recs /\ s_tripped (wr_sink r) = false.
Proof.
  intros r Hr. destruct (writer_run_good fo recs) as (b & Hs & G & Hf & Hw & Hb & _). fold r in Hs, Hf, Hw, Hb.
  assert (E : b_err b = None) by (destruct Hr as [Hr|Hr]; [now apply Hw|congruence]).
  destruct (Hb E) as [_ Hbuf]. destruct G as (_ & _ & _ & H4 & _). destruct (H4 E) as [HW Ht].
  rewrite Hbuf, app_nil_r in HW. rewrite <- Hs. now split.
Qed.

(* whenever the fault lies inside the output, neither Write nor Flush reports success *)
Theorem writer_detects recs f :
  f_k f < blen (full_output le recs) ->
  let r := writer_run p le recs (Some f) in wr_write r <> None /\ wr_flush r <> None.
Proof.
  intros Hk r.
  assert (H : ~ (wr_write r = None \/ wr_flush r = None)).
  { intros Hr. destruct (writer_safe (Some f) recs Hr) as [Hg Ht]. fold r in Hg, Ht.
    destruct (writer_run_good (Some f) recs) as (b & Hs & (Hf & Hb & _) & _). fold r in Hs.
    rewrite Hs in Hf, Hb. specialize (Hb Ht f Hf). rewrite Hg in Hb. lia. }
  split; intros E; apply H; [now left|now right].
Qed.

(* no false alarm: Write and Flush fail only if the sink's fault was hit; in particular
   a healthy sink receives the complete output and both report success *)
Theorem writer_no_false_error fo recs :
  let r := writer_run p le recs fo in
  s_tripped (wr_sink r) = false ->
  wr_write r = None /\ wr_flush r = None /\ s_got (wr_sink r) = full_output le recs.
Proof.
  intros r Ht. destruct (writer_run_good fo recs) as (b & Hs & G & Hf & Hw & Hb & _). fold r in Hs, Hf, Hw, Hb.
  assert (E : b_err b = None).
  { destruct (b_err b) as [x|] eqn:Eb; [|reflexivity]. destruct G as (_ & _ & _ & _ & H5 & _).
    assert (Hne : b_err b <> None) by (rewrite Eb; discriminate). destruct (H5 Hne) as [Htr _]. rewrite Hs in Htr. congruence. }
  destruct (Hb E) as [Hwn _]. split; [exact Hwn|]. split; [congruence|].
  apply (writer_safe fo recs). now left.
Qed.

Theorem writer_healthy recs :
  let r := writer_run p le recs None in
  wr_write r = None /\ wr_flush r = None /\ s_got (wr_sink r) = full_output le recs.
Proof.
  intros r. destruct (writer_run_good None recs) as (b & Hs & (_ & _ & _ & _ & _ & H6) & _).
  apply (writer_no_false_error None recs). cbv zeta in Hs. rewrite <- Hs. now apply H6.
Qed.

(* the recursion fuel of the model's WriteString loop never runs out *)
Theorem fuel_enough fo recs :
  let r := writer_run p le recs fo in wr_write r <> Some EFuel /\ wr_flush r <> Some EFuel.
Proof.
  intros r. destruct (writer_run_good fo recs) as (b & Hs & G & Hf & _ & _ & Hx). fold r in Hf, Hx.
  destruct G as (_ & _ & _ & _ & H5 & _).
  assert (Hb : b_err b <> Some EFuel).
  { intros E. assert (Hne : b_err b <> None) by (rewrite E; discriminate). destruct (H5 Hne) as [_ Hn]. now elim Hn. }
  split; [|now rewrite Hf].
  intros E. apply Hb. rewrite <- Hx; [exact E|]. rewrite E. discriminate.
Qed.

End Writer.

(* ------------------------------------------------------------------ reader.go *)

Lemma read_full_spec : forall chunks need acc pre rest filled,
  read_full need chunks acc = (pre, rest, filled) ->
  pre ++ concat rest = acc ++ concat chunks /\
  filled = (need <=? blen (concat chunks)) /\
  (filled = false -> rest = []).
Proof.
  induction chunks as [|c cs IH]; intros need acc pre rest filled H; cbn [read_full] in H.
  - destruct (need =? 0) eqn:En; injection H as <- <- <-; cbn [concat]; rewrite ?app_nil_r.
    + apply N.eqb_eq in En. subst need. split; [reflexivity|]. split; [|discriminate]. symmetry. apply N.leb_le. lia.
    + apply N.eqb_neq in En. split; [reflexivity|]. split; [|reflexivity]. unfold blen. cbn [length]. symmetry. apply N.leb_gt. lia.
  - destruct (need =? 0) eqn:En.
    + injection H as <- <- <-. apply N.eqb_eq in En. subst need. split; [reflexivity|]. split; [|discriminate].
      symmetry. apply N.leb_le. lia.
    + apply N.eqb_neq in En. cbn [concat]. rewrite blen_app. destruct (blen c <=? need) eqn:Ec.
      * apply N.leb_le in Ec. destruct (IH _ _ _ _ _ H) as (H1 & H2 & H3).
        split; [now rewrite H1, <- app_assoc|]. split; [|exact H3].
        rewrite H2. destruct (need - blen c <=? blen (concat cs)) eqn:E1.
        -- apply N.leb_le in E1. symmetry. apply N.leb_le. lia.
        -- apply N.leb_gt in E1. symmetry. apply N.leb_gt. lia.
      * apply N.leb_gt in Ec. injection H as <- <- <-. cbn [concat]. split; [|split; [|discriminate]].
        -- rewrite <- app_assoc. f_equal. rewrite app_assoc. now rewrite firstn_skipn.
        -- symmetry. apply N.leb_le. lia.
Qed.

(* complete description of what Read reports, for every chunking of the source *)
Theorem reader_run_spec p chunks t : rpolicy_ok p = true ->
  reader_run p (mksrc chunks t) =
  let d := concat chunks in
  match t with
  | TEOF => RParsed d
  | TErr RInj => if preview_size <=? blen d then RScanErr RInj else RCtorErr
  | TErr RUnexpectedEOF => if preview_size <=? blen d then RScanErr RUnexpectedEOF else RParsed d
  end.
Proof.
  intros Hp. unfold rpolicy_ok in Hp.
  destruct (r_ctor p) eqn:Ec; try discriminate. destruct (r_scan p) eqn:Es; try discriminate.
  unfold reader_run. cbn [src_chunks src_term].
  destruct (read_full preview_size chunks []) as [[pre rest] filled] eqn:Er.
  destruct (read_full_spec _ _ _ _ _ _ Er) as (H1 & H2 & H3). cbn [app] in H1. rewrite <- H2.
  destruct filled.
  - rewrite Es, H1. now destruct t as [|[|]].
  - rewrite (H3 eq_refl) in H1. cbn [concat] in H1. rewrite app_nil_r in H1. subst pre. rewrite Ec.
    now destruct t as [|[|]].
Qed.

Lemma concat_chop : forall fuel c l, concat (chop fuel c l) = l.
Proof.
  induction fuel as [|f IH]; intros c l; cbn [chop].
  - destruct l; cbn; [reflexivity|now rewrite app_nil_r].
  - destruct l as [|x l]; [reflexivity|]. cbn [concat]. rewrite IH. apply firstn_skipn.
Qed.

Lemma concat_chunked c l : concat (chunked c l) = l.
Proof.
  unfold chunked. destruct c; [|apply concat_chop].
  destruct l; cbn; [reflexivity|now rewrite app_nil_r].
Qed.

(* C16, reader side: a source that yields text[:k] (in any pieces) and then fails with
   an error other than io.EOF / io.ErrUnexpectedEOF never produces a parsed file *)
Theorem reader_detects p text k c : rpolicy_ok p = true ->
  reader_run p (failing_source text k c RInj) = RCtorErr \/
  reader_run p (failing_source text k c RInj) = RScanErr RInj.
Proof.
  intros Hp. unfold failing_source. rewrite (reader_run_spec p _ _ Hp). cbn zeta.
  destruct (preview_size <=? _); [now right|now left].
Qed.

(* what is parsed when no I/O error surfaces is the complete input *)
Theorem reader_complete p text c : rpolicy_ok p = true ->
  reader_run p (healthy_source text c) = RParsed text.
Proof.
  intros Hp. unfold healthy_source. rewrite (reader_run_spec p _ _ Hp). cbn zeta. now rewrite concat_chunked.
Qed.

(* io.ErrUnexpectedEOF: surfaced after the preview, swallowed inside it *)
Theorem reader_unexpected_eof p text k c : rpolicy_ok p = true ->
  reader_run p (failing_source text k c RUnexpectedEOF) =
  if preview_size <=? blen (firstn k text) then RScanErr RUnexpectedEOF else RParsed (firstn k text).
Proof.
  intros Hp. unfold failing_source. rewrite (reader_run_spec p _ _ Hp). cbn zeta. now rewrite concat_chunked.
Qed.

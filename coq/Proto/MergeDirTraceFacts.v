From Coq Require Import List NArith Bool Arith Lia.
From ACH Require Import MergeDir MergeDirTrace.
Import ListNotations.

Lemma event_eqb_eq a b : event_eqb a b = true -> a = b.
Proof. destruct a, b; cbn; try discriminate; intros H; apply N.eqb_eq in H; now subst. Qed.

Lemma trace_eqb_eq a : forall b, trace_eqb a b = true -> a = b.
Proof.
  induction a as [|x a IH]; intros [|y b]; cbn; try discriminate; auto.
  intros H. apply andb_prop in H as [H1 H2]. apply event_eqb_eq in H1. apply IH in H2. now subst.
Qed.

Lemma count_N_app x a b : count_N x (a ++ b) = count_N x a + count_N x b.
Proof. induction a; cbn; lia. Qed.

Lemma count_N_notin x l : ~ In x l -> count_N x l = 0.
Proof.
  induction l as [|y l IH]; cbn; auto. intros H.
  destruct (N.eqb_spec x y) as [->|_]; [exfalso; apply H; now left|]. apply IH. tauto.
Qed.

Lemma same_multiset_spec a b : same_multiset a b = true -> forall x, count_N x a = count_N x b.
Proof.
  unfold same_multiset. intros H x. rewrite forallb_forall in H.
  destruct (in_dec N.eq_dec x (a ++ b)) as [I|I].
  - now apply Nat.eqb_eq, H.
  - rewrite !count_N_notin; auto; intros J; apply I, in_or_app; auto.
Qed.

(* soundness of trace validation: an accepted trace is the observable projection of a
   complete schedule of the model that ends with the observed result *)
Theorem accept_sound sel parse add_ok n paths trace observed :
  accept sel parse add_ok n paths trace observed = true ->
  exists sched s,
    run sel parse add_ok sched (init n paths) = Some s /\ terminal s = true /\
    trace_of sel parse add_ok sched (init n paths) = trace /\
    match observed with
    | None => result_of s = RErr
    | Some ids => exists m, result_of s = ROk m /\ forall x, count_N x m = count_N x ids
    end.
Proof.
  unfold accept. destruct (build _ _ _ _ _ _) as [[racc s0]|]; [|discriminate].
  destruct (run _ _ _ _ _) as [s|] eqn:R; [|discriminate].
  intros H. apply andb_prop in H as [H H3]. apply andb_prop in H as [H1 H2].
  exists (rev racc), s. repeat split; auto using trace_eqb_eq.
  unfold result_matches in H3. destruct (result_of s) as [|m], observed as [ids|]; try discriminate; auto.
  exists m. split; auto. now apply same_multiset_spec.
Qed.

(* C10 — proofs about the MergeDir protocol model: conservation over every schedule,
   progress + strictly decreasing measure (termination), result characterisation,
   and the deadlock of the protocol without the select-on-cancel sends. *)
From Coq Require Import List NArith Bool Arith Lia Permutation.
From ACH Require Import MergeDir.
Import ListNotations.

(* ------------------------------------------------------------ list plumbing *)
Lemma set_nth_split {A} (l : list A) i w0 w :
  nth_error l i = Some w0 ->
  exists l1 l2, l = l1 ++ w0 :: l2 /\ set_nth i w l = l1 ++ w :: l2 /\ length l1 = i.
Proof.
  revert i; induction l as [|x l IH]; intros [|i] H; cbn in *; try discriminate.
  - injection H as ->. exists [], l. auto.
  - destruct (IH _ H) as (l1 & l2 & -> & E & L). exists (x :: l1), l2. cbn. rewrite E, L. auto.
Qed.

Lemma nth_error_mid {A} (l1 l2 : list A) w : nth_error (l1 ++ w :: l2) (length l1) = Some w.
Proof. induction l1; cbn; auto. Qed.

Lemma set_nth_mid {A} (l1 l2 : list A) w0 w : set_nth (length l1) w (l1 ++ w0 :: l2) = l1 ++ w :: l2.
Proof. induction l1; cbn; auto. now rewrite IHl1. Qed.

Lemma forallb_false_split {A} (f : A -> bool) l :
  forallb f l = false -> exists l1 x l2, l = l1 ++ x :: l2 /\ f x = false.
Proof.
  induction l as [|a l IH]; cbn; [discriminate|]. intros H.
  destruct (f a) eqn:E.
  - cbn in H. destruct (IH H) as (l1 & x & l2 & -> & Hx). exists (a :: l1), x, l2. auto.
  - exists [], a, l. auto.
Qed.

Lemma wsum_app l1 l2 : wsum (l1 ++ l2) = wsum l1 + wsum l2.
Proof. induction l1; cbn; lia. Qed.

(* ------------------------------------------------------------ tokens *)
Inductive tok := TFile (f : N) | TBad (p : N).
Definition tok_dec (a b : tok) : {a = b} + {a <> b}.
Proof. decide equality; apply N.eq_dec. Defined.

Section Facts.
  Variable sel : bool.
  Variable parse : N -> outcome.
  Variable add_ok : N -> bool.

  Notation fire := (fire sel parse add_ok).
  Notation run := (run sel parse add_ok).
  Notation after_parse := (after_parse parse).

  (* what a path will contribute: its file, an error token, or nothing (skipped) *)
  Definition ptoks (p : N) : list tok :=
    match parse p with PSkip => [] | PErr => [TBad p] | POk f => [TFile f] end.
  Definition wtoks (w : wst) : list tok :=
    match w with WGot p | WParsing p => ptoks p | WHolding f => [TFile f] | _ => [] end.
  Definition mtoks (m : mst) : list tok := match m with MAdding f => [TFile f] | _ => [] end.
  Definition total (s : st) : list tok :=
    map TFile (merged s) ++ mtoks (mg s) ++ flat_map wtoks (ws s) ++ flat_map ptoks (queue s).
  Definition files_of (paths : list N) : list N :=
    flat_map (fun p => match parse p with POk f => [f] | _ => [] end) paths.

  (* ---------------------------------------------------------- relational form of [fire] *)
  Inductive step : label -> st -> st -> Prop :=
  | S_hand l1 l2 p q m mr pd qd :
      step (LHand (length l1)) (mk (p :: q) false (l1 ++ WIdle :: l2) m mr pd qd)
                               (mk q false (l1 ++ WGot p :: l2) m mr pd qd)
  | S_start l1 l2 p qu wd m mr pd qd :
      step (LStart (length l1)) (mk qu wd (l1 ++ WGot p :: l2) m mr pd qd)
                                (mk qu wd (l1 ++ WParsing p :: l2) m mr pd qd)
  | S_parse l1 l2 p qu wd m mr pd qd :
      step (LParse (length l1)) (mk qu wd (l1 ++ WParsing p :: l2) m mr pd qd)
                                (mk qu wd (l1 ++ after_parse p :: l2) m mr pd qd)
  | S_deliver l1 l2 f qu wd mr pd qd :
      step (LDeliver (length l1)) (mk qu wd (l1 ++ WHolding f :: l2) MRun mr pd qd)
                                  (mk qu wd (l1 ++ WIdle :: l2) (MAdding f) mr pd qd)
  | S_add_ok f qu wd w mr pd qd : add_ok f = true ->
      step LAdd (mk qu wd w (MAdding f) mr pd qd) (mk qu wd w MRun (f :: mr) pd qd)
  | S_add_err f qu wd w mr pd qd : add_ok f = false ->
      step LAdd (mk qu wd w (MAdding f) mr pd qd) (mk qu wd w MExitErr mr pd qd)
  | S_walker_done w m mr pd qd :
      step LWalkerDone (mk [] false w m mr pd qd) (mk [] true w m mr pd qd)
  | S_walker_cancel p q w m mr pd qd : sel = true ->
      gcancel (mk (p :: q) false w m mr pd qd) = true ->
      step LWalkerCancel (mk (p :: q) false w m mr pd qd) (mk q false w m mr pd qd)
  | S_paths_cancel qu w m mr qd :
      step LPathsCancel (mk qu true w m mr false qd) (mk qu true w m mr true qd)
  | S_worker_exit l1 l2 qu wd m mr qd :
      step (LWorkerExit (length l1)) (mk qu wd (l1 ++ WIdle :: l2) m mr true qd)
                                     (mk qu wd (l1 ++ WExitOk :: l2) m mr true qd)
  | S_worker_cancel l1 l2 f qu wd m mr pd qd : sel = true ->
      gcancel (mk qu wd (l1 ++ WHolding f :: l2) m mr pd qd) = true ->
      step (LWorkerCancel (length l1)) (mk qu wd (l1 ++ WHolding f :: l2) m mr pd qd)
                                       (mk qu wd (l1 ++ WExitOk :: l2) m mr pd qd)
  | S_parse_cancel qu wd w m mr pd : forallb w_exited w = true ->
      step LParseCancel (mk qu wd w m mr pd false) (mk qu wd w m mr pd true)
  | S_merger_exit qu wd w mr pd :
      step LMergerExit (mk qu wd w MRun mr pd true) (mk qu wd w MExitOk mr pd true).

  Ltac split_at E w' :=
    let l1 := fresh "l1" in let l2 := fresh "l2" in let E2 := fresh "E2" in
    apply set_nth_split with (w := w') in E as (l1 & l2 & -> & E2 & <-); rewrite ?E2.

  Lemma fire_step l s s' : fire l s = Some s' -> step l s s'.
  Proof.
    destruct s as [qu wd w m mr pd qd]. intros H.
    destruct l as [i|i|i|i| | | | |i|i| | ]; cbn in H.
    - destruct qu as [|p q]; [discriminate|].
      destruct (nth_error w i) as [[| | | | | ]|] eqn:E; try discriminate.
      destruct wd; [discriminate|]. injection H as <-.
      split_at E (WGot p). constructor.
    - destruct (nth_error w i) as [[|p|p|f| | ]|] eqn:E; try discriminate.
      injection H as <-. unfold set_w; cbn. split_at E (WParsing p). constructor.
    - destruct (nth_error w i) as [[|p|p|f| | ]|] eqn:E; try discriminate.
      injection H as <-. unfold set_w; cbn. split_at E (after_parse p). constructor.
    - destruct (nth_error w i) as [[|p|p|f| | ]|] eqn:E; try discriminate.
      destruct m; try discriminate. injection H as <-. split_at E WIdle. constructor.
    - destruct m as [|f| |]; try discriminate.
      destruct (add_ok f) eqn:A; injection H as <-; now constructor.
    - destruct qu; [|discriminate]. destruct wd; [discriminate|]. injection H as <-. constructor.
    - destruct qu as [|p q]; [discriminate|].
      destruct sel eqn:S; cbn in H; [|discriminate].
      destruct wd; cbn in H; [discriminate|].
      destruct (gcancel _) eqn:G; [|discriminate]. injection H as <-. now constructor.
    - destruct wd; cbn in H; [|discriminate]. destruct pd; cbn in H; [discriminate|].
      injection H as <-. constructor.
    - destruct (nth_error w i) as [[|p|p|f| | ]|] eqn:E; try discriminate.
      destruct pd; [|discriminate]. injection H as <-. unfold set_w; cbn. split_at E WExitOk. constructor.
    - destruct (nth_error w i) as [[|p|p|f| | ]|] eqn:E; try discriminate.
      destruct sel eqn:S; cbn in H; [|discriminate].
      destruct (gcancel _) eqn:G; [|discriminate]. injection H as <-. unfold set_w; cbn.
      pose proof E as E'. split_at E WExitOk. constructor; auto.
    - destruct (forallb w_exited w) eqn:F; cbn in H; [|discriminate].
      destruct qd; cbn in H; [discriminate|]. injection H as <-. now constructor.
    - destruct m; try discriminate. destruct qd; [|discriminate]. injection H as <-. constructor.
  Qed.

  Lemma step_fire l s s' : step l s s' -> fire l s = Some s'.
  Proof.
    intros H. destruct H; cbn;
      rewrite ?nth_error_mid; unfold set_w; cbn; rewrite ?set_nth_mid; auto.
    - now rewrite H.
    - now rewrite H.
    - rewrite H. cbn. now rewrite H0.
    - rewrite H. cbn. now rewrite H0.
    - now rewrite H.
  Qed.

  (* ---------------------------------------------------------- monotone facts *)
  Ltac norm :=
    unfold gcancel, terminal in *; cbn [queue walker_done ws mg merged paths_done parse_done] in *;
    rewrite ?existsb_app, ?forallb_app, ?flat_map_app, ?in_app_iff, ?wsum_app in *;
    cbn [existsb forallb flat_map w_err w_exited m_err m_exited wtoks mtoks In wsum wweight mweight b2n] in *.

  Lemma after_parse_err p : w_err (after_parse p) = true -> parse p = PErr.
  Proof. unfold MergeDir.after_parse. destruct (parse p); cbn; congruence. Qed.

  Lemma gcancel_mono l s s' : step l s s' -> gcancel s = true -> gcancel s' = true.
  Proof.
    intros H; destruct H; norm; intros G; auto;
      repeat match goal with
      | |- context [existsb w_err ?l] => destruct (existsb w_err l); cbn in *; auto
      | |- context [m_err ?m] => destruct (m_err m); cbn in *; auto
      end; try discriminate;
      destruct (w_err (after_parse p)); reflexivity.
  Qed.

  (* ---------------------------------------------------------- conservation, one step *)
  Ltac perm_count :=
    apply (Permutation_count_occ tok_dec); intro;
    repeat (rewrite ?count_occ_app; cbn [count_occ map app]);
    repeat match goal with |- context [tok_dec ?a ?x] => destruct (tok_dec a x) end; lia.

  Lemma total_step l s s' : step l s s' ->
    exists dd, Permutation (total s) (total s' ++ dd) /\ (gcancel s' = false -> dd = []).
  Proof.
    intros H; destruct H; unfold total; norm.
    - exists []. split; auto. perm_count.
    - exists []. split; auto. perm_count.
    - unfold MergeDir.after_parse, ptoks. destruct (parse p) eqn:P; cbn [wtoks].
      + exists []. split; auto. perm_count.
      + exists [TBad p]. split; [perm_count|].
        cbn [w_err]. rewrite orb_true_r. cbn. discriminate.
      + exists []. split; auto. perm_count.
    - exists []. split; auto. perm_count.
    - exists []. split; auto. perm_count.
    - exists [TFile f]. split; [perm_count|]. rewrite orb_true_r. discriminate.
    - exists []. split; auto. perm_count.
    - (* the walker drops the path at hand: only once the group context is canceled *)
      exists (ptoks p). split; [perm_count|]. intros G. rewrite G in H0. discriminate.
    - exists []. split; auto. perm_count.
    - exists []. split; auto. perm_count.
    - exists [TFile f]. split; [perm_count|]. norm. rewrite H0. discriminate.
    - exists []. split; auto. perm_count.
    - exists []. split; auto. perm_count.
  Qed.

  (* ---------------------------------------------------------- the invariant *)
  Definition Inv (paths : list N) (s : st) : Prop :=
    (exists d, Permutation (total s ++ d) (flat_map ptoks paths) /\ (gcancel s = false -> d = []))
    /\ (paths_done s = true -> walker_done s = true)
    /\ (walker_done s = true -> queue s = [] \/ gcancel s = true)
    /\ (parse_done s = true -> forallb w_exited (ws s) = true)
    /\ (In WExitOk (ws s) -> paths_done s = true \/ gcancel s = true)
    /\ (mg s = MExitOk -> parse_done s = true).

  Lemma flat_map_repeat_idle n : flat_map wtoks (repeat WIdle n) = [].
  Proof. induction n; cbn; auto. Qed.
  Lemma existsb_repeat_idle n : existsb w_err (repeat WIdle n) = false.
  Proof. induction n; cbn; auto. Qed.
  Lemma in_repeat_idle n w : In w (repeat WIdle n) -> w = WIdle.
  Proof. intros H. now apply repeat_spec in H. Qed.

  Lemma inv_init n paths : Inv paths (init n paths).
  Proof.
    unfold Inv, init, total, gcancel; cbn. rewrite flat_map_repeat_idle, existsb_repeat_idle. cbn.
    repeat split; try discriminate.
    - exists []. rewrite app_nil_r. auto.
    - intros H. apply in_repeat_idle in H. discriminate.
  Qed.

  Lemma in_exit_ok_after_parse p : after_parse p = WExitOk -> False.
  Proof. unfold MergeDir.after_parse. destruct (parse p); discriminate. Qed.

  Lemma inv_step paths l s s' : step l s s' -> Inv paths s -> Inv paths s'.
  Proof.
    intros H (I1 & I2 & I3 & I4 & I5 & I6).
    pose proof (gcancel_mono _ _ _ H) as GM.
    split.
    { destruct I1 as (d & P & Dn). destruct (total_step _ _ _ H) as (dd & P2 & Dd).
      exists (dd ++ d). split.
      - rewrite app_assoc. rewrite <- P2. exact P.
      - intros G. rewrite (Dd G). cbn. apply Dn.
        destruct (gcancel s) eqn:G0; auto. rewrite (GM eq_refl) in G. discriminate. }
    destruct H; cbn [queue walker_done ws mg merged paths_done parse_done] in *;
      rewrite ?in_app_iff, ?forallb_app in *; cbn [In forallb w_exited] in *;
      rewrite ?andb_false_r in *;
      (split; [intros Hp; try discriminate; auto|]);
      (split; [intros Hw; try discriminate;
               try (destruct (I3 Hw) as [?|G]; [try discriminate; auto | right; auto]); auto|]);
      (split; [intros Hq; try discriminate; try (specialize (I4 Hq); discriminate); auto|]);
      (split; [intros Hi;
               repeat match goal with Hx : _ \/ _ |- _ => destruct Hx end;
               try discriminate;
               try (exfalso; eapply in_exit_ok_after_parse; eassumption);
               try (destruct I5 as [?|G]; [tauto | auto | right; auto]); auto
              | intros Hm; try discriminate; auto]).
  Qed.
  (* ---------------------------------------------------------- every schedule *)
  Lemma inv_run paths sched : forall s s', Inv paths s -> run sched s = Some s' -> Inv paths s'.
  Proof.
    induction sched as [|l rest IH]; cbn; intros s s' I H.
    - injection H as <-. exact I.
    - destruct (fire l s) as [s1|] eqn:F; [|discriminate].
      eapply IH; [|exact H]. eapply inv_step; [apply fire_step; exact F|exact I].
  Qed.

  Lemma ws_length_step l s s' : step l s s' -> length (ws s') = length (ws s).
  Proof. intros H; destruct H; cbn; rewrite ?app_length; cbn; auto. Qed.

  Lemma ws_length_run sched : forall s s', run sched s = Some s' -> length (ws s') = length (ws s).
  Proof.
    induction sched as [|l rest IH]; cbn; intros s s' H.
    - now injection H as <-.
    - destruct (fire l s) as [s1|] eqn:F; [|discriminate].
      rewrite (IH _ _ H). apply (ws_length_step l). now apply fire_step.
  Qed.

  (* ---------------------------------------------------------- termination measure *)
  Lemma measure_step l s s' : step l s s' -> measure s' < measure s.
  Proof.
    intros H; destruct H; unfold measure; norm; cbn [length]; try lia.
    - unfold MergeDir.after_parse. destruct (parse p); cbn [wweight]; lia.
  Qed.

  Lemma measure_run sched : forall s s', run sched s = Some s' -> length sched + measure s' <= measure s.
  Proof.
    induction sched as [|l rest IH]; cbn [MergeDir.run length]; intros s s' H.
    - injection H as <-. lia.
    - destruct (fire l s) as [s1|] eqn:F; [|discriminate].
      specialize (IH _ _ H). apply fire_step, measure_step in F. lia.
  Qed.

  (* ---------------------------------------------------------- progress *)
  Lemma enabled_ex s l : fire l s <> None -> exists l', fire l' s <> None.
  Proof. eauto. Qed.

  Lemma progress paths s :
    Inv paths s -> ws s <> [] -> terminal s = false -> (sel = true \/ gcancel s = false) ->
    exists l, fire l s <> None.
  Proof.
    intros (I1 & I2 & I3 & I4 & I5 & I6) Hn Ht Hs.
    destruct s as [qu wd w m mr pd qd]; cbn [queue walker_done ws mg merged paths_done parse_done] in *.
    (* a worker that has not exited always has a move, or the merger has *)
    assert (W : forall l1 x l2, w = l1 ++ x :: l2 -> w_exited x = false ->
                (x = WIdle -> pd = false -> wd = false /\ qu <> []) ->
                exists l, fire l (mk qu wd w m mr pd qd) <> None).
    { intros l1 x l2 -> Hx Hidle.
      destruct x as [|p|p|f| | ]; try discriminate.
      - destruct pd eqn:Epd.
        + exists (LWorkerExit (length l1)). cbn. rewrite nth_error_mid. discriminate.
        + destruct (Hidle eq_refl eq_refl) as [-> Hq]. destruct qu as [|p q]; [congruence|].
          exists (LHand (length l1)). cbn. rewrite nth_error_mid. discriminate.
      - exists (LStart (length l1)). cbn. rewrite nth_error_mid. discriminate.
      - exists (LParse (length l1)). cbn. rewrite nth_error_mid. discriminate.
      - destruct m as [|g| |] eqn:Em.
        + exists (LDeliver (length l1)). cbn. rewrite nth_error_mid. discriminate.
        + exists LAdd. cbn. destruct (add_ok g); discriminate.
        + specialize (I4 (I6 eq_refl)). rewrite forallb_app in I4. cbn in I4.
          rewrite andb_false_r in I4. discriminate.
        + exists (LWorkerCancel (length l1)). cbn. rewrite nth_error_mid.
          destruct Hs as [->|G].
          * unfold gcancel. cbn. rewrite orb_true_r. discriminate.
          * unfold gcancel in G. cbn in G. rewrite orb_true_r in G. discriminate. }
    destruct wd eqn:Ewd.
    - destruct pd eqn:Epd.
      + destruct (forallb w_exited w) eqn:Ew.
        * destruct qd eqn:Eqd.
          -- destruct m as [|g| |].
             ++ exists LMergerExit. cbn. discriminate.
             ++ exists LAdd. cbn. destruct (add_ok g); discriminate.
             ++ unfold terminal in Ht. cbn in Ht. rewrite Ew in Ht. discriminate.
             ++ unfold terminal in Ht. cbn in Ht. rewrite Ew in Ht. discriminate.
          -- exists LParseCancel. cbn. rewrite Ew. discriminate.
        * destruct (forallb_false_split _ _ Ew) as (l1 & x & l2 & E & Hx).
          eapply W; eauto. intros _ ?. discriminate.
      + exists LPathsCancel. cbn. discriminate.
    - destruct qu as [|p q].
      + exists LWalkerDone. cbn. discriminate.
      + destruct (existsb w_err w || m_err m) eqn:G.
        * destruct Hs as [->|G']; [|unfold gcancel in G'; cbn in G'; congruence].
          exists LWalkerCancel. cbn. unfold gcancel. cbn. rewrite G. discriminate.
        * destruct w as [|x w']; [congruence|].
          assert (Hx : w_exited x = false).
          { destruct x; auto; try (cbn in G; discriminate).
            destruct I5 as [Hp|Hg]; [now left| |].
            + specialize (I2 Hp). discriminate.
            + unfold gcancel in Hg. cbn [ws mg] in Hg. congruence. }
          apply (W [] x w' eq_refl Hx). intros _ _. split; [auto|discriminate].
  Qed.

  (* ---------------------------------------------------------- results *)
  Lemma exited_no_toks w : forallb w_exited w = true -> flat_map wtoks w = [].
  Proof.
    induction w as [|x w IH]; cbn; auto. intros H. apply andb_prop in H as [Hx Hw].
    rewrite (IH Hw). destruct x; try discriminate; auto.
  Qed.

  Lemma count_map_TFile l f : count_occ tok_dec (map TFile l) (TFile f) = count_occ N.eq_dec l f.
  Proof.
    induction l as [|a l IH]; cbn; auto.
    destruct (tok_dec (TFile a) (TFile f)) as [E|E], (N.eq_dec a f) as [E'|E']; try congruence;
      rewrite IH; reflexivity.
  Qed.

  Lemma ptoks_files paths : (forall p, In p paths -> parse p <> PErr) ->
    flat_map ptoks paths = map TFile (files_of paths).
  Proof.
    unfold files_of. induction paths as [|p paths IH]; cbn [flat_map map]; auto. intros H.
    rewrite map_app, <- IH by (intros; apply H; now right). f_equal.
    unfold ptoks. specialize (H p (or_introl eq_refl)). destruct (parse p); cbn; congruence.
  Qed.

  Lemma perm_files m paths : Permutation (map TFile m) (flat_map ptoks paths) ->
    (forall p, In p paths -> parse p <> PErr) /\ Permutation m (files_of paths).
  Proof.
    intros P.
    assert (A : forall p, In p paths -> parse p <> PErr).
    { intros p Hp E.
      assert (Hin : In (TBad p) (flat_map ptoks paths)).
      { apply in_flat_map. exists p. split; auto. unfold ptoks. rewrite E. now left. }
      apply Permutation_sym in P. apply (Permutation_in _ P) in Hin.
      apply in_map_iff in Hin as (x & Hx & _). discriminate. }
    split; auto.
    rewrite (ptoks_files _ A) in P.
    apply (Permutation_count_occ N.eq_dec). intros f.
    rewrite <- !count_map_TFile. revert f.
    assert (Q := proj1 (Permutation_count_occ tok_dec _ _) P). intros f. apply Q.
  Qed.

  Lemma terminal_ok paths s m :
    Inv paths s -> terminal s = true -> result_of s = ROk m ->
    Permutation (map TFile m) (flat_map ptoks paths).
  Proof.
    intros (I1 & I2 & I3 & I4 & I5 & I6) Ht Hr.
    unfold result_of in Hr. destruct (gcancel s) eqn:G; [discriminate|]. injection Hr as <-.
    destruct I1 as (d & P & Dn). rewrite (Dn eq_refl), app_nil_r in P.
    unfold terminal in Ht. repeat (apply andb_prop in Ht as [Ht ?]).
    destruct (I3 Ht) as [Q|Q]; [|congruence].
    unfold total in P. rewrite Q, (exited_no_toks _ H1) in P. cbn in P.
    destruct (mg s); try discriminate; cbn in P; now rewrite app_nil_r in P.
  Qed.
End Facts.

(* ------------------------------------------------------------ theorems over schedules *)
Section Main.
  Variable sel : bool.
  Variable parse : N -> outcome.
  Variable add_ok : N -> bool.
  Variable n : nat.
  Variable paths : list N.

  Lemma reach_inv sched s : run sel parse add_ok sched (init n paths) = Some s -> Inv parse paths s.
  Proof. intros H. eapply inv_run; [apply inv_init|exact H]. Qed.

  (* conservation: in every reachable state nothing is duplicated or invented, and while
     no goroutine has failed nothing is lost *)
  Theorem conservation sched s : run sel parse add_ok sched (init n paths) = Some s ->
    exists d, Permutation (total parse s ++ d) (flat_map (ptoks parse) paths) /\ (gcancel s = false -> d = []).
  Proof. intros H. exact (proj1 (reach_inv _ _ H)). Qed.

  (* a run that returns Ok merged exactly the files MergeFiles would be given, and no
     accepted path failed to parse *)
  Theorem result_ok sched s m : run sel parse add_ok sched (init n paths) = Some s ->
    terminal s = true -> result_of s = ROk m ->
    Permutation m (files_of parse paths) /\ (forall p, In p paths -> parse p <> PErr).
  Proof.
    intros H Ht Hr. assert (P := terminal_ok parse paths s m (reach_inv _ _ H) Ht Hr).
    apply perm_files in P. tauto.
  Qed.

  Theorem result_err sched s p : run sel parse add_ok sched (init n paths) = Some s ->
    terminal s = true -> In p paths -> parse p = PErr -> result_of s = RErr.
  Proof.
    intros H Ht Hp E. destruct (result_of s) as [|m] eqn:R; auto.
    destruct (result_ok _ _ _ H Ht R) as [_ A]. now apply A in Hp.
  Qed.

  Theorem schedule_bound sched s : run sel parse add_ok sched (init n paths) = Some s ->
    length sched + measure s <= measure (init n paths).
  Proof. apply measure_run. Qed.

  Lemma measure_init : measure (init n paths) = 6 * length paths + n + 4.
  Proof.
    unfold measure, init; cbn.
    assert (E : wsum (repeat WIdle n) = n) by (induction n as [|k IH]; cbn; auto).
    rewrite E. lia.
  Qed.

  Lemma init_ws_nonempty : 1 <= n -> ws (init n paths) <> [].
  Proof. destruct n; cbn; [lia|discriminate]. Qed.

  Lemma reach_ws_nonempty sched s : 1 <= n -> run sel parse add_ok sched (init n paths) = Some s -> ws s <> [].
  Proof.
    intros Hn H. apply ws_length_run in H. cbn in H. rewrite repeat_length in H.
    destruct (ws s); cbn in H; [lia|discriminate].
  Qed.

  (* with the select-on-cancel sends: no reachable state is stuck, whatever fails *)
  Theorem progress_sel sched s : sel = true -> 1 <= n ->
    run sel parse add_ok sched (init n paths) = Some s -> terminal s = false ->
    exists l, fire sel parse add_ok l s <> None.
  Proof.
    intros Hs Hn H Ht. eapply progress; eauto using reach_inv, reach_ws_nonempty.
  Qed.

  (* error-free runs: never canceled, never stuck, with or without the selects *)
  Lemma no_err_step l s s' : (forall p, parse p <> PErr) -> (forall f, add_ok f = true) ->
    step sel parse add_ok l s s' -> gcancel s = false -> gcancel s' = false.
  Proof.
    intros Hp Ha H; destruct H; unfold gcancel; cbn [ws mg];
      rewrite ?existsb_app; cbn [existsb w_err m_err]; auto; try congruence.
    unfold after_parse. specialize (Hp p). destruct (parse p); cbn; auto. congruence.
  Qed.

  Lemma no_err_run sched : (forall p, parse p <> PErr) -> (forall f, add_ok f = true) ->
    forall s s', run sel parse add_ok sched s = Some s' -> gcancel s = false -> gcancel s' = false.
  Proof.
    intros Hp Ha. induction sched as [|l rest IH]; cbn; intros s s' H G.
    - now injection H as <-.
    - destruct (fire sel parse add_ok l s) as [s1|] eqn:F; [|discriminate].
      apply (IH _ _ H). apply fire_step in F. eapply no_err_step; eauto.
  Qed.

  Lemma gcancel_init : gcancel (init n paths) = false.
  Proof. unfold gcancel, init; cbn. now rewrite existsb_repeat_idle. Qed.

  Theorem progress_error_free sched s :
    (forall p, parse p <> PErr) -> (forall f, add_ok f = true) -> 1 <= n ->
    run sel parse add_ok sched (init n paths) = Some s ->
    (terminal s = false -> exists l, fire sel parse add_ok l s <> None) /\
    (terminal s = true -> exists m, result_of s = ROk m /\ Permutation m (files_of parse paths)).
  Proof.
    intros Hp Ha Hn H.
    assert (G : gcancel s = false) by (eapply no_err_run; eauto using gcancel_init).
    split.
    - intros Ht. eapply progress; eauto using reach_inv, reach_ws_nonempty.
    - intros Ht. exists (merged s). unfold result_of. rewrite G. split; auto.
      eapply result_ok; eauto. unfold result_of. now rewrite G.
  Qed.
End Main.

(* ------------------------------------------------------------ the protocol without the selects *)
Definition bad_parse (p : N) : outcome := PErr.
Definition stuck_state : st := mk [2%N] false [WExitErr] MExitOk [] false true.

Lemma unfixed_deadlock :
  run false bad_parse (fun _ => true) [LHand 0; LStart 0; LParse 0; LParseCancel; LMergerExit] (init 1 [1%N; 2%N]) = Some stuck_state
  /\ terminal stuck_state = false
  /\ forall l, fire false bad_parse (fun _ => true) l stuck_state = None.
Proof.
  split; [reflexivity|]. split; [reflexivity|].
  intros l. destruct l as [i|i|i|i| | | | |i|i| | ]; try reflexivity;
    match goal with i : nat |- _ => destruct i as [|[|?]] end; reflexivity.
Qed.

(* non-vacuity: a complete error-free schedule with two workers and three files, one skipped *)
Definition demo_parse (p : N) : outcome := if (p =? 2)%N then PSkip else POk (p + 100)%N.
Definition demo_sched : list label :=
  [LHand 0; LHand 1; LStart 1; LStart 0; LParse 1; LParse 0; LDeliver 0; LHand 0; LAdd; LStart 0;
   LParse 0; LDeliver 0; LAdd; LWalkerDone; LPathsCancel; LWorkerExit 1; LWorkerExit 0; LParseCancel; LMergerExit].

Example demo_run :
  option_map (fun s => (terminal s, result_of s))
             (run false demo_parse (fun _ => true) demo_sched (init 2 [1; 2; 3]%N)) = Some (true, ROk [103; 101]%N).
Proof. vm_compute. reflexivity. Qed.

(* with the selects the formerly stuck state has a move *)
Example fixed_not_stuck :
  fire true bad_parse (fun _ => true) LWalkerCancel stuck_state <> None.
Proof. vm_compute. discriminate. Qed.

(* Reader-writer lock machine (C18): definitions only.

   Threads call operations on a shared store.  Every operation has a lock mode
   (R, W or NoLock) and a body: a list of micro-steps, each either a read of the
   store into thread-local scratch or a write of the store.  The machine
   interleaves call / acquire / micro-step / return events of any number of
   threads in any order the lock allows.  A ghost store evolves by the
   sequential specification (= the whole body run atomically) at each acquire
   and a ghost log records (thread, op, arg, specified result) at that instant.

   Proofs are in RWLockFacts.v. *)
From Coq Require Import List Arith Bool.
Import ListNotations.

Inductive mode := R | W | NoLock.

Definition mode_eqb (a b : mode) : bool :=
  match a, b with R, R | W, W | NoLock, NoLock => true | _, _ => false end.

Section RW.
Variables (St Arg Res Loc Op : Type).

Inductive mstep :=
| MRead (f : St -> Loc -> Loc)
| MWrite (f : St -> Loc -> St * Loc).

Definition apply_m (m : mstep) (s : St) (l : Loc) : St * Loc :=
  match m with
  | MRead f => (s, f s l)
  | MWrite f => f s l
  end.

Definition is_read (m : mstep) : bool := match m with MRead _ => true | MWrite _ => false end.

Record body := { b_init : Arg -> Loc; b_steps : list mstep; b_fin : Loc -> Res }.

Variable bodies : Op -> body.
Variable modes : Op -> mode.

Fixpoint run_steps (ss : list mstep) (s : St) (l : Loc) : St * Loc :=
  match ss with
  | [] => (s, l)
  | f :: ss' => let '(s', l') := apply_m f s l in run_steps ss' s' l'
  end.

(* sequential specification: the whole body, atomically *)
Definition spec (o : Op) (a : Arg) (s : St) : St * Res :=
  let b := bodies o in
  let '(s', l') := run_steps (b_steps b) s (b_init b a) in (s', b_fin b l').

(* lock discipline: every op takes the lock, and an op whose body contains a
   write micro-step takes it in W mode *)
Definition discipline : Prop :=
  forall o, modes o = W \/ (modes o = R /\ forallb is_read (b_steps (bodies o)) = true).

(* thread states; [exp] is the ghost result logged at acquire *)
Inductive tstate :=
| Idle
| Called (o : Op) (a : Arg)
| InSec (o : Op) (rest : list mstep) (l : Loc) (exp : Res).

Definition tid := nat.
Definition entry := (tid * Op * Arg * Res)%type.
Record gstate := { store : St; ghost : St; glog : list entry; th : tid -> tstate }.

Definition upd {A} (f : tid -> A) (t : tid) (v : A) : tid -> A :=
  fun t' => if Nat.eqb t' t then v else f t'.

Definition insec (ts : tstate) : Prop := match ts with InSec _ _ _ _ => True | _ => False end.
Definition holds (ts : tstate) : Prop :=
  match ts with InSec o _ _ _ => modes o <> NoLock | _ => False end.
Definition holdsW (ts : tstate) : Prop :=
  match ts with InSec o _ _ _ => modes o = W | _ => False end.

(* sync.RWMutex: Lock waits for all holders, RLock waits for a writer, no lock call never waits *)
Definition can_acq (g : gstate) (m : mode) : Prop :=
  match m with
  | W => forall t', ~ holds (th g t')
  | R => forall t', ~ holdsW (th g t')
  | NoLock => True
  end.

Inductive label := LCall (o : Op) (a : Arg) | LAcq | LStep | LRet (r : Res).

Definition enter (g : gstate) (t : tid) (o : Op) (a : Arg) : gstate :=
  {| store := store g;
     ghost := fst (spec o a (ghost g));
     glog := glog g ++ [(t, o, a, snd (spec o a (ghost g)))];
     th := upd (th g) t (InSec o (b_steps (bodies o)) (b_init (bodies o) a) (snd (spec o a (ghost g)))) |}.

Inductive step : gstate -> tid -> label -> gstate -> Prop :=
| s_call g t o a : th g t = Idle ->
    step g t (LCall o a)
      {| store := store g; ghost := ghost g; glog := glog g; th := upd (th g) t (Called o a) |}
| s_acq g t o a : th g t = Called o a -> can_acq g (modes o) ->
    step g t LAcq (enter g t o a)
| s_step g t o f rest l e : th g t = InSec o (f :: rest) l e ->
    step g t LStep
      {| store := fst (apply_m f (store g) l); ghost := ghost g; glog := glog g;
         th := upd (th g) t (InSec o rest (snd (apply_m f (store g) l)) e) |}
| s_ret g t o l e : th g t = InSec o [] l e ->
    step g t (LRet (b_fin (bodies o) l))
      {| store := store g; ghost := ghost g; glog := glog g; th := upd (th g) t Idle |}.

Definition trace := list (tid * label).

(* a run = any finite schedule the machine allows *)
Inductive run : gstate -> trace -> gstate -> Prop :=
| run_nil g : run g [] g
| run_cons g t lb g1 tr g2 : step g t lb g1 -> run g1 tr g2 -> run g ((t, lb) :: tr) g2.

Definition init (s0 : St) : gstate :=
  {| store := s0; ghost := s0; glog := []; th := fun _ => Idle |}.

(* ------------------------------------------------------------------ *)
(* The atomic reference machine: an operation takes effect in ONE step (the
   linearization point, label LAcq) strictly after its call and before its
   return, and returns the result computed there. *)
Inductive astate :=
| AIdle
| APend (o : Op) (a : Arg)
| ADone (o : Op) (r : Res).

Record ag := { a_store : St; a_log : list entry; a_th : tid -> astate }.

Inductive astep : ag -> tid -> label -> ag -> Prop :=
| a_call g t o a : a_th g t = AIdle ->
    astep g t (LCall o a) {| a_store := a_store g; a_log := a_log g; a_th := upd (a_th g) t (APend o a) |}
| a_lin g t o a : a_th g t = APend o a ->
    astep g t LAcq
      {| a_store := fst (spec o a (a_store g));
         a_log := a_log g ++ [(t, o, a, snd (spec o a (a_store g)))];
         a_th := upd (a_th g) t (ADone o (snd (spec o a (a_store g)))) |}
| a_ret g t o r : a_th g t = ADone o r ->
    astep g t (LRet r) {| a_store := a_store g; a_log := a_log g; a_th := upd (a_th g) t AIdle |}.

Inductive arun : ag -> trace -> ag -> Prop :=
| arun_nil g : arun g [] g
| arun_cons g t lb g1 tr g2 : astep g t lb g1 -> arun g1 tr g2 -> arun g ((t, lb) :: tr) g2.

Definition ainit (s0 : St) : ag := {| a_store := s0; a_log := []; a_th := fun _ => AIdle |}.

Definition is_lstep (e : tid * label) : bool := match snd e with LStep => true | _ => false end.
(* the externally visible trace: internal micro-steps erased *)
Definition erase (tr : trace) : trace := filter (fun e => negb (is_lstep e)) tr.

Definition abs_t (ts : tstate) : astate :=
  match ts with
  | Idle => AIdle
  | Called o a => APend o a
  | InSec o _ _ e => ADone o e
  end.

Definition sim (g : gstate) (a : ag) : Prop :=
  a_store a = ghost g /\ a_log a = glog g /\ forall t, a_th a t = abs_t (th g t).

(* a log is a legal sequential history from s0 ending in s: every entry's
   result is the specification's result on the state the previous entries produce *)
Inductive legal (s0 : St) : list entry -> St -> Prop :=
| legal_nil : legal s0 [] s0
| legal_snoc log s t o a :
    legal s0 log s -> legal s0 (log ++ [(t, o, a, snd (spec o a s))]) (fst (spec o a s)).

Definition entry_tid (e : entry) : tid := let '(t, _, _, _) := e in t.
(* the most recent log entry of thread t *)
Definition last_entry (t : tid) (log : list entry) : option entry :=
  find (fun e => Nat.eqb (entry_tid e) t) (rev log).

(* order of linearization points in a trace, and the per-thread protocol
   call -> acquire -> return -> call ... *)
Definition is_acq (e : tid * label) : bool := match snd e with LAcq => true | _ => false end.
Definition acq_tids (tr : trace) : list tid := map fst (filter is_acq tr).
Definition tproj (t : tid) (tr : trace) : list label :=
  map snd (filter (fun e => Nat.eqb (fst e) t) tr).
Fixpoint proto (ph : nat) (ls : list label) : bool :=
  match ls with
  | [] => true
  | l :: ls' =>
      match ph, l with
      | 0, LCall _ _ => proto 1 ls'
      | 1, LAcq => proto 2 ls'
      | 2, LRet _ => proto 0 ls'
      | _, _ => false
      end
  end.
Definition aphase (s : astate) : nat :=
  match s with AIdle => 0 | APend _ _ => 1 | ADone _ _ => 2 end.

(* ------------------------------------------------------------------ *)
(* Executable scheduler, used to exhibit concrete runs by computation. *)
Inductive action := ACall (o : Op) (a : Arg) | AAcq | AStep | ARet.

Definition holdsb (ts : tstate) : bool :=
  match ts with InSec o _ _ _ => negb (mode_eqb (modes o) NoLock) | _ => false end.
Definition holdsWb (ts : tstate) : bool :=
  match ts with InSec o _ _ _ => mode_eqb (modes o) W | _ => false end.

(* [n] bounds the thread ids in use: threads >= n are idle *)
Definition can_acqb (n : nat) (g : gstate) (m : mode) : bool :=
  match m with
  | W => forallb (fun t' => negb (holdsb (th g t'))) (seq 0 n)
  | R => forallb (fun t' => negb (holdsWb (th g t'))) (seq 0 n)
  | NoLock => true
  end.

Definition exec (n : nat) (g : gstate) (t : tid) (act : action) : option (label * gstate) :=
  if negb (Nat.ltb t n) then None else
  match act, th g t with
  | ACall o a, Idle =>
      Some (LCall o a, {| store := store g; ghost := ghost g; glog := glog g; th := upd (th g) t (Called o a) |})
  | AAcq, Called o a =>
      if can_acqb n g (modes o) then Some (LAcq, enter g t o a) else None
  | AStep, InSec o (f :: rest) l e =>
      Some (LStep, {| store := fst (apply_m f (store g) l); ghost := ghost g; glog := glog g;
                      th := upd (th g) t (InSec o rest (snd (apply_m f (store g) l)) e) |})
  | ARet, InSec o [] l e =>
      Some (LRet (b_fin (bodies o) l),
            {| store := store g; ghost := ghost g; glog := glog g; th := upd (th g) t Idle |})
  | _, _ => None
  end.

Fixpoint exec_sched (n : nat) (g : gstate) (sch : list (tid * action)) : option (trace * gstate) :=
  match sch with
  | [] => Some ([], g)
  | (t, act) :: sch' =>
      match exec n g t act with
      | None => None
      | Some (lb, g1) =>
          match exec_sched n g1 sch' with
          | None => None
          | Some (tr, g2) => Some ((t, lb) :: tr, g2)
          end
      end
  end.

Definition bounded (n : nat) (g : gstate) : Prop := forall t, n <= t -> th g t = Idle.

End RW.

Arguments apply_m {St Loc} m s l.
Arguments is_read {St Loc} m.
Arguments b_init {St Arg Res Loc} b a.
Arguments b_steps {St Arg Res Loc} b.
Arguments b_fin {St Arg Res Loc} b l.
Arguments run_steps {St Loc} ss s l.
Arguments spec {St Arg Res Loc Op} bodies o a s.
Arguments discipline {St Arg Res Loc Op} bodies modes.
Arguments store {St Arg Res Loc Op} g.
Arguments ghost {St Arg Res Loc Op} g.
Arguments glog {St Arg Res Loc Op} g.
Arguments th {St Arg Res Loc Op} g t.
Arguments insec {St Arg Res Loc Op} ts.
Arguments holds {St Arg Res Loc Op} modes ts.
Arguments holdsW {St Arg Res Loc Op} modes ts.
Arguments can_acq {St Arg Res Loc Op} modes g m.
Arguments enter {St Arg Res Loc Op} bodies g t o a.
Arguments step {St Arg Res Loc Op} bodies modes g t lb g'.
Arguments run {St Arg Res Loc Op} bodies modes g tr g'.
Arguments init {St Arg Res Loc Op} s0.
Arguments a_store {St Arg Res Op} a.
Arguments a_log {St Arg Res Op} a.
Arguments a_th {St Arg Res Op} a t.
Arguments astep {St Arg Res Loc Op} bodies a t lb a'.
Arguments arun {St Arg Res Loc Op} bodies a tr a'.
Arguments ainit {St Arg Res Op} s0.
Arguments is_lstep {Arg Res Op} e.
Arguments erase {Arg Res Op} tr.
Arguments abs_t {St Arg Res Loc Op} ts.
Arguments sim {St Arg Res Loc Op} g a.
Arguments legal {St Arg Res Loc Op} bodies s0 log s.
Arguments entry_tid {Arg Res Op} e.
Arguments last_entry {Arg Res Op} t log.
Arguments is_acq {Arg Res Op} e.
Arguments acq_tids {Arg Res Op} tr.
Arguments tproj {Arg Res Op} t tr.
Arguments proto {Arg Res Op} ph ls.
Arguments aphase {Arg Res Op} s.
Arguments holdsb {St Arg Res Loc Op} modes ts.
Arguments holdsWb {St Arg Res Loc Op} modes ts.
Arguments can_acqb {St Arg Res Loc Op} modes n g m.
Arguments exec {St Arg Res Loc Op} bodies modes n g t act.
Arguments exec_sched {St Arg Res Loc Op} bodies modes n g sch.
Arguments bounded {St Arg Res Loc Op} n g.
Arguments MRead {St Loc} f.
Arguments MWrite {St Loc} f.
Arguments Idle {St Arg Res Loc Op}.
Arguments Called {St Arg Res Loc Op} o a.
Arguments InSec {St Arg Res Loc Op} o rest l exp.
Arguments LCall {Arg Res Op} o a.
Arguments LAcq {Arg Res Op}.
Arguments LStep {Arg Res Op}.
Arguments LRet {Arg Res Op} r.
Arguments ACall {Arg Op} o a.
Arguments AAcq {Arg Op}.
Arguments AStep {Arg Op}.
Arguments ARet {Arg Op}.
Arguments AIdle {Arg Res Op}.
Arguments APend {Arg Res Op} o a.
Arguments ADone {Arg Res Op} o r.

(* C17 — the HTTP server as a store of *ach.File pointers.

   Executable definitions only.  Three machines over the same requests:

   [cstep]  the code as it is: repositoryInMemory.files maps an ID to a POINTER, the heap
            maps pointers to the file object.  File objects are symbolic TERMS over library
            calls (what was parsed, which mutating library calls were applied to that
            object since, in order).  Handlers mutate the shared object (File.Create in
            contents/build/flatten/segment/balance, AddBatch, batch removal) and
            BalanceFile stores the SAME pointer under a second ID.
   [mstep]  a plain map ID -> term with value semantics (no pointers), same mutations.
   [istep]  the ideal map of the property text: read endpoints do not change the map.

   Everything the server cannot know without running the library on the file (did
   Flatten succeed, is the credit half empty, is the batch ID already present, did the
   batch body decode) labels the request as a boolean, so theorems quantify over every
   possible library behaviour; the correspondence run checks the labels against the real
   library on independent copies. *)
From Coq Require Import List NArith Bool.
Import ListNotations.
Open Scope N_scope.

(* file IDs: chosen by the client (URL or JSON body) or drawn by base.ID() *)
Inductive id := Client (n : N) | Gen (n : N).

Definition id_eqb (a b : id) : bool :=
  match a, b with
  | Client x, Client y => x =? y
  | Gen x, Gen y => x =? y
  | _, _ => false
  end.

Inductive fmt := Text | Json.
Inductive le := LF | CRLF.

(* bodies, validate-option sets, offsets and batch IDs are indices into pools of the harness *)
Definition body := N.
Definition opts := N.
Definition offs := N.
Definition bid := N.

Inductive term :=
| Parsed (f : fmt) (b : body) (o : opts)   (* decodeCreateFileRequest: Reader.Read / FileFromJSONWith (NewFile if nil), SetValidation o *)
| ParsedBody (f : fmt) (b : body)          (* decodeSegmentFileRequest *)
| WithID (t : term) (i : id)               (* File.ID := i *)
| Created (t : term)                       (* the object after File.Create() ran on it (whether or not it returned an error) *)
| FlatSrc (t : term)                       (* the object after the body of service.FlattenBatches ran on it: Create, then (if that succeeded) FlattenBatches with it as receiver *)
| SegSrc (t : term)                        (* the object after the body of service.SegmentFile ran on it: Create, then SegmentFile *)
| WithBatch (t : term) (b : body)          (* service.CreateBatch + repository.StoreBatch *)
| WithoutBatch (t : term) (k : bid)        (* repository.DeleteBatch *)
| Flattened (t : term) (i : id)            (* result of File.FlattenBatches, its random ID named i *)
| CreditOf (t : term) (i : id)             (* first result of File.SegmentFile *)
| DebitOf (t : term) (i : id)              (* second result of File.SegmentFile *)
| Balanced (t : term) (o : offs) (i : id). (* the object after the body of service.BalanceFile ran on it; ID := i on success *)

Inductive request :=
| RCreate (f : fmt) (b : body) (o : opts) (url : option N) (bodyid : option N)
| RGet (i : id)
| RList
| RContents (i : id) (l : le)
| RValidate (i : id) (o : opts)
| RBuild (i : id)
| RDelete (i : id)
| RAddBatch (i : id) (b : body) (decodes dup : bool)
| RGetBatch (i : id) (k : bid)
| RListBatches (i : id)
| RDeleteBatch (i : id) (k : bid)
| RFlatten (i : id) (ok : bool)
| RSegment (i : id) (ok hc hd : bool)
| RSegmentBody (f : fmt) (b : body) (ok hc hd : bool)
| RBalance (i : id) (o : offs) (ok : bool).

Inductive cls := Found | NotFound | Refused | BadBody.

(* what the response body is, as a library computation on the stored term BEFORE the request *)
Inductive payload :=
| PNone
| PFile (t : term)                      (* JSON of the file *)
| PFiles (l : list (id * term))         (* GET /files *)
| PText (l : le) (t : term)             (* Create, then Writer with line ending l *)
| PValid (t : term) (o : opts)          (* ValidateWith o *)
| PBuild (t : term)                     (* Create, then JSON *)
| PFlat (t : term) (i : id)             (* Create, FlattenBatches *)
| PSeg (t : term) (ic idd : id)         (* Create, SegmentFile *)
| PBal (t : term) (o : offs) (i : id)   (* BalanceFile *)
| PAddBatch (t : term) (b : body)
| PBatch (t : term) (k : bid)
| PBatches (t : term)
| PNoBatches                            (* GET batches of an unknown file: 200 {"batches":null} *)
| PDelBatch (t : term) (k : bid).

(* status 0: decided by the library result of the payload (2xx iff no error); otherwise exact *)
Inductive resp := Resp (c : cls) (status : N) (p : payload).

Definition rcls (r : resp) : cls := match r with Resp c _ _ => c end.
Definition rpay (r : resp) : payload := match r with Resp _ _ p => p end.

(* ---------------------------------------------------------------- association lists *)

Section Assoc.
  Context {A : Type}.
  Fixpoint lookup (l : list (id * A)) (i : id) : option A :=
    match l with
    | [] => None
    | (j, a) :: r => if id_eqb j i then Some a else lookup r i
    end.
  Fixpoint update (l : list (id * A)) (i : id) (a : A) : list (id * A) :=
    match l with
    | [] => []
    | (j, b) :: r => if id_eqb j i then (j, a) :: r else (j, b) :: update r i a
    end.
  Fixpoint remove (l : list (id * A)) (i : id) : list (id * A) :=
    match l with
    | [] => []
    | (j, b) :: r => if id_eqb j i then remove r i else (j, b) :: remove r i
    end.
End Assoc.

(* ---------------------------------------------------------------- ID resolution of create *)

(* decodeCreateFileRequest / createFileEndpoint: URL id wins, then the JSON body's own id,
   else base.ID() *)
Definition resolve (url bodyid : option N) (n : N) : id * N :=
  match url with
  | Some u => (Client u, n)
  | None => match bodyid with
            | Some u => (Client u, n)
            | None => (Gen n, n + 1)
            end
  end.

(* status codes of "no such file" as the routes answer today *)
Definition nf_get := 404.
Definition nf_contents := 500.
Definition nf_validate := 400.
Definition nf_build := 500.
Definition nf_notfound := 404.
Definition nf_delbatch := 500.

(* ---------------------------------------------------------------- the code: pointers *)

Record cstate := CState { store : list (id * N); heap : N -> term; nid : N; nptr : N }.

Definition hset (h : N -> term) (p : N) (t : term) : N -> term :=
  fun q => if q =? p then t else h q.

Definition cinit : cstate := CState [] (fun _ => Parsed Text 0 0) 0 0.

Definition abs (c : cstate) : list (id * term) :=
  map (fun ip => (fst ip, heap c (snd ip))) (store c).

Definition set_heap (c : cstate) (p : N) (t : term) : cstate :=
  CState (store c) (hset (heap c) p t) (nid c) (nptr c).

(* StoreFile of a freshly allocated object under a fresh ID *)
Definition alloc (c : cstate) (t : N -> term) : cstate :=
  CState ((Gen (nid c), nptr c) :: store c) (hset (heap c) (nptr c) (t (nid c))) (nid c + 1) (nptr c + 1).

Definition alloc_if (b : bool) (c : cstate) (t : N -> term) : cstate := if b then alloc c t else c.

Definition cstep (c : cstate) (r : request) : cstate * resp :=
  match r with
  | RCreate f b o url bodyid =>
      let (i, n') := resolve url bodyid (nid c) in
      let t := WithID (Parsed f b o) i in
      match lookup (store c) i with
      | Some _ => (CState (store c) (heap c) n' (nptr c), Resp Refused 0 (PFile t))
      | None => (CState ((i, nptr c) :: store c) (hset (heap c) (nptr c) t) n' (nptr c + 1), Resp Found 0 (PFile t))
      end
  | RGet i =>
      match lookup (store c) i with
      | None => (c, Resp NotFound nf_get PNone)
      | Some p => (c, Resp Found 200 (PFile (heap c p)))
      end
  | RList => (c, Resp Found 200 (PFiles (abs c)))
  | RContents i l =>
      match lookup (store c) i with
      | None => (c, Resp NotFound nf_contents PNone)
      | Some p => let t := heap c p in (set_heap c p (Created t), Resp Found 0 (PText l t))
      end
  | RValidate i o =>
      match lookup (store c) i with
      | None => (c, Resp NotFound nf_validate PNone)
      | Some p => (c, Resp Found 0 (PValid (heap c p) o))
      end
  | RBuild i =>
      match lookup (store c) i with
      | None => (c, Resp NotFound nf_build PNone)
      | Some p => let t := heap c p in (set_heap c p (Created t), Resp Found 0 (PBuild t))
      end
  | RDelete i => (CState (remove (store c) i) (heap c) (nid c) (nptr c), Resp Found 200 PNone)
  | RAddBatch i b decodes dup =>
      if negb decodes then (c, Resp BadBody 0 PNone) else
      match lookup (store c) i with
      | None => (c, Resp NotFound nf_notfound PNone)
      | Some p => let t := heap c p in
                  if dup then (c, Resp Refused 400 (PAddBatch t b))
                  else (set_heap c p (WithBatch t b), Resp Found 200 (PAddBatch t b))
      end
  | RGetBatch i k =>
      match lookup (store c) i with
      | None => (c, Resp NotFound nf_notfound PNone)
      | Some p => (c, Resp Found 0 (PBatch (heap c p) k))
      end
  | RListBatches i =>
      match lookup (store c) i with
      | None => (c, Resp Found 200 PNoBatches)
      | Some p => (c, Resp Found 200 (PBatches (heap c p)))
      end
  | RDeleteBatch i k =>
      match lookup (store c) i with
      | None => (c, Resp NotFound nf_delbatch PNone)
      | Some p => let t := heap c p in (set_heap c p (WithoutBatch t k), Resp Found 0 (PDelBatch t k))
      end
  | RFlatten i ok =>
      match lookup (store c) i with
      | None => (c, Resp NotFound nf_notfound PNone)
      | Some p => let t := heap c p in
                  let c1 := set_heap c p (FlatSrc t) in
                  (alloc_if ok c1 (fun n => Flattened (Created t) (Gen n)), Resp Found 0 (PFlat t (Gen (nid c))))
      end
  | RSegment i ok hc hd =>
      match lookup (store c) i with
      | None => (c, Resp NotFound nf_notfound PNone)
      | Some p => let t := heap c p in
                  let c1 := set_heap c p (SegSrc t) in
                  let c2 := alloc_if (ok && hc) c1 (fun n => CreditOf (Created t) (Gen n)) in
                  let c3 := alloc_if (ok && hd) c2 (fun n => DebitOf (Created t) (Gen n)) in
                  (c3, Resp Found 0 (PSeg t (Gen (nid c1)) (Gen (nid c2))))
      end
  | RSegmentBody f b ok hc hd =>
      let t := ParsedBody f b in
      let c2 := alloc_if (ok && hc) c (fun n => CreditOf (Created t) (Gen n)) in
      let c3 := alloc_if (ok && hd) c2 (fun n => DebitOf (Created t) (Gen n)) in
      (c3, Resp Found 0 (PSeg t (Gen (nid c)) (Gen (nid c2))))
  | RBalance i o ok =>
      match lookup (store c) i with
      | None => (c, Resp NotFound nf_notfound PNone)
      | Some p => let t := heap c p in
                  let t' := Balanced t o (Gen (nid c)) in
                  if ok
                  then (CState ((Gen (nid c), p) :: store c) (hset (heap c) p t') (nid c + 1) (nptr c),
                        Resp Found 0 (PBal t o (Gen (nid c))))
                  else (set_heap c p t', Resp Found 0 (PBal t o (Gen (nid c))))
      end
  end.

(* ---------------------------------------------------------------- a plain map of terms *)

Record mstate := MState { mfiles : list (id * term); mnid : N }.

Definition minit : mstate := MState [] 0.

Definition absm (c : cstate) : mstate := MState (abs c) (nid c).

Definition mset (m : mstate) (i : id) (t : term) : mstate := MState (update (mfiles m) i t) (mnid m).

Definition malloc (m : mstate) (t : N -> term) : mstate :=
  MState ((Gen (mnid m), t (mnid m)) :: mfiles m) (mnid m + 1).

Definition malloc_if (b : bool) (m : mstate) (t : N -> term) : mstate := if b then malloc m t else m.

(* [ideal = false]: the mutations of the code as it is (read endpoints leave [Created t],
   balance leaves the balanced object under the old ID too).  [ideal = true]: the store of
   the property text, where only create, delete, build and the batch endpoints change
   what an ID maps to. *)
Definition ret (ideal : bool) (k : term -> term) (t : term) : term := if ideal then t else k t.
Definition ret2 (ideal : bool) (t t' : term) : term := if ideal then t else t'.

Definition gstep (ideal : bool) (m : mstate) (r : request) : mstate * resp :=
  match r with
  | RCreate f b o url bodyid =>
      let (i, n') := resolve url bodyid (mnid m) in
      let t := WithID (Parsed f b o) i in
      match lookup (mfiles m) i with
      | Some _ => (MState (mfiles m) n', Resp Refused 0 (PFile t))
      | None => (MState ((i, t) :: mfiles m) n', Resp Found 0 (PFile t))
      end
  | RGet i =>
      match lookup (mfiles m) i with
      | None => (m, Resp NotFound nf_get PNone)
      | Some t => (m, Resp Found 200 (PFile t))
      end
  | RList => (m, Resp Found 200 (PFiles (mfiles m)))
  | RContents i l =>
      match lookup (mfiles m) i with
      | None => (m, Resp NotFound nf_contents PNone)
      | Some t => (mset m i (ret ideal Created t), Resp Found 0 (PText l t))
      end
  | RValidate i o =>
      match lookup (mfiles m) i with
      | None => (m, Resp NotFound nf_validate PNone)
      | Some t => (m, Resp Found 0 (PValid t o))
      end
  | RBuild i =>
      match lookup (mfiles m) i with
      | None => (m, Resp NotFound nf_build PNone)
      | Some t => (mset m i (Created t), Resp Found 0 (PBuild t))
      end
  | RDelete i => (MState (remove (mfiles m) i) (mnid m), Resp Found 200 PNone)
  | RAddBatch i b decodes dup =>
      if negb decodes then (m, Resp BadBody 0 PNone) else
      match lookup (mfiles m) i with
      | None => (m, Resp NotFound nf_notfound PNone)
      | Some t => if dup then (m, Resp Refused 400 (PAddBatch t b))
                  else (mset m i (WithBatch t b), Resp Found 200 (PAddBatch t b))
      end
  | RGetBatch i k =>
      match lookup (mfiles m) i with
      | None => (m, Resp NotFound nf_notfound PNone)
      | Some t => (m, Resp Found 0 (PBatch t k))
      end
  | RListBatches i =>
      match lookup (mfiles m) i with
      | None => (m, Resp Found 200 PNoBatches)
      | Some t => (m, Resp Found 200 (PBatches t))
      end
  | RDeleteBatch i k =>
      match lookup (mfiles m) i with
      | None => (m, Resp NotFound nf_delbatch PNone)
      | Some t => (mset m i (WithoutBatch t k), Resp Found 0 (PDelBatch t k))
      end
  | RFlatten i ok =>
      match lookup (mfiles m) i with
      | None => (m, Resp NotFound nf_notfound PNone)
      | Some t => let m1 := mset m i (ret ideal FlatSrc t) in
                  (malloc_if ok m1 (fun n => Flattened (Created t) (Gen n)), Resp Found 0 (PFlat t (Gen (mnid m))))
      end
  | RSegment i ok hc hd =>
      match lookup (mfiles m) i with
      | None => (m, Resp NotFound nf_notfound PNone)
      | Some t => let m1 := mset m i (ret ideal SegSrc t) in
                  let m2 := malloc_if (ok && hc) m1 (fun n => CreditOf (Created t) (Gen n)) in
                  let m3 := malloc_if (ok && hd) m2 (fun n => DebitOf (Created t) (Gen n)) in
                  (m3, Resp Found 0 (PSeg t (Gen (mnid m1)) (Gen (mnid m2))))
      end
  | RSegmentBody f b ok hc hd =>
      let t := ParsedBody f b in
      let m2 := malloc_if (ok && hc) m (fun n => CreditOf (Created t) (Gen n)) in
      let m3 := malloc_if (ok && hd) m2 (fun n => DebitOf (Created t) (Gen n)) in
      (m3, Resp Found 0 (PSeg t (Gen (mnid m)) (Gen (mnid m2))))
  | RBalance i o ok =>
      match lookup (mfiles m) i with
      | None => (m, Resp NotFound nf_notfound PNone)
      | Some t => let t' := Balanced t o (Gen (mnid m)) in
                  if ok
                  then (MState ((Gen (mnid m), t') :: update (mfiles m) i (ret2 ideal t t')) (mnid m + 1),
                        Resp Found 0 (PBal t o (Gen (mnid m))))
                  else (mset m i (ret2 ideal t t'), Resp Found 0 (PBal t o (Gen (mnid m))))
      end
  end.

Definition mstep := gstep false.
Definition istep := gstep true.

(* ---------------------------------------------------------------- runs *)

Fixpoint crun (c : cstate) (rs : list request) : cstate * list resp :=
  match rs with
  | [] => (c, [])
  | r :: rs' => let (c', a) := cstep c r in let (c'', l) := crun c' rs' in (c'', a :: l)
  end.

Fixpoint grun (ideal : bool) (m : mstate) (rs : list request) : mstate * list resp :=
  match rs with
  | [] => (m, [])
  | r :: rs' => let (m', a) := gstep ideal m r in let (m'', l) := grun ideal m' rs' in (m'', a :: l)
  end.

(* requests that the property text treats as reads *)
Definition readonly (r : request) : bool :=
  match r with
  | RGet _ | RList | RContents _ _ | RValidate _ _ | RBuild _ | RGetBatch _ _ | RListBatches _
  | RFlatten _ _ | RSegment _ _ _ _ | RSegmentBody _ _ _ _ _ => true
  | _ => false
  end.

Definition is_balance_ok (r : request) : bool :=
  match r with RBalance _ _ true => true | _ => false end.

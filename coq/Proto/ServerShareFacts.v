(* C17, phase 4 — proofs about the pointer-graph store of ServerShare.v. *)
From Coq Require Import List ZArith NArith Bool Lia.
Import ListNotations.
From ACH Require Import Server ServerFacts ServerLib ServerShare.
From ACH Require Offsets.
Open Scope N_scope.

(* ---------------------------------------------------------------- heap primitives *)

Lemma hupd_eq {A} (h : N -> A) p a : hupd h p a p = a.
Proof. unfold hupd. now rewrite N.eqb_refl. Qed.

Lemma hupd_neq {A} (h : N -> A) p a q : q <> p -> hupd h p a q = h q.
Proof. unfold hupd. intro H. destruct (N.eqb_spec q p); congruence. Qed.

Lemma hupd_cases {A} (h : N -> A) p a q : (q = p /\ hupd h p a q = a) \/ (q <> p /\ hupd h p a q = h q).
Proof. destruct (N.eq_dec q p) as [E|E]; [left; subst; split; auto using hupd_eq | right; split; auto using hupd_neq]. Qed.

(* ---------------------------------------------------------------- the separation invariant *)

Record sinv (s : sstate) : Prop := mk_sinv {
  inv_store : forall i p, In (i, p) (ss_store s) -> p < ss_nf s;
  inv_gen : forall k p, In (Gen k, p) (ss_store s) -> k < ss_nid s;
  inv_file : forall p, p < ss_nf s ->
             fo_fam (ss_file s p) < ss_nfam s /\
             forall q, In q (all_bats (ss_file s p)) -> q < ss_nb s /\ bc_fam (ss_bat s q) = fo_fam (ss_file s p);
  inv_bat : forall q, q < ss_nb s ->
            forall e, In e (bc_ents (ss_bat s q)) -> e < ss_ne s /\ ec_fam (ss_ent s e) = bc_fam (ss_bat s q) }.

Lemma sinv_init : sinv sinit.
Proof. split; simpl; intros; try contradiction; lia. Qed.

(* what a file of family f reaches is of family f *)
Lemma reach_bat s p q : sinv s -> p < ss_nf s -> In q (all_bats (ss_file s p)) ->
  q < ss_nb s /\ bc_fam (ss_bat s q) = fo_fam (ss_file s p).
Proof. intros I P Q. now apply (inv_file s I p P). Qed.

Lemma reach_ent s q e : sinv s -> q < ss_nb s -> In e (bc_ents (ss_bat s q)) ->
  e < ss_ne s /\ ec_fam (ss_ent s e) = bc_fam (ss_bat s q).
Proof. intros I Q E. now apply (inv_bat s I q Q). Qed.

(* ---------------------------------------------------------------- one family at work *)

(* [fstep f s0 s]: s came from s0 by heap writes into cells of family f, allocations, and
   changes of the ID map *)
Record fstep (f : N) (s0 s : sstate) : Prop := mk_fstep {
  fs_inv : sinv s;
  fs_nfam : ss_nfam s0 <= ss_nfam s;
  fs_nf : ss_nf s0 <= ss_nf s;
  fs_nb : ss_nb s0 <= ss_nb s;
  fs_ne : ss_ne s0 <= ss_ne s;
  fs_file : forall p, p < ss_nf s0 -> fo_fam (ss_file s0 p) <> f -> ss_file s p = ss_file s0 p;
  fs_bat : forall q, q < ss_nb s0 -> bc_fam (ss_bat s0 q) <> f -> ss_bat s q = ss_bat s0 q;
  fs_ent : forall e, e < ss_ne s0 -> ec_fam (ss_ent s0 e) <> f -> ss_ent s e = ss_ent s0 e;
  fs_ffam : forall p, p < ss_nf s0 -> fo_fam (ss_file s p) = fo_fam (ss_file s0 p);
  fs_bfam : forall q, q < ss_nb s0 -> bc_fam (ss_bat s q) = bc_fam (ss_bat s0 q);
  fs_efam : forall e, e < ss_ne s0 -> ec_fam (ss_ent s e) = ec_fam (ss_ent s0 e) }.

Lemma fstep_refl f s : sinv s -> fstep f s s.
Proof. intro I. split; auto; lia. Qed.

Lemma fstep_trans f s0 s1 s2 : fstep f s0 s1 -> fstep f s1 s2 -> fstep f s0 s2.
Proof.
  intros A B. destruct A, B. split; try congruence; try lia; auto.
  - intros p P F. rewrite fs_file1, fs_file0; auto; try lia. rewrite fs_ffam0; auto.
  - intros q Q F. rewrite fs_bat1, fs_bat0; auto; try lia. rewrite fs_bfam0; auto.
  - intros e E F. rewrite fs_ent1, fs_ent0; auto; try lia. rewrite fs_efam0; auto.
  - intros p P. rewrite fs_ffam1, fs_ffam0; auto; lia.
  - intros q Q. rewrite fs_bfam1, fs_bfam0; auto; lia.
  - intros e E. rewrite fs_efam1, fs_efam0; auto; lia.
Qed.

(* -- writes into cells of the family *)

Lemma sinv_set_ent s e c : sinv s -> e < ss_ne s -> ec_fam c = ec_fam (ss_ent s e) -> sinv (set_ent s e c).
Proof.
  intros I E F. destruct I as [I1 I2 I3 I4]. split; simpl; auto.
  intros q Q e' E'. destruct (I4 q Q e' E') as [L X]. split; [assumption|].
  destruct (hupd_cases (ss_ent s) e c e') as [[-> ->]|[_ ->]]; congruence.
Qed.

Lemma fstep_set_ent f s e c : sinv s -> e < ss_ne s -> ec_fam (ss_ent s e) = f -> ec_fam c = f ->
  fstep f s (set_ent s e c).
Proof.
  intros I E F C. split; simpl; auto; try lia.
  - apply sinv_set_ent; auto. congruence.
  - intros e' E' N. apply hupd_neq. congruence.
  - intros e' E'. destruct (hupd_cases (ss_ent s) e c e') as [[-> ->]|[_ ->]]; congruence.
Qed.

Lemma sinv_set_bat s q b : sinv s -> q < ss_nb s -> bc_fam b = bc_fam (ss_bat s q) ->
  (forall e, In e (bc_ents b) -> e < ss_ne s /\ ec_fam (ss_ent s e) = bc_fam b) -> sinv (set_bat s q b).
Proof.
  intros I Q F E. destruct I as [I1 I2 I3 I4]. split; simpl; auto.
  - intros p P. destruct (I3 p P) as [A B]. split; [assumption|]. intros q' Q'. destruct (B q' Q') as [L X].
    split; [assumption|]. destruct (hupd_cases (ss_bat s) q b q') as [[-> ->]|[_ ->]]; congruence.
  - intros q' Q' e' E'. destruct (hupd_cases (ss_bat s) q b q') as [[-> R]|[_ R]]; rewrite R in *; auto.
Qed.

Lemma fstep_set_bat f s q b : sinv s -> q < ss_nb s -> bc_fam (ss_bat s q) = f -> bc_fam b = f ->
  (forall e, In e (bc_ents b) -> e < ss_ne s /\ ec_fam (ss_ent s e) = f) -> fstep f s (set_bat s q b).
Proof.
  intros I Q F B E. split; simpl; auto; try lia.
  - apply sinv_set_bat; auto; [congruence|]. intros e X. rewrite B. auto.
  - intros q' Q' N. apply hupd_neq. congruence.
  - intros q' Q'. destruct (hupd_cases (ss_bat s) q b q') as [[-> ->]|[_ ->]]; congruence.
Qed.

Lemma sinv_set_file s p g : sinv s -> p < ss_nf s -> fo_fam g < ss_nfam s ->
  (forall q, In q (all_bats g) -> q < ss_nb s /\ bc_fam (ss_bat s q) = fo_fam g) -> sinv (set_file s p g).
Proof.
  intros I P F B. destruct I as [I1 I2 I3 I4]. split; simpl; auto.
  intros p' P'. destruct (hupd_cases (ss_file s) p g p') as [[-> R]|[_ R]]; rewrite R; auto.
Qed.

Lemma fstep_set_file f s p g : sinv s -> p < ss_nf s -> fo_fam (ss_file s p) = f -> fo_fam g = f ->
  (forall q, In q (all_bats g) -> q < ss_nb s /\ bc_fam (ss_bat s q) = f) -> fstep f s (set_file s p g).
Proof.
  intros I P F G B. split; simpl; auto; try lia.
  - apply sinv_set_file; auto.
    + rewrite G, <- F. now apply (inv_file s I p P).
    + intros q X. rewrite G. auto.
  - intros p' P' N. apply hupd_neq. congruence.
  - intros p' P'. destruct (hupd_cases (ss_file s) p g p') as [[-> ->]|[_ ->]]; congruence.
Qed.

(* -- allocations *)

Lemma sinv_new_ent s c : sinv s -> sinv (fst (new_ent s c)).
Proof.
  intros [I1 I2 I3 I4]. split; simpl; auto.
  intros q Q e E. destruct (I4 q Q e E) as [L X]. split; [lia|]. rewrite hupd_neq; [assumption|lia].
Qed.

Lemma fstep_new_ent f s c : sinv s -> fstep f s (fst (new_ent s c)).
Proof.
  intro I. split; simpl; auto; try lia.
  - now apply sinv_new_ent.
  - intros e E _. apply hupd_neq. lia.
  - intros e E. rewrite hupd_neq; [reflexivity|lia].
Qed.

Lemma new_ent_id s c : snd (new_ent s c) = ss_ne s /\ ss_ne (fst (new_ent s c)) = ss_ne s + 1 /\
  ss_ent (fst (new_ent s c)) (ss_ne s) = c.
Proof. simpl. repeat split. apply hupd_eq. Qed.

Lemma sinv_new_bat s b : sinv s ->
  (forall e, In e (bc_ents b) -> e < ss_ne s /\ ec_fam (ss_ent s e) = bc_fam b) -> sinv (fst (new_bat s b)).
Proof.
  intros [I1 I2 I3 I4] E. split; simpl; auto.
  - intros p P. destruct (I3 p P) as [A B]. split; [assumption|]. intros q Q. destruct (B q Q) as [L X].
    split; [lia|]. rewrite hupd_neq; [assumption|lia].
  - intros q Q e' E'. destruct (hupd_cases (ss_bat s) (ss_nb s) b q) as [[-> R]|[N R]]; rewrite R in *; auto.
    apply I4; [lia|assumption].
Qed.

Lemma fstep_new_bat f s b : sinv s ->
  (forall e, In e (bc_ents b) -> e < ss_ne s /\ ec_fam (ss_ent s e) = bc_fam b) -> fstep f s (fst (new_bat s b)).
Proof.
  intros I E. split; simpl; auto; try lia.
  - now apply sinv_new_bat.
  - intros q Q _. apply hupd_neq. lia.
  - intros q Q. rewrite hupd_neq; [reflexivity|lia].
Qed.

Lemma sinv_new_file s g : sinv s -> fo_fam g < ss_nfam s ->
  (forall q, In q (all_bats g) -> q < ss_nb s /\ bc_fam (ss_bat s q) = fo_fam g) -> sinv (fst (new_file s g)).
Proof.
  intros [I1 I2 I3 I4] F B. split; simpl; auto.
  - intros i p X. specialize (I1 i p X). lia.
  - intros p P. destruct (hupd_cases (ss_file s) (ss_nf s) g p) as [[-> R]|[N R]]; rewrite R; auto.
    apply I3. lia.
Qed.

Lemma fstep_new_file f s g : sinv s -> fo_fam g < ss_nfam s ->
  (forall q, In q (all_bats g) -> q < ss_nb s /\ bc_fam (ss_bat s q) = fo_fam g) -> fstep f s (fst (new_file s g)).
Proof.
  intros I F B. split; simpl; auto; try lia.
  - now apply sinv_new_file.
  - intros p P _. apply hupd_neq. lia.
  - intros p P. rewrite hupd_neq; [reflexivity|lia].
Qed.

(* -- carrying "is a cell of the family" along *)

Definition bats_in (f : N) (s : sstate) (qs : list N) : Prop :=
  forall q, In q qs -> q < ss_nb s /\ bc_fam (ss_bat s q) = f.
Definition ents_in (f : N) (s : sstate) (es : list N) : Prop :=
  forall e, In e es -> e < ss_ne s /\ ec_fam (ss_ent s e) = f.
Definition file_in (f : N) (s : sstate) (p : N) : Prop := p < ss_nf s /\ fo_fam (ss_file s p) = f.

Lemma bats_in_step f g s s' qs : fstep g s s' -> bats_in f s qs -> bats_in f s' qs.
Proof. intros S B q Q. destruct (B q Q) as [L X]. split; [pose proof (fs_nb _ _ _ S); lia|]. now rewrite (fs_bfam _ _ _ S). Qed.

Lemma ents_in_step f g s s' es : fstep g s s' -> ents_in f s es -> ents_in f s' es.
Proof. intros S B e E. destruct (B e E) as [L X]. split; [pose proof (fs_ne _ _ _ S); lia|]. now rewrite (fs_efam _ _ _ S). Qed.

Lemma file_in_step f g s s' p : fstep g s s' -> file_in f s p -> file_in f s' p.
Proof. intros S [L X]. split; [pose proof (fs_nf _ _ _ S); lia|]. now rewrite (fs_ffam _ _ _ S). Qed.

Lemma file_bats_in f s p : sinv s -> file_in f s p -> bats_in f s (all_bats (ss_file s p)).
Proof. intros I [P F] q Q. destruct (reach_bat s p q I P Q). split; congruence. Qed.

Lemma bat_ents_in f s q : sinv s -> q < ss_nb s -> bc_fam (ss_bat s q) = f -> ents_in f s (bc_ents (ss_bat s q)).
Proof. intros I Q F e E. destruct (reach_ent s q e I Q E). split; congruence. Qed.

Lemma bats_in_app f s a b : bats_in f s a -> bats_in f s b -> bats_in f s (a ++ b).
Proof. intros A B q Q. apply in_app_or in Q. destruct Q; auto. Qed.

Lemma bats_in_incl f s a b : incl a b -> bats_in f s b -> bats_in f s a.
Proof. intros H B q Q. auto. Qed.

Lemma ents_in_incl f s a b : incl a b -> ents_in f s b -> ents_in f s a.
Proof. intros H B q Q. auto. Qed.

(* ---------------------------------------------------------------- File.Create *)

Lemma fstep_renum f : forall qs s seq, sinv s -> bats_in f s qs -> fstep f s (renum s seq qs).
Proof.
  induction qs as [|q r IH]; intros s seq I B; simpl; [now apply fstep_refl|].
  destruct (B q (or_introl eq_refl)) as [Q F].
  assert (S1 : fstep f s (if (bc_num (ss_bat s q) <=? 1)%Z then set_bat s q (bset_num (ss_bat s q) seq) else s)).
  { destruct (bc_num (ss_bat s q) <=? 1)%Z; [|now apply fstep_refl].
    apply fstep_set_bat; auto. simpl. now apply bat_ents_in. }
  eapply fstep_trans; [exact S1|]. apply IH; [apply (fs_inv _ _ _ S1)|].
  eapply bats_in_step; [exact S1|]. intros q' Q'. apply B. now right.
Qed.

Lemma fstep_renum_adv f : forall qs s seq, sinv s -> bats_in f s qs -> fstep f s (fst (renum_adv s seq qs)).
Proof.
  induction qs as [|q r IH]; intros s seq I B; simpl; [now apply fstep_refl|].
  destruct (B q (or_introl eq_refl)) as [Q F].
  destruct (bc_adv (ss_bat s q)); [|now apply fstep_refl].
  assert (S1 : fstep f s (if (bc_num (ss_bat s q) <=? 1)%Z then set_bat s q (bset_hnum (ss_bat s q) seq) else s)).
  { destruct (bc_num (ss_bat s q) <=? 1)%Z; [|now apply fstep_refl].
    apply fstep_set_bat; auto. simpl. now apply bat_ents_in. }
  eapply fstep_trans; [exact S1|]. apply IH; [apply (fs_inv _ _ _ S1)|].
  eapply bats_in_step; [exact S1|]. intros q' Q'. apply B. now right.
Qed.

Lemma renum_file : forall qs s seq, ss_file (renum s seq qs) = ss_file s.
Proof.
  induction qs as [|q r IH]; intros s seq; simpl; [reflexivity|].
  rewrite IH. now destruct (bc_num (ss_bat s q) <=? 1)%Z.
Qed.

Lemma fstep_create f s p : sinv s -> file_in f s p -> fstep f s (fst (s_create s p)).
Proof.
  intros I P. unfold s_create.
  destruct (negb (co_skip (fo_opts (ss_file s p))) && negb (co_nohdr (fo_opts (ss_file s p))) && negb (fo_hdr_ok (ss_file s p)));
    [now apply fstep_refl|].
  destruct (negb (co_skip (fo_opts (ss_file s p))) && negb (co_zero (fo_opts (ss_file s p))) && is_nil (all_bats (ss_file s p)));
    [now apply fstep_refl|].
  pose proof (file_bats_in f s p I P) as B.
  destruct (existsb (fun q => bc_adv (ss_bat s q)) (fo_bats (ss_file s p))).
  - destruct (fo_iats (ss_file s p)); [|now apply fstep_refl].
    apply fstep_renum_adv; auto. eapply bats_in_incl; [|exact B]. unfold all_bats. apply incl_appl, incl_refl.
  - simpl. set (s1 := renum s 1 (all_bats (ss_file s p))).
    assert (S1 : fstep f s s1) by (now apply fstep_renum).
    eapply fstep_trans; [exact S1|].
    pose proof (file_in_step f f s s1 p S1 P) as P1.
    destruct P1 as [P1 F1].
    apply fstep_set_file; [apply (fs_inv _ _ _ S1)|exact P1|exact F1|simpl; exact F1|].
    unfold s1 at 1. rewrite renum_file. unfold all_bats at 1. simpl. fold (all_bats (ss_file s p)).
    eapply bats_in_step; [exact S1|exact B].
Qed.

(* ---------------------------------------------------------------- Batch.build *)

Lemma retrace_cell_fam odfi keep seq c : ec_fam (retrace_cell odfi keep seq c) = ec_fam c.
Proof. unfold retrace_cell. now destruct (keep || (Offsets.trace_odfi (ec_trace c) =? odfi)%Z). Qed.

Lemma fstep_retrace f odfi keep : forall reach es s seq, sinv s -> ents_in f s es ->
  fstep f s (retrace_cells s odfi keep seq reach es).
Proof.
  induction reach as [|k IH]; intros es s seq I E; simpl; [now apply fstep_refl|].
  destruct es as [|e r]; [now apply fstep_refl|].
  destruct (E e (or_introl eq_refl)) as [L F].
  assert (S1 : fstep f s (set_ent s e (retrace_cell odfi keep seq (ss_ent s e)))).
  { apply fstep_set_ent; auto. now rewrite retrace_cell_fam. }
  eapply fstep_trans; [exact S1|]. apply IH; [apply (fs_inv _ _ _ S1)|].
  eapply ents_in_step; [exact S1|]. intros e' X. apply E. now right.
Qed.

Lemma fstep_build f s q reach : sinv s -> q < ss_nb s -> bc_fam (ss_bat s q) = f -> fstep f s (s_build s q reach).
Proof.
  intros I Q F. unfold s_build. destruct (bc_hdr_ok (ss_bat s q)); [|now apply fstep_refl].
  apply fstep_retrace; auto. now apply bat_ents_in.
Qed.

Lemma fstep_reset f : forall es s, sinv s -> ents_in f s es -> fstep f s (reset_traces s es).
Proof.
  induction es as [|e r IH]; intros s I E; simpl; [now apply fstep_refl|].
  destruct (E e (or_introl eq_refl)) as [L F].
  assert (S1 : fstep f s (set_ent s e (eset_trace (ss_ent s e) 0%Z))) by (apply fstep_set_ent; auto).
  eapply fstep_trans; [exact S1|]. apply IH; [apply (fs_inv _ _ _ S1)|].
  eapply ents_in_step; [exact S1|]. intros e' X. apply E. now right.
Qed.

(* ---------------------------------------------------------------- the ID map *)

Lemma fstep_set_store f s l n : sinv s ->
  (forall i p, In (i, p) l -> p < ss_nf s) -> (forall k p, In (Gen k, p) l -> k < n) -> fstep f s (set_store s l n).
Proof.
  intros I A B. split; simpl; auto; try lia.
  destruct I as [I1 I2 I3 I4]. split; simpl; auto.
Qed.

(* ---------------------------------------------------------------- decoded bodies *)

Lemma new_ents_cons s g t r :
  new_ents s g (t :: r) =
  (fst (new_ents (fst (new_ent s (mkec g t))) g r), ss_ne s :: snd (new_ents (fst (new_ent s (mkec g t))) g r)).
Proof. simpl. now destruct (new_ents _ g r). Qed.

Lemma fstep_new_ents f g : forall ts s, sinv s ->
  fstep f s (fst (new_ents s g ts)) /\ ents_in g (fst (new_ents s g ts)) (snd (new_ents s g ts)).
Proof.
  induction ts as [|t r IH]; intros s I.
  - simpl. split; [now apply fstep_refl|]. intros e [].
  - rewrite new_ents_cons. cbn [fst snd].
    assert (S1 : fstep f s (fst (new_ent s (mkec g t)))) by now apply fstep_new_ent.
    destruct (IH _ (fs_inv _ _ _ S1)) as [S2 E2].
    split; [eapply fstep_trans; eassumption|].
    intros e' [<-|X]; [|now apply E2].
    apply (ents_in_step g f _ _ [ss_ne s] S2); [|now left].
    intros e' [<-|[]]. simpl. split; [lia|]. now rewrite hupd_eq.
Qed.

Lemma fstep_new_pbatch f g s iat b : sinv s ->
  fstep f s (fst (new_pbatch s g iat b)) /\ bats_in g (fst (new_pbatch s g iat b)) [snd (new_pbatch s g iat b)].
Proof.
  intro I. unfold new_pbatch.
  destruct (fstep_new_ents f g (pb_traces b) s I) as [S1 E1].
  destruct (new_ents s g (pb_traces b)) as [s1 es]. simpl in *.
  set (c := mkbc g iat (pb_adv b) (pb_hdr_ok b) (pb_odfi b) (pb_keep b) (pb_svc b) (pb_num b) es (pb_ctl b)).
  assert (S2 : fstep f s1 (fst (new_bat s1 c))) by (apply fstep_new_bat; [apply (fs_inv _ _ _ S1)|exact E1]).
  split; [eapply fstep_trans; eassumption|].
  intros q [<-|[]]. simpl. split; [lia|]. now rewrite hupd_eq.
Qed.

Lemma fstep_new_pbatches f g iat : forall bs s, sinv s ->
  fstep f s (fst (new_pbatches s g iat bs)) /\ bats_in g (fst (new_pbatches s g iat bs)) (snd (new_pbatches s g iat bs)).
Proof.
  induction bs as [|b r IH]; intros s I; simpl.
  - split; [now apply fstep_refl|]. intros q [].
  - destruct (fstep_new_pbatch f g s iat b I) as [S1 B1].
    destruct (new_pbatch s g iat b) as [s1 q]. simpl in *.
    destruct (IH s1 (fs_inv _ _ _ S1)) as [S2 B2].
    destruct (new_pbatches s1 g iat r) as [s2 qs]. simpl in *.
    split; [eapply fstep_trans; eassumption|].
    intros q' [<-|X]; [|now apply B2]. eapply bats_in_step; [exact S2|exact B1|now left].
Qed.

Lemma fstep_new_pfile f g s i pf : sinv s -> g < ss_nfam s ->
  fstep f s (fst (new_pfile s g i pf)) /\ file_in g (fst (new_pfile s g i pf)) (snd (new_pfile s g i pf)) /\
  ss_nf s <= snd (new_pfile s g i pf).
Proof.
  intros I G. unfold new_pfile.
  destruct (fstep_new_pbatches f g false (pf_bats pf) s I) as [S1 B1].
  destruct (new_pbatches s g false (pf_bats pf)) as [s1 bs]. simpl in *.
  destruct (fstep_new_pbatches f g true (pf_iats pf) s1 (fs_inv _ _ _ S1)) as [S2 B2].
  destruct (new_pbatches s1 g true (pf_iats pf)) as [s2 js]. simpl in *.
  set (o := mkfo g i (pf_opts pf) (pf_keep pf) (pf_hdr_ok pf) bs js (pf_ctl pf)).
  assert (S3 : fstep f s2 (fst (new_file s2 o))).
  { apply fstep_new_file; [apply (fs_inv _ _ _ S2)| |].
    - simpl. pose proof (fs_nfam _ _ _ S2). pose proof (fs_nfam _ _ _ S1). lia.
    - apply bats_in_app; [eapply bats_in_step; eassumption|exact B2]. }
  split; [eapply fstep_trans; [eapply fstep_trans; eassumption|exact S3]|].
  unfold file_in, new_file. cbn [fst snd ss_nf ss_file].
  split; [split; [lia|now rewrite hupd_eq]|].
  pose proof (fs_nf _ _ _ S1). pose proof (fs_nf _ _ _ S2). lia.
Qed.

Lemma sinv_new_fam s : sinv s -> sinv (fst (new_fam s)).
Proof.
  intros [I1 I2 I3 I4]. split; simpl; auto.
  intros p P. destruct (I3 p P) as [A B]. split; [lia|exact B].
Qed.

Lemma fstep_new_fam f s : sinv s -> fstep f s (fst (new_fam s)).
Proof. intro I. split; simpl; auto; try lia. now apply sinv_new_fam. Qed.

(* ---------------------------------------------------------------- references *)

Lemma somes_in {A B} (g : A -> option B) (P : B -> Prop) l :
  (forall a b, In a l -> g a = Some b -> P b) -> forall b, In b (somes (map g l)) -> P b.
Proof.
  induction l as [|a r IH]; simpl; intros H b X; [contradiction|].
  destruct (g a) as [b'|] eqn:E.
  - destruct X as [<-|X]; [eapply H; eauto|]. apply IH; auto. intros; eapply H; eauto.
  - apply IH; auto. intros; eapply H; eauto.
Qed.

Lemma picks_incl {A} (l : list A) js : incl (picks l js) l.
Proof.
  unfold picks. intros b X. revert b X.
  apply (somes_in (nth_error l) (fun b => In b l)). intros a b _ E. eapply nth_error_In; eauto.
Qed.

Lemma bat_at_in f s p k q : sinv s -> file_in f s p -> bat_at s p k = Some q ->
  q < ss_nb s /\ bc_fam (ss_bat s q) = f.
Proof. intros I P E. apply (file_bats_in f s p I P). eapply nth_error_In; eauto. Qed.

Lemma ent_at_in f s p kj e : sinv s -> file_in f s p -> ent_at s p kj = Some e ->
  e < ss_ne s /\ ec_fam (ss_ent s e) = f.
Proof.
  intros I P E. unfold ent_at in E. destruct (bat_at s p (fst kj)) as [q|] eqn:B; [|discriminate].
  destruct (bat_at_in f s p _ q I P B) as [Q F].
  apply (bat_ents_in f s q I Q F). eapply nth_error_In; eauto.
Qed.

Lemma fstep_apply_write f p s w : sinv s -> file_in f s p -> fstep f s (apply_write p s w).
Proof.
  intros I P. destruct w as [k j t|k n cn]; simpl.
  - destruct (ent_at s p (k, j)) as [e|] eqn:E; [|now apply fstep_refl].
    destruct (ent_at_in f s p _ e I P E). apply fstep_set_ent; auto.
  - destruct (bat_at s p k) as [q|] eqn:E; [|now apply fstep_refl].
    destruct (bat_at_in f s p _ q I P E). apply fstep_set_bat; auto. simpl. now apply bat_ents_in.
Qed.

Lemma fstep_apply_writes f p : forall ws s, sinv s -> file_in f s p -> fstep f s (apply_writes s p ws).
Proof.
  unfold apply_writes. induction ws as [|w r IH]; intros s I P; simpl; [now apply fstep_refl|].
  pose proof (fstep_apply_write f p s w I P) as S1.
  eapply fstep_trans; [exact S1|]. apply IH; [apply (fs_inv _ _ _ S1)|eapply file_in_step; eauto].
Qed.

(* ---------------------------------------------------------------- FlattenBatches *)

Lemma flat_group_ok f p g s bs js :
  sinv s -> file_in f s p -> bats_in f s bs -> bats_in f s js ->
  let r := flat_group p (s, (bs, js)) g in
  fstep f s (fst r) /\ bats_in f (fst r) (fst (snd r)) /\ bats_in f (fst r) (snd (snd r)).
Proof.
  intros I P B J. unfold flat_group.
  destruct (somes (map (bat_at s p) (g_srcs g))) as [|q0 qs] eqn:SR; cbn zeta.
  - simpl. split; [now apply fstep_refl|]. split; assumption.
  - set (es := somes (map (ent_at s p) (g_refs g))).
    assert (E : ents_in f s es).
    { intros e X. revert e X. apply somes_in. intros a e _ Y. eapply ent_at_in; eauto. }
    set (c := mkbc _ _ _ _ _ _ _ _ es _).
    assert (F : bc_fam c = f) by apply P.
    assert (S1 : fstep f s (fst (new_bat s c))) by (apply fstep_new_bat; auto; now rewrite F).
    destruct (new_bat s c) as [s1 q] eqn:NB. unfold new_bat in NB. inversion NB. subst q. clear NB.
    cbn [fst] in S1.
    assert (Q1 : ss_nb s < ss_nb s1) by (subst s1; simpl; lia).
    assert (F1 : bc_fam (ss_bat s1 (ss_nb s)) = f) by (subst s1; simpl; now rewrite hupd_eq).
    assert (S2 : fstep f s1 (s_build s1 (ss_nb s) (length es))) by (apply fstep_build; auto; apply (fs_inv _ _ _ S1)).
    assert (S : fstep f s (s_build s1 (ss_nb s) (length es))) by (eapply fstep_trans; eauto).
    assert (N : bats_in f (s_build s1 (ss_nb s) (length es)) [ss_nb s]).
    { eapply bats_in_step; [exact S2|]. intros q [<-|[]]. split; assumption. }
    rewrite H0.
    assert (B' : bats_in f (s_build s1 (ss_nb s) (length es)) bs) by (eapply bats_in_step; [exact S|exact B]).
    assert (J' : bats_in f (s_build s1 (ss_nb s) (length es)) js) by (eapply bats_in_step; [exact S|exact J]).
    destruct (bc_iat (ss_bat s q0)); cbn [fst snd]; (split; [exact S|]); split; auto using bats_in_app.
Qed.

Lemma fold_flat_ok f p : forall gs s bs js,
  sinv s -> file_in f s p -> bats_in f s bs -> bats_in f s js ->
  let r := fold_left (flat_group p) gs (s, (bs, js)) in
  fstep f s (fst r) /\ bats_in f (fst r) (fst (snd r)) /\ bats_in f (fst r) (snd (snd r)).
Proof.
  induction gs as [|g r IH]; intros s bs js I P B J; cbn [fold_left].
  - cbn [fst snd]. split; [now apply fstep_refl|]. split; assumption.
  - destruct (flat_group_ok f p g s bs js I P B J) as [S1 [B1 J1]].
    destruct (flat_group p (s, (bs, js)) g) as [s1 [bs1 js1]]. cbn [fst snd] in *.
    destruct (IH s1 bs1 js1 (fs_inv _ _ _ S1) (file_in_step _ _ _ _ _ S1 P) B1 J1) as [S2 [B2 J2]].
    split; [eapply fstep_trans; eauto|]. split; assumption.
Qed.

(* a derived file object enters the ID map under a fresh random ID *)
Lemma fstep_store_new f s g : sinv s -> fo_fam g = f -> f < ss_nfam s -> bats_in f s (all_bats g) ->
  let s1 := fst (new_file s g) in
  let s2 := fst (s_create s1 (ss_nf s)) in
  fstep f s (set_store s2 ((Gen (ss_nid s2), ss_nf s) :: ss_store s2) (ss_nid s2 + 1)).
Proof.
  intros I G F B s1 s2.
  assert (S1 : fstep f s s1).
  { apply fstep_new_file; auto; [now rewrite G|]. now rewrite G. }
  assert (P1 : file_in f s1 (ss_nf s)).
  { subst s1. unfold file_in, new_file. cbn [fst ss_nf ss_file]. split; [lia|now rewrite hupd_eq]. }
  assert (S2 : fstep f s1 s2) by (apply fstep_create; auto; apply (fs_inv _ _ _ S1)).
  eapply fstep_trans; [exact S1|]. eapply fstep_trans; [exact S2|].
  pose proof (fs_inv _ _ _ S2) as I2.
  apply fstep_set_store; auto.
  - intros i p [X|X]; [inversion X; subst; apply (file_in_step _ _ _ _ _ S2 P1)|eapply inv_store; eauto].
  - intros k p [X|X]; [inversion X; lia|]. pose proof (inv_gen _ I2 k p X). lia.
Qed.

Lemma fstep_flatten f s p l : sinv s -> file_in f s p -> fstep f s (s_flatten s p l).
Proof.
  intros I P. unfold s_flatten.
  pose proof (fstep_create f s p I P) as S1.
  destruct (s_create s p) as [s1 st]. cbn [fst] in S1.
  pose proof (fs_inv _ _ _ S1) as I1. pose proof (file_in_step _ _ _ _ _ S1 P) as P1.
  destruct st; try exact S1.
  destruct l as [gs hdr_ok|ws].
  - destruct (fold_flat_ok f p gs s1 [] [] I1 P1) as [S2 [B2 J2]]; try (intros q []).
    destruct (fold_left (flat_group p) gs (s1, ([], []))) as [s2 [bs js]]. cbn [fst snd] in *.
    pose proof (fs_inv _ _ _ S2) as I2. pose proof (file_in_step _ _ _ _ _ S2 P1) as P2.
    eapply fstep_trans; [exact S1|]. eapply fstep_trans; [exact S2|].
    set (g := mkfo _ _ _ _ _ bs js _).
    assert (F2 : f < ss_nfam s2) by (destruct P2 as [L <-]; now apply (inv_file _ I2 p L)).
    pose proof (fstep_store_new f s2 g I2 (proj2 P2) F2 (bats_in_app _ _ _ _ B2 J2)) as X.
    cbn zeta in X. unfold new_file in *. cbn [fst snd] in *. exact X.
  - eapply fstep_trans; [exact S1|]. now apply fstep_apply_writes.
Qed.

(* ---------------------------------------------------------------- SegmentFile *)

Definition halves_in (f : N) (s : sstate) (h : halves) : Prop :=
  bats_in f s (h_cb h) /\ bats_in f s (h_ci h) /\ bats_in f s (h_db h) /\ bats_in f s (h_di h).

Lemma halves_in_step f g s s' h : fstep g s s' -> halves_in f s h -> halves_in f s' h.
Proof. intros S [A [B [C D]]]. unfold halves_in. split; [|split; [|split]]; eapply bats_in_step; eauto. Qed.

Lemma halves_in_add f s h c i q : bats_in f s [q] -> halves_in f s h -> halves_in f s (add_half c i q h).
Proof.
  intros Q [A [B [C D]]]. unfold halves_in. destruct c, i; simpl; (split; [|split; [|split]]); auto using bats_in_app.
Qed.

Lemma new_split_ok f s c reach : sinv s -> bc_fam c = f -> ents_in f s (bc_ents c) ->
  let s'' := s_build (fst (new_bat s c)) (ss_nb s) reach in
  fstep f s s'' /\ bats_in f s'' [ss_nb s].
Proof.
  intros I F E s''.
  assert (S1 : fstep f s (fst (new_bat s c))) by (apply fstep_new_bat; auto; now rewrite F).
  assert (Q1 : ss_nb s < ss_nb (fst (new_bat s c))) by (simpl; lia).
  assert (F1 : bc_fam (ss_bat (fst (new_bat s c)) (ss_nb s)) = f) by (simpl; now rewrite hupd_eq).
  assert (S2 : fstep f (fst (new_bat s c)) s'') by (apply fstep_build; auto; apply (fs_inv _ _ _ S1)).
  split; [eapply fstep_trans; eauto|].
  eapply bats_in_step; [exact S2|]. intros q [<-|[]]. split; assumption.
Qed.

Lemma split_cell_fam fkeep b credit hdr es c : bc_fam (split_cell fkeep b credit hdr es c) = bc_fam b.
Proof. reflexivity. Qed.

Lemma seg_batch_ok f fkeep s h q sp : sinv s -> q < ss_nb s -> bc_fam (ss_bat s q) = f -> halves_in f s h ->
  let r := seg_batch fkeep (s, h) (q, sp) in
  fstep f s (fst r) /\ halves_in f (fst r) (snd r).
Proof.
  intros I Q F H. unfold seg_batch.
  assert (QI : bats_in f s [q]) by (intros q' [<-|[]]; split; assumption).
  destruct (seg_kind (ss_bat s q)); cbn [fst snd].
  - (* split *)
    set (b := ss_bat s q).
    set (s0 := if bc_iat b && negb (fkeep || bc_keep b) then reset_traces s (bc_ents b) else s).
    assert (E : ents_in f s (bc_ents b)) by now apply bat_ents_in.
    assert (S0 : fstep f s s0).
    { unfold s0. destruct (bc_iat b && negb (fkeep || bc_keep b)); [now apply fstep_reset|now apply fstep_refl]. }
    pose proof (fs_inv _ _ _ S0) as I0.
    assert (E0 : ents_in f s0 (bc_ents b)) by (eapply ents_in_step; eauto).
    pose proof (halves_in_step f f s s0 h S0 H) as H0.
    (* credit batch *)
    assert (C : exists s1 h1, (if sp_hasc sp
                 then let (s', qc) := new_bat s0 (split_cell fkeep b true (sp_chdr sp) (picks (bc_ents b) (sp_c sp)) (sp_cctl sp)) in
                      (s_build s' qc (sp_creach sp), add_half true (bc_iat b) qc h)
                 else (s0, h)) = (s1, h1) /\ fstep f s0 s1 /\ halves_in f s1 h1).
    { destruct (sp_hasc sp).
      - destruct (new_split_ok f s0 (split_cell fkeep b true (sp_chdr sp) (picks (bc_ents b) (sp_c sp)) (sp_cctl sp)) (sp_creach sp) I0)
          as [S1 N1]; [exact F| |].
        { eapply ents_in_incl; [apply picks_incl|exact E0]. }
        eexists _, _. split; [reflexivity|]. split; [exact S1|].
        apply halves_in_add; [exact N1|]. eapply halves_in_step; eauto.
      - exists s0, h. split; [reflexivity|]. split; [now apply fstep_refl|exact H0]. }
    destruct C as [s1 [h1 [-> [S1 H1]]]].
    pose proof (fs_inv _ _ _ S1) as I1.
    assert (E1 : ents_in f s1 (bc_ents b)) by (eapply ents_in_step; eauto).
    destruct (sp_hasd sp).
    + destruct (new_split_ok f s1 (split_cell fkeep b false (sp_dhdr sp) (picks (bc_ents b) (sp_d sp)) (sp_dctl sp)) (sp_dreach sp) I1)
        as [S2 N2]; [exact F| |].
      { eapply ents_in_incl; [apply picks_incl|exact E1]. }
      cbn [new_bat fst snd] in *.
      split; [eapply fstep_trans; [exact S0|]; eapply fstep_trans; eauto|].
      apply halves_in_add; [exact N2|]. eapply halves_in_step; eauto.
    + cbn [fst snd]. split; [eapply fstep_trans; eauto|exact H1].
  - split; [now apply fstep_refl|]. now apply halves_in_add.
  - split; [now apply fstep_refl|]. now apply halves_in_add.
  - split; [now apply fstep_refl|exact H].
Qed.

Lemma zip_splits_in : forall qs sps q sp, In (q, sp) (zip_splits qs sps) -> In q qs.
Proof.
  induction qs as [|a r IH]; intros sps q sp X; simpl in X; [contradiction|].
  destruct X as [X|X]; [inversion X; now left|right; eapply IH; eauto].
Qed.

Lemma fold_seg_ok f fkeep : forall l s h, sinv s -> bats_in f s (map fst l) -> halves_in f s h ->
  let r := fold_left (seg_batch fkeep) l (s, h) in
  fstep f s (fst r) /\ halves_in f (fst r) (snd r).
Proof.
  induction l as [|[q sp] r IH]; intros s h I B H; cbn [fold_left].
  - cbn [fst snd]. split; [now apply fstep_refl|exact H].
  - destruct (B q (or_introl eq_refl)) as [Q F].
    destruct (seg_batch_ok f fkeep s h q sp I Q F H) as [S1 H1].
    destruct (seg_batch fkeep (s, h) (q, sp)) as [s1 h1]. cbn [fst snd] in *.
    destruct (IH s1 h1 (fs_inv _ _ _ S1)) as [S2 H2]; auto.
    { eapply bats_in_step; [exact S1|]. intros q' X. apply B. now right. }
    split; [eapply fstep_trans; eauto|exact H2].
Qed.

Lemma fstep_store_half f s g hdr bs js : sinv s -> fo_fam g = f -> f < ss_nfam s -> bats_in f s bs -> bats_in f s js ->
  fstep f s (store_half g hdr bs js s).
Proof.
  intros I G F B J. unfold store_half. destruct (bs ++ js) eqn:E; [now apply fstep_refl|]. clear E.
  set (o := mkfo _ _ _ _ _ bs js _).
  pose proof (fstep_store_new f s o I G F (bats_in_app _ _ _ _ B J)) as X.
  cbn zeta in X. unfold new_file in *. cbn [fst snd] in *. exact X.
Qed.

Lemma fstep_segment f s p l : sinv s -> file_in f s p -> fstep f s (s_segment s p l).
Proof.
  intros I P. unfold s_segment.
  pose proof (fstep_create f s p I P) as S1.
  destruct (s_create s p) as [s1 st]. cbn [fst] in S1.
  pose proof (fs_inv _ _ _ S1) as I1. pose proof (file_in_step _ _ _ _ _ S1 P) as P1.
  destruct st; try exact S1.
  destruct l as [sps chdr dhdr|valid ws].
  - destruct (fold_seg_ok f (fo_keep (ss_file s1 p)) (zip_splits (all_bats (ss_file s1 p)) sps) s1 (mkhalves [] [] [] []) I1)
      as [S2 H2].
    { intros q X. apply in_map_iff in X. destruct X as [[q' sp] [<- X]]. apply zip_splits_in in X.
      now apply (file_bats_in f s1 p I1 P1). }
    { unfold halves_in; cbn [h_cb h_ci h_db h_di]. split; [|split; [|split]]; intros q []. }
    destruct (fold_left _ _ _) as [s2 h]. cbn [fst snd] in *.
    pose proof (fs_inv _ _ _ S2) as I2.
    destruct H2 as [A [B [C D]]].
    assert (F1 : f < ss_nfam s1) by (destruct P1 as [L <-]; now apply (inv_file _ I1 p L)).
    assert (F2 : f < ss_nfam s2) by (pose proof (fs_nfam _ _ _ S2); lia).
    pose proof (fstep_store_half f s2 (ss_file s1 p) chdr (h_cb h) (h_ci h) I2 (proj2 P1) F2 A B) as S3.
    pose proof (fs_inv _ _ _ S3) as I3.
    assert (F3 : f < ss_nfam (store_half (ss_file s1 p) chdr (h_cb h) (h_ci h) s2)) by (pose proof (fs_nfam _ _ _ S3); lia).
    pose proof (fstep_store_half f _ (ss_file s1 p) dhdr (h_db h) (h_di h) I3 (proj2 P1) F3
                  (bats_in_step _ _ _ _ _ S3 C) (bats_in_step _ _ _ _ _ S3 D)) as S4.
    eapply fstep_trans; [exact S1|]. eapply fstep_trans; [exact S2|]. eapply fstep_trans; eauto.
  - destruct valid; [|exact S1]. eapply fstep_trans; [exact S1|]. now apply fstep_apply_writes.
Qed.

(* ---------------------------------------------------------------- BalanceFile *)

Lemma bal_ents_ok f g old : forall rs s, sinv s -> ents_in g s old ->
  let r := bal_ents s g old rs in fstep f s (fst r) /\ ents_in g (fst r) (snd r).
Proof.
  induction rs as [|[j|t] r IH]; intros s I O; cbn [bal_ents].
  - cbn [fst snd]. split; [now apply fstep_refl|]. intros e [].
  - destruct (IH s I O) as [S1 E1]. destruct (bal_ents s g old r) as [s1 es]. cbn [fst snd] in *.
    split; [exact S1|]. destruct (nth_error old j) as [e|] eqn:N; [|exact E1].
    intros e' [<-|X]; [|now apply E1].
    eapply ents_in_step; [exact S1|exact O|]. eapply nth_error_In; eauto.
  - assert (S1 : fstep f s (fst (new_ent s (mkec g t)))) by now apply fstep_new_ent.
    change (new_ent s (mkec g t)) with (fst (new_ent s (mkec g t)), ss_ne s). cbv iota beta.
    destruct (IH _ (fs_inv _ _ _ S1) (ents_in_step _ _ _ _ _ S1 O)) as [S2 E2].
    destruct (bal_ents _ g old r) as [s2 es]. cbn [fst snd] in *.
    split; [eapply fstep_trans; eauto|].
    intros e' [<-|X]; [|now apply E2].
    apply (ents_in_step g f _ _ [ss_ne s] S2); [|now left].
    intros e' [<-|[]]. simpl. split; [lia|]. now rewrite hupd_eq.
Qed.

Lemma bal_loop_ok f : forall qs s ls, sinv s -> bats_in f s qs -> fstep f s (fst (bal_loop s qs ls)).
Proof.
  induction qs as [|q r IH]; intros s ls I B; cbn [bal_loop]; [now apply fstep_refl|].
  destruct (B q (or_introl eq_refl)) as [Q F].
  set (l := hd (mkbl 0 None false) ls).
  assert (S1 : fstep f s (s_build s q (bl_reach l))) by now apply fstep_build.
  set (s1 := s_build s q (bl_reach l)) in *.
  pose proof (fs_inv _ _ _ S1) as I1.
  assert (Q1 : q < ss_nb s1) by (pose proof (fs_nb _ _ _ S1); lia).
  assert (F1 : bc_fam (ss_bat s1 q) = f) by (rewrite (fs_bfam _ _ _ S1); auto).
  assert (S2 : fstep f s1 (match bl_res l with
                | Some (rs, c, svc) =>
                    let (s', es) := bal_ents s1 (bc_fam (ss_bat s1 q)) (bc_ents (ss_bat s1 q)) rs in
                    set_bat s' q (bset_res (ss_bat s1 q) es c svc)
                | None => s1
                end)).
  { destruct (bl_res l) as [[[rs c] svc]|]; [|now apply fstep_refl].
    destruct (bal_ents_ok f (bc_fam (ss_bat s1 q)) (bc_ents (ss_bat s1 q)) rs s1 I1) as [S E].
    { rewrite F1. now apply bat_ents_in. }
    destruct (bal_ents s1 _ _ rs) as [s' es]. cbn [fst snd] in *.
    eapply fstep_trans; [exact S|].
    apply fstep_set_bat; [apply (fs_inv _ _ _ S)|pose proof (fs_nb _ _ _ S); lia|rewrite (fs_bfam _ _ _ S); auto|exact F1|].
    simpl. rewrite F1 in E. exact E. }
  match goal with S2 : fstep f s1 ?x |- _ => set (s2 := x) in * end.
  assert (S : fstep f s s2) by (eapply fstep_trans; eauto).
  destruct (bl_ok l); [|exact S].
  eapply fstep_trans; [exact S|]. apply IH; [apply (fs_inv _ _ _ S)|].
  eapply bats_in_step; [exact S|]. intros q' X. apply B. now right.
Qed.

Lemma fstep_balance f s p ls : sinv s -> file_in f s p -> fstep f s (s_balance s p ls).
Proof.
  intros I P. unfold s_balance.
  pose proof (fstep_create f s p I P) as S1.
  destruct (s_create s p) as [s1 st]. cbn [fst] in S1.
  pose proof (fs_inv _ _ _ S1) as I1. pose proof (file_in_step _ _ _ _ _ S1 P) as P1.
  destruct st; try exact S1.
  assert (S2 : fstep f s1 (fst (bal_loop s1 (fo_bats (ss_file s1 p)) ls))).
  { apply bal_loop_ok; auto. eapply bats_in_incl; [|apply (file_bats_in f s1 p I1 P1)].
    unfold all_bats. apply incl_appl, incl_refl. }
  destruct (bal_loop s1 (fo_bats (ss_file s1 p)) ls) as [s2 ok]. cbn [fst] in S2.
  eapply fstep_trans; [exact S1|].
  destruct ok; [|exact S2].
  eapply fstep_trans; [exact S2|].
  pose proof (fs_inv _ _ _ S2) as I2. pose proof (file_in_step _ _ _ _ _ S2 P1) as P2.
  set (s3 := set_file s2 p (fset_id (ss_file s2 p) (Gen (ss_nid s2)))).
  assert (S3 : fstep f s2 s3).
  { destruct P2 as [L F]. apply fstep_set_file; auto. simpl. fold (all_bats (ss_file s2 p)).
    apply (file_bats_in f s2 p I2). split; assumption. }
  pose proof (fs_inv _ _ _ S3) as I3. pose proof (file_in_step _ _ _ _ _ S3 P2) as P3.
  pose proof (fstep_create f s3 p I3 P3) as S4.
  pose proof (fs_inv _ _ _ S4) as I4. pose proof (file_in_step _ _ _ _ _ S4 P3) as P4.
  eapply fstep_trans; [exact S3|]. eapply fstep_trans; [exact S4|].
  apply fstep_set_store; auto.
  - intros i p' [X|X]; [inversion X; subst; apply P4|eapply inv_store; eauto].
  - intros k p' [X|X]; [inversion X; lia|]. pose proof (inv_gen _ I4 k p' X). lia.
Qed.

(* ---------------------------------------------------------------- heap operations leave the ID map alone *)

Definition hsame (s s' : sstate) : Prop := ss_store s' = ss_store s /\ ss_nid s' = ss_nid s.

Lemma hsame_refl s : hsame s s. Proof. split; reflexivity. Qed.
Lemma hsame_trans s0 s1 s2 : hsame s0 s1 -> hsame s1 s2 -> hsame s0 s2.
Proof. intros [A B] [C D]. split; congruence. Qed.

Lemma hsame_renum : forall qs s seq, hsame s (renum s seq qs).
Proof.
  induction qs as [|q r IH]; intros s seq; simpl; [apply hsame_refl|].
  eapply hsame_trans; [|apply IH]. destruct (bc_num (ss_bat s q) <=? 1)%Z; split; reflexivity.
Qed.

Lemma hsame_renum_adv : forall qs s seq, hsame s (fst (renum_adv s seq qs)).
Proof.
  induction qs as [|q r IH]; intros s seq; simpl; [apply hsame_refl|].
  destruct (bc_adv (ss_bat s q)); [|apply hsame_refl].
  eapply hsame_trans; [|apply IH]. destruct (bc_num (ss_bat s q) <=? 1)%Z; split; reflexivity.
Qed.

Lemma hsame_create s p : hsame s (fst (s_create s p)).
Proof.
  unfold s_create.
  destruct (negb (co_skip (fo_opts (ss_file s p))) && negb (co_nohdr (fo_opts (ss_file s p))) && negb (fo_hdr_ok (ss_file s p)));
    [apply hsame_refl|].
  destruct (negb (co_skip (fo_opts (ss_file s p))) && negb (co_zero (fo_opts (ss_file s p))) && is_nil (all_bats (ss_file s p)));
    [apply hsame_refl|].
  destruct (existsb (fun q => bc_adv (ss_bat s q)) (fo_bats (ss_file s p))).
  - destruct (fo_iats (ss_file s p)); [apply hsame_renum_adv|apply hsame_refl].
  - simpl. apply (hsame_renum (all_bats (ss_file s p)) s 1%Z).
Qed.

Lemma hsame_retrace odfi keep : forall reach es s seq, hsame s (retrace_cells s odfi keep seq reach es).
Proof.
  induction reach as [|k IH]; intros es s seq; simpl; [apply hsame_refl|].
  destruct es as [|e r]; [apply hsame_refl|]. eapply hsame_trans; [|apply IH]. split; reflexivity.
Qed.

Lemma hsame_build s q reach : hsame s (s_build s q reach).
Proof. unfold s_build. destruct (bc_hdr_ok (ss_bat s q)); [apply hsame_retrace|apply hsame_refl]. Qed.

Lemma hsame_reset : forall es s, hsame s (reset_traces s es).
Proof. induction es as [|e r IH]; intros s; simpl; [apply hsame_refl|]. eapply hsame_trans; [|apply IH]. split; reflexivity. Qed.

Lemma hsame_apply_writes p : forall ws s, hsame s (apply_writes s p ws).
Proof.
  unfold apply_writes. induction ws as [|w r IH]; intros s; simpl; [apply hsame_refl|].
  eapply hsame_trans; [|apply IH]. destruct w as [k j t|k n cn]; simpl.
  - destruct (ent_at s p (k, j)); split; reflexivity.
  - destruct (bat_at s p k); split; reflexivity.
Qed.

Lemma hsame_new_ents g : forall ts s, hsame s (fst (new_ents s g ts)).
Proof.
  induction ts as [|t r IH]; intros s; [apply hsame_refl|]. rewrite new_ents_cons. cbn [fst].
  eapply hsame_trans; [|apply IH]. split; reflexivity.
Qed.

Lemma hsame_new_pbatch g s iat b : hsame s (fst (new_pbatch s g iat b)).
Proof.
  unfold new_pbatch. pose proof (hsame_new_ents g (pb_traces b) s) as H.
  destruct (new_ents s g (pb_traces b)) as [s1 es]. cbn [fst] in *.
  eapply hsame_trans; [exact H|]. split; reflexivity.
Qed.

Lemma hsame_new_pbatches g iat : forall bs s, hsame s (fst (new_pbatches s g iat bs)).
Proof.
  induction bs as [|b r IH]; intros s; [apply hsame_refl|]. cbn [new_pbatches].
  pose proof (hsame_new_pbatch g s iat b) as H1. destruct (new_pbatch s g iat b) as [s1 q]. cbn [fst] in *.
  pose proof (IH s1) as H2. destruct (new_pbatches s1 g iat r) as [s2 qs]. cbn [fst] in *.
  eapply hsame_trans; eauto.
Qed.

Lemma hsame_new_pfile g s i pf : hsame s (fst (new_pfile s g i pf)).
Proof.
  unfold new_pfile.
  pose proof (hsame_new_pbatches g false (pf_bats pf) s) as H1.
  destruct (new_pbatches s g false (pf_bats pf)) as [s1 bs]. cbn [fst] in *.
  pose proof (hsame_new_pbatches g true (pf_iats pf) s1) as H2.
  destruct (new_pbatches s1 g true (pf_iats pf)) as [s2 js]. cbn [fst] in *.
  eapply hsame_trans; [exact H1|]. eapply hsame_trans; [exact H2|]. split; reflexivity.
Qed.

(* ---------------------------------------------------------------- every handler *)

(* the family a request works in: the target's, or the fresh one of a create / posted body *)
Definition req_fam (s : sstate) (r : srequest) : N :=
  match target r with
  | Some i => match lookup (ss_store s) i with Some p => fo_fam (ss_file s p) | None => ss_nfam s end
  | None => ss_nfam s
  end.

Lemma resolve_spec url bodyid n : let r := resolve url bodyid n in
  n <= snd r /\ forall k, fst r = Gen k -> k < snd r.
Proof.
  unfold resolve. destruct url; [|destruct bodyid]; simpl; split; try lia; intros k E; inversion E. lia.
Qed.

Lemma remove_In {A} (l : list (id * A)) i j a : In (j, a) (remove l i) -> In (j, a) l.
Proof.
  induction l as [|[k b] r IH]; simpl; [tauto|].
  destruct (id_eqb k i); simpl; [auto|]. intros [X|X]; auto.
Qed.

Lemma firstn_incl {A} : forall k (l : list A), incl (firstn k l) l.
Proof. induction k as [|k IH]; intros [|a l] x X; simpl in *; try contradiction. destruct X; [now left|right; now apply IH]. Qed.

Lemma skipn_incl {A} : forall k (l : list A), incl (skipn k l) l.
Proof. induction k as [|k IH]; intros [|a l] x X; simpl in *; try contradiction; auto. right. now apply IH. Qed.

Lemma remove_nth_incl {A} k (l : list A) : incl (remove_nth k l) l.
Proof.
  unfold remove_nth. intros a X. apply in_app_or in X. destruct X as [X|X]; [eapply firstn_incl|eapply skipn_incl]; eauto.
Qed.

Lemma stored_file_in s i p : sinv s -> lookup (ss_store s) i = Some p -> file_in (fo_fam (ss_file s p)) s p.
Proof. intros I L. split; [|reflexivity]. apply (inv_store s I i p). now apply lookup_In. Qed.

Theorem sstep_fstep s r : sinv s -> fstep (req_fam s r) s (fst (sstep s r)).
Proof.
  intro I. unfold req_fam.
  destruct r as [url bodyid pf|i| |i|i|i|i|i decodes dup b|i|i|i pos|i l|i l|pf l|i o ls]; cbn [target sstep].
  - (* create *)
    pose proof (resolve_spec url bodyid (ss_nid s)) as R.
    destruct (resolve url bodyid (ss_nid s)) as [i n']. cbn [fst snd] in R. destruct R as [R1 R2].
    destruct (lookup (ss_store s) i) eqn:L; cbn [fst].
    + apply fstep_set_store; auto; [eapply inv_store; eauto|].
      intros k p X. pose proof (inv_gen _ I k p X). lia.
    + assert (S1 : fstep (ss_nfam s) s (fst (new_fam s))) by now apply fstep_new_fam.
      change (new_fam s) with (fst (new_fam s), ss_nfam s). cbv iota beta.
      destruct (fstep_new_pfile (ss_nfam s) (ss_nfam s) (fst (new_fam s)) i pf (fs_inv _ _ _ S1)) as [S2 [P2 _]]; [simpl; lia|].
      pose proof (hsame_new_pfile (ss_nfam s) (fst (new_fam s)) i pf) as [_ E].
      destruct (new_pfile (fst (new_fam s)) (ss_nfam s) i pf) as [s2 p]. cbn [fst snd] in *.
      eapply fstep_trans; [exact S1|]. eapply fstep_trans; [exact S2|].
      pose proof (fs_inv _ _ _ S2) as I2.
      apply fstep_set_store; auto.
      * intros j p' [X|X]; [inversion X; subst; apply P2|eapply inv_store; eauto].
      * intros k p' [X|X]; [inversion X; subst; now apply R2|].
        pose proof (inv_gen _ I2 k p' X) as Y. simpl in E. lia.
  - destruct (lookup (ss_store s) i); now apply fstep_refl.
  - now apply fstep_refl.
  - destruct (lookup (ss_store s) i) as [p|] eqn:L; [|now apply fstep_refl].
    apply fstep_create; auto. eapply stored_file_in; eauto.
  - destruct (lookup (ss_store s) i); now apply fstep_refl.
  - destruct (lookup (ss_store s) i) as [p|] eqn:L; [|now apply fstep_refl].
    apply fstep_create; auto. eapply stored_file_in; eauto.
  - cbn [fst]. apply fstep_set_store; auto.
    + intros j p X. eapply inv_store; eauto. eapply remove_In; eauto.
    + intros k p X. eapply inv_gen; eauto. eapply remove_In; eauto.
  - destruct (negb decodes); [now apply fstep_refl|].
    destruct (lookup (ss_store s) i) as [p|] eqn:L; [|now apply fstep_refl].
    destruct dup; [now apply fstep_refl|].
    pose proof (stored_file_in s i p I L) as P. set (f := fo_fam (ss_file s p)) in *.
    destruct (fstep_new_pbatch f f s false b I) as [S1 B1].
    destruct (new_pbatch s f false b) as [s1 q]. cbn [fst snd] in *.
    eapply fstep_trans; [exact S1|].
    pose proof (fs_inv _ _ _ S1) as I1. destruct (file_in_step _ _ _ _ _ S1 P) as [P1 F1].
    apply fstep_set_file; auto. unfold all_bats, fset_bats. cbn [fo_bats fo_iats].
    rewrite <- app_assoc. apply bats_in_app.
    + eapply bats_in_incl; [|apply (file_bats_in f s1 p I1 (conj P1 F1))]. unfold all_bats. apply incl_appl, incl_refl.
    + apply bats_in_app; [exact B1|].
      eapply bats_in_incl; [|apply (file_bats_in f s1 p I1 (conj P1 F1))]. unfold all_bats. apply incl_appr, incl_refl.
  - destruct (lookup (ss_store s) i); now apply fstep_refl.
  - now apply fstep_refl.
  - destruct (lookup (ss_store s) i) as [p|] eqn:L; [|now apply fstep_refl].
    destruct pos as [k|]; [|now apply fstep_refl]. cbn [fst].
    destruct (stored_file_in s i p I L) as [P F].
    apply fstep_set_file; auto. unfold all_bats, fset_bats. cbn [fo_bats fo_iats].
    eapply bats_in_incl; [|apply (file_bats_in _ s p I (conj P F))]. unfold all_bats.
    apply incl_app; [apply incl_appl, remove_nth_incl|apply incl_appr, incl_refl].
  - destruct (lookup (ss_store s) i) as [p|] eqn:L; [|now apply fstep_refl].
    apply fstep_flatten; auto. eapply stored_file_in; eauto.
  - destruct (lookup (ss_store s) i) as [p|] eqn:L; [|now apply fstep_refl].
    apply fstep_segment; auto. eapply stored_file_in; eauto.
  - assert (S1 : fstep (ss_nfam s) s (fst (new_fam s))) by now apply fstep_new_fam.
    change (new_fam s) with (fst (new_fam s), ss_nfam s). cbv iota beta.
    destruct (fstep_new_pfile (ss_nfam s) (ss_nfam s) (fst (new_fam s)) (Client 0) pf (fs_inv _ _ _ S1)) as [S2 [P2 _]]; [simpl; lia|].
    destruct (new_pfile (fst (new_fam s)) (ss_nfam s) (Client 0) pf) as [s2 p]. cbn [fst snd] in *.
    eapply fstep_trans; [exact S1|]. eapply fstep_trans; [exact S2|].
    apply fstep_segment; auto. apply (fs_inv _ _ _ S2).
  - destruct (lookup (ss_store s) i) as [p|] eqn:L; [|now apply fstep_refl].
    apply fstep_balance; auto. eapply stored_file_in; eauto.
Qed.

(* ---------------------------------------------------------------- reachable states *)

Lemma sinv_step s r : sinv s -> sinv (fst (sstep s r)).
Proof. intro I. apply (fs_inv _ _ _ (sstep_fstep s r I)). Qed.

Lemma sinv_run : forall rs s, sinv s -> sinv (srun s rs).
Proof.
  unfold srun. induction rs as [|r rs IH]; intros s I; simpl; [assumption|]. apply IH. now apply sinv_step.
Qed.

Lemma sinv_reachable rs : sinv (srun sinit rs).
Proof. apply sinv_run, sinv_init. Qed.

(* ---------------------------------------------------------------- what GET shows depends on the cells below the object *)

Lemma view_bat_ext s s' q : ss_bat s' q = ss_bat s q ->
  (forall e, In e (bc_ents (ss_bat s q)) -> ss_ent s' e = ss_ent s e) -> view_bat s' q = view_bat s q.
Proof.
  intros B E. unfold view_bat. rewrite B. f_equal. apply map_ext_in. intros e X. now rewrite E.
Qed.

Lemma view_file_ext s s' p : ss_file s' p = ss_file s p ->
  (forall q, In q (all_bats (ss_file s p)) -> view_bat s' q = view_bat s q) -> view_file s' p = view_file s p.
Proof.
  intros F B. unfold view_file. rewrite F. f_equal; apply map_ext_in; intros q X; apply B; unfold all_bats;
    apply in_or_app; [now left|now right].
Qed.

Lemma view_frame f s s' p : sinv s -> fstep f s s' -> p < ss_nf s -> fo_fam (ss_file s p) <> f ->
  view_file s' p = view_file s p.
Proof.
  intros I S P F. apply view_file_ext; [now apply (fs_file _ _ _ S)|].
  intros q Q. destruct (reach_bat s p q I P Q) as [QL QF].
  apply view_bat_ext; [apply (fs_bat _ _ _ S); congruence|].
  intros e E. destruct (reach_ent s q e I QL E) as [EL EF]. apply (fs_ent _ _ _ S); congruence.
Qed.

(* ---------------------------------------------------------------- the ID map under the handlers *)

Definition store_ext (s s' : sstate) : Prop :=
  (forall j p, lookup (ss_store s) j = Some p -> lookup (ss_store s') j = Some p) /\ ss_nid s <= ss_nid s'.

Lemma store_ext_refl s : store_ext s s.
Proof. split; auto; lia. Qed.

Lemma store_ext_trans s0 s1 s2 : store_ext s0 s1 -> store_ext s1 s2 -> store_ext s0 s2.
Proof. intros [A B] [C D]. split; auto; lia. Qed.

Lemma hsame_store_ext s s' : hsame s s' -> store_ext s s'.
Proof. intros [A B]. split; [rewrite A; auto|lia]. Qed.

Lemma stored_not_fresh s j p : sinv s -> lookup (ss_store s) j = Some p -> id_eqb (Gen (ss_nid s)) j = false.
Proof.
  intros I L. apply id_eqb_neq. intros <-. apply lookup_In in L. pose proof (inv_gen _ I _ _ L). lia.
Qed.

Lemma store_ext_add s p : sinv s -> store_ext s (set_store s ((Gen (ss_nid s), p) :: ss_store s) (ss_nid s + 1)).
Proof.
  intro I. split; [|simpl; lia]. intros j p' L. cbn [set_store ss_store lookup]. now rewrite (stored_not_fresh s j p' I L).
Qed.

Lemma hsame_new_bat s c : hsame s (fst (new_bat s c)). Proof. split; reflexivity. Qed.
Lemma hsame_new_file s g : hsame s (fst (new_file s g)). Proof. split; reflexivity. Qed.
Lemma hsame_new_fam s : hsame s (fst (new_fam s)). Proof. split; reflexivity. Qed.

Lemma hsame_flat_group p g s bs js : hsame s (fst (flat_group p (s, (bs, js)) g)).
Proof.
  unfold flat_group. destruct (somes (map (bat_at s p) (g_srcs g))) as [|q0 qs]; [apply hsame_refl|].
  cbn [new_bat]. destruct (bc_iat (ss_bat s q0)); cbn [fst];
    (eapply hsame_trans; [|apply hsame_build]); split; reflexivity.
Qed.

Lemma hsame_fold_flat p : forall gs s bs js, hsame s (fst (fold_left (flat_group p) gs (s, (bs, js)))).
Proof.
  induction gs as [|g r IH]; intros s bs js; cbn [fold_left]; [apply hsame_refl|].
  pose proof (hsame_flat_group p g s bs js) as H. destruct (flat_group p (s, (bs, js)) g) as [s1 [bs1 js1]].
  cbn [fst] in H. eapply hsame_trans; [exact H|apply IH].
Qed.

Lemma hsame_seg_batch fkeep s h q sp : hsame s (fst (seg_batch fkeep (s, h) (q, sp))).
Proof.
  unfold seg_batch. destruct (seg_kind (ss_bat s q)); cbn [fst]; try apply hsame_refl.
  set (s0 := if bc_iat (ss_bat s q) && negb (fkeep || bc_keep (ss_bat s q)) then reset_traces s (bc_ents (ss_bat s q)) else s).
  assert (H0 : hsame s s0) by (unfold s0; destruct (bc_iat (ss_bat s q) && negb (fkeep || bc_keep (ss_bat s q))); [apply hsame_reset|apply hsame_refl]).
  cbn [new_bat].
  destruct (sp_hasc sp), (sp_hasd sp); cbn [fst];
    repeat first [exact H0 | eapply hsame_trans; [|apply hsame_build] | eapply hsame_trans; [|apply (hsame_new_bat _ _)]].
Qed.

Lemma hsame_fold_seg fkeep : forall l s h, hsame s (fst (fold_left (seg_batch fkeep) l (s, h))).
Proof.
  induction l as [|[q sp] r IH]; intros s h; cbn [fold_left]; [apply hsame_refl|].
  pose proof (hsame_seg_batch fkeep s h q sp) as H. destruct (seg_batch fkeep (s, h) (q, sp)) as [s1 h1].
  cbn [fst] in H. eapply hsame_trans; [exact H|apply IH].
Qed.

Lemma hsame_bal_ents g old : forall rs s, hsame s (fst (bal_ents s g old rs)).
Proof.
  induction rs as [|[j|t] r IH]; intros s; cbn [bal_ents]; [apply hsame_refl| |].
  - pose proof (IH s) as H. destruct (bal_ents s g old r). exact H.
  - cbn [new_ent]. pose proof (IH (fst (new_ent s (mkec g t)))) as H. cbn [new_ent fst] in H.
    destruct (bal_ents _ g old r). cbn [fst] in *. eapply hsame_trans; [|exact H]. split; reflexivity.
Qed.

Lemma hsame_bal_loop : forall qs s ls, hsame s (fst (bal_loop s qs ls)).
Proof.
  induction qs as [|q r IH]; intros s ls; cbn [bal_loop]; [apply hsame_refl|].
  set (l := hd (mkbl 0 None false) ls). set (s1 := s_build s q (bl_reach l)).
  assert (H1 : hsame s s1) by apply hsame_build.
  match goal with |- hsame s (fst (if _ then bal_loop ?x _ _ else _)) => set (s2 := x) end.
  assert (H2 : hsame s1 s2).
  { unfold s2. destruct (bl_res l) as [[[rs c] svc]|]; [|apply hsame_refl].
    pose proof (hsame_bal_ents (bc_fam (ss_bat s1 q)) (bc_ents (ss_bat s1 q)) rs s1) as H.
    destruct (bal_ents s1 _ _ rs) as [s' es]. cbn [fst] in H. eapply hsame_trans; [exact H|]. split; reflexivity. }
  destruct (bl_ok l); cbn [fst]; [|eapply hsame_trans; eauto].
  eapply hsame_trans; [eapply hsame_trans; eauto|apply IH].
Qed.

(* a derived file object stored under the next random ID keeps every binding *)
Lemma store_ext_store_new f s g : sinv s -> fo_fam g = f -> f < ss_nfam s -> bats_in f s (all_bats g) ->
  let s1 := fst (new_file s g) in
  let s2 := fst (s_create s1 (ss_nf s)) in
  store_ext s (set_store s2 ((Gen (ss_nid s2), ss_nf s) :: ss_store s2) (ss_nid s2 + 1)).
Proof.
  intros I G F B s1 s2.
  assert (S1 : fstep f s s1) by (apply fstep_new_file; auto; now rewrite G).
  assert (P1 : file_in f s1 (ss_nf s)).
  { subst s1. unfold file_in, new_file. cbn [fst ss_nf ss_file]. split; [lia|now rewrite hupd_eq]. }
  assert (S2 : fstep f s1 s2) by (apply fstep_create; auto; apply (fs_inv _ _ _ S1)).
  eapply store_ext_trans; [apply hsame_store_ext; eapply hsame_trans; [apply (hsame_new_file s g)|apply (hsame_create s1 (ss_nf s))]|].
  apply store_ext_add. apply (fs_inv _ _ _ S2).
Qed.

Lemma store_ext_flatten s p l : sinv s -> p < ss_nf s -> store_ext s (s_flatten s p l).
Proof.
  intros I P. set (f := fo_fam (ss_file s p)). assert (PF : file_in f s p) by (split; auto).
  unfold s_flatten.
  pose proof (fstep_create f s p I PF) as S1. pose proof (hsame_create s p) as H1.
  destruct (s_create s p) as [s1 st]. cbn [fst] in *.
  pose proof (fs_inv _ _ _ S1) as I1. pose proof (file_in_step _ _ _ _ _ S1 PF) as P1.
  destruct st; try (now apply hsame_store_ext).
  destruct l as [gs hdr_ok|ws].
  - destruct (fold_flat_ok f p gs s1 [] [] I1 P1) as [S2 [B2 J2]]; try (intros q []).
    pose proof (hsame_fold_flat p gs s1 [] []) as H2.
    destruct (fold_left (flat_group p) gs (s1, ([], []))) as [s2 [bs js]]. cbn [fst snd] in *.
    pose proof (fs_inv _ _ _ S2) as I2. pose proof (file_in_step _ _ _ _ _ S2 P1) as P2.
    eapply store_ext_trans; [apply hsame_store_ext; eapply hsame_trans; eauto|].
    set (g := mkfo _ _ _ _ _ bs js _).
    assert (F2 : f < ss_nfam s2) by (destruct P2 as [L <-]; now apply (inv_file _ I2 p L)).
    pose proof (store_ext_store_new f s2 g I2 (proj2 P2) F2 (bats_in_app _ _ _ _ B2 J2)) as X.
    cbn zeta in X. unfold new_file in *. cbn [fst snd] in *. exact X.
  - apply hsame_store_ext. eapply hsame_trans; [exact H1|apply hsame_apply_writes].
Qed.

Lemma store_ext_store_half f s g hdr bs js : sinv s -> fo_fam g = f -> f < ss_nfam s -> bats_in f s bs -> bats_in f s js ->
  store_ext s (store_half g hdr bs js s).
Proof.
  intros I G F B J. unfold store_half. destruct (bs ++ js) eqn:E; [apply store_ext_refl|]. clear E.
  set (o := mkfo _ _ _ _ _ bs js _).
  pose proof (store_ext_store_new f s o I G F (bats_in_app _ _ _ _ B J)) as X.
  cbn zeta in X. unfold new_file in *. cbn [fst snd] in *. exact X.
Qed.

Lemma store_ext_segment s p l : sinv s -> p < ss_nf s -> store_ext s (s_segment s p l).
Proof.
  intros I P. set (f := fo_fam (ss_file s p)). assert (PF : file_in f s p) by (split; auto).
  unfold s_segment.
  pose proof (fstep_create f s p I PF) as S1. pose proof (hsame_create s p) as H1.
  destruct (s_create s p) as [s1 st]. cbn [fst] in *.
  pose proof (fs_inv _ _ _ S1) as I1. pose proof (file_in_step _ _ _ _ _ S1 PF) as P1.
  destruct st; try (now apply hsame_store_ext).
  destruct l as [sps chdr dhdr|valid ws].
  - destruct (fold_seg_ok f (fo_keep (ss_file s1 p)) (zip_splits (all_bats (ss_file s1 p)) sps) s1 (mkhalves [] [] [] []) I1)
      as [S2 H2].
    { intros q X. apply in_map_iff in X. destruct X as [[q' sp] [<- X]]. apply zip_splits_in in X.
      now apply (file_bats_in f s1 p I1 P1). }
    { unfold halves_in; cbn [h_cb h_ci h_db h_di]. split; [|split; [|split]]; intros q []. }
    pose proof (hsame_fold_seg (fo_keep (ss_file s1 p)) (zip_splits (all_bats (ss_file s1 p)) sps) s1 (mkhalves [] [] [] [])) as HS.
    destruct (fold_left _ _ _) as [s2 h]. cbn [fst snd] in *.
    pose proof (fs_inv _ _ _ S2) as I2.
    destruct H2 as [A [B [C D]]].
    assert (F1 : f < ss_nfam s1) by (destruct P1 as [L <-]; now apply (inv_file _ I1 p L)).
    assert (F2 : f < ss_nfam s2) by (pose proof (fs_nfam _ _ _ S2); lia).
    pose proof (fstep_store_half f s2 (ss_file s1 p) chdr (h_cb h) (h_ci h) I2 (proj2 P1) F2 A B) as S3.
    pose proof (store_ext_store_half f s2 (ss_file s1 p) chdr (h_cb h) (h_ci h) I2 (proj2 P1) F2 A B) as E3.
    pose proof (fs_inv _ _ _ S3) as I3.
    assert (F3 : f < ss_nfam (store_half (ss_file s1 p) chdr (h_cb h) (h_ci h) s2)) by (pose proof (fs_nfam _ _ _ S3); lia).
    pose proof (store_ext_store_half f _ (ss_file s1 p) dhdr (h_db h) (h_di h) I3 (proj2 P1) F3
                  (bats_in_step _ _ _ _ _ S3 C) (bats_in_step _ _ _ _ _ S3 D)) as E4.
    eapply store_ext_trans; [apply hsame_store_ext; eapply hsame_trans; eauto|].
    eapply store_ext_trans; eauto.
  - destruct valid; [|now apply hsame_store_ext].
    apply hsame_store_ext. eapply hsame_trans; [exact H1|apply hsame_apply_writes].
Qed.

Lemma store_ext_balance s p ls : sinv s -> p < ss_nf s -> store_ext s (s_balance s p ls).
Proof.
  intros I P. set (f := fo_fam (ss_file s p)). assert (PF : file_in f s p) by (split; auto).
  unfold s_balance.
  pose proof (fstep_create f s p I PF) as S1. pose proof (hsame_create s p) as H1.
  destruct (s_create s p) as [s1 st]. cbn [fst] in *.
  pose proof (fs_inv _ _ _ S1) as I1. pose proof (file_in_step _ _ _ _ _ S1 PF) as P1.
  destruct st; try (now apply hsame_store_ext).
  assert (S2 : fstep f s1 (fst (bal_loop s1 (fo_bats (ss_file s1 p)) ls))).
  { apply bal_loop_ok; auto. eapply bats_in_incl; [|apply (file_bats_in f s1 p I1 P1)].
    unfold all_bats. apply incl_appl, incl_refl. }
  pose proof (hsame_bal_loop (fo_bats (ss_file s1 p)) s1 ls) as H2.
  destruct (bal_loop s1 (fo_bats (ss_file s1 p)) ls) as [s2 ok]. cbn [fst] in *.
  destruct ok; [|apply hsame_store_ext; eapply hsame_trans; eauto].
  pose proof (fs_inv _ _ _ S2) as I2. pose proof (file_in_step _ _ _ _ _ S2 P1) as P2.
  set (s3 := set_file s2 p (fset_id (ss_file s2 p) (Gen (ss_nid s2)))).
  assert (S3 : fstep f s2 s3).
  { destruct P2 as [L F]. apply fstep_set_file; auto. simpl. fold (all_bats (ss_file s2 p)).
    apply (file_bats_in f s2 p I2). split; assumption. }
  pose proof (fs_inv _ _ _ S3) as I3. pose proof (file_in_step _ _ _ _ _ S3 P2) as P3.
  pose proof (fstep_create f s3 p I3 P3) as S4.
  eapply store_ext_trans; [apply hsame_store_ext; eapply hsame_trans; [exact H1|]; eapply hsame_trans; [exact H2|];
                           eapply hsame_trans; [|apply (hsame_create s3 p)]; split; reflexivity|].
  apply store_ext_add. apply (fs_inv _ _ _ S4).
Qed.

(* no handler but DELETE unbinds an ID, none rebinds one *)
Lemma sstep_store_ext s r : sinv s -> (forall i, r <> SDelete i) -> store_ext s (fst (sstep s r)).
Proof.
  intros I ND.
  destruct r as [url bodyid pf|i| |i|i|i|i|i decodes dup b|i|i|i pos|i l|i l|pf l|i o ls]; cbn [sstep].
  - pose proof (resolve_spec url bodyid (ss_nid s)) as R.
    destruct (resolve url bodyid (ss_nid s)) as [i n']. cbn [fst snd] in R. destruct R as [R1 R2].
    destruct (lookup (ss_store s) i) eqn:L; cbn [fst].
    + split; [auto|simpl; lia].
    + cbn [new_fam].
      pose proof (hsame_new_pfile (ss_nfam s) (fst (new_fam s)) i pf) as [E1 E2].
      cbn [new_fam fst] in E1, E2.
      destruct (new_pfile _ (ss_nfam s) i pf) as [s2 p]. cbn [fst snd] in *.
      split; [|simpl in *; lia]. intros j p' Lj. cbn [set_store ss_store lookup]. rewrite E1. simpl.
      destruct (id_eqb i j) eqn:E; [|exact Lj]. apply id_eqb_eq in E. subst. congruence.
  - destruct (lookup (ss_store s) i); apply store_ext_refl.
  - apply store_ext_refl.
  - destruct (lookup (ss_store s) i); [apply hsame_store_ext, hsame_create|apply store_ext_refl].
  - destruct (lookup (ss_store s) i); apply store_ext_refl.
  - destruct (lookup (ss_store s) i); [apply hsame_store_ext, hsame_create|apply store_ext_refl].
  - exfalso. eapply ND; eauto.
  - destruct (negb decodes); [apply store_ext_refl|].
    destruct (lookup (ss_store s) i) as [p|]; [|apply store_ext_refl].
    destruct dup; [apply store_ext_refl|].
    pose proof (hsame_new_pbatch (fo_fam (ss_file s p)) s false b) as H.
    destruct (new_pbatch s _ false b) as [s1 q]. cbn [fst] in *.
    apply hsame_store_ext. eapply hsame_trans; [exact H|]. split; reflexivity.
  - destruct (lookup (ss_store s) i); apply store_ext_refl.
  - apply store_ext_refl.
  - destruct (lookup (ss_store s) i) as [p|]; [|apply store_ext_refl].
    destruct pos; cbn [fst]; [|apply store_ext_refl]. apply hsame_store_ext. split; reflexivity.
  - destruct (lookup (ss_store s) i) as [p|] eqn:L; [|apply store_ext_refl].
    apply store_ext_flatten; auto. apply (inv_store s I i p). now apply lookup_In.
  - destruct (lookup (ss_store s) i) as [p|] eqn:L; [|apply store_ext_refl].
    apply store_ext_segment; auto. apply (inv_store s I i p). now apply lookup_In.
  - cbn [new_fam].
    assert (S1 : fstep (ss_nfam s) s (fst (new_fam s))) by now apply fstep_new_fam.
    destruct (fstep_new_pfile (ss_nfam s) (ss_nfam s) (fst (new_fam s)) (Client 0) pf (fs_inv _ _ _ S1)) as [S2 [P2 _]]; [simpl; lia|].
    pose proof (hsame_new_pfile (ss_nfam s) (fst (new_fam s)) (Client 0) pf) as H.
    cbn [new_fam fst] in *.
    destruct (new_pfile _ (ss_nfam s) (Client 0) pf) as [s2 p]. cbn [fst snd] in *.
    eapply store_ext_trans; [apply hsame_store_ext; eapply hsame_trans; [apply (hsame_new_fam s)|exact H]|].
    apply store_ext_segment; [apply (fs_inv _ _ _ S2)|apply P2].
  - destruct (lookup (ss_store s) i) as [p|] eqn:L; [|apply store_ext_refl].
    apply store_ext_balance; auto. apply (inv_store s I i p). now apply lookup_In.
Qed.

(* ---------------------------------------------------------------- files of another family are out of reach *)

Lemma classic_delete r : (exists i, r = SDelete i) \/ (forall i, r <> SDelete i).
Proof. destruct r; try (right; intros; discriminate). left. eauto. Qed.

Theorem other_family_unchanged s r j p :
  sinv s -> lookup (ss_store s) j = Some p -> fo_fam (ss_file s p) <> req_fam s r ->
  shows (fst (sstep s r)) j = shows s j.
Proof.
  intros I L F. unfold shows. pose proof (sstep_fstep s r I) as S.
  assert (P : p < ss_nf s) by (apply (inv_store s I j p); now apply lookup_In).
  assert (L' : lookup (ss_store (fst (sstep s r))) j = Some p).
  { destruct (classic_delete r) as [[i ->]|ND].
    - cbn [sstep fst set_store ss_store]. rewrite lookup_remove_neq; [exact L|].
      intros ->. apply F. unfold req_fam. cbn [target]. now rewrite L.
    - now apply (sstep_store_ext s r I ND). }
  rewrite L', L. cbn [option_map]. f_equal. eapply view_frame; eauto.
Qed.

(* ---------------------------------------------------------------- what File.Create writes *)

(* the cell keeps everything but the two batch numbers *)
Definition bshape (b' b : bcell) : Prop :=
  bc_fam b' = bc_fam b /\ bc_iat b' = bc_iat b /\ bc_adv b' = bc_adv b /\ bc_hdr_ok b' = bc_hdr_ok b /\
  bc_odfi b' = bc_odfi b /\ bc_keep b' = bc_keep b /\ bc_svc b' = bc_svc b /\ bc_ents b' = bc_ents b.

Lemma bshape_refl b : bshape b b. Proof. repeat split. Qed.
Lemma bshape_trans a b c : bshape a b -> bshape b c -> bshape a c.
Proof. unfold bshape. intuition congruence. Qed.

(* [cfoot qs s s']: s' differs from s at most in the numbers of the batch cells qs *)
Record cfoot (qs : list N) (s s' : sstate) : Prop := mk_cfoot {
  cf_store : ss_store s' = ss_store s;
  cf_file : ss_file s' = ss_file s;
  cf_ent : ss_ent s' = ss_ent s;
  cf_nid : ss_nid s' = ss_nid s; cf_nf : ss_nf s' = ss_nf s; cf_nb : ss_nb s' = ss_nb s;
  cf_ne : ss_ne s' = ss_ne s; cf_nfam : ss_nfam s' = ss_nfam s;
  cf_bat : forall q, ~ In q qs -> ss_bat s' q = ss_bat s q;
  cf_shape : forall q, bshape (ss_bat s' q) (ss_bat s q) }.

Lemma cfoot_refl qs s : cfoot qs s s.
Proof. split; auto using bshape_refl. Qed.

Lemma cfoot_trans qs s0 s1 s2 : cfoot qs s0 s1 -> cfoot qs s1 s2 -> cfoot qs s0 s2.
Proof.
  intros A B. destruct A, B. split; try congruence.
  - intros q Q. rewrite cf_bat1, cf_bat0; auto.
  - intros q. eapply bshape_trans; eauto.
Qed.

Lemma cfoot_incl qs qs' s s' : incl qs qs' -> cfoot qs s s' -> cfoot qs' s s'.
Proof. intros H []. split; auto. Qed.

Lemma cfoot_set_num qs s q b : In q qs -> bshape b (ss_bat s q) -> cfoot qs s (set_bat s q b).
Proof.
  intros Q B. split; simpl; auto.
  - intros q' Q'. apply hupd_neq. congruence.
  - intros q'. destruct (hupd_cases (ss_bat s) q b q') as [[-> ->]|[_ ->]]; [exact B|apply bshape_refl].
Qed.

Lemma cfoot_renum : forall qs s seq, cfoot qs s (renum s seq qs).
Proof.
  induction qs as [|q r IH]; intros s seq; simpl; [apply cfoot_refl|].
  eapply cfoot_trans; [|eapply cfoot_incl; [|apply IH]; intros x X; now right].
  destruct (bc_num (ss_bat s q) <=? 1)%Z; [|apply cfoot_refl].
  apply cfoot_set_num; [now left|repeat split].
Qed.

Lemma cfoot_renum_adv : forall qs s seq, cfoot qs s (fst (renum_adv s seq qs)).
Proof.
  induction qs as [|q r IH]; intros s seq; simpl; [apply cfoot_refl|].
  destruct (bc_adv (ss_bat s q)); [|apply cfoot_refl].
  eapply cfoot_trans; [|eapply cfoot_incl; [|apply IH]; intros x X; now right].
  destruct (bc_num (ss_bat s q) <=? 1)%Z; [|apply cfoot_refl].
  apply cfoot_set_num; [now left|repeat split].
Qed.

(* File.Create on object p: the numbers of p's batch cells and p's file control, nothing else *)
Record create_foot (s : sstate) (p : N) (s' : sstate) : Prop := mk_create_foot {
  cr_store : ss_store s' = ss_store s;
  cr_ent : ss_ent s' = ss_ent s;
  cr_nid : ss_nid s' = ss_nid s; cr_nf : ss_nf s' = ss_nf s; cr_nb : ss_nb s' = ss_nb s;
  cr_ne : ss_ne s' = ss_ne s; cr_nfam : ss_nfam s' = ss_nfam s;
  cr_other : forall p', p' <> p -> ss_file s' p' = ss_file s p';
  cr_self : exists c, ss_file s' p = fset_ctl (ss_file s p) c;
  cr_bat : forall q, ~ In q (all_bats (ss_file s p)) -> ss_bat s' q = ss_bat s q;
  cr_shape : forall q, bshape (ss_bat s' q) (ss_bat s q) }.

Lemma fset_ctl_self g : fset_ctl g (fo_ctl g) = g. Proof. now destruct g. Qed.

Lemma create_foot_of_cfoot s p s' : cfoot (all_bats (ss_file s p)) s s' -> create_foot s p s'.
Proof.
  intros []. split; auto.
  - intros p' _. now rewrite cf_file0.
  - exists (fo_ctl (ss_file s p)). now rewrite cf_file0, fset_ctl_self.
Qed.

Lemma s_create_foot s p : create_foot s p (fst (s_create s p)).
Proof.
  unfold s_create.
  destruct (negb (co_skip (fo_opts (ss_file s p))) && negb (co_nohdr (fo_opts (ss_file s p))) && negb (fo_hdr_ok (ss_file s p)));
    [apply create_foot_of_cfoot, cfoot_refl|].
  destruct (negb (co_skip (fo_opts (ss_file s p))) && negb (co_zero (fo_opts (ss_file s p))) && is_nil (all_bats (ss_file s p)));
    [apply create_foot_of_cfoot, cfoot_refl|].
  destruct (existsb (fun q => bc_adv (ss_bat s q)) (fo_bats (ss_file s p))).
  - destruct (fo_iats (ss_file s p)) eqn:E; [|apply create_foot_of_cfoot, cfoot_refl].
    apply create_foot_of_cfoot. eapply cfoot_incl; [|apply cfoot_renum_adv]. unfold all_bats. apply incl_appl, incl_refl.
  - cbn [fst]. pose proof (cfoot_renum (all_bats (ss_file s p)) s 1%Z) as [].
    split; cbn [set_file ss_store ss_ent ss_nid ss_nf ss_nb ss_ne ss_nfam ss_file ss_bat]; auto.
    + intros p' N. rewrite hupd_neq; [now rewrite cf_file0|exact N].
    + eexists. rewrite hupd_eq, cf_file0. reflexivity.
Qed.

Definition share_bat (s : sstate) (p p' : N) : Prop :=
  exists q, In q (all_bats (ss_file s p)) /\ In q (all_bats (ss_file s p')).

(* another file object that holds none of p's batch cells shows the same after File.Create on p *)
Lemma create_other_view s p p' : p' <> p -> ~ share_bat s p p' ->
  view_file (fst (s_create s p)) p' = view_file s p'.
Proof.
  intros N NS. destruct (s_create_foot s p) as []. 
  apply view_file_ext; [now apply cr_other0|].
  intros q Q. apply view_bat_ext; [|intros e _; now rewrite cr_ent0].
  apply cr_bat0. intro X. apply NS. exists q. split; assumption.
Qed.

(* what the object itself shows after its Create: same batches and entries, new numbers and file control *)
Lemma create_keeps_traces s p q : 
  vb_traces (view_bat (fst (s_create s p)) q) = vb_traces (view_bat s q).
Proof.
  destruct (s_create_foot s p) as []. unfold view_bat. cbn [vb_traces].
  destruct (cr_shape0 q) as [_ [_ [_ [_ [_ [_ [_ E]]]]]]]. rewrite E, cr_ent0. reflexivity.
Qed.

(* ---------------------------------------------------------------- which requests reach another file object *)

Lemma view_set_file_other s p g p' : p' <> p -> view_file (set_file s p g) p' = view_file s p'.
Proof.
  intro N. apply view_file_ext; [simpl; now apply hupd_neq|]. intros q _. now apply view_bat_ext.
Qed.

Lemma shows_same_heap s s' j : ss_store s' = ss_store s -> (forall p, lookup (ss_store s) j = Some p -> view_file s' p = view_file s p) ->
  shows s' j = shows s j.
Proof. intros E V. unfold shows. rewrite E. destruct (lookup (ss_store s) j) as [p|] eqn:L; simpl; [|reflexivity]. now rewrite V. Qed.

(* requests that look no stored object up, and requests whose handler only marshals / validates:
   whatever any ID shows stays *)
Theorem pure_requests_change_nothing s r j p' :
  sinv s -> lookup (ss_store s) j = Some p' -> (rclass_of r = KNone \/ rclass_of r = KPure) ->
  shows (fst (sstep s r)) j = shows s j.
Proof.
  intros I L C.
  assert (FR : rclass_of r = KNone -> shows (fst (sstep s r)) j = shows s j).
  { intro K. apply (other_family_unchanged s r j p' I L).
    assert (T : target r = None) by (destruct r; try discriminate; reflexivity).
    unfold req_fam. rewrite T.
    assert (P : p' < ss_nf s) by (apply (inv_store s I j p'); now apply lookup_In).
    pose proof (proj1 (inv_file s I p' P)). lia. }
  destruct C as [C|C]; [now apply FR|].
  destruct r; try discriminate; cbn [sstep]; try (destruct (lookup (ss_store s) i)); reflexivity.
Qed.

(* delete, add batch, delete batch touch the ID map / the Batches list of the object they address, nothing below it *)
Theorem edit_stays_in_object s r i p j p' :
  sinv s -> rclass_of r = KEdit -> target r = Some i -> lookup (ss_store s) i = Some p ->
  lookup (ss_store s) j = Some p' -> p' <> p ->
  shows (fst (sstep s r)) j = shows s j.
Proof.
  intros I C T Li Lj N.
  assert (NE : j <> i) by (intros ->; congruence).
  assert (P' : p' < ss_nf s) by (apply (inv_store s I j p'); now apply lookup_In).
  destruct r; try discriminate; cbn [target] in T; inversion T; subst; cbn [sstep].
  - cbn [fst]. unfold shows. cbn [set_store ss_store]. rewrite lookup_remove_neq by congruence.
    rewrite Lj. reflexivity.
  - destruct (negb decodes); [reflexivity|]. rewrite Li. destruct dup; [reflexivity|].
    set (f := fo_fam (ss_file s p)).
    destruct (fstep_new_pbatch (fo_fam (ss_file s p') + 1) f s false b I) as [S1 _].
    pose proof (hsame_new_pbatch f s false b) as [E1 _].
    destruct (new_pbatch s f false b) as [s1 q]. cbn [fst snd] in *.
    apply shows_same_heap; [exact E1|]. intros p0 L0. assert (p0 = p') by congruence. subst p0.
    rewrite view_set_file_other by exact N.
    eapply view_frame; eauto. lia.
  - rewrite Li. destruct pos; [|reflexivity]. cbn [fst].
    apply shows_same_heap; [reflexivity|]. intros p0 L0. assert (p0 = p') by congruence. subst p0.
    now apply view_set_file_other.
Qed.

(* contents and build reach another file object only through a batch cell both hold *)
Theorem create_stays_in_batches s r i p j p' :
  sinv s -> rclass_of r = KCreate -> target r = Some i -> lookup (ss_store s) i = Some p ->
  lookup (ss_store s) j = Some p' -> p' <> p -> ~ share_bat s p p' ->
  shows (fst (sstep s r)) j = shows s j.
Proof.
  intros I C T Li Lj N NS.
  destruct r; try discriminate; cbn [target] in T; inversion T; subst; cbn [sstep]; rewrite Li; cbn [fst];
    (apply shows_same_heap; [apply (cr_store _ _ _ (s_create_foot s p))|]);
    intros p0 L0; assert (p0 = p') by congruence; subst p0; now apply create_other_view.
Qed.

(* flatten, segment, balance reach only file objects of the family of the one they address *)
Theorem derive_stays_in_family s r i p j p' :
  sinv s -> target r = Some i -> lookup (ss_store s) i = Some p ->
  lookup (ss_store s) j = Some p' -> fo_fam (ss_file s p') <> fo_fam (ss_file s p) ->
  shows (fst (sstep s r)) j = shows s j.
Proof.
  intros I T Li Lj F. apply (other_family_unchanged s r j p' I Lj). unfold req_fam. now rewrite T, Li.
Qed.

(* a request whose target is not stored changes nothing *)
Theorem unknown_target_changes_nothing s r i :
  target r = Some i -> lookup (ss_store s) i = None -> (forall k, r <> SDelete k) -> fst (sstep s r) = s.
Proof.
  intros T L ND. destruct r; try discriminate; cbn [target] in T; inversion T; subst; cbn [sstep];
    try (rewrite L; reflexivity); try reflexivity.
  - exfalso. eapply ND; eauto.
  - destruct (negb decodes); [reflexivity|]. now rewrite L.
Qed.

(* ---------------------------------------------------------------- DELETE *)

(* DELETE unbinds one ID and touches no object: every other ID shows what it showed — the
   source of a derivation when the derived file is deleted, the derived file when the
   source is, the second ID of a balanced file *)
Theorem delete_keeps_others s i j : j <> i -> shows (fst (sstep s (SDelete i))) j = shows s j.
Proof.
  intro N. cbn [sstep fst]. unfold shows. cbn [set_store ss_store].
  rewrite lookup_remove_neq by congruence. reflexivity.
Qed.

Theorem delete_then_not_shown s i : shows (fst (sstep s (SDelete i))) i = None.
Proof. cbn [sstep fst]. unfold shows. cbn [set_store ss_store]. now rewrite lookup_remove_eq. Qed.

(* ---------------------------------------------------------------- what a flattened file holds *)

(* the Batches / IATBatches lists of the objects that exist stay as they are *)
Definition lkept (s s' : sstate) : Prop :=
  ss_nf s <= ss_nf s' /\ ss_nb s <= ss_nb s' /\
  forall p, p < ss_nf s -> fo_bats (ss_file s' p) = fo_bats (ss_file s p) /\ fo_iats (ss_file s' p) = fo_iats (ss_file s p).

Lemma lkept_refl s : lkept s s. Proof. repeat split; lia. Qed.

Lemma lkept_trans s0 s1 s2 : lkept s0 s1 -> lkept s1 s2 -> lkept s0 s2.
Proof.
  intros [A [B C]] [D [E F]]. split; [lia|]. split; [lia|]. intros p P.
  destruct (C p P) as [C1 C2]. destruct (F p ltac:(lia)) as [F1 F2]. split; congruence.
Qed.

Lemma lkept_files s s' : ss_file s' = ss_file s -> ss_nf s <= ss_nf s' -> ss_nb s <= ss_nb s' -> lkept s s'.
Proof. intros E A B. split; [exact A|]. split; [exact B|]. intros p _. now rewrite E. Qed.

Lemma lkept_create s p : lkept s (fst (s_create s p)).
Proof.
  destruct (s_create_foot s p) as []. split; [lia|]. split; [lia|]. intros p' _.
  destruct (N.eq_dec p' p) as [->|NE]; [|now rewrite cr_other0].
  destruct cr_self0 as [c ->]. split; reflexivity.
Qed.

Lemma file_retrace odfi keep : forall reach es s seq, ss_file (retrace_cells s odfi keep seq reach es) = ss_file s
  /\ ss_nf (retrace_cells s odfi keep seq reach es) = ss_nf s /\ ss_nb (retrace_cells s odfi keep seq reach es) = ss_nb s
  /\ ss_bat (retrace_cells s odfi keep seq reach es) = ss_bat s.
Proof.
  induction reach as [|k IH]; intros es s seq; simpl; [auto|]. destruct es as [|e r]; [auto|].
  destruct (IH r (set_ent s e (retrace_cell odfi keep seq (ss_ent s e))) (seq + 1)%Z) as [A [B [C D]]].
  rewrite A, B, C, D. auto.
Qed.

Lemma file_build s q reach : ss_file (s_build s q reach) = ss_file s /\ ss_nf (s_build s q reach) = ss_nf s
  /\ ss_nb (s_build s q reach) = ss_nb s /\ ss_bat (s_build s q reach) = ss_bat s.
Proof. unfold s_build. destruct (bc_hdr_ok (ss_bat s q)); [apply file_retrace|auto]. Qed.

(* the consolidated batches are new cells *)
Lemma flat_group_fresh p g s bs js n0 :
  n0 <= ss_nb s -> (forall q, In q (bs ++ js) -> n0 <= q) ->
  let r := flat_group p (s, (bs, js)) g in
  ss_file (fst r) = ss_file s /\ ss_nf (fst r) = ss_nf s /\ ss_nb s <= ss_nb (fst r) /\
  (forall q, In q (fst (snd r) ++ snd (snd r)) -> n0 <= q).
Proof.
  intros L F. unfold flat_group. destruct (somes (map (bat_at s p) (g_srcs g))) as [|q0 qs]; cbn zeta.
  - cbn [fst snd]. repeat split; auto; lia.
  - cbn [new_bat]. match goal with |- context [s_build ?a ?b ?c] => destruct (file_build a b c) as [A [B [C D]]] end.
    destruct (bc_iat (ss_bat s q0)); cbn [fst snd]; rewrite A, B, C; cbn [ss_file ss_nf ss_nb];
      (split; [reflexivity|]; split; [reflexivity|]; split; [lia|]); intros q X;
      repeat (apply in_app_or in X; destruct X as [X|X]); try (apply F; apply in_or_app; auto; fail);
      destruct X as [<-|[]]; lia.
Qed.

Lemma fold_flat_fresh p n0 : forall gs s bs js,
  n0 <= ss_nb s -> (forall q, In q (bs ++ js) -> n0 <= q) ->
  let r := fold_left (flat_group p) gs (s, (bs, js)) in
  ss_file (fst r) = ss_file s /\ ss_nf (fst r) = ss_nf s /\ ss_nb s <= ss_nb (fst r) /\
  (forall q, In q (fst (snd r) ++ snd (snd r)) -> n0 <= q).
Proof.
  induction gs as [|g r IH]; intros s bs js L F; cbn [fold_left].
  - cbn [fst snd]. repeat split; auto; lia.
  - destruct (flat_group_fresh p g s bs js n0 L F) as [A [B [C D]]].
    destruct (flat_group p (s, (bs, js)) g) as [s1 [bs1 js1]]. cbn [fst snd] in *.
    destruct (IH s1 bs1 js1 ltac:(lia) D) as [A2 [B2 [C2 D2]]].
    rewrite A2, B2, A, B. repeat split; auto; lia.
Qed.

(* After a flatten that stored its result: the new ID is bound to a new object whose batch
   cells are all new; the Batches lists of the objects that existed are as they were.  So the
   flattened file shares NO BATCH CELL with any other file object (only entry cells). *)
Theorem flatten_result_cells s p gs hdr s1 :
  sinv s -> p < ss_nf s -> s_create s p = (s1, SOk) ->
  let s' := s_flatten s p (FlatOk gs hdr) in
  ss_store s' = (Gen (ss_nid s), ss_nf s) :: ss_store s /\
  (forall q, In q (all_bats (ss_file s' (ss_nf s))) -> ss_nb s <= q) /\
  lkept s s'.
Proof.
  intros I P C. unfold s_flatten. rewrite C.
  pose proof (hsame_create s p) as [H1a H1b]. pose proof (lkept_create s p) as K1.
  destruct (s_create_foot s p) as []. rewrite C in *. cbn [fst] in *.
  destruct (fold_flat_fresh p (ss_nb s1) gs s1 [] []) as [A [B [D F]]]; [lia|intros q []|].
  pose proof (hsame_fold_flat p gs s1 [] []) as [H2a H2b].
  destruct (fold_left (flat_group p) gs (s1, ([], []))) as [s2 [bs js]]. cbn [fst snd] in *.
  set (g := mkfo _ _ _ _ _ bs js _).
  cbn [new_file fst snd].
  set (s3 := mkss (ss_store s2) (hupd (ss_file s2) (ss_nf s2) g) (ss_bat s2) (ss_ent s2) (ss_nid s2) (ss_nf s2 + 1) (ss_nb s2) (ss_ne s2) (ss_nfam s2)).
  pose proof (hsame_create s3 (ss_nf s2)) as [H4a H4b].
  destruct (s_create_foot s3 (ss_nf s2)) as [X1 X2 X3 X4 X5 X6 X7 X8 X9 X10 X11].
  cbn [set_store ss_store ss_file].
  rewrite H4b, H4a. cbn [s3 ss_nid ss_store]. rewrite H2b, H1b, H2a, H1a.
  assert (NF : ss_nf s2 = ss_nf s) by congruence.
  split; [now rewrite NF|].
  split.
  - rewrite <- NF. destruct X9 as [c ->]. cbn [s3 ss_file]. rewrite hupd_eq. unfold all_bats. cbn [fset_ctl fo_bats fo_iats g].
    intros q Q. specialize (F q Q). lia.
  - eapply lkept_trans; [exact K1|]. eapply lkept_trans; [apply (lkept_files s1 s2); [exact A|lia|lia]|].
    eapply lkept_trans; [|apply (lkept_create s3 (ss_nf s2))].
    split; [cbn [s3 ss_nf]; lia|]. split; [cbn [s3 ss_nb]; lia|]. intros p' P'. cbn [s3 ss_file]. rewrite hupd_neq by lia. auto.
Qed.

Corollary flatten_result_shares_no_batch s p gs hdr s1 p' :
  sinv s -> p < ss_nf s -> s_create s p = (s1, SOk) -> p' < ss_nf s ->
  ~ share_bat (s_flatten s p (FlatOk gs hdr)) (ss_nf s) p'.
Proof.
  intros I P C P' [q [Q1 Q2]].
  destruct (flatten_result_cells s p gs hdr s1 I P C) as [_ [F [_ [_ K]]]].
  specialize (F q Q1). destruct (K p' P') as [K1 K2]. unfold all_bats in Q2. rewrite K1, K2 in Q2.
  destruct (reach_bat s p' q I P' Q2). lia.
Qed.

(* After POST /files/{id}/flatten stored its result under g: a request addressed to g whose handler
   only marshals / validates (get, validate, batch lookups), edits the ID map or g's own Batches
   list (delete, add batch, delete batch) or runs File.Create on g (contents, build) leaves
   every other file object as it is — the file g was made from included. *)
Theorem plain_requests_on_flattened_file s i p gs hdr s1 r j p' :
  sinv s -> lookup (ss_store s) i = Some p -> s_create s p = (s1, SOk) ->
  let s' := fst (sstep s (SFlatten i (FlatOk gs hdr))) in
  target r = Some (Gen (ss_nid s)) ->
  (rclass_of r = KPure \/ rclass_of r = KEdit \/ rclass_of r = KCreate) ->
  lookup (ss_store s') j = Some p' -> p' <> ss_nf s ->
  shows (fst (sstep s' r)) j = shows s' j.
Proof.
  intros I L C s' T K Lj N.
  assert (P : p < ss_nf s) by (apply (inv_store s I i p); now apply lookup_In).
  assert (E : s' = s_flatten s p (FlatOk gs hdr)) by (unfold s'; cbn [sstep]; now rewrite L).
  destruct (flatten_result_cells s p gs hdr s1 I P C) as [ST [F K']]. rewrite <- E in ST, F, K'.
  pose proof (sinv_step s (SFlatten i (FlatOk gs hdr)) I) as I'. fold s' in I'.
  assert (Lg : lookup (ss_store s') (Gen (ss_nid s)) = Some (ss_nf s)) by (rewrite ST; cbn [lookup]; now rewrite id_eqb_refl).
  assert (P' : p' < ss_nf s).
  { rewrite ST in Lj. cbn [lookup] in Lj. destruct (id_eqb (Gen (ss_nid s)) j).
    - exfalso. apply N. now inversion Lj.
    - apply (inv_store s I j p'). now apply lookup_In. }
  destruct K as [K|[K|K]].
  - apply (pure_requests_change_nothing s' r j p' I' Lj). now right.
  - apply (edit_stays_in_object s' r (Gen (ss_nid s)) (ss_nf s) j p' I' K T Lg Lj N).
  - apply (create_stays_in_batches s' r (Gen (ss_nid s)) (ss_nf s) j p' I' K T Lg Lj N).
    rewrite E. apply (flatten_result_shares_no_batch s p gs hdr s1 p' I P C P').
Qed.

(* the file control File.Create builds is C05's *)
Lemma sumc_sumb f bs : sumc f (map Offsets.b_ctl bs) = Offsets.sumb (fun b => f (Offsets.b_ctl b)) bs.
Proof. induction bs as [|b r IH]; simpl; [reflexivity|]. now rewrite IH. Qed.

Lemma fctl_of_file_control bs : fctl_of (map Offsets.b_ctl bs) = Offsets.file_control bs.
Proof.
  unfold fctl_of, Offsets.file_control. rewrite map_length, !sumc_sumb. reflexivity.
Qed.

(* C17, phase 4 — stored files the read routes leave alone: the class is decidable
   ([file_stable]), every read request on a stable file changes nothing any ID shows, what
   flatten / segment store is stable again (proofs about ServerShare.v). *)
From Coq Require Import List ZArith NArith Bool Lia.
Import ListNotations.
From ACH Require Import Server ServerFacts ServerLib ServerShare ServerShareFacts.
From ACH Require Offsets.
Open Scope N_scope.

(* ---------------------------------------------------------------- the cells that exist stay as they are *)

Record pext (s s' : sstate) : Prop := mk_pext {
  px_nf : ss_nf s <= ss_nf s';
  px_nb : ss_nb s <= ss_nb s';
  px_ne : ss_ne s <= ss_ne s';
  px_nfam : ss_nfam s <= ss_nfam s';
  px_file : forall p, p < ss_nf s -> ss_file s' p = ss_file s p;
  px_bat : forall q, q < ss_nb s -> ss_bat s' q = ss_bat s q;
  px_ent : forall e, e < ss_ne s -> ss_ent s' e = ss_ent s e }.

Lemma pext_refl s : pext s s.
Proof. split; auto; lia. Qed.

Lemma pext_trans s0 s1 s2 : pext s0 s1 -> pext s1 s2 -> pext s0 s2.
Proof.
  intros [] []. split; try lia.
  - intros p P. rewrite px_file1, px_file0; auto; lia.
  - intros q Q. rewrite px_bat1, px_bat0; auto; lia.
  - intros e E. rewrite px_ent1, px_ent0; auto; lia.
Qed.

Lemma pext_set_ent s0 s e c : pext s0 s -> (e < ss_ne s0 -> c = ss_ent s e) -> pext s0 (set_ent s e c).
Proof.
  intros [] H. split; simpl; auto.
  intros e' E'. destruct (hupd_cases (ss_ent s) e c e') as [[-> ->]|[_ ->]]; auto. rewrite H; auto.
Qed.

Lemma pext_set_bat s0 s q b : pext s0 s -> (q < ss_nb s0 -> b = ss_bat s q) -> pext s0 (set_bat s q b).
Proof.
  intros [] H. split; simpl; auto.
  intros q' Q'. destruct (hupd_cases (ss_bat s) q b q') as [[-> ->]|[_ ->]]; auto. rewrite H; auto.
Qed.

Lemma pext_set_file s0 s p g : pext s0 s -> (p < ss_nf s0 -> g = ss_file s p) -> pext s0 (set_file s p g).
Proof.
  intros [] H. split; simpl; auto.
  intros p' P'. destruct (hupd_cases (ss_file s) p g p') as [[-> ->]|[_ ->]]; auto. rewrite H; auto.
Qed.

Lemma pext_new_ent s0 s c : pext s0 s -> pext s0 (fst (new_ent s c)).
Proof. intros []. split; simpl; auto; try lia. intros e E. rewrite hupd_neq; auto. lia. Qed.

Lemma pext_new_bat s0 s c : pext s0 s -> pext s0 (fst (new_bat s c)).
Proof. intros []. split; simpl; auto; try lia. intros e E. rewrite hupd_neq; auto. lia. Qed.

Lemma pext_new_file s0 s c : pext s0 s -> pext s0 (fst (new_file s c)).
Proof. intros []. split; simpl; auto; try lia. intros e E. rewrite hupd_neq; auto. lia. Qed.

Lemma pext_set_store s0 s l n : pext s0 s -> pext s0 (set_store s l n).
Proof. intros []. split; simpl; auto. Qed.

(* -- what an ID shows, and whether its object is stable, are read off those cells *)

Lemma view_pext s s' p : sinv s -> pext s s' -> p < ss_nf s -> view_file s' p = view_file s p.
Proof.
  intros I X P. apply view_file_ext; [now apply (px_file _ _ X)|].
  intros q Q. destruct (reach_bat s p q I P Q) as [QL _].
  apply view_bat_ext; [now apply (px_bat _ _ X)|].
  intros e E. destruct (reach_ent s q e I QL E) as [EL _]. now apply (px_ent _ _ X).
Qed.

Lemma nums_fix_ext s s' : forall qs seq, (forall q, In q qs -> ss_bat s' q = ss_bat s q) ->
  nums_fix s' seq qs = nums_fix s seq qs.
Proof.
  induction qs as [|q r IH]; intros seq H; simpl; [reflexivity|].
  rewrite H by now left. rewrite IH; [reflexivity|]. intros q' Q'. apply H. now right.
Qed.

Lemma ctls_ext s s' qs : (forall q, In q qs -> ss_bat s' q = ss_bat s q) -> ctls s' qs = ctls s qs.
Proof. intro H. unfold ctls. apply map_ext_in. intros q Q. now rewrite H. Qed.

Lemma existsb_ext_in {A} (f g : A -> bool) l : (forall a, In a l -> f a = g a) -> existsb f l = existsb g l.
Proof.
  induction l as [|a r IH]; simpl; intro H; [reflexivity|]. rewrite H by now left. rewrite IH; auto.
Qed.

Lemma forallb_ext_in {A} (f g : A -> bool) l : (forall a, In a l -> f a = g a) -> forallb f l = forallb g l.
Proof.
  induction l as [|a r IH]; simpl; intro H; [reflexivity|]. rewrite H by now left. rewrite IH; auto.
Qed.

Lemma bat_calm_ext s s' q : ss_bat s' q = ss_bat s q ->
  (forall e, In e (bc_ents (ss_bat s q)) -> ss_ent s' e = ss_ent s e) -> bat_calm s' q = bat_calm s q.
Proof.
  intros B E. unfold bat_calm. rewrite B. f_equal. f_equal.
  apply forallb_ext_in. intros e X. unfold ent_quiet. now rewrite E.
Qed.

Lemma file_fix_ext s s' p : ss_file s' p = ss_file s p ->
  (forall q, In q (all_bats (ss_file s p)) -> ss_bat s' q = ss_bat s q) -> file_fix s' p = file_fix s p.
Proof.
  intros F B. unfold file_fix, guards_ok. rewrite F.
  rewrite (nums_fix_ext s s' _ _ B), (ctls_ext s s' _ B).
  rewrite (existsb_ext_in (fun q => bc_adv (ss_bat s' q)) (fun q => bc_adv (ss_bat s q))); [reflexivity|].
  intros q Q. rewrite B; [reflexivity|]. unfold all_bats. apply in_or_app. now left.
Qed.

Lemma lists_ok_ext s s' p : ss_file s' p = ss_file s p ->
  (forall q, In q (all_bats (ss_file s p)) -> ss_bat s' q = ss_bat s q) -> lists_ok s' p = lists_ok s p.
Proof.
  intros F B. unfold lists_ok. rewrite F. f_equal; [f_equal|]; apply forallb_ext_in; intros q Q; rewrite B; auto;
    unfold all_bats; apply in_or_app; auto.
Qed.

Lemma file_stable_pext s s' p : sinv s -> pext s s' -> p < ss_nf s -> file_stable s' p = file_stable s p.
Proof.
  intros I X P. unfold file_stable.
  assert (B : forall q, In q (all_bats (ss_file s p)) -> ss_bat s' q = ss_bat s q).
  { intros q Q. destruct (reach_bat s p q I P Q). now apply (px_bat _ _ X). }
  rewrite (file_fix_ext s s' p (px_file _ _ X p P) B), (lists_ok_ext s s' p (px_file _ _ X p P) B).
  rewrite (px_file _ _ X p P). f_equal. f_equal.
  apply forallb_ext_in. intros q Q. apply bat_calm_ext; [now apply B|].
  destruct (reach_bat s p q I P Q) as [QL _].
  intros e E. destruct (reach_ent s q e I QL E). now apply (px_ent _ _ X).
Qed.

Lemma nodupb_NoDup l : nodupb l = true <-> NoDup l.
Proof.
  induction l as [|a r IH]; simpl; [split; [constructor|reflexivity]|].
  rewrite andb_true_iff, IH, negb_true_iff. split.
  - intros [A B]. constructor; [|exact B]. intro X. apply not_true_iff_false in A. apply A.
    apply existsb_exists. exists a. split; [exact X|apply N.eqb_refl].
  - intro ND. inversion ND as [|? ? NI ND']; subst. split; [|exact ND'].
    apply not_true_iff_false. intro X. apply existsb_exists in X. destruct X as [x [X E]].
    apply N.eqb_eq in E. subst. contradiction.
Qed.

(* ---------------------------------------------------------------- File.Create on a fixed object *)

Lemma bset_num_same b seq : bc_num b = seq -> Offsets.c_num (bc_ctl b) = seq -> bset_num b seq = b.
Proof. destruct b as [? ? ? ? ? ? ? ? ? []]. simpl. intros -> ->. reflexivity. Qed.

Lemma num_fix_le1 seq b : num_fix seq b = true -> (bc_num b <=? 1)%Z = true -> bset_num b seq = b.
Proof.
  unfold num_fix. intros F L. apply Z.leb_le in L.
  apply orb_true_iff in F. destruct F as [F|F]; [apply Z.ltb_lt in F; lia|].
  apply andb_true_iff in F. destruct F as [A B]. apply Z.eqb_eq in A, B. now apply bset_num_same.
Qed.

(* every old cell in the list is at a position File.Create keeps *)
Definition renum_safe (s0 s : sstate) (seq : Z) (qs : list N) : Prop :=
  forall k q, nth_error qs k = Some q -> q < ss_nb s0 -> num_fix (seq + Z.of_nat k) (ss_bat s q) = true.

Lemma pext_renum s0 : forall qs s seq, pext s0 s -> renum_safe s0 s seq qs -> pext s0 (renum s seq qs).
Proof.
  induction qs as [|q r IH]; intros s seq X R; simpl; [exact X|].
  assert (H0 : q < ss_nb s0 -> num_fix seq (ss_bat s q) = true).
  { intro Q. specialize (R O q eq_refl Q). now rewrite Z.add_0_r in R. }
  apply IH.
  - destruct (bc_num (ss_bat s q) <=? 1)%Z eqn:L; [|exact X].
    apply pext_set_bat; [exact X|]. intro Q. now apply num_fix_le1; auto.
  - intros k q' N Q'. specialize (R (S k) q' N Q').
    replace (seq + 1 + Z.of_nat k)%Z with (seq + Z.of_nat (S k))%Z by lia.
    destruct (bc_num (ss_bat s q) <=? 1)%Z eqn:L; [|exact R].
    simpl. destruct (hupd_cases (ss_bat s) q (bset_num (ss_bat s q) seq) q') as [[-> ->]|[_ ->]]; [|exact R].
    rewrite (num_fix_le1 seq (ss_bat s q)); auto.
Qed.

Lemma nums_fix_nth s : forall qs seq, nums_fix s seq qs = true ->
  forall k q, nth_error qs k = Some q -> num_fix (seq + Z.of_nat k) (ss_bat s q) = true.
Proof.
  induction qs as [|q r IH]; intros seq F k q' N; [destruct k; discriminate|].
  simpl in F. apply andb_true_iff in F. destruct F as [F1 F2].
  destruct k as [|k]; simpl in N.
  - inversion N. subst. now rewrite Z.add_0_r.
  - replace (seq + Z.of_nat (S k))%Z with (seq + 1 + Z.of_nat k)%Z by lia. eapply IH; eauto.
Qed.

Lemma nums_fix_safe s0 s qs seq : nums_fix s seq qs = true -> renum_safe s0 s seq qs.
Proof. intros F k q N _. eapply nums_fix_nth; eauto. Qed.

Lemma fctl_eqb_eq a b : fctl_eqb a b = true -> a = b.
Proof.
  unfold fctl_eqb. intro H. repeat (apply andb_true_iff in H; destruct H as [H ?]).
  repeat match goal with X : (_ =? _)%Z = true |- _ => apply Z.eqb_eq in X end.
  destruct a, b; simpl in *; congruence.
Qed.

Lemma fctl_eqb_refl a : fctl_eqb a a = true.
Proof. unfold fctl_eqb. now rewrite !Z.eqb_refl. Qed.

Lemma renum_noop : forall qs s seq, nums_fix s seq qs = true -> forall q, ss_bat (renum s seq qs) q = ss_bat s q.
Proof.
  induction qs as [|a r IH]; intros s seq F q; simpl; [reflexivity|].
  simpl in F. apply andb_true_iff in F. destruct F as [F1 F2].
  destruct (bc_num (ss_bat s a) <=? 1)%Z eqn:L; [|now apply IH].
  assert (E : forall q', ss_bat (set_bat s a (bset_num (ss_bat s a) seq)) q' = ss_bat s q').
  { intro q'. simpl. rewrite (num_fix_le1 seq (ss_bat s a) F1 L).
    destruct (hupd_cases (ss_bat s) a (ss_bat s a) q') as [[-> ->]|[_ ->]]; reflexivity. }
  rewrite IH; [apply E|]. rewrite (nums_fix_ext s _ r (seq + 1)%Z); [exact F2|]. intros; apply E.
Qed.

(* File.Create on an object that is fixed — or on a new object all of whose batch cells are
   new — leaves every cell that existed as it is *)
Lemma pext_create_fix s0 s p : pext s0 s -> (p < ss_nf s0 -> file_fix s p = true) ->
  (p < ss_nf s0 \/ (forall q, In q (all_bats (ss_file s p)) -> ss_nb s0 <= q) /\
                   existsb (fun q => bc_adv (ss_bat s q)) (fo_bats (ss_file s p)) = false) ->
  pext s0 (fst (s_create s p)).
Proof.
  intros X F C. unfold s_create.
  destruct (negb (co_skip (fo_opts (ss_file s p))) && negb (co_nohdr (fo_opts (ss_file s p))) && negb (fo_hdr_ok (ss_file s p))) eqn:G1;
    [exact X|].
  destruct (negb (co_skip (fo_opts (ss_file s p))) && negb (co_zero (fo_opts (ss_file s p))) && is_nil (all_bats (ss_file s p))) eqn:G2;
    [exact X|].
  assert (NA : p < ss_nf s0 -> existsb (fun q => bc_adv (ss_bat s q)) (fo_bats (ss_file s p)) = false /\
               nums_fix s 1 (all_bats (ss_file s p)) = true /\
               fo_ctl (ss_file s p) = fctl_of (ctls s (all_bats (ss_file s p)))).
  { intro P. specialize (F P). unfold file_fix, guards_ok in F. rewrite G1, G2 in F. simpl in F.
    apply andb_true_iff in F. destruct F as [F F3]. apply andb_true_iff in F. destruct F as [F1 F2].
    apply negb_true_iff in F1. apply fctl_eqb_eq in F3. auto. }
  destruct (existsb (fun q => bc_adv (ss_bat s q)) (fo_bats (ss_file s p))) eqn:A.
  - exfalso. destruct C as [P|[_ C]]; [destruct (NA P)|]; discriminate.
  - cbn [fst]. set (s1 := renum s 1 (all_bats (ss_file s p))).
    assert (X1 : pext s0 s1).
    { apply pext_renum; [exact X|]. destruct C as [P|[C _]].
      - apply nums_fix_safe. apply (NA P).
      - intros k q N Q. apply nth_error_In in N. specialize (C q N). lia. }
    apply pext_set_file; [exact X1|]. intro P. destruct (NA P) as [_ [F2 F3]].
    assert (E : ctls s1 (all_bats (ss_file s p)) = ctls s (all_bats (ss_file s p))).
    { apply ctls_ext. intros q _. now apply renum_noop. }
    rewrite E, <- F3. unfold s1. rewrite renum_file. apply fset_ctl_self.
Qed.

(* File.Create on a NEW object: the old cells among its batches sit at positions it keeps *)
Lemma pext_create_safe s0 s p : pext s0 s -> ss_nf s0 <= p ->
  renum_safe s0 s 1 (all_bats (ss_file s p)) -> existsb (fun q => bc_adv (ss_bat s q)) (fo_bats (ss_file s p)) = false ->
  pext s0 (fst (s_create s p)).
Proof.
  intros X L R A. unfold s_create.
  destruct (negb (co_skip (fo_opts (ss_file s p))) && negb (co_nohdr (fo_opts (ss_file s p))) && negb (fo_hdr_ok (ss_file s p)));
    [exact X|].
  destruct (negb (co_skip (fo_opts (ss_file s p))) && negb (co_zero (fo_opts (ss_file s p))) && is_nil (all_bats (ss_file s p)));
    [exact X|].
  rewrite A. cbn [fst]. apply pext_set_file; [now apply pext_renum|]. intro. lia.
Qed.

(* ---------------------------------------------------------------- Batch.build over quiet entries *)

Lemma retrace_quiet odfi keep seq c :
  (keep || (Offsets.trace_odfi (ec_trace c) =? odfi)%Z) = true -> retrace_cell odfi keep seq c = c.
Proof. unfold retrace_cell. now intros ->. Qed.

Lemma pext_retrace s0 odfi keep : forall reach es s seq, pext s0 s ->
  (forall e, In e es -> e < ss_ne s0 -> ent_quiet s odfi keep e = true) ->
  pext s0 (retrace_cells s odfi keep seq reach es).
Proof.
  induction reach as [|k IH]; intros es s seq X Q; simpl; [exact X|].
  destruct es as [|e r]; [exact X|].
  assert (W : e < ss_ne s0 -> retrace_cell odfi keep seq (ss_ent s e) = ss_ent s e).
  { intro E. apply retrace_quiet. apply (Q e (or_introl eq_refl) E). }
  apply IH; [apply pext_set_ent; auto|].
  intros e' X' E'. specialize (Q e' (or_intror X') E'). unfold ent_quiet in *. simpl.
  destruct (hupd_cases (ss_ent s) e (retrace_cell odfi keep seq (ss_ent s e)) e') as [[-> ->]|[_ ->]]; [|exact Q].
  rewrite W; auto.
Qed.

Lemma pext_build s0 s q reach : pext s0 s ->
  (forall e, In e (bc_ents (ss_bat s q)) -> e < ss_ne s0 ->
             ent_quiet s (bc_odfi (ss_bat s q)) (bc_keep (ss_bat s q)) e = true) ->
  pext s0 (s_build s q reach).
Proof.
  intros X Q. unfold s_build. destruct (bc_hdr_ok (ss_bat s q)); [|exact X]. now apply pext_retrace.
Qed.

(* ---------------------------------------------------------------- File.Create establishes its own fixed point *)

Lemma num_fix_after seq b : num_fix seq (if (bc_num b <=? 1)%Z then bset_num b seq else b) = true.
Proof.
  destruct (bc_num b <=? 1)%Z eqn:L; unfold num_fix.
  - destruct b as [? ? ? ? ? ? ? ? ? []]. simpl. rewrite !Z.eqb_refl. apply orb_true_r.
  - apply Z.leb_gt in L. apply orb_true_iff. left. apply Z.ltb_lt. lia.
Qed.

Lemma renum_fixes : forall qs s seq, NoDup qs -> nums_fix (renum s seq qs) seq qs = true.
Proof.
  induction qs as [|q r IH]; intros s seq ND; simpl; [reflexivity|].
  inversion ND as [|? ? NI ND']; subst.
  set (s1 := if (bc_num (ss_bat s q) <=? 1)%Z then set_bat s q (bset_num (ss_bat s q) seq) else s).
  rewrite IH by assumption. rewrite andb_true_r.
  rewrite (cf_bat _ _ _ (cfoot_renum r s1 (seq + 1)%Z) q NI).
  unfold s1. pose proof (num_fix_after seq (ss_bat s q)) as H.
  destruct (bc_num (ss_bat s q) <=? 1)%Z; [|exact H]. simpl. now rewrite hupd_eq.
Qed.

Lemma create_establishes_fix s p : NoDup (all_bats (ss_file s p)) ->
  existsb (fun q => bc_adv (ss_bat s q)) (fo_bats (ss_file s p)) = false ->
  file_fix (fst (s_create s p)) p = true.
Proof.
  intros ND A. unfold s_create.
  destruct (negb (co_skip (fo_opts (ss_file s p))) && negb (co_nohdr (fo_opts (ss_file s p))) && negb (fo_hdr_ok (ss_file s p))) eqn:G1.
  { cbn [fst]. unfold file_fix, guards_ok. now rewrite G1. }
  destruct (negb (co_skip (fo_opts (ss_file s p))) && negb (co_zero (fo_opts (ss_file s p))) && is_nil (all_bats (ss_file s p))) eqn:G2.
  { cbn [fst]. unfold file_fix, guards_ok. rewrite G1, G2. reflexivity. }
  rewrite A. cbn [fst].
  set (s1 := renum s 1 (all_bats (ss_file s p))).
  pose proof (renum_file (all_bats (ss_file s p)) s 1%Z) as RF. fold s1 in RF.
  set (s2 := set_file s1 p (fset_ctl (ss_file s1 p) (fctl_of (ctls s1 (all_bats (ss_file s p)))))).
  assert (F2 : ss_file s2 p = fset_ctl (ss_file s p) (fctl_of (ctls s1 (all_bats (ss_file s p))))).
  { unfold s2. simpl. now rewrite hupd_eq, RF. }
  assert (AB : all_bats (ss_file s2 p) = all_bats (ss_file s p)) by (now rewrite F2).
  assert (FB : fo_bats (ss_file s2 p) = fo_bats (ss_file s p)) by (now rewrite F2).
  assert (FC : fo_ctl (ss_file s2 p) = fctl_of (ctls s1 (all_bats (ss_file s p)))) by (now rewrite F2).
  unfold file_fix. apply orb_true_iff. right. rewrite AB, FB, FC.
  rewrite (nums_fix_ext s1 s2) by reflexivity. rewrite (ctls_ext s1 s2) by reflexivity.
  rewrite fctl_eqb_refl, andb_true_r.
  apply andb_true_iff. split.
  - apply negb_true_iff. rewrite <- A. apply existsb_ext_in. intros q _.
    change (ss_bat s2 q) with (ss_bat s1 q).
    destruct (cf_shape _ _ _ (cfoot_renum (all_bats (ss_file s p)) s 1%Z) q) as [_ [_ [X _]]]. exact X.
  - apply (renum_fixes (all_bats (ss_file s p)) s 1%Z ND).
Qed.

Lemma bat_calm_shape s s' q : bshape (ss_bat s' q) (ss_bat s q) ->
  (forall e, In e (bc_ents (ss_bat s q)) -> ss_ent s' e = ss_ent s e) -> bat_calm s' q = bat_calm s q.
Proof.
  intros [_ [A [B [_ [C [D [E F]]]]]]] G. unfold bat_calm. rewrite A, B, C, D, E, F. f_equal. f_equal.
  apply forallb_ext_in. intros e X. unfold ent_quiet. now rewrite G.
Qed.

(* ---------------------------------------------------------------- FlattenBatches of a stable file *)

Lemma somes_inv {A B} (g : A -> option B) l b : In b (somes (map g l)) -> exists a, In a l /\ g a = Some b.
Proof.
  induction l as [|a r IH]; simpl; [contradiction|].
  destruct (g a) as [b'|] eqn:E.
  - intros [<-|X]; [exists a; auto|]. destruct (IH X) as [a' [Y Z]]. exists a'. auto.
  - intro X. destruct (IH X) as [a' [Y Z]]. exists a'. auto.
Qed.

Lemma somes_intro {A B} (g : A -> option B) l a b : In a l -> g a = Some b -> In b (somes (map g l)).
Proof.
  induction l as [|a' r IH]; simpl; [contradiction|].
  intros [->|X] E.
  - rewrite E. now left.
  - destruct (g a'); [right|]; auto.
Qed.

Lemma NoDup_snoc {A} (l : list A) x : NoDup l -> ~ In x l -> NoDup (l ++ [x]).
Proof.
  intros ND NI. apply (proj2 (NoDup_Add (Add_app x l []))). rewrite app_nil_r. auto.
Qed.

Lemma NoDup_mid {A} (a b : list A) x : NoDup (a ++ b) -> ~ In x (a ++ b) -> NoDup ((a ++ [x]) ++ b).
Proof.
  intros ND NI. rewrite <- app_assoc. simpl. apply (proj2 (NoDup_Add (Add_app x a b))). auto.
Qed.

Section FlattenStable.
  Variables (s : sstate) (p : N).
  Hypothesis I : sinv s.
  Hypothesis P : p < ss_nf s.
  Hypothesis ST : file_stable s p = true.

  Lemma stable_parts : file_fix s p = true /\ forallb (bat_calm s) (all_bats (ss_file s p)) = true /\ lists_ok s p = true.
  Proof.
    unfold file_stable in ST. apply andb_true_iff in ST. destruct ST as [A C]. apply andb_true_iff in A. tauto.
  Qed.

  Lemma stable_fix : file_fix s p = true.
  Proof. apply stable_parts. Qed.

  Lemma stable_calm q : In q (all_bats (ss_file s p)) -> q < ss_nb s /\ bat_calm s q = true.
  Proof.
    intro Q. split; [now apply (reach_bat s p q I P Q)|].
    destruct stable_parts as [_ [C _]]. rewrite forallb_forall in C. now apply C.
  Qed.

  (* references into the object resolve in a later state as they do now *)
  Lemma bat_at_pext sk k : pext s sk -> bat_at sk p k = bat_at s p k.
  Proof. intro X. unfold bat_at. now rewrite (px_file _ _ X p P). Qed.

  Lemma ent_at_pext sk kj : pext s sk -> ent_at sk p kj = ent_at s p kj.
  Proof.
    intro X. unfold ent_at. rewrite (bat_at_pext sk _ X).
    destruct (bat_at s p (fst kj)) as [q|] eqn:B; [|reflexivity].
    assert (Q : q < ss_nb s) by (eapply reach_bat; eauto; eapply nth_error_In; eauto).
    now rewrite (px_bat _ _ X q Q).
  Qed.

  Lemma ent_at_old kj e : ent_at s p kj = Some e -> e < ss_ne s.
  Proof.
    unfold ent_at. destruct (bat_at s p (fst kj)) as [q|] eqn:B; [|discriminate]. intro E.
    assert (Q : In q (all_bats (ss_file s p))) by (eapply nth_error_In; eauto).
    destruct (reach_bat s p q I P Q) as [QL _]. eapply reach_ent; eauto. eapply nth_error_In; eauto.
  Qed.

  (* the new cells of a flatten / segment so far: distinct, new, calm, over old entries *)
  Definition news_ok (sk : sstate) (l : list N) : Prop :=
    NoDup l /\ forall q, In q l ->
      ss_nb s <= q /\ q < ss_nb sk /\ bat_calm sk q = true /\ (forall e, In e (bc_ents (ss_bat sk q)) -> e < ss_ne s).

  Lemma news_ok_pext sk sk' l : pext s sk -> pext sk sk' -> news_ok sk l -> news_ok sk' l.
  Proof.
    intros X0 X [ND H]. split; [exact ND|]. intros q Q. destruct (H q Q) as [A [B [C D]]].
    pose proof (px_bat _ _ X q B) as E.
    split; [exact A|]. split; [pose proof (px_nb _ _ X); lia|]. split.
    - rewrite <- C. apply bat_calm_ext; [exact E|]. intros e X'. apply (px_ent _ _ X).
      specialize (D e X'). pose proof (px_ne _ _ X0). lia.
    - rewrite E. exact D.
  Qed.

  (* standard cells in the first list, IAT cells in the second *)
  Definition typed (sk : sstate) (bs js : list N) : Prop :=
    (forall q, In q bs -> bc_iat (ss_bat sk q) = false) /\ (forall q, In q js -> bc_iat (ss_bat sk q) = true).

  Lemma typed_pext sk sk' bs js : pext sk sk' -> (forall q, In q (bs ++ js) -> q < ss_nb sk) -> typed sk bs js -> typed sk' bs js.
  Proof.
    intros X L [A B]. split; intros q Q; rewrite (px_bat _ _ X q); auto; apply L, in_or_app; auto.
  Qed.

  Lemma source_typed : typed s (fo_bats (ss_file s p)) (fo_iats (ss_file s p)).
  Proof.
    destruct stable_parts as [_ [_ LO]]. unfold lists_ok in LO.
    apply andb_true_iff in LO. destruct LO as [LO T2]. apply andb_true_iff in LO. destruct LO as [_ T1].
    rewrite forallb_forall in T1, T2. split; intros q Q; [apply negb_true_iff; auto|auto].
  Qed.

  (* one consolidated batch *)
  Lemma flat_group_stable g sk bs js :
    pext s sk -> wf_group s p g = true -> news_ok sk (bs ++ js) -> typed sk bs js ->
    let r := flat_group p (sk, (bs, js)) g in
    pext sk (fst r) /\ news_ok (fst r) (fst (snd r) ++ snd (snd r)) /\ ss_nf (fst r) = ss_nf sk /\
    typed (fst r) (fst (snd r)) (snd (snd r)).
  Proof.
    intros X W NW TY. unfold flat_group.
    assert (RS : somes (map (bat_at sk p) (g_srcs g)) = somes (map (bat_at s p) (g_srcs g))).
    { f_equal. apply map_ext. intro k. now apply bat_at_pext. }
    rewrite RS. unfold wf_group in W.
    destruct (somes (map (bat_at s p) (g_srcs g))) as [|q0 qs] eqn:SR; cbn zeta.
    { cbn [fst snd]. split; [apply pext_refl|]. split; [exact NW|]. split; [reflexivity|exact TY]. }
    apply andb_true_iff in W. destruct W as [W1 W2]. rewrite forallb_forall in W1, W2.
    assert (SRC : forall q, In q (q0 :: qs) -> In q (all_bats (ss_file s p))).
    { intros q Q. rewrite <- SR in Q. apply somes_inv in Q. destruct Q as [k [_ B]]. eapply nth_error_In; eauto. }
    assert (OLD : forall q, In q (q0 :: qs) -> ss_bat sk q = ss_bat s q).
    { intros q Q. apply (px_bat _ _ X). now apply stable_calm, SRC. }
    assert (ES : somes (map (ent_at sk p) (g_refs g)) = somes (map (ent_at s p) (g_refs g))).
    { f_equal. apply map_ext. intro kj. now apply ent_at_pext. }
    rewrite ES. set (es := somes (map (ent_at s p) (g_refs g))).
    assert (EO : forall e, In e es -> e < ss_ne s).
    { intros e E. apply somes_inv in E. destruct E as [kj [_ E]]. eapply ent_at_old; eauto. }
    rewrite (OLD q0 (or_introl eq_refl)).
    rewrite (existsb_ext_in (fun q => bc_keep (ss_bat sk q)) (fun q => bc_keep (ss_bat s q))) by (intros q Q; now rewrite OLD).
    rewrite (px_file _ _ X p P).
    set (c := mkbc _ _ _ _ _ _ _ _ es _).
    (* every entry of the group is quiet under the new header *)
    assert (QU : forall e, In e es -> ent_quiet s (bc_odfi c) (bc_keep c) e = true).
    { intros e E. apply somes_inv in E. destruct E as [[k j] [R E]].
      unfold ent_at in E. cbn [fst snd] in E. destruct (bat_at s p k) as [qk|] eqn:B; [|discriminate].
      assert (QK : In qk (q0 :: qs)).
      { rewrite <- SR. specialize (W2 (k, j) R). cbn [fst] in W2. apply existsb_exists in W2.
        destruct W2 as [k' [K' EQ]]. apply Nat.eqb_eq in EQ. subst k'. eapply somes_intro; eauto. }
      destruct (stable_calm qk (SRC qk QK)) as [_ CA]. unfold bat_calm in CA.
      apply andb_true_iff in CA. destruct CA as [CA _]. apply andb_true_iff in CA. destruct CA as [CA _].
      rewrite forallb_forall in CA. specialize (CA e (nth_error_In _ _ E)).
      unfold ent_quiet in *. cbn [c bc_odfi bc_keep].
      apply orb_true_iff in CA. apply orb_true_iff. destruct CA as [K|T].
      - left. apply existsb_exists. exists qk. auto.
      - right. specialize (W1 qk QK). apply Z.eqb_eq in W1. now rewrite <- W1. }
    cbn [new_bat].
    set (sk1 := mkss (ss_store sk) (ss_file sk) (hupd (ss_bat sk) (ss_nb sk) c) (ss_ent sk) (ss_nid sk) (ss_nf sk) (ss_nb sk + 1) (ss_ne sk) (ss_nfam sk)).
    assert (X1 : pext sk sk1) by (apply (pext_new_bat sk sk c), pext_refl).
    assert (B1 : ss_bat sk1 (ss_nb sk) = c) by (cbn [sk1 ss_bat]; apply hupd_eq).
    set (sk2 := s_build sk1 (ss_nb sk) (length es)).
    assert (X2 : pext sk sk2).
    { apply pext_build; [exact X1|]. rewrite B1. cbn [c bc_ents]. intros e E _.
      specialize (QU e E). unfold ent_quiet in *. cbn [sk1 ss_ent]. rewrite (px_ent _ _ X e (EO e E)). exact QU. }
    destruct (file_build sk1 (ss_nb sk) (length es)) as [FB1 [FB2 [FB3 FB4]]]. fold sk2 in FB1, FB2, FB3, FB4.
    assert (NEW : ss_nb s <= ss_nb sk /\ ss_nb sk < ss_nb sk2 /\ bat_calm sk2 (ss_nb sk) = true /\
                  (forall e, In e (bc_ents (ss_bat sk2 (ss_nb sk))) -> e < ss_ne s)).
    { split; [apply (px_nb _ _ X)|]. split; [rewrite FB3; cbn [sk1 ss_nb]; lia|].
      rewrite FB4, B1. split; [|exact EO].
      unfold bat_calm. rewrite FB4, B1. cbn [c bc_ents bc_odfi bc_keep bc_iat bc_svc bc_adv].
      destruct (stable_calm q0 (SRC q0 (or_introl eq_refl))) as [_ CA]. unfold bat_calm in CA.
      apply andb_true_iff in CA. destruct CA as [CA C3]. apply andb_true_iff in CA. destruct CA as [_ C2].
      rewrite C2, C3, !andb_true_r. apply forallb_forall. intros e E.
      specialize (QU e E). unfold ent_quiet in *. cbn [c bc_odfi bc_keep] in QU.
      rewrite (px_ent _ _ X2 e) by (specialize (EO e E); pose proof (px_ne _ _ X); lia).
      rewrite (px_ent _ _ X e (EO e E)). exact QU. }
    assert (NI : ~ In (ss_nb sk) (bs ++ js)).
    { intro Q. destruct NW as [_ H]. destruct (H _ Q) as [_ [L _]]. lia. }
    pose proof (news_ok_pext sk sk2 (bs ++ js) X X2 NW) as [ND2 H2].
    assert (NF : ss_nf sk2 = ss_nf sk) by (rewrite FB2; reflexivity).
    assert (TY2 : typed sk2 bs js).
    { apply (typed_pext sk sk2 bs js X2); [|exact TY]. intros q Q. destruct NW as [_ H]. now apply (H q Q). }
    assert (IA : bc_iat (ss_bat sk2 (ss_nb sk)) = bc_iat (ss_bat s q0)) by (rewrite FB4, B1; reflexivity).
    destruct TY2 as [TA TB].
    destruct (bc_iat (ss_bat s q0)) eqn:IQ; cbn [fst snd]; (split; [exact X2|]); (split; [|split; [exact NF|]]).
    - split.
      + rewrite app_assoc. now apply NoDup_snoc.
      + intros q Q. rewrite app_assoc in Q. apply in_app_or in Q. destruct Q as [Q|[<-|[]]]; auto.
    - split; [exact TA|]. intros q Q. apply in_app_or in Q. destruct Q as [Q|[<-|[]]]; auto.
    - split.
      + now apply NoDup_mid.
      + intros q Q. apply in_app_or in Q. destruct Q as [Q|Q]; [apply in_app_or in Q; destruct Q as [Q|[<-|[]]]|]; auto;
          apply H2; apply in_or_app; auto.
    - split; [|exact TB]. intros q Q. apply in_app_or in Q. destruct Q as [Q|[<-|[]]]; auto.
  Qed.

  Lemma fold_flat_stable : forall gs sk bs js,
    pext s sk -> forallb (wf_group s p) gs = true -> news_ok sk (bs ++ js) -> typed sk bs js ->
    let r := fold_left (flat_group p) gs (sk, (bs, js)) in
    pext sk (fst r) /\ news_ok (fst r) (fst (snd r) ++ snd (snd r)) /\ ss_nf (fst r) = ss_nf sk /\
    typed (fst r) (fst (snd r)) (snd (snd r)).
  Proof.
    induction gs as [|g r IH]; intros sk bs js X W NW TY; cbn [fold_left].
    - cbn [fst snd]. split; [apply pext_refl|]. split; [exact NW|]. split; [reflexivity|exact TY].
    - simpl in W. apply andb_true_iff in W. destruct W as [W1 W2].
      destruct (flat_group_stable g sk bs js X W1 NW TY) as [X1 [N1 [F1 T1]]].
      destruct (flat_group p (sk, (bs, js)) g) as [s1 [bs1 js1]]. cbn [fst snd] in *.
      destruct (IH s1 bs1 js1 (pext_trans _ _ _ X X1) W2 N1 T1) as [X2 [N2 [F2 T2]]].
      split; [eapply pext_trans; eauto|]. split; [exact N2|]. split; [congruence|exact T2].
  Qed.
End FlattenStable.

Lemma eset_trace_same c : eset_trace c (ec_trace c) = c.
Proof. now destruct c. Qed.

Lemma bset_nums_same b : bset_nums b (bc_num b) (Offsets.c_num (bc_ctl b)) = b.
Proof. destruct b as [? ? ? ? ? ? ? ? ? []]. reflexivity. Qed.

Lemma file_stable_set_store s l n p : file_stable (set_store s l n) p = file_stable s p.
Proof.
  unfold file_stable. rewrite (file_fix_ext s (set_store s l n) p) by reflexivity.
  reflexivity.
Qed.

Section DeriveStable.
  Variables (s : sstate) (p : N).
  Hypothesis I : sinv s.
  Hypothesis P : p < ss_nf s.
  Hypothesis ST : file_stable s p = true.

  (* observed writes that write what is there *)
  Lemma pext_apply_writes_noop : forall ws sk, pext s sk -> forallb (write_noop s p) ws = true ->
    pext s (apply_writes sk p ws).
  Proof.
    unfold apply_writes. induction ws as [|w r IH]; intros sk X W; simpl; [exact X|].
    simpl in W. apply andb_true_iff in W. destruct W as [W1 W2]. apply IH; [|exact W2].
    destruct w as [k j t|k n cn]; simpl in *.
    - rewrite (ent_at_pext s p I P sk _ X). destruct (ent_at s p (k, j)) as [e|] eqn:E; [|exact X].
      apply Z.eqb_eq in W1. pose proof (ent_at_old s p I P _ _ E) as EL.
      apply pext_set_ent; [exact X|]. intros _. rewrite (px_ent _ _ X e EL), <- W1. apply eset_trace_same.
    - rewrite (bat_at_pext s p P sk _ X). destruct (bat_at s p k) as [q|] eqn:E; [|exact X].
      apply andb_true_iff in W1. destruct W1 as [A B]. apply Z.eqb_eq in A, B.
      assert (QL : q < ss_nb s) by (eapply reach_bat; eauto; eapply nth_error_In; eauto).
      apply pext_set_bat; [exact X|]. intros _. rewrite (px_bat _ _ X q QL), <- A, <- B. apply bset_nums_same.
  Qed.

  (* a cell a derived file may hold: a new calm cell over old entries, or a batch cell of the receiver *)
  Definition cell_ok (sk : sstate) (q : N) : Prop :=
    (ss_nb s <= q /\ q < ss_nb sk /\ bat_calm sk q = true /\ (forall e, In e (bc_ents (ss_bat sk q)) -> e < ss_ne s))
    \/ (q < ss_nb s /\ In q (all_bats (ss_file s p))).

  Lemma cell_ok_calm sk q : pext s sk -> cell_ok sk q -> q < ss_nb sk /\ bat_calm sk q = true.
  Proof.
    intros X [[_ [A [B _]]]|[A B]]; [auto|]. split; [pose proof (px_nb _ _ X); lia|].
    destruct (stable_calm s p I P ST q B) as [_ C]. rewrite <- C.
    apply bat_calm_ext; [now apply (px_bat _ _ X)|].
    intros e E. apply (px_ent _ _ X). eapply reach_ent; eauto.
  Qed.

  (* a new file object over such cells, stored after its File.Create *)
  Lemma store_new_gen sk g :
    pext s sk -> NoDup (all_bats g) -> (forall q, In q (all_bats g) -> cell_ok sk q) ->
    typed sk (fo_bats g) (fo_iats g) -> renum_safe s sk 1 (all_bats g) ->
    let s1 := fst (new_file sk g) in
    let s2 := fst (s_create s1 (ss_nf sk)) in
    pext s s2 /\ file_stable s2 (ss_nf sk) = true /\ create_foot s1 (ss_nf sk) s2.
  Proof.
    intros X ND H [TA TB] RS s1 s2.
    assert (X1 : pext s s1) by (apply pext_new_file; exact X).
    assert (F1 : ss_file s1 (ss_nf sk) = g) by (cbn [s1 new_file fst ss_file]; apply hupd_eq).
    assert (CALM : forall q, In q (all_bats g) -> bat_calm sk q = true) by (intros q Q; now apply (cell_ok_calm sk q X (H q Q))).
    assert (ADV : existsb (fun q => bc_adv (ss_bat s1 q)) (fo_bats (ss_file s1 (ss_nf sk))) = false).
    { rewrite F1. apply not_true_iff_false. intro E. apply existsb_exists in E. destruct E as [q [Q A]].
      assert (C : bat_calm sk q = true) by (apply CALM; unfold all_bats; apply in_or_app; now left).
      unfold bat_calm in C. apply andb_true_iff in C. destruct C as [_ C]. apply negb_true_iff in C.
      cbn [s1 new_file fst ss_bat] in A. congruence. }
    pose proof (s_create_foot s1 (ss_nf sk)) as CF. fold s2 in CF.
    assert (X2 : pext s s2).
    { apply pext_create_safe; [exact X1|apply (px_nf _ _ X)| |exact ADV]. rewrite F1. exact RS. }
    split; [exact X2|]. split; [|exact CF].
    destruct (cr_self _ _ _ CF) as [c FS]. rewrite F1 in FS.
    assert (AB : all_bats (ss_file s2 (ss_nf sk)) = all_bats g) by (now rewrite FS).
    assert (SH : forall q, bat_calm s2 q = bat_calm sk q).
    { intro q. apply (bat_calm_shape s1 s2 q (cr_shape _ _ _ CF q)). intros. now rewrite (cr_ent _ _ _ CF). }
    unfold file_stable. rewrite !andb_true_iff. split; [split|].
    - apply create_establishes_fix; [now rewrite F1|exact ADV].
    - rewrite AB. apply forallb_forall. intros q Q. rewrite SH. now apply CALM.
    - unfold lists_ok. rewrite AB, FS. cbn [fset_ctl fo_bats fo_iats]. rewrite !andb_true_iff. split; [split|].
      + now apply nodupb_NoDup.
      + apply forallb_forall. intros q Q. apply negb_true_iff.
        destruct (cr_shape _ _ _ CF q) as [_ [E _]]. rewrite E. now apply TA.
      + apply forallb_forall. intros q Q. destruct (cr_shape _ _ _ CF q) as [_ [E _]]. rewrite E. now apply TB.
  Qed.

  (* POST /files/{id}/flatten on a stable file: every cell that existed is as it was; the file
     it stores is stable *)
  Lemma flatten_stable l :
    match l with FlatOk gs _ => forallb (wf_group s p) gs | FlatErr ws => forallb (write_noop s p) ws end = true ->
    let s' := s_flatten s p l in
    pext s s' /\ forall i p', In (i, p') (ss_store s') -> In (i, p') (ss_store s) \/ file_stable s' p' = true.
  Proof.
    intros W. unfold s_flatten.
    assert (X1 : pext s (fst (s_create s p))).
    { apply pext_create_fix; [apply pext_refl| |now left]. intros _. now apply stable_fix. }
    pose proof (hsame_create s p) as [H1 _].
    destruct (s_create s p) as [s1 st]. cbn [fst] in *.
    destruct st; try (split; [exact X1|]; intros i p' Q; left; congruence).
    destruct l as [gs hdr|ws].
    - destruct (fold_flat_stable s p I P ST gs s1 [] [] X1 W) as [X2 [N2 [F2 T2]]].
      { split; [constructor|intros q []]. }
      { split; intros q []. }
      pose proof (hsame_fold_flat p gs s1 [] []) as [H2 _].
      destruct (fold_left (flat_group p) gs (s1, ([], []))) as [s2 [bs js]]. cbn [fst snd] in *.
      assert (X02 : pext s s2) by (eapply pext_trans; eauto).
      set (g := mkfo _ _ _ _ _ bs js _).
      destruct N2 as [ND2 HN2].
      destruct (store_new_gen s2 g X02 ND2) as [X3 [S3 _]].
      { intros q Q. left. now apply HN2. }
      { exact T2. }
      { intros k q N Q. apply nth_error_In in N. destruct (HN2 q N). lia. }
      cbn [new_file fst snd] in *.
      match goal with |- context [set_store ?a _ _] => set (s4 := a) in * end.
      split; [now apply pext_set_store|].
      intros i p' [Q|Q].
      + inversion Q. subst. right. rewrite file_stable_set_store. exact S3.
      + left. pose proof (hsame_create (fst (new_file s2 g)) (ss_nf s2)) as [H4 _].
        cbn [new_file fst] in H4. fold s4 in H4. rewrite H4 in Q. cbn [ss_store] in Q. congruence.
    - split; [now apply pext_apply_writes_noop|].
      intros i p' Q. left. pose proof (hsame_apply_writes p ws s1) as [H2 _]. congruence.
  Qed.
End DeriveStable.

(* ---------------------------------------------------------------- SegmentFile of a stable file *)

Definition allh (h : halves) : list N := (h_cb h ++ h_ci h) ++ (h_db h ++ h_di h).
Definition hcred (h : halves) : list N := h_cb h ++ h_ci h.
Definition hdeb (h : halves) : list N := h_db h ++ h_di h.

Lemma in_allh_add c i x h q : In q (allh (add_half c i x h)) <-> x = q \/ In q (allh h).
Proof.
  unfold allh. destruct c, i; cbn [add_half h_cb h_ci h_db h_di]; rewrite !in_app_iff; simpl; tauto.
Qed.

Lemma Add_mid {A} (x : A) a b l l' : l = a ++ b -> l' = a ++ x :: b -> Add x l l'.
Proof. intros -> ->. apply Add_app. Qed.

Lemma Add_allh c i x h : Add x (allh h) (allh (add_half c i x h)).
Proof.
  unfold allh. destruct c, i; cbn [add_half h_cb h_ci h_db h_di].
  - apply (Add_mid x (h_cb h ++ h_ci h) (h_db h ++ h_di h)); rewrite <- !app_assoc; reflexivity.
  - apply (Add_mid x (h_cb h) (h_ci h ++ h_db h ++ h_di h)); rewrite <- !app_assoc; reflexivity.
  - apply (Add_mid x ((h_cb h ++ h_ci h) ++ h_db h ++ h_di h) []); rewrite <- ?app_assoc; rewrite ?app_nil_r; reflexivity.
  - apply (Add_mid x ((h_cb h ++ h_ci h) ++ h_db h) (h_di h)); rewrite <- !app_assoc; reflexivity.
Qed.

Lemma NoDup_allh_add c i x h : NoDup (allh h) -> ~ In x (allh h) -> NoDup (allh (add_half c i x h)).
Proof. intros ND NI. apply (proj2 (NoDup_Add (Add_allh c i x h))). auto. Qed.

Definition head_ok (h : halves) (q : N) : Prop := hd_error (hcred h) = Some q \/ hd_error (hdeb h) = Some q.

Lemma hd_app {A} (l r : list A) q : hd_error l = Some q -> hd_error (l ++ r) = Some q.
Proof. destruct l; simpl; [discriminate|auto]. Qed.

Lemma hd_app_nonnil {A} (a : list A) x b q : a <> [] -> hd_error (a ++ b) = Some q -> hd_error ((a ++ [x]) ++ b) = Some q.
Proof. destruct a; simpl; [congruence|auto]. Qed.

(* appending to an IAT list never displaces a head *)
Lemma head_add_iat c x h q : head_ok h q -> head_ok (add_half c true x h) q.
Proof.
  unfold head_ok, hcred, hdeb. destruct c; cbn [add_half h_cb h_ci h_db h_di]; intros [H|H]; auto.
  - left. rewrite app_assoc. now apply hd_app.
  - right. rewrite app_assoc. now apply hd_app.
Qed.

(* appending a standard cell keeps a head that is itself a standard cell *)
Lemma head_add_std c x h q sk :
  (forall y, In y (h_ci h ++ h_di h) -> bc_iat (ss_bat sk y) = true) -> bc_iat (ss_bat sk q) = false ->
  head_ok h q -> head_ok (add_half c false x h) q.
Proof.
  intros TY IQ. unfold head_ok, hcred, hdeb. destruct c; cbn [add_half h_cb h_ci h_db h_di]; intros [H|H]; auto.
  - left. apply hd_app_nonnil; [|exact H]. intro E. rewrite E in H. simpl in H.
    assert (In q (h_ci h)) by (destruct (h_ci h); simpl in H; [discriminate|inversion H; now left]).
    rewrite TY in IQ; [discriminate|apply in_or_app; now left].
  - right. apply hd_app_nonnil; [|exact H]. intro E. rewrite E in H. simpl in H.
    assert (In q (h_di h)) by (destruct (h_di h); simpl in H; [discriminate|inversion H; now left]).
    rewrite TY in IQ; [discriminate|apply in_or_app; now right].
Qed.

Lemma create_ok_guards s p : snd (s_create s p) = SOk -> guards_ok s p = true.
Proof.
  unfold s_create, guards_ok.
  destruct (negb (co_skip (fo_opts (ss_file s p))) && negb (co_nohdr (fo_opts (ss_file s p))) && negb (fo_hdr_ok (ss_file s p)));
    [discriminate|].
  destruct (negb (co_skip (fo_opts (ss_file s p))) && negb (co_zero (fo_opts (ss_file s p))) && is_nil (all_bats (ss_file s p)));
    [discriminate|reflexivity].
Qed.

Section SegmentStable.
  Variables (s : sstate) (p : N).
  Hypothesis I : sinv s.
  Hypothesis P : p < ss_nf s.
  Hypothesis ST : file_stable s p = true.
  Hypothesis OK : snd (s_create s p) = SOk.

  Let L := all_bats (ss_file s p).

  Lemma L_nodup : NoDup L.
  Proof.
    destruct (stable_parts s p ST) as [_ [_ LO]]. unfold lists_ok in LO.
    apply andb_true_iff in LO. destruct LO as [LO _]. apply andb_true_iff in LO. destruct LO as [ND _].
    now apply nodupb_NoDup.
  Qed.

  Lemma L_nums : nums_fix s 1 L = true.
  Proof.
    pose proof (stable_fix s p ST) as F. unfold file_fix in F. rewrite (create_ok_guards s p OK) in F. simpl in F.
    apply andb_true_iff in F. destruct F as [F _]. apply andb_true_iff in F. now destruct F.
  Qed.

  Lemma L_small q : In q L -> (bc_num (ss_bat s q) <= 1)%Z -> hd_error L = Some q /\ num_fix 1 (ss_bat s q) = true.
  Proof.
    intros Q S. apply In_nth_error in Q. destruct Q as [m M].
    pose proof (nums_fix_nth s L 1 L_nums m q M) as F.
    assert (m = O).
    { unfold num_fix in F. apply orb_true_iff in F. destruct F as [F|F]; [apply Z.ltb_lt in F; lia|].
      apply andb_true_iff in F. destruct F as [F _]. apply Z.eqb_eq in F. lia. }
    subst m. split; [destruct L; simpl in *; congruence|]. now rewrite Z.add_0_r in F.
  Qed.

  Lemma L_iat_head q1 : hd_error L = Some q1 -> bc_iat (ss_bat s q1) = true -> forall q, In q L -> bc_iat (ss_bat s q) = true.
  Proof.
    destruct (source_typed s p ST) as [TA TB]. unfold L, all_bats.
    destruct (fo_bats (ss_file s p)) as [|a r] eqn:E.
    - simpl. intros _ _ q Q. now apply TB.
    - simpl. intros H IQ. inversion H. subst. rewrite TA in IQ; [discriminate|now left].
  Qed.

  Definition new_cell (sk : sstate) (q : N) : Prop :=
    ss_nb s <= q /\ q < ss_nb sk /\ bat_calm sk q = true /\ (forall e, In e (bc_ents (ss_bat sk q)) -> e < ss_ne s).

  Record seg_core (pre : list N) (sk : sstate) (h : halves) : Prop := mk_seg_core {
    si_pext : pext s sk;
    si_nodup : NoDup (allh h);
    si_cells : forall q, In q (allh h) -> new_cell sk q \/ (q < ss_nb s /\ In q pre);
    si_typed : typed sk (h_cb h ++ h_db h) (h_ci h ++ h_di h);
    si_head : forall q, In q (allh h) -> q < ss_nb s -> (bc_num (ss_bat s q) <= 1)%Z -> head_ok h q }.

  Definition seg_inv (pre : list N) (sk : sstate) (h : halves) : Prop :=
    seg_core pre sk h /\ (pre = [] -> allh h = []).

  Lemma new_cell_pext sk sk' q : pext sk sk' -> pext s sk -> new_cell sk q -> new_cell sk' q.
  Proof.
    intros X X0 [A [B [C D]]]. pose proof (px_bat _ _ X q B) as E.
    split; [exact A|]. split; [pose proof (px_nb _ _ X); lia|]. split.
    - rewrite <- C. apply bat_calm_ext; [exact E|]. intros e X'. apply (px_ent _ _ X).
      specialize (D e X'). pose proof (px_ne _ _ X0). lia.
    - rewrite E. exact D.
  Qed.

  Lemma cells_bound pre sk h : seg_core pre sk h -> forall q, In q (allh h) -> q < ss_nb sk.
  Proof.
    intros C q Q. destruct (si_cells _ _ _ C q Q) as [[_ [B _]]|[B _]]; [exact B|].
    pose proof (px_nb _ _ (si_pext _ _ _ C)). lia.
  Qed.

  Lemma seg_core_pext pre sk sk' h : pext sk sk' -> seg_core pre sk h -> seg_core pre sk' h.
  Proof.
    intros X C. pose proof (cells_bound pre sk h C) as BD. destruct C as [X0 ND CE TY HD]. split; auto.
    - eapply pext_trans; eauto.
    - intros q Q. destruct (CE q Q) as [N|O]; [left; eapply new_cell_pext; eauto|now right].
    - apply (typed_pext sk sk' _ _ X); [|exact TY]. intros q Q. apply BD. unfold allh.
      rewrite !in_app_iff in *. tauto.
  Qed.

  Lemma seg_core_widen pre q sk h : seg_core pre sk h -> seg_core (pre ++ [q]) sk h.
  Proof.
    intros [X ND CE TY HD]. split; auto. intros x Q. destruct (CE x Q) as [N|[A B]]; [now left|right].
    split; [exact A|apply in_or_app; now left].
  Qed.

  Lemma typed_add sk c i x h : bc_iat (ss_bat sk x) = i ->
    typed sk (h_cb h ++ h_db h) (h_ci h ++ h_di h) ->
    typed sk (h_cb (add_half c i x h) ++ h_db (add_half c i x h)) (h_ci (add_half c i x h) ++ h_di (add_half c i x h)).
  Proof.
    intros E [TA TB]. destruct c, i; cbn [add_half h_cb h_ci h_db h_di]; split; intros q Q;
      rewrite ?in_app_iff in Q; simpl in Q;
      try (destruct Q as [[Q|[<-|[]]]|Q]); try (destruct Q as [Q|[Q|[<-|[]]]]); try (destruct Q as [Q|Q]);
      auto; try (apply TA; apply in_or_app; auto); try (apply TB; apply in_or_app; auto).
  Qed.

  (* a cell joins a half *)
  Lemma seg_core_add pre x sk h c i :
    seg_core pre sk h -> ~ In x (allh h) -> bc_iat (ss_bat sk x) = i ->
    (new_cell sk x \/ (x < ss_nb s /\ In x pre)) ->
    (x < ss_nb s -> (bc_num (ss_bat s x) <= 1)%Z -> allh h = []) ->
    (i = false -> forall q, In q (allh h) -> q < ss_nb s -> (bc_num (ss_bat s q) <= 1)%Z -> bc_iat (ss_bat sk q) = false) ->
    seg_core pre sk (add_half c i x h).
  Proof.
    intros [X ND CE TY HD] NI IX CX XH STD. split; auto.
    - now apply NoDup_allh_add.
    - intros q Q. apply in_allh_add in Q. destruct Q as [<-|Q]; auto.
    - now apply typed_add.
    - intros q Q QL QS. apply in_allh_add in Q. destruct Q as [<-|Q].
      + specialize (XH QL QS). unfold head_ok, hcred, hdeb. unfold allh in XH.
        apply app_eq_nil in XH. destruct XH as [A B]. apply app_eq_nil in A. apply app_eq_nil in B.
        destruct A as [A1 A2], B as [B1 B2].
        destruct c, i; cbn [add_half h_cb h_ci h_db h_di]; rewrite ?A1, ?A2, ?B1, ?B2; simpl; auto.
      + specialize (HD q Q QL QS). destruct i; [now apply head_add_iat|].
        eapply head_add_std; [apply TY| |exact HD]. now apply STD.
  Qed.

  Lemma seg_kind_split b : seg_kind b = KSplit -> negb (bc_iat b && (bc_svc b =? svc_mixed)%Z) = true -> bc_adv b = false ->
    bc_iat b = false.
  Proof.
    unfold seg_kind. destruct (bc_iat b); [|reflexivity]. simpl.
    destruct (bc_svc b =? svc_mixed)%Z; [discriminate|].
    destruct (bc_svc b =? svc_credits)%Z; [discriminate|]. destruct (bc_svc b =? svc_debits)%Z; discriminate.
  Qed.

  Lemma calm_parts q : In q L -> q < ss_nb s /\
    forallb (ent_quiet s (bc_odfi (ss_bat s q)) (bc_keep (ss_bat s q))) (bc_ents (ss_bat s q)) = true /\
    negb (bc_iat (ss_bat s q) && (bc_svc (ss_bat s q) =? svc_mixed)%Z) = true /\ bc_adv (ss_bat s q) = false.
  Proof.
    intro Q. destruct (stable_calm s p I P ST q Q) as [QL C]. split; [exact QL|].
    unfold bat_calm in C. apply andb_true_iff in C. destruct C as [C C3]. apply andb_true_iff in C. destruct C as [C1 C2].
    apply negb_true_iff in C3. auto.
  Qed.

  (* a batch split off a standard mixed batch of the receiver *)
  Lemma seg_split_add pre sk h q credit hdr js ctl reach fkeep :
    seg_core pre sk h -> In q L -> bc_iat (ss_bat s q) = false ->
    (forall q', In q' (allh h) -> q' < ss_nb s -> (bc_num (ss_bat s q') <= 1)%Z -> bc_iat (ss_bat s q') = false) ->
    forall b, b = ss_bat s q ->
    let c := split_cell fkeep b credit hdr (picks (bc_ents b) js) ctl in
    let sk' := s_build (fst (new_bat sk c)) (ss_nb sk) reach in
    seg_core pre sk' (add_half credit false (ss_nb sk) h) /\ pext sk sk'.
  Proof.
    intros C Q IQ STD b BQ c sk'.
    destruct (calm_parts q Q) as [QL [C1 [C2 C3]]].
    pose proof (si_pext _ _ _ C) as X.
    rewrite forallb_forall in C1.
    assert (EO : forall e, In e (bc_ents c) -> e < ss_ne s /\ ent_quiet s (bc_odfi c) (bc_keep c) e = true).
    { intros e E. cbn [c split_cell bc_ents bc_odfi bc_keep] in *. apply picks_incl in E. rewrite BQ in *.
      split; [eapply reach_ent; eauto|]. specialize (C1 e E). unfold ent_quiet in *.
      apply orb_true_iff in C1. apply orb_true_iff. destruct C1 as [K|T]; [left; rewrite K; apply orb_true_r|now right]. }
    assert (X1 : pext sk (fst (new_bat sk c))) by (apply (pext_new_bat sk sk c), pext_refl).
    assert (B1 : ss_bat (fst (new_bat sk c)) (ss_nb sk) = c) by (cbn [new_bat fst ss_bat]; apply hupd_eq).
    assert (X2 : pext sk sk').
    { unfold sk'. apply pext_build; [exact X1|]. rewrite B1. intros e E _. destruct (EO e E) as [EL EQ].
      unfold ent_quiet in *. cbn [new_bat fst ss_ent]. rewrite (px_ent _ _ X e EL). exact EQ. }
    destruct (file_build (fst (new_bat sk c)) (ss_nb sk) reach) as [FB1 [FB2 [FB3 FB4]]]. fold sk' in FB1, FB2, FB3, FB4.
    split; [|exact X2].
    apply seg_core_add; [now apply (seg_core_pext pre sk sk' h X2)| | | | |].
    - intro Q'. pose proof (cells_bound pre sk h C _ Q'). lia.
    - rewrite FB4, B1. cbn [c split_cell bc_iat]. now rewrite BQ.
    - left. split; [apply (px_nb _ _ X)|]. split; [rewrite FB3; cbn [new_bat fst ss_nb]; lia|].
      rewrite FB4, B1. split; [|intros e E; now apply EO].
      unfold bat_calm. rewrite FB4, B1.
      assert (IA : bc_iat c = false) by (cbn [c split_cell bc_iat]; now rewrite BQ).
      assert (AD : bc_adv c = false) by (cbn [c split_cell bc_adv]; now rewrite BQ).
      rewrite IA, AD. cbn [andb negb]. rewrite !andb_true_r. apply forallb_forall. intros e E. destruct (EO e E) as [EL EQ].
      unfold ent_quiet in *. rewrite (px_ent _ _ X2 e) by (pose proof (px_ne _ _ X); lia).
      rewrite (px_ent _ _ X e EL). exact EQ.
    - intros XL. pose proof (px_nb _ _ X). lia.
    - intros _ q' Q' QL' QS'. rewrite (px_bat _ _ (pext_trans _ _ _ X X2) q' QL'). now apply STD.
  Qed.

  (* one batch of the receiver *)
  Lemma seg_step pre q suf sp sk h fkeep :
    L = pre ++ q :: suf -> seg_inv pre sk h ->
    let r := seg_batch fkeep (sk, h) (q, sp) in
    seg_inv (pre ++ [q]) (fst r) (snd r).
  Proof.
    intros EL [C EM]. unfold seg_batch.
    assert (Q : In q L) by (rewrite EL; apply in_or_app; right; now left).
    destruct (calm_parts q Q) as [QL [C1 [C2 C3]]].
    pose proof (si_pext _ _ _ C) as X.
    assert (BQ : ss_bat sk q = ss_bat s q) by now apply (px_bat _ _ X).
    pose proof L_nodup as ND. rewrite EL in ND.
    assert (NP : ~ In q pre).
    { apply NoDup_remove_2 in ND. intro A. apply ND. apply in_or_app. now left. }
    assert (NI : ~ In q (allh h)).
    { intro A. destruct (si_cells _ _ _ C q A) as [[B _]|[_ B]]; [lia|contradiction]. }
    assert (XH : q < ss_nb s -> (bc_num (ss_bat s q) <= 1)%Z -> allh h = []).
    { intros _ S. apply EM. destruct (L_small q Q S) as [HD _]. rewrite EL in HD.
      destruct pre as [|a r]; [reflexivity|]. simpl in HD. inversion HD. subst. exfalso. apply NP. now left. }
    assert (STD : bc_iat (ss_bat s q) = false ->
                  forall q', In q' (allh h) -> q' < ss_nb s -> (bc_num (ss_bat s q') <= 1)%Z -> bc_iat (ss_bat s q') = false).
    { intros IQ q' Q' QL' S'. destruct (si_cells _ _ _ C q' Q') as [[B _]|[_ B]]; [lia|].
      assert (QL2 : In q' L) by (rewrite EL; apply in_or_app; now left).
      destruct (L_small q' QL2 S') as [HD _].
      destruct (bc_iat (ss_bat s q')) eqn:E; [|reflexivity].
      rewrite (L_iat_head q' HD E q Q) in IQ. discriminate. }
    assert (NE : pre ++ [q] = [] -> False) by (destruct pre; discriminate).
    assert (WHOLE : forall c, seg_inv (pre ++ [q]) sk (add_half c (bc_iat (ss_bat sk q)) q h)).
    { intro c. split; [|intro E; destruct (NE E)].
      apply seg_core_add; [now apply seg_core_widen|exact NI|reflexivity| |exact XH|].
      - right. split; [exact QL|apply in_or_app; right; now left].
      - intros IQ q' Q' QL' S'. rewrite BQ in IQ. rewrite (px_bat _ _ X q' QL'). now apply STD. }
    destruct (seg_kind (ss_bat sk q)) eqn:K; cbn [fst snd].
    - (* split *)
      rewrite BQ in K. pose proof (seg_kind_split _ K C2 C3) as IQ. rewrite BQ, IQ.
      specialize (STD IQ).
      assert (C' : seg_core (pre ++ [q]) sk h) by now apply seg_core_widen.
      destruct (sp_hasc sp).
      + destruct (seg_split_add (pre ++ [q]) sk h q true (sp_chdr sp) (sp_c sp) (sp_cctl sp) (sp_creach sp) fkeep C' Q IQ STD
                   (ss_bat s q) eq_refl) as [C1' X1].
        cbn [new_bat fst snd] in *.
        match goal with C1' : seg_core _ ?a ?b |- _ => set (s1 := a) in *; set (h1 := b) in * end.
        destruct (sp_hasd sp); cbn [fst snd]; [|split; [exact C1'|intro E; destruct (NE E)]].
        assert (STD1 : forall q', In q' (allh h1) -> q' < ss_nb s -> (bc_num (ss_bat s q') <= 1)%Z -> bc_iat (ss_bat s q') = false).
        { intros q' Q' QL' S'. apply in_allh_add in Q'. destruct Q' as [<-|Q']; [pose proof (px_nb _ _ X); lia|now apply STD]. }
        destruct (seg_split_add (pre ++ [q]) s1 h1 q false (sp_dhdr sp) (sp_d sp) (sp_dctl sp) (sp_dreach sp) fkeep C1' Q IQ STD1
                   (ss_bat s q) eq_refl) as [C2' X2].
        cbn [new_bat fst snd] in *. split; [exact C2'|intro E; destruct (NE E)].
      + destruct (sp_hasd sp); cbn [fst snd]; [|split; [exact C'|intro E; destruct (NE E)]].
        destruct (seg_split_add (pre ++ [q]) sk h q false (sp_dhdr sp) (sp_d sp) (sp_dctl sp) (sp_dreach sp) fkeep C' Q IQ STD
                   (ss_bat s q) eq_refl) as [C2' X2].
        cbn [new_bat fst snd] in *. split; [exact C2'|intro E; destruct (NE E)].
    - apply WHOLE.
    - apply WHOLE.
    - split; [now apply seg_core_widen|intro E; destruct (NE E)].
  Qed.

  Lemma seg_fold fkeep : forall suf pre sps sk h,
    L = pre ++ suf -> seg_inv pre sk h ->
    let r := fold_left (seg_batch fkeep) (zip_splits suf sps) (sk, h) in
    seg_inv L (fst r) (snd r).
  Proof.
    induction suf as [|q r IH]; intros pre sps sk h EL INV; cbn [zip_splits fold_left].
    - rewrite app_nil_r in EL. cbn [fst snd]. now rewrite EL.
    - pose proof (seg_step pre q r (hd no_split sps) sk h fkeep EL INV) as S1.
      destruct (seg_batch fkeep (sk, h) (q, hd no_split sps)) as [s1 h1]. cbn [fst snd] in S1.
      apply (IH (pre ++ [q]) (tl sps) s1 h1); [|exact S1]. rewrite <- app_assoc. exact EL.
  Qed.
End SegmentStable.

Lemma nth_hd_NoDup {A} (l : list A) k x : NoDup l -> nth_error l k = Some x -> hd_error l = Some x -> k = O.
Proof.
  intros ND N H. destruct l as [|a r]; [discriminate|]. simpl in H. inversion H. subst a.
  destruct k as [|k]; [reflexivity|]. simpl in N. apply nth_error_In in N. inversion ND. contradiction.
Qed.

Lemma hd_error_In {A} (l : list A) x : hd_error l = Some x -> In x l.
Proof. destruct l; simpl; [discriminate|]. intro H. inversion H. now left. Qed.

Lemma nodup_app_disj {A} (a b : list A) x : NoDup (a ++ b) -> In x a -> In x b -> False.
Proof.
  induction a as [|y r IH]; simpl; intros ND HA HB; [contradiction|].
  inversion ND as [|? ? NI ND']; subst. destruct HA as [->|HA]; [apply NI; apply in_or_app; now right|eauto].
Qed.

Lemma nodup_app_l {A} (a b : list A) : NoDup (a ++ b) -> NoDup a.
Proof. induction a as [|x r IH]; simpl; intro H; [constructor|]. inversion H; subst. constructor; [|auto]. intro X. apply H2. apply in_or_app. now left. Qed.

Lemma nodup_app_r {A} (a b : list A) : NoDup (a ++ b) -> NoDup b.
Proof. induction a as [|x r IH]; simpl; intro H; [exact H|]. inversion H; subst. auto. Qed.

Lemma file_stable_ext s s' p : ss_file s' p = ss_file s p ->
  (forall q, In q (all_bats (ss_file s p)) -> ss_bat s' q = ss_bat s q) ->
  (forall q e, In q (all_bats (ss_file s p)) -> In e (bc_ents (ss_bat s q)) -> ss_ent s' e = ss_ent s e) ->
  file_stable s' p = file_stable s p.
Proof.
  intros F B E. unfold file_stable. rewrite (file_fix_ext s s' p F B), (lists_ok_ext s s' p F B). rewrite F.
  f_equal. f_equal. apply forallb_ext_in. intros q Q. apply bat_calm_ext; [now apply B|]. intros e X. eapply E; eauto.
Qed.

(* SegmentResult *)
Section SegmentResult.
  Variables (s : sstate) (p : N).
  Hypothesis I : sinv s.
  Hypothesis P : p < ss_nf s.
  Hypothesis ST : file_stable s p = true.
  Hypothesis OK : snd (s_create s p) = SOk.

  Let L := all_bats (ss_file s p).

  (* the old cells of a half sit where its File.Create keeps their numbers *)
  Lemma half_renum_safe sk h (credit : bool) :
    seg_core s L sk h -> renum_safe s sk 1 (if credit then hcred h else hdeb h).
  Proof.
    intros C k x N XL. pose proof (si_pext _ _ _ _ C) as X. rewrite (px_bat _ _ X x XL).
    destruct (Z.ltb_spec 1 (bc_num (ss_bat s x))) as [G|S]; [unfold num_fix; apply orb_true_iff; left; now apply Z.ltb_lt|].
    pose proof (si_nodup _ _ _ _ C) as ND. unfold allh in ND. fold (hcred h) (hdeb h) in ND.
    assert (XA : In x (allh h)).
    { unfold allh. fold (hcred h) (hdeb h). apply nth_error_In in N. apply in_or_app. destruct credit; auto. }
    assert (XO : In x L).
    { destruct (si_cells _ _ _ _ C x XA) as [[B _]|[_ B]]; [lia|exact B]. }
    destruct (L_small s p P ST OK x XO S) as [_ F1].
    replace (1 + Z.of_nat k)%Z with 1%Z; [exact F1|].
    enough (k = O) by (subst; reflexivity).
    destruct (si_head _ _ _ _ C x XA XL S) as [H|H]; destruct credit.
    - exact (nth_hd_NoDup _ k x (nodup_app_l _ _ ND) N H).
    - exfalso. apply nth_error_In in N. apply hd_error_In in H. exact (nodup_app_disj _ _ x ND H N).
    - exfalso. apply nth_error_In in N. apply hd_error_In in H. exact (nodup_app_disj _ _ x ND N H).
    - exact (nth_hd_NoDup _ k x (nodup_app_r _ _ ND) N H).
  Qed.

  Lemma cell_ok_shape sk s3 q :
    (forall q', bshape (ss_bat s3 q') (ss_bat sk q')) -> ss_ent s3 = ss_ent sk -> ss_nb s3 = ss_nb sk ->
    cell_ok s p sk q -> cell_ok s p s3 q.
  Proof.
    intros SH EE NB [[A [B [C D]]]|O]; [left|now right].
    split; [exact A|]. split; [lia|]. split.
    - rewrite <- C. apply bat_calm_shape; [apply SH|]. intros. now rewrite EE.
    - destruct (SH q) as [_ [_ [_ [_ [_ [_ [_ E]]]]]]]. rewrite E. exact D.
  Qed.

  (* a half that got batches: a new stable file; nothing that existed changes *)
  Lemma store_half_stable sk f hdr bs js :
    pext s sk -> NoDup (bs ++ js) -> (forall q, In q (bs ++ js) -> cell_ok s p sk q) -> typed sk bs js ->
    renum_safe s sk 1 (bs ++ js) ->
    let s' := store_half f hdr bs js sk in
    pext s s' /\
    (forall i p', In (i, p') (ss_store s') -> In (i, p') (ss_store sk) \/
        (file_stable s' p' = true /\ p' = ss_nf sk /\ all_bats (ss_file s' p') = bs ++ js /\ ss_nf sk < ss_nf s')) /\
    (forall q, bshape (ss_bat s' q) (ss_bat sk q)) /\ ss_ent s' = ss_ent sk /\ ss_nb s' = ss_nb sk /\
    (forall q, ~ In q (bs ++ js) -> ss_bat s' q = ss_bat sk q) /\
    (forall p', p' < ss_nf sk -> ss_file s' p' = ss_file sk p').
  Proof.
    intros X ND CE TY RS. unfold store_half. destruct (bs ++ js) eqn:E.
    { split; [exact X|]. split; [auto|]. split; [intro; apply bshape_refl|auto]. }
    rewrite <- E in *. clear E.
    set (g := mkfo _ _ _ _ _ bs js _).
    destruct (store_new_gen s p I P ST sk g X ND CE TY RS) as [X2 [S2 CF]].
    cbn [new_file fst snd] in *.
    match goal with |- context [set_store ?a _ _] => set (s2 := a) in * end.
    assert (FG : ss_file s2 (ss_nf sk) = fset_ctl g (fo_ctl (ss_file s2 (ss_nf sk)))).
    { destruct (cr_self _ _ _ CF) as [c EQ]. cbn [ss_file] in EQ. rewrite hupd_eq in EQ. rewrite EQ. reflexivity. }
    split; [now apply pext_set_store|]. split; [|split; [|split; [|split; [|split]]]].
    - intros i p' [Q|Q].
      + inversion Q. subst. right. rewrite file_stable_set_store. split; [exact S2|]. split; [reflexivity|]. split.
        * cbn [set_store ss_file]. rewrite FG. reflexivity.
        * cbn [set_store ss_nf]. rewrite (cr_nf _ _ _ CF). cbn [ss_nf]. lia.
      + left. rewrite (cr_store _ _ _ CF) in Q. exact Q.
    - intro q. apply (cr_shape _ _ _ CF q).
    - apply (cr_ent _ _ _ CF).
    - apply (cr_nb _ _ _ CF).
    - intros q Q. cbn [set_store ss_bat]. rewrite (cr_bat _ _ _ CF q); [reflexivity|].
      cbn [ss_file]. rewrite hupd_eq. exact Q.
    - intros p' Q. cbn [set_store ss_file]. rewrite (cr_other _ _ _ CF p') by lia. cbn [ss_file]. apply hupd_neq. lia.
  Qed.

  (* POST /files/{id}/segment on a stable file *)
  Lemma segment_stable_ok sps chdr dhdr s1 :
    s_create s p = (s1, SOk) ->
    let s' := s_segment s p (SegOk sps chdr dhdr) in
    pext s s' /\ forall i p', In (i, p') (ss_store s') -> In (i, p') (ss_store s) \/ file_stable s' p' = true.
  Proof.
    intros CR. unfold s_segment. rewrite CR.
    assert (X1 : pext s s1).
    { replace s1 with (fst (s_create s p)) by now rewrite CR.
      apply pext_create_fix; [apply pext_refl| |now left]. intros _. now apply stable_fix. }
    pose proof (hsame_create s p) as [H1 _]. rewrite CR in H1. cbn [fst] in H1.
    assert (FL : ss_file s1 p = ss_file s p) by now apply (px_file _ _ X1).
    rewrite FL. fold L.
    assert (INV0 : seg_inv s [] s1 (mkhalves [] [] [] [])).
    { split; [|reflexivity]. split; [exact X1|constructor|intros q []|split; intros q []|intros q []]. }
    pose proof (seg_fold s p I P ST OK (fo_keep (ss_file s p)) L [] sps s1 (mkhalves [] [] [] []) eq_refl INV0) as [C _].
    pose proof (hsame_fold_seg (fo_keep (ss_file s p)) (zip_splits L sps) s1 (mkhalves [] [] [] [])) as [H2 _].
    fold L in C. destruct (fold_left (seg_batch (fo_keep (ss_file s p))) (zip_splits L sps) (s1, mkhalves [] [] [] [])) as [s2 h].
    cbn [fst snd] in *.
    pose proof (si_pext _ _ _ _ C) as X2.
    pose proof (si_nodup _ _ _ _ C) as ND. unfold allh in ND.
    pose proof (si_typed _ _ _ _ C) as [TA TB].
    assert (CELL : forall q, In q (allh h) -> cell_ok s p s2 q).
    { intros q Q. destruct (si_cells _ _ _ _ C q Q) as [N|[A B]]; [now left|now right]. }
    (* credit file *)
    destruct (store_half_stable s2 (ss_file s p) chdr (h_cb h) (h_ci h) X2 (nodup_app_l _ _ ND)) as [X3 [S3 [SH3 [EE3 [NB3 _]]]]].
    { intros q Q. apply CELL. unfold allh. apply in_or_app. now left. }
    { split; intros q Q; [apply TA|apply TB]; apply in_or_app; now left. }
    { apply (half_renum_safe s2 h true C). }
    set (s3 := store_half (ss_file s p) chdr (h_cb h) (h_ci h) s2) in *.
    (* debit file *)
    destruct (store_half_stable s3 (ss_file s p) dhdr (h_db h) (h_di h) X3 (nodup_app_r _ _ ND)) as [X4 [S4 [_ [EE4 [_ [BK4 FK4]]]]]].
    { intros q Q. apply (cell_ok_shape s2 s3 q SH3 EE3 NB3). apply CELL. unfold allh. apply in_or_app. now right. }
    { split; intros q Q; destruct (SH3 q) as [_ [E _]]; rewrite E; [apply TA|apply TB]; apply in_or_app; now right. }
    { intros k x N XL. rewrite (px_bat _ _ X3 x XL).
      pose proof (half_renum_safe s2 h false C k x N XL) as F. now rewrite (px_bat _ _ X2 x XL) in F. }
    split; [exact X4|].
    intros i p' Q. destruct (S4 i p' Q) as [Q3|[ST4 _]]; [|now right].
    destruct (S3 i p' Q3) as [Q2|[ST3 [PE [AB PL]]]].
    - left. congruence.
    - right. (* the credit file stays as it is while the debit file is stored: they hold no common cell *)
      rewrite <- ST3. subst p'. fold s3 in PL.
      apply file_stable_ext; [now apply FK4| |].
      + intros q Q'. apply BK4. rewrite AB in Q'. intro Q''. exact (nodup_app_disj _ _ q ND Q' Q'').
      + intros. now rewrite EE4.
  Qed.
End SegmentResult.

(* ---------------------------------------------------------------- read requests on stable files *)

Lemma shows_pext s s' j p' : sinv s -> pext s s' -> store_ext s s' -> lookup (ss_store s) j = Some p' ->
  shows s' j = shows s j.
Proof.
  intros I X [SE _] L. unfold shows. rewrite (SE j p' L), L. cbn [option_map]. f_equal.
  apply view_pext; auto. apply (inv_store s I j p'). now apply lookup_In.
Qed.

Definition grows_stable (s s' : sstate) : Prop :=
  pext s s' /\ forall i p', In (i, p') (ss_store s') -> In (i, p') (ss_store s) \/ file_stable s' p' = true.

Lemma grows_refl s : grows_stable s s.
Proof. split; [apply pext_refl|auto]. Qed.

(* one read request addressed to a stable file: every cell that existed is as it was, and what it
   stores is stable *)
Theorem read_of_stable s r i p :
  sinv s -> target r = Some i -> lookup (ss_store s) i = Some p -> file_stable s p = true ->
  sread_stored r = true -> wf_label s r = true -> grows_stable s (fst (sstep s r)).
Proof.
  intros I T L ST RD WF.
  assert (P : p < ss_nf s) by (apply (inv_store s I i p); now apply lookup_In).
  assert (CR : grows_stable s (fst (s_create s p))).
  { split.
    - apply pext_create_fix; [apply pext_refl| |now left]. intros _. now apply (stable_fix s p ST).
    - intros j p' Q. left. now rewrite (proj1 (hsame_create s p)) in Q. }
  destruct r; try discriminate; cbn [target] in T; inversion T; subst; cbn [sstep]; rewrite ?L; cbn [fst];
    try apply grows_refl; try exact CR.
  - (* flatten *)
    unfold wf_label in WF. rewrite L in WF. now apply flatten_stable.
  - (* segment *)
    unfold s_segment. destruct (s_create s p) as [s1 st] eqn:C. cbn [fst] in CR.
    destruct st; try exact CR.
    destruct l as [sps chdr dhdr|valid ws].
    + pose proof (segment_stable_ok s p I P ST ltac:(now rewrite C) sps chdr dhdr s1 C) as G.
      unfold s_segment in G. rewrite C in G. exact G.
    + destruct valid; [|exact CR]. unfold wf_label in WF. rewrite L in WF. split.
      * apply (pext_apply_writes_noop s p I P); [apply CR|exact WF].
      * intros j p' Q. left. rewrite (proj1 (hsame_apply_writes p ws s1)) in Q.
        pose proof (proj1 (hsame_create s p)) as H. rewrite C in H. cbn [fst] in H. congruence.
Qed.

(* ... so nothing any ID showed changes *)
Corollary read_of_stable_shows s r i p j p' :
  sinv s -> target r = Some i -> lookup (ss_store s) i = Some p -> file_stable s p = true ->
  sread_stored r = true -> wf_label s r = true -> lookup (ss_store s) j = Some p' ->
  shows (fst (sstep s r)) j = shows s j.
Proof.
  intros I T L ST RD WF Lj.
  destruct (read_of_stable s r i p I T L ST RD WF) as [X _].
  apply (shows_pext s _ j p' I X); [|exact Lj].
  apply sstep_store_ext; [exact I|]. intros k E. subst. discriminate.
Qed.

Lemma all_stable_spec s : all_stable s = true <-> forall i p, In (i, p) (ss_store s) -> file_stable s p = true.
Proof.
  unfold all_stable. rewrite forallb_forall. split.
  - intros H i p Q. apply (H (i, p) Q).
  - intros H [i p] Q. apply (H i p Q).
Qed.

(* the class "every stored file is stable" is closed under the read requests on stored files *)
Theorem all_stable_step s r :
  sinv s -> all_stable s = true -> sread_stored r = true -> wf_label s r = true ->
  grows_stable s (fst (sstep s r)) /\ all_stable (fst (sstep s r)) = true.
Proof.
  intros I A RD WF. rewrite all_stable_spec in A.
  assert (G : grows_stable s (fst (sstep s r))).
  { destruct (target r) as [i|] eqn:T.
    - destruct (lookup (ss_store s) i) as [p|] eqn:L.
      + apply (read_of_stable s r i p I T L); auto. apply (A i p). now apply lookup_In.
      + rewrite (unknown_target_changes_nothing s r i T L); [apply grows_refl|]. intros k E. subst. discriminate.
    - destruct r; try discriminate. cbn [sstep fst]. apply grows_refl. }
  split; [exact G|]. apply all_stable_spec. intros i p Q. destruct G as [X N].
  destruct (N i p Q) as [O|S]; [|exact S].
  rewrite (file_stable_pext s _ p I X); [now apply (A i p)|]. now apply (inv_store s I i p).
Qed.

(* every history of read requests on stored files, from a state whose stored files are all stable:
   every ID shows at the end what it showed at the start, and the class is kept *)
Theorem stable_reads_preserve : forall rs s,
  sinv s -> all_stable s = true -> forallb sread_stored rs = true -> wf_run s rs = true ->
  (forall j p', lookup (ss_store s) j = Some p' -> shows (srun s rs) j = shows s j) /\
  all_stable (srun s rs) = true.
Proof.
  unfold srun. induction rs as [|r t IH]; intros s I A RD WF; cbn [fold_left]; [split; auto|].
  simpl in RD, WF. apply andb_true_iff in RD, WF. destruct RD as [R1 R2], WF as [W1 W2].
  destruct (all_stable_step s r I A R1 W1) as [[X N] A1].
  pose proof (sinv_step s r I) as I1.
  destruct (IH (fst (sstep s r)) I1 A1 R2 W2) as [SH A2]. split; [|exact A2].
  intros j p' L.
  assert (SE : store_ext s (fst (sstep s r))).
  { apply sstep_store_ext; [exact I|]. intros k E. subst. discriminate. }
  rewrite (SH j p'); [|now apply (proj1 SE)].
  now apply (shows_pext s _ j p' I X SE).
Qed.

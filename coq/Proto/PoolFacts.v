(* C19 — proofs about the pool machine of Pool.v: the invariant, the simulation of
   every interleaving by the solo runs, non-interference, race freedom, and the
   discipline of structured (borrow-shaped) programs. *)
From Coq Require Import List Arith Bool NArith Lia.
Import ListNotations.
From ACH Require Import Pool.

Arguments upd : simpl never.

Lemma upd_same {A} (f : nat -> A) k v : upd f k v k = v.
Proof. unfold upd. now rewrite Nat.eqb_refl. Qed.
Lemma upd_other {A} (f : nat -> A) k v k' : k' <> k -> upd f k v k' = f k'.
Proof. unfold upd. intros H. apply Nat.eqb_neq in H. now rewrite H. Qed.

Lemma inb_true r l : inb r l = true <-> In r l.
Proof. unfold inb. destruct (in_dec Nat.eq_dec r l); split; intros; auto; discriminate. Qed.
Lemma inb_false r l : inb r l = false <-> ~ In r l.
Proof. unfold inb. destruct (in_dec Nat.eq_dec r l); split; intros; auto; try discriminate; contradiction. Qed.

Lemma rm_In x r l : In x (rm r l) <-> In x l /\ x <> r.
Proof.
  unfold rm. induction l as [|y l IH]; cbn [remove In]; [tauto|].
  destruct (Nat.eq_dec r y) as [->|Hne].
  - rewrite IH. split; [tauto|]. intros [[H|H] Hx]; [congruence|tauto].
  - cbn [In]. rewrite IH. split.
    + intros [H|H]; [split; [now left|congruence]|tauto].
    + tauto.
Qed.

Lemma firstn_In_compat {A} (x : A) n l : In x (firstn n l) -> In x l.
Proof. revert l; induction n; intros [|y l] H; cbn in *; try tauto. destruct H; [left; assumption|right; eauto]. Qed.
Lemma skipn_In_compat {A} (x : A) n l : In x (skipn n l) -> In x l.
Proof. revert l; induction n; intros [|y l] H; cbn in *; try tauto. right; eauto. Qed.

(* removing position i from a duplicate-free list removes that element *)
Lemma NoDup_remove_nth (l : list nat) i :
  NoDup l -> i < length l ->
  NoDup (firstn i l ++ skipn (S i) l) /\ ~ In (nth i l 0) (firstn i l ++ skipn (S i) l).
Proof.
  intros Hnd Hi.
  assert (Hl : l = firstn i l ++ nth i l 0 :: skipn (S i) l).
  { clear Hnd. revert l Hi. induction i; intros [|y l] Hi; cbn in *; try lia; [reflexivity|].
    f_equal. apply IHi. lia. }
  rewrite Hl in Hnd. split.
  - eapply NoDup_remove_1; exact Hnd.
  - eapply NoDup_remove_2; exact Hnd.
Qed.

Lemma In_remove_nth (l : list nat) i x :
  In x l -> x = nth i l 0 \/ In x (firstn i l ++ skipn (S i) l).
Proof.
  revert i. induction l as [|y l IH]; intros i H; [contradiction|].
  destruct i as [|i]; cbn [nth firstn skipn app].
  - destruct H as [->|H]; [now left|now right].
  - destruct H as [->|H]; [right; now left|].
    destruct (IH i H) as [->|Hin]; [now left|right; now right].
Qed.

Section Facts.
Variable Loc : Type.
Variable Glob : Type.
Notation prog := (prog Loc Glob).
Notation sst := (sst Loc Glob).
Notation tst := (tst Loc Glob).
Notation gst := (gst Loc Glob).

(* ------------------------------------------------------------------ invariant *)
(* [S t] is thread t's solo state after as many steps as t has taken; [L]/[E] are
   the live / known-empty register sets of the static analysis at t's pc. *)
Record Inv (g : gst) (S : tid -> sst) (L E : tid -> list reg) : Prop := {
  inv_disc : forall t, disc (L t) (E t) (pc (th g t)) = true;
  inv_pc : forall t, pc (th g t) = spc (S t);
  inv_loc : forall t, loc (th g t) = sloc (S t);
  inv_glob : forall t, sglob (S t) = glob g;
  inv_own : forall t r, In r (L t) ->
      exists b, regs (th g t) r = Some b /\ b < next g /\ ~ In b (pool g) /\ heap g b = sbufs (S t) r;
  inv_inj : forall t r t' r' b, In r (L t) -> In r' (L t') ->
      regs (th g t) r = Some b -> regs (th g t') r' = Some b -> t = t' /\ r = r';
  inv_empty : forall t r, In r (E t) -> sbufs (S t) r = [];
  inv_pool : forall b, In b (pool g) -> heap g b = [] /\ b < next g;
  inv_nodup : NoDup (pool g);
  (* accounting: every buffer ever created is pooled or held in a live register *)
  inv_acct : forall b, b < next g ->
      In b (pool g) \/ exists t r, In r (L t) /\ regs (th g t) r = Some b }.
Arguments inv_disc {g S L E}.
Arguments inv_pc {g S L E}.
Arguments inv_loc {g S L E}.
Arguments inv_glob {g S L E}.
Arguments inv_own {g S L E}.
Arguments inv_inj {g S L E}.
Arguments inv_empty {g S L E}.
Arguments inv_pool {g S L E}.
Arguments inv_nodup {g S L E}.
Arguments inv_acct {g S L E}.

Ltac updc x y :=
  destruct (Nat.eq_dec x y) as [->|?];
  [rewrite ?upd_same in * | rewrite ?upd_other in * by assumption].

Ltac proj := cbn [heap next pool glob th pc loc regs spc sloc sbufs sglob set_th] in *.

Lemma Inv_ext g S S' L E : (forall t, S' t = S t) -> Inv g S L E -> Inv g S' L E.
Proof.
  intros Hx I. constructor; intros.
  - apply (inv_disc I).
  - rewrite Hx. apply (inv_pc I).
  - rewrite Hx. apply (inv_loc I).
  - rewrite Hx. apply (inv_glob I).
  - rewrite Hx. now apply (inv_own I).
  - eapply (inv_inj I); eauto.
  - rewrite Hx. now apply (inv_empty I).
  - now apply (inv_pool I).
  - apply (inv_nodup I).
  - now apply (inv_acct I).
Qed.

(* steps that touch only thread-private state (Local, GRead, If, Read) *)
Lemma local_inv g S L E t k l' :
  Inv g S L E -> disc (L t) (E t) k = true ->
  Inv (set_th g t (mktst k l' (regs (th g t))))
      (upd S t (mksst k l' (sbufs (S t)) (sglob (S t)))) L E.
Proof.
  intros I Hd. constructor; proj.
  - intros t0. updc t0 t; proj; [exact Hd|apply (inv_disc I)].
  - intros t0. updc t0 t; proj; [reflexivity|apply (inv_pc I)].
  - intros t0. updc t0 t; proj; [reflexivity|apply (inv_loc I)].
  - intros t0. updc t0 t; proj; apply (inv_glob I).
  - intros t0 r Hr. updc t0 t; proj; now apply (inv_own I).
  - intros t0 r t1 r1 b H0 H1 Hb0 Hb1.
    apply (inv_inj I t0 r t1 r1 b H0 H1).
    + updc t0 t; proj; exact Hb0.
    + updc t1 t; proj; exact Hb1.
  - intros t0 r Hr. updc t0 t; proj; now apply (inv_empty I).
  - apply (inv_pool I).
  - apply (inv_nodup I).
  - intros b Hb. destruct (inv_acct I b Hb) as [Hin|(t0 & r & Hr & Hreg)]; [now left|right].
    exists t0, r. split; [exact Hr|]. updc t0 t; proj; exact Hreg.
Qed.

(* steps that overwrite the contents of a buffer the thread owns (Write, Reset) *)
Lemma write_inv g S L E t r b k v E' :
  Inv g S L E -> In r (L t) -> regs (th g t) r = Some b ->
  disc (L t) E' k = true ->
  (forall r', In r' E' -> r' <> r -> In r' (E t)) -> (In r E' -> v = []) ->
  Inv (mkgst (upd (heap g) b v) (next g) (pool g) (glob g)
             (upd (th g) t (mktst k (loc (th g t)) (regs (th g t)))))
      (upd S t (mksst k (sloc (S t)) (upd (sbufs (S t)) r v) (sglob (S t)))) L (upd E t E').
Proof.
  intros I Hr Hb Hd HE Hv.
  destruct (inv_own I t r Hr) as (b0 & Hb0 & Hlt & Hnp & Hh). rewrite Hb in Hb0. injection Hb0 as <-.
  constructor; proj.
  - intros t0. updc t0 t; proj; [exact Hd|apply (inv_disc I)].
  - intros t0. updc t0 t; proj; [reflexivity|apply (inv_pc I)].
  - intros t0. updc t0 t; proj; [apply (inv_loc I)|apply (inv_loc I)].
  - intros t0. updc t0 t; proj; apply (inv_glob I).
  - intros t0 r0 Hr0. updc t0 t; proj.
    + destruct (inv_own I t r0 Hr0) as (b1 & Hb1 & Hlt1 & Hnp1 & Hh1).
      exists b1. repeat split; auto.
      destruct (Nat.eq_dec r0 r) as [->|Hne].
      * rewrite Hb in Hb1. injection Hb1 as <-. now rewrite !upd_same.
      * assert (b1 <> b).
        { intros ->. destruct (inv_inj I t r0 t r b Hr0 Hr Hb1 Hb) as [_ ?]. contradiction. }
        rewrite !upd_other by assumption. exact Hh1.
    + destruct (inv_own I t0 r0 Hr0) as (b1 & Hb1 & Hlt1 & Hnp1 & Hh1).
      exists b1. repeat split; auto.
      assert (b1 <> b).
      { intros ->. destruct (inv_inj I t0 r0 t r b Hr0 Hr Hb1 Hb) as [? _]. contradiction. }
      rewrite upd_other by assumption. exact Hh1.
  - intros t0 r0 t1 r1 b1 H0 H1 Hb0 Hb1.
    apply (inv_inj I t0 r0 t1 r1 b1 H0 H1).
    + updc t0 t; proj; exact Hb0.
    + updc t1 t; proj; exact Hb1.
  - intros t0 r0 Hr0. updc t0 t; proj.
    + destruct (Nat.eq_dec r0 r) as [->|Hne].
      * rewrite upd_same. now apply Hv.
      * rewrite upd_other by assumption. apply (inv_empty I). now apply HE.
    + now apply (inv_empty I).
  - intros b1 Hb1. destruct (inv_pool I b1 Hb1) as [Hh1 Hlt1]. split; [|exact Hlt1].
    assert (b1 <> b) by (intros ->; contradiction).
    now rewrite upd_other.
  - apply (inv_nodup I).
  - intros b1 Hb1. destruct (inv_acct I b1 Hb1) as [Hin|(t0 & r0 & Hr0 & Hreg)]; [now left|right].
    exists t0, r0. split; [exact Hr0|]. updc t0 t; proj; exact Hreg.
Qed.

(* Get: the thread receives a buffer [b] that is empty, pooled by nobody any more
   and owned by nobody; everything else is as before *)
Lemma get_inv g S L E t r k b heap' next' pool' :
  Inv g S L E -> ~ In r (L t) ->
  disc (r :: L t) (r :: E t) k = true ->
  heap' b = [] -> b < next' -> next g <= next' -> ~ In b pool' -> NoDup pool' ->
  (forall b', In b' pool' -> In b' (pool g) /\ heap' b' = heap g b') ->
  (forall b', b' < next g -> ~ In b' (pool g) -> b' <> b /\ heap' b' = heap g b') ->
  (forall b', b' < next' -> b' = b \/ In b' pool' \/ (b' < next g /\ ~ In b' (pool g))) ->
  Inv (mkgst heap' next' pool' (glob g)
             (upd (th g) t (mktst k (loc (th g t)) (upd (regs (th g t)) r (Some b)))))
      (upd S t (mksst k (sloc (S t)) (upd (sbufs (S t)) r []) (sglob (S t))))
      (upd L t (r :: L t)) (upd E t (r :: E t)).
Proof.
  intros I Hr Hd Hhb Hbn Hnn Hbp Hnd Hpool Hown Hacct.
  constructor; proj.
  - intros t0. updc t0 t; proj; [exact Hd|apply (inv_disc I)].
  - intros t0. updc t0 t; proj; [reflexivity|apply (inv_pc I)].
  - intros t0. updc t0 t; proj; apply (inv_loc I).
  - intros t0. updc t0 t; proj; apply (inv_glob I).
  - intros t0 r0 Hr0. updc t0 t; proj.
    + destruct (Nat.eq_dec r0 r) as [->|Hne].
      * exists b. rewrite !upd_same. repeat split; auto.
      * destruct Hr0 as [Hr0|Hr0]; [congruence|].
        destruct (inv_own I t r0 Hr0) as (b1 & Hb1 & Hlt1 & Hnp1 & Hh1).
        destruct (Hown b1 Hlt1 Hnp1) as [Hne1 Hh'].
        exists b1. rewrite !upd_other by assumption. repeat split; auto; try lia.
        -- intros Hin. apply Hpool in Hin. tauto.
        -- congruence.
    + destruct (inv_own I t0 r0 Hr0) as (b1 & Hb1 & Hlt1 & Hnp1 & Hh1).
      destruct (Hown b1 Hlt1 Hnp1) as [Hne1 Hh'].
      exists b1. repeat split; auto; try lia.
      * intros Hin. apply Hpool in Hin. tauto.
      * congruence.
  - intros t0 r0 t1 r1 b1 H0 H1 Hb0 Hb1.
    (* classify each of the two (thread, register) pairs: the new one or an old one *)
    assert (Hold : forall t2 r2, In r2 (upd L t (r :: L t) t2) ->
              regs (upd (th g) t (mktst k (loc (th g t)) (upd (regs (th g t)) r (Some b))) t2) r2 = Some b1 ->
              (t2 = t /\ r2 = r /\ b1 = b) \/ (In r2 (L t2) /\ regs (th g t2) r2 = Some b1 /\ b1 <> b /\ (t2 = t -> r2 <> r))).
    { intros t2 r2 Hin Hreg. updc t2 t; proj.
      - destruct (Nat.eq_dec r2 r) as [->|Hne].
        + rewrite upd_same in Hreg. injection Hreg as <-. left. auto.
        + rewrite upd_other in Hreg by assumption. destruct Hin as [Hin|Hin]; [congruence|].
          right. destruct (inv_own I t r2 Hin) as (b2 & Hb2 & Hlt2 & Hnp2 & _).
          rewrite Hreg in Hb2. injection Hb2 as <-.
          destruct (Hown b1 Hlt2 Hnp2) as [Hne1 _]. repeat split; auto.
      - right. destruct (inv_own I t2 r2 Hin) as (b2 & Hb2 & Hlt2 & Hnp2 & _).
        rewrite Hreg in Hb2. injection Hb2 as <-.
        destruct (Hown b1 Hlt2 Hnp2) as [Hne1 _]. repeat split; auto; try (intros; contradiction). }
    destruct (Hold t0 r0 H0 Hb0) as [(-> & -> & ->)|(Hi0 & Hg0 & Hn0 & _)];
      destruct (Hold t1 r1 H1 Hb1) as [(-> & -> & Hbb)|(Hi1 & Hg1 & Hn1 & _)]; auto; try congruence.
    exact (inv_inj I t0 r0 t1 r1 b1 Hi0 Hi1 Hg0 Hg1).
  - intros t0 r0 Hr0. updc t0 t; proj.
    + destruct (Nat.eq_dec r0 r) as [->|Hne]; [now rewrite upd_same|].
      rewrite upd_other by assumption. destruct Hr0 as [Hr0|Hr0]; [congruence|]. now apply (inv_empty I).
    + now apply (inv_empty I).
  - intros b1 Hb1. destruct (Hpool b1 Hb1) as [Hin Hh]. destruct (inv_pool I b1 Hin) as [Hh1 Hlt1].
    split; [congruence|lia].
  - exact Hnd.
  - intros b1 Hb1. destruct (Hacct b1 Hb1) as [->|[Hin|[Hlt Hnp]]].
    + right. exists t, r. rewrite !upd_same. proj. rewrite upd_same. split; [now left|reflexivity].
    + now left.
    + destruct (inv_acct I b1 Hlt) as [Hin|(t0 & r0 & Hr0 & Hreg)]; [contradiction|right].
      exists t0, r0. updc t0 t; proj.
      * split; [now right|]. destruct (Nat.eq_dec r0 r) as [->|Hne]; [contradiction|].
        now rewrite upd_other.
      * split; assumption.
Qed.

(* Put of a live, known-empty register *)
Lemma put_inv g S L E t r b k :
  Inv g S L E -> In r (L t) -> In r (E t) -> regs (th g t) r = Some b ->
  disc (rm r (L t)) (rm r (E t)) k = true ->
  Inv (mkgst (heap g) (next g) (b :: pool g) (glob g)
             (upd (th g) t (mktst k (loc (th g t)) (regs (th g t)))))
      (upd S t (mksst k (sloc (S t)) (sbufs (S t)) (sglob (S t))))
      (upd L t (rm r (L t))) (upd E t (rm r (E t))).
Proof.
  intros I Hr HrE Hb Hd.
  destruct (inv_own I t r Hr) as (b0 & Hb0 & Hlt & Hnp & Hh). rewrite Hb in Hb0. injection Hb0 as <-.
  constructor; proj.
  - intros t0. updc t0 t; proj; [exact Hd|apply (inv_disc I)].
  - intros t0. updc t0 t; proj; [reflexivity|apply (inv_pc I)].
  - intros t0. updc t0 t; proj; apply (inv_loc I).
  - intros t0. updc t0 t; proj; apply (inv_glob I).
  - intros t0 r0 Hr0. updc t0 t; proj.
    + apply rm_In in Hr0 as [Hr0 Hne].
      destruct (inv_own I t r0 Hr0) as (b1 & Hb1 & Hlt1 & Hnp1 & Hh1).
      exists b1. repeat split; auto. intros [<-|Hin]; [|contradiction].
      destruct (inv_inj I t r0 t r b Hr0 Hr Hb1 Hb) as [_ ?]. contradiction.
    + destruct (inv_own I t0 r0 Hr0) as (b1 & Hb1 & Hlt1 & Hnp1 & Hh1).
      exists b1. repeat split; auto. intros [<-|Hin]; [|contradiction].
      destruct (inv_inj I t0 r0 t r b Hr0 Hr Hb1 Hb) as [? _]. contradiction.
  - intros t0 r0 t1 r1 b1 H0 H1 Hb0 Hb1.
    assert (Hold : forall t2 r2, In r2 (upd L t (rm r (L t)) t2) -> In r2 (L t2)).
    { intros t2 r2 Hin. updc t2 t; [apply rm_In in Hin; tauto|exact Hin]. }
    apply (inv_inj I t0 r0 t1 r1 b1 (Hold _ _ H0) (Hold _ _ H1)).
    + updc t0 t; proj; exact Hb0.
    + updc t1 t; proj; exact Hb1.
  - intros t0 r0 Hr0. updc t0 t; proj.
    + apply rm_In in Hr0 as [Hr0 _]. now apply (inv_empty I).
    + now apply (inv_empty I).
  - intros b1 [<-|Hb1].
    + split; [|exact Hlt]. rewrite Hh. now apply (inv_empty I).
    + now apply (inv_pool I).
  - constructor; [exact Hnp|apply (inv_nodup I)].
  - intros b1 Hb1. destruct (inv_acct I b1 Hb1) as [Hin|(t0 & r0 & Hr0 & Hreg)]; [left; now right|].
    destruct (Nat.eq_dec b1 b) as [->|Hne]; [left; now left|right].
    exists t0, r0. updc t0 t; proj.
    + split; [|exact Hreg]. apply rm_In. split; [exact Hr0|]. intros ->. congruence.
    + split; assumption.
Qed.

(* ------------------------------------------------------------ one global step *)
Lemma gstep_inv g S L E t c :
  Inv g S L E -> exists L' E', Inv (gstep g t c) (upd S t (solo_step (S t))) L' E'.
Proof.
  intros I.
  pose proof (inv_pc I t) as Hpc. pose proof (inv_disc I t) as Hd.
  pose proof (inv_loc I t) as Hloc. pose proof (inv_glob I t) as Hgl.
  unfold gstep, solo_step. rewrite <- Hpc.
  destruct (pc (th g t)) as [|r k|r f k|r gf k|r k|r k|h k|gf k|w k|cnd k1 k2] eqn:Epc; cbn [disc] in Hd.
  - (* Done *)
    exists L, E. apply Inv_ext with (S := S); [|exact I].
    intros t0. updc t0 t; reflexivity.
  - (* Get *)
    apply andb_prop in Hd as [Hnl Hd]. apply negb_true_iff in Hnl. apply inb_false in Hnl.
    exists (upd L t (r :: L t)), (upd E t (r :: E t)).
    assert (Hfresh :
      Inv (mkgst (upd (heap g) (next g) []) (Datatypes.S (next g)) (pool g) (glob g)
                 (upd (th g) t (mktst k (loc (th g t)) (upd (regs (th g t)) r (Some (next g))))))
          (upd S t (mksst k (sloc (S t)) (upd (sbufs (S t)) r []) (sglob (S t))))
          (upd L t (r :: L t)) (upd E t (r :: E t))).
    { apply get_inv; auto.
      - apply upd_same.
      - intros Hin. apply (inv_pool I) in Hin. lia.
      - apply (inv_nodup I).
      - intros b' Hin. split; [exact Hin|]. apply (inv_pool I) in Hin as Hp. rewrite upd_other by lia. reflexivity.
      - intros b' Hlt _. split; [lia|]. rewrite upd_other by lia. reflexivity.
      - intros b' Hlt. destruct (Nat.eq_dec b' (next g)) as [->|Hne]; [now left|].
        destruct (in_dec Nat.eq_dec b' (pool g)) as [Hin|Hnin]; [right; now left|].
        right. right. split; [lia|exact Hnin]. }
    destruct c as [i|]; [|exact Hfresh].
    destruct (i <? length (pool g)) eqn:Ei; [|exact Hfresh].
    apply Nat.ltb_lt in Ei.
    destruct (NoDup_remove_nth (pool g) i (inv_nodup I) Ei) as [Hnd' Hnin].
    assert (Hbin : In (nth i (pool g) 0) (pool g)) by now apply nth_In.
    destruct (inv_pool I _ Hbin) as [Hbe Hblt].
    apply get_inv; auto.
    + intros b' Hin. split; [|reflexivity].
      apply in_app_or in Hin as [Hin|Hin]; [exact (firstn_In_compat _ _ _ Hin)|exact (skipn_In_compat _ _ _ Hin)].
    + intros b' _ Hnp. split; [|reflexivity]. intros ->. contradiction.
    + intros b' Hlt. destruct (in_dec Nat.eq_dec b' (pool g)) as [Hin'|Hnin']; [|right; right; now split].
      destruct (In_remove_nth (pool g) i b' Hin') as [->|Hrest]; [now left|right; now left].
  - (* Write *)
    apply andb_prop in Hd as [Hl Hd]. apply inb_true in Hl.
    destruct (inv_own I t r Hl) as (b & Hb & Hlt & Hnp & Hh). rewrite Hb.
    exists L, (upd E t (rm r (E t))).
    replace (f (sloc (S t)) (sbufs (S t) r)) with (f (loc (th g t)) (heap g b)) by (now rewrite Hloc, Hh).
    apply write_inv; auto.
    + intros r' Hin _. apply rm_In in Hin. tauto.
    + intros Hin. apply rm_In in Hin. tauto.
  - (* Read *)
    apply andb_prop in Hd as [Hl Hd]. apply inb_true in Hl.
    destruct (inv_own I t r Hl) as (b & Hb & Hlt & Hnp & Hh). rewrite Hb.
    exists L, E.
    replace (gf (sloc (S t)) (sbufs (S t) r)) with (gf (loc (th g t)) (heap g b)) by (now rewrite Hloc, Hh).
    now apply local_inv.
  - (* Reset *)
    apply andb_prop in Hd as [Hl Hd]. apply inb_true in Hl.
    destruct (inv_own I t r Hl) as (b & Hb & Hlt & Hnp & Hh). rewrite Hb.
    exists L, (upd E t (r :: E t)).
    apply write_inv; auto.
    intros r' [<-|Hin] Hne; [congruence|exact Hin].
  - (* Put *)
    apply andb_prop in Hd as [Hl Hd]. apply andb_prop in Hl as [Hl HE].
    apply inb_true in Hl. apply inb_true in HE.
    destruct (inv_own I t r Hl) as (b & Hb & Hlt & Hnp & Hh). rewrite Hb.
    exists (upd L t (rm r (L t))), (upd E t (rm r (E t))).
    now apply put_inv.
  - (* Local *)
    exists L, E. rewrite <- Hloc. now apply local_inv.
  - (* GRead *)
    exists L, E.
    replace (gf (sloc (S t)) (sglob (S t))) with (gf (loc (th g t)) (glob g)) by (now rewrite Hloc, Hgl).
    now apply local_inv.
  - (* GWrite: excluded by the discipline *)
    discriminate.
  - (* If *)
    apply andb_prop in Hd as [Hd1 Hd2].
    exists L, E. rewrite <- Hloc. apply local_inv; [exact I|].
    destruct (cnd (loc (th g t))); assumption.
Qed.

(* --------------------------------------------------------- every interleaving *)
Lemma solo_run_step n (s : sst) : solo_run (Datatypes.S n) s = solo_run n (solo_step s).
Proof. reflexivity. Qed.

Lemma gstep_glob g S L E t c : Inv g S L E -> glob (gstep g t c) = glob g.
Proof.
  intros I. pose proof (inv_disc I t) as Hd. unfold gstep.
  destruct (pc (th g t)) as [|r k|r f k|r gf k|r k|r k|h k|gf k|w k|cnd k1 k2]; cbn [disc] in Hd;
    try discriminate; try reflexivity.
  - destruct c as [i|]; [destruct (i <? length (pool g))|]; reflexivity.
  - destruct (regs (th g t) r); reflexivity.
  - destruct (regs (th g t) r); reflexivity.
  - destruct (regs (th g t) r); reflexivity.
  - destruct (regs (th g t) r); reflexivity.
Qed.

Lemma run_inv sc : forall g S L E,
  Inv g S L E ->
  exists S' L' E', Inv (run sc g) S' L' E' /\ (forall t, S' t = solo_run (count t sc) (S t)) /\
                   glob (run sc g) = glob g.
Proof.
  induction sc as [|[t c] sc IH]; intros g S L E I.
  - exists S, L, E. split; [exact I|split; reflexivity].
  - destruct (gstep_inv g S L E t c I) as (L1 & E1 & I1).
    destruct (IH _ _ _ _ I1) as (S' & L' & E' & I' & HS & HG).
    exists S', L', E'. split; [exact I'|split].
    + intros t0. rewrite HS. unfold count. cbn [filter fst].
      destruct (Nat.eq_dec t t0) as [->|Hne].
      * rewrite Nat.eqb_refl, upd_same. reflexivity.
      * assert (Hf : Nat.eqb t t0 = false) by now apply Nat.eqb_neq.
        rewrite Hf, upd_other by congruence. reflexivity.
    + cbn [run fold_left fst snd] in *. unfold run in HG. rewrite HG. exact (gstep_glob g S L E t c I).
Qed.

Lemma init_inv (P : tid -> prog) l0 G warm :
  (forall t, disciplined (P t) = true) ->
  Inv (ginit P l0 G warm) (fun t => sinit (P t) (l0 t) G) (fun _ => []) (fun _ => []).
Proof.
  intros HP. constructor; cbn [ginit heap next pool glob th pc loc regs sinit spc sloc sbufs sglob]; intros; try reflexivity; try contradiction.
  - apply HP.
  - split; [reflexivity|]. apply in_seq in H. lia.
  - apply seq_NoDup.
  - left. apply in_seq. lia.
Qed.

(* The simulation: after ANY schedule, every thread is exactly where its solo run is
   after the same number of its own steps. *)
Theorem pool_simulation (P : tid -> prog) l0 G warm :
  (forall t, disciplined (P t) = true) ->
  forall sc t,
    let g := run sc (ginit P l0 G warm) in
    let s := solo_run (count t sc) (sinit (P t) (l0 t) G) in
    pc (th g t) = spc s /\ loc (th g t) = sloc s.
Proof.
  intros HP sc t.
  destruct (run_inv sc _ _ _ _ (init_inv P l0 G warm HP)) as (S' & L' & E' & I' & HS & _).
  cbn zeta. rewrite <- HS. split; [apply (inv_pc I')|apply (inv_loc I')].
Qed.

(* two schedules that give thread t the same number of steps are indistinguishable
   to t — in particular any interleaving and t running alone *)
Theorem pool_noninterference (P : tid -> prog) l0 G warm warm' :
  (forall t, disciplined (P t) = true) ->
  forall sc sc' t, count t sc = count t sc' ->
    pc (th (run sc (ginit P l0 G warm)) t) = pc (th (run sc' (ginit P l0 G warm')) t) /\
    loc (th (run sc (ginit P l0 G warm)) t) = loc (th (run sc' (ginit P l0 G warm')) t).
Proof.
  intros HP sc sc' t Hc.
  destruct (pool_simulation P l0 G warm HP sc t) as [H1 H2].
  destruct (pool_simulation P l0 G warm' HP sc' t) as [H3 H4].
  rewrite H1, H2, H3, H4, Hc. split; reflexivity.
Qed.

(* finished solo runs stay where they are, and [depth] steps finish every program *)
Lemma solo_done_stable n (s : sst) : spc s = PDone -> solo_run n s = s.
Proof.
  induction n as [|n IH]; intros H; [reflexivity|].
  cbn [solo_run]. assert (Hs : solo_step s = s) by (unfold solo_step; now rewrite H).
  rewrite Hs. now apply IH.
Qed.

Lemma solo_run_add n m (s : sst) : solo_run (n + m) s = solo_run m (solo_run n s).
Proof. revert s. induction n as [|n IH]; intros s; [reflexivity|]. cbn [Nat.add solo_run]. apply IH. Qed.

Lemma solo_run_depth n (s : sst) : depth (spc s) <= n -> spc (solo_run n s) = PDone.
Proof.
  revert s. induction n as [|n IH]; intros s Hn.
  - cbn [solo_run]. destruct (spc s); cbn [depth] in Hn; try lia. reflexivity.
  - cbn [solo_run]. apply IH. unfold solo_step.
    destruct (spc s) as [|r k|r f k|r gf k|r k|r k|h k|gf k|w k|cnd k1 k2] eqn:Es;
      cbn [spc depth] in *; try lia.
    + rewrite Es. cbn [depth]. lia.
    + destruct (cnd (sloc s)); lia.
Qed.

Lemma solo_final_done (p : prog) l G : spc (solo_final p l G) = PDone.
Proof. unfold solo_final. apply solo_run_depth. cbn [sinit spc]. lia. Qed.

Lemma solo_done_unique n m (s : sst) :
  spc (solo_run n s) = PDone -> spc (solo_run m s) = PDone -> solo_run n s = solo_run m s.
Proof.
  intros Hn Hm. destruct (Nat.le_ge_cases n m) as [Hle|Hle].
  - replace m with (n + (m - n)) by lia. rewrite solo_run_add. symmetry. now apply solo_done_stable.
  - replace n with (m + (n - m)) by lia. rewrite solo_run_add. now apply solo_done_stable.
Qed.

(* a thread that has finished, under any schedule, holds its solo result *)
Theorem pool_final_result (P : tid -> prog) l0 G warm :
  (forall t, disciplined (P t) = true) ->
  forall sc t, pc (th (run sc (ginit P l0 G warm)) t) = PDone ->
    loc (th (run sc (ginit P l0 G warm)) t) = sloc (solo_final (P t) (l0 t) G).
Proof.
  intros HP sc t Hdone.
  destruct (pool_simulation P l0 G warm HP sc t) as [H1 H2]. cbn zeta in H1, H2.
  rewrite H2. f_equal. unfold solo_final. apply solo_done_unique.
  - now rewrite <- H1.
  - apply (solo_final_done (P t) (l0 t) G).
Qed.

(* the pool invariant proper: pooled buffers are empty and distinct, and the shared
   tables are never modified *)
Theorem pool_invariant (P : tid -> prog) l0 G warm :
  (forall t, disciplined (P t) = true) ->
  forall sc, let g := run sc (ginit P l0 G warm) in
    NoDup (pool g) /\ (forall b, In b (pool g) -> heap g b = [] /\ b < next g) /\ glob g = G.
Proof.
  intros HP sc.
  destruct (run_inv sc _ _ _ _ (init_inv P l0 G warm HP)) as (S' & L' & E' & I' & HS & HG).
  cbn zeta. repeat split.
  - apply (inv_nodup I').
  - now apply (inv_pool I').
  - now apply (inv_pool I').
  - exact HG.
Qed.

(* no leak: once every goroutine has finished, every buffer ever created is back in the
   pool (each getBuffer was matched by its saveBuffer) *)
Theorem pool_no_leak (P : tid -> prog) l0 G warm :
  (forall t, disciplined (P t) = true) ->
  forall sc, let g := run sc (ginit P l0 G warm) in
    (forall t, pc (th g t) = PDone) -> forall b, b < next g -> In b (pool g).
Proof.
  intros HP sc.
  destruct (run_inv sc _ _ _ _ (init_inv P l0 G warm HP)) as (S' & L' & E' & I' & _ & _).
  cbn zeta. intros Hdone b Hb.
  destruct (inv_acct I' b Hb) as [Hin|(t & r & Hr & _)]; [exact Hin|].
  pose proof (inv_disc I' t) as Hd. rewrite Hdone in Hd. cbn [disc] in Hd.
  destruct (L' t); [contradiction|discriminate].
Qed.

(* ------------------------------------------------------------- race freedom *)
Lemma acc_live g S L E t b :
  Inv g S L E -> acc (th g t) = Some b -> exists r, In r (L t) /\ regs (th g t) r = Some b.
Proof.
  intros I Ha. pose proof (inv_disc I t) as Hd. unfold acc in Ha.
  destruct (pc (th g t)) as [|r k|r f k|r gf k|r k|r k|h k|gf k|w k|cnd k1 k2]; try discriminate;
    cbn [disc] in Hd; apply andb_prop in Hd as [Hl _]; try (apply andb_prop in Hl as [Hl _]);
    apply inb_true in Hl; eauto.
Qed.

(* no thread is ever about to dereference a pooled buffer, and no two threads are
   ever about to dereference the same buffer: the model has no data race on buffers *)
Theorem pool_race_free (P : tid -> prog) l0 G warm :
  (forall t, disciplined (P t) = true) ->
  forall sc, let g := run sc (ginit P l0 G warm) in
    (forall t b, acc (th g t) = Some b -> ~ In b (pool g)) /\
    (forall t t' b, t <> t' -> acc (th g t) = Some b -> acc (th g t') <> Some b).
Proof.
  intros HP sc.
  destruct (run_inv sc _ _ _ _ (init_inv P l0 G warm HP)) as (S' & L' & E' & I' & _ & _).
  cbn zeta. split.
  - intros t b Ha. destruct (acc_live _ _ _ _ _ _ I' Ha) as (r & Hr & Hb).
    destruct (inv_own I' t r Hr) as (b1 & Hb1 & _ & Hnp & _). congruence.
  - intros t t' b Hne Ha Ha'.
    destruct (acc_live _ _ _ _ _ _ I' Ha) as (r & Hr & Hb).
    destruct (acc_live _ _ _ _ _ _ I' Ha') as (r' & Hr' & Hb').
    destruct (inv_inj I' t r t' r' b Hr Hr' Hb Hb') as [? _]. contradiction.
Qed.

(* ------------------------------------------- structured programs are disciplined *)
Definition stack (n : nat) : list reg := rev (seq 0 n).

Lemma stack_S n : stack (Datatypes.S n) = n :: stack n.
Proof. unfold stack. rewrite seq_S, rev_app_distr. reflexivity. Qed.

Lemma stack_In r n : In r (stack n) <-> r < n.
Proof. unfold stack. rewrite <- in_rev, in_seq. lia. Qed.

Lemma rm_notin r l : ~ In r l -> rm r l = l.
Proof.
  unfold rm. induction l as [|y l IH]; intros H; [reflexivity|]. cbn [remove].
  destruct (Nat.eq_dec r y) as [->|Hne]; [exfalso; apply H; now left|].
  f_equal. apply IH. intros Hin. apply H. now right.
Qed.

Lemma rm_head r l : ~ In r l -> rm r (r :: l) = l.
Proof.
  intros H. unfold rm. cbn [remove]. destruct (Nat.eq_dec r r) as [_|Hne]; [|congruence].
  now apply rm_notin.
Qed.

Definition disc_any (live : list reg) (k : prog) : Prop := forall empt, disc live empt k = true.

Lemma compile_disc (s : stm Loc Glob) : forall n kont,
  wf n s = true -> disc_any (stack n) kont -> disc_any (stack n) (compile n s kont).
Proof.
  induction s as [|d f k IH|d gf k IH|d k IH|h k IH|gf k IH|cnd k1 IH1 k2 IH2|body IHb k IHk];
    intros n kont Hwf Hk empt; cbn [wf compile disc] in *.
  - apply Hk.
  - apply andb_prop in Hwf as [Hd Hwf]. apply Nat.ltb_lt in Hd.
    apply andb_true_intro. split; [apply inb_true, stack_In; lia|]. now apply IH.
  - apply andb_prop in Hwf as [Hd Hwf]. apply Nat.ltb_lt in Hd.
    apply andb_true_intro. split; [apply inb_true, stack_In; lia|]. now apply IH.
  - apply andb_prop in Hwf as [Hd Hwf]. apply Nat.ltb_lt in Hd.
    apply andb_true_intro. split; [apply inb_true, stack_In; lia|]. now apply IH.
  - now apply IH.
  - now apply IH.
  - apply andb_prop in Hwf as [H1 H2]. apply andb_true_intro. split; [now apply IH1|now apply IH2].
  - apply andb_prop in Hwf as [Hb Hwk].
    assert (Hn : ~ In n (stack n)) by (rewrite stack_In; lia).
    apply andb_true_intro. split; [apply negb_true_iff, inb_false, Hn|].
    rewrite <- stack_S. apply IHb; [exact Hb|].
    intros empt'. cbn [disc].
    apply andb_true_intro. split; [apply inb_true, stack_In; lia|].
    apply andb_true_intro. split; [apply andb_true_intro; split|].
    + apply inb_true, stack_In; lia.
    + apply inb_true. now left.
    + rewrite stack_S, (rm_head n (stack n) Hn). now apply IHk.
Qed.

(* a closed structured program — any nesting of borrow-shaped calls, branches,
   table reads and private computation — satisfies the discipline *)
Theorem borrow_shape_disciplined (s : stm Loc Glob) :
  wf 0 s = true -> disciplined (compile 0 s PDone) = true.
Proof.
  intros Hwf. unfold disciplined. change (@nil reg) with (stack 0) at 1.
  apply compile_disc; [exact Hwf|]. intros empt. reflexivity.
Qed.

End Facts.

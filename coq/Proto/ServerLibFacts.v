(* C17, phase 2 — the hypotheses of C17_unchanged_if_tabulated discharged from the models of
   C05 (Offsets) and C14 (Purity) for the concrete interpretation of Proto/ServerLib.v. *)
From Coq Require Import List ZArith NArith Bool Lia.
Import ListNotations.
From ACH Require Import Server ServerFacts ServerLib.
From ACH Require Offsets OffsetsFacts Purity PurityFacts.

(* ---------------------------------------------------------------- small structural facts *)

Lemma with_pur_self v : with_pur v (lf_pur v) = v.
Proof. destruct v; reflexivity. Qed.

Lemma with_off_self v : with_off v (lf_off v) = v.
Proof. destruct v; reflexivity. Qed.

Lemma with_batches_self f : Offsets.with_batches f (Offsets.f_batches f) = f.
Proof. destruct f; reflexivity. Qed.

Lemma with_entries_self b : with_entries b (Offsets.b_entries b) = b.
Proof. destruct b; reflexivity. Qed.

Lemma is_nil_renumber bs s : is_nil (Offsets.renumber s bs) = is_nil bs.
Proof. destruct bs; reflexivity. Qed.

(* ---------------------------------------------------------------- File.Create: from C05 *)

Open Scope Z_scope.

(* the link with Offsets.file_create (validateOpts == nil): same result wherever it succeeds *)
Lemma file_create_tabulate f f' : Offsets.file_create f = Offsets.Ret true f' -> f' = tabulate f.
Proof.
  unfold Offsets.file_create, tabulate. destruct (negb (Offsets.f_hdr_ok f)); [discriminate|].
  destruct (Offsets.f_batches f) eqn:E; [discriminate|]. intro H. now inversion H.
Qed.

Lemma file_create_succeeds f : Offsets.f_hdr_ok f = true -> Offsets.f_batches f <> [] ->
  Offsets.file_create f = Offsets.Ret true (tabulate f).
Proof.
  intros H N. unfold Offsets.file_create, tabulate. rewrite H. cbn [negb].
  destruct (Offsets.f_batches f) eqn:E; [congruence|reflexivity].
Qed.

(* Create twice = Create once on the tabulation: OffsetsFacts.renumber_idem, the lemma
   behind C05_file_idempotent *)
Lemma tabulate_idem f : tabulate (tabulate f) = tabulate f.
Proof.
  unfold tabulate. cbn [Offsets.f_batches Offsets.f_hdr_ok].
  rewrite OffsetsFacts.renumber_idem by lia. reflexivity.
Qed.

(* ... which is C05_file_idempotent itself wherever file_create applies *)
Lemma tabulate_idem_from_c05 f : Offsets.f_hdr_ok f = true -> Offsets.f_batches f <> [] ->
  tabulate (tabulate f) = tabulate f.
Proof.
  intros H N. pose proof (file_create_succeeds f H N) as C.
  pose proof (OffsetsFacts.file_create_idem f (tabulate f) C) as C2.
  symmetry. now apply file_create_tabulate.
Qed.

Lemma hdr_tabulate f : Offsets.f_hdr_ok (tabulate f) = Offsets.f_hdr_ok f.
Proof. reflexivity. Qed.

Lemma nil_tabulate f : is_nil (Offsets.f_batches (tabulate f)) = is_nil (Offsets.f_batches f).
Proof. unfold tabulate. cbn [Offsets.f_batches]. apply is_nil_renumber. Qed.

Lemma set_hnum_idem b n : set_hnum (set_hnum b n) n = set_hnum b n.
Proof. reflexivity. Qed.

Lemma adv_renumber_idem bs : forall seq ps,
  adv_renumber seq (fst (adv_renumber seq bs ps)) ps = adv_renumber seq bs ps.
Proof.
  induction bs as [|b r IH]; intros seq ps; [destruct ps; reflexivity|].
  destruct ps as [|p pr]; [reflexivity|]. cbn [adv_renumber].
  destruct (Purity.b_hdr p) eqn:H; [|cbn [fst adv_renumber]; now rewrite H].
  destruct (Purity.is_adv p) eqn:A; [|cbn [fst adv_renumber]; now rewrite H, A].
  cbn [fst snd adv_renumber]. rewrite H, A, IH.
  destruct (Offsets.b_num b <=? 1) eqn:E.
  - cbn [set_hnum Offsets.b_num]. destruct (seq <=? 1) eqn:E2; reflexivity.
  - rewrite E. reflexivity.
Qed.

Lemma adv_renumber_nil bs seq ps : is_nil (fst (adv_renumber seq bs ps)) = is_nil bs.
Proof.
  destruct bs as [|b r]; [destruct ps; reflexivity|]. destruct ps as [|p pr]; [reflexivity|].
  cbn [adv_renumber]. destruct (Purity.b_hdr p); [|reflexivity]. destruct (Purity.is_adv p); reflexivity.
Qed.

(* File.Create twice = once, for EVERY stored value: guards failing, ADV or not, complete
   or cut short by ErrFileADVOnly — status and object *)
Lemma lcreate_idem v : lcreate (snd (lcreate v)) = lcreate v.
Proof.
  unfold lcreate at 2.
  destruct (negb (co_skip (lf_opts v)) && negb (co_nohdr (lf_opts v)) && negb (Offsets.f_hdr_ok (lf_off v))) eqn:G1.
  { cbn [snd]. unfold lcreate. now rewrite G1. }
  destruct (negb (co_skip (lf_opts v)) && negb (co_zero (lf_opts v)) && is_nil (Offsets.f_batches (lf_off v))) eqn:G2.
  { cbn [snd]. unfold lcreate. now rewrite G1, G2. }
  destruct (snd (Purity.isADV (lf_pur v))) eqn:A.
  - cbn [snd]. unfold lcreate. cbn [lf_opts lf_off lf_pur lf_id Offsets.f_hdr_ok Offsets.f_batches Offsets.f_ctl].
    rewrite G1, adv_renumber_nil, G2, PurityFacts.isADV_idem, A, adv_renumber_idem. reflexivity.
  - cbn [snd]. unfold lcreate. cbn [lf_opts lf_off lf_pur lf_id].
    rewrite hdr_tabulate, G1, nil_tabulate, G2, PurityFacts.isADV_idem, A, tabulate_idem. reflexivity.
Qed.

Lemma lcreate'_idem v : lcreate' (lcreate' v) = lcreate' v.
Proof. unfold lcreate'. now rewrite lcreate_idem. Qed.

(* "went through Create": Create succeeds on the object and hands it back as it is *)
Definition created (v : lfile) : Prop := lcreate v = (SOk, v).

Lemma create_ok_created w v : lcreate w = (SOk, v) -> created v.
Proof.
  intro H. unfold created. pose proof (lcreate_idem w) as I. rewrite H in I. cbn [snd] in I. exact I.
Qed.

Lemma created_fix v : created v -> lcreate' v = v.
Proof. unfold created, lcreate'. now intros ->. Qed.

Lemma created_pur v : created v -> Purity.install (lf_pur v) = lf_pur v.
Proof.
  unfold created, lcreate, Purity.install. intro H.
  destruct (negb (co_skip (lf_opts v)) && negb (co_nohdr (lf_opts v)) && negb (Offsets.f_hdr_ok (lf_off v))); [discriminate|].
  destruct (negb (co_skip (lf_opts v)) && negb (co_zero (lf_opts v)) && is_nil (Offsets.f_batches (lf_off v))); [discriminate|].
  assert (K : forall (s s' : cstat) o, (s, mklf (lf_id v) (lf_opts v) o (fst (Purity.isADV (lf_pur v)))) = (s', v) ->
              fst (Purity.isADV (lf_pur v)) = lf_pur v).
  { intros s s' o E. apply (f_equal snd) in E. cbn [snd] in E. apply (f_equal lf_pur) in E. exact E. }
  destruct (snd (Purity.isADV (lf_pur v))); exact (K _ _ _ H).
Qed.

Lemma created_prefix_inv v : created v -> Purity.prefix_inv (lf_pur v) = true.
Proof. intro H. apply PurityFacts.install_fix_iff. now apply created_pur. Qed.

(* a created non-ADV value is its own tabulation *)
Lemma created_tabulated v : created v -> snd (Purity.isADV (lf_pur v)) = false -> tabulate (lf_off v) = lf_off v.
Proof.
  unfold created, lcreate. intros H A. rewrite A in H.
  destruct (negb (co_skip (lf_opts v)) && negb (co_nohdr (lf_opts v)) && negb (Offsets.f_hdr_ok (lf_off v))); [discriminate|].
  destruct (negb (co_skip (lf_opts v)) && negb (co_zero (lf_opts v)) && is_nil (Offsets.f_batches (lf_off v))); [discriminate|].
  apply (f_equal snd) in H. cbn [snd] in H. apply (f_equal lf_off) in H. exact H.
Qed.

(* with validateOpts == nil on a non-ADV file lcreate IS Offsets.file_create (and IsADV) *)
Lemma lcreate_is_file_create v f' :
  lf_opts v = co_nil -> snd (Purity.isADV (lf_pur v)) = false ->
  Offsets.file_create (lf_off v) = Offsets.Ret true f' ->
  lcreate v = (SOk, mklf (lf_id v) co_nil f' (Purity.install (lf_pur v))).
Proof.
  intros O A C. pose proof (file_create_tabulate _ _ C) as ->.
  unfold Offsets.file_create in C. unfold lcreate. rewrite O, A. cbn [co_skip co_nohdr co_zero negb andb].
  destruct (negb (Offsets.f_hdr_ok (lf_off v))); [discriminate|].
  destruct (Offsets.f_batches (lf_off v)); [discriminate|]. reflexivity.
Qed.

Lemma lcreate_file_create_fails v :
  lf_opts v = co_nil -> Offsets.file_create (lf_off v) = Offsets.Ret false (lf_off v) -> lcreate v = (SErr, v).
Proof.
  intros O C. unfold Offsets.file_create in C. unfold lcreate. rewrite O. cbn [co_skip co_nohdr co_zero negb andb].
  destruct (negb (Offsets.f_hdr_ok (lf_off v))); [reflexivity|].
  destruct (Offsets.f_batches (lf_off v)); [reflexivity|discriminate].
Qed.

(* ---------------------------------------------------------------- the read-only calls: from C14 *)

(* Purity's history theorem for a one-call history *)
Lemma lop_fixed o v : Purity.prefix_inv (lf_pur v) = true -> lop o v = v.
Proof.
  intro H. unfold lop.
  pose proof (PurityFacts.history_fixed [o] (lf_pur v) (proj2 (PurityFacts.install_fix_iff _) H)) as F.
  cbn [fold_left] in F. rewrite F. apply with_pur_self.
Qed.

(* any history of read-only calls *)
Lemma lops_fixed ops v : Purity.prefix_inv (lf_pur v) = true -> fold_left (fun w o => lop o w) ops v = v.
Proof.
  intro H. induction ops as [|o ops IH]; [reflexivity|]. cbn [fold_left]. now rewrite (lop_fixed o v H).
Qed.

Lemma lmarshal_id v : lmarshal v = v.
Proof. unfold lmarshal, lop. cbn [Purity.step]. apply with_pur_self. Qed.

Lemma lvalidate_created vf v : created v -> lvalidate vf v = v.
Proof. intro C. apply lop_fixed, created_prefix_inv, C. Qed.

Lemma lcontents_created wf v : created v -> lcontents wf v = v.
Proof.
  intro C. unfold lcontents. rewrite C. cbn [fst snd]. apply lop_fixed, created_prefix_inv, C.
Qed.

Lemma lbuild_created v : created v -> lbuild v = v.
Proof. intro C. unfold lbuild. rewrite lmarshal_id. now apply created_fix. Qed.

(* without "created": contents / build leave the created object, which is created *)
Lemma lcontents_result wf v : fst (lcreate v) = SOk -> created (lcontents wf v).
Proof.
  intro S. unfold lcontents. rewrite S.
  assert (C : created (snd (lcreate v))).
  { apply (create_ok_created v). destruct (lcreate v) as [s w]. cbn in *. now subst s. }
  rewrite lop_fixed by (apply created_prefix_inv, C). exact C.
Qed.

(* ---------------------------------------------------------------- FlattenBatches / SegmentFile on the receiver *)

Lemma touch_entry_traced odfi sel s e :
  (Offsets.trace_odfi (Offsets.e_trace e) =? odfi) = true -> touch_entry odfi sel false s e = e.
Proof. intro H. unfold touch_entry. cbv beta iota zeta. rewrite H. cbn [negb]. destruct sel; reflexivity. Qed.

Lemma touch_entries_traced odfi sel pos es : forall j,
  forallb (fun e => Offsets.trace_odfi (Offsets.e_trace e) =? odfi) es = true ->
  touch_entries odfi sel false pos j es = es.
Proof.
  induction es as [|e r IH]; intros j H; [reflexivity|]. cbn [forallb] in H.
  apply andb_true_iff in H as [H1 H2]. cbn [touch_entries]. now rewrite touch_entry_traced, IH.
Qed.

Lemma touch_batches_traced t bs : forall i,
  (forall k, t_reset t k = false) -> forallb traced_batch bs = true -> touch_batches t i bs = bs.
Proof.
  induction bs as [|b r IH]; intros i R H; [reflexivity|]. cbn [forallb] in H.
  apply andb_true_iff in H as [H1 H2]. cbn [touch_batches]. rewrite R.
  unfold traced_batch in H1. rewrite touch_entries_traced by exact H1.
  now rewrite with_entries_self, IH.
Qed.

Lemma ltouch_traced t v : (forall k, t_reset t k = false) -> traced v = true -> ltouch t v = v.
Proof.
  intros R H. unfold ltouch. rewrite touch_batches_traced by assumption.
  now rewrite with_batches_self, with_off_self.
Qed.

(* a batch list that File.Create's renumbering leaves alone has a number <= 1 only in front,
   and it is 1: the half that receives such a batch whole puts it first and renumbers it 1 *)
Lemma share_batches_fixed s bs : forall k,
  Offsets.renumber (1 + Z.of_nat k) bs = bs -> share_batches s k bs = bs.
Proof.
  induction bs as [|b r IH]; intros k H; [reflexivity|].
  remember (1 + Z.of_nat k) as q eqn:Q. cbn [Offsets.renumber] in H.
  injection H as Hb Hr. cbn [share_batches]. f_equal.
  - destruct (s_half s k) as [h|]; [|reflexivity].
    destruct (Offsets.b_num b <=? 1) eqn:E; [|destruct (s_created s h); reflexivity].
    destruct (s_created s h); [|reflexivity]. cbn [andb].
    assert (N : Offsets.b_num b = q) by (rewrite <- Hb; reflexivity).
    apply Z.leb_le in E. assert (k = O) by lia. subst k. cbn [count_below Z.of_nat] in *.
    rewrite Z.add_0_r in *. subst q. exact Hb.
  - apply IH. rewrite <- Hr at 2. f_equal. lia.
Qed.

Lemma lshare_tabulated s v : tabulate (lf_off v) = lf_off v -> lshare s v = v.
Proof.
  intro T. unfold lshare. apply (f_equal Offsets.f_batches) in T. unfold tabulate in T.
  cbn [Offsets.f_batches] in T. rewrite (share_batches_fixed s _ O) by exact T.
  now rewrite with_batches_self, with_off_self.
Qed.

Lemma lflatsrc_built L v : created v -> traced v = true -> lflatsrc L v = v.
Proof.
  intros C T. unfold lflatsrc. rewrite C. cbn [fst snd]. apply ltouch_traced; [reflexivity|exact T].
Qed.

Lemma lsegsrc_built L v :
  created v -> traced v = true -> snd (Purity.isADV (lf_pur v)) = false ->
  (forall k, t_reset (l_seg L v) k = false) -> lsegsrc L v = v.
Proof.
  intros C T A R. unfold lsegsrc. rewrite C. cbn [fst snd].
  rewrite (lop_fixed _ v (created_prefix_inv v C)).
  destruct (Purity.v_ok (l_sv L v)); [|reflexivity].
  rewrite ltouch_traced by assumption. apply lshare_tabulated, created_tabulated; assumption.
Qed.

(* ---------------------------------------------------------------- BalanceFile *)

(* the build inside the balance loop always returns (C05_build_total): the third arm of
   bal_batches is dead code of the model *)
Lemma bal_build_returns T o b : OffsetsFacts.table_good T ->
  exists ok b', Offsets.build T (with_offcfg b o) = Offsets.Ret ok b'.
Proof.
  intro G. destruct (OffsetsFacts.build_total T (with_offcfg b o) G) as [P H].
  destruct (Offsets.build T (with_offcfg b o)) as [ok b'| |]; [now exists ok, b'|congruence|congruence].
Qed.

(* a successful balance always leaves the NEW id on the stored object *)
Lemma lbal_ok_id T L v o i :
  fst (lcreate v) = SOk ->
  fst (bal_batches T (l_offs L o) (l_balv L (snd (lcreate v))) 0 (Offsets.f_batches (lf_off (snd (lcreate v))))) = true ->
  lf_id (lbal T L v o i) = i.
Proof.
  intros S B. unfold lbal. rewrite S, B. unfold lcreate', lcreate.
  repeat match goal with |- context [if ?c then _ else _] => destruct c end; reflexivity.
Qed.

(* ---------------------------------------------------------------- the store of values *)

Open Scope N_scope.

Lemma vshows_vset_eq m i v : lookup (vfiles m) i <> None -> vshows (vset m i v) i = Some v.
Proof. intro H. unfold vshows, vset. cbn [vfiles]. now apply lookup_update_eq. Qed.

Lemma vshows_vset_neq m i j v : i <> j -> vshows (vset m i v) j = vshows m j.
Proof. intro H. unfold vshows, vset. cbn [vfiles]. now apply lookup_update_neq. Qed.

Lemma vshows_von m i j k v :
  vshows m j = Some v -> (i = j -> k v = v) -> vshows (von m i k) j = Some v.
Proof.
  intros S K. unfold von. destruct (lookup (vfiles m) i) as [w|] eqn:E; [|exact S].
  destruct (id_eqb i j) eqn:Q.
  - apply id_eqb_eq in Q. subst j. unfold vshows in S. rewrite E in S. inversion S. subst w.
    rewrite vshows_vset_eq by congruence. now rewrite (K eq_refl).
  - apply id_eqb_neq in Q. now rewrite vshows_vset_neq.
Qed.

Lemma vold_von m i k j : vold m j -> vold (von m i k) j.
Proof. unfold von. destruct (lookup (vfiles m) i); [|auto]. destruct j; cbn; auto. Qed.

Lemma vold_vset m i v j : vold m j -> vold (vset m i v) j.
Proof. destruct j; cbn; auto. Qed.

Lemma vshows_valloc_if b m f j : vold m j -> vshows (valloc_if b m f) j = vshows m j.
Proof.
  intro O. destruct b; [|reflexivity]. unfold vshows, valloc_if, valloc. cbn [vfiles lookup].
  destruct j as [u|k]; cbn [id_eqb]; [reflexivity|]. cbn in O.
  destruct (N.eqb_spec (vnid m) k); [lia|reflexivity].
Qed.

Lemma vold_valloc_if b m f j : vold m j -> vold (valloc_if b m f) j.
Proof. destruct j; cbn; auto. destruct b; cbn; lia. Qed.

Lemma lookup_map_snd (g : lfile -> lfile) l i :
  lookup (map (fun iv => (fst iv, g (snd iv))) l) i = option_map g (lookup l i).
Proof.
  induction l as [|[j a] r IH]; [reflexivity|]. cbn [map lookup fst snd].
  destruct (id_eqb j i); [reflexivity|exact IH].
Qed.

(* one read request of the handlers as they are (with every read-only library call they
   make): a stored file that went through Create still shows the same value.  [pre] is what
   the request class needs beyond "created". *)
Lemma vstep_read_preserves T L m r j v :
  readonly r = true -> vold m j -> vshows m j = Some v -> created v ->
  (plainread r = false ->
     traced v = true /\ snd (Purity.isADV (lf_pur v)) = false /\ forall k, t_reset (l_seg L v) k = false) ->
  vshows (vstep T L m r) j = Some v /\ vold (vstep T L m r) j.
Proof.
  intros RO O S C PRE.
  assert (LK : forall i w, lookup (vfiles m) i = Some w -> i = j -> w = v).
  { intros i w E Q. subst i. unfold vshows in S. rewrite E in S. now inversion S. }
  destruct r as [f b o url bodyid|i| |i l|i o|i|i|i b decodes dup|i k|i|i k|i ok|i ok hc hd|f b ok hc hd|i o ok];
    try discriminate; cbn [vstep].
  - split; [apply vshows_von; [exact S|intros _; apply lmarshal_id]|now apply vold_von].
  - split; [|destruct j; cbn; auto]. unfold vshows. cbn [vfiles]. rewrite lookup_map_snd.
    unfold vshows in S. rewrite S. cbn [option_map]. now rewrite lmarshal_id.
  - split; [apply vshows_von; [exact S|intros _; now apply lcontents_created]|now apply vold_von].
  - split; [apply vshows_von; [exact S|intros _; now apply lvalidate_created]|now apply vold_von].
  - split; [apply vshows_von; [exact S|intros _; now apply lbuild_created]|now apply vold_von].
  - split; [apply vshows_von; [exact S|intros _; apply lmarshal_id]|now apply vold_von].
  - split; [apply vshows_von; [exact S|intros _; apply lmarshal_id]|now apply vold_von].
  - destruct (PRE eq_refl) as [TR _].
    destruct (lookup (vfiles m) i) as [w|] eqn:E; [|auto].
    split; [|now apply vold_valloc_if, vold_vset].
    rewrite vshows_valloc_if by now apply vold_vset.
    destruct (id_eqb i j) eqn:Q.
    + apply id_eqb_eq in Q. rewrite (LK i w E Q). subst i. rewrite vshows_vset_eq by congruence.
      now rewrite lflatsrc_built.
    + apply id_eqb_neq in Q. now rewrite vshows_vset_neq.
  - destruct (PRE eq_refl) as [TR [NA NR]].
    destruct (lookup (vfiles m) i) as [w|] eqn:E; [|auto].
    set (m1 := vset m i (lsegsrc L w)).
    assert (O1 : vold m1 j) by now apply vold_vset.
    assert (O2 := vold_valloc_if (ok && hc) m1 (fun n => l_cred L (lcreate' w) (Gen n)) j O1).
    split; [|now apply vold_valloc_if].
    rewrite vshows_valloc_if by exact O2. rewrite vshows_valloc_if by exact O1. unfold m1.
    destruct (id_eqb i j) eqn:Q.
    + apply id_eqb_eq in Q. rewrite (LK i w E Q). subst i. rewrite vshows_vset_eq by congruence.
      now rewrite lsegsrc_built.
    + apply id_eqb_neq in Q. now rewrite vshows_vset_neq.
  - assert (O2 := vold_valloc_if (ok && hc) m (fun n => l_cred L (lcreate' (l_parseb L f b)) (Gen n)) j O).
    split; [|now apply vold_valloc_if].
    rewrite vshows_valloc_if by exact O2. now rewrite vshows_valloc_if by exact O.
Qed.

Lemma plainread_readonly r : plainread r = true -> readonly r = true.
Proof. destruct r; cbn; congruence. Qed.

(* every history of plain read requests (get, list, contents, validate, build, batch
   lookups, segment of a posted body) *)
Lemma vrun_plainread_preserves T L rs : forall m j v,
  forallb plainread rs = true -> vold m j -> vshows m j = Some v -> created v ->
  vshows (vrun T L m rs) j = Some v.
Proof.
  induction rs as [|r rs IH]; intros m j v RO O S C; [exact S|].
  cbn [forallb] in RO. apply andb_true_iff in RO as [R1 R2]. unfold vrun. cbn [fold_left].
  destruct (vstep_read_preserves T L m r j v (plainread_readonly r R1) O S C) as [S' O'];
    [intro N; congruence|].
  exact (IH _ j v R2 O' S' C).
Qed.

(* every history of read requests, flatten and segment of stored files included, for a
   stored file whose batches went through Batch.Create as well *)
Lemma vrun_read_preserves_built T L rs : forall m j v,
  forallb readonly rs = true -> vold m j -> vshows m j = Some v -> created v ->
  traced v = true -> snd (Purity.isADV (lf_pur v)) = false -> (forall k, t_reset (l_seg L v) k = false) ->
  vshows (vrun T L m rs) j = Some v.
Proof.
  induction rs as [|r rs IH]; intros m j v RO O S C TR NA NR; [exact S|].
  cbn [forallb] in RO. apply andb_true_iff in RO as [R1 R2]. unfold vrun. cbn [fold_left].
  destruct (vstep_read_preserves T L m r j v R1 O S C) as [S' O']; [intros _; auto|].
  exact (IH _ j v R2 O' S' C TR NA NR).
Qed.

(* ---------------------------------------------------------------- the term machine of Server.v under this interpretation *)

(* C17_unchanged_if_tabulated with its three library hypotheses relative to an invariant
   [good] of the shown value instead of "for every tabulated value" *)
Section InterpGood.
  Variable V : Type.
  Variable parse : fmt -> body -> opts -> V.
  Variable parseb : fmt -> body -> V.
  Variable setid : V -> id -> V.
  Variable create flatsrc segsrc : V -> V.
  Variable addb : V -> body -> V.
  Variable delb : V -> bid -> V.
  Variable flat cred deb : V -> id -> V.
  Variable bal : V -> offs -> id -> V.
  Variable good : V -> Prop.
  Hypothesis create_good : forall v, good v -> create v = v.
  Hypothesis flat_good : forall v, good v -> flatsrc v = v.
  Hypothesis seg_good : forall v, good v -> segsrc v = v.

  Notation den := (den V parse parseb setid create flatsrc segsrc addb delb flat cred deb bal).
  Notation shows := (shows V parse parseb setid create flatsrc segsrc addb delb flat cred deb bal).

  Lemma read_step_preserves_good m r j v :
    readonly r = true -> mold m j -> shows m j = Some v -> good v ->
    shows (fst (mstep m r)) j = Some v /\ mold (fst (mstep m r)) j.
  Proof.
    intros RO O S G. unfold mstep.
    assert (KT : forall i t, lookup (mfiles m) i = Some t -> i = j -> good (den t)).
    { intros i t L E. subst i. unfold ServerFacts.shows in S. rewrite L in S. cbn in S. inversion S. now subst v. }
    assert (K : forall i t k, lookup (mfiles m) i = Some t -> (i = j -> den (k t) = den t) ->
                shows (mset m i (k t)) j = Some v).
    { intros i t k L Hk. destruct (id_eqb i j) eqn:E.
      - apply id_eqb_eq in E. subst i. rewrite shows_mset_eq by congruence.
        unfold ServerFacts.shows in S. rewrite L in S. cbn in S. inversion S. subst v. now rewrite (Hk eq_refl).
      - apply id_eqb_neq in E. now rewrite shows_mset_neq. }
    assert (KC : forall i t, lookup (mfiles m) i = Some t -> shows (mset m i (Created t)) j = Some v).
    { intros i t L. apply K; [assumption|]. intro E. cbn. apply create_good, (KT i t L E). }
    assert (KF : forall i t, lookup (mfiles m) i = Some t -> shows (mset m i (FlatSrc t)) j = Some v).
    { intros i t L. apply K; [assumption|]. intro E. cbn. apply flat_good, (KT i t L E). }
    assert (KS : forall i t, lookup (mfiles m) i = Some t -> shows (mset m i (SegSrc t)) j = Some v).
    { intros i t L. apply K; [assumption|]. intro E. cbn. apply seg_good, (KT i t L E). }
    destruct r as [f b o url bodyid|i| |i l|i o|i|i|i b decodes dup|i k|i|i k|i ok|i ok hc hd|f b ok hc hd|i o ok];
      try discriminate; unfold gstep; cbn [ret ret2].
    - destruct (lookup (mfiles m) i); cbn; auto.
    - cbn; auto.
    - destruct (lookup (mfiles m) i) eqn:L; cbn; [split; [now apply KC|now apply mold_mset]|auto].
    - destruct (lookup (mfiles m) i); cbn; auto.
    - destruct (lookup (mfiles m) i) eqn:L; cbn; [split; [now apply KC|now apply mold_mset]|auto].
    - destruct (lookup (mfiles m) i); cbn; auto.
    - destruct (lookup (mfiles m) i); cbn; auto.
    - destruct (lookup (mfiles m) i) eqn:L; cbn; [|auto].
      split; [rewrite shows_malloc_if; [now apply KF|now apply mold_mset]|now apply mold_malloc_if, mold_mset].
    - destruct (lookup (mfiles m) i) eqn:L; cbn; [|auto].
      set (m1 := mset m i (SegSrc t)).
      assert (O1 : mold m1 j) by now apply mold_mset.
      assert (O2 := mold_malloc_if (ok && hc) m1 (fun n => CreditOf (Created t) (Gen n)) j O1).
      split; [|now apply mold_malloc_if].
      rewrite shows_malloc_if by assumption. rewrite shows_malloc_if by assumption. now apply KS.
    - cbn.
      assert (O2 := mold_malloc_if (ok && hc) m (fun n => CreditOf (Created (ParsedBody f b)) (Gen n)) j O).
      split; [|now apply mold_malloc_if].
      rewrite shows_malloc_if by assumption. now rewrite shows_malloc_if by assumption.
  Qed.

  Lemma read_run_preserves_good rs : forall m j v,
    forallb readonly rs = true -> mold m j -> shows m j = Some v -> good v ->
    shows (fst (grun false m rs)) j = Some v.
  Proof.
    induction rs as [|r rs IH]; intros m j v RO O S G; cbn; [assumption|].
    cbn in RO. apply andb_true_iff in RO. destruct RO as [R1 R2].
    destruct (read_step_preserves_good m r j v R1 O S G) as [S' O']. unfold mstep in *.
    destruct (gstep false m r) as [m' a]. cbn in *.
    specialize (IH m' j v R2 O' S' G). destruct (grun false m' rs). exact IH.
  Qed.
End InterpGood.

(* the interpretation: Server's symbols := the functions of ServerLib *)
Definition lib_shows (T : Offsets.otable) (L : labels) : mstate -> id -> option lfile :=
  shows lfile (l_parse L) (l_parseb L) lsetid lcreate' (lflatsrc L) (lsegsrc L) (l_addb L) (l_delb L)
        (l_flatres L) (l_cred L) (l_deb L) (lbal T L).

(* "built": went through File.Create, its batches through Batch.Create, not an ADV file,
   and no mixed IAT batch that SegmentFile would strip of its trace numbers *)
Definition built (L : labels) (v : lfile) : Prop :=
  created v /\ traced v = true /\ snd (Purity.isADV (lf_pur v)) = false /\ forall k, t_reset (l_seg L v) k = false.

Lemma term_read_run_preserves_built T L rs m j v :
  forallb readonly rs = true -> mold m j -> lib_shows T L m j = Some v -> built L v ->
  lib_shows T L (fst (grun false m rs)) j = Some v.
Proof.
  unfold lib_shows. apply (read_run_preserves_good lfile _ _ _ _ _ _ _ _ _ _ _ _ (built L)).
  - intros w [C _]. now apply created_fix.
  - intros w [C [TR _]]. now apply lflatsrc_built.
  - intros w [C [TR [NA NR]]]. now apply lsegsrc_built.
Qed.

(* the first hypothesis of C17_unchanged_if_tabulated ("the shown value is tabulated") holds
   of everything a Create-running endpoint leaves behind *)
Lemma tabulated_after_create v : tabulated lfile lcreate' (lcreate' v).
Proof. unfold tabulated. apply lcreate'_idem. Qed.

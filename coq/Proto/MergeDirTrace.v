(* C10 — trace validation: from the events observed on the real MergeDir (AcceptFile(p)
   called, read of p finished) build a schedule of the protocol model and re-run it.
   [accept] only answers true after [run] has replayed the schedule, so its soundness
   does not depend on how the schedule was found (MergeDirTraceFacts.v). *)
From Coq Require Import List NArith Bool Arith.
From ACH Require Import MergeDir.
Import ListNotations.

Fixpoint find_w (f : wst -> bool) (l : list wst) (i : nat) : option nat :=
  match l with
  | [] => None
  | w :: t => if f w then Some i else find_w f t (S i)
  end.

Definition is_idle (w : wst) : bool := match w with WIdle => true | _ => false end.
Definition is_got (p : N) (w : wst) : bool := match w with WGot q => (p =? q)%N | _ => false end.
Definition is_parsing (p : N) (w : wst) : bool := match w with WParsing q => (p =? q)%N | _ => false end.

Fixpoint assoc (tbl : list (N * outcome)) (p : N) : outcome :=
  match tbl with
  | [] => PSkip
  | (q, o) :: t => if (p =? q)%N then o else assoc t p
  end.

Definition event_eqb (a b : event) : bool :=
  match a, b with
  | EStart p, EStart q => (p =? q)%N
  | EDone p, EDone q => (p =? q)%N
  | _, _ => false
  end.
Fixpoint trace_eqb (a b : list event) : bool :=
  match a, b with
  | [], [] => true
  | x :: a', y :: b' => event_eqb x y && trace_eqb a' b'
  | _, _ => false
  end.

Fixpoint count_N (x : N) (l : list N) : nat :=
  match l with [] => 0 | y :: t => (if (x =? y)%N then 1 else 0) + count_N x t end.
Definition same_multiset (a b : list N) : bool :=
  forallb (fun x => count_N x a =? count_N x b) (a ++ b).

Section Build.
  Variable sel : bool.
  Variable parse : N -> outcome.
  Variable add_ok : N -> bool.

  Fixpoint first_enabled (ls : list label) (s : st) : option (label * st) :=
    match ls with
    | [] => None
    | l :: rest => match fire sel parse add_ok l s with
                   | Some s' => Some (l, s')
                   | None => first_enabled rest s
                   end
    end.

  (* internal steps that never take a possibility away from the threads still running *)
  Definition safe_labels (n : nat) : list label :=
    [LAdd] ++ per_worker n LDeliver ++ [LWalkerDone; LPathsCancel] ++ per_worker n LWorkerExit ++
    [LParseCancel; LMergerExit] ++ per_worker n LWorkerCancel.

  (* schedules are accumulated in reverse *)
  Fixpoint saturate (fuel : nat) (s : st) (acc : list label) : list label * st :=
    match fuel with
    | O => (acc, s)
    | S k => match first_enabled (safe_labels (length (ws s))) s with
             | Some (l, s') => saturate k s' (l :: acc)
             | None => (acc, s)
             end
    end.

  (* does AcceptFile(p) show up in the rest of the trace? *)
  Fixpoint starts_later (p : N) (trace : list event) : bool :=
    match trace with
    | [] => false
    | EStart q :: rest => (p =? q)%N || starts_later p rest
    | EDone _ :: rest => starts_later p rest
    end.

  (* hand queued paths to idle workers until some worker holds p, then let it call AcceptFile.
     A worker calls AcceptFile on every path it receives, so a queued path in front of p whose
     AcceptFile call is never observed ([later] = the rest of the trace) was not sent: the walker
     dropped it (LWalkerCancel, possible only once the group context is canceled) *)
  Fixpoint start_path (fuel : nat) (p : N) (later : list event) (s : st) (acc : list label) : option (list label * st) :=
    match find_w (is_got p) (ws s) 0 with
    | Some i => match fire sel parse add_ok (LStart i) s with
                | Some s' => Some (LStart i :: acc, s')
                | None => None
                end
    | None =>
        match fuel with
        | O => None
        | S k =>
            match queue s with
            | [] => None
            | q :: _ =>
                if (q =? p)%N || starts_later q later then
                  match find_w is_idle (ws s) 0 with
                  | Some i => match fire sel parse add_ok (LHand i) s with
                              | Some s' => start_path k p later s' (LHand i :: acc)
                              | None => None
                              end
                  | None => None
                  end
                else
                  match fire sel parse add_ok LWalkerCancel s with
                  | Some s' => start_path k p later s' (LWalkerCancel :: acc)
                  | None => None
                  end
            end
        end
    end.

  (* end of the trace: paths still queued were never handed out; the walker drops them one by one
     (when it may) and everything else runs to completion *)
  Fixpoint drop_rest (fuel : nat) (s : st) (acc : list label) : list label * st :=
    let '(acc1, s1) := saturate (measure s) s acc in
    match fuel with
    | O => (acc1, s1)
    | S k => match fire sel parse add_ok LWalkerCancel s1 with
             | Some s2 => drop_rest k s2 (LWalkerCancel :: acc1)
             | None => (acc1, s1)
             end
    end.

  Fixpoint build (trace : list event) (s : st) (acc : list label) : option (list label * st) :=
    match trace with
    | [] => Some (drop_rest (length (queue s)) s acc)
    | EStart p :: rest =>
        let '(acc1, s1) := saturate (measure s) s acc in
        match start_path (S (length (queue s1))) p rest s1 acc1 with
        | Some (acc2, s2) => build rest s2 acc2
        | None => None
        end
    | EDone p :: rest =>
        match find_w (is_parsing p) (ws s) 0 with
        | Some i => match fire sel parse add_ok (LParse i) s with
                    | Some s' => build rest s' (LParse i :: acc)
                    | None => None
                    end
        | None => None
        end
    end.

  Definition result_matches (r : result) (observed : option (list N)) : bool :=
    match r, observed with
    | RErr, None => true
    | ROk m, Some ids => same_multiset m ids
    | _, _ => false
    end.

  (* does the model have a complete schedule showing exactly this trace and this result? *)
  Definition accept (n : nat) (paths : list N) (trace : list event) (observed : option (list N)) : bool :=
    match build trace (init n paths) [] with
    | Some (racc, _) =>
        let sched := rev racc in
        match run sel parse add_ok sched (init n paths) with
        | Some s => terminal s && trace_eqb (trace_of sel parse add_ok sched (init n paths)) trace
                    && result_matches (result_of s) observed
        | None => false
        end
    | None => false
    end.
End Build.

(* entry point of the extracted driver: outcomes as an association list, sorted.add never fails *)
Definition accept_trace (sel : bool) (n : nat) (tbl : list (N * outcome)) (paths : list N)
           (trace : list event) (observed : option (list N)) : bool :=
  accept sel (assoc tbl) (fun _ => true) n paths trace observed.

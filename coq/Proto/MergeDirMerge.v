(* C10, phase 2 — the MergeDir protocol (Proto/MergeDir.v) run over the Merge model
   (Model/Merge.v): what MergeDir RETURNS, not only which files it merged.

   The protocol's file ids are interpreted by [content : N -> ifile] (the *File a worker
   parsed), and the protocol state is extended with the two pieces of shared memory the
   goroutines of merge.go:MergeDir work on:

     sorted  : the linked list of out-files.   sorted := &outFile{}  is [zero_ofile];
               the merger goroutine's  sorted.add(file)  is [add_file] (Merge.v), executed
               at label LAdd, i.e. in the order in which files ARRIVE on mergableFiles;
     seeded  : the sync.Once of  setup.Do(func(){ sorted.header = file.Header ... }):
               the first worker that finishes a read (label LParse with outcome POk f)
               writes the header of the first out-file, later calls do nothing.  The file
               that seeds the header need not be the first one to reach the merger.

   MergeDir's return value is  convertToFiles(sorted, conditions)  = [convert c (sorted s)]
   unless a goroutine returned an error.

   Executable definitions only; every interleaving is a schedule (list of labels) as before,
   [fire_m] is defined exactly where [fire] is (MergeDirMergeFacts.fire_m_some). *)
From Coq Require Import List NArith ZArith Bool.
From ACH Require Import Bytes Merge MergeDir.
Import ListNotations.

Record mstate := mkM {
  proto : st;             (* the protocol state of Proto/MergeDir.v *)
  sorted : list ofile;    (* the out-file list headed by MergeDir's [sorted] *)
  seeded : option N       (* Some f: setup.Do has run, with file f *)
}.

(* sorted := &outFile{}: zero FileHeader, no batches, no next *)
Definition zero_ofile : ofile := mkOFile [] [] 0%N [].

(* sorted.header = file.Header (batches and next untouched) *)
Definition set_header (f : ifile) (l : list ofile) : list ofile :=
  match l with
  | [] => []
  | o :: r => mkOFile (if_origin f) (if_dest f) (if_hid f) (of_batches o) :: r
  end.

Section MProto.
  Variable sel : bool.
  Variable parse : N -> outcome.
  Variable content : N -> ifile.   (* the parsed file behind a file id *)
  Variable add_ok : N -> bool.

  Definition fire_m (l : label) (s : mstate) : option mstate :=
    match fire sel parse add_ok l (proto s) with
    | None => None
    | Some p' =>
        match l with
        | LParse i =>
            (* readFile returned; on success  setup.Do(...)  runs before the send is attempted *)
            match nth_error (ws (proto s)) i with
            | Some (WParsing p) =>
                match parse p, seeded s with
                | POk f, None => Some (mkM p' (set_header (content f) (sorted s)) (Some f))
                | _, _ => Some (mkM p' (sorted s) (seeded s))
                end
            | _ => Some (mkM p' (sorted s) (seeded s))
            end
        | LAdd =>
            (* err := sorted.add(file); a failing add makes MergeDir return the error, sorted is dropped *)
            match mg (proto s) with
            | MAdding f =>
                if add_ok f then Some (mkM p' (add_file (sorted s) (content f)) (seeded s))
                else Some (mkM p' (sorted s) (seeded s))
            | _ => Some (mkM p' (sorted s) (seeded s))
            end
        | _ => Some (mkM p' (sorted s) (seeded s))
        end
    end.

  Fixpoint run_m (sched : list label) (s : mstate) : option mstate :=
    match sched with
    | [] => Some s
    | l :: rest => match fire_m l s with Some s' => run_m rest s' | None => None end
    end.
End MProto.

Definition init_m (n : nat) (paths : list N) : mstate := mkM (init n paths) [zero_ofile] None.

(* return convertToFiles(sorted, conditions) *)
Definition output_of (c : conds) (s : mstate) : list rfile := convert c (sorted s).

(* MergeDir's return value: None = (nil, err) *)
Definition result_m (c : conds) (s : mstate) : option (list rfile) :=
  if gcancel (proto s) then None else Some (output_of c s).

(* files in the order in which the merger added them *)
Definition arrivals (s : mstate) : list N := rev (merged (proto s)).

(* the out-file list after seeding with [seed] and adding [fs] in that order *)
Definition dir_state (seed : ifile) (fs : list ifile) : list ofile :=
  fold_left add_file fs [new_ofile seed].

(* a file header without batches: as an input of MergeFiles it only seeds the first out-file *)
Definition header_only (f : ifile) : ifile := mkIFile (if_origin f) (if_dest f) (if_hid f) [].

(* the list MergeFilesWith would have to be called with to return what MergeDir returns *)
Definition as_mergefiles_input (seed : option ifile) (fs : list ifile) : list ifile :=
  match seed with
  | None => fs
  | Some f0 => header_only f0 :: fs
  end.

(* entry point for the extracted correspondence driver: run a schedule from the initial state and
   return (terminal?, MergeDir's result, arrival order, seeding file) *)
Definition run_dir (sel : bool) (parse : N -> outcome) (content : N -> ifile) (n : nat) (paths : list N)
           (c : conds) (sched : list label) : option (bool * option (list rfile) * list N * option N) :=
  match run_m sel parse content (fun _ => true) sched (init_m n paths) with
  | Some s => Some (terminal (proto s), result_m c s, arrivals s, seeded s)
  | None => None
  end.

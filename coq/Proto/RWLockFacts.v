(* Proofs about the reader-writer lock machine of RWLock.v (C18):
   invariant over every reachable state of every schedule, refinement of the
   atomic reference machine (linearizability with the acquire instant as the
   linearization point), legality of the ghost log, returned value = logged
   value, soundness of the executable scheduler. *)
From Coq Require Import List Arith Lia Bool.
Import ListNotations.
From ACH Require Import RWLock.

Section RWFacts.
Variables (St Arg Res Loc Op : Type).
Variable bodies : Op -> body St Arg Res Loc.
Variable modes : Op -> mode.

Notation mstep := (mstep St Loc).
Notation tstate := (tstate St Arg Res Loc Op).
Notation gstate := (gstate St Arg Res Loc Op).
Notation spec := (spec bodies).
Notation step := (step bodies modes).
Notation run := (run bodies modes).
Notation holds := (holds modes).
Notation holdsW := (holdsW modes).
Notation astep := (@astep St Arg Res Loc Op bodies).
Notation arun := (@arun St Arg Res Loc Op bodies).
Notation legal := (legal bodies).
Notation init := (@init St Arg Res Loc Op).
Notation ainit := (@ainit St Arg Res Op).

Lemma run_ro (ss : list mstep) (s : St) (l : Loc) : forallb is_read ss = true -> fst (run_steps ss s l) = s.
Proof.
  revert s l. induction ss as [|f ss IH]; intros s l H; cbn; [reflexivity|].
  cbn in H. apply andb_true_iff in H as [Hf Hss].
  destruct f as [f|f]; [|discriminate]. cbn. now apply IH.
Qed.

Lemma spec_fst o a s :
  fst (spec o a s) = fst (run_steps (b_steps (bodies o)) s (b_init (bodies o) a)).
Proof. unfold RWLock.spec. now destruct (run_steps _ _ _). Qed.
Lemma spec_snd o a s :
  snd (spec o a s) = b_fin (bodies o) (snd (run_steps (b_steps (bodies o)) s (b_init (bodies o) a))).
Proof. unfold RWLock.spec. now destruct (run_steps _ _ _). Qed.

Lemma upd_same {A} (f : tid -> A) t v : upd f t v t = v.
Proof. unfold upd. now rewrite Nat.eqb_refl. Qed.
Lemma upd_other {A} (f : tid -> A) t v t' : t' <> t -> upd f t v t' = f t'.
Proof. unfold upd. intros H. apply Nat.eqb_neq in H. now rewrite H. Qed.

Ltac case_tid t' t :=
  destruct (Nat.eq_dec t' t) as [->|?]; [rewrite upd_same in *|rewrite upd_other in * by assumption].

(* The invariant (DESIGN §5 C18): no writer => ghost = store; a writer at
   micro-step k => running the remaining steps on the store gives the ghost
   store and the logged result, and nobody else is in a section; a reader =>
   its remaining steps are reads and finishing them on the current store gives
   the logged result. *)
Record Inv (g : gstate) : Prop := {
  i_free : (forall t, ~ holdsW (th g t)) -> ghost g = store g;
  i_W : forall t o rest l e, th g t = InSec o rest l e -> modes o = W ->
          fst (run_steps rest (store g) l) = ghost g /\
          b_fin (bodies o) (snd (run_steps rest (store g) l)) = e /\
          (forall t', t' <> t -> ~ insec (th g t'));
  i_R : forall t o rest l e, th g t = InSec o rest l e -> modes o = R ->
          forallb is_read rest = true /\
          b_fin (bodies o) (snd (run_steps rest (store g) l)) = e
}.

Lemma inv_init s0 : Inv (init s0).
Proof. constructor; cbn; intros; try discriminate; reflexivity. Qed.

Section WithDiscipline.
Hypothesis disc : discipline bodies modes.

Lemma modes_not_nolock o : modes o <> NoLock.
Proof. destruct (disc o) as [H|[H _]]; rewrite H; discriminate. Qed.

Lemma insec_holds (ts : tstate) : insec ts -> holds ts.
Proof. destruct ts; cbn; try tauto. intros _. apply modes_not_nolock. Qed.

Lemma inv_step g t lb g' : Inv g -> step g t lb g' -> Inv g'.
Proof.
  intros [Hf HW HR] Hs. inversion Hs; subst; clear Hs.
  - (* call *)
    constructor; cbn.
    + intros Hn. apply Hf. intros t' Hc. apply (Hn t'). case_tid t' t; [rewrite H in Hc; contradiction|exact Hc].
    + intros t' o' rest l e Ht' Hm. case_tid t' t; [discriminate|].
      destruct (HW _ _ _ _ _ Ht' Hm) as (A & B & C). repeat split; try assumption.
      intros t'' Hne. case_tid t'' t; [cbn; tauto| now apply C].
    + intros t' o' rest l e Ht' Hm. case_tid t' t; [discriminate|]. eauto.
  - (* acquire *)
    unfold enter. destruct (modes o) eqn:Hmo; cbn in H0.
    + (* R *)
      assert (Hgs : ghost g = store g) by (apply Hf; exact H0).
      assert (Hro : forallb is_read (b_steps (bodies o)) = true).
      { destruct (disc o) as [Hw|[_ Hr]]; [congruence|exact Hr]. }
      assert (Hg' : fst (spec o a (ghost g)) = ghost g). { rewrite spec_fst. now apply run_ro. }
      constructor; cbn.
      * intros _. now rewrite Hg'.
      * intros t' o' rest l e Ht' Hm. case_tid t' t; [inversion Ht'; subst; congruence|].
        exfalso. apply (H0 t'). rewrite Ht'. cbn. assumption.
      * intros t' o' rest l e Ht' Hm. case_tid t' t.
        -- inversion Ht'; subst. split; [assumption|]. now rewrite <- Hgs, spec_snd.
        -- eauto.
    + (* W *)
      assert (Hni : forall t', ~ insec (th g t')).
      { intros t' Hc. apply (H0 t'). now apply insec_holds. }
      assert (Hgs : ghost g = store g).
      { apply Hf. intros t' Hc. apply (Hni t'). destruct (th g t'); cbn in *; tauto. }
      constructor; cbn.
      * intros Hn. exfalso. apply (Hn t). rewrite upd_same. cbn. assumption.
      * intros t' o' rest l e Ht' Hm. case_tid t' t.
        -- inversion Ht'; subst. rewrite <- Hgs. rewrite spec_fst, spec_snd. repeat split.
           intros t'' Hne. rewrite upd_other by assumption. apply Hni.
        -- exfalso. apply (Hni t'). rewrite Ht'. exact I.
      * intros t' o' rest l e Ht' Hm. case_tid t' t; [inversion Ht'; subst; congruence|].
        exfalso. apply (Hni t'). rewrite Ht'. exact I.
    + exfalso. now apply (modes_not_nolock o).
  - (* micro-step *)
    destruct (modes o) eqn:Hm.
    + (* R thread steps: store unchanged *)
      destruct (HR _ _ _ _ _ H Hm) as (Hro & Hfin).
      cbn in Hro. apply andb_true_iff in Hro as [Hf0 Hrest].
      destruct f as [f|f]; [|discriminate]. cbn [apply_m fst snd].
      constructor; cbn.
      * intros Hn. apply Hf. intros t' Hc. apply (Hn t'). case_tid t' t; [rewrite H in Hc; cbn in Hc; congruence|exact Hc].
      * intros t' o' rest' l' e' Ht' Hm'. case_tid t' t; [inversion Ht'; subst; congruence|].
        destruct (HW _ _ _ _ _ Ht' Hm') as (A & B & C). exfalso. apply (C t); [congruence|]. rewrite H. exact I.
      * intros t' o' rest' l' e' Ht' Hm'. case_tid t' t.
        -- injection Ht' as <- <- <- <-. split; [assumption|]. rewrite <- Hfin. reflexivity.
        -- eauto.
    + (* W thread steps *)
      destruct (HW _ _ _ _ _ H Hm) as (A & B & C).
      constructor; cbn.
      * intros Hn. exfalso. apply (Hn t). rewrite upd_same. cbn. assumption.
      * intros t' o' rest' l' e' Ht' Hm'. case_tid t' t.
        -- injection Ht' as <- <- <- <-. cbn in A, B. destruct (apply_m f (store g) l) as [s1 l1]. cbn. repeat split; try assumption.
           intros t'' Hne. rewrite upd_other by assumption. now apply C.
        -- exfalso. apply (C t' n). rewrite Ht'. exact I.
      * intros t' o' rest' l' e' Ht' Hm'. case_tid t' t; [inversion Ht'; subst; congruence|].
        exfalso. apply (C t' n). rewrite Ht'. exact I.
    + exfalso. now apply (modes_not_nolock o).
  - (* return *)
    constructor; cbn.
    + intros Hn. destruct (modes o) eqn:Hm.
      * apply Hf. intros t' Hc. apply (Hn t'). case_tid t' t; [rewrite H in Hc; cbn in Hc; congruence|exact Hc].
      * destruct (HW _ _ _ _ _ H Hm) as (A & _ & _). cbn in A. now symmetry.
      * exfalso. now apply (modes_not_nolock o).
    + intros t' o' rest l' e' Ht' Hm. case_tid t' t; [discriminate|].
      destruct (HW _ _ _ _ _ Ht' Hm) as (A & B & C). repeat split; try assumption.
      intros t'' Hne. case_tid t'' t; [cbn; tauto|now apply C].
    + intros t' o' rest l' e' Ht' Hm. case_tid t' t; [discriminate|]. eauto.
Qed.

Lemma inv_run g tr g' : Inv g -> run g tr g' -> Inv g'.
Proof. intros HI Hr. induction Hr as [|g t lb g1 tr g2 Hs _ IH]; [assumption|]. apply IH. eapply inv_step; eassumption. Qed.

(* Inv holds in every state reachable under any schedule *)
Theorem inv_reachable s0 tr g : run (init s0) tr g -> Inv g.
Proof. apply inv_run, inv_init. Qed.

(* a thread about to return returns the result logged at its acquire *)
Lemma ret_matches_spec g t o l e :
  Inv g -> th g t = InSec o [] l e -> b_fin (bodies o) l = e.
Proof.
  intros [Hf HW HR] H. destruct (modes o) eqn:Hm.
  - destruct (HR _ _ _ _ _ H Hm) as (_ & B). exact B.
  - destruct (HW _ _ _ _ _ H Hm) as (_ & B & _). exact B.
  - exfalso. now apply (modes_not_nolock o).
Qed.

(* when no operation is in flight, the real store IS the ghost store *)
Lemma quiescent_store g :
  Inv g -> (forall t, ~ insec (th g t)) -> store g = ghost g.
Proof.
  intros [Hf _ _] Hq. symmetry. apply Hf. intros t Hc. apply (Hq t).
  destruct (th g t); cbn in *; tauto.
Qed.

(* one concrete step is either an internal micro-step (atomic machine stutters)
   or the same visible step of the atomic machine *)
Lemma sim_step g t lb g' a :
  Inv g -> sim g a -> step g t lb g' ->
  (lb = LStep /\ sim g' a) \/
  (lb <> LStep /\ exists a', astep a t lb a' /\ sim g' a').
Proof.
  intros HI (Hs & Hl & Ht) Hst. inversion Hst; subst; clear Hst.
  - right. split; [discriminate|]. eexists. split.
    + apply a_call. rewrite Ht, H. reflexivity.
    + repeat split; cbn; try assumption. intros t'. unfold upd. destruct (Nat.eqb t' t); [reflexivity|apply Ht].
  - right. split; [discriminate|]. eexists. split.
    + apply a_lin with (a := a0). rewrite Ht, H. reflexivity.
    + unfold enter. repeat split; cbn.
      * now rewrite Hs.
      * now rewrite Hs, Hl.
      * intros t'. unfold upd. destruct (Nat.eqb t' t); [cbn; now rewrite Hs|apply Ht].
  - left. split; [reflexivity|]. repeat split; cbn; try assumption.
    intros t'. unfold upd. destruct (Nat.eqb t' t) eqn:E; [|apply Ht].
    apply Nat.eqb_eq in E. subst t'. rewrite Ht, H. reflexivity.
  - right. split; [discriminate|]. rewrite (ret_matches_spec g t o l e HI H). eexists. split.
    + apply a_ret with (o := o). rewrite Ht, H. reflexivity.
    + repeat split; cbn; try assumption. intros t'. unfold upd. destruct (Nat.eqb t' t); [reflexivity|apply Ht].
Qed.

Lemma sim_run g tr g' a :
  Inv g -> sim g a -> run g tr g' ->
  exists a', arun a (erase tr) a' /\ sim g' a'.
Proof.
  intros HI Hsim Hr. revert a HI Hsim.
  induction Hr as [g|g t lb g1 tr g2 Hs _ IH]; intros a HI Hsim.
  - exists a. split; [constructor|assumption].
  - pose proof (inv_step _ _ _ _ HI Hs) as HI1.
    destruct (sim_step _ _ _ _ _ HI Hsim Hs) as [[-> Hsim1]|[Hne (a1 & Ha & Hsim1)]].
    + cbn. apply IH; assumption.
    + destruct (IH a1 HI1 Hsim1) as (a2 & Har & Hsim2). exists a2. split; [|assumption].
      unfold erase. cbn. destruct lb; try congruence; cbn; econstructor; eassumption.
Qed.

Lemma sim_init s0 : sim (init s0) (ainit s0).
Proof. repeat split. Qed.

(* LINEARIZABILITY: under the lock discipline, for every schedule, the visible
   trace (calls, acquires, returns) of the lock machine is a trace of the atomic
   machine, with the same store and log *)
Theorem rw_linearizable s0 tr g :
  run (init s0) tr g ->
  exists a, arun (ainit s0) (erase tr) a /\ sim g a.
Proof. intros Hr. eapply sim_run; [apply inv_init|apply sim_init|exact Hr]. Qed.

End WithDiscipline.

(* ---------------- facts about the atomic machine (no discipline needed) *)

Lemma astep_legal s0 a t lb a' :
  astep a t lb a' -> legal s0 (a_log a) (a_store a) -> legal s0 (a_log a') (a_store a').
Proof. intros Hs Hl. inversion Hs; subst; cbn; try assumption. now constructor. Qed.

Lemma arun_legal s0 a tr a' :
  arun a tr a' -> legal s0 (a_log a) (a_store a) -> legal s0 (a_log a') (a_store a').
Proof. intros Hr. induction Hr; intros Hl; [assumption|]. apply IHHr. eapply astep_legal; eassumption. Qed.

(* the ghost log of the lock machine is legal by construction, whatever the discipline *)
Lemma step_legal s0 g t lb g' :
  step g t lb g' -> legal s0 (glog g) (ghost g) -> legal s0 (glog g') (ghost g').
Proof. intros Hs Hl. inversion Hs; subst; cbn; try assumption. now constructor. Qed.

Lemma run_legal s0 g tr g' :
  run g tr g' -> legal s0 (glog g) (ghost g) -> legal s0 (glog g') (ghost g').
Proof. intros Hr. induction Hr; intros H0; [assumption|]. apply IHHr. eapply step_legal; eassumption. Qed.

Theorem glog_legal s0 tr g :
  run (init s0) tr g -> legal s0 (glog g) (ghost g).
Proof. intros Hr. eapply run_legal; [exact Hr|]. constructor. Qed.

(* the log lists the operations in the order of their acquire events in the trace *)
Lemma run_log_order g tr g' :
  run g tr g' -> map entry_tid (glog g') = map entry_tid (glog g) ++ acq_tids tr.
Proof.
  intros Hr. induction Hr as [g|g t lb g1 tr g2 Hs _ IH]; [now rewrite app_nil_r|].
  rewrite IH. inversion Hs; subst; unfold enter, acq_tids; cbn; try reflexivity.
  rewrite map_app, <- app_assoc. reflexivity.
Qed.

(* the log only grows, by exactly the acquires of the new steps: an operation
   that has returned (its entry is in the log already) precedes in the log
   every operation called later (its acquire, hence its entry, comes later) *)
Lemma run_log_grows g tr g' :
  run g tr g' -> exists rest, glog g' = glog g ++ rest /\ map entry_tid rest = acq_tids tr.
Proof.
  intros Hr. induction Hr as [g|g t lb g1 tr g2 Hs _ (rest & IH1 & IH2)].
  - exists []. now rewrite app_nil_r.
  - inversion Hs; subst; unfold enter in *; cbn [glog] in *.
    + exists rest. split; assumption.
    + eexists. split; [rewrite IH1, <- app_assoc; reflexivity|]. unfold acq_tids in *. cbn. now rewrite IH2.
    + exists rest. split; assumption.
    + exists rest. split; assumption.
Qed.

Theorem glog_order s0 tr g :
  run (init s0) tr g -> map entry_tid (glog g) = acq_tids tr.
Proof. intros Hr. now rewrite (run_log_order _ _ _ Hr). Qed.

(* per-thread protocol of the atomic machine: call, then the linearization
   point, then the return *)
Lemma arun_protocol a tr a' t :
  arun a tr a' -> proto (aphase (a_th a t)) (tproj t tr) = true.
Proof.
  intros Hr. induction Hr as [g|g t0 lb g1 tr g2 Hs _ IH]; [reflexivity|].
  unfold tproj in *. cbn [filter fst]. destruct (Nat.eqb t0 t) eqn:E.
  - apply Nat.eqb_eq in E. subst t0. cbn [map snd].
    inversion Hs as [g0 t0 o a0 Hth|g0 t0 o a0 Hth|g0 t0 o r Hth]; subst; cbn [a_th] in IH;
      rewrite upd_same in IH; rewrite Hth; cbn; exact IH.
  - apply Nat.eqb_neq in E.
    assert (Hsame : a_th g1 t = a_th g t).
    { inversion Hs; subst; cbn; rewrite upd_other by congruence; reflexivity. }
    rewrite <- Hsame. exact IH.
Qed.

(* in every schedule of the lock machine each thread's visible events follow
   call -> acquire -> return: the acquire (linearization point) lies between
   the call and the return of its operation *)
Theorem rw_acquire_between s0 tr g t :
  discipline bodies modes -> run (init s0) tr g -> proto 0 (tproj t (erase tr)) = true.
Proof.
  intros disc Hr. destruct (rw_linearizable disc _ _ _ Hr) as (a & Ha & _).
  exact (arun_protocol _ _ _ t Ha).
Qed.

Lemma acq_tids_erase (tr : trace Arg Res Op) : acq_tids (erase tr) = acq_tids tr.
Proof.
  unfold acq_tids, erase. induction tr as [|[t lb] tr IH]; [reflexivity|].
  destruct lb; cbn; rewrite ?IH; reflexivity.
Qed.

(* ---------------- every in-flight operation's logged entry *)

Definition LogInv (g : gstate) : Prop :=
  forall t o rest l e, th g t = InSec o rest l e ->
    exists a, last_entry t (glog g) = Some (t, o, a, e).

Lemma last_entry_snoc_same t log (o : Op) (a : Arg) (r : Res) :
  last_entry t (log ++ [(t, o, a, r)]) = Some (t, o, a, r).
Proof. unfold last_entry. rewrite rev_unit. cbn. now rewrite Nat.eqb_refl. Qed.

Lemma last_entry_snoc_other t t' log (o : Op) (a : Arg) (r : Res) :
  t' <> t -> last_entry t' (log ++ [(t, o, a, r)]) = last_entry t' log.
Proof.
  intros H. unfold last_entry. rewrite rev_unit. cbn.
  destruct (Nat.eqb t t') eqn:E; [apply Nat.eqb_eq in E; congruence|reflexivity].
Qed.

Lemma loginv_step g t lb g' : LogInv g -> step g t lb g' -> LogInv g'.
Proof.
  intros HL Hs. inversion Hs; subst; clear Hs; intros t' o' rest' l' e' Ht'; unfold enter in *; cbn [th glog] in *.
  - case_tid t' t; [discriminate|]. eauto.
  - case_tid t' t.
    + injection Ht' as <- <- <- <-. exists a. apply last_entry_snoc_same.
    + rewrite last_entry_snoc_other by assumption. eauto.
  - case_tid t' t; [injection Ht' as <- <- <- <-|]; eauto.
  - case_tid t' t; [discriminate|]. eauto.
Qed.

Lemma loginv_run g tr g' : LogInv g -> run g tr g' -> LogInv g'.
Proof. intros HI Hr. induction Hr; [assumption|]. apply IHHr. eapply loginv_step; eassumption. Qed.

(* every value returned to a thread equals the result logged for its invocation
   (its most recent log entry), computed by the sequential spec at the acquire *)
Theorem ret_matches_log s0 tr g t r g' :
  discipline bodies modes ->
  run (init s0) tr g -> step g t (LRet r) g' ->
  exists o a, last_entry t (glog g) = Some (t, o, a, r).
Proof.
  intros disc Hr Hs.
  assert (HL : LogInv g). { eapply loginv_run; [|exact Hr]. intros t0 o rest l e H. discriminate. }
  pose proof (inv_reachable disc _ _ _ Hr) as HI.
  inversion Hs as [| | |g0 t0 o l e Hth]; subst. destruct (HL _ _ _ _ _ Hth) as [a Ha].
  exists o, a. now rewrite (ret_matches_spec disc g t o l e HI Hth).
Qed.

(* ---------------- executable scheduler is sound *)

Lemma mode_eqb_eq a b : mode_eqb a b = true <-> a = b.
Proof. destruct a, b; cbn; split; intros; congruence. Qed.

Lemma can_acqb_sound n (g : gstate) m :
  bounded n g -> can_acqb modes n g m = true -> can_acq modes g m.
Proof.
  intros Hb H. destruct m; cbn in *; [| |exact I].
  - intros t' Hc. destruct (le_lt_dec n t') as [Hge|Hlt].
    + rewrite (Hb _ Hge) in Hc. exact Hc.
    + rewrite forallb_forall in H. specialize (H t'). rewrite in_seq in H.
      assert (Hin : 0 <= t' < 0 + n) by lia. specialize (H Hin).
      destruct (th g t'); cbn in *; try contradiction.
      rewrite Hc in H. discriminate.
  - intros t' Hc. destruct (le_lt_dec n t') as [Hge|Hlt].
    + rewrite (Hb _ Hge) in Hc. exact Hc.
    + rewrite forallb_forall in H. specialize (H t'). rewrite in_seq in H.
      assert (Hin : 0 <= t' < 0 + n) by lia. specialize (H Hin).
      destruct (th g t'); cbn in *; try contradiction.
      apply negb_true_iff, negb_false_iff, mode_eqb_eq in H. contradiction.
Qed.

Lemma exec_sound n (g : gstate) t act lb g' :
  bounded n g -> exec bodies modes n g t act = Some (lb, g') ->
  step g t lb g' /\ bounded n g'.
Proof.
  intros Hb H. unfold exec in H.
  destruct (Nat.ltb t n) eqn:Hlt; cbn in H; [|discriminate]. apply Nat.ltb_lt in Hlt.
  assert (Hb' : forall v, bounded n
     {| store := store g; ghost := ghost g; glog := glog g; th := upd (th g) t v |}).
  { intros v t' Hge. cbn. rewrite upd_other by lia. now apply Hb. }
  destruct act; destruct (th g t) eqn:Ht; try discriminate.
  - injection H as <- <-. split; [now constructor|apply Hb'].
  - destruct (can_acqb modes n g (modes o)) eqn:Hc; [|discriminate].
    injection H as <- <-. split.
    + constructor; [assumption|]. eapply can_acqb_sound; eassumption.
    + intros t' Hge. unfold enter. cbn. rewrite upd_other by lia. now apply Hb.
  - destruct rest as [|f rest]; [discriminate|]. injection H as <- <-. split.
    + now apply s_step with (o := o).
    + intros t' Hge. cbn. rewrite upd_other by lia. now apply Hb.
  - destruct rest as [|f rest]; [|discriminate]. injection H as <- <-. split; [now apply s_ret with (e := exp)|apply Hb'].
Qed.

Lemma exec_sched_sound n (g : gstate) sch tr g' :
  bounded n g -> exec_sched bodies modes n g sch = Some (tr, g') -> run g tr g'.
Proof.
  revert g tr g'. induction sch as [|[t act] sch IH]; intros g tr g' Hb H; cbn in H.
  - injection H as <- <-. constructor.
  - destruct (exec bodies modes n g t act) as [[lb g1]|] eqn:E; [|discriminate].
    destruct (exec_sched bodies modes n g1 sch) as [[tr1 g2]|] eqn:E2; [|discriminate].
    injection H as <- <-. destruct (exec_sound _ _ _ _ _ _ Hb E) as [Hs Hb1].
    econstructor; [exact Hs|]. eapply IH; eassumption.
Qed.

Lemma bounded_init n s0 : bounded n (init s0).
Proof. intros t _. reflexivity. Qed.

End RWFacts.

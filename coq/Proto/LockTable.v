(* Types of the lock table the translator regenerates from server/repository.go
   (Gen/Locks.v), the boolean discipline checker, and the lock mode each
   repository operation of the model gets from the table. *)
From Coq Require Import List Bool String.
Import ListNotations.
From ACH Require Import RWLock Repo.
Open Scope string_scope.

Inductive lk := LkW | LkR | LkNone | LkUnknown.

Record lentry := mklentry {
  le_name : string;          (* method of repositoryInMemory *)
  le_lock : lk;              (* first call on r.mtx: Lock / RLock / none / something else *)
  le_whole : bool;           (* the matching unlock is deferred right after the lock call, the shared
                                fields are not touched before it, not inside a closure or goroutine,
                                and r.mtx is not used anywhere else in the body *)
  le_writes : bool;          (* body assigns r.files / an element / a file's Batches, calls delete() or a mutator *)
  le_unknown : list string   (* calls on values reached from r.files that are neither known readers nor mutators *)
}.

Record ltable := mkltable {
  lt_methods : list lentry;
  lt_extern : list string    (* functions other than the methods that mention .files / .mtx of the repository *)
}.

Definition find_entry (t : ltable) (name : string) : option lentry :=
  find (fun e => String.eqb (le_name e) name) (lt_methods t).

(* what the lock calls of a method amount to *)
Definition eff_mode (e : lentry) : mode :=
  if le_whole e then
    match le_lock e with LkW => W | LkR => R | _ => NoLock end
  else NoLock.

Definition mode_of (t : ltable) (o : op) : mode :=
  match find_entry t (op_name o) with
  | Some e => eff_mode e
  | None => NoLock
  end.

Definition is_nil {A} (l : list A) : bool := match l with [] => true | _ => false end.

(* every method holds the lock for its whole body; one that writes (or calls
   something unknown on shared data) holds it in W mode *)
Definition entry_ok (e : lentry) : bool :=
  le_whole e &&
  match le_lock e with
  | LkW => true
  | LkR => negb (le_writes e) && is_nil (le_unknown e)
  | _ => false
  end.

(* the model's view: every modelled op has an entry, and an op whose model body
   has a write micro-step is under W *)
Definition op_ok (t : ltable) (o : op) : bool :=
  match find_entry t (op_name o) with
  | Some e => match eff_mode e with
              | W => true
              | R => negb (op_writes o)
              | NoLock => false
              end
  | None => false
  end.

Definition discipline_ok (t : ltable) : bool :=
  forallb entry_ok (lt_methods t) && is_nil (lt_extern t) && forallb (op_ok t) all_ops.

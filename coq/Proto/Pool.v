(* C19 — the process-wide scratch-buffer pool (perf.go) as an interleaving machine.

   Executable definitions only (proofs are in PoolFacts.v).

   Threads (goroutines) own a private state [Loc]; what they share is
     * a heap of scratch buffers addressed by identity [bid] (the *bytes.Buffer pointers),
     * the pool (sync.Pool) = a bag of buffer identities,
     * the package-level tables [Glob] (spaceZeros, changeCodeDict, ...).
   A register [reg] is a Go local variable of type *bytes.Buffer.  A register keeps
   its (stale) pointer after Put, so use-after-Put is expressible; the static
   discipline [disc] is what forbids it.

   sync.Pool contract modelled: Get returns either an item that was Put and has not
   been handed out since, or a new buffer (New).  Which one is the scheduler's choice
   ([option nat] in the schedule).  The runtime dropping pooled items (GC) is the
   sub-case "that item is never chosen again". *)
From Coq Require Import List Arith Bool NArith.
Import ListNotations.

Definition buf := list N.
Definition reg := nat.
Definition bid := nat.
Definition tid := nat.

Definition upd {A} (f : nat -> A) (k : nat) (v : A) : nat -> A :=
  fun k' => if Nat.eqb k' k then v else f k'.

Definition inb (r : nat) (l : list nat) : bool := if in_dec Nat.eq_dec r l then true else false.
Definition rm (r : nat) (l : list nat) : list nat := remove Nat.eq_dec r l.

Section Pool.
Variable Loc : Type.
Variable Glob : Type.

(* programs are finite trees: every instruction carries its continuation, [PIf]
   branches on private data (loops are unrolled along the input they iterate over) *)
Inductive prog :=
| PDone
| PGet (r : reg) (k : prog)                            (* r := getBuffer() / byteBufferPool.Get() *)
| PWrite (r : reg) (f : Loc -> buf -> buf) (k : prog)  (* r.WriteString(..) / WriteRune / Truncate / Grow *)
| PRead (r : reg) (g : Loc -> buf -> Loc) (k : prog)   (* x = r.String() / r.Len(): copies out *)
| PReset (r : reg) (k : prog)                          (* r.Reset() *)
| PPut (r : reg) (k : prog)                            (* byteBufferPool.Put(r) *)
| PLocal (h : Loc -> Loc) (k : prog)
| PGRead (g : Loc -> Glob -> Loc) (k : prog)           (* read of a package-level table *)
| PGWrite (w : Loc -> Glob -> Glob) (k : prog)         (* assignment to a package-level variable *)
| PIf (c : Loc -> bool) (k1 k2 : prog).

(* ---- reference semantics: the thread alone, every buffer a private value ---- *)
Record sst := mksst { spc : prog; sloc : Loc; sbufs : reg -> buf; sglob : Glob }.

Definition solo_step (s : sst) : sst :=
  match spc s with
  | PDone => s
  | PGet r k => mksst k (sloc s) (upd (sbufs s) r []) (sglob s)
  | PWrite r f k => mksst k (sloc s) (upd (sbufs s) r (f (sloc s) (sbufs s r))) (sglob s)
  | PRead r g k => mksst k (g (sloc s) (sbufs s r)) (sbufs s) (sglob s)
  | PReset r k => mksst k (sloc s) (upd (sbufs s) r []) (sglob s)
  | PPut r k => mksst k (sloc s) (sbufs s) (sglob s)
  | PLocal h k => mksst k (h (sloc s)) (sbufs s) (sglob s)
  | PGRead g k => mksst k (g (sloc s) (sglob s)) (sbufs s) (sglob s)
  | PGWrite w k => mksst k (sloc s) (sbufs s) (w (sloc s) (sglob s))
  | PIf c k1 k2 => mksst (if c (sloc s) then k1 else k2) (sloc s) (sbufs s) (sglob s)
  end.

Fixpoint solo_run (n : nat) (s : sst) : sst :=
  match n with O => s | S n' => solo_run n' (solo_step s) end.

Fixpoint depth (p : prog) : nat :=
  match p with
  | PDone => 0
  | PGet _ k | PWrite _ _ k | PRead _ _ k | PReset _ k | PPut _ k
  | PLocal _ k | PGRead _ k | PGWrite _ k => S (depth k)
  | PIf _ k1 k2 => S (Nat.max (depth k1) (depth k2))
  end.

Definition sinit (p : prog) (l : Loc) (G : Glob) : sst := mksst p l (fun _ => []) G.
Definition solo_final (p : prog) (l : Loc) (G : Glob) : sst := solo_run (depth p) (sinit p l G).

(* ---- the shared machine ---- *)
Record tst := mktst { pc : prog; loc : Loc; regs : reg -> option bid }.
Record gst := mkgst { heap : bid -> buf; next : bid; pool : list bid; glob : Glob; th : tid -> tst }.

Definition set_th (g : gst) (t : tid) (s : tst) : gst :=
  mkgst (heap g) (next g) (pool g) (glob g) (upd (th g) t s).

(* one step of thread [t]; [c] is used only by Get: [Some i] = take pooled item i,
   otherwise (or if i is out of range) a new buffer *)
Definition gstep (g : gst) (t : tid) (c : option nat) : gst :=
  let s := th g t in
  match pc s with
  | PDone => g
  | PGet r k =>
      match c with
      | Some i =>
          if i <? length (pool g) then
            let b := nth i (pool g) 0 in
            mkgst (heap g) (next g) (firstn i (pool g) ++ skipn (S i) (pool g)) (glob g)
                  (upd (th g) t (mktst k (loc s) (upd (regs s) r (Some b))))
          else
            mkgst (upd (heap g) (next g) []) (S (next g)) (pool g) (glob g)
                  (upd (th g) t (mktst k (loc s) (upd (regs s) r (Some (next g)))))
      | None =>
          mkgst (upd (heap g) (next g) []) (S (next g)) (pool g) (glob g)
                (upd (th g) t (mktst k (loc s) (upd (regs s) r (Some (next g)))))
      end
  | PWrite r f k =>
      match regs s r with
      | Some b => mkgst (upd (heap g) b (f (loc s) (heap g b))) (next g) (pool g) (glob g)
                        (upd (th g) t (mktst k (loc s) (regs s)))
      | None => set_th g t (mktst k (loc s) (regs s))
      end
  | PRead r gf k =>
      match regs s r with
      | Some b => set_th g t (mktst k (gf (loc s) (heap g b)) (regs s))
      | None => set_th g t (mktst k (gf (loc s) []) (regs s))
      end
  | PReset r k =>
      match regs s r with
      | Some b => mkgst (upd (heap g) b []) (next g) (pool g) (glob g)
                        (upd (th g) t (mktst k (loc s) (regs s)))
      | None => set_th g t (mktst k (loc s) (regs s))
      end
  | PPut r k =>
      match regs s r with
      | Some b => mkgst (heap g) (next g) (b :: pool g) (glob g)
                        (upd (th g) t (mktst k (loc s) (regs s)))
      | None => set_th g t (mktst k (loc s) (regs s))
      end
  | PLocal h k => set_th g t (mktst k (h (loc s)) (regs s))
  | PGRead gf k => set_th g t (mktst k (gf (loc s) (glob g)) (regs s))
  | PGWrite w k =>
      mkgst (heap g) (next g) (pool g) (w (loc s) (glob g)) (upd (th g) t (mktst k (loc s) (regs s)))
  | PIf c' k1 k2 => set_th g t (mktst (if c' (loc s) then k1 else k2) (loc s) (regs s))
  end.

Definition sched := list (tid * option nat).

Definition run (sc : sched) (g : gst) : gst :=
  fold_left (fun g x => gstep g (fst x) (snd x)) sc g.

Definition count (t : tid) (sc : sched) : nat :=
  length (filter (fun x => Nat.eqb (fst x) t) sc).

(* initial state: [warm] empty buffers already pooled (a pool that has been used before) *)
Definition ginit (P : tid -> prog) (l0 : tid -> Loc) (G : Glob) (warm : nat) : gst :=
  mkgst (fun _ => []) warm (seq 0 warm) G (fun t => mktst (P t) (l0 t) (fun _ => None)).

(* the buffer the next instruction of a thread dereferences, if any *)
Definition acc (s : tst) : option bid :=
  match pc s with
  | PWrite r _ _ | PRead r _ _ | PReset r _ | PPut r _ => regs s r
  | _ => None
  end.

(* ---- the static discipline (decidable) ----
   [live]: registers holding a buffer obtained by Get and not yet Put;
   [empt]: registers whose buffer is known to be empty (just obtained, or Reset and
   not written since).  A program is disciplined when
     - it dereferences a register only while live (no use after Put, no use before Get),
     - it Puts only a live register that is known empty (saveBuffer = Reset; Put),
     - it never re-Gets into a live register (the held buffer would leak),
     - it never assigns a package-level variable,
     - it has returned every buffer when it ends. *)
Fixpoint disc (live empt : list reg) (p : prog) : bool :=
  match p with
  | PDone => match live with [] => true | _ => false end
  | PGet r k => negb (inb r live) && disc (r :: live) (r :: empt) k
  | PWrite r _ k => inb r live && disc live (rm r empt) k
  | PRead r _ k => inb r live && disc live empt k
  | PReset r k => inb r live && disc live (r :: empt) k
  | PPut r k => inb r live && inb r empt && disc (rm r live) (rm r empt) k
  | PLocal _ k => disc live empt k
  | PGRead _ k => disc live empt k
  | PGWrite _ _ => false
  | PIf _ k1 k2 => disc live empt k1 && disc live empt k2
  end.

Definition disciplined (p : prog) : bool := disc [] [] p.

(* ---- structured source programs: the shape of the library's getBuffer users ----
   [SBorrow body k] is a call of a function of the form
       buf := getBuffer(); defer saveBuffer(buf); body
   followed by [k]; inside [body], index 0 is that buffer, 1 the buffer of the
   enclosing borrower (Reader.Read holds its line buffer while Parse borrows
   another), and so on.  [SDone] inside a body is `return` (runs the deferred save). *)
Inductive stm :=
| SDone
| SWrite (d : nat) (f : Loc -> buf -> buf) (k : stm)
| SRead (d : nat) (g : Loc -> buf -> Loc) (k : stm)
| SReset (d : nat) (k : stm)
| SLocal (h : Loc -> Loc) (k : stm)
| SGRead (g : Loc -> Glob -> Loc) (k : stm)
| SIf (c : Loc -> bool) (k1 k2 : stm)
| SBorrow (body : stm) (k : stm).

(* compile with [n] buffers held (registers 0..n-1, innermost = n-1); [kont] is what
   runs after the enclosing function returns *)
Fixpoint compile (n : nat) (s : stm) (kont : prog) : prog :=
  match s with
  | SDone => kont
  | SWrite d f k => PWrite (n - 1 - d) f (compile n k kont)
  | SRead d g k => PRead (n - 1 - d) g (compile n k kont)
  | SReset d k => PReset (n - 1 - d) (compile n k kont)
  | SLocal h k => PLocal h (compile n k kont)
  | SGRead g k => PGRead g (compile n k kont)
  | SIf c k1 k2 => PIf c (compile n k1 kont) (compile n k2 kont)
  | SBorrow body k => PGet n (compile (S n) body (PReset n (PPut n (compile n k kont))))
  end.

(* scoping check: a buffer index must denote a held buffer *)
Fixpoint wf (n : nat) (s : stm) : bool :=
  match s with
  | SDone => true
  | SWrite d _ k | SRead d _ k | SReset d k => (d <? n) && wf n k
  | SLocal _ k | SGRead _ k => wf n k
  | SIf _ k1 k2 => wf n k1 && wf n k2
  | SBorrow body k => wf (S n) body && wf n k
  end.

End Pool.

Arguments PDone {Loc Glob}.
Arguments PGet {Loc Glob}.
Arguments PWrite {Loc Glob}.
Arguments PRead {Loc Glob}.
Arguments PReset {Loc Glob}.
Arguments PPut {Loc Glob}.
Arguments PLocal {Loc Glob}.
Arguments PGRead {Loc Glob}.
Arguments PGWrite {Loc Glob}.
Arguments PIf {Loc Glob}.
Arguments SDone {Loc Glob}.
Arguments SWrite {Loc Glob}.
Arguments SRead {Loc Glob}.
Arguments SReset {Loc Glob}.
Arguments SLocal {Loc Glob}.
Arguments SGRead {Loc Glob}.
Arguments SIf {Loc Glob}.
Arguments SBorrow {Loc Glob}.
Arguments mksst {Loc Glob}.
Arguments spc {Loc Glob}.
Arguments sloc {Loc Glob}.
Arguments sbufs {Loc Glob}.
Arguments sglob {Loc Glob}.
Arguments mktst {Loc Glob}.
Arguments pc {Loc Glob}.
Arguments loc {Loc Glob}.
Arguments regs {Loc Glob}.
Arguments mkgst {Loc Glob}.
Arguments heap {Loc Glob}.
Arguments next {Loc Glob}.
Arguments pool {Loc Glob}.
Arguments glob {Loc Glob}.
Arguments th {Loc Glob}.
Arguments solo_step {Loc Glob}.
Arguments solo_run {Loc Glob}.
Arguments solo_final {Loc Glob}.
Arguments sinit {Loc Glob}.
Arguments depth {Loc Glob}.
Arguments set_th {Loc Glob}.
Arguments gstep {Loc Glob}.
Arguments run {Loc Glob}.
Arguments ginit {Loc Glob}.
Arguments acc {Loc Glob}.
Arguments disc {Loc Glob}.
Arguments disciplined {Loc Glob}.
Arguments compile {Loc Glob}.
Arguments wf {Loc Glob}.

(* Statement trees of the count tabulation regenerated from file.go, batch.go,
   entryDetail.go and iatBatch.go (Gen/CountStmts.v). *)
From Coq Require Import String List Bool.
Import ListNotations.
Open Scope string_scope.

Inductive cstmt :=
| CInit (v e : string)                       (* v := e *)
| CAdd (v e : string)                        (* v += e ; v = v + e ; v++ (e = "1") *)
| CSet (lhs e : string)                      (* lhs = e *)
| CLoop (over : string) (body : list cstmt)  (* for ... range over *)
| CIf (cond : string) (thn els : list cstmt)
| CRet (e : string)                          (* return inside a counter loop *)
| CCall (e : string)                         (* the tabulation continues in this call *)
| COther (src : string).

(* ------------------------------------------------------------------ *)
(* the shape the counts model (Codec/WrittenCounts.v, Model/Offsets.v
   [count], [file_control]) transcribes                                  *)

Fixpoint cstmt_eqb (a b : cstmt) {struct a} : bool :=
  let fix list_eqb (l m : list cstmt) {struct l} : bool :=
      match l, m with
      | [], [] => true
      | x :: l', y :: m' => cstmt_eqb x y && list_eqb l' m'
      | _, _ => false
      end in
  match a, b with
  | CInit v e, CInit v' e' => String.eqb v v' && String.eqb e e'
  | CAdd v e, CAdd v' e' => String.eqb v v' && String.eqb e e'
  | CSet v e, CSet v' e' => String.eqb v v' && String.eqb e e'
  | CLoop o x, CLoop o' x' => String.eqb o o' && list_eqb x x'
  | CIf c x y, CIf c' x' y' => String.eqb c c' && list_eqb x x' && list_eqb y y'
  | CRet e, CRet e' => String.eqb e e'
  | CCall e, CCall e' => String.eqb e e'
  | COther s, COther s' => String.eqb s s'
  | _, _ => false
  end.
Fixpoint cstmts_eqb (l m : list cstmt) : bool :=
  match l, m with
  | [], [] => true
  | x :: l', y :: m' => cstmt_eqb x y && cstmts_eqb l' m'
  | _, _ => false
  end.

(* File.Create / createFileADV: 2 records for file header and control; per batch
   one more batch, its control's entry/addenda count, and 2 + that count records *)
Definition file_inits : list cstmt :=
  [ CInit "totalRecordsInFile" "2"; CInit "batchSeq" "1"; CInit "fileEntryAddendaCount" "0" ].
Definition per_batch (ctl : string) : list cstmt :=
  [ CAdd "batchSeq" "1"
  ; CAdd "fileEntryAddendaCount" (ctl ++ ".EntryAddendaCount")
  ; CAdd "totalRecordsInFile" "2"
  ; CAdd "totalRecordsInFile" (ctl ++ ".EntryAddendaCount") ].
Definition file_stores : list cstmt :=
  [ CSet "fc.BatchCount" "batchSeq - 1"
  ; CIf "(totalRecordsInFile % 10) != 0" [ CSet "fc.BlockCount" "totalRecordsInFile/10 + 1" ] [ CSet "fc.BlockCount" "totalRecordsInFile / 10" ]
  ; CSet "fc.EntryAddendaCount" "fileEntryAddendaCount" ].

Definition expected_create : list cstmt :=
  [ CIf "!f.IsADV()"
      (file_inits
       ++ [ CLoop "f.Batches" (per_batch "batch.GetControl()"); CLoop "f.IATBatches" (per_batch "iatBatch.GetControl()") ]
       ++ file_stores)
      [ CCall "f.createFileADV()" ] ].
Definition expected_create_adv : list cstmt :=
  file_inits
  ++ [ CLoop "f.Batches" (CIf "batch.GetHeader().StandardEntryClassCode != ADV" [ CRet "ErrFileADVOnly" ] []
                          :: per_batch "batch.GetADVControl()") ]
  ++ file_stores.

(* ---- the addenda a tabulation counts, as writer slots (name, is a slice) *)

Definition strip_prefix (p s : string) : option string :=
  if String.prefix p s then Some (substring (String.length p) (String.length s - String.length p) s) else None.
Definition strip_suffix (q s : string) : option string :=
  if Nat.leb (String.length q) (String.length s)
     && String.eqb (substring (String.length s - String.length q) (String.length q) s) q
  then Some (substring 0 (String.length s - String.length q) s) else None.

(* one statement of a counting body: `if recv.X != nil { v += 1 }`,
   `for range recv.X { if recv.X[i] != nil { v += 1 } }`, `v += len(recv.X)` *)
Definition slot_of (recv v : string) (s : cstmt) : option (string * bool) :=
  match s with
  | CIf c [CAdd v' "1"] [] =>
      if String.eqb v v' then
        match strip_prefix (recv ++ ".") c with
        | Some r => match strip_suffix " != nil" r with Some x => Some (x, false) | None => None end
        | None => None
        end
      else None
  | CLoop over [CIf c [CAdd v' "1"] []] =>
      if String.eqb v v' then
        match strip_prefix (recv ++ ".") over with
        | Some x => if String.eqb c (over ++ "[i] != nil") then Some (x, true) else None
        | None => None
        end
      else None
  | CAdd v' e =>
      if String.eqb v v' then
        match strip_prefix ("len(" ++ recv ++ ".") e with
        | Some r => match strip_suffix ")" r with Some x => Some (x, true) | None => None end
        | None => None
        end
      else None
  | _ => None
  end.

Fixpoint slots_of (recv v : string) (l : list cstmt) : option (list (string * bool)) :=
  match l with
  | [] => Some []
  | s :: t => match slot_of recv v s, slots_of recv v t with
              | Some x, Some r => Some (x :: r)
              | _, _ => None
              end
  end.

Definition slots_eqb (a b : list (string * bool)) : bool :=
  Nat.eqb (length a) (length b)
  && forallb (fun p => String.eqb (fst (fst p)) (fst (snd p)) && Bool.eqb (snd (fst p)) (snd (snd p))) (combine a b).

Definition opt_slots_eqb (a : option (list (string * bool))) (b : list (string * bool)) : bool :=
  match a with Some l => slots_eqb l b | None => false end.

(* Batch.build: 1 per entry + addendaCount() (standard), 1 + the ADV addenda (ADV); the result stored in the control *)
Definition build_ok (build addenda_count : list cstmt) (std adv : list (string * bool)) : bool :=
  match build with
  | [ CInit "entryCount" "0"
    ; CIf "!batch.IsADV()"
        [ CLoop "batch.Entries" [ CAdd "entryCount" "1"; CAdd "entryCount" "entry.addendaCount()" ]
        ; CSet "bc.EntryAddendaCount" "entryCount" ]
        [ CLoop "batch.ADVEntries" (CAdd "entryCount" "1" :: adv_body)
        ; CSet "bcADV.EntryAddendaCount" "entryCount" ] ] =>
      opt_slots_eqb (slots_of "ed" "n" addenda_count) std && opt_slots_eqb (slots_of "entry" "entryCount" adv_body) adv
  | _ => false
  end.

(* IATBatch.build stores what isBatchEntryCount counts: 1 per entry + its addenda *)
Definition iat_build_ok (build count : list cstmt) (iat : list (string * bool)) : bool :=
  cstmts_eqb build [ CInit "entryCount, _" "iatBatch.isBatchEntryCount()"; CSet "bc.EntryAddendaCount" "entryCount" ]
  && match count with
     | [ CInit "entryCount" "0"; CLoop "iatBatch.Entries" (CAdd "entryCount" "1" :: body) ] =>
         opt_slots_eqb (slots_of "entry" "entryCount" body) iat
     | _ => false
     end.

Definition count_stmts_ok (create create_adv build addenda_count iat_build iat_count : list cstmt)
           (std adv iat : list (string * bool)) : bool :=
  cstmts_eqb create expected_create && cstmts_eqb create_adv expected_create_adv
  && build_ok build addenda_count std adv && iat_build_ok iat_build iat_count iat.

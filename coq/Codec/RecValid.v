(* C02, valid => width.  The per-record validation rules of the 26 record types as
   data (regenerated into Gen/RecValid.v by translator/recvalid.go), their boolean
   interpreter [rec_validb], and the boolean analysis [col_bounded] that decides, for
   each column whose width only validation guarantees (SRaw / SItoa / SCustom segments),
   whether some rule bounds it.  Definitions only (everything here is executable and is
   extracted for the correspondence with the real Validate() methods).

   A rule is a REJECT condition: Validate() returns an error iff some condition of the
   list holds (default ValidateOpts).  [CUnknown] stands for a check whose shape the
   translator does not recognise; it evaluates to "don't know" (three-valued logic), a
   rule rejects only when it is definitely true, and an unknown rule never bounds a
   column. *)
From Coq Require Import String List NArith ZArith Bool.
From ACH Require Export LayoutOk.
From ACH Require Import Arith.
Import ListNotations.
Local Open Scope string_scope.
Local Open Scope nat_scope.

(* string-valued and integer-valued expressions over a record *)
Inductive sterm :=
| TField (f : string)            (* x.F *)
| TRender (s : seg)              (* x.FField(): the accessor, rendered as in the layout table *)
| TUpper (t : sterm).            (* strings.ToUpper(t) *)

Inductive iterm :=
| IField (f : string)            (* x.F (int); "#F" = optional sub-record F present / len(x.F) (batch level rules) *)
| IConst (z : Z)
| IAtoi (t : sterm)              (* v, _ := strconv.Atoi(t) *)
| ICheckDigit (t : sterm).       (* CalculateCheckDigit(t) *)

Inductive cmp := Ceq | Cne | Clt | Cle | Cgt | Cge.

Inductive cond :=
| CTrue | CFalse
| CStrIn (t : sterm) (set : list bytes)
| CStrNotIn (t : sterm) (set : list bytes)
| CIntIn (t : iterm) (set : list Z)
| CIntNotIn (t : iterm) (set : list Z)
| CIntCmp (c : cmp) (a b : iterm)
| CByteLen (c : cmp) (t : sterm) (n : Z)          (* len(t) c n *)
| CRuneLen (c : cmp) (t : sterm) (n : Z)          (* utf8.RuneCountInString(t) c n *)
| CRunesOutside (t : sterm) (ranges : list (N * N)) (* some rune of t lies in none of the ranges *)
| CAtoiErr (t : sterm)                            (* _, err := strconv.Atoi(t); err != nil *)
| CAnd (a b : cond) | COr (a b : cond) | CNot (a : cond)
| CUnknown (src : string) (fields : list string).

Definition rules := list (string * cond).          (* (where the check is, reject condition) *)

(* ------------------------------------------------------------------ *)
(* evaluation                                                           *)

(* strings.ToUpper restricted to what matters for comparisons with ASCII upper-case
   literals: ASCII a-z, and the two non-ASCII runes whose upper case is an ASCII letter
   (U+0131 dotless i -> I, U+017F long s -> S).  Every other rune keeps a non-ASCII
   value (Go may map it to another non-ASCII rune). *)
Definition upper_rune (c : N) : N :=
  (if (97 <=? c) && (c <=? 122) then c - 32
   else if c =? 305 then 73
   else if c =? 383 then 83
   else c)%N.

Definition to_upper (s : bytes) : bytes := encode (map upper_rune (runes s)).

Fixpoint evals (r : recval) (t : sterm) : bytes :=
  match t with
  | TField f => gets r f
  | TRender s => render_seg r s
  | TUpper t' => to_upper (evals r t')
  end.

Definition evali (r : recval) (t : iterm) : Z :=
  match t with
  | IField f => geti r f
  | IConst z => z
  | IAtoi t' => atoi (evals r t')
  | ICheckDigit t' => calc_check_digit (evals r t')
  end.

Definition cmpz (c : cmp) (a b : Z) : bool :=
  match c with
  | Ceq => (a =? b)%Z | Cne => negb (a =? b)%Z
  | Clt => (a <? b)%Z | Cle => (a <=? b)%Z
  | Cgt => (b <? a)%Z | Cge => (b <=? a)%Z
  end.

Definition mem_bytes (s : bytes) (set : list bytes) : bool := existsb (bytes_eqb s) set.
Definition mem_z (z : Z) (set : list Z) : bool := existsb (Z.eqb z) set.
Definition in_ranges (ranges : list (N * N)) (c : N) : bool :=
  existsb (fun rg => (fst rg <=? c)%N && (c <=? snd rg)%N) ranges.

Definition and3 (a b : option bool) : option bool :=
  match a, b with
  | Some false, _ | _, Some false => Some false
  | Some true, Some true => Some true
  | _, _ => None
  end.
Definition or3 (a b : option bool) : option bool :=
  match a, b with
  | Some true, _ | _, Some true => Some true
  | Some false, Some false => Some false
  | _, _ => None
  end.
Definition not3 (a : option bool) : option bool :=
  match a with Some b => Some (negb b) | None => None end.

Fixpoint eval (r : recval) (c : cond) : option bool :=
  match c with
  | CTrue => Some true
  | CFalse => Some false
  | CStrIn t set => Some (mem_bytes (evals r t) set)
  | CStrNotIn t set => Some (negb (mem_bytes (evals r t) set))
  | CIntIn t set => Some (mem_z (evali r t) set)
  | CIntNotIn t set => Some (negb (mem_z (evali r t) set))
  | CIntCmp k a b => Some (cmpz k (evali r a) (evali r b))
  | CByteLen k t n => Some (cmpz k (Z.of_nat (length (evals r t))) n)
  | CRuneLen k t n => Some (cmpz k (Z.of_nat (rune_count (evals r t))) n)
  | CRunesOutside t ranges => Some (existsb (fun c => negb (in_ranges ranges c)) (runes (evals r t)))
  | CAtoiErr t => Some (match atoi_opt (evals r t) with Some _ => false | None => true end)
  | CAnd a b => and3 (eval r a) (eval r b)
  | COr a b => or3 (eval r a) (eval r b)
  | CNot a => not3 (eval r a)
  | CUnknown _ _ => None
  end.

(* a rule rejects only when its condition is definitely true *)
Definition rejects (r : recval) (c : cond) : bool :=
  match eval r c with Some true => true | _ => false end.

Definition rec_validb (R : rules) (r : recval) : bool :=
  forallb (fun lc => negb (rejects r (snd lc))) R.

(* ------------------------------------------------------------------ *)
(* which columns do the rules bound?                                    *)

(* the conditions that reject on their own: the rules, split at top-level `||` *)
Fixpoint disjuncts (c : cond) : list cond :=
  match c with
  | COr a b => disjuncts a ++ disjuncts b
  | _ => [c]
  end.
Definition atoms (R : rules) : list cond := flat_map (fun lc => disjuncts (snd lc)) R.

(* small recognisers (kept as separate functions so that the soundness proofs are short) *)
Definition is_ne (k : cmp) : bool := match k with Cne => true | _ => false end.
Definition is_ne_or_gt (k : cmp) : bool := match k with Cne | Cgt => true | _ => false end.
Definition is_tfield (t : sterm) (f : string) : bool :=
  match t with TField g => String.eqb f g | _ => false end.
Definition is_ifield (t : iterm) (f : string) : bool :=
  match t with IField g => String.eqb f g | _ => false end.
Definition is_iconst (t : iterm) (z : Z) : bool :=
  match t with IConst z' => (z =? z')%Z | _ => false end.
Definition is_render_custom (t : sterm) (n : string) : bool :=
  match t with TRender (SCustom m _) => String.eqb n m | _ => false end.

(* t is x.F or strings.ToUpper(x.F) (upper-casing keeps the number of characters) *)
Definition plain_field (t : sterm) (f : string) : bool :=
  match t with
  | TUpper t' => is_tfield t' f
  | _ => is_tfield t f
  end.

(* the atom, when it does not reject, forces the string field f to have w characters *)
Definition str_atom_bound (f : string) (w : nat) (a : cond) : bool :=
  match a with
  | CStrNotIn t set => plain_field t f && forallb (fun m => rune_count m =? w) set
  | CRuneLen k t n => is_ne k && is_tfield t f && (Z.of_nat w =? n)%Z
  | CByteLen k t n => is_ne k && is_tfield t f && (n =? 1)%Z && (w =? 1)   (* one byte is one character *)
  | _ => false
  end.
Definition str_bound (R : rules) (f : string) (w : nat) : bool := existsb (str_atom_bound f w) (atoms R).

(* the atom, when it does not reject, forces strconv.Itoa(x.f) to have w characters *)
Definition int_atom_bound (f : string) (w : nat) (a : cond) : bool :=
  match a with
  | CIntNotIn t set => is_ifield t f && forallb (fun z => length (itoa z) =? w) set
  | CIntCmp k a b => is_ne k && is_ifield a f && match b with IConst z => length (itoa z) =? w | _ => false end
  | _ => false
  end.
Definition int_bound (R : rules) (f : string) (w : nat) : bool := existsb (int_atom_bound f w) (atoms R).

(* hand-modelled accessors that fill their columns whatever the record holds *)
Definition total_customs : list string :=
  [ "BatchHeader.EffectiveEntryDateField"; "FileHeader.ImmediateDestinationField"
  ; "FileHeader.ImmediateOriginField"; "IATBatchHeader.ForeignExchangeReferenceField" ].
Definition custom_total (n : string) (w : nat) : bool :=
  mem_str n total_customs && match custom_width n with Some w' => w' =? w | None => false end.

(* hand-modelled accessors that write a field as it is (blank filled when empty): their
   width is bounded when a rule `utf8.RuneCountInString(x.FooField()) != w` rejects *)
Definition sized_customs : list string :=
  [ "Addenda99.DateOfDeathField"; "FileHeader.FileCreationDateField"; "FileHeader.FileCreationTimeField" ].
Definition custom_atom_bound (n : string) (w : nat) (a : cond) : bool :=
  match a with
  | CRuneLen k t m => is_ne k && is_render_custom t n && (Z.of_nat w =? m)%Z && (1 <=? w) && mem_str n sized_customs
  | _ => false
  end.

Definition col_bounded (R : rules) (x : colseg) : bool :=
  match cs_seg x with
  | SLit _ | SAlpha _ _ | SStr _ _ | SNum _ _ => true
  | SRaw f => str_bound R f (cs_w x)
  | SItoa f => int_bound R f (cs_w x)
  | SCustom n _ => custom_total n (cs_w x) || existsb (custom_atom_bound n (cs_w x)) (atoms R)
  | SUnknown _ => false
  end.

(* the columns no rule bounds: explicit hypotheses of the _partial theorem *)
Definition unbounded_of (R : rules) (cs : list colseg) : list colseg :=
  filter (fun x => negb (col_bounded R x)) cs.

Definition seg_name (s : seg) : string :=
  match s with
  | SRaw f | SItoa f | SAlpha f _ | SStr f _ | SNum f _ => f
  | SCustom n _ => n
  | SLit _ => "<literal>"
  | SUnknown _ => "<unknown>"
  end.

(* ------------------------------------------------------------------ *)
(* per layout                                                           *)

Definition rules_in (all : list (string * rules)) (L : layout) : rules :=
  match assoc (l_name L) all with Some R => R | None => [] end.

Definition unbounded_in (all : list (string * rules)) (L : layout) : list colseg :=
  match cols L with Some cs => unbounded_of (rules_in all L) cs | None => [] end.

Definition unbounded_names (all : list (string * rules)) (L : layout) : list string :=
  map (fun x => seg_name (cs_seg x)) (unbounded_in all L).

(* the unbounded columns render to their nominal width (hypothesis of the _partial theorem) *)
Definition unbounded_fitb (all : list (string * rules)) (L : layout) (r : recval) : bool :=
  forallb (seg_widthb r) (unbounded_in all L).

Definition complete_in (all : list (string * rules)) (L : layout) : bool :=
  is_some (cols L) && is_nil (unbounded_in all L).

(* every string the record's String() reads is valid UTF-8 *)
Definition seg_strs (s : seg) : list string :=
  match s with
  | SAlpha f _ | SStr f _ | SRaw f => [f]
  | SCustom n _ => custom_reads n
  | _ => []
  end.
Definition seg_utf8b (r : recval) (s : seg) : bool := forallb (fun f => wf_utf8 (gets r f)) (seg_strs s).
Definition utf8b (L : layout) (r : recval) : bool := forallb (seg_utf8b r) (l_segs L).

(* ------------------------------------------------------------------ *)
(* TypeCode of an addenda record: the rules pin it to one literal       *)

Definition exact_atom (f : string) (v : bytes) (a : cond) : bool :=
  match a with
  | CStrNotIn t [m] => is_tfield t f && bytes_eqb m v
  | _ => false
  end.
Definition pins (R : rules) (f : string) (v : bytes) : bool := existsb (exact_atom f v) (atoms R).

(* ------------------------------------------------------------------ *)
(* batch level: `if <sub-record present> { if entry.F != z { return err } }` *)

Definition guarded_atom (g f : string) (z : Z) (c : cond) : bool :=
  match c with
  | CAnd (CIntCmp k1 a1 b1) (CIntCmp k2 a2 b2) =>
      is_ne_or_gt k1 && is_ifield a1 g && is_iconst b1 0%Z && is_ne k2 && is_ifield a2 f && is_iconst b2 z
  | _ => false
  end.
Definition guarded_bound (R : rules) (g f : string) (z : Z) : bool :=
  existsb (fun lc => guarded_atom g f z (snd lc)) R.

(* a loop `for _, entry := range batch.Entries { … }` whose body leaves the FUNCTION with `return nil`
   when X holds of the entry: the entries after the first such entry are not inspected.  "Don't know"
   counts as leaving (fewer inspected entries: still a necessary condition of the Go function). *)
Definition may_exit (X : cond) (r : recval) : bool :=
  match eval r X with Some false => false | _ => true end.

Fixpoint inspected (X : cond) (es : list recval) : list recval :=
  match es with
  | [] => []
  | e :: rest => if may_exit X e then [e] else e :: inspected X rest
  end.

Definition entries_validb (R : rules) (X : cond) (es : list recval) : bool :=
  forallb (rec_validb R) (inspected X es).


(* Value-level round trip, for ANY layout accepted by [layout_ok]:
     parse_render_value   Parse(String(r)) assigns to every field read back
                          from its own columns the value the field has in r,
                          provided the value is canonical ([canonb]): it fills
                          its columns the way the conversion of the cut undoes.
   Companion of LayoutFacts.reparse_fixed (which is about the rendered text). *)
From Coq Require Import String List Lia.
From ACH Require Import LayoutOk FieldsFacts LayoutFacts.
Import ListNotations.
Local Open Scope nat_scope.

(* ------------------------------------------------------------------ *)
(* 1. the converters are inverted by the conversions of the parser       *)

Lemma trim_alphaField s w :
  wf_utf8 s = true -> (rune_count s <= w)%nat -> ends_ok s = true -> trim (alphaField s w) = s.
Proof.
  intros Hwf Hw He. unfold alphaField.
  assert (E : (w <? rune_count s) = false) by (apply Nat.ltb_ge; exact Hw).
  rewrite E. rewrite (trim_app_spaces s _ Hwf). now apply trim_id.
Qed.

Lemma alphaField_full s w : wf_utf8 s = true -> rune_count s = w -> alphaField s w = s.
Proof. apply alphaField_exact. Qed.

Lemma stringField_full s w : rune_count s = w -> stringField s w = s.
Proof. apply stringField_exact. Qed.

Lemma trim_stringField_full s w :
  wf_utf8 s = true -> rune_count s = w -> ends_ok s = true -> trim (stringField s w) = s.
Proof. intros Hwf Hw He. rewrite (stringField_full s w Hw). now apply trim_id. Qed.

Lemma parseNumField_numericField_fit z w :
  (0 <= z <= max_int64)%Z -> (z < Z.of_N (p10 w))%Z -> parseNumField (numericField z w) = z.
Proof.
  intros Hz Hlt. rewrite (parseNumField_numericField_mod z w Hz). apply Z.mod_small. lia.
Qed.

(* every hypothesis matters *)
Example trim_alphaField_refuted_leading :       (* " A": the leading blank is trimmed away *)
  trim (alphaField [32; 65]%N 3) <> [32; 65]%N.
Proof. vm_compute. discriminate. Qed.
Example trim_alphaField_refuted_trailing :      (* "A ": the trailing blank is trimmed away *)
  trim (alphaField [65; 32]%N 3) <> [65; 32]%N.
Proof. vm_compute. discriminate. Qed.
Example trim_alphaField_refuted_long :          (* "ABCD" in three columns is truncated *)
  trim (alphaField [65; 66; 67; 68]%N 3) <> [65; 66; 67; 68]%N.
Proof. vm_compute. discriminate. Qed.
Example alphaField_full_refuted :               (* "AB" in three columns is read back padded *)
  alphaField [65; 66]%N 3 = [65; 66; 32]%N /\ alphaField [65; 66]%N 3 <> [65; 66]%N.
Proof. vm_compute. split; [reflexivity|discriminate]. Qed.
Example stringField_full_refuted :              (* "12" in three columns is zero padded: "012" *)
  stringField [49; 50]%N 3 = [48; 49; 50]%N /\ stringField [49; 50]%N 3 <> [49; 50]%N.
Proof. vm_compute. split; [reflexivity|discriminate]. Qed.
Example trim_stringField_full_refuted_short :
  trim (stringField [49; 50]%N 3) = [48; 49; 50]%N /\ trim (stringField [49; 50]%N 3) <> [49; 50]%N.
Proof. vm_compute. split; [reflexivity|discriminate]. Qed.
Example trim_stringField_full_refuted_ends :    (* "1 " of the exact width loses its blank *)
  trim (stringField [49; 32]%N 2) <> [49; 32]%N.
Proof. vm_compute. discriminate. Qed.
Example parseNumField_numericField_fit_refuted : (* 12345 in three columns: the low digits 345 *)
  parseNumField (numericField 12345 3) = 345%Z /\ parseNumField (numericField 12345 3) <> 12345%Z.
Proof. vm_compute. split; [reflexivity|discriminate]. Qed.
Example parseNumField_numericField_fit_refuted_neg : (* a negative amount loses its sign *)
  parseNumField (numericField (-7) 3) <> (-7)%Z.
Proof. vm_compute. discriminate. Qed.

(* ------------------------------------------------------------------ *)
(* 2. canonical field values: the value survives write-then-read         *)

(* fallback for the other conversion chains: convert the rendered text and compare *)
Definition generic_canon_str (f : string) (s : seg) (cv : list string) (r : recval) : bool :=
  match conv_value cv (render_seg r s) with Some (VS t) => bytes_eqb t (gets r f) | _ => false end.
Definition generic_canon_num (f : string) (s : seg) (cv : list string) (r : recval) : bool :=
  match conv_value cv (render_seg r s) with Some (VI z) => (z =? geti r f)%Z | _ => false end.

Definition canon_field (s : seg) (cv : list string) (r : recval) : bool :=
  match s with
  | SAlpha f w =>
      if is_nil cv then rune_count (gets r f) =? w
      else if is_trim_chain cv then (rune_count (gets r f) <=? w) && ends_ok (gets r f)
      else generic_canon_str f s cv r
  | SStr f w =>
      if is_nil cv then rune_count (gets r f) =? w
      else if is_trim_chain cv then (rune_count (gets r f) =? w) && ends_ok (gets r f)
      else generic_canon_str f s cv r
  | SRaw f =>
      if is_nil cv then true
      else if is_trim_chain cv then ends_ok (gets r f)
      else generic_canon_str f s cv r
  | SNum f w =>
      if is_num_chain cv then (geti r f <? Z.of_N (p10 w))%Z else generic_canon_num f s cv r
  | SItoa f =>
      if is_num_chain cv then in_int64b (geti r f) else generic_canon_num f s cv r
  | _ => false
  end.

(* the value of the field a simple segment writes *)
Definition canon_value (s : seg) (r : recval) : option value :=
  match s with
  | SAlpha f _ | SStr f _ | SRaw f => Some (VS (gets r f))
  | SNum f _ | SItoa f => Some (VI (geti r f))
  | _ => None
  end.

(* only fields read back from their own columns are constrained *)
Definition seg_canonb (L : layout) (r : recval) (s : seg) : bool :=
  match simple_field s with
  | None => true
  | Some f =>
      match find_key (l_cuts L) f with
      | None => true
      | Some c => match c_const c with Some _ => true | None => canon_field s (c_conv c) r end
      end
  end.

Definition canonb (L : layout) (r : recval) : bool := forallb (seg_canonb L r) (l_segs L).

(* ------------------------------------------------------------------ *)
(* 3. soundness of the field check                                       *)

Ltac generic_str_case H :=
  unfold generic_canon_str in H; cbn [render_seg] in H; revert H;
  match goal with |- context [conv_value ?cv ?t] => destruct (conv_value cv t) as [[u|z]|] end;
  intros H; try discriminate H; apply bytes_eqb_eq in H; rewrite H; reflexivity.

Ltac generic_num_case H :=
  unfold generic_canon_num in H; cbn [render_seg] in H; revert H;
  match goal with |- context [conv_value ?cv ?t] => destruct (conv_value cv t) as [[u|z]|] end;
  intros H; try discriminate H; apply Z.eqb_eq in H; rewrite H; reflexivity.

Lemma conv_value_nil t : conv_value [] t = Some (VS t).
Proof. reflexivity. Qed.

Lemma canon_field_sound r x f cv :
  seg_widthb r x = true -> seg_intb r (cs_seg x) = true ->
  simple_field (cs_seg x) = Some f ->
  canon_field (cs_seg x) cv r = true ->
  conv_value cv (render_seg r (cs_seg x)) = canon_value (cs_seg x) r.
Proof.
  unfold seg_widthb. destruct (cs_seg x) as [bs|g w|g w|g w|g|g|n h|src];
    cbn [simple_field seg_intb canon_field canon_value]; intros Hfit Hint Hf Hst; try discriminate;
    injection Hf as ->; cbn [render_seg].
  - (* SAlpha *)
    destruct (is_nil cv) eqn:E1.
    { apply is_nil_spec in E1. subst cv. apply Nat.eqb_eq in Hst.
      rewrite conv_value_nil. now rewrite (alphaField_full _ _ Hfit Hst). }
    destruct (is_trim_chain cv) eqn:E2; [|generic_str_case Hst].
    apply andb_prop in Hst as [Hle He]. apply Nat.leb_le in Hle.
    rewrite (conv_value_trim cv _ E2). now rewrite (trim_alphaField _ _ Hfit Hle He).
  - (* SNum *)
    destruct (is_num_chain cv) eqn:E1; [|generic_num_case Hst].
    apply andb_prop in Hint as [H1 H2]. apply Z.leb_le in H1, H2. apply Z.ltb_lt in Hst.
    rewrite (conv_value_num cv _ E1). rewrite parseNumField_numericField_fit; [reflexivity|lia|exact Hst].
  - (* SStr *)
    destruct (is_nil cv) eqn:E1.
    { apply is_nil_spec in E1. subst cv. apply Nat.eqb_eq in Hst.
      rewrite conv_value_nil. now rewrite (stringField_full _ _ Hst). }
    destruct (is_trim_chain cv) eqn:E2; [|generic_str_case Hst].
    apply andb_prop in Hst as [Hw He]. apply Nat.eqb_eq in Hw.
    rewrite (conv_value_trim cv _ E2). now rewrite (trim_stringField_full _ _ Hfit Hw He).
  - (* SRaw *)
    apply andb_prop in Hfit as [Hwf _].
    destruct (is_nil cv) eqn:E1.
    { apply is_nil_spec in E1. subst cv. apply conv_value_nil. }
    destruct (is_trim_chain cv) eqn:E2; [|generic_str_case Hst].
    rewrite (conv_value_trim cv _ E2). now rewrite (trim_id _ Hwf Hst).
  - (* SItoa *)
    destruct (is_num_chain cv) eqn:E1; [|generic_num_case Hst].
    rewrite in_int64b_eq in Hst.
    rewrite (conv_value_num cv _ E1). now rewrite (parseNumField_itoa _ Hst).
Qed.

(* ------------------------------------------------------------------ *)
(* 4. read(write(r)) returns r's own field values                        *)

Theorem parse_render_value L r s f c :
  layout_ok L = true -> fitsb L r = true -> canonb L r = true ->
  In s (l_segs L) -> simple_field s = Some f -> find_key (l_cuts L) f = Some c -> c_const c = None ->
  lookup (parse L (render L r)) f = canon_value s r.
Proof.
  intros Hok Hfit Hcan Hs Hsf Ef Econst. pose proof (fitsb_widthb L r Hfit) as Hw.
  destruct (layout_ok_facts L Hok) as [cs F].
  (* the field check of this segment *)
  unfold canonb in Hcan. rewrite forallb_forall in Hcan. specialize (Hcan s Hs).
  unfold seg_canonb in Hcan. rewrite Hsf, Ef, Econst in Hcan.
  rewrite (parse_render_fields L r f Hok Hfit), Ef, Econst.
  (* the cut is real and assigns f *)
  apply find_key_in in Ef as [Hc Hk]. unfold cut_key in Hk. rewrite Econst in Hk.
  destruct (String.eqb (c_field c) "") eqn:Ee; [discriminate|]. injection Hk as Hk.
  apply String.eqb_neq in Ee.
  destruct (ok_aligned _ _ F c Hc Econst Ee) as (x & Hx & Ha & Hlo & Hhi & Hxf).
  assert (Exs : cs_seg x = s).
  { apply (nodup_flat_map_inj seg_keys (l_segs L) (ok_seg_keys _ _ F) (cs_seg x) s f); auto.
    - rewrite <- (ok_segs _ _ F). now apply in_map.
    - unfold seg_keys. rewrite Hxf, Hk. now left.
    - unfold seg_keys. rewrite (seg_field_simple s f Hsf). now left. }
  unfold aligned_seg. rewrite (ok_cols _ _ F), Ha. subst s.
  apply (canon_field_sound r x f (c_conv c)); auto.
  - unfold widthb in Hw. rewrite (ok_cols _ _ F), forallb_forall in Hw. now apply Hw.
  - unfold fitsb in Hfit. apply andb_prop in Hfit as [_ Hi]. rewrite forallb_forall in Hi. now apply Hi.
Qed.

Corollary parse_render_gets L r s f c :
  layout_ok L = true -> fitsb L r = true -> canonb L r = true ->
  In s (l_segs L) -> simple_field s = Some f -> find_key (l_cuts L) f = Some c -> c_const c = None ->
  match s with
  | SAlpha _ _ | SStr _ _ | SRaw _ => gets (parse L (render L r)) f = gets r f
  | SNum _ _ | SItoa _ => geti (parse L (render L r)) f = geti r f
  | _ => True
  end.
Proof.
  intros Hok Hfit Hcan Hs Hsf Ef Econst.
  pose proof (parse_render_value L r s f c Hok Hfit Hcan Hs Hsf Ef Econst) as H.
  destruct s as [bs|g w|g w|g w|g|g|n h|src]; cbn [simple_field] in Hsf; try exact I;
    injection Hsf as ->; cbn [canon_value] in H; unfold gets at 1 || unfold geti at 1; now rewrite H.
Qed.

(* the two readings separately *)
Corollary parse_render_gets_str L r s f c :
  layout_ok L = true -> fitsb L r = true -> canonb L r = true ->
  In s (l_segs L) -> simple_field s = Some f -> find_key (l_cuts L) f = Some c -> c_const c = None ->
  canon_value s r = Some (VS (gets r f)) ->
  gets (parse L (render L r)) f = gets r f.
Proof.
  intros Hok Hfit Hcan Hs Hsf Ef Econst Hv.
  pose proof (parse_render_value L r s f c Hok Hfit Hcan Hs Hsf Ef Econst) as H. rewrite Hv in H.
  unfold gets at 1. now rewrite H.
Qed.

Corollary parse_render_geti L r s f c :
  layout_ok L = true -> fitsb L r = true -> canonb L r = true ->
  In s (l_segs L) -> simple_field s = Some f -> find_key (l_cuts L) f = Some c -> c_const c = None ->
  canon_value s r = Some (VI (geti r f)) ->
  geti (parse L (render L r)) f = geti r f.
Proof.
  intros Hok Hfit Hcan Hs Hsf Ef Econst Hv.
  pose proof (parse_render_value L r s f c Hok Hfit Hcan Hs Hsf Ef Econst) as H. rewrite Hv in H.
  unfold geti at 1. now rewrite H.
Qed.

(* ------------------------------------------------------------------ *)
(* 5. non-vacuity                                                        *)

Local Open Scope string_scope.

(* Ex_record made canonical: the alpha fields read back without conversion
   (IdentificationNumber, DiscretionaryData) fill their columns *)
Definition Ex_canon : recval :=
  [ ("TransactionCode", VI 22)
  ; ("RDFIIdentification", VS (bytes_of_string "23138010"))
  ; ("CheckDigit", VS (bytes_of_string "4"))
  ; ("DFIAccountNumber", VS (bytes_of_string "12345678"))
  ; ("Amount", VI 100000)
  ; ("IdentificationNumber", VS (bytes_of_string "ID-000000000007"))
  ; ("IndividualName", VS [74; 111; 115; 195; 169; 32; 195; 145; 97; 110; 100; 195; 186]%N)
  ; ("DiscretionaryData", VS (bytes_of_string "S1"))
  ; ("AddendaRecordIndicator", VI 0)
  ; ("TraceNumber", VS (bytes_of_string "121042880000001")) ].

Example Ex_canon_fits : fitsb Ex_layout Ex_canon = true.
Proof. vm_compute. reflexivity. Qed.
Example Ex_canon_canonb : canonb Ex_layout Ex_canon = true.
Proof. vm_compute. reflexivity. Qed.

Ltac in_list := repeat first [left; reflexivity | right].

Example Ex_value_name :
  lookup (parse Ex_layout (render Ex_layout Ex_canon)) "IndividualName"
  = Some (VS [74; 111; 115; 195; 169; 32; 195; 145; 97; 110; 100; 195; 186]%N).
Proof.
  etransitivity.
  - apply (parse_render_value Ex_layout Ex_canon (SAlpha "IndividualName" 22) "IndividualName"
             (mkcut 54 76 "IndividualName" ["strings.TrimSpace"]) Ex_layout_ok Ex_canon_fits Ex_canon_canonb);
      [unfold Ex_layout; cbn [l_segs In]; in_list | reflexivity | reflexivity | reflexivity].
  - vm_compute. reflexivity.
Qed.

Example Ex_value_amount :
  lookup (parse Ex_layout (render Ex_layout Ex_canon)) "Amount" = Some (VI 100000).
Proof.
  etransitivity.
  - apply (parse_render_value Ex_layout Ex_canon (SNum "Amount" 10) "Amount"
             (mkcut 29 39 "Amount" ["parseNumField"]) Ex_layout_ok Ex_canon_fits Ex_canon_canonb);
      [unfold Ex_layout; cbn [l_segs In]; in_list | reflexivity | reflexivity | reflexivity].
  - vm_compute. reflexivity.
Qed.

Example Ex_gets_name :
  gets (parse Ex_layout (render Ex_layout Ex_canon)) "IndividualName" = gets Ex_canon "IndividualName".
Proof.
  apply (parse_render_gets Ex_layout Ex_canon (SAlpha "IndividualName" 22) "IndividualName"
           (mkcut 54 76 "IndividualName" ["strings.TrimSpace"]) Ex_layout_ok Ex_canon_fits Ex_canon_canonb);
    [unfold Ex_layout; cbn [l_segs In]; in_list | reflexivity | reflexivity | reflexivity].
Qed.

Example Ex_geti_amount :
  geti (parse Ex_layout (render Ex_layout Ex_canon)) "Amount" = geti Ex_canon "Amount".
Proof.
  apply (parse_render_gets Ex_layout Ex_canon (SNum "Amount" 10) "Amount"
           (mkcut 29 39 "Amount" ["parseNumField"]) Ex_layout_ok Ex_canon_fits Ex_canon_canonb);
    [unfold Ex_layout; cbn [l_segs In]; in_list | reflexivity | reflexivity | reflexivity].
Qed.

(* the side condition is not vacuous: Ex_record fits and is re-render stable,
   yet its IdentificationNumber " id 7" is read back padded to 15 columns *)
Example Ex_record_not_canon : canonb Ex_layout Ex_record = false.
Proof. vm_compute. reflexivity. Qed.
Example Ex_record_readback :
  fitsb Ex_layout Ex_record = true /\ stableb Ex_layout Ex_record = true /\
  lookup (parse Ex_layout (render Ex_layout Ex_record)) "IdentificationNumber"
    = Some (VS (bytes_of_string " id 7          ")) /\
  lookup (parse Ex_layout (render Ex_layout Ex_record)) "IdentificationNumber"
    <> canon_value (SAlpha "IdentificationNumber" 15) Ex_record.
Proof. vm_compute. repeat split; discriminate. Qed.
(* an amount of eleven digits in ten columns loses its leading digit *)
Example Ex_amount_not_canon :
  let r := ("Amount", VI 12345678901) :: Ex_canon in
  fitsb Ex_layout r = true /\ canonb Ex_layout r = false /\
  lookup (parse Ex_layout (render Ex_layout r)) "Amount" = Some (VI 2345678901).
Proof. vm_compute. repeat split. Qed.

Print Assumptions parse_render_value.

(* Field converters of converters.go, byte exact: alphaField, numericField,
   stringField, strconv.Itoa/Atoi, strings.TrimSpace. Definitions only. *)
From Coq Require Import String.
From ACH Require Export Utf8 LayoutTypes.
Open Scope N_scope.

Definition spaces (n : nat) : bytes := repeat sp n.
Definition zeros (n : nat) : bytes := repeat zero n.

(* unicode.IsSpace *)
Definition is_space (r : N) : bool :=
  ((9 <=? r) && (r <=? 13)) || (r =? 32) || (r =? 133) || (r =? 160) || (r =? 5760)
  || ((8192 <=? r) && (r <=? 8202)) || (r =? 8232) || (r =? 8233) || (r =? 8239)
  || (r =? 8287) || (r =? 12288).

Fixpoint drop_space (cs : list (N * bytes)) : list (N * bytes) :=
  match cs with
  | (r, bs) :: rest => if is_space r then drop_space rest else cs
  | [] => []
  end.

(* strings.TrimSpace *)
Definition trim (s : bytes) : bytes :=
  concat (map snd (rev (drop_space (rev (drop_space (chunks s)))))).

(* string([]rune(s)[:w]) *)
Definition rune_prefix (w : nat) (s : bytes) : bytes := encode (firstn w (runes s)).

Definition alphaField (s : bytes) (w : nat) : bytes :=
  let n := rune_count s in
  if (w <? n)%nat then rune_prefix w s else s ++ spaces (w - n).

Definition stringField (s : bytes) (w : nat) : bytes :=
  let n := rune_count s in
  if (w <? n)%nat then rune_prefix w s else zeros (w - n) ++ s.

(* decimal digits of a positive number, most significant first; fuel = number of binary digits *)
Fixpoint digits_fuel (fuel : nat) (n : N) (acc : bytes) : bytes :=
  match fuel with
  | O => acc
  | S k => if n <? 10 then (48 + n) :: acc else digits_fuel k (n / 10) ((48 + n mod 10) :: acc)
  end.
Definition digits (n : N) : bytes := digits_fuel (S (N.to_nat (N.log2 n))) n [].

(* strconv.Itoa / FormatInt(_, 10) *)
Definition itoa (z : Z) : bytes :=
  match z with
  | Z0 => [48]
  | Zpos p => digits (Npos p)
  | Zneg p => 45 :: digits (Npos p)
  end.

Definition numericField (z : Z) (w : nat) : bytes :=
  let s := itoa z in
  let l := length s in
  if (w <? l)%nat then skipn (l - w) s else zeros (w - l) ++ s.

Definition is_digit (b : N) : bool := (48 <=? b) && (b <=? 57).

Fixpoint digits_val (s : bytes) (acc : Z) : Z :=
  match s with
  | [] => acc
  | b :: t => digits_val t (acc * 10 + Z.of_N (b - 48))%Z
  end.

Definition max_int64 : Z := 9223372036854775807%Z.
Definition min_int64 : Z := (-9223372036854775808)%Z.

(* strconv.Atoi with the error discarded (parseNumField): syntax error -> 0, range error -> clamp *)
Definition atoi (s : bytes) : Z :=
  let '(neg, ds) := match s with
                    | 45 :: t => (true, t)
                    | 43 :: t => (false, t)
                    | _ => (false, s)
                    end in
  match ds with
  | [] => 0%Z
  | _ => if forallb is_digit ds
         then let v := digits_val ds 0%Z in
              if neg then (if (min_int64 <=? - v)%Z then (- v)%Z else min_int64)
              else (if (v <=? max_int64)%Z then v else max_int64)
         else 0%Z
  end.

(* strconv.Atoi returning an error: syntax or range *)
Definition atoi_opt (s : bytes) : option Z :=
  let '(neg, ds) := match s with
                    | 45 :: t => (true, t)
                    | 43 :: t => (false, t)
                    | _ => (false, s)
                    end in
  match ds with
  | [] => None
  | _ => if forallb is_digit ds
         then let v := digits_val ds 0%Z in
              if neg then (if (min_int64 <=? - v)%Z then Some (- v)%Z else None)
              else (if (v <=? max_int64)%Z then Some v else None)
         else None
  end.

Definition parseNumField (s : bytes) : Z := atoi (trim s).

(* Whole-file model with typed records (C01, file level).

   A file is a tree whose leaves are record VALUES (layout name + field values):
   file header, standard/ADV batches, IAT batches, file control; a batch is a
   header, entries (each followed by its addenda in the order the writer emits
   them) and a control.

   [write_file]  Writer.Write without the final-block padding: every record is
                 rendered with its layout ([Layout.render]) in the writer's
                 order; it IS [FileStruct.record_lines] of the rendered lines.
   [read_file]   Reader.Read on the lines handed to readLine, following
                 reader.go: parseLine (first byte), parseBH (IAT batch header
                 detection by columns 50..53 = "IAT" or company name
                 "IATCOR"), parseED / parseEDAddenda (batch context: current
                 batch vs. current IAT batch, ADV by the parsed SEC code),
                 parseAddenda / parseADVAddenda / parseIATAddenda (addenda type
                 code in byte columns 1..3, the refused / dishonored / contested
                 code lists on byte columns 3..6, AddendaRecordIndicator == 1),
                 parseBatchControl, parseFileControl.  Record validation
                 (maybeValidate) is NOT modelled: this is the reader with
                 ValidateOpts.SkipAll, which coincides with the default reader on
                 files whose records and batches are valid.
                 [None] = the reader reports an error, or the input leaves the
                 shape of the tree (a batch without control, which Go tolerates).

   The table-like parts (switch cases, code lists, SEC list, detection columns)
   are the hand tables below; Gen/ReaderDispatch.v regenerates them from
   reader.go / batch.go / addenda9x.go on every run and Oblig/C01FileObl.v checks
   that the two are equal.

   Definitions only. *)
From Coq Require Import String.
From ACH Require Export LayoutOk FileStruct Framing.
Local Open Scope string_scope.
Local Open Scope nat_scope.

(* ------------------------------------------------------------------ *)
(* the typed tree                                                       *)

Record recordR := mkRec { r_kind : string; r_val : recval }.
Record entryR := mkEnt { en_rec : recordR; en_addenda : list recordR }.
Record batchR := mkBat { bt_hdr : recordR; bt_entries : list entryR; bt_ctl : recordR }.
(* [fl_batches] = File.Batches (standard and ADV), [fl_iat] = File.IATBatches *)
Record fileR := mkFil { fl_hdr : recordR; fl_batches : list batchR; fl_iat : list batchR; fl_ctl : recordR }.

Definition map_entry (g : recordR -> recordR) (e : entryR) : entryR := mkEnt (g (en_rec e)) (map g (en_addenda e)).
Definition map_batch (g : recordR -> recordR) (b : batchR) : batchR :=
  mkBat (g (bt_hdr b)) (map (map_entry g) (bt_entries b)) (g (bt_ctl b)).
Definition map_file (g : recordR -> recordR) (f : fileR) : fileR :=
  mkFil (g (fl_hdr f)) (map (map_batch g) (fl_batches f)) (map (map_batch g) (fl_iat f)) (g (fl_ctl f)).

Definition all_entry (P : recordR -> bool) (e : entryR) : bool := P (en_rec e) && forallb P (en_addenda e).
Definition all_batch (P : recordR -> bool) (b : batchR) : bool :=
  P (bt_hdr b) && forallb (all_entry P) (bt_entries b) && P (bt_ctl b).
Definition all_file (P : recordR -> bool) (f : fileR) : bool :=
  P (fl_hdr f) && forallb (all_batch P) (fl_batches f) && forallb (all_batch P) (fl_iat f) && P (fl_ctl f).

Definition entry_records (e : entryR) : list recordR := en_rec e :: en_addenda e.
Definition batch_records (b : batchR) : list recordR := bt_hdr b :: flat_map entry_records (bt_entries b) ++ [bt_ctl b].
Definition file_records (f : fileR) : list recordR :=
  fl_hdr f :: flat_map batch_records (fl_batches f) ++ flat_map batch_records (fl_iat f) ++ [fl_ctl f].

(* ------------------------------------------------------------------ *)
(* hand tables (checked against the regenerated Gen/ReaderDispatch.v)    *)

Definition bstr (s : string) : bytes := bytes_of_string s.

(* parseLine: `switch r.line[:1]` -> the first Reader method called in the case *)
Definition line_handlers : list (bytes * string) :=
  [ (bstr "1", "parseFileHeader"); (bstr "5", "parseBH"); (bstr "6", "parseED"); (bstr "7", "parseEDAddenda")
  ; (bstr "8", "parseBatchControl"); (bstr "9", "parseFileControl") ].
(* `if r.line[:2] == "99" { break }` in the file-control case *)
Definition pad_test : nat * nat * bytes := (0, 2, bstr "99").

(* parseBH: `line := []rune(r.line)`;
   `string(line[50:53]) == IAT || strings.TrimSpace(string(line[4:20])) == IATCOR`
   as (unit of the columns, lo, hi, TrimSpace applied, constant).  Columns are
   counted in characters since the fix 272ca522 (they were bytes before: a
   multi-byte company name shifted them, see docs/C01.md) *)
Definition iat_detect : list (indexing * nat * nat * bool * bytes) :=
  [ (IRune, 50, 53, false, bstr "IAT"); (IRune, 4, 20, true, bstr "IATCOR") ].

(* one case of an addenda switch: the record type constructed, possibly chosen
   by predicates on the code columns (first predicate that holds, else default) *)
Inductive arm := AKind (k : string) | ACode (alts : list (string * string)) (dflt : string).

Definition tag_cols : nat * nat := (1, 3).      (* `switch r.line[1:3]` *)
Definition code_cols : nat * nat := (3, 6).     (* `Is…Code(r.line[3:6])` *)

(* parseAddenda (batches other than ADV) *)
Definition std_arms : list (bytes * arm) :=
  [ (bstr "02", AKind "Addenda02")
  ; (bstr "05", AKind "Addenda05")
  ; (bstr "98", ACode [("IsRefusedChangeCode", "Addenda98Refused")] "Addenda98")
  ; (bstr "99", ACode [("IsDishonoredReturnCode", "Addenda99Dishonored"); ("IsContestedReturnCode", "Addenda99Contested")] "Addenda99") ].

(* parseADVAddenda: no switch, always Addenda99 *)
Definition adv_addenda : string := "Addenda99".

(* switchIATAddenda / mandatoryOptionalIATAddenda / nocIATAddenda / returnIATAddenda *)
Definition iat_arms : list (bytes * arm) :=
  [ (bstr "10", AKind "Addenda10"); (bstr "11", AKind "Addenda11"); (bstr "12", AKind "Addenda12")
  ; (bstr "13", AKind "Addenda13"); (bstr "14", AKind "Addenda14"); (bstr "15", AKind "Addenda15")
  ; (bstr "16", AKind "Addenda16"); (bstr "17", AKind "Addenda17"); (bstr "18", AKind "Addenda18")
  ; (bstr "98", AKind "Addenda98"); (bstr "99", AKind "Addenda99") ].

(* predicate -> (strings.ToUpper applied to the argument, the codes of its switch) *)
Definition code_lists : list (string * (bool * list bytes)) :=
  [ ("IsRefusedChangeCode", (true, map bstr ["C61"; "C62"; "C63"; "C64"; "C65"; "C66"; "C67"; "C68"; "C69"]))
  ; ("IsDishonoredReturnCode", (false, map bstr ["R61"; "R62"; "R67"; "R68"; "R69"; "R70"]))
  ; ("IsContestedReturnCode", (false, map bstr ["R71"; "R72"; "R73"; "R74"; "R75"; "R76"])) ].

(* NewBatch: the SEC codes for which a batch is constructed (IAT is an error there) *)
Definition newbatch_secs : list bytes :=
  map bstr ["ACK"; "ADV"; "ARC"; "ATX"; "BOC"; "CCD"; "CIE"; "COR"; "CTX"; "DNE"; "ENR"; "MTE"; "POP"; "POS"; "PPD"; "RCK"
         ; "SHR"; "TEL"; "TRC"; "TRX"; "WEB"; "XCK"].

(* addenda slots of an entry in the order the writer emits them (writer.go);
   [true] = a slice (appended), [false] = a single pointer (overwritten) *)
Definition std_slots : list (string * bool) :=
  [ ("Addenda02", false); ("Addenda05", true); ("Addenda98", false); ("Addenda98Refused", false)
  ; ("Addenda99", false); ("Addenda99Dishonored", false); ("Addenda99Contested", false) ].
Definition adv_slots : list (string * bool) := [ ("Addenda99", false) ].
Definition iat_slots : list (string * bool) :=
  [ ("Addenda10", false); ("Addenda11", false); ("Addenda12", false); ("Addenda13", false); ("Addenda14", false)
  ; ("Addenda15", false); ("Addenda16", false); ("Addenda17", true); ("Addenda18", true)
  ; ("Addenda98", false); ("Addenda99", false) ].

(* ---- source facts the hand-written control flow below relies on, pinned as
   text (go/printer form): which Reader method each branch calls, which record
   types the methods construct / parse into, and their guard conditions.  They
   are not consumed by the functions; the obligation [reader_source_pinned]
   fails when reader.go changes here, which asks for a review of step1..step9. *)
Definition bh_branches : list string := ["parseIATBatchHeader"; "parseBatchHeader"].
Definition record_ctors : list (string * list string) :=
  [ ("parseFileHeader", ["r.File.Header.Parse"])
  ; ("parseBatchHeader", ["BatchHeader"])
  ; ("parseIATBatchHeader", ["IATBatchHeader"])
  ; ("parseEntryDetail", ["EntryDetail"; "ADVEntryDetail"])
  ; ("parseIATEntryDetail", ["IATEntryDetail"])
  ; ("parseADVAddenda", ["Addenda99"])
  ; ("parseBatchControl", ["r.currentBatch.GetADVControl().Parse"; "r.currentBatch.GetControl().Parse"; "r.IATCurrentBatch.GetControl().Parse"])
  ; ("parseFileControl", ["r.File.Control.Parse"; "r.File.ADVControl.Parse"]) ].
Definition reader_guards : list (string * list string) :=
  [ ("parseLine", ["r.currentBatch != nil"; "len(r.currentBatch.GetEntries()) == 0"; "!r.skipBatchAccumulation"
                  ; "r.currentBatch != nil"; "!r.skipBatchAccumulation"; "!r.skipBatchAccumulation"; "r.line[:2] == ""99"""])
  ; ("parseBH", ["len(line) >= 53 && (string(line[50:53]) == IAT || strings.TrimSpace(string(line[4:20])) == IATCOR)"])
  ; ("parseED", ["r.IATCurrentBatch.Header != nil"])
  ; ("parseEDAddenda", ["r.currentBatch != nil && r.currentBatch.GetHeader().CompanyName != IATCOR"])
  ; ("parseEntryDetail", ["r.currentBatch == nil"; "r.currentBatch.GetHeader().StandardEntryClassCode != ADV"])
  ; ("parseIATEntryDetail", ["r.IATCurrentBatch.Header == nil"])
  ; ("parseAddenda", ["r.currentBatch == nil"; "r.currentBatch.GetHeader().StandardEntryClassCode != ADV"
                     ; "len(r.currentBatch.GetEntries()) == 0"; "entry.AddendaRecordIndicator == 1"])
  ; ("parseADVAddenda", ["r.currentBatch == nil"; "len(r.currentBatch.GetADVEntries()) == 0"; "entry.AddendaRecordIndicator != 1"])
  ; ("parseIATAddenda", ["r.IATCurrentBatch.GetEntries() == nil"; "entry.AddendaRecordIndicator == 1"])
  ; ("parseBatchControl", ["r.currentBatch == nil && r.IATCurrentBatch.GetEntries() == nil"; "r.currentBatch != nil"
                          ; "r.currentBatch.GetHeader().StandardEntryClassCode == ADV"])
  ; ("parseFileControl", ["!r.File.IsADV()"; "(FileControl{}) != r.File.Control"; "(ADVFileControl{}) != r.File.ADVControl"]) ].

Definition ADVb : bytes := bstr "ADV".
Definition IATCORb : bytes := bstr "IATCOR".

(* ------------------------------------------------------------------ *)
(* the reader's decisions on one line (byte columns)                     *)

(* r.line[lo:hi] *)
Definition bsub (l : bytes) (lo hi : nat) : bytes := firstn (hi - lo) (skipn lo l).

(* strings.ToUpper on the three code columns: only ASCII letters matter for the
   comparison with "C61".."C69" (no other character has an ASCII upper case
   among 'C', '6', '1'..'9') *)
Definition upper_ascii (s : bytes) : bytes :=
  map (fun b => if ((97 <=? b) && (b <=? 122))%N then (b - 32)%N else b) s.

Definition code_in (pred : string) (code : bytes) : bool :=
  match assoc pred code_lists with
  | Some (up, cs) => existsb (bytes_eqb (if up then upper_ascii code else code)) cs
  | None => false
  end.

Definition arm_kind (a : arm) (line : bytes) : string :=
  match a with
  | AKind k => k
  | ACode alts d =>
      match find (fun p => code_in (fst p) (bsub line (fst code_cols) (snd code_cols))) alts with
      | Some p => snd p
      | None => d
      end
  end.

(* [None]: no case of the switch matches — the reader drops the line silently *)
Definition kind_by (arms : list (bytes * arm)) (line : bytes) : option string :=
  match find (fun p => bytes_eqb (fst p) (bsub line (fst tag_cols) (snd tag_cols))) arms with
  | Some p => Some (arm_kind (snd p) line)
  | None => None
  end.

(* string([]rune(line)[lo:hi]): the characters as the scanner yields them *)
Definition csub (l : bytes) (lo hi : nat) : bytes := sub (chars l) lo hi.

Definition detect1 (d : indexing * nat * nat * bool * bytes) (line : bytes) : bool :=
  let '(ix, lo, hi, tr, c) := d in
  let t := match ix with IRune => csub line lo hi | IByte => bsub line lo hi end in
  bytes_eqb (if tr then trim t else t) c.
Definition iat_line (line : bytes) : bool := existsb (fun d => detect1 d line) iat_detect.

Definition pad_line (line : bytes) : bool :=
  let '(lo, hi, c) := pad_test in bytes_eqb (bsub line lo hi) c.

(* ------------------------------------------------------------------ *)
(* addenda slots of an entry                                             *)

Fixpoint rank (slots : list (string * bool)) (k : string) : nat :=
  match slots with
  | [] => 0
  | (k', _) :: t => if String.eqb k k' then 0 else S (rank t k)
  end.
Definition multi (slots : list (string * bool)) (k : string) : bool :=
  match assoc k slots with Some m => m | None => false end.

(* `entry.AddendaNN = a` (overwrites) / `entry.AddAddendaNN(a)` (appends), seen
   as the list the writer would emit *)
Fixpoint attach (slots : list (string * bool)) (a : recordR) (l : list recordR) : list recordR :=
  match l with
  | [] => [a]
  | b :: l' =>
      if rank slots (r_kind b) <? rank slots (r_kind a) then b :: attach slots a l'
      else if rank slots (r_kind b) =? rank slots (r_kind a)
           then (if multi slots (r_kind a) then b :: attach slots a l' else a :: l')
           else a :: b :: l'
  end.

(* [b] is emitted before a later [k] *)
Definition before (slots : list (string * bool)) (k b : string) : bool :=
  (rank slots b <? rank slots k) || ((rank slots b =? rank slots k) && multi slots k).

(* the kinds [ks] (after [acc]) are in writer order, single slots at most once *)
Fixpoint slots_okb (slots : list (string * bool)) (acc ks : list string) : bool :=
  match ks with
  | [] => true
  | k :: ks' => forallb (before slots k) acc && slots_okb slots (acc ++ [k]) ks'
  end.

(* ------------------------------------------------------------------ *)
(* batch flavours                                                        *)

Record flavor := mkFl {
  fv_entry : string;                        (* record type of a '6' line *)
  fv_addenda : bytes -> option string;      (* record type of a '7' line; None: dropped *)
  fv_slots : list (string * bool);
  fv_ctl : string }.                        (* record type of the '8' line *)

Definition std_fl : flavor := mkFl "EntryDetail" (kind_by std_arms) std_slots "BatchControl".
Definition adv_fl : flavor := mkFl "ADVEntryDetail" (fun _ => Some adv_addenda) adv_slots "ADVBatchControl".
Definition iat_fl : flavor := mkFl "IATEntryDetail" (kind_by iat_arms) iat_slots "BatchControl".

Definition sec_of (h : recordR) : bytes := gets (r_val h) "StandardEntryClassCode".
(* GetHeader().StandardEntryClassCode == ADV *)
Definition is_adv (h : recordR) : bool := bytes_eqb (sec_of h) ADVb.
Definition cur_fl (h : recordR) : flavor := if is_adv h then adv_fl else std_fl.
(* File.IsADV() *)
Definition any_adv (l : list batchR) : bool := existsb (fun b => is_adv (bt_hdr b)) l.
(* GetHeader().CompanyName != IATCOR *)
Definition not_iatcor (h : recordR) : bool := negb (bytes_eqb (gets (r_val h) "CompanyName") IATCORb).
(* entry.AddendaRecordIndicator == 1 *)
Definition indicator1 (e : recordR) : bool := (geti (r_val e) "AddendaRecordIndicator" =? 1)%Z.

Definition opt_str_eqb (a b : option string) : bool :=
  match a, b with
  | Some x, Some y => String.eqb x y
  | None, None => true
  | _, _ => false
  end.

Section WithLayouts.
Variable T : list layout.

Definition layout_of (k : string) : option layout := find (fun L => String.eqb (l_name L) k) T.

(* ------------------------------------------------------------------ *)
(* writer                                                               *)

(* x.String(); an unknown record type has no rendering *)
Definition render_rec (x : recordR) : bytes :=
  match layout_of (r_kind x) with Some L => render L (r_val x) | None => [] end.

Definition entry_S (e : entryR) : entryS := mkEntry (render_rec (en_rec e)) (map render_rec (en_addenda e)).

(* writeBatch: `isADV` is FILE-wide; with it a batch contributes GetADVEntries(),
   without it GetEntries() — a batch of the other sort writes no entries.  The
   control is chosen by the batch's own header. *)
Definition std_batch_S (adv : bool) (b : batchR) : batchS :=
  mkBatch (render_rec (bt_hdr b))
          (if Bool.eqb (is_adv (bt_hdr b)) adv then map entry_S (bt_entries b) else [])
          (render_rec (bt_ctl b)).
Definition iat_batch_S (b : batchR) : batchS :=
  mkBatch (render_rec (bt_hdr b)) (map entry_S (bt_entries b)) (render_rec (bt_ctl b)).

Definition struct_of (f : fileR) : fileS :=
  mkFile (render_rec (fl_hdr f))
         (map (std_batch_S (any_adv (fl_batches f))) (fl_batches f) ++ map iat_batch_S (fl_iat f))
         (render_rec (fl_ctl f)).

(* the record lines Writer.Write emits, before the final-block padding *)
Definition write_file (f : fileR) : list bytes := record_lines (struct_of f).
(* ... and with it *)
Definition write_file_padded (f : fileR) : list bytes := physical_lines (struct_of f).

(* ------------------------------------------------------------------ *)
(* reader                                                               *)

(* NewX() followed by x.Parse(line), restricted to the fields Parse assigns *)
Definition read_rec (k : string) (line : bytes) : option recordR :=
  match layout_of k with Some L => Some (mkRec k (overlay (parse L line) [])) | None => None end.

(* what the reader makes of the record it is handed back *)
Definition parsed_rec (x : recordR) : recordR :=
  match layout_of (r_kind x) with
  | Some L => mkRec (r_kind x) (overlay (parse L (render L (r_val x))) [])
  | None => x
  end.
(* the same laid over the original value (fields outside the layout survive) *)
Definition canon_rec (x : recordR) : recordR :=
  match layout_of (r_kind x) with
  | Some L => mkRec (r_kind x) (overlay (parse L (render L (r_val x))) (r_val x))
  | None => x
  end.

Definition parsed_file : fileR -> fileR := map_file parsed_rec.
Definition canon_file : fileR -> fileR := map_file canon_rec.

(* an open batch: header, entries so far (last first) *)
Definition ctx := (recordR * list entryR)%type.

Definition ctx_entry (fv : flavor) (c : ctx) (l : bytes) : option ctx :=
  match read_rec (fv_entry fv) l with
  | Some e => Some (fst c, mkEnt e [] :: snd c)
  | None => None
  end.

(* parseAddenda / parseADVAddenda / parseIATAddenda on the last entry *)
Definition ctx_addenda (fv : flavor) (c : ctx) (l : bytes) : option ctx :=
  match snd c with
  | [] => None                                               (* ErrFileAddendaOutsideEntry *)
  | e :: rest =>
      if indicator1 (en_rec e) then
        match fv_addenda fv l with
        | None => Some c                                     (* no case matches *)
        | Some k =>
            match read_rec k l with
            | Some a => Some (fst c, mkEnt (en_rec e) (attach (fv_slots fv) a (en_addenda e)) :: rest)
            | None => None
            end
        end
      else None                                              (* ErrBatchAddendaIndicator *)
  end.

Definition ctx_close (fv : flavor) (c : ctx) (l : bytes) : option batchR :=
  match read_rec (fv_ctl fv) l with
  | Some ctl => Some (mkBat (fst c) (rev (snd c)) ctl)
  | None => None
  end.

Record dstate := mkDS {
  d_hdr : option recordR;             (* File.Header *)
  d_std : list batchR;                (* File.Batches, last first *)
  d_iat : list batchR;                (* File.IATBatches, last first *)
  d_cur : option ctx;                 (* r.currentBatch *)
  d_icur : option ctx;                (* r.IATCurrentBatch (Header != nil) *)
  d_ctl : option recordR;             (* File.Control *)
  d_actl : option recordR }.          (* File.ADVControl *)

Definition d_init : dstate := mkDS None [] [] None None None None.
Definition with_cur (s : dstate) (c : option ctx) : dstate :=
  mkDS (d_hdr s) (d_std s) (d_iat s) c (d_icur s) (d_ctl s) (d_actl s).
Definition with_icur (s : dstate) (c : option ctx) : dstate :=
  mkDS (d_hdr s) (d_std s) (d_iat s) (d_cur s) c (d_ctl s) (d_actl s).
Definition push_std (s : dstate) (b : batchR) : dstate :=
  mkDS (d_hdr s) (b :: d_std s) (d_iat s) None (d_icur s) (d_ctl s) (d_actl s).
Definition push_iat (s : dstate) (b : batchR) : dstate :=
  mkDS (d_hdr s) (d_std s) (b :: d_iat s) (d_cur s) None (d_ctl s) (d_actl s).

Definition lift_cur (s : dstate) (oc : option ctx) : option dstate :=
  match oc with Some c => Some (with_cur s (Some c)) | None => None end.
Definition lift_icur (s : dstate) (oc : option ctx) : option dstate :=
  match oc with Some c => Some (with_icur s (Some c)) | None => None end.

(* parseFileHeader: only one file header *)
Definition step1 (s : dstate) (l : bytes) : option dstate :=
  match d_hdr s with
  | Some _ => None
  | None => match read_rec "FileHeader" l with
            | Some h => Some (mkDS (Some h) (d_std s) (d_iat s) (d_cur s) (d_icur s) (d_ctl s) (d_actl s))
            | None => None
            end
  end.

(* batch header.  An open batch without control is either an error (no entries)
   or accumulated by Go without a control: outside the tree, [None]. *)
Definition step5 (s : dstate) (l : bytes) : option dstate :=
  match d_cur s with
  | Some _ => None
  | None =>
      if iat_line l then
        match read_rec "IATBatchHeader" l with
        | Some h => Some (with_icur s (Some (h, [])))          (* an unfinished IAT batch is overwritten *)
        | None => None
        end
      else
        match read_rec "BatchHeader" l with
        | Some h => if existsb (bytes_eqb (sec_of h)) newbatch_secs     (* NewBatch(bh) *)
                    then Some (with_cur s (Some (h, []))) else None
        | None => None
        end
  end.

(* parseED: the IAT batch is asked first *)
Definition step6 (s : dstate) (l : bytes) : option dstate :=
  match d_icur s with
  | Some c => lift_icur s (ctx_entry iat_fl c l)
  | None => match d_cur s with
            | Some c => lift_cur s (ctx_entry (cur_fl (fst c)) c l)
            | None => None                                       (* ErrFileEntryOutsideBatch *)
            end
  end.

Definition step7_iat (s : dstate) (l : bytes) : option dstate :=
  match d_icur s with
  | Some c => lift_icur s (ctx_addenda iat_fl c l)
  | None => None
  end.

(* parseEDAddenda *)
Definition step7 (s : dstate) (l : bytes) : option dstate :=
  match d_cur s with
  | Some c => if not_iatcor (fst c) then lift_cur s (ctx_addenda (cur_fl (fst c)) c l) else step7_iat s l
  | None => step7_iat s l
  end.

(* parseBatchControl + the accumulation in parseLine *)
Definition step8 (s : dstate) (l : bytes) : option dstate :=
  match d_cur s with
  | Some c => match ctx_close (cur_fl (fst c)) c l with
              | Some b => Some (push_std s b)
              | None => None
              end
  | None =>
      match d_icur s with
      | Some (h, e :: es) =>
          match ctx_close iat_fl (h, e :: es) l with
          | Some b => Some (push_iat s b)
          | None => None
          end
      | _ => None                                                 (* ErrFileBatchControlOutsideBatch *)
      end
  end.

(* file control; lines starting "99" are final-block padding *)
Definition step9 (s : dstate) (l : bytes) : option dstate :=
  if pad_line l then Some s
  else if any_adv (d_std s) then
    match d_actl s with
    | Some _ => None
    | None => match read_rec "ADVFileControl" l with
              | Some c => Some (mkDS (d_hdr s) (d_std s) (d_iat s) (d_cur s) (d_icur s) (d_ctl s) (Some c))
              | None => None
              end
    end
  else
    match d_ctl s with
    | Some _ => None
    | None => match read_rec "FileControl" l with
              | Some c => Some (mkDS (d_hdr s) (d_std s) (d_iat s) (d_cur s) (d_icur s) (Some c) (d_actl s))
              | None => None
              end
    end.

(* readLine on a line of 94 characters + parseLine *)
Definition dstep (st : option dstate) (l : bytes) : option dstate :=
  match st with
  | None => None
  | Some s =>
      if negb (rune_count l =? 94) then None
      else
        let t := rtype l in
        if (t =? T1)%N then step1 s l
        else if (t =? T5)%N then step5 s l
        else if (t =? T6)%N then step6 s l
        else if (t =? T7)%N then step7 s l
        else if (t =? T8)%N then step8 s l
        else if (t =? T9)%N then step9 s l
        else None                                                 (* ErrUnknownRecordType *)
  end.

(* the end of Read: header and control present (the control that matches
   File.IsADV()); an open batch is outside the tree *)
Definition d_finish (s : dstate) : option fileR :=
  match d_hdr s, d_cur s, d_icur s with
  | Some h, None, None =>
      match (if any_adv (d_std s) then d_actl s else d_ctl s) with
      | Some c => Some (mkFil h (rev (d_std s)) (rev (d_iat s)) c)
      | None => None
      end
  | _, _, _ => None
  end.

Definition read_file (ls : list bytes) : option fileR :=
  match fold_left dstep ls (Some d_init) with
  | Some s => d_finish s
  | None => None
  end.

(* ------------------------------------------------------------------ *)
(* side conditions of the round trip                                     *)

Definition known_rec (x : recordR) : bool := is_some (layout_of (r_kind x)).
Definition rec_fitsb (x : recordR) : bool :=
  match layout_of (r_kind x) with Some L => fitsb L (r_val x) | None => false end.
Definition rec_stableb (x : recordR) : bool :=
  match layout_of (r_kind x) with Some L => stableb L (r_val x) | None => false end.

Definition line_is (t : N) (x : recordR) : bool := (rtype (render_rec x) =? t)%N.

(* the reader picks, for the written line, the record type the tree has *)
Definition addenda_ok (fv : flavor) (a : recordR) : bool :=
  line_is T7 a && opt_str_eqb (fv_addenda fv (render_rec a)) (Some (r_kind a)).

Definition entry_ok (fv : flavor) (e : entryR) : bool :=
  String.eqb (r_kind (en_rec e)) (fv_entry fv) && line_is T6 (en_rec e)
  && (is_nil (en_addenda e) || indicator1 (parsed_rec (en_rec e)))
  && forallb (addenda_ok fv) (en_addenda e)
  && slots_okb (fv_slots fv) [] (map r_kind (en_addenda e)).

Definition std_batch_ok (adv : bool) (b : batchR) : bool :=
  let h := parsed_rec (bt_hdr b) in
  String.eqb (r_kind (bt_hdr b)) "BatchHeader" && line_is T5 (bt_hdr b)
  && negb (iat_line (render_rec (bt_hdr b)))
  && existsb (bytes_eqb (sec_of h)) newbatch_secs
  && not_iatcor h
  && Bool.eqb (is_adv h) (is_adv (bt_hdr b))       (* the SEC code reads back as ADV iff it is ADV *)
  && Bool.eqb (is_adv (bt_hdr b)) adv              (* ADV and other batches are not mixed *)
  && forallb (entry_ok (cur_fl h)) (bt_entries b)
  && String.eqb (r_kind (bt_ctl b)) (fv_ctl (cur_fl h)) && line_is T8 (bt_ctl b).

Definition iat_batch_ok (b : batchR) : bool :=
  String.eqb (r_kind (bt_hdr b)) "IATBatchHeader" && line_is T5 (bt_hdr b)
  && iat_line (render_rec (bt_hdr b))
  && negb (is_nil (bt_entries b))
  && forallb (entry_ok iat_fl) (bt_entries b)
  && String.eqb (r_kind (bt_ctl b)) (fv_ctl iat_fl) && line_is T8 (bt_ctl b).

Definition dispatchb (f : fileR) : bool :=
  String.eqb (r_kind (fl_hdr f)) "FileHeader" && line_is T1 (fl_hdr f)
  && forallb (std_batch_ok (any_adv (fl_batches f))) (fl_batches f)
  && forallb iat_batch_ok (fl_iat f)
  && String.eqb (r_kind (fl_ctl f)) (if any_adv (fl_batches f) then "ADVFileControl" else "FileControl")
  && line_is T9 (fl_ctl f) && negb (pad_line (render_rec (fl_ctl f))).

End WithLayouts.

(* ------------------------------------------------------------------ *)
(* Reader.Read on a decoded text: framing, then the lines                *)

Fixpoint norm_lines (ns : list norm) : option (list bytes) :=
  match ns with
  | [] => Some []
  | NLine l :: t => match norm_lines t with Some ls => Some (l :: ls) | None => None end
  | NWrongLength :: _ => None
  end.

Definition read_text (T : list layout) (text : bytes) : option fileR :=
  match norm_lines (read_lines text) with
  | Some ls => read_file T ls
  | None => None
  end.

(* no CR / LF byte inside a record *)
Definition no_nl (s : bytes) : bool := forallb (fun b => negb (b =? 10)%N && negb (b =? 13)%N) s.

(* Rune-level counterparts of the field converters and the predicates used in
   the stability side conditions.  Definitions only. *)
From ACH Require Export Fields.
Open Scope N_scope.

(* strings.TrimSpace on a list of runes *)
Fixpoint dropsp (rs : list N) : list N :=
  match rs with
  | r :: rest => if is_space r then dropsp rest else rs
  | [] => []
  end.
Definition trim_runes (rs : list N) : list N := rev (dropsp (rev (dropsp rs))).

(* alphaField / stringField on a list of runes *)
Definition pad_alpha (rs : list N) (w : nat) : list N :=
  if (w <? length rs)%nat then firstn w rs else rs ++ repeat 32 (w - length rs).
Definition pad_str (rs : list N) (w : nat) : list N :=
  if (w <? length rs)%nat then firstn w rs else repeat 48 (w - length rs) ++ rs.

Definition hd_nonsp (rs : list N) : bool := match rs with [] => true | x :: _ => negb (is_space x) end.
Definition ends_ok_runes (rs : list N) : bool := hd_nonsp rs && hd_nonsp (rev rs).
(* first and last rune are not white space (or the text is empty): TrimSpace is the identity *)
Definition ends_ok (s : bytes) : bool := ends_ok_runes (runes s).

Definition sp_ok (r : N) : bool := negb (is_space r) || (r =? 32).
Definition all_blank (rs : list N) : bool := forallb (fun r => r =? 32) rs.
Definition plain_runes (rs : list N) : bool := forallb sp_ok rs && (hd_nonsp rs || all_blank rs).
(* no leading white space (unless the text is all blanks) and every white-space rune is the blank 0x20 *)
Definition plain_left (s : bytes) : bool := plain_runes (runes s).

(* C04, phase 6: the bridge between the two readers of the development.

     Codec/Dispatch.v + Codec/ReaderValid.v   the TYPED reader (Reader.Read with its validation):
                                              a tree of record values, [p_file] projects it to the
                                              arithmetic skeleton of Model/Arith.v
     Codec/FileStruct.v + Model/TamperText.v  the STRUCTURAL reader (whole record lines) and [skel],
                                              the skeleton the text-level tamper / truncation
                                              theorems of C04 are stated about

   [skelD] is the skeleton of a structured list of record lines computed with the decisions of
   the typed reader: the batch kind by [iat_line] (characters 50..53 / 4..20, reader.go parseBH since
   the fix 272ca522) instead of [kind_of_hdr] (byte slices), and the number of addenda of an entry
   as the typed reader keeps them ([kept]: a '7' line without case in the addenda switch is dropped,
   a single slot is overwritten) instead of the number of '7' lines.  [bridge_okb] says that the two
   agree on a given structured file; under it [skelD] is [skel] (Codec/ReaderSkelFacts.v).

   Definitions only. *)
From Coq Require Import String List NArith ZArith Bool.
From ACH Require Import Arith.
From ACH Require Export ReaderValid TamperText.
Import ListNotations.
Local Open Scope string_scope.
Local Open Scope nat_scope.

Section Defs.
Variable T : list layout.

(* parseAddenda / parseADVAddenda / parseIATAddenda on one '7' line, seen from the entry's
   addenda list (the line is dropped when no case of the switch matches) *)
Definition keep_addenda (fv : flavor) (acc : list recordR) (l : bytes) : list recordR :=
  match fv_addenda fv l with
  | Some k => match read_rec T k l with Some a => attach (fv_slots fv) a acc | None => acc end
  | None => acc
  end.

(* the addenda records an entry holds after its '7' lines were read *)
Definition kept (fv : flavor) (ls : list bytes) : list recordR := fold_left (keep_addenda fv) ls [].

Definition fl_of_kind (k : kind) : flavor :=
  match k with KStd => std_fl | KIAT => iat_fl | KADV => adv_fl end.

(* the batch kind as the typed reader decides it: parseBH on characters, then NewBatch on the
   parsed SEC code *)
Definition kindD (hl : bytes) : kind :=
  if iat_line hl then KIAT
  else if bytes_eqb (gets (parse L_BatchHeader hl) "StandardEntryClassCode") ADV_b then KADV
  else KStd.

Definition skelD_entry (k : kind) (e : entryS) : Arith.entry :=
  entry_of k (parse (entry_layout k) (e_rec e)) (Z.of_nat (List.length (kept (fl_of_kind k) (e_addenda e)))).

Definition skelD_batch (b : batchS) : Arith.batch :=
  let k := kindD (b_hdr b) in
  let h := parse (hdr_layout k) (b_hdr b) in
  mkbatch k (geti h "ServiceClassCode") (gets h "ODFIIdentification") (geti h "BatchNumber")
          (map (skelD_entry k) (b_entries b))
          (bctl_of (parse (bctl_layout k) (b_ctl b))).

Definition is_iatD (b : batchS) : bool := iat_line (b_hdr b).
Definition is_advD (b : batchS) : bool := match kindD (b_hdr b) with KADV => true | _ => false end.

Definition skelD (f : fileS) : Arith.file :=
  mkfile (map skelD_batch (filter (fun b => negb (is_iatD b)) (f_batches f)))
         (map skelD_batch (filter is_iatD (f_batches f)))
         (skel_fctl (existsb is_advD (f_batches f)) (f_ctl f)).

(* the two readers agree on the structured file: header detection on characters = on bytes,
   every '7' line of an entry is kept as one addenda record *)
Definition hdr_agreeb (b : batchS) : bool := Bool.eqb (iat_line (b_hdr b)) (TamperText.is_iat b).

Definition addenda_keptb (b : batchS) : bool :=
  forallb (fun e => List.length (kept (fl_of_kind (kind_of_hdr (b_hdr b))) (e_addenda e)) =? List.length (e_addenda e))
          (b_entries b).

Definition bridge_okb (f : fileS) : bool := forallb (fun b => hdr_agreeb b && addenda_keptb b) (f_batches f).

End Defs.

(* Reader.Read + File.Validate() accept the text as a complete file: the default reader returns
   a file, no batch was left open, File.Validate() finds nothing (Model/Arith.v validate_file on the
   projection).  [Some g] = accepted as g. *)
Definition accepts (LT : list layout) (RS : list (string * rules)) (AT : tables) (text : bytes) : option fileR :=
  match read_text_valid LT RS AT text with
  | Some (g, false) => if is_rok (validate_file AT (p_file g)) then Some g else None
  | _ => None
  end.

(* accept / reject code for the correspondence with the Go code: 0 = accepted,
   1 = Read fails, 2 = Read leaves a batch open, 3 = File.Validate() fails *)
Definition accept_code (LT : list layout) (RS : list (string * rules)) (AT : tables) (text : bytes) : nat :=
  match read_text_valid LT RS AT text with
  | None => 1
  | Some (_, true) => 2
  | Some (g, false) => if is_rok (validate_file AT (p_file g)) then 0 else 3
  end.

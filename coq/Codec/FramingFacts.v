(* Framing theorems: every physical layout of the same record sequence is cut
   into the same lines. Stated over character lists. *)
From ACH Require Import Framing.
From Coq Require Import Lia.
Open Scope N_scope.

Definition not_nl (c : char) : Prop := is_nl c = false.

(* a full record: 94 characters, none of them CR/LF *)
Definition full (rec : list char) : Prop := length rec = 94%nat /\ Forall not_nl rec.

Lemma frame_accumulate cs rest cur cnt n :
  Forall not_nl cs -> (cnt + length cs < 94)%nat ->
  frame (cs ++ rest) cur cnt n = frame rest (cur ++ concat cs) (cnt + length cs) n.
Proof.
  revert cur cnt. induction cs as [|c cs IH]; intros cur cnt Hnl Hlen.
  - cbn [app concat length]. now rewrite app_nil_r, Nat.add_0_r.
  - inversion Hnl as [|? ? Hc Hcs]; subst. cbn [app frame length concat] in *. rewrite Hc.
    destruct (Nat.ltb_spec (S cnt) 94) as [H|H]; [|lia].
    rewrite IH by (assumption || lia). rewrite <- app_assoc. f_equal. lia.
Qed.

(* a record of 94 characters is cut exactly at its last character *)
Lemma frame_full rec rest n : full rec ->
  frame (rec ++ rest) [] 0 n = emit (S n) (concat rec) (frame rest [] 0 (S n)).
Proof.
  intros [Hlen Hnl].
  destruct (exists_last (l := rec)) as (init & lastc & ->); [intros ->; discriminate|].
  rewrite app_length in Hlen. cbn in Hlen.
  apply Forall_app in Hnl as [Hinit Hlast]. inversion Hlast as [|? ? Hc _]; subst.
  rewrite <- app_assoc. rewrite frame_accumulate by (assumption || (cbn; lia)).
  cbn [app frame]. rewrite Hc. cbn [Nat.add].
  destruct (Nat.ltb_spec (S (length init)) 94) as [H|H]; [lia|].
  rewrite concat_app. cbn [concat]. now rewrite app_nil_r.
Qed.

(* separators between records: CR/LF characters and lines made of blanks only *)
Inductive junk_item := JNl (c : char) | JBlank (k : nat) (c : char).
Definition junk_chars (j : junk_item) : list char :=
  match j with
  | JNl c => [c]
  | JBlank k c => repeat [sp] k ++ [c]
  end.
Definition junk_ok (j : junk_item) : Prop :=
  match j with
  | JNl c => is_nl c = true
  | JBlank k c => is_nl c = true /\ (0 < k < 94)%nat
  end.

Lemma blank_spaces k : blank_line (concat (repeat [sp] k)) = true.
Proof.
  unfold blank_line, runes. induction k as [|k IH]; [reflexivity|].
  cbn [repeat concat app]. change ([sp] ++ concat (repeat [sp] k)) with (sp :: concat (repeat [sp] k)).
  cbn [chunks]. change (sp <? 128) with true. cbn iota. cbn [map fst forallb].
  change (space_rune sp) with true. exact IH.
Qed.

Lemma not_nl_sp : not_nl [sp].  Proof. reflexivity. Qed.

(* junk consumes line numbers but yields no line *)
Lemma frame_junk_item j rest n : junk_ok j ->
  exists n', frame (junk_chars j ++ rest) [] 0 n = frame rest [] 0 n'.
Proof.
  destruct j as [c|k c]; cbn [junk_ok junk_chars].
  - intros Hc. exists n. cbn [app frame]. now rewrite Hc.
  - intros [Hc Hk]. exists (S n). rewrite <- app_assoc.
    rewrite frame_accumulate; [|apply Forall_forall; intros x Hx; apply repeat_spec in Hx; subst; apply not_nl_sp|rewrite repeat_length; lia].
    cbn [app frame]. rewrite Hc, repeat_length. cbn [Nat.add].
    destruct (Nat.ltb_spec 0 k) as [_|H]; [|lia].
    unfold emit. cbn [app]. now rewrite blank_spaces.
Qed.

Lemma frame_junk js rest n : Forall junk_ok js ->
  exists n', frame (flat_map junk_chars js ++ rest) [] 0 n = frame rest [] 0 n'.
Proof.
  revert n. induction js as [|j js IH]; intros n H; [now exists n|].
  inversion H as [|? ? Hj Hjs]; subst. cbn [flat_map]. rewrite <- app_assoc.
  destruct (frame_junk_item j (flat_map junk_chars js ++ rest) n Hj) as [n1 ->]. now apply IH.
Qed.

(* a text: records, each followed by arbitrary junk (none = unbroken stream;
   LF; CR LF; CR; blank lines interleaved) *)
Definition layout_text (recs : list (list char * list junk_item)) : list char :=
  flat_map (fun p => fst p ++ flat_map junk_chars (snd p)) recs.

Definition rec_ok (p : list char * list junk_item) : Prop :=
  full (fst p) /\ blank_line (concat (fst p)) = false /\ Forall junk_ok (snd p).

Theorem frame_layout recs n : Forall rec_ok recs ->
  map snd (frame (layout_text recs) [] 0 n) = map (fun p => concat (fst p)) recs.
Proof.
  revert n. induction recs as [|[rec js] recs IH]; intros n H; [reflexivity|].
  inversion H as [|? ? [Hfull [Hnb Hj]] Hrest]; subst. cbn [fst snd] in *.
  unfold layout_text in *. cbn [flat_map fst snd]. rewrite <- app_assoc.
  rewrite frame_full by assumption. unfold emit. rewrite Hnb. cbn [map snd]. f_equal.
  destruct (frame_junk js (flat_map (fun p => fst p ++ flat_map junk_chars (snd p)) recs) (S n) Hj) as [n' ->].
  apply IH. assumption.
Qed.

(* leading junk before the first record (e.g. a file starting with blank lines) *)
Corollary frame_layout_lead js recs n : Forall junk_ok js -> Forall rec_ok recs ->
  map snd (frame (flat_map junk_chars js ++ layout_text recs) [] 0 n) = map (fun p => concat (fst p)) recs.
Proof.
  intros Hj Hr. destruct (frame_junk js (layout_text recs) n Hj) as [n' ->]. now apply frame_layout.
Qed.

(* hence two physical layouts of the same records are framed identically *)
Corollary frame_layout_indep recs1 recs2 n1 n2 :
  Forall rec_ok recs1 -> Forall rec_ok recs2 -> map fst recs1 = map fst recs2 ->
  map snd (frame (layout_text recs1) [] 0 n1) = map snd (frame (layout_text recs2) [] 0 n2).
Proof.
  intros H1 H2 E. rewrite !frame_layout by assumption.
  assert (M : forall recs : list (list char * list junk_item),
             map (fun p => concat (fst p)) recs = map (@concat N) (map fst recs)) by (intros; now rewrite map_map).
  now rewrite !M, E.
Qed.

(* trailing blanks trimmed: a short line (fewer than 94 characters) terminated
   by CR/LF is handed over as it is and padded by [norm_line] *)
Lemma frame_short pre c rest n :
  Forall not_nl pre -> (0 < length pre < 94)%nat -> is_nl c = true ->
  frame (pre ++ c :: rest) [] 0 n = emit (S n) (concat pre) (frame rest [] 0 (S n)).
Proof.
  intros Hnl Hlen Hc. rewrite frame_accumulate by (assumption || (cbn; lia)).
  cbn [app frame Nat.add]. rewrite Hc.
  destruct (Nat.ltb_spec 0 (length pre)) as [_|H]; [reflexivity|lia].
Qed.

(* padding restores an ASCII record whose trailing blanks were trimmed *)
Lemma ascii_chunks s : forallb (fun b => b <? 128) s = true -> chunks s = map (fun b => (b, [b])) s.
Proof.
  induction s as [|b s IH]; intros H; [reflexivity|]. cbn [forallb] in H. apply andb_prop in H as [Hb Hs].
  cbn [chunks map]. rewrite Hb. now rewrite IH.
Qed.

Lemma ascii_rune_count s : forallb (fun b => b <? 128) s = true -> rune_count s = length s.
Proof. intros H. unfold rune_count. now rewrite ascii_chunks, map_length. Qed.

Theorem norm_line_trimmed s k :
  forallb (fun b => b <? 128) s = true -> length s = 94%nat ->
  skipn (94 - k) s = repeat sp k -> (0 < k <= 94)%nat ->
  norm_line (firstn (94 - k) s) = NLine s.
Proof.
  intros Hs Hlen Htail Hk. unfold norm_line.
  assert (Hf : forallb (fun b => b <? 128) (firstn (94 - k) s) = true).
  { rewrite forallb_forall in *. intros x Hx. apply Hs. rewrite <- (firstn_skipn (94 - k) s). apply in_or_app. now left. }
  rewrite ascii_rune_count by assumption. rewrite firstn_length, Hlen.
  replace (Nat.min (94 - k) 94) with (94 - k)%nat by lia.
  destruct (Nat.eqb_spec (94 - k) 94) as [E|E]; [lia|].
  destruct (Nat.ltb_spec 94 (94 - k)) as [E2|E2]; [lia|].
  replace (94 - (94 - k))%nat with k by lia. rewrite <- Htail. now rewrite firstn_skipn.
Qed.

(* Facts about the field converters: widths, well-formedness, TrimSpace,
   and the re-render fixed points.  Numeric facts are in NumFacts.v. *)
From Coq Require Import Lia.
From ACH Require Export Utf8Enc RuneDefs RuneFacts NumFacts.
Open Scope N_scope.

Definition valid (rs : list N) : bool := forallb validb rs.

(* ---------- valid rune lists ---------- *)

Lemma valid_app a b : valid (a ++ b) = valid a && valid b.
Proof. apply forallb_app. Qed.

Lemma valid_firstn n rs : valid rs = true -> valid (firstn n rs) = true.
Proof. apply forallb_firstn. Qed.

Lemma valid_repeat r k : validb r = true -> valid (repeat r k) = true.
Proof. apply forallb_repeat. Qed.

Lemma valid_pad_alpha rs w : valid rs = true -> valid (pad_alpha rs w) = true.
Proof.
  intros H. unfold pad_alpha. destruct (w <? length rs)%nat; [now apply valid_firstn|].
  rewrite valid_app, H. cbn [andb]. now apply valid_repeat.
Qed.

Lemma valid_pad_str rs w : valid rs = true -> valid (pad_str rs w) = true.
Proof.
  intros H. unfold pad_str. destruct (w <? length rs)%nat; [now apply valid_firstn|].
  rewrite valid_app, H, andb_true_r. now apply valid_repeat.
Qed.

Lemma valid_trim_runes rs : valid rs = true -> valid (trim_runes rs) = true.
Proof.
  intros H. destruct (trim_runes_decomp rs) as (A & B & E & _). rewrite E in H.
  rewrite !valid_app in H. apply andb_prop in H as [_ H]. now apply andb_prop in H as [H _].
Qed.

Lemma encode_blanks k : encode (repeat 32 k) = spaces k.
Proof.
  unfold spaces, sp. apply encode_ascii. unfold asciib. now apply forallb_repeat.
Qed.

Lemma encode_zeros k : encode (repeat 48 k) = zeros k.
Proof.
  unfold zeros, zero. apply encode_ascii. unfold asciib. now apply forallb_repeat.
Qed.

Lemma ascii_spaces k : asciib (spaces k) = true.
Proof. unfold asciib, spaces, sp. now apply forallb_repeat. Qed.

Lemma ascii_zeros k : asciib (zeros k) = true.
Proof. unfold asciib, zeros, zero. now apply forallb_repeat. Qed.

Lemma rune_count_spaces k : rune_count (spaces k) = k.
Proof. rewrite rune_count_ascii by apply ascii_spaces. apply repeat_length. Qed.

Lemma rune_count_zeros k : rune_count (zeros k) = k.
Proof. rewrite rune_count_ascii by apply ascii_zeros. apply repeat_length. Qed.

(* ---------- the converters on encoded rune lists ---------- *)

Lemma alphaField_encode rs w : valid rs = true -> alphaField (encode rs) w = encode (pad_alpha rs w).
Proof.
  intros H. unfold alphaField, pad_alpha, rune_prefix.
  rewrite rune_count_encode, (runes_encode_valid rs H).
  destruct (w <? length rs)%nat; [reflexivity|]. now rewrite encode_app, encode_blanks.
Qed.

Lemma stringField_encode rs w : valid rs = true -> stringField (encode rs) w = encode (pad_str rs w).
Proof.
  intros H. unfold stringField, pad_str, rune_prefix.
  rewrite rune_count_encode, (runes_encode_valid rs H).
  destruct (w <? length rs)%nat; [reflexivity|]. now rewrite encode_app, encode_zeros.
Qed.

Lemma drop_space_map rs :
  drop_space (map (fun r => (r, encode_rune r)) rs) = map (fun r => (r, encode_rune r)) (dropsp rs).
Proof.
  induction rs as [|r rs IH]; [reflexivity|]. cbn [map drop_space dropsp].
  destruct (is_space r); [exact IH|reflexivity].
Qed.

Lemma concat_snd_map rs : concat (map snd (map (fun r => (r, encode_rune r)) rs)) = encode rs.
Proof.
  rewrite map_map. cbn [snd]. unfold encode. symmetry. apply flat_map_concat_map.
Qed.

Lemma chunks_encode_valid rs : valid rs = true -> chunks (encode rs) = map (fun r => (r, encode_rune r)) rs.
Proof.
  intros H. rewrite (chunks_wf _ (wf_encode rs)). now rewrite (runes_encode_valid rs H).
Qed.

Lemma trim_encode rs : valid rs = true -> trim (encode rs) = encode (trim_runes rs).
Proof.
  intros H. unfold trim, trim_runes. rewrite (chunks_encode_valid rs H).
  rewrite drop_space_map, <- map_rev, drop_space_map, <- map_rev. apply concat_snd_map.
Qed.

(* a well-formed string is the encoding of its (valid) runes *)
Lemma wf_view s : wf_utf8 s = true -> exists rs, valid rs = true /\ s = encode rs /\ runes s = rs.
Proof. apply wf_decompose. Qed.

(* ---------- widths and well-formedness ---------- *)

Lemma rune_count_rune_prefix w s : (w <= rune_count s)%nat -> rune_count (rune_prefix w s) = w.
Proof.
  intros H. unfold rune_prefix. rewrite rune_count_encode, firstn_length.
  unfold rune_count in H. unfold runes. rewrite map_length. lia.
Qed.

Lemma wf_rune_prefix w s : wf_utf8 (rune_prefix w s) = true.
Proof. apply wf_encode. Qed.

(* for ARBITRARY byte strings (the decoder resynchronises on ASCII) *)
Lemma rune_count_alphaField_any s w : rune_count (alphaField s w) = w.
Proof.
  unfold alphaField. destruct (w <? rune_count s)%nat eqn:E.
  - apply Nat.ltb_lt in E. apply rune_count_rune_prefix. lia.
  - apply Nat.ltb_ge in E. unfold rune_count at 1.
    rewrite (chunks_app_ascii_r s _ (ascii_spaces _)), app_length.
    fold (rune_count s). fold (rune_count (spaces (w - rune_count s))). rewrite rune_count_spaces. lia.
Qed.

Lemma rune_count_stringField_any s w : rune_count (stringField s w) = w.
Proof.
  unfold stringField. destruct (w <? rune_count s)%nat eqn:E.
  - apply Nat.ltb_lt in E. apply rune_count_rune_prefix. lia.
  - apply Nat.ltb_ge in E.
    rewrite (rune_count_app_wf _ s (wf_ascii _ (ascii_zeros _))), rune_count_zeros. lia.
Qed.

Lemma rune_count_alphaField s w : wf_utf8 s = true -> rune_count (alphaField s w) = w.
Proof. intros _. apply rune_count_alphaField_any. Qed.

Lemma rune_count_stringField s w : wf_utf8 s = true -> rune_count (stringField s w) = w.
Proof. intros _. apply rune_count_stringField_any. Qed.

Lemma wf_alphaField s w : wf_utf8 s = true -> wf_utf8 (alphaField s w) = true.
Proof.
  intros H. unfold alphaField. destruct (w <? rune_count s)%nat; [apply wf_rune_prefix|].
  apply wf_app; [assumption|apply wf_ascii, ascii_spaces].
Qed.

Lemma wf_stringField s w : wf_utf8 s = true -> wf_utf8 (stringField s w) = true.
Proof.
  intros H. unfold stringField. destruct (w <? rune_count s)%nat; [apply wf_rune_prefix|].
  apply wf_app; [apply wf_ascii, ascii_zeros|assumption].
Qed.

(* the truncating branch re-encodes: well formed whatever the input *)
Lemma wf_alphaField_trunc s w : (w < rune_count s)%nat -> wf_utf8 (alphaField s w) = true.
Proof. intros H. unfold alphaField. apply Nat.ltb_lt in H. rewrite H. apply wf_rune_prefix. Qed.

Lemma wf_stringField_trunc s w : (w < rune_count s)%nat -> wf_utf8 (stringField s w) = true.
Proof. intros H. unfold stringField. apply Nat.ltb_lt in H. rewrite H. apply wf_rune_prefix. Qed.

(* numeric fields *)
Lemma rune_count_numericField z w : rune_count (numericField z w) = w.
Proof. rewrite rune_count_ascii by apply numericField_ascii. apply numericField_length. Qed.

Lemma wf_numericField z w : wf_utf8 (numericField z w) = true.
Proof. apply wf_ascii, numericField_ascii. Qed.

Lemma wf_itoa z : wf_utf8 (itoa z) = true.
Proof. apply wf_ascii, itoa_ascii. Qed.

Lemma rune_count_itoa z : rune_count (itoa z) = length (itoa z).
Proof. apply rune_count_ascii, itoa_ascii. Qed.

(* ---------- TrimSpace ---------- *)

Lemma trim_app_spaces s k : wf_utf8 s = true -> trim (s ++ spaces k) = trim s.
Proof.
  intros H. destruct (wf_view s H) as (rs & Hv & -> & _).
  rewrite <- encode_blanks, <- encode_app.
  rewrite trim_encode by (rewrite valid_app, Hv; now apply valid_repeat).
  rewrite trim_encode by assumption. now rewrite trim_runes_app_blank.
Qed.

Lemma trim_idem s : wf_utf8 s = true -> trim (trim s) = trim s.
Proof.
  intros H. destruct (wf_view s H) as (rs & Hv & -> & _).
  rewrite !trim_encode; auto using valid_trim_runes. now rewrite trim_runes_idem.
Qed.

Lemma wf_trim s : wf_utf8 s = true -> wf_utf8 (trim s) = true.
Proof.
  intros H. destruct (wf_view s H) as (rs & Hv & -> & _). rewrite trim_encode by assumption. apply wf_encode.
Qed.

(* first and last rune not white space (or empty) *)
Lemma trim_id s : wf_utf8 s = true -> ends_ok s = true -> trim s = s.
Proof.
  intros H He. unfold ends_ok in He. destruct (wf_view s H) as (rs & Hv & -> & Er).
  rewrite Er in He. rewrite trim_encode by assumption. now rewrite trim_runes_id.
Qed.

Lemma ends_ok_trim s : wf_utf8 s = true -> ends_ok (trim s) = true.
Proof.
  intros H. destruct (wf_view s H) as (rs & Hv & -> & _). rewrite trim_encode by assumption.
  unfold ends_ok. rewrite runes_encode_valid by now apply valid_trim_runes.
  now destruct (trim_runes_decomp rs) as (A & B & _ & _ & _ & Ht).
Qed.

Lemma rune_count_trim_le s : wf_utf8 s = true -> (rune_count (trim s) <= rune_count s)%nat.
Proof.
  intros H. destruct (wf_view s H) as (rs & Hv & -> & _). rewrite trim_encode by assumption.
  rewrite !rune_count_encode. apply trim_runes_length.
Qed.

(* ---------- re-render fixed points ---------- *)

Lemma alphaField_exact t w : wf_utf8 t = true -> rune_count t = w -> alphaField t w = t.
Proof.
  intros H Hw. unfold alphaField. rewrite Hw, Nat.ltb_irrefl, Nat.sub_diag. apply app_nil_r.
Qed.

Lemma stringField_exact t w : rune_count t = w -> stringField t w = t.
Proof.
  intros Hw. unfold stringField. rewrite Hw, Nat.ltb_irrefl, Nat.sub_diag. reflexivity.
Qed.

Lemma alphaField_idem s w : wf_utf8 s = true -> alphaField (alphaField s w) w = alphaField s w.
Proof. intros H. apply alphaField_exact; [now apply wf_alphaField|apply rune_count_alphaField_any]. Qed.

(* holds for arbitrary s *)
Lemma stringField_idem s w : stringField (stringField s w) w = stringField s w.
Proof. apply stringField_exact, rune_count_stringField_any. Qed.

Lemma alphaField_idem_any s w : alphaField (alphaField s w) w = alphaField s w.
Proof.
  unfold alphaField at 1. rewrite rune_count_alphaField_any, Nat.ltb_irrefl, Nat.sub_diag. apply app_nil_r.
Qed.

Lemma alphaField_trim_fixed s w :
  wf_utf8 s = true -> plain_left s = true -> alphaField (trim (alphaField s w)) w = alphaField s w.
Proof.
  intros H Hp. unfold plain_left in Hp. destruct (wf_view s H) as (rs & Hv & -> & Er). rewrite Er in Hp.
  rewrite (alphaField_encode rs w Hv).
  rewrite trim_encode by now apply valid_pad_alpha.
  rewrite alphaField_encode by now apply valid_trim_runes, valid_pad_alpha.
  now rewrite pad_alpha_trim.
Qed.

(* text of exactly w runes: trimming and padding again gives the text back when it is plain *)
Lemma alphaField_trim_exact t w :
  wf_utf8 t = true -> rune_count t = w -> plain_left t = true -> alphaField (trim t) w = t.
Proof.
  intros H Hw Hp. unfold plain_left in Hp. destruct (wf_view t H) as (rs & Hv & -> & Er). rewrite Er in Hp.
  rewrite rune_count_encode in Hw.
  rewrite trim_encode by assumption. rewrite alphaField_encode by now apply valid_trim_runes.
  now rewrite pad_alpha_trim_exact.
Qed.

Lemma stringField_trim_exact t w :
  wf_utf8 t = true -> rune_count t = w -> ends_ok t = true -> stringField (trim t) w = t.
Proof.
  intros H Hw He. rewrite trim_id by assumption. now apply stringField_exact.
Qed.

Lemma stringField_trim_fixed s w :
  wf_utf8 s = true -> ends_ok (stringField s w) = true ->
  stringField (trim (stringField s w)) w = stringField s w.
Proof.
  intros H He. apply stringField_trim_exact; auto using wf_stringField, rune_count_stringField_any.
Qed.

(* the hypothesis of alphaField_trim_fixed cannot be dropped *)
Example alphaField_trim_refuted_leading :
  alphaField (trim (alphaField [32; 65] 3)) 3 <> alphaField [32; 65] 3.
Proof. vm_compute. discriminate. Qed.
Example alphaField_trim_refuted_tab :
  alphaField (trim (alphaField [65; 9; 66] 2)) 2 <> alphaField [65; 9; 66] 2.
Proof. vm_compute. discriminate. Qed.
Example stringField_trim_refuted :
  stringField (trim (stringField [49; 32] 3)) 3 <> stringField [49; 32] 3.
Proof. vm_compute. discriminate. Qed.
Example plain_left_example : plain_left [74; 111; 104; 110; 32; 68; 111; 101; 32; 32] = true.
Proof. reflexivity. Qed.

(* Model of Reader.Read's line framing (reader.go): the scanner yields one
   character (its UTF-8 bytes) at a time; a record is cut at CR, LF or after 94
   characters; blank lines are skipped; short lines are right-padded.
   Definitions only. *)
From ACH Require Export Utf8.
Open Scope N_scope.

Definition char := bytes.                 (* one decoded character, as its bytes *)
Definition LF : char := [10].
Definition CR : char := [13].
Definition is_nl (c : char) : bool := bytes_eqb c LF || bytes_eqb c CR.

(* unicode.IsSpace on the decoded rune of a character *)
Definition space_rune (r : N) : bool :=
  ((9 <=? r) && (r <=? 13)) || (r =? 32) || (r =? 133) || (r =? 160) || (r =? 5760)
  || ((8192 <=? r) && (r <=? 8202)) || (r =? 8232) || (r =? 8233) || (r =? 8239)
  || (r =? 8287) || (r =? 12288).
Definition blank_line (line : bytes) : bool := forallb space_rune (runes line).

(* the characters bufio.ScanRunes yields: an invalid byte becomes U+FFFD *)
Definition chars (s : bytes) : list char :=
  map (fun c : N * bytes => if (fst c =? rune_error) then [239; 191; 189] else snd c) (chunks s).

Definition emit (lineNum : nat) (cur : bytes) (rest : list (nat * bytes)) : list (nat * bytes) :=
  if blank_line cur then rest else (lineNum, cur) :: rest.

(* [frame cs cur cnt lineNum]: the (line number, text) pairs handed to readLine *)
Fixpoint frame (cs : list char) (cur : bytes) (cnt : nat) (lineNum : nat) : list (nat * bytes) :=
  match cs with
  | [] => if (0 <? cnt)%nat then [(lineNum, cur)] else []
  | c :: rest =>
      if is_nl c then
        if (0 <? cnt)%nat then emit (S lineNum) cur (frame rest [] 0 (S lineNum))
        else frame rest cur cnt lineNum
      else
        if (S cnt <? 94)%nat then frame rest (cur ++ c) (S cnt) lineNum
        else emit (S lineNum) (cur ++ c) (frame rest [] 0 (S lineNum))
  end.

(* readLine's normalisation of a line that is not 94 characters long (lines are
   never longer than 94 characters): right padding is computed in BYTES *)
Inductive norm := NLine (line : bytes) | NWrongLength.
Definition norm_line (line : bytes) : norm :=
  if (rune_count line =? 94)%nat then NLine line
  else if (94 <? length line)%nat then NWrongLength
  else NLine (line ++ repeat sp (94 - length line)).

Definition read_lines (text : bytes) : list norm := map (fun p => norm_line (snd p)) (frame (chars text) [] 0 0).

(* Bytes-level file round trip (C01): framing (Framing.v) composed with the
   typed reader (Dispatch.v).  For every separator junk between the written
   records — none, LF, CR LF, CR, blank lines, in any mixture, also in front of
   the first record — reading the text gives the file of [read_write_file]. *)
From Coq Require Import String List Lia Bool.
From ACH Require Import Dispatch LayoutFacts Utf8Facts Utf8Enc FramingFacts FramingBytes FileStructFacts DispatchFacts DispatchFixed.
Import ListNotations.
Local Open Scope nat_scope.
Local Open Scope list_scope.

(* a physical layout of the lines [map fst recs]: each line followed by its
   separator junk *)
Definition junk_bytes (js : list junk_item) : bytes := concat (flat_map junk_chars js).
Definition text_of (recs : list (bytes * list junk_item)) : bytes :=
  concat (map (fun p => fst p ++ junk_bytes (snd p)) recs).

(* ------------------------------------------------------------------ *)
(* separator junk is ASCII, one byte per character                       *)

Definition single_ascii (c : char) : Prop := exists b, c = [b] /\ (b <? 128)%N = true.

Lemma is_nl_single c : is_nl c = true -> single_ascii c.
Proof.
  unfold is_nl. intros H. apply orb_prop in H as [H|H]; apply bytes_eqb_eq in H; subst; eexists; split; reflexivity.
Qed.

Lemma junk_singles j : junk_ok j -> Forall single_ascii (junk_chars j).
Proof.
  destruct j as [c|k c]; cbn [junk_ok junk_chars].
  - intros H. constructor; [now apply is_nl_single|constructor].
  - intros [H _]. apply Forall_app. split.
    + apply Forall_forall. intros x Hx. apply repeat_spec in Hx. subst. exists sp. split; reflexivity.
    + constructor; [now apply is_nl_single|constructor].
Qed.

Lemma junks_singles js : Forall junk_ok js -> Forall single_ascii (flat_map junk_chars js).
Proof.
  induction js as [|j js IH]; intros H; [constructor|]. inversion H; subst. cbn [flat_map].
  apply Forall_app. split; [now apply junk_singles|now apply IH].
Qed.

Lemma singles_ascii cs : Forall single_ascii cs -> asciib (concat cs) = true.
Proof.
  induction cs as [|c cs IH]; intros H; [reflexivity|]. inversion H as [|? ? (b & -> & Hb) Hr]; subst.
  cbn [concat app]. unfold asciib in *. cbn [forallb]. rewrite Hb. now apply IH.
Qed.

Lemma chars_singles cs : Forall single_ascii cs -> chars (concat cs) = cs.
Proof.
  induction cs as [|c cs IH]; intros H; [reflexivity|]. inversion H as [|? ? (b & -> & Hb) Hr]; subst.
  cbn [concat]. rewrite chars_app_wf by (apply wf_ascii; unfold asciib; cbn [forallb]; now rewrite Hb).
  rewrite IH by assumption. unfold chars. cbn [chunks]. rewrite Hb. cbn [map fst snd app].
  destruct (N.eqb_spec b rune_error) as [E|E]; [|reflexivity]. subst. discriminate Hb.
Qed.

Lemma junk_bytes_chars js : Forall junk_ok js -> chars (junk_bytes js) = flat_map junk_chars js.
Proof. intros H. apply chars_singles. now apply junks_singles. Qed.

Lemma junk_bytes_wf js : Forall junk_ok js -> wf_utf8 (junk_bytes js) = true.
Proof. intros H. apply wf_ascii, singles_ascii. now apply junks_singles. Qed.

(* ------------------------------------------------------------------ *)
(* the characters of a physical layout                                   *)

Definition line_ok (l : bytes) : Prop := wf_utf8 l = true /\ rune_count l = 94 /\ no_nl l = true /\ blank_line l = false.

Lemma chars_text_of recs :
  Forall (fun p => wf_utf8 (fst p) = true /\ Forall junk_ok (snd p)) recs ->
  chars (text_of recs) = layout_text (map (fun p => (chars (fst p), snd p)) recs).
Proof.
  induction recs as [|[l js] recs IH]; intros H; [reflexivity|]. inversion H as [|? ? [Hw Hj] Hr]; subst.
  cbn [fst snd] in *. unfold text_of, layout_text in *. cbn [map concat flat_map fst snd].
  rewrite <- !app_assoc. rewrite (chars_app_wf l _ Hw).
  rewrite (chars_app_wf (junk_bytes js) _ (junk_bytes_wf js Hj)), (junk_bytes_chars js Hj).
  now rewrite IH.
Qed.

Lemma no_nl_chars l : wf_utf8 l = true -> no_nl l = true -> Forall not_nl (chars l).
Proof.
  intros Hw Hn. apply Forall_forall. intros c Hc. unfold not_nl.
  destruct (is_nl c) eqn:E; [|reflexivity]. exfalso.
  assert (Hin : forall b, In b c -> In b l).
  { intros b Hb. rewrite <- (chars_wf_concat l Hw). apply in_concat. now exists c. }
  unfold no_nl in Hn. rewrite forallb_forall in Hn.
  unfold is_nl in E. apply orb_prop in E as [E|E]; apply bytes_eqb_eq in E; subst c.
  - specialize (Hn 10%N (Hin 10%N (or_introl eq_refl))). discriminate Hn.
  - specialize (Hn 13%N (Hin 13%N (or_introl eq_refl))). cbn in Hn. discriminate Hn.
Qed.

Lemma rec_ok_of_line l js : line_ok l -> Forall junk_ok js -> rec_ok (chars l, js).
Proof.
  intros (Hw & H94 & Hn & Hb) Hj. unfold rec_ok. cbn [fst snd]. split; [|split; [|exact Hj]].
  - split; [now rewrite chars_length|now apply no_nl_chars].
  - now rewrite (chars_wf_concat l Hw).
Qed.

(* framing a physical layout of well-formed lines gives the lines back *)
Theorem read_lines_text_of j0 recs :
  Forall junk_ok j0 -> Forall (fun p => line_ok (fst p) /\ Forall junk_ok (snd p)) recs ->
  read_lines (junk_bytes j0 ++ text_of recs) = map (fun p => NLine (fst p)) recs.
Proof.
  intros H0 H. unfold read_lines.
  rewrite (chars_app_wf _ _ (junk_bytes_wf j0 H0)), (junk_bytes_chars j0 H0).
  rewrite chars_text_of.
  2:{ apply Forall_forall. intros p Hp. rewrite Forall_forall in H. destruct (H p Hp) as [(Hw & _) Hj]. now split. }
  rewrite <- (map_map snd norm_line).
  rewrite frame_layout_lead; [|exact H0|].
  2:{ apply Forall_forall. intros q Hq. apply in_map_iff in Hq as (p & <- & Hp). rewrite Forall_forall in H.
      destruct (H p Hp) as [Hl Hj]. now apply rec_ok_of_line. }
  rewrite !map_map. apply map_ext_in. intros p Hp. cbn [fst]. rewrite Forall_forall in H.
  destruct (H p Hp) as [(Hw & H94 & _) _]. rewrite (chars_wf_concat _ Hw). unfold norm_line. now rewrite H94.
Qed.

Lemma norm_lines_NLine (ls : list bytes) : norm_lines (map NLine ls) = Some ls.
Proof. induction ls as [|l ls IH]; [reflexivity|]. cbn [map norm_lines]. now rewrite IH. Qed.

(* ------------------------------------------------------------------ *)
(* every line the typed reader accepts has 94 characters and a record type *)

Definition typed_line (l : bytes) : Prop :=
  rune_count l = 94 /\ (rtype l = T1 \/ rtype l = T5 \/ rtype l = T6 \/ rtype l = T7 \/ rtype l = T8 \/ rtype l = T9).

Lemma dstep_some_typed T st l s' : dstep T st l = Some s' -> typed_line l.
Proof.
  unfold dstep. destruct st as [s|]; [|discriminate].
  destruct (Nat.eqb_spec (rune_count l) 94) as [E|E]; [|discriminate]. cbn [negb]. intros H. split; [exact E|].
  destruct (N.eqb_spec (rtype l) T1); [tauto|]. destruct (N.eqb_spec (rtype l) T5); [tauto|].
  destruct (N.eqb_spec (rtype l) T6); [tauto|]. destruct (N.eqb_spec (rtype l) T7); [tauto|].
  destruct (N.eqb_spec (rtype l) T8); [tauto|]. destruct (N.eqb_spec (rtype l) T9); [tauto|]. discriminate H.
Qed.

Lemma fold_some_typed T ls : forall st s', fold_left (dstep T) ls st = Some s' -> Forall typed_line ls.
Proof.
  induction ls as [|l ls IH]; intros st s' H; [constructor|]. cbn [fold_left] in H.
  destruct (dstep T st l) as [s1|] eqn:E; [|now rewrite dstep_none in H].
  constructor; [now apply (dstep_some_typed T st l s1)|now apply (IH (Some s1) s')].
Qed.

Lemma read_file_typed T ls f : read_file T ls = Some f -> Forall typed_line ls.
Proof.
  unfold read_file. destruct (fold_left (dstep T) ls (Some (d_init))) as [s|] eqn:E; [|discriminate].
  intros _. exact (fold_some_typed T ls _ s E).
Qed.

(* a line starting with a record type digit is not blank *)
Lemma typed_not_blank l : typed_line l -> blank_line l = false.
Proof.
  intros [_ Ht]. destruct l as [|b l]; [cbn in Ht; repeat destruct Ht as [Ht|Ht]; discriminate Ht|].
  unfold rtype in Ht. cbn [hd] in Ht. unfold blank_line, runes.
  repeat destruct Ht as [Ht|Ht]; subst b; reflexivity.
Qed.

(* ------------------------------------------------------------------ *)
(* the written lines are well-formed records                             *)

Section Bytes.
Variable T : list layout.
Hypothesis T_ok : forallb layout_ok T = true.

Definition rec_wfb (x : recordR) : bool := wf_utf8 (render_rec T x).
Definition rec_no_nl (x : recordR) : bool := no_nl (render_rec T x).

Lemma fits_wf x : rec_fitsb T x = true -> rec_wfb x = true.
Proof.
  unfold rec_fitsb, rec_wfb, render_rec. destruct (layout_of T (r_kind x)) as [L|] eqn:E; [|discriminate].
  intros H. apply render_wf; [now apply (layout_of_ok T T_ok (r_kind x))|assumption].
Qed.

(* a property of every record = the property of every written line *)
Lemma all_entry_lines (P : bytes -> bool) e : all_entry (fun x => P (render_rec T x)) e = true ->
  forallb P (entry_lines (entry_S T e)) = true.
Proof.
  unfold all_entry, entry_lines, entry_S. cbn [e_rec e_addenda forallb]. intros A. apply andb_prop in A as [A1 A2].
  rewrite A1. cbn [andb]. rewrite forallb_forall in *. intros l Hl. apply in_map_iff in Hl as (a & <- & Ha). now apply A2.
Qed.

Lemma all_entries_lines (P : bytes -> bool) es : forallb (all_entry (fun x => P (render_rec T x))) es = true ->
  forallb P (flat_map entry_lines (map (entry_S T) es)) = true.
Proof.
  induction es as [|e es IH]; intros A; [reflexivity|]. cbn [forallb] in A. apply andb_prop in A as [A1 A2].
  cbn [map flat_map]. rewrite forallb_app, (all_entry_lines P e A1). now apply IH.
Qed.

Lemma all_std_batch_lines (P : bytes -> bool) adv b : all_batch (fun x => P (render_rec T x)) b = true ->
  forallb P (batch_lines (std_batch_S T adv b)) = true.
Proof.
  unfold all_batch, batch_lines, std_batch_S. cbn [b_hdr b_entries b_ctl]. intros A.
  apply andb_prop in A as [A A3]. apply andb_prop in A as [A1 A2]. cbn [forallb]. rewrite A1. cbn [andb].
  rewrite forallb_app. cbn [forallb]. rewrite A3, andb_true_r.
  destruct (Bool.eqb (is_adv (bt_hdr b)) adv); [now apply all_entries_lines|reflexivity].
Qed.

Lemma all_iat_batch_lines (P : bytes -> bool) b : all_batch (fun x => P (render_rec T x)) b = true ->
  forallb P (batch_lines (iat_batch_S T b)) = true.
Proof.
  unfold all_batch, batch_lines, iat_batch_S. cbn [b_hdr b_entries b_ctl]. intros A.
  apply andb_prop in A as [A A3]. apply andb_prop in A as [A1 A2]. cbn [forallb]. rewrite A1. cbn [andb].
  rewrite forallb_app. cbn [forallb]. rewrite A3, andb_true_r. now apply all_entries_lines.
Qed.

Lemma all_file_lines (P : bytes -> bool) f : all_file (fun x => P (render_rec T x)) f = true ->
  forallb P (write_file T f) = true.
Proof.
  unfold all_file, write_file, record_lines, struct_of. cbn [f_hdr f_batches f_ctl]. intros A.
  apply andb_prop in A as [A A4]. apply andb_prop in A as [A A3]. apply andb_prop in A as [A1 A2].
  cbn [forallb]. rewrite A1. cbn [andb]. rewrite forallb_app. cbn [forallb]. rewrite A4, andb_true_r.
  rewrite flat_map_app, forallb_app. apply andb_true_intro. split.
  - clear A3. generalize (any_adv (fl_batches f)) as adv. intros adv.
    induction (fl_batches f) as [|b bs IH] in A2 |- *; [reflexivity|]. cbn [forallb] in A2.
    apply andb_prop in A2 as [B1 B2]. cbn [map flat_map]. rewrite forallb_app, (all_std_batch_lines P adv b B1). now apply IH.
  - clear A2. induction (fl_iat f) as [|b bs IH] in A3 |- *; [reflexivity|]. cbn [forallb] in A3.
    apply andb_prop in A3 as [B1 B2]. cbn [map flat_map]. rewrite forallb_app, (all_iat_batch_lines P b B1). now apply IH.
Qed.

Lemma nines_line_ok : wf_utf8 nines = true /\ no_nl nines = true.
Proof. split; vm_compute; reflexivity. Qed.

(* the bytes-level round trip: any separator junk, any number of filler records *)
Theorem read_text_written f k j0 recs :
  all_file (rec_fitsb T) f = true -> dispatchb T f = true -> all_file rec_no_nl f = true ->
  map fst recs = write_file T f ++ repeat nines k ->
  Forall junk_ok j0 -> Forall (fun p => Forall junk_ok (snd p)) recs ->
  read_text T (junk_bytes j0 ++ text_of recs) = Some (parsed_file T f).
Proof.
  intros Hfit Hd Hnl Hrecs Hj0 Hj.
  pose proof (read_write_file T T_ok f k Hfit Hd) as Hread.
  pose proof (read_file_typed T _ _ Hread) as Htyped.
  assert (Hwf : forallb wf_utf8 (write_file T f ++ repeat nines k) = true).
  { rewrite forallb_app. apply andb_true_intro. split.
    - apply all_file_lines. now apply (all_file_impl (rec_fitsb T)); [exact fits_wf|].
    - apply forallb_forall. intros x Hx. apply repeat_spec in Hx. subst. apply nines_line_ok. }
  assert (Hno : forallb no_nl (write_file T f ++ repeat nines k) = true).
  { rewrite forallb_app. apply andb_true_intro. split.
    - now apply all_file_lines.
    - apply forallb_forall. intros x Hx. apply repeat_spec in Hx. subst. apply nines_line_ok. }
  unfold read_text. rewrite read_lines_text_of; [|exact Hj0|].
  - rewrite <- (map_map fst NLine), Hrecs, norm_lines_NLine. exact Hread.
  - apply Forall_forall. intros p Hp. split; [|rewrite Forall_forall in Hj; now apply Hj].
    assert (Hin : In (fst p) (write_file T f ++ repeat nines k)) by (rewrite <- Hrecs; now apply in_map).
    rewrite forallb_forall in Hwf, Hno. rewrite Forall_forall in Htyped. specialize (Htyped _ Hin).
    unfold line_ok. repeat split; auto; [apply Htyped|now apply typed_not_blank].
Qed.

End Bytes.

(* The DEFAULT reader: Reader.Read with validation (C01 / C04, phase 3).

   Codec/Dispatch.v models Reader.Read under ValidateOpts{SkipAll: true}: the record
   dispatch of reader.go without `maybeValidate`.  This file adds what the default
   reader does on top of it, by composing three existing models:

     Dispatch      the typed reader state machine (which record type a line is parsed
                   as, where it is attached)
     RecValid      `rec_validb`: the reject conditions of the 26 `Validate()` methods,
                   regenerated into Gen/RecRules.v  (maybeValidate on every parsed record)
     Arith         `validate_batch`: Batch.verify / Batch<SEC>.Validate / IATBatch.Validate /
                   BatchADV.Validate on the integrity protected fields  (maybeValidate on
                   every batch closed by its control record, reader.go parseLine case '8')

   Where reader.go validates (the regenerated list is Gen/ReaderValidSites.v, compared with
   [validate_sites] below in Oblig/C01ValidObl.v):
     parseFileHeader                       the file header, after Parse
     parseBatchHeader / parseIATBatchHeader the batch header, before NewBatch / NewIATBatch
     parseEntryDetail / parseIATEntryDetail the entry, before AddEntry / AddADVEntry
     parseAddenda / parseADVAddenda / mandatoryOptionalIATAddenda / nocIATAddenda /
     returnIATAddenda                      every addenda record, before it is attached
     parseBatchControl                     the batch control record
     parseLine, case '8'                   the whole batch, after it was added to the file
     parseFileControl                      the file control record
   Reader.Read does NOT call File.Validate: the file level arithmetic (batch count, file
   totals, file hash) is not checked by Read.  [read_then_validate] is Read followed by
   File.Validate(), the combination C04 is about.

   Errors are accumulated by Reader.Read (r.errors) and the loop goes on, but the list is
   never emptied: Read returns an error iff some line produced one.  Only accept / reject and
   the returned file are modelled, so the machine stops at the first error ([None]).

   Two machines, generic in the record check [ok] and the batch check [bok]:
     h_read_file   the Dispatch machine with the checks; like [read_file] it answers [None]
                   on inputs that leave the tree's shape (a batch without control record)
     g_read_file   the same, plus what Go does there: a batch whose header is followed by
                   entries and then by another batch header (or by the end of the input) is
                   added to the file WITHOUT control record and WITHOUT batch validation, an
                   unfinished IAT batch is dropped at the end of the input.  The result
                   carries a flag that says whether this happened ([true] = the file
                   contains a batch that was never closed / lost an IAT batch).

   Definitions only (everything here is extracted for the correspondence with
   ach.NewReader(...).Read()). *)
From Coq Require Import String.
From ACH Require Import Arith.
From ACH Require Export Dispatch RecValid.
Local Open Scope string_scope.
Local Open Scope nat_scope.

(* ------------------------------------------------------------------ *)
(* projection of the typed tree to the arithmetic skeleton of Model/Arith.v *)

Definition p_entry (k : kind) (e : entryR) : Arith.entry :=
  let r := r_val (en_rec e) in
  mkentry (geti r "TransactionCode") (geti r "Amount") (gets r "RDFIIdentification") (gets r "CheckDigit")
          (match k with KADV => [] | _ => gets r "TraceNumber" end)
          (Z.of_nat (List.length (en_addenda e))).

Definition p_bctl (c : recordR) : bctl :=
  let r := r_val c in
  mkbctl (geti r "ServiceClassCode") (geti r "EntryAddendaCount") (geti r "EntryHash")
         (geti r "TotalDebitEntryDollarAmount") (geti r "TotalCreditEntryDollarAmount")
         (gets r "ODFIIdentification") (geti r "BatchNumber").

Definition p_fctl (c : recordR) : fctl :=
  let r := r_val c in
  mkfctl (geti r "BatchCount") (geti r "EntryAddendaCount") (geti r "EntryHash")
         (geti r "TotalDebitEntryDollarAmountInFile") (geti r "TotalCreditEntryDollarAmountInFile").

Definition p_batch (k : kind) (b : batchR) : Arith.batch :=
  let h := r_val (bt_hdr b) in
  mkbatch k (geti h "ServiceClassCode") (gets h "ODFIIdentification") (geti h "BatchNumber")
          (map (p_entry k) (bt_entries b)) (p_bctl (bt_ctl b)).

(* NewBatch(bh): SEC code ADV gives a BatchADV *)
Definition std_kind (h : recordR) : kind := if is_adv h then KADV else KStd.

Definition p_file (f : fileR) : Arith.file :=
  mkfile (map (fun b => p_batch (std_kind (bt_hdr b)) b) (fl_batches f))
         (map (p_batch KIAT) (fl_iat f))
         (p_fctl (fl_ctl f)).

(* ------------------------------------------------------------------ *)
(* the checks                                                           *)

Definition rules_for (RS : list (string * rules)) (k : string) : rules :=
  match assoc k RS with Some R => R | None => [] end.

(* x.Validate() of a record (default ValidateOpts), as far as the regenerated rules know *)
Definition rec_passb (RS : list (string * rules)) (x : recordR) : bool :=
  rec_validb (rules_for RS (r_kind x)) (r_val x).

Definition is_rok (r : rule) : bool := match r with ROk => true | _ => false end.

(* batch.Validate() of a closed batch, as far as Model/Arith.v knows *)
Definition batch_okb (AT : tables) (k : kind) (b : batchR) : bool := is_rok (validate_batch AT (p_batch k b)).

(* WHERE reader.go validates: for every method of Reader, in source order, the events
     P:<x>   x.Parse(r.line)
     V:<x>   if err := maybeValidate(x, r.File.validateOpts); err != nil { return … }
   (regenerated into Gen/ReaderValidSites.v; a maybeValidate call of any other shape is emitted as
   V?:<x>, a direct Validate() call as D:<x>).  Every record is validated right after it was parsed
   and before it is attached ([h_read_rec] below); the closed batch is validated in parseLine, after
   it was added to the file ([h_ctx_close]); Read itself validates nothing: File.Validate() is left
   to the caller. *)
Definition validate_events : list (string * list string) :=
  [ ("Read", [])
  ; ("parseLine", ["V:batch"; "V:&batch"])
  ; ("parseFileHeader", ["P:r.File.Header"; "V:&r.File.Header"])
  ; ("parseBatchHeader", ["P:bh"; "V:bh"])
  ; ("parseEntryDetail", ["P:ed"; "V:ed"; "P:ed"; "V:ed"])
  ; ("parseAddenda", ["P:addenda02"; "V:addenda02"; "P:addenda05"; "V:addenda05"; "P:addenda98Refused"; "V:addenda98Refused"
                     ; "P:addenda98"; "V:addenda98"; "P:addenda99Dishonored"; "V:addenda99Dishonored"
                     ; "P:addenda99Contested"; "V:addenda99Contested"; "P:addenda99"; "V:addenda99"])
  ; ("parseADVAddenda", ["P:addenda99"; "V:addenda99"])
  ; ("parseBatchControl", ["P:r.currentBatch.GetADVControl()"; "V:r.currentBatch.GetADVControl()"
                          ; "P:r.currentBatch.GetControl()"; "V:r.currentBatch.GetControl()"
                          ; "P:r.IATCurrentBatch.GetControl()"; "V:r.IATCurrentBatch.GetControl()"])
  ; ("parseFileControl", ["P:r.File.Control"; "V:&r.File.Control"; "P:r.File.ADVControl"; "V:&r.File.ADVControl"])
  ; ("parseIATBatchHeader", ["P:bh"; "V:bh"])
  ; ("parseIATEntryDetail", ["P:ed"; "V:ed"])
  ; ("mandatoryOptionalIATAddenda", ["P:addenda10"; "V:addenda10"; "P:addenda11"; "V:addenda11"; "P:addenda12"; "V:addenda12"
                                    ; "P:addenda13"; "V:addenda13"; "P:addenda14"; "V:addenda14"; "P:addenda15"; "V:addenda15"
                                    ; "P:addenda16"; "V:addenda16"; "P:addenda17"; "V:addenda17"; "P:addenda18"; "V:addenda18"])
  ; ("nocIATAddenda", ["P:addenda98"; "V:addenda98"])
  ; ("returnIATAddenda", ["P:addenda99"; "V:addenda99"]) ].

(* maybeValidate *)
Definition maybe_validate_src : string :=
  "{ if opts != nil && opts.SkipAll { return nil } return rec.Validate() }".

(* the property of the table the model relies on: every Parse is directly followed by the
   validation of the same record (x or &x) *)
Fixpoint parse_validated (evs : list string) : bool :=
  match evs with
  | [] => true
  | e :: rest =>
      if String.prefix "P:" e then
        match rest with
        | v :: rest' =>
            let x := String.substring 2 (String.length e - 2) e in
            (String.eqb v ("V:" ++ x) || String.eqb v ("V:&" ++ x)) && parse_validated rest'
        | [] => false
        end
      else String.prefix "V:" e && parse_validated rest
  end.

Section Gen.
Variable T : list layout.
Variable ok : recordR -> bool.                  (* maybeValidate(record) = nil *)
Variable bok : kind -> batchR -> bool.          (* maybeValidate(batch) = nil *)

(* NewX(); x.Parse(line); maybeValidate(x) *)
Definition h_read_rec (k : string) (l : bytes) : option recordR :=
  match read_rec T k l with
  | Some x => if ok x then Some x else None
  | None => None
  end.

Definition h_ctx_entry (fv : flavor) (c : ctx) (l : bytes) : option ctx :=
  match h_read_rec (fv_entry fv) l with
  | Some e => Some (fst c, mkEnt e [] :: snd c)
  | None => None
  end.

Definition h_ctx_addenda (fv : flavor) (c : ctx) (l : bytes) : option ctx :=
  match snd c with
  | [] => None
  | e :: rest =>
      if indicator1 (en_rec e) then
        match fv_addenda fv l with
        | None => Some c
        | Some k =>
            match h_read_rec k l with
            | Some a => Some (fst c, mkEnt (en_rec e) (attach (fv_slots fv) a (en_addenda e)) :: rest)
            | None => None
            end
        end
      else None
  end.

(* parseBatchControl (the control record), then parseLine: AddBatch + maybeValidate(batch) *)
Definition h_ctx_close (k : kind) (fv : flavor) (c : ctx) (l : bytes) : option batchR :=
  match h_read_rec (fv_ctl fv) l with
  | Some ctl => let b := mkBat (fst c) (rev (snd c)) ctl in if bok k b then Some b else None
  | None => None
  end.

Definition h_step1 (s : dstate) (l : bytes) : option dstate :=
  match d_hdr s with
  | Some _ => None
  | None => match h_read_rec "FileHeader" l with
            | Some h => Some (mkDS (Some h) (d_std s) (d_iat s) (d_cur s) (d_icur s) (d_ctl s) (d_actl s))
            | None => None
            end
  end.

Definition h_step5 (s : dstate) (l : bytes) : option dstate :=
  match d_cur s with
  | Some _ => None
  | None =>
      if iat_line l then
        match h_read_rec "IATBatchHeader" l with
        | Some h => Some (with_icur s (Some (h, [])))
        | None => None
        end
      else
        match h_read_rec "BatchHeader" l with
        | Some h => if existsb (bytes_eqb (sec_of h)) newbatch_secs
                    then Some (with_cur s (Some (h, []))) else None
        | None => None
        end
  end.

Definition h_step6 (s : dstate) (l : bytes) : option dstate :=
  match d_icur s with
  | Some c => lift_icur s (h_ctx_entry iat_fl c l)
  | None => match d_cur s with
            | Some c => lift_cur s (h_ctx_entry (cur_fl (fst c)) c l)
            | None => None
            end
  end.

Definition h_step7_iat (s : dstate) (l : bytes) : option dstate :=
  match d_icur s with
  | Some c => lift_icur s (h_ctx_addenda iat_fl c l)
  | None => None
  end.

Definition h_step7 (s : dstate) (l : bytes) : option dstate :=
  match d_cur s with
  | Some c => if not_iatcor (fst c) then lift_cur s (h_ctx_addenda (cur_fl (fst c)) c l) else h_step7_iat s l
  | None => h_step7_iat s l
  end.

Definition h_step8 (s : dstate) (l : bytes) : option dstate :=
  match d_cur s with
  | Some c => match h_ctx_close (std_kind (fst c)) (cur_fl (fst c)) c l with
              | Some b => Some (push_std s b)
              | None => None
              end
  | None =>
      match d_icur s with
      | Some (h, e :: es) =>
          match h_ctx_close KIAT iat_fl (h, e :: es) l with
          | Some b => Some (push_iat s b)
          | None => None
          end
      | _ => None
      end
  end.

Definition h_step9 (s : dstate) (l : bytes) : option dstate :=
  if pad_line l then Some s
  else if any_adv (d_std s) then
    match d_actl s with
    | Some _ => None
    | None => match h_read_rec "ADVFileControl" l with
              | Some c => Some (mkDS (d_hdr s) (d_std s) (d_iat s) (d_cur s) (d_icur s) (d_ctl s) (Some c))
              | None => None
              end
    end
  else
    match d_ctl s with
    | Some _ => None
    | None => match h_read_rec "FileControl" l with
              | Some c => Some (mkDS (d_hdr s) (d_std s) (d_iat s) (d_cur s) (d_icur s) (Some c) (d_actl s))
              | None => None
              end
    end.

Definition h_dstep (st : option dstate) (l : bytes) : option dstate :=
  match st with
  | None => None
  | Some s =>
      if negb (rune_count l =? 94) then None
      else
        let t := rtype l in
        if (t =? T1)%N then h_step1 s l
        else if (t =? T5)%N then h_step5 s l
        else if (t =? T6)%N then h_step6 s l
        else if (t =? T7)%N then h_step7 s l
        else if (t =? T8)%N then h_step8 s l
        else if (t =? T9)%N then h_step9 s l
        else None
  end.

(* the validating reader on inputs that keep the shape of the tree *)
Definition h_read_file (ls : list bytes) : option fileR :=
  match fold_left h_dstep ls (Some d_init) with
  | Some s => d_finish s
  | None => None
  end.

(* ---- batches that are never closed (Go accumulates them) ---------------------- *)

(* the control record a batch holds before parseBatchControl ran: NewBatchControl() /
   NewADVBatchControl() (no field assigned by Parse) *)
Definition default_ctl (h : recordR) : recordR := mkRec (fv_ctl (cur_fl h)) [].

(* parseLine, case '5': `if r.currentBatch != nil { if len(r.currentBatch.GetEntries()) == 0
   { return ErrFileConsecutiveBatchHeaders }; … r.File.AddBatch(batch) }` — no validation.
   GetEntries() of an ADV batch is always empty. *)
Definition linger5 (s : dstate) : option dstate :=
  match d_cur s with
  | Some (h, e :: es) => if is_adv h then None else Some (push_std s (mkBat h (rev (e :: es)) (default_ctl h)))
  | _ => None
  end.

Definition gstate := (dstate * bool)%type.

Definition tag (lg : bool) (o : option dstate) : option gstate :=
  match o with Some s => Some (s, lg) | None => None end.

Definition g_dstep (st : option gstate) (l : bytes) : option gstate :=
  match st with
  | None => None
  | Some (s, lg) =>
      if negb (rune_count l =? 94) then None
      else
        let t := rtype l in
        if (t =? T1)%N then tag lg (h_step1 s l)
        else if (t =? T5)%N then
          match d_cur s with
          | Some _ => match linger5 s with Some s1 => tag true (h_step5 s1 l) | None => None end
          | None => tag lg (h_step5 s l)
          end
        else if (t =? T6)%N then tag lg (h_step6 s l)
        else if (t =? T7)%N then tag lg (h_step7 s l)
        else if (t =? T8)%N then tag lg (h_step8 s l)
        else if (t =? T9)%N then tag lg (h_step9 s l)
        else None
  end.

(* the end of Read: `if r.currentBatch != nil { r.File.AddBatch(r.currentBatch) }` (whatever it
   holds); r.IATCurrentBatch is forgotten; then the header / control presence checks *)
Definition g_finish (st : gstate) : option (fileR * bool) :=
  let '(s, lg) := st in
  let '(s1, lg1) := match d_cur s with
                    | Some (h, es) => (push_std s (mkBat h (rev es) (default_ctl h)), true)
                    | None => (s, lg)
                    end in
  let '(s2, lg2) := match d_icur s1 with
                    | Some _ => (with_icur s1 None, true)
                    | None => (s1, lg1)
                    end in
  match d_finish s2 with Some f => Some (f, lg2) | None => None end.

Definition g_read_file (ls : list bytes) : option (fileR * bool) :=
  match fold_left g_dstep ls (Some (d_init, false)) with
  | Some st => g_finish st
  | None => None
  end.

(* what an accepted file satisfies *)
Definition tree_okb (f : fileR) : bool :=
  all_file ok f
  && forallb (fun b => bok (std_kind (bt_hdr b)) b) (fl_batches f)
  && forallb (bok KIAT) (fl_iat f).

End Gen.

(* ------------------------------------------------------------------ *)
(* the instances                                                        *)

Section Inst.
Variable T : list layout.                    (* Gen/Layouts.v *)
Variable RS : list (string * rules).         (* Gen/RecRules.v all_rules *)
Variable AT : tables.                        (* Gen/Tables.v *)

(* ach.NewReader(text).Read(): (file, a batch was left open) *)
Definition read_file_valid : list bytes -> option (fileR * bool) := g_read_file T (rec_passb RS) (batch_okb AT).
(* ... on tree shaped inputs *)
Definition read_file_strict : list bytes -> option fileR := h_read_file T (rec_passb RS) (batch_okb AT).

Definition tree_validb : fileR -> bool := tree_okb (rec_passb RS) (batch_okb AT).

(* Read() followed by file.Validate() *)
Definition read_then_validate (ls : list bytes) : option (fileR * bool) :=
  match read_file_valid ls with
  | Some (f, lg) => if is_rok (validate_file AT (p_file f)) then Some (f, lg) else None
  | None => None
  end.

Definition read_text_valid (text : bytes) : option (fileR * bool) :=
  match norm_lines (read_lines text) with
  | Some ls => read_file_valid ls
  | None => None
  end.

(* "the record read back evaluates every recognised rule as the record written":
   every term a recognised condition reads has the same value on both (for a bare
   emptiness test `x.F == ""` only the emptiness has to agree: a field that Parse keeps
   with its padding stays non-empty) *)
Definition is_emptyb (s : bytes) : bool := match s with [] => true | _ => false end.

Fixpoint cond_agreeb (r r' : recval) (c : cond) : bool :=
  match c with
  | CTrue | CFalse | CUnknown _ _ => true
  | CStrIn t set =>
      match set with
      | [[]] => Bool.eqb (is_emptyb (evals r t)) (is_emptyb (evals r' t))
      | _ => bytes_eqb (evals r t) (evals r' t)
      end
  | CStrNotIn t _ | CByteLen _ t _ | CRuneLen _ t _ | CRunesOutside t _ | CAtoiErr t => bytes_eqb (evals r t) (evals r' t)
  | CIntIn t _ | CIntNotIn t _ => (evali r t =? evali r' t)%Z
  | CIntCmp _ a b => (evali r a =? evali r' a)%Z && (evali r b =? evali r' b)%Z
  | CAnd a b | COr a b => cond_agreeb r r' a && cond_agreeb r r' b
  | CNot a => cond_agreeb r r' a
  end.

Definition rules_agreeb (R : rules) (r r' : recval) : bool := forallb (fun lc => cond_agreeb r r' (snd lc)) R.

Definition rec_keepsb (x : recordR) : bool :=
  rules_agreeb (rules_for RS (r_kind x)) (r_val x) (r_val (parsed_rec T x)).

(* "the record read back holds the same protected values": the fields the projection [p_batch] reads
   from a batch header / an entry / a batch control *)
Definition hdr_str_fields : list string := ["StandardEntryClassCode"; "ODFIIdentification"].
Definition hdr_int_fields : list string := ["ServiceClassCode"; "BatchNumber"].
Definition entry_str_fields (k : kind) : list string :=
  match k with KADV => ["RDFIIdentification"; "CheckDigit"] | _ => ["RDFIIdentification"; "CheckDigit"; "TraceNumber"] end.
Definition entry_int_fields : list string := ["TransactionCode"; "Amount"].
Definition ctl_str_fields : list string := ["ODFIIdentification"].
Definition ctl_int_fields : list string :=
  ["ServiceClassCode"; "EntryAddendaCount"; "EntryHash"; "TotalDebitEntryDollarAmount"; "TotalCreditEntryDollarAmount"; "BatchNumber"].

Definition fields_keptb (ss is_ : list string) (x : recordR) : bool :=
  forallb (fun f => bytes_eqb (gets (r_val (parsed_rec T x)) f) (gets (r_val x) f)) ss
  && forallb (fun f => (geti (r_val (parsed_rec T x)) f =? geti (r_val x) f)%Z) is_.

Definition batch_proj_keepsb (k : kind) (b : batchR) : bool :=
  fields_keptb hdr_str_fields hdr_int_fields (bt_hdr b)
  && forallb (fun e => fields_keptb (entry_str_fields k) entry_int_fields (en_rec e)) (bt_entries b)
  && fields_keptb ctl_str_fields ctl_int_fields (bt_ctl b).

Definition proj_keepsb (f : fileR) : bool :=
  forallb (fun b => batch_proj_keepsb (std_kind (bt_hdr b)) b) (fl_batches f)
  && forallb (batch_proj_keepsb KIAT) (fl_iat f).

(* the closed batches of the file read back pass the batch validation *)
Definition batches_okb (f : fileR) : bool :=
  forallb (fun b => batch_okb AT (std_kind (bt_hdr b)) b) (fl_batches f) && forallb (batch_okb AT KIAT) (fl_iat f).

End Inst.

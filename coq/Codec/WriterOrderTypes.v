(* Shape of Writer.Write / writeBatch / writeIATBatch as regenerated from
   writer.go, and the boolean checker that it is the record order the
   structural model ([FileStruct.record_lines]) assumes: file header; per batch:
   header, then each entry immediately followed by its own addenda, then the
   control; file control; final-block padding. *)
From Coq Require Import String List Bool.
Import ListNotations.
Open Scope string_scope.

Inductive wnode :=
| WLine (expr : string)
| WCall (fn : string)
| WLoop (var over : string) (body : list wnode)
| WIf (cond : string) (thn els : list wnode)
| WPad (cond : string)
| WOther (src : string).

Definition addenda_of (e : string) (n : wnode) : bool :=
  match n with
  | WLine x => String.prefix (e ++ ".Addenda") x
  | WLoop a over [WLine x] => String.prefix (e ++ ".Addenda") over && String.eqb x a
  | _ => false
  end.

Definition entry_loop_ok (n : wnode) : bool :=
  match n with
  | WLoop e _ (WLine x :: rest) => String.eqb x e && forallb (addenda_of e) rest
  | _ => false
  end.

Definition entries_ok (n : wnode) : bool :=
  match n with
  | WLoop _ _ _ => entry_loop_ok n
  | WIf _ a b => forallb entry_loop_ok a && forallb entry_loop_ok b && negb (Nat.eqb (length a) 0)
  | _ => false
  end.

Definition control_of (b : string) (n : wnode) : bool :=
  match n with
  | WLine x => String.eqb x (b ++ ".GetControl()")
  | WIf _ [WLine x] [WLine y] => String.eqb x (b ++ ".GetControl()") && String.eqb y (b ++ ".GetADVControl()")
  | _ => false
  end.

Fixpoint split_last {A} (l : list A) : option (list A * A) :=
  match l with
  | [] => None
  | [x] => Some ([], x)
  | x :: t => match split_last t with Some (i, z) => Some (x :: i, z) | None => None end
  end.

Definition batch_loop_ok (nodes : list wnode) : bool :=
  match nodes with
  | [WLoop b _ (WLine h :: rest)] =>
      String.eqb h (b ++ ".GetHeader()") &&
      match split_last rest with
      | Some (mid, ctl) => control_of b ctl && forallb entries_ok mid && negb (Nat.eqb (length mid) 0)
      | None => false
      end
  | _ => false
  end.

Definition pad_cond : string := "i < (10-(w.lineNum%10)) && w.lineNum%10 != 0".

Definition write_ok (nodes : list wnode) : bool :=
  let nodes' := match nodes with WIf _ [] [] :: t => t | _ => nodes end in
  match nodes' with
  | [WLine h; WCall b1; WCall b2; WIf _ [WLine c1] [WLine c2]; WPad p] =>
      String.eqb h "&file.Header" && String.eqb b1 "writeBatch" && String.eqb b2 "writeIATBatch"
      && String.eqb c1 "&file.Control" && String.eqb c2 "&file.ADVControl" && String.eqb p pad_cond
  | _ => false
  end.

Definition writer_order_ok (w wb wi : list wnode) : bool := write_ok w && batch_loop_ok wb && batch_loop_ok wi.

(* C04, phase 6: the typed reader (Codec/Dispatch.v) and the structural reader (Codec/FileStruct.v)
   run on the SAME list of lines build the same arithmetic skeleton.

     read_file_skelD   read_file T ls = Some g -> read_struct ls = Some s -> p_file g = skelD T s
                       for EVERY list of lines (simulation of the two state machines, invariant [R])
     skelD_skel        bridge_okb T s = true -> skelD T s = skel s

   The layouts table T is generic; the nine layouts the skeleton reads are hypotheses of the
   section, discharged by computation for Gen/Layouts.v in Oblig/C04ValidTextObl.v. *)
From Coq Require Import String List NArith ZArith Bool Lia.
From ACH Require Import Arith LayoutFacts DispatchFixed DispatchFacts FileStructFacts ReaderSkel.
Import ListNotations.
Local Open Scope string_scope.
Local Open Scope nat_scope.
Local Open Scope list_scope.

(* ---- list facts ---- *)
Lemma filter_rev' {A} (p : A -> bool) l : filter p (rev l) = rev (filter p l).
Proof.
  induction l as [|x l IH]; [reflexivity|]. cbn [rev filter]. rewrite filter_app, IH. cbn [filter].
  destruct (p x); cbn [rev]; [reflexivity|now rewrite app_nil_r].
Qed.

Lemma Forall2_rev' {A B} (P : A -> B -> Prop) l l' : Forall2 P l l' -> Forall2 P (rev l) (rev l').
Proof.
  induction 1 as [|x y l l' Hxy _ IH]; [constructor|]. cbn [rev]. apply Forall2_app; [exact IH|].
  constructor; [exact Hxy|constructor].
Qed.

Lemma Forall2_map_eq {A B C} (P : A -> B -> Prop) (g : A -> C) (h : B -> C) l l' :
  (forall x y, P x y -> g x = h y) -> Forall2 P l l' -> map g l = map h l'.
Proof.
  intros Hgh. induction 1 as [|x y l l' Hxy _ IH]; [reflexivity|]. cbn [map]. now rewrite (Hgh _ _ Hxy), IH.
Qed.

Lemma pad_starts99 l : pad_line l = starts99 l.
Proof.
  unfold pad_line, pad_test, bsub. cbn [skipn Nat.sub]. change (bstr "99") with [57; 57]%N.
  destruct l as [|a [|b t]]; [reflexivity|cbn; now rewrite andb_false_r|].
  cbn [firstn starts99 bytes_eqb]. unfold nine.
  destruct (a =? 57)%N, (b =? 57)%N; reflexivity.
Qed.

Lemma norm_all_lines ns : norm_lines ns = all_lines ns.
Proof. induction ns as [|[l|] ns IH]; cbn; [reflexivity|now rewrite IH|reflexivity]. Qed.

Section Sim.
Variable T : list layout.
Hypothesis T_ok : forallb layout_ok T = true.
Hypothesis L_bh : layout_of T "BatchHeader" = Some L_BatchHeader.
Hypothesis L_ibh : layout_of T "IATBatchHeader" = Some L_IATBatchHeader.
Hypothesis L_ed : layout_of T "EntryDetail" = Some L_EntryDetail.
Hypothesis L_ied : layout_of T "IATEntryDetail" = Some L_IATEntryDetail.
Hypothesis L_aed : layout_of T "ADVEntryDetail" = Some L_ADVEntryDetail.
Hypothesis L_bc : layout_of T "BatchControl" = Some L_BatchControl.
Hypothesis L_abc : layout_of T "ADVBatchControl" = Some L_ADVBatchControl.
Hypothesis L_fc : layout_of T "FileControl" = Some L_FileControl.
Hypothesis L_afc : layout_of T "ADVFileControl" = Some L_ADVFileControl.

(* the record NewX(); x.Parse(line) builds holds, field by field, what Parse cut *)
Lemma read_rec_lookup k L l x g : layout_of T k = Some L -> read_rec T k l = Some x ->
  lookup (r_val x) g = lookup (parse L l) g.
Proof.
  intros HL H. unfold read_rec in H. rewrite HL in H. injection H as <-. cbn [r_val].
  unfold overlay. rewrite app_nil_r. unfold parse. destruct (rune_count l =? 94); [|reflexivity].
  destruct (lookup_parse (units (l_ix L) l) (l_cuts L) g (layout_ok_keys L (layout_of_ok T T_ok k L HL))) as [-> ->].
  reflexivity.
Qed.

Lemma read_rec_geti k L l x g : layout_of T k = Some L -> read_rec T k l = Some x -> geti (r_val x) g = geti (parse L l) g.
Proof. intros HL H. unfold geti. now rewrite (read_rec_lookup k L l x g HL H). Qed.
Lemma read_rec_gets k L l x g : layout_of T k = Some L -> read_rec T k l = Some x -> gets (r_val x) g = gets (parse L l) g.
Proof. intros HL H. unfold gets. now rewrite (read_rec_lookup k L l x g HL H). Qed.

(* ---- flavours and kinds ---- *)
Lemma ADV_consts : ADVb = ADV_b.
Proof. reflexivity. Qed.

Lemma std_kind_kindD hl h : iat_line hl = false -> read_rec T "BatchHeader" hl = Some h -> kindD hl = std_kind h.
Proof.
  intros Hi Hh. unfold kindD, std_kind, Dispatch.is_adv, sec_of. rewrite Hi.
  rewrite (read_rec_gets _ _ _ _ "StandardEntryClassCode" L_bh Hh), ADV_consts. reflexivity.
Qed.

Lemma fl_std_kind h : fl_of_kind (std_kind h) = cur_fl h.
Proof. unfold std_kind, cur_fl. now destruct (Dispatch.is_adv h). Qed.

Lemma entry_layout_of k : layout_of T (fv_entry (fl_of_kind k)) = Some (entry_layout k).
Proof. destruct k; cbn; assumption. Qed.
Lemma bctl_layout_of k : layout_of T (fv_ctl (fl_of_kind k)) = Some (bctl_layout k).
Proof. destruct k; cbn; assumption. Qed.

(* ---- entries ---- *)
Definition entD (k : kind) (e : entryR) (eS : entryS) : Prop :=
  read_rec T (fv_entry (fl_of_kind k)) (e_rec eS) = Some (en_rec e)
  /\ Dispatch.en_addenda e = kept T (fl_of_kind k) (e_addenda eS).

Lemma entD_proj k e eS : entD k e eS -> p_entry k e = skelD_entry T k eS.
Proof.
  intros [Hr Ha]. unfold p_entry, skelD_entry, entry_of. cbv zeta.
  pose proof (entry_layout_of k) as HL.
  rewrite !(read_rec_geti _ _ _ _ _ HL Hr), !(read_rec_gets _ _ _ _ _ HL Hr), Ha. reflexivity.
Qed.

Lemma kept_snoc fv ls l : kept T fv (ls ++ [l]) = keep_addenda T fv (kept T fv ls) l.
Proof. unfold kept. rewrite fold_left_app. reflexivity. Qed.

(* ---- batches ---- *)
Lemma batch_proj k h hl es esl ctl cl :
  kindD hl = k -> layout_of T (r_kind h) = Some (hdr_layout k) ->
  read_rec T (r_kind h) hl = Some h ->
  Forall2 (entD k) es esl ->
  read_rec T (fv_ctl (fl_of_kind k)) cl = Some ctl ->
  p_batch k (mkBat h (rev es) ctl) = skelD_batch T (mkBatch hl (rev esl) cl).
Proof.
  intros Hk HLh Hh Hes Hc. unfold p_batch, skelD_batch. cbn [Dispatch.bt_hdr Dispatch.bt_entries Dispatch.bt_ctl b_hdr b_entries b_ctl].
  rewrite Hk. cbv zeta.
  rewrite !(read_rec_geti _ _ _ _ _ HLh Hh), !(read_rec_gets _ _ _ _ _ HLh Hh).
  f_equal.
  - apply (Forall2_map_eq (entD k)); [apply entD_proj|now apply Forall2_rev'].
  - unfold p_bctl, bctl_of. cbv zeta. pose proof (bctl_layout_of k) as HL.
    rewrite !(read_rec_geti _ _ _ _ _ HL Hc), !(read_rec_gets _ _ _ _ _ HL Hc). reflexivity.
Qed.

Lemma read_rec_kind k l x : read_rec T k l = Some x -> r_kind x = k.
Proof. unfold read_rec. destruct (layout_of T k); [|discriminate]. intros H. now injection H as <-. Qed.

(* ---- the invariant ---- *)
Definition pstd (b : batchR) : Arith.batch := p_batch (std_kind (Dispatch.bt_hdr b)) b.

Definition curR (ds : dstate) (rc : option (bytes * list entryS)) : Prop :=
  match rc with
  | None => d_cur ds = None /\ d_icur ds = None
  | Some (hl, esl) =>
      (iat_line hl = false /\ d_icur ds = None /\
       exists h es, d_cur ds = Some (h, es) /\ read_rec T "BatchHeader" hl = Some h /\ Forall2 (entD (std_kind h)) es esl)
      \/ (iat_line hl = true /\ d_cur ds = None /\
          exists h es, d_icur ds = Some (h, es) /\ read_rec T "IATBatchHeader" hl = Some h /\ Forall2 (entD KIAT) es esl)
  end.

Definition ctlR (ds : dstate) (rc : option bytes) : Prop :=
  match rc with
  | None => d_ctl ds = None /\ d_actl ds = None
  | Some cl => (forall c, d_ctl ds = Some c -> read_rec T "FileControl" cl = Some c)
               /\ (forall c, d_actl ds = Some c -> read_rec T "ADVFileControl" cl = Some c)
  end.

Record R (ds : dstate) (rs : rstate) : Prop := mkRel {
  R_std : map pstd (d_std ds) = map (skelD_batch T) (filter (fun b => negb (is_iatD b)) (r_done rs));
  R_iat : map (p_batch KIAT) (d_iat ds) = map (skelD_batch T) (filter is_iatD (r_done rs));
  R_adv : any_adv (d_std ds) = existsb is_advD (r_done rs);
  R_cur : curR ds (r_cur rs);
  R_ctl : ctlR ds (r_ctl rs) }.

Lemma R_init : R d_init (mkR None [] None None).
Proof. constructor; cbn; auto. Qed.

(* components that a step leaves alone *)
Lemma R_same ds ds' rs rs' : R ds rs ->
  d_std ds' = d_std ds -> d_iat ds' = d_iat ds -> r_done rs' = r_done rs ->
  curR ds' (r_cur rs') -> ctlR ds' (r_ctl rs') -> R ds' rs'.
Proof.
  intros [H1 H2 H3 _ _] E1 E2 E3 Hc Hl. constructor; rewrite ?E1, ?E2, ?E3; assumption.
Qed.

Lemma is_advD_std hl h : iat_line hl = false -> read_rec T "BatchHeader" hl = Some h ->
  forall es cl, is_advD (mkBatch hl es cl) = Dispatch.is_adv h.
Proof.
  intros Hi Hh es cl. unfold is_advD. cbn [b_hdr]. rewrite (std_kind_kindD hl h Hi Hh). unfold std_kind.
  now destruct (Dispatch.is_adv h).
Qed.

Lemma is_advD_iat hl es cl : iat_line hl = true -> is_advD (mkBatch hl es cl) = false.
Proof. intros Hi. unfold is_advD, kindD. cbn [b_hdr]. now rewrite Hi. Qed.

Lemma sim_step ds rs l ds' rs' :
  R ds rs -> dstep T (Some ds) l = Some ds' -> rstep (Some rs) l = Some rs' -> R ds' rs'.
Proof.
  intros HR Hd Hr. unfold dstep in Hd. destruct (negb (rune_count l =? 94)); [discriminate|].
  unfold rstep in Hr. cbv zeta in Hd, Hr.
  destruct (rtype l =? T1)%N.
  { (* file header *)
    unfold step1 in Hd. destruct (d_hdr ds); [discriminate|]. destruct (read_rec T "FileHeader" l); [|discriminate].
    injection Hd as <-. destruct (r_hdr rs); [discriminate|]. injection Hr as <-.
    apply (R_same ds _ rs _ HR); try reflexivity; [exact (R_cur _ _ HR)|exact (R_ctl _ _ HR)]. }
  destruct (rtype l =? T5)%N.
  { (* batch header *)
    destruct (r_cur rs) as [[hl esl]|] eqn:Erc; [discriminate|]. injection Hr as <-.
    pose proof (R_cur _ _ HR) as Hc. rewrite Erc in Hc. destruct Hc as [Hc Hi].
    unfold step5 in Hd. rewrite Hc in Hd. destruct (iat_line l) eqn:Eil.
    - destruct (read_rec T "IATBatchHeader" l) as [h|] eqn:Eh; [|discriminate]. injection Hd as <-.
      apply (R_same ds _ rs _ HR); try reflexivity; [|exact (R_ctl _ _ HR)].
      cbn [r_cur curR]. right. cbn [d_cur d_icur with_icur]. repeat split; [exact Eil|exact Hc|].
      exists h, []. repeat split; [exact Eh|constructor].
    - destruct (read_rec T "BatchHeader" l) as [h|] eqn:Eh; [|discriminate].
      destruct (existsb (bytes_eqb (sec_of h)) newbatch_secs); [|discriminate]. injection Hd as <-.
      apply (R_same ds _ rs _ HR); try reflexivity; [|exact (R_ctl _ _ HR)].
      cbn [r_cur curR]. left. cbn [d_cur d_icur with_cur]. repeat split; [exact Eil|exact Hi|].
      exists h, []. repeat split; [exact Eh|constructor]. }
  destruct (rtype l =? T6)%N.
  { (* entry *)
    destruct (r_cur rs) as [[hl esl]|] eqn:Erc; [|discriminate]. injection Hr as <-.
    pose proof (R_cur _ _ HR) as Hc. rewrite Erc in Hc.
    destruct Hc as [(Eil & Hi & h & es & Hc & Hh & Hes)|(Eil & Hc & h & es & Hi & Hh & Hes)]; unfold step6 in Hd; rewrite Hi in Hd.
    - rewrite Hc in Hd. cbn [fst] in Hd. unfold ctx_entry in Hd.
      destruct (read_rec T (fv_entry (cur_fl h)) l) as [e|] eqn:Ee; [|discriminate]. cbn [lift_cur fst snd] in Hd. injection Hd as <-.
      apply (R_same ds _ rs _ HR); try reflexivity; [|exact (R_ctl _ _ HR)].
      cbn [r_cur curR]. left. cbn [d_cur d_icur with_cur]. repeat split; [exact Eil|exact Hi|].
      exists h, (mkEnt e [] :: es). repeat split; [exact Hh|]. constructor; [|exact Hes].
      split; cbn [e_rec e_addenda en_rec Dispatch.en_addenda]; [now rewrite fl_std_kind|reflexivity].
    - unfold ctx_entry in Hd.
      destruct (read_rec T (fv_entry iat_fl) l) as [e|] eqn:Ee; [|discriminate]. cbn [lift_icur fst snd] in Hd. injection Hd as <-.
      apply (R_same ds _ rs _ HR); try reflexivity; [|exact (R_ctl _ _ HR)].
      cbn [r_cur curR]. right. cbn [d_cur d_icur with_icur]. repeat split; [exact Eil|exact Hc|].
      exists h, (mkEnt e [] :: es). repeat split; [exact Hh|]. constructor; [|exact Hes].
      split; cbn [e_rec e_addenda en_rec Dispatch.en_addenda fl_of_kind]; [exact Ee|reflexivity]. }
  destruct (rtype l =? T7)%N.
  { (* addenda *)
    destruct (r_cur rs) as [[hl esl]|] eqn:Erc; [|discriminate].
    destruct (add_addenda esl l) as [esl'|] eqn:Ea; [|discriminate]. injection Hr as <-.
    unfold add_addenda in Ea. destruct esl as [|eS restS]; [discriminate|]. injection Ea as <-.
    pose proof (R_cur _ _ HR) as Hc. rewrite Erc in Hc.
    assert (Hadd : forall k fv c c', fv = fl_of_kind k -> Forall2 (entD k) (snd c) (eS :: restS) ->
              ctx_addenda T fv c l = Some c' ->
              fst c' = fst c /\ Forall2 (entD k) (snd c') (mkEntry (e_rec eS) (e_addenda eS ++ [l]) :: restS)).
    { intros k fv c c' Hfv Hes Hca. subst fv. unfold ctx_addenda in Hca. inversion Hes as [|e eS' rest restS' [He1 He2] Hrest E1 E2]; subst eS' restS'.
      rewrite <- E1 in Hca. destruct (indicator1 (en_rec e)); [|discriminate].
      assert (Hk : kept T (fl_of_kind k) (e_addenda eS ++ [l]) = keep_addenda T (fl_of_kind k) (Dispatch.en_addenda e) l)
        by (now rewrite kept_snoc, He2).
      unfold keep_addenda in Hk.
      destruct (fv_addenda (fl_of_kind k) l) as [ka|].
      - destruct (read_rec T ka l) as [a|]; [|discriminate]. injection Hca as <-. cbn [fst snd]. split; [reflexivity|].
        constructor; [|exact Hrest]. split; cbn [e_rec e_addenda en_rec Dispatch.en_addenda]; [exact He1|now rewrite Hk].
      - injection Hca as <-. split; [reflexivity|]. rewrite <- E1. constructor; [|exact Hrest].
        split; cbn [e_rec e_addenda]; [exact He1|now rewrite Hk]. }
    destruct Hc as [(Eil & Hi & h & es & Hc & Hh & Hes)|(Eil & Hc & h & es & Hi & Hh & Hes)]; unfold step7 in Hd; rewrite Hc in Hd.
    - cbn [fst] in Hd. destruct (not_iatcor h).
      + destruct (ctx_addenda T (cur_fl h) (h, es) l) as [c'|] eqn:Eca; [|discriminate]. cbn [lift_cur] in Hd. injection Hd as <-.
        destruct (Hadd (std_kind h) (cur_fl h) (h, es) c' (eq_sym (fl_std_kind h)) Hes Eca) as [Hf Hs].
        apply (R_same ds _ rs _ HR); try reflexivity; [|exact (R_ctl _ _ HR)].
        cbn [r_cur curR]. left. cbn [d_cur d_icur with_cur]. repeat split; [exact Eil|exact Hi|].
        exists h, (snd c'). repeat split; [|exact Hh|exact Hs]. destruct c' as [h' es']. cbn [fst snd] in *. now subst h'.
      + unfold step7_iat in Hd. rewrite Hi in Hd. discriminate.
    - unfold step7_iat in Hd. rewrite Hi in Hd.
      destruct (ctx_addenda T iat_fl (h, es) l) as [c'|] eqn:Eca; [|discriminate]. cbn [lift_icur] in Hd. injection Hd as <-.
      destruct (Hadd KIAT iat_fl (h, es) c' eq_refl Hes Eca) as [Hf Hs].
      apply (R_same ds _ rs _ HR); try reflexivity; [|exact (R_ctl _ _ HR)].
      cbn [r_cur curR]. right. cbn [d_cur d_icur with_icur]. repeat split; [exact Eil|exact Hc|].
      exists h, (snd c'). repeat split; [|exact Hh|exact Hs]. destruct c' as [h' es']. cbn [fst snd] in *. now subst h'. }
  destruct (rtype l =? T8)%N.
  { (* batch control: the batch is closed *)
    destruct (r_cur rs) as [[hl esl]|] eqn:Erc; [|discriminate]. injection Hr as <-.
    pose proof (R_cur _ _ HR) as Hc. rewrite Erc in Hc.
    destruct HR as [H1 H2 H3 _ H5].
    destruct Hc as [(Eil & Hi & h & es & Hc & Hh & Hes)|(Eil & Hc & h & es & Hi & Hh & Hes)]; unfold step8 in Hd; rewrite Hc in Hd.
    - cbn [fst] in Hd. unfold ctx_close in Hd.
      destruct (read_rec T (fv_ctl (cur_fl h)) l) as [ctl|] eqn:Ectl; [|discriminate]. injection Hd as <-.
      cbn [fst snd].
      assert (Hb : pstd (mkBat h (rev es) ctl) = skelD_batch T (mkBatch hl (rev esl) l)).
      { unfold pstd. cbn [Dispatch.bt_hdr]. pose proof (std_kind_kindD hl h Eil Hh) as Hk.
        assert (Hh' : read_rec T (r_kind h) hl = Some h) by (now rewrite (read_rec_kind _ _ _ Hh)).
        apply batch_proj; [exact Hk| |exact Hh'|exact Hes|now rewrite fl_std_kind].
        rewrite (read_rec_kind _ _ _ Hh). unfold std_kind. destruct (Dispatch.is_adv h); exact L_bh. }
      constructor; cbn [d_std d_iat d_cur d_icur d_ctl d_actl push_std r_done r_cur r_ctl].
      + cbn [filter]. unfold is_iatD at 1. cbn [b_hdr]. rewrite Eil. cbn [negb map]. now rewrite Hb, H1.
      + cbn [filter]. unfold is_iatD at 1. cbn [b_hdr]. rewrite Eil. exact H2.
      + unfold any_adv in *. cbn [existsb Dispatch.bt_hdr]. rewrite (is_advD_std hl h Eil Hh). f_equal. exact H3.
      + split; [reflexivity|exact Hi].
      + exact H5.
    - rewrite Hi in Hd. destruct es as [|e es]; [discriminate|]. unfold ctx_close in Hd.
      destruct (read_rec T (fv_ctl iat_fl) l) as [ctl|] eqn:Ectl; [|discriminate]. injection Hd as <-.
      cbn [fst snd].
      assert (Hb : p_batch KIAT (mkBat h (rev (e :: es)) ctl) = skelD_batch T (mkBatch hl (rev esl) l)).
      { assert (Hh' : read_rec T (r_kind h) hl = Some h) by (now rewrite (read_rec_kind _ _ _ Hh)).
        apply batch_proj; [unfold kindD; now rewrite Eil| |exact Hh'|exact Hes|exact Ectl].
        rewrite (read_rec_kind _ _ _ Hh). exact L_ibh. }
      constructor; cbn [d_std d_iat d_cur d_icur d_ctl d_actl push_iat r_done r_cur r_ctl].
      + cbn [filter]. unfold is_iatD at 1. cbn [b_hdr]. rewrite Eil. exact H1.
      + cbn [filter]. unfold is_iatD at 1. cbn [b_hdr]. rewrite Eil. cbn [map]. change (rev es ++ [e]) with (rev (e :: es)). now rewrite Hb, H2.
      + cbn [existsb]. rewrite (is_advD_iat hl _ _ Eil). exact H3.
      + split; [exact Hc|reflexivity].
      + exact H5. }
  destruct (rtype l =? T9)%N; [|discriminate].
  (* file control / filler *)
  unfold step9 in Hd. rewrite pad_starts99 in Hd. destruct (starts99 l).
  { injection Hd as <-. injection Hr as <-. exact HR. }
  destruct (r_ctl rs) as [cl|] eqn:Erl; [discriminate|]. injection Hr as <-.
  pose proof (R_ctl _ _ HR) as Hl. rewrite Erl in Hl. destruct Hl as [Hl1 Hl2].
  pose proof (R_cur _ _ HR) as Hcur.
  destruct (any_adv (d_std ds)).
  - rewrite Hl2 in Hd. destruct (read_rec T "ADVFileControl" l) as [c|] eqn:Ec; [|discriminate]. injection Hd as <-.
    apply (R_same ds _ rs _ HR); try reflexivity; [exact Hcur|].
    cbn [r_ctl ctlR d_ctl d_actl]. split; [intros c0 H0; rewrite Hl1 in H0; discriminate|intros c0 H0; now injection H0 as <-].
  - rewrite Hl1 in Hd. destruct (read_rec T "FileControl" l) as [c|] eqn:Ec; [|discriminate]. injection Hd as <-.
    apply (R_same ds _ rs _ HR); try reflexivity; [exact Hcur|].
    cbn [r_ctl ctlR d_ctl d_actl]. split; [intros c0 H0; now injection H0 as <-|intros c0 H0; rewrite Hl2 in H0; discriminate].
Qed.

Lemma rstep_none ls : fold_left rstep ls None = None.
Proof. induction ls as [|l ls IH]; [reflexivity|exact IH]. Qed.

Lemma sim_fold ls : forall ds rs ds' rs', R ds rs ->
  fold_left (dstep T) ls (Some ds) = Some ds' -> fold_left rstep ls (Some rs) = Some rs' -> R ds' rs'.
Proof.
  induction ls as [|l ls IH]; intros ds rs ds' rs' HR Hd Hr.
  - cbn in Hd, Hr. injection Hd as <-. injection Hr as <-. exact HR.
  - cbn [fold_left] in Hd, Hr.
    destruct (dstep T (Some ds) l) as [ds1|] eqn:E1; [|rewrite dstep_none in Hd; discriminate].
    destruct (rstep (Some rs) l) as [rs1|] eqn:E2; [|rewrite rstep_none in Hr; discriminate].
    exact (IH ds1 rs1 ds' rs' (sim_step ds rs l ds1 rs1 HR E1 E2) Hd Hr).
Qed.

(* the two readers on the same lines: the projection of the typed tree is the skeleton (with the
   typed reader's decisions) of the structured lines *)
Theorem read_file_skelD ls g s : read_file T ls = Some g -> read_struct ls = Some s -> p_file g = skelD T s.
Proof.
  unfold read_file, read_struct. intros Hg Hs.
  destruct (fold_left (dstep T) ls (Some d_init)) as [ds|] eqn:Ed; [|discriminate].
  destruct (fold_left rstep ls (Some (mkR None [] None None))) as [rs|] eqn:Er; [|discriminate].
  pose proof (sim_fold ls _ _ _ _ R_init Ed Er) as [H1 H2 H3 H4 H5].
  destruct rs as [[hl|] done [rc|] [cl|]]; try discriminate. injection Hs as <-.
  cbn [r_done r_cur r_ctl] in *. destruct H4 as [Hc Hi]. destruct H5 as [Hl1 Hl2].
  unfold d_finish in Hg. destruct (d_hdr ds) as [h|]; [|discriminate]. rewrite Hc, Hi in Hg.
  unfold p_file, skelD. cbn [f_batches f_ctl].
  rewrite !filter_rev', !map_rev, <- H1, <- H2, existsb_rev', <- H3.
  destruct (any_adv (d_std ds)) eqn:Ea.
  - destruct (d_actl ds) as [c|] eqn:Ec; [|discriminate]. injection Hg as <-.
    cbn [Dispatch.fl_batches Dispatch.fl_iat Dispatch.fl_ctl]. rewrite !map_rev. f_equal.
    unfold p_fctl, skel_fctl, fctl_of. cbv zeta. pose proof (Hl2 c eq_refl) as Hrc. cbn [fctl_layout].
    rewrite !(read_rec_geti _ _ _ _ _ L_afc Hrc). reflexivity.
  - destruct (d_ctl ds) as [c|] eqn:Ec; [|discriminate]. injection Hg as <-.
    cbn [Dispatch.fl_batches Dispatch.fl_iat Dispatch.fl_ctl]. rewrite !map_rev. f_equal.
    unfold p_fctl, skel_fctl, fctl_of. cbv zeta. pose proof (Hl1 c eq_refl) as Hrc. cbn [fctl_layout].
    rewrite !(read_rec_geti _ _ _ _ _ L_fc Hrc). reflexivity.
Qed.

(* ---- skelD = skel when the two readers agree ---- *)
Lemma kindD_agree b : hdr_agreeb b = true -> kindD (b_hdr b) = kind_of_hdr (b_hdr b).
Proof.
  unfold hdr_agreeb, TamperText.is_iat, kindD, kind_of_hdr. intros H. apply eqb_prop in H.
  destruct (bytes_eqb (firstn 3 (skipn 50 (b_hdr b))) IAT_b || bytes_eqb (trim (firstn 16 (skipn 4 (b_hdr b)))) IATCOR_b).
  - now rewrite H.
  - destruct (bytes_eqb (gets (parse L_BatchHeader (b_hdr b)) "StandardEntryClassCode") ADV_b); now rewrite H.
Qed.

Lemma skelD_batch_skel b : hdr_agreeb b && addenda_keptb T b = true -> skelD_batch T b = skel_batch b.
Proof.
  intros H. apply andb_prop in H as [Hh Ha]. unfold skelD_batch, skel_batch. rewrite (kindD_agree b Hh). cbv zeta.
  f_equal. apply map_ext_in. intros e He. unfold skelD_entry, skel_entry. f_equal.
  unfold addenda_keptb in Ha. rewrite forallb_forall in Ha. specialize (Ha e He). apply Nat.eqb_eq in Ha. now rewrite Ha.
Qed.

Lemma is_iatD_agree b : hdr_agreeb b = true -> is_iatD b = TamperText.is_iat b.
Proof. unfold hdr_agreeb, is_iatD. intros H. now apply eqb_prop in H. Qed.

Lemma is_advD_agree b : hdr_agreeb b = true -> is_advD b = TamperText.is_adv b.
Proof. intros H. unfold is_advD, TamperText.is_adv. now rewrite (kindD_agree b H). Qed.

Lemma filter_ext_in' {A} (p q : A -> bool) l : (forall x, In x l -> p x = q x) -> filter p l = filter q l.
Proof.
  induction l as [|x l IH]; intros H; [reflexivity|]. cbn [filter]. rewrite (H x (or_introl eq_refl)), IH; [reflexivity|].
  intros y Hy. apply H. now right.
Qed.

Theorem skelD_skel s : bridge_okb T s = true -> skelD T s = skel s.
Proof.
  unfold bridge_okb. intros H. rewrite forallb_forall in H.
  assert (Hh : forall b, In b (f_batches s) -> hdr_agreeb b = true) by (intros b Hb; now destruct (andb_prop _ _ (H b Hb))).
  unfold skelD, skel, adv_file. f_equal.
  - rewrite (filter_ext_in' (fun b => negb (is_iatD b)) (fun b => negb (TamperText.is_iat b))).
    + apply map_ext_in. intros b Hb. apply filter_In in Hb as [Hb _]. now apply skelD_batch_skel, H.
    + intros b Hb. now rewrite (is_iatD_agree b (Hh b Hb)).
  - rewrite (filter_ext_in' is_iatD TamperText.is_iat).
    + apply map_ext_in. intros b Hb. apply filter_In in Hb as [Hb _]. now apply skelD_batch_skel, H.
    + intros b Hb. now apply is_iatD_agree, Hh.
  - f_equal. apply existsb_ext_in. intros b Hb. now apply is_advD_agree, Hh.
Qed.

Corollary read_file_skel ls g s : read_file T ls = Some g -> read_struct ls = Some s -> bridge_okb T s = true ->
  p_file g = skel s.
Proof. intros Hg Hs Hb. rewrite (read_file_skelD ls g s Hg Hs). now apply skelD_skel. Qed.

End Sim.

(* Facts about the structural writer/reader model (C02 blocking and grammar,
   C01 record-sequence round trip, fillers missing or in excess). *)
From ACH Require Import FileStruct.
From Coq Require Import Lia ZifyNat ZifyBool.
Ltac Zify.zify_post_hook ::= Z.div_mod_to_equations.
Open Scope N_scope.

Lemma pad_total n : ((n + pad_count n) mod 10 = 0)%nat.
Proof. unfold pad_count. destruct (Nat.eqb_spec (n mod 10) 0) as [E|E]; lia. Qed.

Lemma pad_lt n : (pad_count n < 10)%nat.
Proof. unfold pad_count. destruct (Nat.eqb_spec (n mod 10) 0) as [E|E]; lia. Qed.

Theorem physical_lines_blocked f : (length (physical_lines f) mod 10 = 0)%nat.
Proof. unfold physical_lines. rewrite app_length, repeat_length. apply pad_total. Qed.

Theorem physical_lines_tail f : exists k, (k < 10)%nat /\
  physical_lines f = (f_hdr f :: flat_map batch_lines (f_batches f)) ++ [f_ctl f] ++ repeat nines k.
Proof.
  exists (pad_count (length (record_lines f))). split; [apply pad_lt|].
  unfold physical_lines, record_lines. cbn [app]. now rewrite <- app_assoc.
Qed.

(* ---------- grammar ---------- *)

Lemma fold_gstep_app s a b : fold_left gstep (a ++ b) s = fold_left gstep b (fold_left gstep a s).
Proof. apply fold_left_app. Qed.

Lemma g_addenda as_ : forallb (fun a => rtype a =? T7) as_ = true -> fold_left gstep as_ GEntry = GEntry.
Proof.
  induction as_ as [|a as_ IH]; intros H; [reflexivity|]. cbn [forallb] in H. apply andb_prop in H as [Ha Hr].
  cbn [fold_left gstep]. apply N.eqb_eq in Ha. rewrite Ha. cbn. now apply IH.
Qed.

Lemma g_entry e s : (s = GBatch \/ s = GEntry) -> entry_typed e = true -> fold_left gstep (entry_lines e) s = GEntry.
Proof.
  intros Hs H. unfold entry_typed in H. apply andb_prop in H as [H6 H7]. apply N.eqb_eq in H6.
  unfold entry_lines. cbn [fold_left]. assert (E : gstep s (e_rec e) = GEntry).
  { destruct Hs as [-> | ->]; cbn [gstep]; rewrite H6; reflexivity. }
  rewrite E. now apply g_addenda.
Qed.

Lemma g_entries es s : (s = GBatch \/ s = GEntry) -> forallb entry_typed es = true ->
  let s' := fold_left gstep (flat_map entry_lines es) s in s' = GBatch \/ s' = GEntry.
Proof.
  revert s. induction es as [|e es IH]; intros s Hs H; cbn [flat_map fold_left]; [exact Hs|].
  cbn [forallb] in H. apply andb_prop in H as [He Hes]. rewrite fold_gstep_app.
  rewrite (g_entry e s Hs He). apply IH; [now right|assumption].
Qed.

Lemma g_batch b : batch_typed b = true -> fold_left gstep (batch_lines b) GFile = GFile.
Proof.
  intros H. unfold batch_typed in H. apply andb_prop in H as [H H8]. apply andb_prop in H as [H5 Hes].
  apply N.eqb_eq in H5, H8. unfold batch_lines. cbn [fold_left]. cbn [gstep]. rewrite H5. cbn.
  rewrite fold_gstep_app. cbn [fold_left].
  destruct (g_entries (b_entries b) GBatch (or_introl eq_refl) Hes) as [-> | ->]; cbn [gstep]; rewrite H8; reflexivity.
Qed.

Lemma g_batches bs : forallb batch_typed bs = true -> fold_left gstep (flat_map batch_lines bs) GFile = GFile.
Proof.
  induction bs as [|b bs IH]; intros H; [reflexivity|]. cbn [forallb] in H. apply andb_prop in H as [Hb Hbs].
  cbn [flat_map]. rewrite fold_gstep_app, (g_batch b Hb). now apply IH.
Qed.

Lemma g_fillers k : fold_left gstep (repeat nines k) GDone = GDone.
Proof.
  induction k as [|k IH]; [reflexivity|]. cbn [repeat fold_left].
  assert (E : gstep GDone nines = GDone) by (vm_compute; reflexivity). rewrite E. exact IH.
Qed.

Theorem grammar_written f : file_typed f = true -> grammar_ok (physical_lines f) = true.
Proof.
  intros H. unfold file_typed in H. apply andb_prop in H as [H H9]. apply andb_prop in H as [H1 Hbs].
  apply N.eqb_eq in H1, H9. unfold grammar_ok, physical_lines, record_lines.
  rewrite fold_gstep_app. cbn [fold_left]. cbn [gstep]. rewrite H1. cbn.
  rewrite fold_gstep_app, (g_batches _ Hbs). cbn [fold_left gstep]. rewrite H9. cbn.
  now rewrite g_fillers.
Qed.

(* ---------- the reader's dispatch inverts the writer's record order ---------- *)

Lemma fold_rstep_app s a b : fold_left rstep (a ++ b) s = fold_left rstep b (fold_left rstep a s).
Proof. apply fold_left_app. Qed.

Ltac tsolve H := rewrite H; reflexivity.

Lemma r_addenda as_ hdr done h e es ctl :
  forallb (fun a => rtype a =? T7) as_ = true ->
  fold_left rstep as_ (Some (mkR hdr done (Some (h, mkEntry (e_rec e) (e_addenda e) :: es)) ctl))
  = Some (mkR hdr done (Some (h, mkEntry (e_rec e) (e_addenda e ++ as_) :: es)) ctl).
Proof.
  revert e. induction as_ as [|a as_ IH]; intros e H; cbn [fold_left]; [now rewrite app_nil_r|].
  cbn [forallb] in H. apply andb_prop in H as [Ha Hr]. apply N.eqb_eq in Ha.
  unfold rstep at 2. rewrite Ha. cbn.
  specialize (IH (mkEntry (e_rec e) (e_addenda e ++ [a])) Hr). cbn [e_rec e_addenda] in IH.
  rewrite IH. now rewrite <- app_assoc.
Qed.

Lemma r_entry e hdr done h es ctl : entry_typed e = true ->
  fold_left rstep (entry_lines e) (Some (mkR hdr done (Some (h, es)) ctl))
  = Some (mkR hdr done (Some (h, e :: es)) ctl).
Proof.
  intros H. unfold entry_typed in H. apply andb_prop in H as [H6 H7]. apply N.eqb_eq in H6.
  unfold entry_lines. cbn [fold_left]. unfold rstep at 2. rewrite H6. cbn.
  pose proof (r_addenda (e_addenda e) hdr done h (mkEntry (e_rec e) []) es ctl H7) as R.
  cbn [e_rec e_addenda app] in R. rewrite R. now destruct e.
Qed.

Lemma r_entries es' hdr done h es ctl : forallb entry_typed es' = true ->
  fold_left rstep (flat_map entry_lines es') (Some (mkR hdr done (Some (h, es)) ctl))
  = Some (mkR hdr done (Some (h, rev es' ++ es)) ctl).
Proof.
  revert es. induction es' as [|e es' IH]; intros es H; [reflexivity|].
  cbn [forallb] in H. apply andb_prop in H as [He Hes]. cbn [flat_map]. rewrite fold_rstep_app, (r_entry e _ _ _ _ _ He).
  rewrite IH by assumption. cbn [rev]. now rewrite <- app_assoc.
Qed.

Lemma r_batch b hdr done ctl : batch_typed b = true ->
  fold_left rstep (batch_lines b) (Some (mkR hdr done None ctl)) = Some (mkR hdr (b :: done) None ctl).
Proof.
  intros H. unfold batch_typed in H. apply andb_prop in H as [H H8]. apply andb_prop in H as [H5 Hes].
  apply N.eqb_eq in H5, H8. unfold batch_lines. cbn [fold_left]. unfold rstep at 2. rewrite H5. cbn.
  rewrite fold_rstep_app, (r_entries _ _ _ _ _ _ Hes). cbn [fold_left]. unfold rstep. rewrite H8. cbn.
  rewrite app_nil_r, rev_involutive. now destruct b.
Qed.

Lemma r_batches bs hdr done ctl : forallb batch_typed bs = true ->
  fold_left rstep (flat_map batch_lines bs) (Some (mkR hdr done None ctl)) = Some (mkR hdr (rev bs ++ done) None ctl).
Proof.
  revert done. induction bs as [|b bs IH]; intros done H; [reflexivity|].
  cbn [forallb] in H. apply andb_prop in H as [Hb Hbs]. cbn [flat_map].
  rewrite fold_rstep_app, (r_batch b _ _ _ Hb), IH by assumption. cbn [rev]. now rewrite <- app_assoc.
Qed.

Lemma r_fillers k s : fold_left rstep (repeat nines k) (Some s) = Some s.
Proof. induction k as [|k IH]; [reflexivity|]. cbn [repeat fold_left]. exact IH. Qed.

(* every number of trailing filler records (none, fewer, more than the writer's) gives the same file *)
Theorem read_struct_written f k : file_typed f = true -> starts99 (f_ctl f) = false ->
  read_struct (record_lines f ++ repeat nines k) = Some f.
Proof.
  intros H Hc. unfold file_typed in H. apply andb_prop in H as [H H9]. apply andb_prop in H as [H1 Hbs].
  apply N.eqb_eq in H1, H9. unfold read_struct, record_lines.
  rewrite fold_rstep_app. cbn [fold_left app]. unfold rstep at 3. rewrite H1. cbn.
  rewrite fold_rstep_app, (r_batches _ _ _ _ Hbs). cbn [fold_left]. unfold rstep at 2. rewrite H9. cbn. rewrite Hc.
  rewrite r_fillers. rewrite app_nil_r, rev_involutive. now destruct f.
Qed.

Corollary read_struct_physical f : file_typed f = true -> starts99 (f_ctl f) = false ->
  read_struct (physical_lines f) = Some f.
Proof. intros. unfold physical_lines. now apply read_struct_written. Qed.

(* non-vacuity: a two-batch file with addenda satisfies the hypotheses *)
Definition ex_line (t : N) (x : N) : bytes := t :: repeat x 93.
Definition ex_file : fileS :=
  mkFile (ex_line T1 65)
    [mkBatch (ex_line T5 66) [mkEntry (ex_line T6 67) [ex_line T7 68; ex_line T7 69]; mkEntry (ex_line T6 70) []] (ex_line T8 71);
     mkBatch (ex_line T5 72) [mkEntry (ex_line T6 73) [ex_line T7 74]] (ex_line T8 75)]
    (ex_line T9 48).
Lemma ex_file_ok : file_typed ex_file = true /\ starts99 (f_ctl ex_file) = false /\
  read_struct (physical_lines ex_file) = Some ex_file /\ grammar_ok (physical_lines ex_file) = true /\
  length (physical_lines ex_file) = 20%nat.
Proof. vm_compute. repeat split; reflexivity. Qed.

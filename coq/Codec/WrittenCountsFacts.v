(* C02 control counts: the numbers written in the count columns of the control
   lines of a file tabulated by Create equal what is physically present in the
   written text (Props/C02Counts.v).

   A. counting on the structural model (FileStruct): for every typed file the
      '5' lines, '6'/'7' lines, '5'..'8' segments and the number of records of
      [physical_lines], by induction over batches / entries / addenda;
      the filler for every residue mod 10.
   B. the typed tree (Dispatch): the tree's shape types its written lines; the
      C05 model's [count] over the projection is the number of entry+addenda
      lines the writer emits for the batch.
   C. declared quantities: the count columns of a rendered control record hold
      the record's field modulo 10^width (generic in the layout, [col_ok]).
   D. composition. *)
From Coq Require Import String List Lia Bool ZArith NArith.
From ACH Require Import WrittenCounts NumFacts LayoutFacts LayoutRoundtrip FileStructFacts DispatchFacts.
Import ListNotations.
Local Open Scope string_scope.
Local Open Scope nat_scope.
Local Open Scope list_scope.

Ltac Zify.zify_post_hook ::= Z.div_mod_to_equations.

(* ------------------------------------------------------------------ *)
(* A. counting lines                                                    *)

Lemma count_type_app t a b : count_type t (a ++ b) = count_type t a + count_type t b.
Proof. unfold count_type. now rewrite filter_app, app_length. Qed.

Lemma count_type_cons t l ls : count_type t (l :: ls) = (if is_type t l then 1 else 0) + count_type t ls.
Proof. unfold count_type. cbn [filter]. destruct (is_type t l); reflexivity. Qed.

Lemma count_type_nil t : count_type t [] = 0.
Proof. reflexivity. Qed.

Lemma entry_addenda_lines_app a b : entry_addenda_lines (a ++ b) = entry_addenda_lines a + entry_addenda_lines b.
Proof. unfold entry_addenda_lines. rewrite !count_type_app. lia. Qed.

Lemma is_type_of t u l : is_type t l = true -> is_type u l = (t =? u)%N.
Proof. unfold is_type. intros H. apply N.eqb_eq in H. now rewrite H. Qed.

(* a '6' or '7' line *)
Definition is67 (l : bytes) : bool := is_type T6 l || is_type T7 l.

Lemma is67_types l : is67 l = true ->
  is_type T5 l = false /\ is_type T8 l = false
  /\ (if is_type T6 l then 1 else 0) + (if is_type T7 l then 1 else 0) = 1.
Proof.
  unfold is67. intros H. apply orb_prop in H as [H|H];
    rewrite (is_type_of _ T5 _ H), (is_type_of _ T8 _ H), (is_type_of _ T6 _ H), (is_type_of _ T7 _ H);
    repeat split; reflexivity.
Qed.

Lemma inner_counts ls : forallb is67 ls = true ->
  count_type T5 ls = 0 /\ count_type T8 ls = 0 /\ entry_addenda_lines ls = length ls.
Proof.
  unfold entry_addenda_lines. induction ls as [|l ls IH]; intros H; [repeat split; reflexivity|].
  cbn [forallb] in H. apply andb_prop in H as [Hl Hls]. destruct (IH Hls) as (I5 & I8 & I67).
  destruct (is67_types l Hl) as (E5 & E8 & E67).
  rewrite !count_type_cons, E5, E8, I5, I8. cbn [length]. repeat split; lia.
Qed.

Lemma inner_segments ls : forallb is67 ls = true -> forall acc c rest, is_type T8 c = true ->
  segments (Some acc) (ls ++ c :: rest) = (rev acc ++ ls, c) :: segments None rest.
Proof.
  induction ls as [|l ls IH]; intros H acc c rest Hc.
  - cbn [app segments]. rewrite (is_type_of _ T5 _ Hc), Hc. change (T8 =? T5)%N with false. cbv iota.
    now rewrite app_nil_r.
  - cbn [forallb] in H. apply andb_prop in H as [Hl Hls]. destruct (is67_types l Hl) as (E5 & E8 & _).
    cbn [app segments]. rewrite E5, E8. rewrite (IH Hls (l :: acc) c rest Hc). cbn [rev]. now rewrite <- app_assoc.
Qed.

(* the lines of the entries of a batch *)
Definition inner_lines (b : batchS) : list bytes := flat_map entry_lines (b_entries b).

Lemma entry_lines_67 e : entry_typed e = true -> forallb is67 (entry_lines e) = true.
Proof.
  unfold entry_typed, entry_lines. intros H. apply andb_prop in H as [H6 H7]. cbn [forallb].
  apply andb_true_intro. split.
  - unfold is67, is_type. now rewrite H6.
  - induction (e_addenda e) as [|a l IH]; [reflexivity|]. cbn [forallb] in H7 |- *.
    apply andb_prop in H7 as [Ha Hl]. apply andb_true_intro. split; [|now apply IH].
    unfold is67, is_type. rewrite Ha. apply orb_true_r.
Qed.

Lemma entries_lines_67 es : forallb entry_typed es = true -> forallb is67 (flat_map entry_lines es) = true.
Proof.
  induction es as [|e es IH]; intros H; [reflexivity|]. cbn [forallb] in H. apply andb_prop in H as [He Hes].
  cbn [flat_map]. rewrite forallb_app, (entry_lines_67 e He), (IH Hes). reflexivity.
Qed.

Lemma batch_typed_parts b : batch_typed b = true ->
  is_type T5 (b_hdr b) = true /\ forallb is67 (inner_lines b) = true /\ is_type T8 (b_ctl b) = true.
Proof.
  unfold batch_typed. intros H. apply andb_prop in H as [H H8]. apply andb_prop in H as [H5 Hes].
  repeat split; [exact H5|now apply entries_lines_67|exact H8].
Qed.

Lemma batch_lines_inner b : batch_lines b = b_hdr b :: inner_lines b ++ [b_ctl b].
Proof. reflexivity. Qed.

Lemma batch_segment b rest : batch_typed b = true ->
  segments None (batch_lines b ++ rest) = (inner_lines b, b_ctl b) :: segments None rest.
Proof.
  intros H. destruct (batch_typed_parts b H) as (H5 & Hin & H8).
  rewrite batch_lines_inner. cbn [app segments]. rewrite H5. rewrite <- app_assoc. cbn [app].
  now rewrite (inner_segments _ Hin [] (b_ctl b) rest H8).
Qed.

Lemma batch_counts b : batch_typed b = true ->
  count_type T5 (batch_lines b) = 1 /\ entry_addenda_lines (batch_lines b) = length (inner_lines b)
  /\ length (batch_lines b) = 2 + length (inner_lines b).
Proof.
  intros H. destruct (batch_typed_parts b H) as (H5 & Hin & H8). destruct (inner_counts _ Hin) as (I5 & I8 & I67).
  rewrite batch_lines_inner. unfold entry_addenda_lines in *.
  rewrite !count_type_cons, !count_type_app, !count_type_cons, !count_type_nil.
  rewrite H5, (is_type_of _ T6 _ H5), (is_type_of _ T7 _ H5), (is_type_of _ T5 _ H8), (is_type_of _ T6 _ H8), (is_type_of _ T7 _ H8).
  change (T5 =? T6)%N with false. change (T5 =? T7)%N with false. change (T8 =? T5)%N with false.
  change (T8 =? T6)%N with false. change (T8 =? T7)%N with false. cbv iota.
  cbn [length]. rewrite app_length. cbn [length]. repeat split; lia.
Qed.

Lemma batches_segments bs rest : forallb batch_typed bs = true ->
  segments None (flat_map batch_lines bs ++ rest)
  = map (fun b => (inner_lines b, b_ctl b)) bs ++ segments None rest.
Proof.
  induction bs as [|b bs IH]; intros H; [reflexivity|]. cbn [forallb] in H. apply andb_prop in H as [Hb Hbs].
  cbn [flat_map map app]. rewrite <- app_assoc, (batch_segment b _ Hb), (IH Hbs). reflexivity.
Qed.

Lemma batches_counts bs : forallb batch_typed bs = true ->
  count_type T5 (flat_map batch_lines bs) = length bs
  /\ entry_addenda_lines (flat_map batch_lines bs) = list_sum (map (fun b => length (inner_lines b)) bs)
  /\ length (flat_map batch_lines bs) = list_sum (map (fun b => 2 + length (inner_lines b)) bs).
Proof.
  induction bs as [|b bs IH]; intros H; [repeat split; reflexivity|].
  cbn [forallb] in H. apply andb_prop in H as [Hb Hbs]. destruct (IH Hbs) as (I5 & I67 & Il).
  destruct (batch_counts b Hb) as (B5 & B67 & Bl).
  cbn [flat_map map length]. rewrite !list_sum_cons, count_type_app, entry_addenda_lines_app, app_length.
  repeat split; lia.
Qed.

(* file control and filler: '9' lines *)
Lemma nines_is9 : is_type T9 nines = true.
Proof. vm_compute. reflexivity. Qed.

Lemma tail9_counts ls : forallb (is_type T9) ls = true ->
  count_type T5 ls = 0 /\ entry_addenda_lines ls = 0 /\ segments None ls = [].
Proof.
  unfold entry_addenda_lines. induction ls as [|l ls IH]; intros H; [repeat split; reflexivity|].
  cbn [forallb] in H. apply andb_prop in H as [Hl Hls]. destruct (IH Hls) as (I5 & I67 & Is).
  rewrite !count_type_cons, (is_type_of _ T5 _ Hl), (is_type_of _ T6 _ Hl), (is_type_of _ T7 _ Hl).
  change (T9 =? T5)%N with false. change (T9 =? T6)%N with false. change (T9 =? T7)%N with false. cbv iota.
  cbn [segments]. rewrite (is_type_of _ T5 _ Hl), (is_type_of _ T8 _ Hl).
  change (T9 =? T5)%N with false. change (T9 =? T8)%N with false. cbv iota.
  repeat split; [lia|lia|exact Is].
Qed.

Lemma fillers_9 k : forallb (is_type T9) (repeat nines k) = true.
Proof. induction k as [|k IH]; [reflexivity|]. cbn [repeat forallb]. now rewrite nines_is9, IH. Qed.

(* the writer's padding, for every residue *)
Lemma pad_count_residue n : pad_count n = (10 - n mod 10) mod 10.
Proof. unfold pad_count. destruct (Nat.eqb_spec (n mod 10) 0) as [E|E]; lia. Qed.

Lemma padded_blocks n : n + pad_count n = 10 * (if n mod 10 =? 0 then n / 10 else n / 10 + 1).
Proof. unfold pad_count. destruct (Nat.eqb_spec (n mod 10) 0) as [E|E]; lia. Qed.

Lemma padded_div n : (n + pad_count n) / 10 = (if n mod 10 =? 0 then n / 10 else n / 10 + 1).
Proof. rewrite padded_blocks. destruct (n mod 10 =? 0); lia. Qed.

Lemma physical_lines_split s :
  physical_lines s = record_lines s ++ repeat nines ((10 - length (record_lines s) mod 10) mod 10).
Proof. unfold physical_lines. now rewrite pad_count_residue. Qed.

Theorem struct_counts s : file_typed s = true ->
  let ls := physical_lines s in
  batch_header_lines ls = length (f_batches s)
  /\ entry_addenda_lines ls = list_sum (map (fun b => length (inner_lines b)) (f_batches s))
  /\ batch_segments ls = map (fun b => (inner_lines b, b_ctl b)) (f_batches s)
  /\ length (record_lines s) = 2 + list_sum (map (fun b => 2 + length (inner_lines b)) (f_batches s))
  /\ Forall (fun b => entry_addenda_lines (inner_lines b) = length (inner_lines b)) (f_batches s).
Proof.
  intros H. unfold file_typed in H. apply andb_prop in H as [H H9]. apply andb_prop in H as [H1 Hbs].
  cbv zeta. unfold physical_lines, record_lines, batch_header_lines, batch_segments.
  set (k := pad_count _). clearbody k.
  assert (Htail : forallb (is_type T9) ([f_ctl s] ++ repeat nines k) = true).
  { cbn [app forallb]. unfold is_type at 1. now rewrite H9, fillers_9. }
  destruct (tail9_counts _ Htail) as (T5c & T67 & Tseg).
  destruct (batches_counts _ Hbs) as (B5 & B67 & Bl).
  assert (E : (f_hdr s :: flat_map batch_lines (f_batches s) ++ [f_ctl s]) ++ repeat nines k
              = f_hdr s :: flat_map batch_lines (f_batches s) ++ ([f_ctl s] ++ repeat nines k)).
  { cbn [app]. now rewrite <- app_assoc. }
  rewrite E. clear E. set (tl := [f_ctl s] ++ repeat nines k) in *. clearbody tl.
  assert (H1' : is_type T1 (f_hdr s) = true) by exact H1.
  repeat split.
  - rewrite count_type_cons, count_type_app, (is_type_of _ T5 _ H1'). change (T1 =? T5)%N with false. cbv iota. lia.
  - unfold entry_addenda_lines in *. rewrite !count_type_cons, !count_type_app, (is_type_of _ T6 _ H1'), (is_type_of _ T7 _ H1').
    change (T1 =? T6)%N with false. change (T1 =? T7)%N with false. cbv iota. lia.
  - cbn [segments]. rewrite (is_type_of _ T5 _ H1'), (is_type_of _ T8 _ H1').
    change (T1 =? T5)%N with false. change (T1 =? T8)%N with false. cbv iota.
    rewrite (batches_segments _ _ Hbs), Tseg. now rewrite app_nil_r.
  - cbn [length]. rewrite app_length. cbn [length]. lia.
  - apply Forall_forall. intros b Hb. rewrite forallb_forall in Hbs.
    destruct (batch_typed_parts b (Hbs b Hb)) as (_ & Hin & _). now destruct (inner_counts _ Hin) as (_ & _ & ->).
Qed.

(* ------------------------------------------------------------------ *)
(* B. the typed tree                                                    *)

(* entry + addenda records of a batch of the tree *)
Definition tree_count (b : batchR) : nat := list_sum (map (fun e => S (length (en_addenda e))) (bt_entries b)).

Lemma built_count_tree b : built_count b = Z.of_nat (tree_count b).
Proof.
  unfold built_count, tree_count, o_batch. cbn [Offsets.b_entries]. unfold Offsets.count.
  induction (bt_entries b) as [|e es IH]; [reflexivity|].
  cbn [map Offsets.sumf]. rewrite list_sum_cons, IH. unfold o_entry at 1. cbn [Offsets.e_addenda]. lia.
Qed.

Lemma sumb_map_nat (g : Offsets.batch -> Z) (h : batchR -> nat) bs :
  (forall b, In b bs -> g (o_batch b) = Z.of_nat (h b)) ->
  Offsets.sumb g (map o_batch bs) = Z.of_nat (list_sum (map h bs)).
Proof.
  induction bs as [|b bs IH]; intros H; [reflexivity|]. cbn [map Offsets.sumb]. rewrite list_sum_cons.
  rewrite (H b (or_introl eq_refl)), IH; [lia|]. intros b' Hb'. apply H. now right.
Qed.

Lemma existsb_false_all {A} (p : A -> bool) l x : existsb p l = false -> In x l -> p x = false.
Proof.
  intros H Hx. destruct (p x) eqn:E; [|reflexivity]. rewrite <- H. symmetry. apply existsb_exists. now exists x.
Qed.

(* what createFileADV checks: ADV and other batches are not mixed *)
Lemma adv_only_uniform f b : adv_only f = true -> In b (fl_batches f) ->
  Bool.eqb (is_adv (bt_hdr b)) (any_adv (fl_batches f)) = true.
Proof.
  unfold adv_only. intros H Hb. destruct (any_adv (fl_batches f)) eqn:E.
  - rewrite forallb_forall in H. now rewrite (H b Hb).
  - unfold any_adv in E. now rewrite (existsb_false_all _ _ b E Hb).
Qed.

Lemma created_all f : adv_no_iat f = true -> created_batches f = all_batches f.
Proof.
  unfold adv_no_iat, created_batches, all_batches. intros H. destruct (any_adv (fl_batches f)); [|reflexivity].
  cbn [negb orb] in H. destruct (fl_iat f); [now rewrite app_nil_r|discriminate].
Qed.

Lemma last_snoc {A} (l : list A) x d : last (l ++ [x]) d = x.
Proof. induction l as [|y l IH]; [reflexivity|]. cbn [app]. destruct (l ++ [x]) eqn:E; [now destruct l|exact IH]. Qed.

Lemma Zrem_quot_blocks n :
  (if Z.rem (Z.of_nat n) 10 =? 0 then Z.quot (Z.of_nat n) 10 else Z.quot (Z.of_nat n) 10 + 1)%Z
  = Z.of_nat (if n mod 10 =? 0 then n / 10 else n / 10 + 1).
Proof.
  rewrite Z.rem_mod_nonneg, Z.quot_div_nonneg by lia.
  destruct (Nat.eqb_spec (n mod 10) 0) as [E|E]; destruct (Z.eqb_spec (Z.of_nat n mod 10) 0) as [E'|E']; lia.
Qed.

Record tab_facts (f : fileR) : Prop := {
  tf_batches : forall b, In b (all_batches f) -> geti (r_val (bt_ctl b)) "EntryAddendaCount" = Z.of_nat (tree_count b);
  tf_adv : adv_only f = true;
  tf_count : geti (r_val (fl_ctl f)) "BatchCount" = Z.of_nat (length (all_batches f));
  tf_entries : geti (r_val (fl_ctl f)) "EntryAddendaCount" = Z.of_nat (list_sum (map tree_count (all_batches f)));
  tf_blocks : geti (r_val (fl_ctl f)) "BlockCount"
              = Z.of_nat (let n := 2 + list_sum (map (fun b => 2 + tree_count b) (all_batches f)) in
                          if n mod 10 =? 0 then n / 10 else n / 10 + 1) }.

(* [tabulatedb] unfolded: the C05 model's File.Create arithmetic over the projection, in terms of the tree *)
Lemma tabulated_facts f : tabulatedb f = true -> adv_no_iat f = true -> tab_facts f.
Proof.
  unfold tabulatedb. intros H Hno. apply andb_prop in H as [Hb Hf].
  assert (Hbs : forall b, In b (all_batches f) -> geti (r_val (bt_ctl b)) "EntryAddendaCount" = Z.of_nat (tree_count b)).
  { intros b Hin. rewrite forallb_forall in Hb. specialize (Hb b Hin). unfold batch_tabulatedb in Hb.
    apply Z.eqb_eq in Hb. now rewrite Hb, built_count_tree. }
  unfold file_tabulatedb in Hf. cbv zeta in Hf.
  repeat match type of Hf with _ && _ = true => let K := fresh "K" in apply andb_prop in Hf as [Hf K] end.
  apply Z.eqb_eq in K, K0, K1. unfold created_control in K, K0, K1. rewrite (created_all f Hno) in K, K0, K1.
  unfold Offsets.file_control in K, K0, K1. cbn [Offsets.fc_batches Offsets.fc_blocks Offsets.fc_count] in K, K0, K1.
  assert (Hc : forall b, In b (all_batches f) ->
                 Offsets.c_count (Offsets.b_ctl (o_batch b)) = Z.of_nat (tree_count b)).
  { intros b Hin. unfold o_batch, o_control. cbn [Offsets.b_ctl Offsets.c_count]. now apply Hbs. }
  constructor.
  - exact Hbs.
  - exact Hf.
  - rewrite K1, map_length. reflexivity.
  - rewrite K. apply sumb_map_nat. exact Hc.
  - rewrite K0.
    rewrite (sumb_map_nat (fun b => (2 + Offsets.c_count (Offsets.b_ctl b))%Z) (fun b => 2 + tree_count b)).
    + change 2%Z with (Z.of_nat 2). rewrite <- Nat2Z.inj_add. apply Zrem_quot_blocks.
    + intros b Hin. rewrite (Hc b Hin). lia.
Qed.

Lemma Forall_map_iff {A B} (P : B -> Prop) (g : A -> B) l : Forall P (map g l) <-> Forall (fun x => P (g x)) l.
Proof. apply Forall_map. Qed.

Lemma list_sum_map_add {A} (h : A -> nat) l : list_sum (map (fun x => 2 + h x) l) = 2 * length l + list_sum (map h l).
Proof. induction l as [|x l IH]; [reflexivity|]. cbn [map length]. rewrite !list_sum_cons. lia. Qed.

Lemma map_pair_combine {A B C} (g : A -> B) (h : A -> C) l : map (fun x => (g x, h x)) l = combine (map g l) (map h l).
Proof. induction l as [|x l IH]; [reflexivity|]. cbn [map combine]. now rewrite IH. Qed.

Definition blocks_of (n : nat) : nat := if n mod 10 =? 0 then n / 10 else n / 10 + 1.

Lemma Forall_of_map {A B} (q : A -> B) (P : B -> Prop) l : Forall P (map q l) -> Forall (fun x => P (q x)) l.
Proof. apply Forall_map. Qed.

(* the C05 model's file control is the physical count: what the bounds are about *)
Lemma bounds_physical f : tabulatedb f = true -> adv_no_iat f = true -> count_boundsb f = true ->
  (Z.of_nat (length (all_batches f)) < pow10 6)%Z
  /\ (Z.of_nat (list_sum (map tree_count (all_batches f))) < pow10 8)%Z
  /\ (Z.of_nat (blocks_of (2 + list_sum (map (fun b => 2 + tree_count b) (all_batches f)))%nat) < pow10 6)%Z
  /\ (forall b, In b (all_batches f) -> (Z.of_nat (tree_count b) < pow10 6)%Z).
Proof.
  intros Htab Hno Hb. destruct (tabulated_facts f Htab Hno) as [Fb Fadv Fn Fe Fk].
  unfold tabulatedb in Htab. apply andb_prop in Htab as [_ Hf]. unfold file_tabulatedb in Hf. cbv zeta in Hf.
  repeat match type of Hf with _ && _ = true => let K := fresh "K" in apply andb_prop in Hf as [Hf K] end.
  apply Z.eqb_eq in K, K0, K1.
  unfold count_boundsb in Hb. cbv zeta in Hb.
  repeat match type of Hb with _ && _ = true => let B := fresh "B" in apply andb_prop in Hb as [Hb B] end.
  apply Z.ltb_lt in B, B0, B1. rewrite <- K in B. rewrite <- K0 in B0. rewrite <- K1 in B1.
  rewrite Fn in B1. rewrite Fe in B. rewrite Fk in B0. cbv zeta in B0.
  repeat split; try assumption.
  intros b Hin. rewrite forallb_forall in Hb. specialize (Hb b Hin). apply Z.ltb_lt in Hb. now rewrite built_count_tree in Hb.
Qed.

(* ------------------------------------------------------------------ *)
(* the count part of Create as a function: its result is tabulated       *)

Lemma geti_set_same x f z : geti (r_val (set_int x f z)) f = z.
Proof. unfold set_int, geti. cbn [r_val lookup]. now rewrite String.eqb_refl. Qed.

Lemma geti_set_other x f g z : String.eqb f g = false -> geti (r_val (set_int x g z)) f = geti (r_val x) f.
Proof. intros H. unfold set_int, geti. cbn [r_val lookup]. now rewrite H. Qed.

Lemma built_count_tabulate b : built_count (tabulate_batch b) = built_count b.
Proof. reflexivity. Qed.

Lemma tabulate_batch_tabulated b : batch_tabulatedb (tabulate_batch b) = true.
Proof.
  unfold batch_tabulatedb. rewrite built_count_tabulate. unfold tabulate_batch. cbn [bt_ctl].
  rewrite geti_set_same. apply Z.eqb_refl.
Qed.

Lemma any_adv_tabulate bs : any_adv (map tabulate_batch bs) = any_adv bs.
Proof. unfold any_adv. induction bs as [|b bs IH]; [reflexivity|]. cbn [map existsb]. now rewrite IH. Qed.

Lemma forallb_adv_tabulate bs :
  forallb (fun b => is_adv (bt_hdr b)) (map tabulate_batch bs) = forallb (fun b => is_adv (bt_hdr b)) bs.
Proof. induction bs as [|b bs IH]; [reflexivity|]. cbn [map forallb]. now rewrite IH. Qed.

Lemma all_batches_tabulate f : all_batches (tabulate f) = map tabulate_batch (all_batches f).
Proof. unfold all_batches, tabulate. cbn [fl_batches fl_iat]. now rewrite map_app. Qed.

Lemma adv_only_tabulate f : adv_only (tabulate f) = adv_only f.
Proof. unfold adv_only, tabulate. cbn [fl_batches]. now rewrite any_adv_tabulate, forallb_adv_tabulate. Qed.

Lemma adv_no_iat_tabulate f : adv_no_iat (tabulate f) = adv_no_iat f.
Proof.
  unfold adv_no_iat, tabulate. cbn [fl_batches fl_iat]. rewrite any_adv_tabulate. now destruct (fl_iat f).
Qed.

Lemma created_control_tabulate f :
  created_control (tabulate f)
  = created_control (mkFil (fl_hdr f) (map tabulate_batch (fl_batches f)) (map tabulate_batch (fl_iat f)) (fl_ctl f)).
Proof. reflexivity. Qed.

(* running the count part of Create yields a tabulated file (whenever createFileADV does not refuse it) *)
Theorem tabulate_tabulated f : adv_only f = true -> tabulatedb (tabulate f) = true.
Proof.
  intros Hadv. unfold tabulatedb. apply andb_true_intro. split.
  - rewrite all_batches_tabulate. apply forallb_forall. intros b Hb. apply in_map_iff in Hb as (b0 & <- & _).
    apply tabulate_batch_tabulated.
  - unfold file_tabulatedb. cbv zeta. rewrite adv_only_tabulate, Hadv, created_control_tabulate.
    set (c := created_control _). unfold tabulate. cbn [fl_ctl]. fold c.
    rewrite geti_set_same.
    rewrite (geti_set_other _ "BlockCount" "EntryAddendaCount") by reflexivity. rewrite geti_set_same.
    rewrite (geti_set_other _ "BatchCount" "EntryAddendaCount") by reflexivity.
    rewrite (geti_set_other _ "BatchCount" "BlockCount") by reflexivity. rewrite geti_set_same.
    now rewrite !Z.eqb_refl.
Qed.

(* storing a count keeps the record fitting *)
Lemma lookup_set_other (r : recval) f g v : String.eqb g f = false -> lookup ((f, v) :: r) g = lookup r g.
Proof. intros H. cbn [lookup]. now rewrite H. Qed.

Lemma fitsb_set_num L r f z : plain_num_layout L f = true -> (0 <= z <= max_int64)%Z ->
  fitsb L r = true -> fitsb L ((f, VI z) :: r) = true.
Proof.
  intros Hp Hz Hfit. unfold fitsb in *. apply andb_prop in Hfit as [Hw Hi].
  unfold plain_num_layout in Hp. rewrite forallb_forall in Hp.
  assert (Hg : forall g, String.eqb g f = false -> gets ((f, VI z) :: r) g = gets r g)
    by (intros g E; unfold gets; now rewrite (lookup_set_other r f g _ E)).
  assert (Hgi : forall g, String.eqb g f = false -> geti ((f, VI z) :: r) g = geti r g)
    by (intros g E; unfold geti; now rewrite (lookup_set_other r f g _ E)).
  apply andb_true_intro. split.
  - unfold widthb in *. destruct (cols L) as [cs|] eqn:Ec; [|discriminate].
    pose proof (cols_from_segs _ _ _ _ Ec) as Hsegs.
    apply forallb_forall. intros x Hx. rewrite forallb_forall in Hw. specialize (Hw x Hx).
    assert (Hin : In (cs_seg x) (l_segs L)) by (rewrite <- Hsegs; now apply in_map).
    specialize (Hp _ Hin). unfold seg_widthb in *.
    destruct (cs_seg x) as [bs|g w|g w|g w|g|g|n h|src]; try discriminate; try exact Hw;
      apply negb_true_iff in Hp; rewrite ?(Hg g Hp), ?(Hgi g Hp); exact Hw.
  - apply forallb_forall. intros s Hs. rewrite forallb_forall in Hi. specialize (Hi s Hs).
    destruct s as [bs|g w|g w|g w|g|g|n h|src]; cbn [seg_intb] in *; try reflexivity.
    destruct (String.eqb g f) eqn:E.
    + apply String.eqb_eq in E. subst g. unfold geti. cbn [lookup]. rewrite String.eqb_refl.
      apply andb_true_intro. split; apply Z.leb_le; lia.
    + now rewrite (Hgi g E).
Qed.

Lemma map_eq_pairs {A B C D} (g1 : A -> C) (h1 : B -> C) (g2 : A -> D) (h2 : B -> D) l1 : forall l2,
  map g1 l1 = map h1 l2 -> map g2 l1 = map h2 l2 ->
  forall x, In x l1 -> exists y, In y l2 /\ g1 x = h1 y /\ g2 x = h2 y.
Proof.
  induction l1 as [|a l1 IH]; intros [|b l2] E1 E2 x Hx; try discriminate; [destruct Hx|].
  cbn [map] in E1, E2. injection E1 as Ea E1. injection E2 as Eb E2. destruct Hx as [<-|Hx].
  - exists b. repeat split; auto. now left.
  - destruct (IH l2 E1 E2 x Hx) as (y & Hy & Hg). exists y. split; [now right|assumption].
Qed.

Section Tree.
Variable T : list layout.
Hypothesis T_ok : forallb layout_ok T = true.

Lemma rec_is_type t x : rec_is T t x = true -> is_type t (render_rec T x) = true.
Proof.
  unfold rec_is, first_digit, render_rec, is_type. destruct (layout_of T (r_kind x)) as [L|]; [|discriminate].
  destruct (l_segs L) as [|s1 rest] eqn:E; [discriminate|].
  destruct s1 as [l|? ?|? ?|? ?|?|?|? ?|?]; try discriminate.
  destruct l as [|c l']; [discriminate|]. destruct l'; [|discriminate].
  intros H. now rewrite (rendered_first_byte L _ c rest E).
Qed.

Lemma entry_S_typed e : entry_shape T e = true -> entry_typed (entry_S T e) = true.
Proof.
  unfold entry_shape, entry_typed, entry_S. cbn [e_rec e_addenda]. intros H. apply andb_prop in H as [H6 H7].
  apply andb_true_intro. split; [exact (rec_is_type _ _ H6)|].
  induction (en_addenda e) as [|a l IH]; [reflexivity|]. cbn [forallb map] in H7 |- *.
  apply andb_prop in H7 as [Ha Hl]. apply andb_true_intro. split; [exact (rec_is_type _ _ Ha)|now apply IH].
Qed.

Lemma entries_S_typed es : forallb (entry_shape T) es = true -> forallb entry_typed (map (entry_S T) es) = true.
Proof.
  induction es as [|e es IH]; intros H; [reflexivity|]. cbn [forallb map] in H |- *. apply andb_prop in H as [He Hes].
  now rewrite (entry_S_typed e He), (IH Hes).
Qed.

Lemma std_batch_S_typed adv b : batch_shape T b = true -> batch_typed (std_batch_S T adv b) = true.
Proof.
  unfold batch_shape, batch_typed, std_batch_S. cbn [b_hdr b_entries b_ctl]. intros H.
  apply andb_prop in H as [H _]. apply andb_prop in H as [H H8]. apply andb_prop in H as [H5 Hes].
  apply andb_true_intro. split; [apply andb_true_intro; split|]; [exact (rec_is_type _ _ H5)| |exact (rec_is_type _ _ H8)].
  destruct (Bool.eqb (is_adv (bt_hdr b)) adv); [now apply entries_S_typed|reflexivity].
Qed.

Lemma iat_batch_S_typed b : batch_shape T b = true -> batch_typed (iat_batch_S T b) = true.
Proof.
  unfold batch_shape, batch_typed, iat_batch_S. cbn [b_hdr b_entries b_ctl]. intros H.
  apply andb_prop in H as [H _]. apply andb_prop in H as [H H8]. apply andb_prop in H as [H5 Hes].
  apply andb_true_intro. split; [apply andb_true_intro; split|]; [exact (rec_is_type _ _ H5)| |exact (rec_is_type _ _ H8)].
  now apply entries_S_typed.
Qed.

Lemma forallb_map' {A B} (p : B -> bool) (g : A -> B) l : forallb p (map g l) = forallb (fun x => p (g x)) l.
Proof. induction l as [|x l IH]; [reflexivity|]. cbn [map forallb]. now rewrite IH. Qed.

(* the shape of the tree types the written lines *)
Theorem shape_typed f : shape_ok T f = true -> file_typed (struct_of T f) = true.
Proof.
  unfold shape_ok, file_typed, struct_of. cbn [f_hdr f_batches f_ctl]. intros H.
  apply andb_prop in H as [H _]. apply andb_prop in H as [H H9]. apply andb_prop in H as [H Hiat]. apply andb_prop in H as [H1 Hstd].
  apply andb_true_intro. split; [apply andb_true_intro; split|]; [exact (rec_is_type _ _ H1)| |exact (rec_is_type _ _ H9)].
  rewrite forallb_app, !forallb_map'. apply andb_true_intro. split.
  - apply forallb_forall. intros b Hb. rewrite forallb_forall in Hstd. now apply std_batch_S_typed, Hstd.
  - apply forallb_forall. intros b Hb. rewrite forallb_forall in Hiat. now apply iat_batch_S_typed, Hiat.
Qed.

Lemma inner_len_entries es :
  length (flat_map entry_lines (map (entry_S T) es)) = list_sum (map (fun e => S (length (en_addenda e))) es).
Proof.
  induction es as [|e es IH]; [reflexivity|]. cbn [map flat_map]. rewrite list_sum_cons, app_length, IH.
  unfold entry_lines, entry_S. cbn [e_rec e_addenda length]. now rewrite map_length.
Qed.

Lemma std_inner_len adv b : Bool.eqb (is_adv (bt_hdr b)) adv = true ->
  length (inner_lines (std_batch_S T adv b)) = tree_count b.
Proof. intros H. unfold inner_lines, std_batch_S, tree_count. cbn [b_entries]. rewrite H. apply inner_len_entries. Qed.

Lemma iat_inner_len b : length (inner_lines (iat_batch_S T b)) = tree_count b.
Proof. unfold inner_lines, iat_batch_S, tree_count. cbn [b_entries]. apply inner_len_entries. Qed.

(* the batches of the written file, one per batch of the tree, each with as many entry/addenda lines as the tree has records *)
Lemma struct_batches f : adv_only f = true ->
  map (fun b => length (inner_lines b)) (f_batches (struct_of T f)) = map tree_count (all_batches f)
  /\ map b_ctl (f_batches (struct_of T f)) = map (fun b => render_rec T (bt_ctl b)) (all_batches f).
Proof.
  intros H. unfold struct_of, all_batches. cbn [f_batches]. rewrite !map_app, !map_map. split.
  - f_equal.
    + apply map_ext_in. intros b Hb. apply std_inner_len. now apply adv_only_uniform.
    + apply map_ext. intros b. apply iat_inner_len.
  - f_equal.
Qed.

(* ------------------------------------------------------------------ *)
(* C. the count columns of a rendered control record                     *)

Lemma num_at_render L r f lo hi :
  layout_ok L = true -> fitsb L r = true -> col_ok L f lo hi = true ->
  num_at (render L r) lo hi = (geti r f mod pow10 (hi - lo))%Z.
Proof.
  intros Hok Hfit Hcol. unfold col_ok in Hcol.
  destruct (find_key (l_cuts L) f) as [c|] eqn:Ef; [|discriminate].
  repeat match type of Hcol with _ && _ = true => let K := fresh "K" in apply andb_prop in Hcol as [Hcol K] end.
  apply Nat.eqb_eq in Hcol. apply Nat.eqb_eq in K4. apply Nat.leb_le in K0.
  apply negb_true_iff, String.eqb_neq in K1.
  destruct (c_const c) eqn:Ec; [discriminate|].
  apply find_key_in in Ef as [Hc Hk]. unfold cut_key in Hk. rewrite Ec in Hk.
  destruct (String.eqb (c_field c) "") eqn:Ee; [discriminate|]. injection Hk as Hk.
  pose proof (fitsb_widthb L r Hfit) as Hw.
  destruct (parse_render_w L r Hok Hw c Hc Ec K1) as (s & Ha & Hs & _ & Hsub & _).
  rewrite Ha in K. destruct s as [bs|g w|g w|g w|g|g|n h|src]; try discriminate.
  apply andb_prop in K as [Kg Kw]. apply String.eqb_eq in Kg. apply Nat.eqb_eq in Kw. subst g w.
  assert (Hix : l_ix L = IRune).
  { unfold layout_ok in Hok. repeat match type of Hok with _ && _ = true => let K := fresh "K" in apply andb_prop in Hok as [Hok K] end.
    now destruct (l_ix L). }
  unfold num_at. rewrite <- Hix, <- Hcol, <- K4, Hsub. cbn [render_seg].
  unfold fitsb in Hfit. apply andb_prop in Hfit as [_ Hint]. rewrite forallb_forall in Hint.
  specialize (Hint _ Hs). cbn [seg_intb] in Hint. apply andb_prop in Hint as [H0 _]. apply Z.leb_le in H0.
  rewrite Hcol, K4. unfold pow10. apply parseNumField_numericField_mod18; assumption.
Qed.

Lemma cols_ok_field kinds cs x f lo hi :
  cols_ok T kinds cs = true -> mem_str (r_kind x) kinds = true -> In (f, (lo, hi)) cs -> rec_fitsb T x = true ->
  num_at (render_rec T x) lo hi = (geti (r_val x) f mod pow10 (hi - lo))%Z.
Proof.
  intros Hc Hk Hf Hfit. unfold cols_ok in Hc. rewrite forallb_forall in Hc.
  apply mem_str_in in Hk. specialize (Hc _ Hk). unfold rec_fitsb in Hfit. unfold render_rec.
  destruct (layout_of T (r_kind x)) as [L|] eqn:EL; [|discriminate].
  apply andb_prop in Hc as [_ Hc]. rewrite forallb_forall in Hc. specialize (Hc _ Hf). cbn [fst snd] in Hc.
  apply num_at_render; [exact (layout_of_ok T T_ok _ _ EL)|exact Hfit|exact Hc].
Qed.

Hypothesis T_cols : count_cols_ok T = true.

Lemma batch_ctl_declared x : mem_str (r_kind x) batch_ctl_kinds = true -> rec_fitsb T x = true ->
  bc_entry_count (render_rec T x) = (geti (r_val x) "EntryAddendaCount" mod pow10 6)%Z.
Proof.
  intros Hk Hfit. unfold count_cols_ok in T_cols. apply andb_prop in T_cols as [Hb _].
  apply (cols_ok_field _ _ x "EntryAddendaCount" 4 10 Hb Hk); [now left|exact Hfit].
Qed.

Lemma file_ctl_declared x : mem_str (r_kind x) file_ctl_kinds = true -> rec_fitsb T x = true ->
  fc_batch_count (render_rec T x) = (geti (r_val x) "BatchCount" mod pow10 6)%Z
  /\ fc_block_count (render_rec T x) = (geti (r_val x) "BlockCount" mod pow10 6)%Z
  /\ fc_entry_count (render_rec T x) = (geti (r_val x) "EntryAddendaCount" mod pow10 8)%Z.
Proof.
  intros Hk Hfit. unfold count_cols_ok in T_cols. apply andb_prop in T_cols as [_ Hf].
  repeat split.
  - apply (cols_ok_field _ _ x "BatchCount" 1 7 Hf Hk); [now left|exact Hfit].
  - apply (cols_ok_field _ _ x "BlockCount" 7 13 Hf Hk); [right; now left|exact Hfit].
  - apply (cols_ok_field _ _ x "EntryAddendaCount" 13 21 Hf Hk); [right; right; now left|exact Hfit].
Qed.

(* ------------------------------------------------------------------ *)
(* D. composition                                                       *)

Lemma write_file_last f : last (write_file T f) [] = render_rec T (fl_ctl f).
Proof.
  unfold write_file, record_lines, struct_of. cbn [f_hdr f_batches f_ctl].
  change (?h :: ?m ++ [?c]) with ((h :: m) ++ [c]). apply last_snoc.
Qed.

(* the written text: the records, then (10 - r) mod 10 filler lines *)
Lemma write_file_padded_split f :
  write_file_padded T f = write_file T f ++ repeat nines ((10 - length (write_file T f) mod 10) mod 10).
Proof. apply physical_lines_split. Qed.

(* the physical quantities of the written text in terms of the tree (no tabulation involved) *)
Theorem physical_tree f : shape_ok T f = true -> adv_only f = true ->
  let ls := write_file_padded T f in
  batch_header_lines ls = length (all_batches f)
  /\ entry_addenda_lines ls = list_sum (map tree_count (all_batches f))
  /\ length (write_file T f) = 2 + list_sum (map (fun b => 2 + tree_count b) (all_batches f))
  /\ block_lines ls = blocks_of (length (write_file T f))
  /\ 10 * block_lines ls = length ls
  /\ map (fun s => (entry_addenda_lines (fst s), snd s)) (batch_segments ls)
     = map (fun b => (tree_count b, render_rec T (bt_ctl b))) (all_batches f).
Proof.
  intros Hshape Fadv. cbv zeta.
  pose proof (shape_typed f Hshape) as Htyped.
  destruct (struct_counts _ Htyped) as (S5 & S67 & Sseg & Srec & Sin). cbv zeta in S5, S67, Sseg.
  destruct (struct_batches f Fadv) as (Blen & Bctl).
  fold (write_file_padded T f) in S5, S67, Sseg. fold (write_file T f) in Srec.
  assert (Hlen : length (f_batches (struct_of T f)) = length (all_batches f)).
  { rewrite <- (map_length (fun b => length (inner_lines b))), Blen. apply map_length. }
  assert (Hrec : length (write_file T f) = 2 + list_sum (map (fun b => 2 + tree_count b) (all_batches f))).
  { rewrite Srec. f_equal. rewrite !list_sum_map_add, Hlen. f_equal. rewrite <- Blen. reflexivity. }
  assert (Hblocks : block_lines (write_file_padded T f) = blocks_of (length (write_file T f))).
  { unfold block_lines, write_file_padded, physical_lines. rewrite app_length, repeat_length. fold (write_file T f). apply padded_div. }
  repeat split.
  - rewrite S5. exact Hlen.
  - rewrite S67, Blen. reflexivity.
  - exact Hrec.
  - exact Hblocks.
  - rewrite Hblocks. unfold write_file_padded, physical_lines. rewrite app_length, repeat_length. fold (write_file T f).
    unfold blocks_of. rewrite padded_blocks. reflexivity.
  - rewrite Sseg, map_map. cbn [fst snd].
    rewrite (map_ext_in (fun sb => (entry_addenda_lines (inner_lines sb), b_ctl sb)) (fun sb => (length (inner_lines sb), b_ctl sb))).
    + rewrite !map_pair_combine, Blen, Bctl. reflexivity.
    + intros sb Hsb. rewrite Forall_forall in Sin. now rewrite (Sin sb Hsb).
Qed.

(* declared = physical modulo the width of the column, for every tabulated tree that fits *)
Theorem create_counts_mod f :
  shape_ok T f = true -> all_file (rec_fitsb T) f = true -> tabulatedb f = true -> adv_no_iat f = true ->
  let ls := write_file_padded T f in
  let fc := last (write_file T f) [] in
  (fc_batch_count fc = Z.of_nat (batch_header_lines ls) mod pow10 6)%Z
  /\ (fc_entry_count fc = Z.of_nat (entry_addenda_lines ls) mod pow10 8)%Z
  /\ (fc_block_count fc = Z.of_nat (block_lines ls) mod pow10 6)%Z
  /\ 10 * block_lines ls = length ls
  /\ length (batch_segments ls) = length (all_batches f)
  /\ Forall (fun s => bc_entry_count (snd s) = Z.of_nat (entry_addenda_lines (fst s)) mod pow10 6)%Z (batch_segments ls).
Proof.
  intros Hshape Hfit Htab Hno. cbv zeta. rewrite write_file_last.
  destruct (tabulated_facts f Htab Hno) as [Fb Fadv Fn Fe Fk].
  destruct (physical_tree f Hshape Fadv) as (P5 & P67 & Prec & Pblk & P10 & Pseg). cbv zeta in P5, P67, Pblk, P10, Pseg.
  unfold all_file in Hfit.
  repeat match type of Hfit with _ && _ = true => let F := fresh "F" in apply andb_prop in Hfit as [Hfit F] end.
  unfold shape_ok in Hshape.
  repeat match type of Hshape with _ && _ = true => let K := fresh "K" in apply andb_prop in Hshape as [Hshape K] end.
  destruct (file_ctl_declared (fl_ctl f) K F) as (D1 & D2 & D3).
  repeat split.
  - rewrite D1, Fn, P5. reflexivity.
  - rewrite D3, Fe, P67. reflexivity.
  - rewrite D2, Fk, Pblk, Prec. reflexivity.
  - exact P10.
  - rewrite <- (map_length (fun s => (entry_addenda_lines (fst s), snd s))), Pseg. apply map_length.
  - apply (Forall_of_map (fun s => (entry_addenda_lines (fst s), snd s))
             (fun q => bc_entry_count (snd q) = Z.of_nat (fst q) mod pow10 6)%Z).
    rewrite Pseg. apply Forall_map. cbn [fst snd]. apply Forall_forall. intros b Hb.
    assert (Hbshape : batch_shape T b = true).
    { unfold all_batches in Hb. apply in_app_or in Hb as [Hb|Hb]; [rewrite forallb_forall in K2; now apply K2|rewrite forallb_forall in K1; now apply K1]. }
    assert (Hbfit : all_batch (rec_fitsb T) b = true).
    { unfold all_batches in Hb. apply in_app_or in Hb as [Hb|Hb]; [rewrite forallb_forall in F1; now apply F1|rewrite forallb_forall in F0; now apply F0]. }
    unfold batch_shape in Hbshape. apply andb_prop in Hbshape as [_ Hkind].
    unfold all_batch in Hbfit. apply andb_prop in Hbfit as [_ Hcfit].
    rewrite (batch_ctl_declared (bt_ctl b) Hkind Hcfit), (Fb b Hb). reflexivity.
Qed.

(* within the widths of the columns (6 digits per batch, 6 / 6 / 8 in the file control) the written numbers ARE the counts *)
Theorem create_counts f :
  shape_ok T f = true -> all_file (rec_fitsb T) f = true -> tabulatedb f = true -> adv_no_iat f = true ->
  count_boundsb f = true ->
  let ls := write_file_padded T f in
  let fc := last (write_file T f) [] in
  fc_batch_count fc = Z.of_nat (batch_header_lines ls)
  /\ fc_entry_count fc = Z.of_nat (entry_addenda_lines ls)
  /\ (fc_block_count fc * 10)%Z = Z.of_nat (length ls)
  /\ length (batch_segments ls) = length (all_batches f)
  /\ Forall (fun s => bc_entry_count (snd s) = Z.of_nat (entry_addenda_lines (fst s))) (batch_segments ls).
Proof.
  intros Hshape Hfit Htab Hno Hb. cbv zeta.
  destruct (create_counts_mod f Hshape Hfit Htab Hno) as (M1 & M2 & M3 & M4 & M5 & M6). cbv zeta in M1, M2, M3, M4, M5, M6.
  destruct (bounds_physical f Htab Hno Hb) as (B1 & B2 & B3 & B4).
  destruct (tabulated_facts f Htab Hno) as [Fb Fadv Fn Fe Fk].
  destruct (physical_tree f Hshape Fadv) as (P5 & P67 & Prec & Pblk & P10 & Pseg). cbv zeta in P5, P67, Pblk, P10, Pseg.
  repeat split.
  - rewrite M1. apply Z.mod_small. rewrite P5. lia.
  - rewrite M2. apply Z.mod_small. rewrite P67. lia.
  - rewrite M3, Z.mod_small; [lia|]. rewrite Pblk, Prec. lia.
  - exact M5.
  - apply (Forall_of_map (fun s => (entry_addenda_lines (fst s), snd s))
             (fun q => bc_entry_count (snd q) = Z.of_nat (fst q))).
    pose proof (Forall_map (fun s => (entry_addenda_lines (fst s), snd s))
                  (fun q => bc_entry_count (snd q) = Z.of_nat (fst q) mod pow10 6)%Z (batch_segments (write_file_padded T f))) as [_ Hm].
    specialize (Hm M6). rewrite Pseg in Hm |- *. apply Forall_map. apply Forall_map in Hm. cbn [fst snd] in Hm |- *.
    rewrite Forall_forall in Hm |- *. intros b Hin. rewrite (Hm b Hin). apply Z.mod_small. specialize (B4 b Hin). lia.
Qed.

(* every residue r of the record count mod 10: (10 - r) mod 10 filler lines, and the declared block count is exact *)
Theorem block_count_residues f r :
  shape_ok T f = true -> all_file (rec_fitsb T) f = true -> tabulatedb f = true -> adv_no_iat f = true ->
  count_boundsb f = true ->
  length (write_file T f) mod 10 = r ->
  let ls := write_file_padded T f in
  ls = write_file T f ++ repeat nines ((10 - r) mod 10)
  /\ length ls = length (write_file T f) + (10 - r) mod 10
  /\ (fc_block_count (last (write_file T f) []) * 10)%Z = Z.of_nat (length (write_file T f) + (10 - r) mod 10).
Proof.
  intros Hshape Hfit Htab Hno Hb Hr. cbv zeta.
  destruct (create_counts f Hshape Hfit Htab Hno Hb) as (_ & _ & C3 & _). cbv zeta in C3.
  pose proof (write_file_padded_split f) as E. rewrite Hr in E.
  assert (El : length (write_file_padded T f) = length (write_file T f) + (10 - r) mod 10).
  { rewrite E at 1. now rewrite app_length, repeat_length. }
  repeat split; [exact E|exact El|]. rewrite C3, El. reflexivity.
Qed.

(* Create changes no record type *)
Lemma rec_is_set t x f z : rec_is T t (set_int x f z) = rec_is T t x.
Proof. reflexivity. Qed.

Lemma batch_shape_tabulate b : batch_shape T (tabulate_batch b) = batch_shape T b.
Proof. reflexivity. Qed.

Lemma shape_ok_tabulate f : shape_ok T (tabulate f) = shape_ok T f.
Proof.
  unfold shape_ok, tabulate. cbn [fl_hdr fl_batches fl_iat fl_ctl].
  rewrite !forallb_map'. reflexivity.
Qed.

Lemma rec_fits_set kinds cs x f lo hi z :
  plain_ok T kinds cs = true -> mem_str (r_kind x) kinds = true -> In (f, (lo, hi)) cs ->
  (0 <= z <= max_int64)%Z -> rec_fitsb T x = true -> rec_fitsb T (set_int x f z) = true.
Proof.
  intros Hp Hk Hf Hz Hfit. unfold plain_ok in Hp. rewrite forallb_forall in Hp. apply mem_str_in in Hk.
  specialize (Hp _ Hk). unfold rec_fitsb in *. unfold set_int. cbn [r_kind r_val].
  destruct (layout_of T (r_kind x)) as [L|]; [|discriminate].
  rewrite forallb_forall in Hp. specialize (Hp _ Hf). cbn [fst] in Hp. now apply fitsb_set_num.
Qed.

Lemma pow10_6 : pow10 6 = 1000000%Z. Proof. reflexivity. Qed.
Lemma pow10_8 : pow10 8 = 100000000%Z. Proof. reflexivity. Qed.
Lemma max_int64_val : max_int64 = 9223372036854775807%Z. Proof. reflexivity. Qed.

Hypothesis T_plain : count_fields_plain T = true.

(* storing the counts keeps every record fitting: the numeric columns take any non-negative Go int *)
Theorem tabulate_fits f :
  shape_ok T f = true -> adv_only f = true -> adv_no_iat f = true ->
  all_file (rec_fitsb T) f = true -> count_boundsb (tabulate f) = true ->
  all_file (rec_fitsb T) (tabulate f) = true.
Proof.
  intros Hshape Hadv Hno Hfit Hb.
  pose proof (tabulate_tabulated f Hadv) as Htab.
  assert (Hno' : adv_no_iat (tabulate f) = true) by now rewrite adv_no_iat_tabulate.
  destruct (tabulated_facts _ Htab Hno') as [_ _ Fn Fe Fk].
  destruct (bounds_physical _ Htab Hno' Hb) as (B1 & B2 & B3 & B4).
  rewrite <- Fn in B1. rewrite <- Fe in B2. cbv zeta in Fk. unfold blocks_of in B3. rewrite <- Fk in B3.
  assert (N1 : (0 <= geti (r_val (fl_ctl (tabulate f))) "BatchCount")%Z) by (rewrite Fn; lia).
  assert (N2 : (0 <= geti (r_val (fl_ctl (tabulate f))) "EntryAddendaCount")%Z) by (rewrite Fe; lia).
  assert (N3 : (0 <= geti (r_val (fl_ctl (tabulate f))) "BlockCount")%Z) by (rewrite Fk; lia).
  unfold count_fields_plain in T_plain. apply andb_prop in T_plain as [Pb Pf].
  unfold shape_ok in Hshape.
  repeat match type of Hshape with _ && _ = true => let K := fresh "K" in apply andb_prop in Hshape as [Hshape K] end.
  unfold all_file in Hfit.
  repeat match type of Hfit with _ && _ = true => let F := fresh "F" in apply andb_prop in Hfit as [Hfit F] end.
  assert (Hbatch : forall b, In b (all_batches f) -> batch_shape T b = true -> all_batch (rec_fitsb T) b = true ->
            all_batch (rec_fitsb T) (tabulate_batch b) = true).
  { intros b Hin Hs Hf. unfold all_batch in *. unfold tabulate_batch. cbn [bt_hdr bt_entries bt_ctl].
    apply andb_prop in Hf as [Hf Hc]. rewrite Hf. cbn [andb].
    unfold batch_shape in Hs. apply andb_prop in Hs as [_ Hk].
    apply (rec_fits_set _ _ _ "EntryAddendaCount" 4 10 _ Pb Hk); [now left| |exact Hc].
    specialize (B4 (tabulate_batch b)). rewrite all_batches_tabulate in B4.
    specialize (B4 (in_map tabulate_batch _ _ Hin)).
    rewrite built_count_tree. change (tree_count (tabulate_batch b)) with (tree_count b) in B4.
    rewrite pow10_6 in B4. rewrite max_int64_val. lia. }
  unfold all_file. unfold tabulate at 1 2 3. cbn [fl_hdr fl_batches fl_iat]. rewrite Hfit. cbn [andb].
  rewrite !forallb_map'.
  assert (Hstd : forallb (fun x => all_batch (rec_fitsb T) (tabulate_batch x)) (fl_batches f) = true).
  { apply forallb_forall. intros b Hin. rewrite forallb_forall in K2, F1.
    apply Hbatch; [unfold all_batches; apply in_or_app; now left|now apply K2|now apply F1]. }
  assert (Hiat : forallb (fun x => all_batch (rec_fitsb T) (tabulate_batch x)) (fl_iat f) = true).
  { apply forallb_forall. intros b Hin. rewrite forallb_forall in K1, F0.
    apply Hbatch; [unfold all_batches; apply in_or_app; now right|now apply K1|now apply F0]. }
  rewrite Hstd, Hiat. cbn [andb].
  (* the file control: three stores *)
  revert N1 N2 N3 B1 B2 B3. unfold tabulate. cbn [fl_ctl]. set (c := created_control _).
  rewrite geti_set_same.
  rewrite (geti_set_other _ "BlockCount" "EntryAddendaCount") by reflexivity. rewrite geti_set_same.
  rewrite (geti_set_other _ "BatchCount" "EntryAddendaCount") by reflexivity.
  rewrite (geti_set_other _ "BatchCount" "BlockCount") by reflexivity. rewrite geti_set_same.
  rewrite pow10_6, pow10_8. intros N1 N2 N3 B1 B2 B3.
  apply (rec_fits_set _ _ _ "EntryAddendaCount" 13 21 _ Pf); [exact K|right; right; now left|rewrite max_int64_val; lia|].
  apply (rec_fits_set _ _ _ "BlockCount" 7 13 _ Pf); [exact K|right; now left|rewrite max_int64_val; lia|].
  apply (rec_fits_set _ _ _ "BatchCount" 1 7 _ Pf); [exact K|now left|rewrite max_int64_val; lia|exact F].
Qed.

(* the design's statement: whatever the tree, after Create the control records declare what is written *)
Theorem create_counts_tabulate f g :
  create_counts_of f = Some g ->
  shape_ok T f = true -> adv_no_iat f = true -> all_file (rec_fitsb T) f = true -> count_boundsb g = true ->
  let ls := write_file_padded T g in
  let fc := last (write_file T g) [] in
  all_file (rec_fitsb T) g = true
  /\ fc_batch_count fc = Z.of_nat (batch_header_lines ls)
  /\ fc_entry_count fc = Z.of_nat (entry_addenda_lines ls)
  /\ (fc_block_count fc * 10)%Z = Z.of_nat (length ls)
  /\ length (batch_segments ls) = length (all_batches f)
  /\ Forall (fun s => bc_entry_count (snd s) = Z.of_nat (entry_addenda_lines (fst s))) (batch_segments ls).
Proof.
  unfold create_counts_of. destruct (adv_only f) eqn:Hadv; [|discriminate]. intros E. injection E as <-.
  intros Hshape Hno Hfit Hb.
  pose proof (tabulate_fits f Hshape Hadv Hno Hfit Hb) as Hfit'.
  assert (Hlen : length (all_batches f) = length (all_batches (tabulate f))) by (now rewrite all_batches_tabulate, map_length).
  rewrite Hlen. split; [exact Hfit'|]. apply create_counts; try assumption.
  - now rewrite shape_ok_tabulate.
  - now apply tabulate_tabulated.
  - now rewrite adv_no_iat_tabulate.
Qed.

End Tree.

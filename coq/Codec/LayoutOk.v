(* Boolean checker of the regenerated record layouts ([layout_ok]) and the
   boolean side conditions on record values ([widthb], [fitsb], [stableb])
   under which the generic codec theorems of LayoutFacts.v hold.
   Definitions only (everything here is executable). *)
From Coq Require Import String List NArith ZArith Bool.
From ACH Require Export Layout Utf8Enc RuneDefs.
Import ListNotations.
Local Open Scope string_scope.
Local Open Scope nat_scope.

(* ------------------------------------------------------------------ *)
(* hand-maintained tables                                              *)

(* the custom accessors that have a hand model in Layout.render_custom, with
   the hash of their Go source as emitted by the translator today: a changed
   accessor changes the hash and makes [layout_ok] false until the model is
   reviewed *)
Definition custom_hashes : list (string * string) :=
  [ ("Addenda99.DateOfDeathField", "3e285e789e54")
  ; ("BatchHeader.EffectiveEntryDateField", "27f17b677db8")
  ; ("FileHeader.ImmediateDestinationField", "f332511f84a1")
  ; ("FileHeader.ImmediateOriginField", "1da7f3123d8e")
  ; ("FileHeader.FileCreationDateField", "15c475cdacb0")
  ; ("FileHeader.FileCreationTimeField", "96fc73e249a4")
  ; ("IATBatchHeader.ForeignExchangeReferenceField", "cd88a0d75af9") ].

(* custom accessor -> (field assigned by the cut over its columns, all fields it reads) *)
Definition custom_table : list (string * (string * list string)) :=
  [ ("Addenda99.DateOfDeathField", ("DateOfDeath", ["DateOfDeath"]))
  ; ("BatchHeader.EffectiveEntryDateField",
       ("EffectiveEntryDate", ["EffectiveEntryDate"; "CompanyEntryDescription"; "StandardEntryClassCode"]))
  ; ("FileHeader.ImmediateDestinationField", ("ImmediateDestination", ["ImmediateDestination"]))
  ; ("FileHeader.ImmediateOriginField", ("ImmediateOrigin", ["ImmediateOrigin"]))
  ; ("FileHeader.FileCreationDateField", ("FileCreationDate", ["FileCreationDate"]))
  ; ("FileHeader.FileCreationTimeField", ("FileCreationTime", ["FileCreationTime"]))
  ; ("IATBatchHeader.ForeignExchangeReferenceField",
       ("ForeignExchangeReference", ["ForeignExchangeReference"; "ForeignExchangeReferenceIndicator"]))
  ; ("Addenda98.CorrectedDataField", ("CorrectedData", ["CorrectedData"; "iatCorrectedData"])) ].

(* fields written by String() that Parse() does not read back from their own
   columns ("Record.Field").  Each entry is a reviewed finding:
   - FileHeader.priorityCode/recordSize/blockingFactor/formatCode: unexported
     fields; Parse assigns the NACHA constants "01"/"094"/"10"/"1" instead of
     the columns read.  Harmless as long as the fields always hold exactly
     these constants (NewFileHeader sets them; a zero FileHeader{} does not).
   - IATEntryDetail.OFACScreeningIndicator / SecondaryOFACScreeningIndicator:
     String() writes the two fields (columns 77 and 78), Parse() discards the
     columns and assigns " " to both: a non-blank indicator is lost on
     write-then-read. *)
Definition known_lossy : list string :=
  [ "FileHeader.priorityCode"; "FileHeader.recordSize"; "FileHeader.blockingFactor"; "FileHeader.formatCode"
  ; "IATEntryDetail.OFACScreeningIndicator"; "IATEntryDetail.SecondaryOFACScreeningIndicator" ].

(* ------------------------------------------------------------------ *)
(* small helpers                                                        *)

Fixpoint assoc {A} (k : string) (l : list (string * A)) : option A :=
  match l with
  | [] => None
  | (k', v) :: l' => if String.eqb k k' then Some v else assoc k l'
  end.

Definition mem_str (x : string) (l : list string) : bool := existsb (String.eqb x) l.

Fixpoint nodupb (l : list string) : bool :=
  match l with
  | [] => true
  | x :: l' => negb (mem_str x l') && nodupb l'
  end.

Definition is_some {A} (o : option A) : bool := match o with Some _ => true | None => false end.

Definition custom_known (n h : string) : bool :=
  existsb (fun p => String.eqb (fst p) n && String.eqb (snd p) h) custom_hashes
  && is_some (assoc n custom_table) && is_some (custom_width n).

Definition custom_primary (n : string) : option string :=
  match assoc n custom_table with Some (f, _) => Some f | None => None end.
Definition custom_reads (n : string) : list string :=
  match assoc n custom_table with Some (_, fs) => fs | None => [] end.

(* the field rendered by a simple (non custom) field segment *)
Definition simple_field (s : seg) : option string :=
  match s with
  | SAlpha f _ | SNum f _ | SStr f _ | SRaw f | SItoa f => Some f
  | _ => None
  end.

(* the field a cut over the segment's columns has to assign *)
Definition seg_field (s : seg) : option string :=
  match s with
  | SCustom n _ => custom_primary n
  | _ => simple_field s
  end.

(* every field the segment reads *)
Definition seg_reads (s : seg) : list string :=
  match s with
  | SCustom n _ => custom_reads n
  | _ => match simple_field s with Some f => [f] | None => [] end
  end.

Definition seg_keys (s : seg) : list string := match seg_field s with Some f => [f] | None => [] end.

(* ------------------------------------------------------------------ *)
(* cuts                                                                 *)

(* a real cut reads columns; a constant cut assigns a constant *)
Definition is_real (c : cut) : bool := match c_const c with None => true | Some _ => false end.

(* the field a cut assigns, if any *)
Definition cut_key (c : cut) : option string :=
  match c_const c with
  | Some _ => Some (c_field c)
  | None => if String.eqb (c_field c) "" then None else Some (c_field c)
  end.
Definition cut_keys (c : cut) : list string := match cut_key c with Some f => [f] | None => [] end.
Definition has_key (f : string) (c : cut) : bool :=
  match cut_key c with Some g => String.eqb f g | None => false end.
Definition find_key (cuts : list cut) (f : string) : option cut := find (has_key f) cuts.

Definition has_real_cut (cuts : list cut) (f : string) : bool :=
  existsb (fun c => is_real c && has_key f c) cuts.

(* width of a raw / Itoa segment: the width of the real cut that starts at the
   running column and assigns the field, else the width of the constant the
   parser assigns to the field *)
Definition raw_width (cuts : list cut) (col : nat) (f : string) : option nat :=
  match find (fun c => is_real c && (c_lo c =? col) && has_key f c) cuts with
  | Some c => Some (c_hi c - c_lo c)
  | None =>
      match find (fun c => negb (is_real c) && has_key f c) cuts with
      | Some c => match c_const c with Some bs => Some (rune_count bs) | None => None end
      | None => None
      end
  end.

(* ------------------------------------------------------------------ *)
(* nominal columns of the segments                                      *)

Definition seg_width (cuts : list cut) (col : nat) (s : seg) : option nat :=
  match s with
  | SLit bs => Some (rune_count bs)
  | SAlpha _ w | SNum _ w | SStr _ w => Some w
  | SRaw f | SItoa f => raw_width cuts col f
  | SCustom n h => if custom_known n h then custom_width n else None
  | SUnknown _ => None
  end.

(* (start column, width, segment) *)
Definition colseg := (nat * nat * seg)%type.
Definition cs_lo (x : colseg) : nat := fst (fst x).
Definition cs_w (x : colseg) : nat := snd (fst x).
Definition cs_seg (x : colseg) : seg := snd x.

Fixpoint cols_from (cuts : list cut) (col : nat) (segs : list seg) : option (list colseg) :=
  match segs with
  | [] => Some []
  | s :: rest =>
      match seg_width cuts col s with
      | Some w => match cols_from cuts (col + w) rest with
                  | Some l => Some ((col, w, s) :: l)
                  | None => None
                  end
      | None => None
      end
  end.

Definition cols (L : layout) : option (list colseg) := cols_from (l_cuts L) 0 (l_segs L).

Definition total_width (cs : list colseg) : nat := list_sum (map cs_w cs).

(* ------------------------------------------------------------------ *)
(* alignment of cuts with segments                                      *)

Definition seg_has_field (s : seg) (f : string) : bool :=
  match seg_field s with Some g => String.eqb f g | None => false end.

Definition aligned_with (c : cut) (x : colseg) : bool :=
  (cs_lo x =? c_lo c) && (cs_lo x + cs_w x =? c_hi c) && seg_has_field (cs_seg x) (c_field c).

Definition aligned (cs : list colseg) (c : cut) : option seg :=
  match find (aligned_with c) cs with Some x => Some (cs_seg x) | None => None end.

Definition aligned_seg (L : layout) (c : cut) : option seg :=
  match cols L with Some cs => aligned cs c | None => None end.

(* real cuts in source order: lo <= hi, no overlap, inside the record *)
Fixpoint ordered_from (col : nat) (cuts : list cut) : bool :=
  match cuts with
  | [] => col <=? 94
  | c :: rest =>
      if is_real c
      then (col <=? c_lo c) && (c_lo c <=? c_hi c) && ordered_from (c_hi c) rest
      else ordered_from col rest
  end.

Definition conv_ok (cv : list string) : bool := is_some (conv_value cv []).

Definition lit_ok (s : seg) : bool := match s with SLit bs => wf_utf8 bs | _ => true end.

(* "Record.Field" for every field a segment reads that no real cut assigns:
   the field is written by String() and not read back by Parse() *)
Definition lossy_of (L : layout) (s : seg) : list string :=
  flat_map (fun f => if has_real_cut (l_cuts L) f then [] else [String.append (l_name L) (String.append "." f)]) (seg_reads s).

Definition lossy_fields (L : layout) : list string := flat_map (lossy_of L) (l_segs L).

Definition is_irune (ix : indexing) : bool := match ix with IRune => true | IByte => false end.

Definition layout_ok (L : layout) : bool :=
  is_irune (l_ix L)
  && match cols L with
     | Some cs =>
         (total_width cs =? 94)
         && forallb (fun c => if is_real c && negb (String.eqb (c_field c) "") then is_some (aligned cs c) else true)
                    (l_cuts L)
     | None => false
     end
  && forallb lit_ok (l_segs L)
  && forallb (fun c => conv_ok (c_conv c)) (l_cuts L)
  && ordered_from 0 (l_cuts L)
  && nodupb (flat_map cut_keys (l_cuts L))
  && nodupb (flat_map seg_keys (l_segs L))
  && forallb (fun f => mem_str f known_lossy) (lossy_fields L).

(* ------------------------------------------------------------------ *)
(* side conditions on record values                                     *)

Definition in_int64b (z : Z) : bool := ((min_int64 <=? z) && (z <=? max_int64))%Z.

(* the columns whose width only validation guarantees, and well-formed text *)
Definition seg_widthb (r : recval) (x : colseg) : bool :=
  match cs_seg x with
  | SLit _ => true
  | SAlpha f _ | SStr f _ => wf_utf8 (gets r f)
  | SNum _ _ => true
  | SRaw f => wf_utf8 (gets r f) && (rune_count (gets r f) =? cs_w x)
  | SItoa f => length (itoa (geti r f)) =? cs_w x
  | SCustom n _ =>
      match render_custom n r with
      | Some bs => wf_utf8 bs && (rune_count bs =? cs_w x)
      | None => false
      end
  | SUnknown _ => false
  end.

Definition widthb (L : layout) (r : recval) : bool :=
  match cols L with Some cs => forallb (seg_widthb r) cs | None => false end.

(* numeric fields hold non-negative Go ints *)
Definition seg_intb (r : recval) (s : seg) : bool :=
  match s with
  | SNum f _ => ((0 <=? geti r f) && (geti r f <=? max_int64))%Z
  | _ => true
  end.

Definition fitsb (L : layout) (r : recval) : bool := widthb L r && forallb (seg_intb r) (l_segs L).

(* ------------------------------------------------------------------ *)
(* re-render stability                                                  *)

Definition is_trim_chain (cv : list string) : bool :=
  match cv with
  | [fn] => String.eqb fn "parseStringField" || String.eqb fn "strings.TrimSpace"
            || String.eqb fn "parseStringFieldWithOpts"
  | _ => false
  end.
Definition is_num_chain (cv : list string) : bool :=
  match cv with [fn] => String.eqb fn "parseNumField" | _ => false end.
Definition is_nil {A} (l : list A) : bool := match l with [] => true | _ => false end.

(* fallback: the rendered text is a fixed point of "convert, then render again" *)
Definition generic_stable (f : string) (s : seg) (cv : list string) (r : recval) : bool :=
  match conv_value cv (render_seg r s) with
  | Some v => bytes_eqb (render_seg [(f, v)] s) (render_seg r s)
  | None => false
  end.

Definition field_stable (s : seg) (cv : list string) (r : recval) : bool :=
  match s with
  | SAlpha f w =>
      if is_nil cv then true
      else if is_trim_chain cv then plain_left (gets r f)
      else generic_stable f s cv r
  | SStr f w =>
      if is_nil cv then true
      else if is_trim_chain cv then ends_ok (stringField (gets r f) w)
      else generic_stable f s cv r
  | SRaw f =>
      if is_nil cv then true
      else if is_trim_chain cv then ends_ok (gets r f)
      else generic_stable f s cv r
  | SNum f w =>
      if is_num_chain cv then true else generic_stable f s cv r
  | SItoa f =>
      if is_num_chain cv then in_int64b (geti r f) else generic_stable f s cv r
  | _ => false
  end.

Definition seg_stableb (L : layout) (r : recval) (s : seg) : bool :=
  match s with
  | SLit _ => true
  | SUnknown _ => false
  | SCustom _ _ =>
      (* custom accessors: the accessor renders the same text on the re-parsed record *)
      bytes_eqb (render_seg (overlay (parse L (render L r)) r) s) (render_seg r s)
  | _ =>
      match simple_field s with
      | None => false
      | Some f =>
          match find_key (l_cuts L) f with
          | None => true                                     (* never assigned by Parse: keeps its value *)
          | Some c =>
              match c_const c with
              | Some bs => bytes_eqb (render_seg [(f, VS bs)] s) (render_seg r s)   (* holds the constant *)
              | None => field_stable s (c_conv c) r
              end
          end
      end
  end.

Definition stableb (L : layout) (r : recval) : bool := forallb (seg_stableb L r) (l_segs L).

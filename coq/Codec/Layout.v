(* Interpreter of the regenerated record layouts: [render] = String(),
   [parse] = Parse(record).  Definitions only. *)
From Coq Require Import String Ascii.
From ACH Require Export Fields.
Open Scope N_scope.

Definition bytes_of_string (s : string) : bytes :=
  map (fun a => N_of_ascii a) (list_ascii_of_string s).

Definition AUTOENROLL : bytes := [65; 85; 84; 79; 69; 78; 82; 79; 76; 76].
Definition ENR : bytes := [69; 78; 82].

(* hand models of the custom accessors (default ValidateOpts) *)
Definition render_custom (name : string) (r : recval) : option bytes :=
  if String.eqb name "Addenda99.DateOfDeathField" then
    Some (match gets r "DateOfDeath" with [] => spaces 6 | d => d end)
  else if String.eqb name "BatchHeader.EffectiveEntryDateField" then
    Some (if bytes_eqb (gets r "CompanyEntryDescription") AUTOENROLL && bytes_eqb (gets r "StandardEntryClassCode") ENR
          then spaces 6 else stringField (gets r "EffectiveEntryDate") 6)
  else if String.eqb name "FileHeader.ImmediateDestinationField" then
    Some (match gets r "ImmediateDestination" with [] => spaces 10 | v => sp :: stringField (trim v) 9 end)
  else if String.eqb name "FileHeader.ImmediateOriginField" then
    Some (match gets r "ImmediateOrigin" with [] => spaces 10 | v => sp :: stringField (trim v) 9 end)
  else if String.eqb name "FileHeader.FileCreationDateField" then
    (if (rune_count (gets r "FileCreationDate") =? 6)%nat then Some (gets r "FileCreationDate") else None)
  else if String.eqb name "FileHeader.FileCreationTimeField" then
    (if (rune_count (gets r "FileCreationTime") =? 4)%nat then Some (gets r "FileCreationTime") else None)
  else if String.eqb name "IATBatchHeader.ForeignExchangeReferenceField" then
    Some (if (geti r "ForeignExchangeReferenceIndicator" =? 3)%Z then spaces 15
          else alphaField (gets r "ForeignExchangeReference") 15)
  else if String.eqb name "Addenda98.CorrectedDataField" then
    Some (match gets r "iatCorrectedData" with
          | [] => alphaField (gets r "CorrectedData") 29
          | iat => alphaField (gets r "CorrectedData") 29 ++ alphaField iat 6
          end)
  else None.

(* nominal width of a custom accessor (columns it is meant to fill) *)
Definition custom_width (name : string) : option nat :=
  if String.eqb name "Addenda99.DateOfDeathField" then Some 6%nat
  else if String.eqb name "BatchHeader.EffectiveEntryDateField" then Some 6%nat
  else if String.eqb name "FileHeader.ImmediateDestinationField" then Some 10%nat
  else if String.eqb name "FileHeader.ImmediateOriginField" then Some 10%nat
  else if String.eqb name "FileHeader.FileCreationDateField" then Some 6%nat
  else if String.eqb name "FileHeader.FileCreationTimeField" then Some 4%nat
  else if String.eqb name "IATBatchHeader.ForeignExchangeReferenceField" then Some 15%nat
  else if String.eqb name "Addenda98.CorrectedDataField" then Some 29%nat
  else None.

Definition render_seg (r : recval) (s : seg) : bytes :=
  match s with
  | SLit bs => bs
  | SAlpha f w => alphaField (gets r f) w
  | SNum f w => numericField (geti r f) w
  | SStr f w => stringField (gets r f) w
  | SRaw f => gets r f
  | SItoa f => itoa (geti r f)
  | SCustom n _ => match render_custom n r with Some bs => bs | None => [] end
  | SUnknown _ => []
  end.

Definition render (L : layout) (r : recval) : bytes := concat (map (render_seg r) (l_segs L)).

(* ---- parsing ---- *)

Definition units (ix : indexing) (s : bytes) : list bytes :=
  match ix with
  | IRune => map snd (chunks s)
  | IByte => map (fun b => [b]) s
  end.

Definition sub (us : list bytes) (lo hi : nat) : bytes := concat (firstn (hi - lo) (skipn lo us)).

(* time.Parse("060102", s) succeeds: six digits, month 1..12, day within the month
   (two-digit years: 69..99 -> 19yy, 00..68 -> 20yy) *)
Definition two (a b : N) : N := (a - 48) * 10 + (b - 48).
(* time.Parse("060102", s) succeeds.  The two year characters go through time.atoi, which takes a
   leading sign: "-2" is the year 1998, "+2" the year 2002 (seen by the default-reader correspondence
   of C01: a date column reading "-21123" is kept by validateSimpleDate); month and day want digits *)
Definition valid_date (s : bytes) : bool :=
  match s with
  | [y1; y2; m1; m2; d1; d2] =>
      ((is_digit y1 || (y1 =? 43) || (y1 =? 45)) && forallb is_digit [y2; m1; m2; d1; d2]) &&
      (let mm := two m1 m2 in let dd := two d1 d2 in
       let year := if y1 =? 45 then 2000 - (y2 - 48)
                   else if y1 =? 43 then 2000 + (y2 - 48)
                   else (let yy := two y1 y2 in if yy <? 69 then 2000 + yy else 1900 + yy) in
       let leap := ((year mod 4 =? 0) && negb (year mod 100 =? 0)) || (year mod 400 =? 0) in
       let dim := if mm =? 2 then (if leap then 29 else 28)
                  else if (mm =? 4) || (mm =? 6) || (mm =? 9) || (mm =? 11) then 30 else 31 in
       (1 <=? mm) && (mm <=? 12) && (1 <=? dd) && (dd <=? dim))
  | _ => false
  end.

(* ^([0-2]{1}[\d]{1}[0-5]{1}\d{1})$ ; Go's $ without the m flag matches only at the end of text *)
Definition valid_time (s : bytes) : bool :=
  match s with
  | [h1; h2; m1; m2] => (48 <=? h1) && (h1 <=? 50) && is_digit h2 && (48 <=? m1) && (m1 <=? 53) && is_digit m2
  | _ => false
  end.

(* validateSettlementDate: three blanks unless a Julian day 1..366 written in three characters *)
Definition validateSettlementDate (s : bytes) : bytes :=
  if bytes_eqb s (spaces 3) || negb (rune_count s =? 3)%nat then spaces 3
  else match atoi_opt s with
       | Some d => if (1 <=? d)%Z && (d <=? 366)%Z then s else spaces 3
       | None => spaces 3
       end.

Definition ten_zeros : bytes := zeros 10.

Definition trimRoutingNumberLeadingZero (s : bytes) : bytes :=
  match s with
  | 48 :: t => if (rune_count s =? 10)%nat && negb (bytes_eqb s ten_zeros) then trim t else trim s
  | _ => trim s
  end.

(* one conversion function applied to a string *)
Definition conv_str (fn : string) (s : bytes) : option bytes :=
  if String.eqb fn "parseStringField" || String.eqb fn "strings.TrimSpace" || String.eqb fn "parseStringFieldWithOpts"
  then Some (trim s)
  else if String.eqb fn "trimRoutingNumberLeadingZero" then Some (trimRoutingNumberLeadingZero s)
  else if String.eqb fn "validateSimpleDate" then Some (if valid_date s then s else [])
  else if String.eqb fn "validateSimpleTime" then Some (if valid_time s then s else [])
  else if String.eqb fn "validateSettlementDate" then Some (validateSettlementDate s)
  else None.

(* the chain is applied innermost (last) first; parseNumField may only be outermost *)
Fixpoint conv_chain (chain : list string) (s : bytes) : option bytes :=
  match chain with
  | [] => Some s
  | fn :: rest => match conv_chain rest s with Some s' => conv_str fn s' | None => None end
  end.

Definition conv_value (chain : list string) (s : bytes) : option value :=
  match chain with
  | fn :: rest =>
      if String.eqb fn "parseNumField"
      then match conv_chain rest s with Some s' => Some (VI (parseNumField s')) | None => None end
      else match conv_chain chain s with Some s' => Some (VS s') | None => None end
  | [] => Some (VS s)
  end.

Definition parse_cut (us : list bytes) (c : cut) : list (string * value) :=
  match c_const c with
  | Some bs => [(c_field c, VS bs)]
  | None =>
      if String.eqb (c_field c) "" then []
      else match conv_value (c_conv c) (sub us (c_lo c) (c_hi c)) with
           | Some v => [(c_field c, v)]
           | None => []
           end
  end.

(* Parse(record): nothing is assigned unless the record has exactly 94 runes *)
Definition parse (L : layout) (line : bytes) : recval :=
  if (rune_count line =? 94)%nat
  then flat_map (parse_cut (units (l_ix L) line)) (l_cuts L)
  else [].

(* later assignments win, fields not assigned keep the old value *)
Definition overlay (new old : recval) : recval := rev new ++ old.

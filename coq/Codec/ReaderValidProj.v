(* The arithmetic hypothesis of the validating round trip stated on the file AS IT IS WRITTEN:
   when the records of a batch come back with the same protected values ([proj_keepsb], Codec/ReaderValid.v),
   the projection of the batch read back is the projection of the batch written, hence

     batches_okb AT (parsed_file T f) = batches_okb AT f

   and [proj_keepsb] follows from the canonical-value condition [canonb] for the batch header, entry and
   batch control layouts ([role_simple], evaluated on the regenerated layouts). *)
From Coq Require Import String List Lia Bool.
From ACH Require Import Arith.
From ACH Require Import ReaderValid ReaderValidFacts ReaderValidCanon LayoutFacts LayoutRoundtrip DispatchFacts.
Import ListNotations.
Local Open Scope string_scope.
Local Open Scope nat_scope.
Local Open Scope list_scope.

Lemma forallb_ext_in' {A} (p q : A -> bool) l : (forall x, In x l -> p x = q x) -> forallb p l = forallb q l.
Proof.
  induction l as [|x l IH]; intros H; [reflexivity|]. cbn [forallb]. rewrite (H x (or_introl eq_refl)).
  f_equal. apply IH. intros y Hy. apply H. now right.
Qed.

Section Proj.
Variable T : list layout.

Lemma fields_kept_str ss is_ x f : fields_keptb T ss is_ x = true -> In f ss ->
  gets (r_val (parsed_rec T x)) f = gets (r_val x) f.
Proof.
  unfold fields_keptb. intros H Hin. apply andb_prop in H as [H _]. rewrite forallb_forall in H.
  apply bytes_eqb_eq. now apply H.
Qed.

Lemma fields_kept_int ss is_ x f : fields_keptb T ss is_ x = true -> In f is_ ->
  geti (r_val (parsed_rec T x)) f = geti (r_val x) f.
Proof.
  unfold fields_keptb. intros H Hin. apply andb_prop in H as [_ H]. rewrite forallb_forall in H.
  apply Z.eqb_eq. now apply H.
Qed.

Lemma p_entry_kept k e : fields_keptb T (entry_str_fields k) entry_int_fields (en_rec e) = true ->
  p_entry k (map_entry (parsed_rec T) e) = p_entry k e.
Proof.
  intros H. unfold p_entry, map_entry. cbn [en_rec en_addenda]. rewrite map_length.
  rewrite (fields_kept_int _ _ _ "TransactionCode" H) by (cbn; auto).
  rewrite (fields_kept_int _ _ _ "Amount" H) by (cbn; auto).
  rewrite (fields_kept_str _ _ _ "RDFIIdentification" H) by (destruct k; cbn; auto).
  rewrite (fields_kept_str _ _ _ "CheckDigit" H) by (destruct k; cbn; auto).
  destruct k; try reflexivity; now rewrite (fields_kept_str _ _ _ "TraceNumber" H) by (cbn; auto).
Qed.

Lemma p_bctl_kept c : fields_keptb T ctl_str_fields ctl_int_fields c = true -> p_bctl (parsed_rec T c) = p_bctl c.
Proof.
  intros H. unfold p_bctl.
  rewrite (fields_kept_int _ _ _ "ServiceClassCode" H) by (cbn; auto).
  rewrite (fields_kept_int _ _ _ "EntryAddendaCount" H) by (cbn; auto).
  rewrite (fields_kept_int _ _ _ "EntryHash" H) by (cbn; auto).
  rewrite (fields_kept_int _ _ _ "TotalDebitEntryDollarAmount" H) by (cbn; auto 10).
  rewrite (fields_kept_int _ _ _ "TotalCreditEntryDollarAmount" H) by (cbn; auto 10).
  rewrite (fields_kept_int _ _ _ "BatchNumber" H) by (cbn; auto 10).
  rewrite (fields_kept_str _ _ _ "ODFIIdentification" H) by (cbn; auto).
  reflexivity.
Qed.

Lemma p_batch_kept k b : batch_proj_keepsb T k b = true -> p_batch k (pbatch T b) = p_batch k b.
Proof.
  unfold batch_proj_keepsb. intros H. apply andb_prop in H as [H Hc]. apply andb_prop in H as [Hh He].
  unfold p_batch, pbatch, map_batch. cbn [bt_hdr bt_entries bt_ctl].
  rewrite (fields_kept_int _ _ _ "ServiceClassCode" Hh) by (cbn; auto).
  rewrite (fields_kept_int _ _ _ "BatchNumber" Hh) by (cbn; auto).
  rewrite (fields_kept_str _ _ _ "ODFIIdentification" Hh) by (cbn; auto).
  rewrite (p_bctl_kept _ Hc). f_equal.
  rewrite map_map. apply map_ext_in. intros e Hin. apply p_entry_kept.
  rewrite forallb_forall in He. now apply He.
Qed.

Lemma std_kind_kept k b : batch_proj_keepsb T k b = true -> std_kind (parsed_rec T (bt_hdr b)) = std_kind (bt_hdr b).
Proof.
  unfold batch_proj_keepsb. intros H. apply andb_prop in H as [H _]. apply andb_prop in H as [Hh _].
  unfold std_kind, is_adv, sec_of. now rewrite (fields_kept_str _ _ _ "StandardEntryClassCode" Hh) by (cbn; auto).
Qed.

Theorem batches_okb_kept AT f : proj_keepsb T f = true -> batches_okb AT (parsed_file T f) = batches_okb AT f.
Proof.
  unfold proj_keepsb, batches_okb, parsed_file, map_file. cbn [fl_batches fl_iat]. intros H.
  apply andb_prop in H as [Hs Hi]. rewrite !forallb_map'. f_equal.
  - apply forallb_ext_in'. intros b Hb. rewrite forallb_forall in Hs. specialize (Hs b Hb).
    unfold batch_okb. change (map_batch (parsed_rec T) b) with (pbatch T b). cbn [bt_hdr pbatch map_batch].
    change (mkBat (parsed_rec T (bt_hdr b)) (map (map_entry (parsed_rec T)) (bt_entries b)) (parsed_rec T (bt_ctl b)))
      with (pbatch T b).
    rewrite (std_kind_kept _ _ Hs). now rewrite (p_batch_kept _ _ Hs).
  - apply forallb_ext_in'. intros b Hb. rewrite forallb_forall in Hi. specialize (Hi b Hb).
    unfold batch_okb. change (map_batch (parsed_rec T) b) with (pbatch T b). now rewrite (p_batch_kept _ _ Hi).
Qed.

End Proj.

(* ---- from canonical values ---- *)

Definition role_simple (L : layout) (ss is_ : list string) : bool :=
  forallb (str_kept L) ss && forallb (num_kept L) is_.

Lemma canon_fields_kept T x L ss is_ :
  forallb layout_ok T = true -> layout_of T (r_kind x) = Some L -> role_simple L ss is_ = true ->
  fitsb L (r_val x) = true -> canonb L (r_val x) = true -> fields_keptb T ss is_ x = true.
Proof.
  intros T_ok HL Hs Hfit Hcan. unfold role_simple in Hs. apply andb_prop in Hs as [H1 H2].
  pose proof (layout_of_ok T T_ok _ _ HL) as L_ok.
  unfold fields_keptb, parsed_rec. rewrite HL. cbn [r_val]. apply andb_true_intro. split.
  - apply forallb_forall. intros f Hf. rewrite forallb_forall in H1. apply bytes_eqb_eq.
    exact (str_kept_gets L L_ok (r_val x) Hfit Hcan f (H1 f Hf)).
  - apply forallb_forall. intros f Hf. rewrite forallb_forall in H2. apply Z.eqb_eq.
    exact (num_kept_geti L L_ok (r_val x) Hfit Hcan f (H2 f Hf)).
Qed.

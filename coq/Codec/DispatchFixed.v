(* File-level fixed point (C01): writing the file that was read back gives the
   same record lines again — for the file as the reader returns it
   ([parsed_file], only the fields Parse assigns) and for the same laid over the
   original values ([canon_file]). *)
From Coq Require Import String List Lia Bool.
From ACH Require Import Dispatch LayoutFacts CustomFacts FileStructFacts DispatchFacts.
Import ListNotations.
Local Open Scope string_scope.
Local Open Scope nat_scope.
Local Open Scope list_scope.

(* every field String() reads is assigned by Parse() (from columns or as a
   constant): a record built by Parse alone renders like the overlay *)
Definition reads_assigned (L : layout) : bool :=
  forallb (fun g => is_some (find_key (l_cuts L) g)) (flat_map seg_reads (l_segs L)).

(* ------------------------------------------------------------------ *)
(* a conversion chain fails or succeeds whatever the text                *)

Lemma conv_str_total fn a b : is_some (conv_str fn a) = is_some (conv_str fn b).
Proof.
  unfold conv_str.
  repeat match goal with |- context [if ?c then _ else _] => destruct c; [reflexivity|] end. reflexivity.
Qed.

Lemma conv_chain_total cv : forall a b, is_some (conv_chain cv a) = is_some (conv_chain cv b).
Proof.
  induction cv as [|fn cv IH]; intros a b; [reflexivity|]. cbn [conv_chain]. specialize (IH a b).
  destruct (conv_chain cv a) as [a'|], (conv_chain cv b) as [b'|]; cbn [is_some] in *; try discriminate; [|reflexivity].
  apply conv_str_total.
Qed.

Lemma conv_value_total cv a b : is_some (conv_value cv a) = is_some (conv_value cv b).
Proof.
  unfold conv_value. destruct cv as [|fn rest]; [reflexivity|].
  destruct (String.eqb fn "parseNumField").
  - pose proof (conv_chain_total rest a b) as H.
    destruct (conv_chain rest a), (conv_chain rest b); cbn [is_some] in *; congruence.
  - pose proof (conv_chain_total (fn :: rest) a b) as H.
    destruct (conv_chain (fn :: rest) a), (conv_chain (fn :: rest) b); cbn [is_some] in *; congruence.
Qed.

Lemma layout_ok_conv L : layout_ok L = true -> forall c, In c (l_cuts L) -> conv_ok (c_conv c) = true.
Proof.
  unfold layout_ok. intros H. repeat rewrite andb_true_iff in H.
  destruct H as (((((((_ & _) & _) & H) & _) & _) & _) & _). rewrite forallb_forall in H. exact H.
Qed.

Lemma layout_ok_keys L : layout_ok L = true -> NoDup (flat_map cut_keys (l_cuts L)).
Proof. intros H. destruct (layout_ok_facts L H) as [cs F]. exact (ok_cut_keys _ _ F). Qed.

(* Parse assigns every field that has a cut, whatever the line holds *)
Lemma parse_assigns L line g : layout_ok L = true -> rune_count line = 94 ->
  is_some (find_key (l_cuts L) g) = true -> is_some (lookup (rev (parse L line)) g) = true.
Proof.
  intros Hok H94 Hk. unfold parse. rewrite H94, Nat.eqb_refl.
  destruct (lookup_parse (units (l_ix L) line) (l_cuts L) g (layout_ok_keys L Hok)) as [_ ->].
  unfold assigned. destruct (find_key (l_cuts L) g) as [c|] eqn:Ef; [|discriminate].
  apply find_key_in in Ef as [Hc Hkey]. unfold cut_key in Hkey. unfold parse_cut.
  destruct (c_const c) as [bs|].
  - injection Hkey as ->. now rewrite lookup_single.
  - destruct (String.eqb (c_field c) ""); [discriminate|]. injection Hkey as ->.
    pose proof (layout_ok_conv L Hok c Hc) as Hcv. unfold conv_ok in Hcv.
    rewrite (conv_value_total _ _ (sub (units (l_ix L) line) (c_lo c) (c_hi c))) in Hcv.
    destruct (conv_value (c_conv c) (sub (units (l_ix L) line) (c_lo c) (c_hi c))); [|discriminate].
    now rewrite lookup_single.
Qed.

(* String() depends on the fields its segments read only *)
Lemma render_ext L r1 r2 :
  (forall g, In g (flat_map seg_reads (l_segs L)) -> lookup r1 g = lookup r2 g) -> render L r1 = render L r2.
Proof.
  intros H. unfold render. f_equal. apply map_ext_in. intros s Hs.
  assert (Hr : forall g, In g (seg_reads s) -> lookup r1 g = lookup r2 g).
  { intros g Hg. apply H. apply in_flat_map. now exists s. }
  destruct (simple_field s) as [f|] eqn:Esf.
  - apply (render_seg_lookup s f); [assumption|]. apply Hr. unfold seg_reads.
    destruct s; cbn [simple_field] in Esf; try discriminate; injection Esf as ->; now left.
  - destruct s; cbn [simple_field] in Esf; try discriminate; try reflexivity.
    cbn [render_seg]. cbn [seg_reads] in Hr. now rewrite (render_custom_reads name r1 r2 Hr).
Qed.

Lemma overlay_nil_render L line r : layout_ok L = true -> reads_assigned L = true -> rune_count line = 94 ->
  render L (overlay (parse L line) []) = render L (overlay (parse L line) r).
Proof.
  intros Hok Hra H94. apply render_ext. intros g Hg. unfold overlay. rewrite !lookup_app.
  unfold reads_assigned in Hra. rewrite forallb_forall in Hra.
  pose proof (parse_assigns L line g Hok H94 (Hra g Hg)) as Hs.
  now destruct (lookup (rev (parse L line)) g).
Qed.

(* write, read, write again — the record as the reader builds it *)
Theorem reparse_fixed_parsed L r :
  layout_ok L = true -> reads_assigned L = true -> fitsb L r = true -> stableb L r = true ->
  render L (overlay (parse L (render L r)) []) = render L r.
Proof.
  intros Hok Hra Hfit Hst. rewrite (overlay_nil_render L (render L r) r Hok Hra (render_width L r Hok Hfit)).
  now apply reparse_fixed.
Qed.

(* ------------------------------------------------------------------ *)
(* the file                                                             *)

Lemma all_entry_impl (P Q : recordR -> bool) e : (forall x, P x = true -> Q x = true) ->
  all_entry P e = true -> all_entry Q e = true.
Proof.
  intros H. unfold all_entry. intros A. apply andb_prop in A as [A1 A2]. rewrite (H _ A1). cbn [andb].
  rewrite forallb_forall in *. intros x Hx. apply H. now apply A2.
Qed.
Lemma all_batch_impl (P Q : recordR -> bool) b : (forall x, P x = true -> Q x = true) ->
  all_batch P b = true -> all_batch Q b = true.
Proof.
  intros H. unfold all_batch. intros A. apply andb_prop in A as [A A3]. apply andb_prop in A as [A1 A2].
  rewrite (H _ A1), (H _ A3), andb_true_r. cbn [andb]. rewrite forallb_forall in *. intros e He.
  apply (all_entry_impl P Q e H). now apply A2.
Qed.
Lemma all_file_impl (P Q : recordR -> bool) f : (forall x, P x = true -> Q x = true) ->
  all_file P f = true -> all_file Q f = true.
Proof.
  intros H. unfold all_file. intros A. apply andb_prop in A as [A A4]. apply andb_prop in A as [A A3].
  apply andb_prop in A as [A1 A2]. rewrite (H _ A1), (H _ A4), andb_true_r. cbn [andb].
  apply andb_true_intro. split; rewrite forallb_forall in *; intros b Hb; apply (all_batch_impl P Q b H); auto.
Qed.
Lemma forallb_and {A} (P Q : A -> bool) l :
  forallb P l = true -> forallb Q l = true -> forallb (fun x => P x && Q x) l = true.
Proof.
  intros A1 A2. rewrite forallb_forall in *. intros x Hx. now rewrite (A1 x Hx), (A2 x Hx).
Qed.
Lemma forallb_and2 {A} (P Q R : A -> bool) l : (forall x, P x = true -> Q x = true -> R x = true) ->
  forallb P l = true -> forallb Q l = true -> forallb R l = true.
Proof.
  intros H A1 A2. rewrite forallb_forall in *. intros x Hx. apply H; auto.
Qed.
Lemma all_entry_and (P Q : recordR -> bool) e :
  all_entry P e = true -> all_entry Q e = true -> all_entry (fun x => P x && Q x) e = true.
Proof.
  unfold all_entry. intros A B. apply andb_prop in A as [A1 A2]. apply andb_prop in B as [B1 B2].
  now rewrite A1, B1, forallb_and.
Qed.
Lemma all_batch_and (P Q : recordR -> bool) b :
  all_batch P b = true -> all_batch Q b = true -> all_batch (fun x => P x && Q x) b = true.
Proof.
  unfold all_batch. intros A B. apply andb_prop in A as [A A3]. apply andb_prop in A as [A1 A2].
  apply andb_prop in B as [B B3]. apply andb_prop in B as [B1 B2].
  rewrite A1, B1, A3, B3. cbn [andb]. rewrite andb_true_r.
  apply (forallb_and2 (all_entry P) (all_entry Q)); auto. intros e. apply all_entry_and.
Qed.
Lemma all_file_and (P Q : recordR -> bool) f :
  all_file P f = true -> all_file Q f = true -> all_file (fun x => P x && Q x) f = true.
Proof.
  unfold all_file. intros A B. apply andb_prop in A as [A A4]. apply andb_prop in A as [A A3].
  apply andb_prop in A as [A1 A2]. apply andb_prop in B as [B B4]. apply andb_prop in B as [B B3].
  apply andb_prop in B as [B1 B2]. rewrite A1, B1, A4, B4. cbn [andb]. rewrite andb_true_r.
  apply andb_true_intro. split; apply (forallb_and2 (all_batch P) (all_batch Q)); auto; intros b; apply all_batch_and.
Qed.

Section Fixed.
Variable T : list layout.
Hypothesis T_ok : forallb layout_ok T = true.

(* [phi] re-renders every record to the same line and keeps the ADV-ness of batch headers *)
Definition keeps_line (phi : recordR -> recordR) (x : recordR) : bool :=
  bytes_eqb (render_rec T (phi x)) (render_rec T x).

Lemma entry_S_map phi e : all_entry (keeps_line phi) e = true -> entry_S T (map_entry phi e) = entry_S T e.
Proof.
  unfold all_entry, keeps_line. intros A. apply andb_prop in A as [A1 A2]. apply bytes_eqb_eq in A1.
  unfold entry_S, map_entry. cbn [en_rec en_addenda]. rewrite A1, map_map. f_equal.
  apply map_ext_in. intros a Ha. rewrite forallb_forall in A2. now apply bytes_eqb_eq, A2.
Qed.

Lemma entries_S_map phi es : forallb (all_entry (keeps_line phi)) es = true ->
  map (entry_S T) (map (map_entry phi) es) = map (entry_S T) es.
Proof.
  intros A. rewrite map_map. apply map_ext_in. intros e He. rewrite forallb_forall in A. now apply entry_S_map, A.
Qed.

Lemma write_map phi f :
  all_file (keeps_line phi) f = true ->
  (forall b, In b (fl_batches f) -> is_adv (phi (bt_hdr b)) = is_adv (bt_hdr b)) ->
  write_file T (map_file phi f) = write_file T f.
Proof.
  intros A Hadv. unfold all_file in A. apply andb_prop in A as [A A4]. apply andb_prop in A as [A A3].
  apply andb_prop in A as [A1 A2]. unfold keeps_line in A1, A4. apply bytes_eqb_eq in A1, A4.
  unfold write_file. f_equal. unfold struct_of, map_file. cbn [fl_hdr fl_batches fl_iat fl_ctl].
  assert (Ea : any_adv (map (map_batch phi) (fl_batches f)) = any_adv (fl_batches f)).
  { unfold any_adv. rewrite existsb_map'. apply existsb_ext_in. intros b Hb. now apply Hadv. }
  rewrite A1, A4, Ea. f_equal. f_equal.
  - rewrite map_map. apply map_ext_in. intros b Hb. rewrite forallb_forall in A2. specialize (A2 b Hb).
    unfold all_batch in A2. apply andb_prop in A2 as [B B3]. apply andb_prop in B as [B1 B2].
    unfold keeps_line in B1, B3. apply bytes_eqb_eq in B1, B3.
    unfold std_batch_S, map_batch. cbn [bt_hdr bt_entries bt_ctl]. rewrite B1, B3, (Hadv b Hb), entries_S_map by assumption.
    reflexivity.
  - rewrite map_map. apply map_ext_in. intros b Hb. rewrite forallb_forall in A3. specialize (A3 b Hb).
    unfold all_batch in A3. apply andb_prop in A3 as [B B3]. apply andb_prop in B as [B1 B2].
    unfold keeps_line in B1, B3. apply bytes_eqb_eq in B1, B3.
    unfold iat_batch_S, map_batch. cbn [bt_hdr bt_entries bt_ctl]. rewrite B1, B3, entries_S_map by assumption.
    reflexivity.
Qed.

Definition rec_okb (x : recordR) : bool := rec_fitsb T x && rec_stableb T x.

Lemma canon_keeps x : rec_okb x = true -> keeps_line (canon_rec T) x = true.
Proof.
  unfold rec_okb, rec_fitsb, rec_stableb, keeps_line, canon_rec, render_rec. intros H. apply andb_prop in H as [Hf Hs].
  destruct (layout_of T (r_kind x)) as [L|] eqn:E; [|discriminate]. cbn [r_kind r_val]. rewrite E.
  apply bytes_eqb_eq. apply reparse_fixed; auto. now apply (layout_of_ok T T_ok (r_kind x)).
Qed.

Hypothesis T_ra : forallb reads_assigned T = true.

Lemma parsed_keeps x : rec_okb x = true -> keeps_line (parsed_rec T) x = true.
Proof.
  unfold rec_okb, rec_fitsb, rec_stableb, keeps_line, parsed_rec, render_rec. intros H. apply andb_prop in H as [Hf Hs].
  destruct (layout_of T (r_kind x)) as [L|] eqn:E; [|discriminate]. cbn [r_kind r_val]. rewrite E.
  apply bytes_eqb_eq. apply reparse_fixed_parsed; auto.
  - now apply (layout_of_ok T T_ok (r_kind x)).
  - unfold layout_of in E. apply find_some in E as [Hin _]. rewrite forallb_forall in T_ra. now apply T_ra.
Qed.

(* the batch headers keep their ADV-ness: part of [dispatchb] for the parsed
   header, and the overlay shows the same SEC code or the original one *)
Lemma std_ok_adv adv b : std_batch_ok T adv b = true -> is_adv (parsed_rec T (bt_hdr b)) = is_adv (bt_hdr b).
Proof.
  unfold std_batch_ok. cbv zeta. intros H.
  repeat match type of H with _ && _ = true => let K := fresh "K" in apply andb_prop in H as [H K] end.
  now apply eqb_prop in K3.
Qed.

Lemma canon_adv x : is_adv (parsed_rec T x) = is_adv x -> is_adv (canon_rec T x) = is_adv x.
Proof.
  unfold is_adv, sec_of, parsed_rec, canon_rec. destruct (layout_of T (r_kind x)) as [L|]; [|auto].
  cbn [r_val]. unfold overlay, gets. rewrite !lookup_app.
  destruct (lookup (rev (parse L (render L (r_val x)))) "StandardEntryClassCode") as [v|]; [auto|].
  cbn [lookup]. change (bytes_eqb [] ADVb) with false. intros <-.
  destruct (lookup (r_val x) "StandardEntryClassCode") as [[s|z]|]; auto.
Qed.

Theorem write_parsed_file f :
  all_file (rec_fitsb T) f = true -> all_file (rec_stableb T) f = true -> dispatchb T f = true ->
  write_file T (parsed_file T f) = write_file T f.
Proof.
  intros Hf Hs Hd. apply write_map.
  - apply (all_file_impl rec_okb); [exact parsed_keeps|]. now apply all_file_and.
  - intros b Hb. unfold dispatchb in Hd.
    repeat match type of Hd with _ && _ = true => let K := fresh "K" in apply andb_prop in Hd as [Hd K] end.
    rewrite forallb_forall in K3. exact (std_ok_adv _ b (K3 b Hb)).
Qed.

Theorem write_canon_file f :
  all_file (rec_fitsb T) f = true -> all_file (rec_stableb T) f = true -> dispatchb T f = true ->
  write_file T (canon_file T f) = write_file T f.
Proof.
  intros Hf Hs Hd. apply write_map.
  - apply (all_file_impl rec_okb); [exact canon_keeps|]. now apply all_file_and.
  - intros b Hb. unfold dispatchb in Hd.
    repeat match type of Hd with _ && _ = true => let K := fresh "K" in apply andb_prop in Hd as [Hd K] end.
    rewrite forallb_forall in K3. apply canon_adv. exact (std_ok_adv _ b (K3 b Hb)).
Qed.

(* the canonical record = the parsed record, the original value behind it *)
Lemma canon_rec_lookup x g :
  lookup (r_val (canon_rec T x)) g =
  match layout_of T (r_kind x) with
  | Some _ => match lookup (r_val (parsed_rec T x)) g with Some v => Some v | None => lookup (r_val x) g end
  | None => lookup (r_val x) g
  end.
Proof.
  unfold canon_rec, parsed_rec. destruct (layout_of T (r_kind x)) as [L|]; [|reflexivity].
  cbn [r_val]. unfold overlay. rewrite !lookup_app. cbn [lookup].
  now destruct (lookup (rev (parse L (render L (r_val x)))) g).
Qed.

End Fixed.

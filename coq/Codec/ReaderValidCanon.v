(* "Parsing a rendered valid record yields a valid record" from the CANONICAL-VALUE condition of the
   record-level codec proofs ([canonb], Codec/LayoutRoundtrip.v), for the record types all of whose
   recognised rules read nothing but fields that String() writes with a simple segment and Parse
   reads back from its own columns ([rules_simple], a boolean checked on the regenerated tables):

     rules_simple L R -> layout_ok L -> fitsb L r -> canonb L r -> rules_agreeb R r (record read back)

   so for these record types [rec_keepsb] (Codec/ReaderValid.v) follows from [canonb]. *)
From Coq Require Import String List Lia Bool.
From ACH Require Import Arith.
From ACH Require Import ReaderValid ReaderValidFacts LayoutFacts LayoutRoundtrip DispatchFacts DispatchFixed.
Import ListNotations.
Local Open Scope string_scope.
Local Open Scope nat_scope.
Local Open Scope list_scope.

Definition str_seg_for (f : string) (s : seg) : bool :=
  match s with SAlpha g _ | SStr g _ | SRaw g => String.eqb f g | _ => false end.
Definition num_seg_for (f : string) (s : seg) : bool :=
  match s with SNum g _ | SItoa g => String.eqb f g | _ => false end.

(* Parse reads f back from columns (not a constant) *)
Definition real_cut (L : layout) (f : string) : bool :=
  match find_key (l_cuts L) f with
  | Some c => match c_const c with None => true | Some _ => false end
  | None => false
  end.

Definition str_kept (L : layout) (f : string) : bool := existsb (str_seg_for f) (l_segs L) && real_cut L f.
Definition num_kept (L : layout) (f : string) : bool := existsb (num_seg_for f) (l_segs L) && real_cut L f.

Fixpoint sterm_simple (L : layout) (t : sterm) : bool :=
  match t with
  | TField f => str_kept L f
  | TRender s =>
      match s with
      | SAlpha f _ | SStr f _ | SRaw f => str_kept L f
      | SNum f _ | SItoa f => num_kept L f
      | SLit _ => true
      | _ => false
      end
  | TUpper t' => sterm_simple L t'
  end.

Definition iterm_simple (L : layout) (t : iterm) : bool :=
  match t with
  | IField f => num_kept L f
  | IConst _ => true
  | IAtoi t' | ICheckDigit t' => sterm_simple L t'
  end.

Fixpoint cond_simple (L : layout) (c : cond) : bool :=
  match c with
  | CTrue | CFalse | CUnknown _ _ => true
  | CStrIn t _ | CStrNotIn t _ | CByteLen _ t _ | CRuneLen _ t _ | CRunesOutside t _ | CAtoiErr t => sterm_simple L t
  | CIntIn t _ | CIntNotIn t _ => iterm_simple L t
  | CIntCmp _ a b => iterm_simple L a && iterm_simple L b
  | CAnd a b | COr a b => cond_simple L a && cond_simple L b
  | CNot a => cond_simple L a
  end.

Definition rules_simple (L : layout) (R : rules) : bool := forallb (fun lc => cond_simple L (snd lc)) R.

Section CanonKeeps.
Variable L : layout.
Hypothesis L_ok : layout_ok L = true.
Variable r : recval.
Hypothesis Hfit : fitsb L r = true.
Hypothesis Hcan : canonb L r = true.

(* the record as the reader builds it *)
Definition reread : recval := overlay (parse L (render L r)) [].

Lemma lookup_reread g : lookup reread g = lookup (parse L (render L r)) g.
Proof.
  unfold reread, overlay. rewrite app_nil_r. unfold parse.
  destruct (rune_count (render L r) =? 94); [|reflexivity].
  destruct (lookup_parse (units (l_ix L) (render L r)) (l_cuts L) g (layout_ok_keys L L_ok)) as [-> ->].
  reflexivity.
Qed.

Lemma real_cut_spec f : real_cut L f = true -> exists c, find_key (l_cuts L) f = Some c /\ c_const c = None.
Proof.
  unfold real_cut. destruct (find_key (l_cuts L) f) as [c|]; [|discriminate].
  destruct (c_const c) eqn:E; [discriminate|]. intros _. now exists c.
Qed.

Lemma str_kept_gets f : str_kept L f = true -> gets reread f = gets r f.
Proof.
  unfold str_kept. intros H. apply andb_prop in H as [Hs Hc]. apply existsb_exists in Hs as (s & Hin & Hs).
  apply real_cut_spec in Hc as (c & Hk & Hcc).
  unfold gets at 1. rewrite lookup_reread.
  destruct s as [bs|g w|g w|g w|g|g|n h|src]; cbn [str_seg_for] in Hs; try discriminate Hs;
    apply String.eqb_eq in Hs; subst g.
  - rewrite (parse_render_value L r (SAlpha f w) f c L_ok Hfit Hcan Hin eq_refl Hk Hcc). reflexivity.
  - rewrite (parse_render_value L r (SStr f w) f c L_ok Hfit Hcan Hin eq_refl Hk Hcc). reflexivity.
  - rewrite (parse_render_value L r (SRaw f) f c L_ok Hfit Hcan Hin eq_refl Hk Hcc). reflexivity.
Qed.

Lemma num_kept_geti f : num_kept L f = true -> geti reread f = geti r f.
Proof.
  unfold num_kept. intros H. apply andb_prop in H as [Hs Hc]. apply existsb_exists in Hs as (s & Hin & Hs).
  apply real_cut_spec in Hc as (c & Hk & Hcc).
  unfold geti at 1. rewrite lookup_reread.
  destruct s as [bs|g w|g w|g w|g|g|n h|src]; cbn [num_seg_for] in Hs; try discriminate Hs;
    apply String.eqb_eq in Hs; subst g.
  - rewrite (parse_render_value L r (SNum f w) f c L_ok Hfit Hcan Hin eq_refl Hk Hcc). reflexivity.
  - rewrite (parse_render_value L r (SItoa f) f c L_ok Hfit Hcan Hin eq_refl Hk Hcc). reflexivity.
Qed.

Lemma sterm_simple_evals t : sterm_simple L t = true -> evals reread t = evals r t.
Proof.
  induction t as [f|s|t IH]; cbn [sterm_simple evals]; intros H.
  - now apply str_kept_gets.
  - destruct s as [bs|g w|g w|g w|g|g|n h|src]; try discriminate H; cbn [render_seg].
    + reflexivity.
    + now rewrite (str_kept_gets g H).
    + now rewrite (num_kept_geti g H).
    + now rewrite (str_kept_gets g H).
    + now rewrite (str_kept_gets g H).
    + now rewrite (num_kept_geti g H).
  - now rewrite IH.
Qed.

Lemma iterm_simple_evali t : iterm_simple L t = true -> evali reread t = evali r t.
Proof.
  destruct t as [f|z|t|t]; cbn [iterm_simple evali]; intros H.
  - now apply num_kept_geti.
  - reflexivity.
  - now rewrite (sterm_simple_evals t H).
  - now rewrite (sterm_simple_evals t H).
Qed.

Lemma bytes_eqb_refl' s : bytes_eqb s s = true.
Proof. now apply bytes_eqb_eq. Qed.

Lemma cond_simple_agree c : cond_simple L c = true -> cond_agreeb r reread c = true.
Proof.
  induction c as [| |t set|t set|t set|t set|k a b|k t n|k t n|t rg|t|a IHa b IHb|a IHa b IHb|a IHa|src fs];
    cbn [cond_simple cond_agreeb]; intros H; try reflexivity.
  - rewrite (sterm_simple_evals t H). destruct set as [|[|x m] [|m2 rest]]; try apply bytes_eqb_refl'. apply eqb_reflx.
  - rewrite (sterm_simple_evals t H). apply bytes_eqb_refl'.
  - rewrite (iterm_simple_evali t H). apply Z.eqb_refl.
  - rewrite (iterm_simple_evali t H). apply Z.eqb_refl.
  - apply andb_prop in H as [Ha Hb]. rewrite (iterm_simple_evali a Ha), (iterm_simple_evali b Hb), !Z.eqb_refl. reflexivity.
  - rewrite (sterm_simple_evals t H). apply bytes_eqb_refl'.
  - rewrite (sterm_simple_evals t H). apply bytes_eqb_refl'.
  - rewrite (sterm_simple_evals t H). apply bytes_eqb_refl'.
  - rewrite (sterm_simple_evals t H). apply bytes_eqb_refl'.
  - apply andb_prop in H as [Ha Hb]. now rewrite IHa, IHb.
  - apply andb_prop in H as [Ha Hb]. now rewrite IHa, IHb.
  - now apply IHa.
Qed.

Theorem rules_simple_agree R : rules_simple L R = true -> rules_agreeb R r reread = true.
Proof.
  unfold rules_simple, rules_agreeb. intros H. apply forallb_forall. intros lc Hin.
  rewrite forallb_forall in H. apply cond_simple_agree. now apply H.
Qed.

End CanonKeeps.

(* for a record of a layout table: canonical values are kept *)
Theorem canon_keeps T RS x L :
  forallb layout_ok T = true -> layout_of T (r_kind x) = Some L ->
  rules_simple L (rules_for RS (r_kind x)) = true ->
  fitsb L (r_val x) = true -> canonb L (r_val x) = true -> rec_keepsb T RS x = true.
Proof.
  intros T_ok HL Hs Hfit Hcan. unfold rec_keepsb, parsed_rec. rewrite HL. cbn [r_val].
  apply (rules_simple_agree L (layout_of_ok T T_ok _ _ HL) (r_val x) Hfit Hcan). exact Hs.
Qed.

(* C02, control counts of the written file (phase 3).

   Physical quantities of a list of record lines — what a receiver counts in
   the text: '5' lines, '6'/'7' lines, the '6'/'7' lines between a '5' line and
   the next '8' line, all lines / 10 — and the DECLARED quantities: the numbers
   in the count columns of the '8' and '9' lines (parseNumField over the columns
   of the regenerated control layouts).

   [tabulatedb f]: the control records of the file tree hold what
   Batch.build / IATBatch.build / File.Create / createFileADV compute, stated
   with the C05 model's own definitions (Model/Offsets.v [count],
   [file_control]) over the projection [o_batch] of the typed tree.

   Definitions only. *)
From Coq Require Import String ZArith.
From ACH Require Export Dispatch.
From ACH Require Offsets.
From ACH Require Import NumFacts.
Local Open Scope string_scope.
Local Open Scope nat_scope.

(* ------------------------------------------------------------------ *)
(* physical quantities of written lines                                  *)

Definition is_type (t : N) (l : bytes) : bool := (rtype l =? t)%N.
Definition count_type (t : N) (ls : list bytes) : nat := length (filter (is_type t) ls).

(* number of batch header lines *)
Definition batch_header_lines (ls : list bytes) : nat := count_type T5 ls.
(* number of entry detail + addenda lines *)
Definition entry_addenda_lines (ls : list bytes) : nat := count_type T6 ls + count_type T7 ls.
(* number of blocks: physical lines / 10 *)
Definition block_lines (ls : list bytes) : nat := length ls / 10.

(* the lines strictly between a '5' line and the next '8' line, with that '8'
   line: one pair per batch.  [cur] = the lines since the open '5' line, last first *)
Fixpoint segments (cur : option (list bytes)) (ls : list bytes) : list (list bytes * bytes) :=
  match ls with
  | [] => []
  | l :: t =>
      if is_type T5 l then segments (Some []) t
      else if is_type T8 l then
        match cur with
        | Some acc => (rev acc, l) :: segments None t
        | None => segments None t
        end
      else match cur with
           | Some acc => segments (Some (l :: acc)) t
           | None => segments None t
           end
  end.
Definition batch_segments (ls : list bytes) : list (list bytes * bytes) := segments None ls.

(* ------------------------------------------------------------------ *)
(* declared quantities: the count columns of control lines               *)

(* parseNumField(string([]rune(line)[lo:hi])) *)
Definition num_at (l : bytes) (lo hi : nat) : Z := parseNumField (sub (units IRune l) lo hi).

(* '8' line (BatchControl and ADVBatchControl): entry/addenda count, 6 digits *)
Definition bc_entry_count (l : bytes) : Z := num_at l 4 10.
(* '9' line (FileControl and ADVFileControl): batch count, block count (6 digits each), entry/addenda count (8 digits) *)
Definition fc_batch_count (l : bytes) : Z := num_at l 1 7.
Definition fc_block_count (l : bytes) : Z := num_at l 7 13.
Definition fc_entry_count (l : bytes) : Z := num_at l 13 21.

(* record type -> count field -> columns; checked against the regenerated layouts ([count_cols_ok]) *)
Definition batch_ctl_kinds : list string := ["BatchControl"; "ADVBatchControl"].
Definition file_ctl_kinds : list string := ["FileControl"; "ADVFileControl"].
Definition batch_ctl_cols : list (string * (nat * nat)) := [("EntryAddendaCount", (4, 10))].
Definition file_ctl_cols : list (string * (nat * nat)) :=
  [("BatchCount", (1, 7)); ("BlockCount", (7, 13)); ("EntryAddendaCount", (13, 21))].

Definition is_none {A} (o : option A) : bool := match o with None => true | Some _ => false end.

(* in layout L the field f is a numericField of hi-lo digits written to and parsed (parseNumField) from the columns [lo,hi) *)
Definition col_ok (L : layout) (f : string) (lo hi : nat) : bool :=
  match find_key (l_cuts L) f with
  | Some c =>
      (c_lo c =? lo) && (c_hi c =? hi) && is_none (c_const c) && is_num_chain (c_conv c)
      && negb (String.eqb (c_field c) "") && (hi - lo <=? 18)
      && match aligned_seg L c with
         | Some (SNum g w) => String.eqb g f && (w =? hi - lo)
         | _ => false
         end
  | None => false
  end.

(* the layout writes field f through numericField only, and has no hand-modelled accessor: storing a
   non-negative Go int into f keeps a fitting record fitting *)
Definition plain_num_layout (L : layout) (f : string) : bool :=
  forallb (fun s => match s with
                    | SLit _ | SNum _ _ => true
                    | SAlpha g _ | SStr g _ | SRaw g | SItoa g => negb (String.eqb g f)
                    | SCustom _ _ | SUnknown _ => false
                    end) (l_segs L).

Definition pow10 (w : nat) : Z := Z.of_N (p10 w).

Section WithLayouts.
Variable T : list layout.

Definition cols_ok (kinds : list string) (cs : list (string * (nat * nat))) : bool :=
  forallb (fun k => match layout_of T k with
                    | Some L => is_irune (l_ix L) && forallb (fun p => col_ok L (fst p) (fst (snd p)) (snd (snd p))) cs
                    | None => false
                    end) kinds.
Definition count_cols_ok : bool := cols_ok batch_ctl_kinds batch_ctl_cols && cols_ok file_ctl_kinds file_ctl_cols.

Definition plain_ok (kinds : list string) (cs : list (string * (nat * nat))) : bool :=
  forallb (fun k => match layout_of T k with
                    | Some L => forallb (fun p => plain_num_layout L (fst p)) cs
                    | None => false
                    end) kinds.
Definition count_fields_plain : bool := plain_ok batch_ctl_kinds batch_ctl_cols && plain_ok file_ctl_kinds file_ctl_cols.

(* ------------------------------------------------------------------ *)
(* shape of the tree: the record-type digit of every record's layout     *)

Definition first_digit (k : string) : option N :=
  match layout_of T k with
  | Some L => match l_segs L with SLit [c] :: _ => Some c | _ => None end
  | None => None
  end.
Definition rec_is (t : N) (x : recordR) : bool :=
  match first_digit (r_kind x) with Some c => (c =? t)%N | None => false end.

Definition entry_shape (e : entryR) : bool := rec_is T6 (en_rec e) && forallb (rec_is T7) (en_addenda e).
Definition batch_shape (b : batchR) : bool :=
  rec_is T5 (bt_hdr b) && forallb entry_shape (bt_entries b) && rec_is T8 (bt_ctl b)
  && mem_str (r_kind (bt_ctl b)) batch_ctl_kinds.
Definition shape_ok (f : fileR) : bool :=
  rec_is T1 (fl_hdr f) && forallb batch_shape (fl_batches f) && forallb batch_shape (fl_iat f)
  && rec_is T9 (fl_ctl f) && mem_str (r_kind (fl_ctl f)) file_ctl_kinds.

End WithLayouts.

(* ------------------------------------------------------------------ *)
(* what Create tabulates, through the C05 model                          *)

(* projection of an entry onto Offsets.entry.  [Offsets.count] reads [e_addenda]
   only (1 + addendaCount per entry); the transaction code and amount are the
   record's; the OFFSET flag, trace number and RDFI term are not read by any
   count and are left at their zero values *)
Definition o_entry (e : entryR) : Offsets.entry :=
  Offsets.mkentry (geti (r_val (en_rec e)) "TransactionCode") (geti (r_val (en_rec e)) "Amount") false 0%Z
                  (Z.of_nat (length (en_addenda e))) 0%Z.

Definition o_control (c : recordR) : Offsets.control :=
  Offsets.mkctl (geti (r_val c) "ServiceClassCode") (geti (r_val c) "BatchNumber") (geti (r_val c) "EntryAddendaCount")
                (geti (r_val c) "EntryHash") (geti (r_val c) "TotalCreditEntryDollarAmount")
                (geti (r_val c) "TotalDebitEntryDollarAmount").

Definition o_batch (b : batchR) : Offsets.batch :=
  Offsets.mkbatch true 0%Z (geti (r_val (bt_hdr b)) "ServiceClassCode") (geti (r_val (bt_hdr b)) "BatchNumber")
                  (map o_entry (bt_entries b)) (o_control (bt_ctl b)) None.

(* entryCount of Batch.build (both branches) and of IATBatch.isBatchEntryCount:
   1 per entry + 1 per addenda record that is present *)
Definition built_count (b : batchR) : Z := Offsets.count (Offsets.b_entries (o_batch b)).
Definition batch_tabulatedb (b : batchR) : bool := (geti (r_val (bt_ctl b)) "EntryAddendaCount" =? built_count b)%Z.

(* the batches File.Create sums over: f.Batches then f.IATBatches; createFileADV (any batch ADV): f.Batches only *)
Definition created_batches (f : fileR) : list batchR :=
  if any_adv (fl_batches f) then fl_batches f else fl_batches f ++ fl_iat f.
Definition created_control (f : fileR) : Offsets.fctl := Offsets.file_control (map o_batch (created_batches f)).

(* createFileADV: `if batch.GetHeader().StandardEntryClassCode != ADV { return ErrFileADVOnly }` *)
Definition adv_only (f : fileR) : bool :=
  if any_adv (fl_batches f) then forallb (fun b => is_adv (bt_hdr b)) (fl_batches f) else true.

Definition file_tabulatedb (f : fileR) : bool :=
  let c := created_control f in
  let v := r_val (fl_ctl f) in
  adv_only f
  && (geti v "BatchCount" =? Offsets.fc_batches c)%Z
  && (geti v "BlockCount" =? Offsets.fc_blocks c)%Z
  && (geti v "EntryAddendaCount" =? Offsets.fc_count c)%Z.

Definition all_batches (f : fileR) : list batchR := fl_batches f ++ fl_iat f.

Definition tabulatedb (f : fileR) : bool := forallb batch_tabulatedb (all_batches f) && file_tabulatedb f.

(* an ADV file carries no IAT batches (createFileADV does not look at f.IATBatches, the writer emits them) *)
Definition adv_no_iat (f : fileR) : bool := negb (any_adv (fl_batches f)) || is_nil (fl_iat f).

(* the counts fit their columns: 6 digits per batch, 6 / 6 / 8 digits in the file control *)
Definition count_boundsb (f : fileR) : bool :=
  let c := created_control f in
  forallb (fun b => (built_count b <? pow10 6)%Z) (all_batches f)
  && (Offsets.fc_batches c <? pow10 6)%Z && (Offsets.fc_blocks c <? pow10 6)%Z && (Offsets.fc_count c <? pow10 8)%Z.

(* ------------------------------------------------------------------ *)
(* the count part of Create as a function on the tree                    *)

(* x.F = z *)
Definition set_int (x : recordR) (f : string) (z : Z) : recordR := mkRec (r_kind x) ((f, VI z) :: r_val x).

(* Batch.build / IATBatch.build: `bc.EntryAddendaCount = entryCount` *)
Definition tabulate_batch (b : batchR) : batchR :=
  mkBat (bt_hdr b) (bt_entries b) (set_int (bt_ctl b) "EntryAddendaCount" (built_count b)).

(* every batch's Create, then File.Create: the three count fields of the file control *)
Definition tabulate (f : fileR) : fileR :=
  let g := mkFil (fl_hdr f) (map tabulate_batch (fl_batches f)) (map tabulate_batch (fl_iat f)) (fl_ctl f) in
  let c := created_control g in
  mkFil (fl_hdr g) (fl_batches g) (fl_iat g)
        (set_int (set_int (set_int (fl_ctl g) "BatchCount" (Offsets.fc_batches c)) "BlockCount" (Offsets.fc_blocks c))
                 "EntryAddendaCount" (Offsets.fc_count c)).

(* createFileADV returns ErrFileADVOnly for a file that mixes ADV and other batches *)
Definition create_counts_of (f : fileR) : option fileR := if adv_only f then Some (tabulate f) else None.

(* ------------------------------------------------------------------ *)
(* the observation printed by the extracted model (correspondence)       *)

Record counts_obs := mkObs {
  ob_lines : nat;             (* physical lines, filler included *)
  ob_records : nat;           (* lines before the filler *)
  ob_n5 : nat; ob_n67 : nat;
  ob_segments : list (nat * Z);   (* per '5'..'8' segment: '6'/'7' lines inside, declared count of the '8' line *)
  ob_fc : Z * Z * Z;          (* declared batch count, block count, entry/addenda count of the file control line *)
  ob_tab : bool; ob_fit : bool; ob_shape : bool; ob_bounds : bool; ob_noiat : bool;
  ob_retab : option (list Z * (Z * Z * Z)) }.  (* the count fields after Create is run (again): per batch, file control *)

Definition observe (T : list layout) (f : fileR) : counts_obs :=
  let ls := write_file_padded T f in
  let fc := render_rec T (fl_ctl f) in
  mkObs (length ls) (length (write_file T f)) (batch_header_lines ls) (entry_addenda_lines ls)
        (map (fun s => (entry_addenda_lines (fst s), bc_entry_count (snd s))) (batch_segments ls))
        (fc_batch_count fc, fc_block_count fc, fc_entry_count fc)
        (tabulatedb f) (all_file (rec_fitsb T) f) (shape_ok T f) (count_boundsb f) (adv_no_iat f)
        (match create_counts_of f with
         | Some g => Some (map (fun b => geti (r_val (bt_ctl b)) "EntryAddendaCount") (all_batches g),
                           (geti (r_val (fl_ctl g)) "BatchCount", geti (r_val (fl_ctl g)) "BlockCount",
                            geti (r_val (fl_ctl g)) "EntryAddendaCount"))
         | None => None
         end).

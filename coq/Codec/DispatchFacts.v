(* File-level round trip (C01): the typed reader of Dispatch.v inverts the
   writer on every file tree whose records fit their layouts and whose written
   lines drive the reader's dispatch to the record types of the tree. *)
From Coq Require Import String List Lia Bool.
From ACH Require Import Dispatch LayoutFacts FileStructFacts.
Import ListNotations.
Local Open Scope string_scope.
Local Open Scope nat_scope.
Local Open Scope list_scope.

(* ------------------------------------------------------------------ *)
(* small list facts                                                     *)

Lemma existsb_rev' {A} (p : A -> bool) l : existsb p (rev l) = existsb p l.
Proof.
  induction l as [|x l IH]; [reflexivity|]. cbn [rev existsb]. rewrite existsb_app, IH. cbn [existsb].
  rewrite orb_false_r. apply orb_comm.
Qed.

Lemma existsb_map' {A B} (p : B -> bool) (g : A -> B) l : existsb p (map g l) = existsb (fun x => p (g x)) l.
Proof. induction l as [|x l IH]; [reflexivity|]. cbn [map existsb]. now rewrite IH. Qed.

Lemma existsb_ext_in {A} (p q : A -> bool) l : (forall x, In x l -> p x = q x) -> existsb p l = existsb q l.
Proof.
  induction l as [|x l IH]; intros H; [reflexivity|]. cbn [existsb]. rewrite (H x (or_introl eq_refl)).
  f_equal. apply IH. intros y Hy. apply H. now right.
Qed.

Lemma opt_str_eqb_some a k : opt_str_eqb a (Some k) = true -> a = Some k.
Proof. destruct a as [x|]; cbn; [|discriminate]. intros H. apply String.eqb_eq in H. now subst. Qed.

(* ------------------------------------------------------------------ *)
(* addenda slots                                                        *)

Lemma attach_end slots a l :
  forallb (before slots (r_kind a)) (map r_kind l) = true -> attach slots a l = l ++ [a].
Proof.
  induction l as [|b l IH]; intros H; [reflexivity|]. cbn [map forallb] in H. apply andb_prop in H as [Hb Hl].
  cbn [attach app]. unfold before in Hb. apply orb_prop in Hb as [Hb|Hb].
  - rewrite Hb. now rewrite IH.
  - apply andb_prop in Hb as [He Hm]. destruct (rank slots (r_kind b) <? rank slots (r_kind a)); [now rewrite IH|].
    rewrite He, Hm. now rewrite IH.
Qed.

(* ------------------------------------------------------------------ *)
(* the dispatch columns of a rendered record, from the shape of its layout *)

(* a layout starting with a one-byte literal renders lines of that record type *)
Lemma rendered_first_byte L r c rest : l_segs L = SLit [c] :: rest -> rtype (render L r) = c.
Proof. intros E. unfold render. rewrite E. reflexivity. Qed.

(* ... followed by a raw field of two bytes: byte columns 1..3 are that field (the addenda type code) *)
Lemma rendered_type_code L r c f rest :
  l_segs L = SLit [c] :: SRaw f :: rest -> length (gets r f) = 2 ->
  bsub (render L r) (fst tag_cols) (snd tag_cols) = gets r f.
Proof.
  intros E Hl. unfold render. rewrite E. cbn [map concat render_seg app fst snd tag_cols]. unfold bsub.
  cbn [skipn Nat.sub]. rewrite <- app_nil_r. rewrite firstn_app, <- Hl, Nat.sub_diag, firstn_all. cbn [firstn].
  now rewrite !app_nil_r.
Qed.

Section Facts.
Variable T : list layout.
Hypothesis T_ok : forallb layout_ok T = true.

Lemma layout_of_ok k L : layout_of T k = Some L -> layout_ok L = true.
Proof.
  unfold layout_of. intros H. apply find_some in H as [Hin _]. rewrite forallb_forall in T_ok. now apply T_ok.
Qed.

Lemma fits_known x : rec_fitsb T x = true -> known_rec T x = true.
Proof. unfold rec_fitsb, known_rec. now destruct (layout_of T (r_kind x)). Qed.

Lemma rec94 x : rec_fitsb T x = true -> rune_count (render_rec T x) = 94.
Proof.
  unfold rec_fitsb, render_rec. destruct (layout_of T (r_kind x)) as [L|] eqn:E; [|discriminate].
  intros H. apply render_width; [now apply (layout_of_ok (r_kind x))|assumption].
Qed.

Lemma parsed_kind x : r_kind (parsed_rec T x) = r_kind x.
Proof. unfold parsed_rec. now destruct (layout_of T (r_kind x)). Qed.
Lemma canon_kind x : r_kind (canon_rec T x) = r_kind x.
Proof. unfold canon_rec. now destruct (layout_of T (r_kind x)). Qed.

Lemma read_parsed x k : known_rec T x = true -> r_kind x = k ->
  read_rec T k (render_rec T x) = Some (parsed_rec T x).
Proof.
  unfold known_rec, read_rec, render_rec, parsed_rec. intros H <-.
  now destruct (layout_of T (r_kind x)).
Qed.

(* ------------------------------------------------------------------ *)
(* inside one batch: entries and addenda                                 *)

Definition ctx_step (fv : flavor) (oc : option ctx) (l : bytes) : option ctx :=
  match oc with
  | None => None
  | Some c => if (rtype l =? T6)%N then ctx_entry T fv c l else ctx_addenda T fv c l
  end.

Lemma ctx_fold_none fv ls : fold_left (ctx_step fv) ls None = None.
Proof. induction ls as [|l ls IH]; [reflexivity|exact IH]. Qed.

Lemma ctx_step_fst fv c l c' : ctx_step fv (Some c) l = Some c' -> fst c' = fst c.
Proof.
  unfold ctx_step, ctx_entry, ctx_addenda. destruct (rtype l =? T6)%N.
  - destruct (read_rec T (fv_entry fv) l); [|discriminate]. intros H. now injection H as <-.
  - destruct (snd c) as [|e rest]; [discriminate|]. destruct (indicator1 (en_rec e)); [|discriminate].
    destruct (fv_addenda fv l) as [k|]; [|intros H; now injection H as <-].
    destruct (read_rec T k l); [|discriminate]. intros H. now injection H as <-.
Qed.

Lemma addenda_fold fv h e rest as_ : forall acc,
  (as_ = [] \/ indicator1 e = true) ->
  forallb (addenda_ok T fv) as_ = true -> forallb (known_rec T) as_ = true ->
  slots_okb (fv_slots fv) (map r_kind acc) (map r_kind as_) = true ->
  fold_left (ctx_step fv) (map (render_rec T) as_) (Some (h, mkEnt e acc :: rest))
  = Some (h, mkEnt e (acc ++ map (parsed_rec T) as_) :: rest).
Proof.
  induction as_ as [|a as_ IH]; intros acc Hind Hok Hkn Hsl; [cbn; now rewrite app_nil_r|].
  destruct Hind as [Hind|Hind]; [discriminate|].
  cbn [forallb] in Hok, Hkn. apply andb_prop in Hok as [Ha Hok]. apply andb_prop in Hkn as [Hka Hkn].
  cbn [map slots_okb] in Hsl. apply andb_prop in Hsl as [Hbef Hsl].
  unfold addenda_ok in Ha. apply andb_prop in Ha as [H7 Hk]. unfold line_is in H7. apply N.eqb_eq in H7.
  apply opt_str_eqb_some in Hk.
  cbn [map fold_left]. unfold ctx_step at 2. rewrite H7. change (T7 =? T6)%N with false. cbv iota.
  unfold ctx_addenda. cbn [snd fst en_rec en_addenda]. rewrite Hind, Hk.
  rewrite (read_parsed a (r_kind a) Hka eq_refl).
  rewrite attach_end by (now rewrite parsed_kind).
  rewrite (IH (acc ++ [parsed_rec T a])); auto.
  - now rewrite <- app_assoc.
  - now rewrite map_app; cbn [map]; rewrite parsed_kind.
Qed.

Definition entry_lines_ok (l : bytes) : Prop := rune_count l = 94 /\ (rtype l = T6 \/ rtype l = T7).

Lemma entry_fold fv h es e : entry_ok T fv e = true -> all_entry (known_rec T) e = true ->
  fold_left (ctx_step fv) (entry_lines (entry_S T e)) (Some (h, es)) = Some (h, map_entry (parsed_rec T) e :: es).
Proof.
  intros Hok Hkn. unfold entry_ok in Hok.
  apply andb_prop in Hok as [Hok Hsl]. apply andb_prop in Hok as [Hok Had]. apply andb_prop in Hok as [Hok Hind].
  apply andb_prop in Hok as [Hk H6]. apply String.eqb_eq in Hk. unfold line_is in H6. apply N.eqb_eq in H6.
  unfold all_entry in Hkn. apply andb_prop in Hkn as [Hke Hka].
  unfold entry_lines, entry_S. cbn [e_rec e_addenda fold_left]. unfold ctx_step at 2. rewrite H6, N.eqb_refl.
  unfold ctx_entry. rewrite (read_parsed (en_rec e) (fv_entry fv) Hke Hk). cbn [fst snd].
  rewrite (addenda_fold fv h (parsed_rec T (en_rec e)) es (en_addenda e) []); auto.
  apply orb_prop in Hind as [Hn|Hi]; [left; now apply is_nil_spec|now right].
Qed.

Lemma entries_fold fv h es : forall es0,
  forallb (entry_ok T fv) es = true -> forallb (all_entry (known_rec T)) es = true ->
  fold_left (ctx_step fv) (flat_map entry_lines (map (entry_S T) es)) (Some (h, es0))
  = Some (h, rev (map (map_entry (parsed_rec T)) es) ++ es0).
Proof.
  induction es as [|e es IH]; intros es0 Hok Hkn; [reflexivity|].
  cbn [forallb] in Hok, Hkn. apply andb_prop in Hok as [He Hok]. apply andb_prop in Hkn as [Hke Hkn].
  cbn [map flat_map]. rewrite fold_left_app, (entry_fold fv h es0 e He Hke), IH by assumption.
  cbn [map rev]. now rewrite <- app_assoc.
Qed.

(* the lines of the entries are well shaped *)
Lemma entry_lines_shape fv es :
  forallb (entry_ok T fv) es = true -> forallb (all_entry (rec_fitsb T)) es = true ->
  Forall entry_lines_ok (flat_map entry_lines (map (entry_S T) es)).
Proof.
  induction es as [|e es IH]; intros Hok Hfit; [constructor|].
  cbn [forallb] in Hok, Hfit. apply andb_prop in Hok as [He Hok]. apply andb_prop in Hfit as [Hfe Hfit].
  cbn [map flat_map]. apply Forall_app. split; [|now apply IH].
  unfold entry_ok in He.
  apply andb_prop in He as [He _]. apply andb_prop in He as [He Had]. apply andb_prop in He as [He _].
  apply andb_prop in He as [_ H6]. unfold line_is in H6. apply N.eqb_eq in H6.
  unfold all_entry in Hfe. apply andb_prop in Hfe as [Hf1 Hf2].
  unfold entry_lines, entry_S. cbn [e_rec e_addenda]. constructor.
  - split; [now apply rec94|now left].
  - apply Forall_forall. intros l Hl. apply in_map_iff in Hl as (a & <- & Ha).
    rewrite forallb_forall in Had, Hf2. specialize (Had a Ha). specialize (Hf2 a Ha).
    unfold addenda_ok in Had. apply andb_prop in Had as [H7 _]. unfold line_is in H7. apply N.eqb_eq in H7.
    split; [now apply rec94|now right].
Qed.

(* ------------------------------------------------------------------ *)
(* from the batch context to the reader state                            *)

Lemma dstep_none ls : fold_left (dstep T) ls None = None.
Proof. induction ls as [|l ls IH]; [reflexivity|exact IH]. Qed.

Lemma dstep_at s l t : rune_count l = 94 -> rtype l = t ->
  dstep T (Some s) l =
    if (t =? T1)%N then step1 T s l else if (t =? T5)%N then step5 T s l else if (t =? T6)%N then step6 T s l
    else if (t =? T7)%N then step7 T s l else if (t =? T8)%N then step8 T s l else if (t =? T9)%N then step9 T s l
    else None.
Proof. intros H94 Ht. unfold dstep. rewrite H94, Ht. reflexivity. Qed.

Lemma with_cur_id s c : d_cur s = Some c -> with_cur s (Some c) = s.
Proof. destruct s. cbn. now intros ->. Qed.
Lemma with_icur_id s c : d_icur s = Some c -> with_icur s (Some c) = s.
Proof. destruct s. cbn. now intros ->. Qed.

Lemma lift_cur_fold ls : forall s c,
  d_cur s = Some c -> d_icur s = None -> not_iatcor (fst c) = true -> Forall entry_lines_ok ls ->
  fold_left (dstep T) ls (Some s) = lift_cur s (fold_left (ctx_step (cur_fl (fst c))) ls (Some c)).
Proof.
  induction ls as [|l ls IH]; intros s c Hc Hi Hn Hls.
  - cbn. now rewrite with_cur_id.
  - inversion Hls as [|? ? [H94 Ht] Hrest]; subst. cbn [fold_left].
    assert (E : dstep T (Some s) l = lift_cur s (ctx_step (cur_fl (fst c)) (Some c) l)).
    { destruct Ht as [Ht|Ht]; rewrite (dstep_at s l _ H94 Ht).
      - change (if (T6 =? T1)%N then _ else _) with (step6 T s l). unfold step6. rewrite Hi, Hc.
        unfold ctx_step. now rewrite Ht.
      - change (if (T7 =? T1)%N then _ else _) with (step7 T s l). unfold step7. rewrite Hc, Hn.
        unfold ctx_step. now rewrite Ht. }
    rewrite E. destruct (ctx_step (cur_fl (fst c)) (Some c) l) as [c'|] eqn:Ec.
    + pose proof (ctx_step_fst _ _ _ _ Ec) as Hf. cbn [lift_cur].
      rewrite (IH (with_cur s (Some c')) c'); [now rewrite Hf|reflexivity|exact Hi|now rewrite Hf|exact Hrest].
    + cbn [lift_cur]. now rewrite dstep_none, ctx_fold_none.
Qed.

Lemma lift_icur_fold ls : forall s c,
  d_icur s = Some c -> d_cur s = None -> Forall entry_lines_ok ls ->
  fold_left (dstep T) ls (Some s) = lift_icur s (fold_left (ctx_step iat_fl) ls (Some c)).
Proof.
  induction ls as [|l ls IH]; intros s c Hi Hc Hls.
  - cbn. now rewrite with_icur_id.
  - inversion Hls as [|? ? [H94 Ht] Hrest]; subst. cbn [fold_left].
    assert (E : dstep T (Some s) l = lift_icur s (ctx_step iat_fl (Some c) l)).
    { destruct Ht as [Ht|Ht]; rewrite (dstep_at s l _ H94 Ht).
      - change (if (T6 =? T1)%N then _ else _) with (step6 T s l). unfold step6. rewrite Hi.
        unfold ctx_step. now rewrite Ht.
      - change (if (T7 =? T1)%N then _ else _) with (step7 T s l). unfold step7, step7_iat. rewrite Hc, Hi.
        unfold ctx_step. now rewrite Ht. }
    rewrite E. destruct (ctx_step iat_fl (Some c) l) as [c'|] eqn:Ec.
    + cbn [lift_icur]. rewrite (IH (with_icur s (Some c')) c'); [reflexivity|reflexivity|exact Hc|exact Hrest].
    + cbn [lift_icur]. now rewrite dstep_none, ctx_fold_none.
Qed.

(* ------------------------------------------------------------------ *)
(* whole batches                                                        *)

Definition pbatch : batchR -> batchR := map_batch (parsed_rec T).

Lemma std_batch_read adv b s :
  d_cur s = None -> d_icur s = None ->
  std_batch_ok T adv b = true -> all_batch (rec_fitsb T) b = true ->
  fold_left (dstep T) (batch_lines (std_batch_S T adv b)) (Some s) = Some (push_std s (pbatch b)).
Proof.
  intros Hc Hi Hok Hfit. unfold std_batch_ok in Hok. cbv zeta in Hok.
  repeat match type of Hok with _ && _ = true => let K := fresh "K" in apply andb_prop in Hok as [Hok K] end.
  apply String.eqb_eq in Hok. rename Hok into Hkind.
  unfold line_is in K7, K. apply N.eqb_eq in K7, K. apply negb_true_iff in K6.
  apply eqb_prop in K2. apply String.eqb_eq in K0.
  unfold all_batch in Hfit. apply andb_prop in Hfit as [Hfit Hfc]. apply andb_prop in Hfit as [Hfh Hfe].
  assert (Hke : forallb (all_entry (known_rec T)) (bt_entries b) = true).
  { rewrite forallb_forall in *. intros e He. specialize (Hfe e He). unfold all_entry in *.
    apply andb_prop in Hfe as [H1 H2]. rewrite (fits_known _ H1). cbn [andb]. rewrite forallb_forall in *.
    intros a Ha. apply fits_known. now apply H2. }
  unfold batch_lines, std_batch_S. cbn [b_hdr b_entries b_ctl]. rewrite K2, eqb_reflx.
  cbn [fold_left]. rewrite (dstep_at s _ _ (rec94 _ Hfh) K7).
  change (if (T5 =? T1)%N then _ else _) with (step5 T s (render_rec T (bt_hdr b))).
  unfold step5. rewrite Hc, K6, (read_parsed (bt_hdr b) "BatchHeader" (fits_known _ Hfh) Hkind), K5.
  rewrite fold_left_app.
  rewrite (lift_cur_fold _ (with_cur s (Some (parsed_rec T (bt_hdr b), []))) (parsed_rec T (bt_hdr b), []));
    [|reflexivity|exact Hi|exact K4|now apply (entry_lines_shape (cur_fl (parsed_rec T (bt_hdr b))))].
  cbn [fst]. rewrite entries_fold by assumption. cbn [lift_cur fold_left].
  rewrite (dstep_at _ _ _ (rec94 _ Hfc) K).
  match goal with |- (if (T8 =? T1)%N then _ else _) = _ =>
    change (step8 T (with_cur (with_cur s (Some (parsed_rec T (bt_hdr b), [])))
                       (Some (parsed_rec T (bt_hdr b), rev (map (map_entry (parsed_rec T)) (bt_entries b)) ++ [])))
                    (render_rec T (bt_ctl b)) = Some (push_std s (pbatch b))) end.
  unfold step8. cbn [d_cur with_cur fst]. unfold ctx_close.
  rewrite (read_parsed (bt_ctl b) _ (fits_known _ Hfc) K0). cbn [fst snd].
  rewrite app_nil_r, rev_involutive. reflexivity.
Qed.

Lemma iat_batch_read b s :
  d_cur s = None -> d_icur s = None ->
  iat_batch_ok T b = true -> all_batch (rec_fitsb T) b = true ->
  fold_left (dstep T) (batch_lines (iat_batch_S T b)) (Some s) = Some (push_iat s (pbatch b)).
Proof.
  intros Hc Hi Hok Hfit. unfold iat_batch_ok in Hok.
  repeat match type of Hok with _ && _ = true => let K := fresh "K" in apply andb_prop in Hok as [Hok K] end.
  apply String.eqb_eq in Hok. rename Hok into Hkind.
  unfold line_is in K4, K. apply N.eqb_eq in K4, K. apply String.eqb_eq in K0.
  unfold all_batch in Hfit. apply andb_prop in Hfit as [Hfit Hfc]. apply andb_prop in Hfit as [Hfh Hfe].
  assert (Hke : forallb (all_entry (known_rec T)) (bt_entries b) = true).
  { rewrite forallb_forall in *. intros e He. specialize (Hfe e He). unfold all_entry in *.
    apply andb_prop in Hfe as [H1 H2]. rewrite (fits_known _ H1). cbn [andb]. rewrite forallb_forall in *.
    intros a Ha. apply fits_known. now apply H2. }
  unfold batch_lines, iat_batch_S. cbn [b_hdr b_entries b_ctl].
  cbn [fold_left]. rewrite (dstep_at s _ _ (rec94 _ Hfh) K4).
  change (if (T5 =? T1)%N then _ else _) with (step5 T s (render_rec T (bt_hdr b))).
  unfold step5. rewrite Hc, K3, (read_parsed (bt_hdr b) "IATBatchHeader" (fits_known _ Hfh) Hkind).
  rewrite fold_left_app.
  rewrite (lift_icur_fold _ (with_icur s (Some (parsed_rec T (bt_hdr b), []))) (parsed_rec T (bt_hdr b), []));
    [|reflexivity|exact Hc|now apply (entry_lines_shape iat_fl)].
  rewrite entries_fold by assumption. cbn [lift_icur fold_left].
  rewrite (dstep_at _ _ _ (rec94 _ Hfc) K).
  match goal with |- (if (T8 =? T1)%N then _ else _) = _ =>
    change (step8 T (with_icur (with_icur s (Some (parsed_rec T (bt_hdr b), [])))
                       (Some (parsed_rec T (bt_hdr b), rev (map (map_entry (parsed_rec T)) (bt_entries b)) ++ [])))
                    (render_rec T (bt_ctl b)) = Some (push_iat s (pbatch b))) end.
  unfold step8. cbn [d_cur d_icur with_icur]. rewrite Hc, app_nil_r.
  destruct (bt_entries b) as [|e0 es0] eqn:Ees; [discriminate K2|]. rewrite <- Ees.
  destruct (rev (map (map_entry (parsed_rec T)) (bt_entries b))) as [|e1 es1] eqn:Er.
  { apply (f_equal (@length entryR)) in Er. rewrite rev_length, map_length, Ees in Er. discriminate Er. }
  unfold ctx_close. rewrite (read_parsed (bt_ctl b) _ (fits_known _ Hfc) K0). cbn [fst snd].
  rewrite <- Er, rev_involutive. reflexivity.
Qed.

Definition quiet (s : dstate) : Prop := d_cur s = None /\ d_icur s = None.

Lemma std_batches_read adv bs : forall s, quiet s ->
  forallb (std_batch_ok T adv) bs = true -> forallb (all_batch (rec_fitsb T)) bs = true ->
  fold_left (dstep T) (flat_map batch_lines (map (std_batch_S T adv) bs)) (Some s)
  = Some (mkDS (d_hdr s) (rev (map pbatch bs) ++ d_std s) (d_iat s) None None (d_ctl s) (d_actl s)).
Proof.
  induction bs as [|b bs IH]; intros s [Hc Hi] Hok Hfit.
  - cbn. destruct s. cbn in *. now subst.
  - cbn [forallb] in Hok, Hfit. apply andb_prop in Hok as [Hb Hok]. apply andb_prop in Hfit as [Hfb Hfit].
    cbn [map flat_map]. rewrite fold_left_app, (std_batch_read adv b s Hc Hi Hb Hfb).
    rewrite IH; [|split; [reflexivity|exact Hi]|assumption|assumption].
    cbn [push_std d_hdr d_std d_iat d_ctl d_actl map rev]. now rewrite <- app_assoc.
Qed.

Lemma iat_batches_read bs : forall s, quiet s ->
  forallb (iat_batch_ok T) bs = true -> forallb (all_batch (rec_fitsb T)) bs = true ->
  fold_left (dstep T) (flat_map batch_lines (map (iat_batch_S T) bs)) (Some s)
  = Some (mkDS (d_hdr s) (d_std s) (rev (map pbatch bs) ++ d_iat s) None None (d_ctl s) (d_actl s)).
Proof.
  induction bs as [|b bs IH]; intros s [Hc Hi] Hok Hfit.
  - cbn. destruct s. cbn in *. now subst.
  - cbn [forallb] in Hok, Hfit. apply andb_prop in Hok as [Hb Hok]. apply andb_prop in Hfit as [Hfb Hfit].
    cbn [map flat_map]. rewrite fold_left_app, (iat_batch_read b s Hc Hi Hb Hfb).
    rewrite IH; [|split; [exact Hc|reflexivity]|assumption|assumption].
    cbn [push_iat d_hdr d_std d_iat d_ctl d_actl map rev]. now rewrite <- app_assoc.
Qed.

(* ------------------------------------------------------------------ *)
(* the whole file                                                       *)

Lemma nines_94 : rune_count nines = 94.
Proof. vm_compute. reflexivity. Qed.

Lemma fillers_read k s : fold_left (dstep T) (repeat nines k) (Some s) = Some s.
Proof.
  induction k as [|k IH]; [reflexivity|]. cbn [repeat fold_left].
  rewrite (dstep_at s nines T9 nines_94 eq_refl).
  change (if (T9 =? T1)%N then _ else _) with (step9 T s nines). unfold step9.
  change (pad_line nines) with true. exact IH.
Qed.

(* ADV-ness of the batches read back = ADV-ness of the batches written *)
Lemma any_adv_parsed adv bs : forallb (std_batch_ok T adv) bs = true ->
  any_adv (rev (map pbatch bs) ++ []) = any_adv bs.
Proof.
  intros H. rewrite app_nil_r. unfold any_adv. rewrite existsb_rev', existsb_map'.
  apply existsb_ext_in. intros b Hb. rewrite forallb_forall in H. specialize (H b Hb).
  unfold std_batch_ok in H. cbv zeta in H.
  repeat match type of H with _ && _ = true => let K := fresh "K" in apply andb_prop in H as [H K] end.
  apply eqb_prop in K3. exact K3.
Qed.

Theorem read_write_file f k :
  all_file (rec_fitsb T) f = true -> dispatchb T f = true ->
  read_file T (write_file T f ++ repeat nines k) = Some (parsed_file T f).
Proof.
  intros Hfit Hd. unfold dispatchb in Hd.
  repeat match type of Hd with _ && _ = true => let K := fresh "K" in apply andb_prop in Hd as [Hd K] end.
  apply String.eqb_eq in Hd. rename Hd into Hkh. unfold line_is in K4, K0. apply N.eqb_eq in K4, K0.
  apply String.eqb_eq in K1. apply negb_true_iff in K.
  unfold all_file in Hfit.
  repeat match type of Hfit with _ && _ = true => let F := fresh "F" in apply andb_prop in Hfit as [Hfit F] end.
  unfold read_file, write_file, record_lines, struct_of. cbn [f_hdr f_batches f_ctl].
  rewrite fold_left_app. cbn [fold_left].
  rewrite (dstep_at d_init _ _ (rec94 _ Hfit) K4).
  change (if (T1 =? T1)%N then _ else _) with (step1 T d_init (render_rec T (fl_hdr f))).
  unfold step1. cbn [d_hdr d_init]. rewrite (read_parsed (fl_hdr f) "FileHeader" (fits_known _ Hfit) Hkh).
  cbn [d_std d_iat d_cur d_icur d_ctl d_actl].
  rewrite fold_left_app, flat_map_app, fold_left_app.
  rewrite std_batches_read; [|split; reflexivity|assumption|assumption].
  rewrite iat_batches_read; [|split; reflexivity|assumption|assumption].
  cbn [d_hdr d_std d_iat d_ctl d_actl fold_left].
  rewrite (dstep_at _ _ _ (rec94 _ F) K0).
  match goal with |- context [if (T9 =? T1)%N then _ else _] =>
    change (if (T9 =? T1)%N then _ else _) with
      (step9 T (mkDS (Some (parsed_rec T (fl_hdr f))) (rev (map pbatch (fl_batches f)) ++ [])
                     (rev (map pbatch (fl_iat f)) ++ []) None None None None) (render_rec T (fl_ctl f))) end.
  unfold step9. rewrite K. cbn [d_std d_actl d_ctl].
  rewrite (any_adv_parsed _ _ K3).
  destruct (any_adv (fl_batches f)) eqn:Eadv.
  - rewrite (read_parsed (fl_ctl f) "ADVFileControl" (fits_known _ F) K1).
    rewrite fillers_read. unfold d_finish. cbn [d_hdr d_cur d_icur d_std d_iat d_actl d_ctl].
    rewrite (any_adv_parsed _ _ K3), Eadv, !app_nil_r, !rev_involutive. reflexivity.
  - rewrite (read_parsed (fl_ctl f) "FileControl" (fits_known _ F) K1).
    rewrite fillers_read. unfold d_finish. cbn [d_hdr d_cur d_icur d_std d_iat d_actl d_ctl].
    rewrite (any_adv_parsed _ _ K3), Eadv, !app_nil_r, !rev_involutive. reflexivity.
Qed.

End Facts.

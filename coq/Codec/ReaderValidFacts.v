(* Facts about the validating reader of Codec/ReaderValid.v, for ANY record check [ok] and batch
   check [bok]:

     h_refines      whenever the validating reader returns a file, the reader without validation
                    (Dispatch.read_file) returns the same file: validation only rejects
     h_sound        every record of a returned file passed [ok], every batch passed [bok]
     h_roundtrip    the writer's lines of a tree whose re-parsed records pass [ok] and whose
                    re-parsed batches pass [bok] are read back as [parsed_file f]
     g_strict       the reader that also accumulates unclosed batches returns (f, false) exactly
                    when the strict one returns f *)
From Coq Require Import String List Lia Bool.
From ACH Require Import Arith.
From ACH Require Import ReaderValid LayoutFacts FileStructFacts FramingFacts DispatchFacts DispatchFixed DispatchBytes.
Import ListNotations.
Local Open Scope string_scope.
Local Open Scope nat_scope.
Local Open Scope list_scope.

Section HFacts.
Variable T : list layout.
Variable ok : recordR -> bool.
Variable bok : kind -> batchR -> bool.

Notation hrr := (h_read_rec T ok).

(* ------------------------------------------------------------------ *)
(* 1. the record reader                                                 *)

Lemma hrr_some k l x : hrr k l = Some x -> read_rec T k l = Some x /\ ok x = true.
Proof.
  unfold h_read_rec. destruct (read_rec T k l) as [y|]; [|discriminate].
  destruct (ok y) eqn:E; [|discriminate]. intros H. injection H as <-. now split.
Qed.

Lemma hrr_intro k l x : read_rec T k l = Some x -> ok x = true -> hrr k l = Some x.
Proof. unfold h_read_rec. intros -> ->. reflexivity. Qed.

(* ------------------------------------------------------------------ *)
(* 2. refinement: each step of the validating machine is a step of Dispatch *)

Lemma h_ctx_entry_ref fv c l c' : h_ctx_entry T ok fv c l = Some c' -> ctx_entry T fv c l = Some c'.
Proof.
  unfold h_ctx_entry, ctx_entry. destruct (hrr (fv_entry fv) l) as [e|] eqn:E; [|discriminate].
  apply hrr_some in E as [-> _]. auto.
Qed.

Lemma h_ctx_addenda_ref fv c l c' : h_ctx_addenda T ok fv c l = Some c' -> ctx_addenda T fv c l = Some c'.
Proof.
  unfold h_ctx_addenda, ctx_addenda. destruct (snd c) as [|e rest]; [discriminate|].
  destruct (indicator1 (en_rec e)); [|discriminate].
  destruct (fv_addenda fv l) as [k|]; [|auto].
  destruct (hrr k l) as [a|] eqn:E; [|discriminate]. apply hrr_some in E as [-> _]. auto.
Qed.

Lemma h_ctx_close_ref k fv c l b : h_ctx_close T ok bok k fv c l = Some b -> ctx_close T fv c l = Some b.
Proof.
  unfold h_ctx_close, ctx_close. destruct (hrr (fv_ctl fv) l) as [ctl|] eqn:E; [|discriminate].
  apply hrr_some in E as [-> _]. cbv zeta. destruct (bok k _); [auto|discriminate].
Qed.

Lemma lift_cur_ref s o o' s' : (forall c, o = Some c -> o' = Some c) -> lift_cur s o = Some s' -> lift_cur s o' = Some s'.
Proof. intros H. destruct o as [c|]; [|discriminate]. now rewrite (H c eq_refl). Qed.
Lemma lift_icur_ref s o o' s' : (forall c, o = Some c -> o' = Some c) -> lift_icur s o = Some s' -> lift_icur s o' = Some s'.
Proof. intros H. destruct o as [c|]; [|discriminate]. now rewrite (H c eq_refl). Qed.

Lemma h_step1_ref s l s' : h_step1 T ok s l = Some s' -> step1 T s l = Some s'.
Proof.
  unfold h_step1, step1. destruct (d_hdr s); [discriminate|].
  destruct (hrr "FileHeader" l) as [h|] eqn:E; [|discriminate]. apply hrr_some in E as [-> _]. auto.
Qed.

Lemma h_step5_ref s l s' : h_step5 T ok s l = Some s' -> step5 T s l = Some s'.
Proof.
  unfold h_step5, step5. destruct (d_cur s); [discriminate|]. destruct (iat_line l).
  - destruct (hrr "IATBatchHeader" l) as [h|] eqn:E; [|discriminate]. apply hrr_some in E as [-> _]. auto.
  - destruct (hrr "BatchHeader" l) as [h|] eqn:E; [|discriminate]. apply hrr_some in E as [-> _]. auto.
Qed.

Lemma h_step6_ref s l s' : h_step6 T ok s l = Some s' -> step6 T s l = Some s'.
Proof.
  unfold h_step6, step6. destruct (d_icur s) as [c|].
  - apply lift_icur_ref. intros c'. apply h_ctx_entry_ref.
  - destruct (d_cur s) as [c|]; [|discriminate]. apply lift_cur_ref. intros c'. apply h_ctx_entry_ref.
Qed.

Lemma h_step7_iat_ref s l s' : h_step7_iat T ok s l = Some s' -> step7_iat T s l = Some s'.
Proof.
  unfold h_step7_iat, step7_iat. destruct (d_icur s) as [c|]; [|discriminate].
  apply lift_icur_ref. intros c'. apply h_ctx_addenda_ref.
Qed.

Lemma h_step7_ref s l s' : h_step7 T ok s l = Some s' -> step7 T s l = Some s'.
Proof.
  unfold h_step7, step7. destruct (d_cur s) as [c|]; [|apply h_step7_iat_ref].
  destruct (not_iatcor (fst c)); [|apply h_step7_iat_ref].
  apply lift_cur_ref. intros c'. apply h_ctx_addenda_ref.
Qed.

Lemma h_step8_ref s l s' : h_step8 T ok bok s l = Some s' -> step8 T s l = Some s'.
Proof.
  unfold h_step8, step8. destruct (d_cur s) as [c|].
  - destruct (h_ctx_close T ok bok (std_kind (fst c)) (cur_fl (fst c)) c l) as [b|] eqn:E; [|discriminate].
    apply h_ctx_close_ref in E. rewrite E. auto.
  - destruct (d_icur s) as [[h [|e es]]|]; try discriminate.
    destruct (h_ctx_close T ok bok KIAT iat_fl (h, e :: es) l) as [b|] eqn:E; [|discriminate].
    apply h_ctx_close_ref in E. rewrite E. auto.
Qed.

Lemma h_step9_ref s l s' : h_step9 T ok s l = Some s' -> step9 T s l = Some s'.
Proof.
  unfold h_step9, step9. destruct (pad_line l); [auto|]. destruct (any_adv (d_std s)).
  - destruct (d_actl s); [discriminate|].
    destruct (hrr "ADVFileControl" l) as [c|] eqn:E; [|discriminate]. apply hrr_some in E as [-> _]. auto.
  - destruct (d_ctl s); [discriminate|].
    destruct (hrr "FileControl" l) as [c|] eqn:E; [|discriminate]. apply hrr_some in E as [-> _]. auto.
Qed.

Lemma h_dstep_ref s l s' : h_dstep T ok bok (Some s) l = Some s' -> dstep T (Some s) l = Some s'.
Proof.
  unfold h_dstep, dstep. destruct (negb (rune_count l =? 94)); [discriminate|]. cbv zeta.
  destruct (rtype l =? T1)%N; [apply h_step1_ref|].
  destruct (rtype l =? T5)%N; [apply h_step5_ref|].
  destruct (rtype l =? T6)%N; [apply h_step6_ref|].
  destruct (rtype l =? T7)%N; [apply h_step7_ref|].
  destruct (rtype l =? T8)%N; [apply h_step8_ref|].
  destruct (rtype l =? T9)%N; [apply h_step9_ref|discriminate].
Qed.

Lemma h_dstep_none ls : fold_left (h_dstep T ok bok) ls None = None.
Proof. induction ls as [|l ls IH]; [reflexivity|exact IH]. Qed.

Lemma h_fold_ref ls : forall s s', fold_left (h_dstep T ok bok) ls (Some s) = Some s' ->
  fold_left (dstep T) ls (Some s) = Some s'.
Proof.
  induction ls as [|l ls IH]; intros s s' H; [exact H|]. cbn [fold_left] in *.
  destruct (h_dstep T ok bok (Some s) l) as [s1|] eqn:E; [|now rewrite h_dstep_none in H].
  rewrite (h_dstep_ref _ _ _ E). now apply IH.
Qed.

(* validation only rejects *)
Theorem h_refines ls f : h_read_file T ok bok ls = Some f -> read_file T ls = Some f.
Proof.
  unfold h_read_file, read_file. destruct (fold_left (h_dstep T ok bok) ls (Some d_init)) as [s|] eqn:E; [|discriminate].
  rewrite (h_fold_ref _ _ _ E). auto.
Qed.

(* ------------------------------------------------------------------ *)
(* 3. soundness: what is in the state has been checked                   *)

Definition ctx_inv (c : ctx) : Prop := ok (fst c) = true /\ forallb (all_entry ok) (snd c) = true.
Definition opt_inv {A} (P : A -> Prop) (o : option A) : Prop := match o with Some x => P x | None => True end.
Definition okP (x : recordR) : Prop := ok x = true.
Definition std_inv (b : batchR) : Prop := all_batch ok b = true /\ bok (std_kind (bt_hdr b)) b = true.
Definition iat_inv (b : batchR) : Prop := all_batch ok b = true /\ bok KIAT b = true.

Record inv (s : dstate) : Prop := mkInv {
  i_hdr : opt_inv okP (d_hdr s);
  i_std : Forall std_inv (d_std s);
  i_iat : Forall iat_inv (d_iat s);
  i_cur : opt_inv ctx_inv (d_cur s);
  i_icur : opt_inv ctx_inv (d_icur s);
  i_ctl : opt_inv okP (d_ctl s);
  i_actl : opt_inv okP (d_actl s) }.

Lemma inv_init : inv d_init.
Proof. constructor; cbn; auto. Qed.

Lemma attach_ok slots a l : ok a = true -> forallb ok l = true -> forallb ok (attach slots a l) = true.
Proof.
  intros Ha. induction l as [|b l IH]; intros Hl; [cbn; now rewrite Ha|].
  cbn [forallb] in Hl. apply andb_prop in Hl as [Hb Hl]. cbn [attach].
  destruct (rank slots (r_kind b) <? rank slots (r_kind a)).
  - cbn [forallb]. now rewrite Hb, IH.
  - destruct (rank slots (r_kind b) =? rank slots (r_kind a)).
    + destruct (multi slots (r_kind a)); cbn [forallb]; [now rewrite Hb, IH|now rewrite Ha, Hl].
    + cbn [forallb]. now rewrite Ha, Hb, Hl.
Qed.

Lemma h_ctx_entry_inv fv c l c' : ctx_inv c -> h_ctx_entry T ok fv c l = Some c' -> ctx_inv c'.
Proof.
  intros [Hh He]. unfold h_ctx_entry. destruct (hrr (fv_entry fv) l) as [e|] eqn:E; [|discriminate].
  apply hrr_some in E as [_ Hok]. intros H. injection H as <-. split; [exact Hh|].
  cbn [snd forallb]. unfold all_entry at 1. cbn [en_rec en_addenda forallb]. now rewrite Hok, He.
Qed.

Lemma h_ctx_addenda_inv fv c l c' : ctx_inv c -> h_ctx_addenda T ok fv c l = Some c' -> ctx_inv c'.
Proof.
  intros [Hh He]. unfold h_ctx_addenda. destruct (snd c) as [|e rest] eqn:Es; [discriminate|].
  destruct (indicator1 (en_rec e)); [|discriminate].
  destruct (fv_addenda fv l) as [k|].
  - destruct (hrr k l) as [a|] eqn:E; [|discriminate]. apply hrr_some in E as [_ Hok].
    intros H. injection H as <-. split; [exact Hh|]. cbn [forallb] in He.
    apply andb_prop in He as [He1 He2]. unfold all_entry in He1. apply andb_prop in He1 as [H1 H2].
    cbn [snd forallb]. unfold all_entry at 1. cbn [en_rec en_addenda].
    now rewrite H1, (attach_ok _ _ _ Hok H2), He2.
  - intros H. injection H as <-. split; [exact Hh|now rewrite Es].
Qed.

Lemma forallb_rev {A} (p : A -> bool) l : forallb p (rev l) = forallb p l.
Proof.
  induction l as [|x l IH]; [reflexivity|]. cbn [rev forallb]. rewrite forallb_app, IH. cbn [forallb].
  rewrite andb_true_r. apply andb_comm.
Qed.

Lemma h_ctx_close_inv k fv c l b : ctx_inv c -> h_ctx_close T ok bok k fv c l = Some b ->
  all_batch ok b = true /\ bok k b = true /\ bt_hdr b = fst c.
Proof.
  intros [Hh He]. unfold h_ctx_close. destruct (hrr (fv_ctl fv) l) as [ctl|] eqn:E; [|discriminate].
  apply hrr_some in E as [_ Hok]. cbv zeta. destruct (bok k (mkBat (fst c) (rev (snd c)) ctl)) eqn:Eb; [|discriminate].
  intros H. injection H as <-. repeat split; [|exact Eb].
  unfold all_batch. cbn [bt_hdr bt_entries bt_ctl]. now rewrite Hh, forallb_rev, He, Hok.
Qed.

Lemma lift_cur_inv s o s' : inv s -> (forall c, o = Some c -> ctx_inv c) -> lift_cur s o = Some s' -> inv s'.
Proof.
  intros I H. destruct o as [c|]; [|discriminate]. intros E. injection E as <-.
  destruct I. constructor; cbn; auto.
Qed.
Lemma lift_icur_inv s o s' : inv s -> (forall c, o = Some c -> ctx_inv c) -> lift_icur s o = Some s' -> inv s'.
Proof.
  intros I H. destruct o as [c|]; [|discriminate]. intros E. injection E as <-.
  destruct I. constructor; cbn; auto.
Qed.

Lemma h_dstep_inv s l s' : inv s -> h_dstep T ok bok (Some s) l = Some s' -> inv s'.
Proof.
  intros I. unfold h_dstep. destruct (negb (rune_count l =? 94)); [discriminate|]. cbv zeta.
  destruct (rtype l =? T1)%N.
  { unfold h_step1. destruct (d_hdr s); [discriminate|].
    destruct (hrr "FileHeader" l) as [h|] eqn:E; [|discriminate]. apply hrr_some in E as [_ Hok].
    intros H. injection H as <-. destruct I. constructor; cbn; auto. }
  destruct (rtype l =? T5)%N.
  { unfold h_step5. destruct (d_cur s) eqn:Ec; [discriminate|]. destruct (iat_line l).
    - destruct (hrr "IATBatchHeader" l) as [h|] eqn:E; [|discriminate]. apply hrr_some in E as [_ Hok].
      intros H. injection H as <-. destruct I. constructor; cbn; auto. now split.
    - destruct (hrr "BatchHeader" l) as [h|] eqn:E; [|discriminate]. apply hrr_some in E as [_ Hok].
      destruct (existsb (bytes_eqb (sec_of h)) newbatch_secs); [|discriminate].
      intros H. injection H as <-. destruct I. constructor; cbn; auto. now split. }
  destruct (rtype l =? T6)%N.
  { unfold h_step6. destruct (d_icur s) as [c|] eqn:Ei.
    - apply lift_icur_inv; [exact I|]. intros c' Hc'. apply (h_ctx_entry_inv _ _ _ _ (eq_ind _ (opt_inv ctx_inv) (i_icur s I) _ Ei) Hc').
    - destruct (d_cur s) as [c|] eqn:Ec; [|discriminate].
      apply lift_cur_inv; [exact I|]. intros c' Hc'. apply (h_ctx_entry_inv _ _ _ _ (eq_ind _ (opt_inv ctx_inv) (i_cur s I) _ Ec) Hc'). }
  destruct (rtype l =? T7)%N.
  { assert (Hiat : forall s', h_step7_iat T ok s l = Some s' -> inv s').
    { intros s0. unfold h_step7_iat. destruct (d_icur s) as [c|] eqn:Ei; [|discriminate].
      apply lift_icur_inv; [exact I|]. intros c' Hc'.
      apply (h_ctx_addenda_inv _ _ _ _ (eq_ind _ (opt_inv ctx_inv) (i_icur s I) _ Ei) Hc'). }
    unfold h_step7. destruct (d_cur s) as [c|] eqn:Ec; [|apply Hiat].
    destruct (not_iatcor (fst c)); [|apply Hiat].
    apply lift_cur_inv; [exact I|]. intros c' Hc'.
    apply (h_ctx_addenda_inv _ _ _ _ (eq_ind _ (opt_inv ctx_inv) (i_cur s I) _ Ec) Hc'). }
  destruct (rtype l =? T8)%N.
  { unfold h_step8. destruct (d_cur s) as [c|] eqn:Ec.
    - destruct (h_ctx_close T ok bok (std_kind (fst c)) (cur_fl (fst c)) c l) as [b|] eqn:E; [|discriminate].
      apply (h_ctx_close_inv _ _ _ _ _ (eq_ind _ (opt_inv ctx_inv) (i_cur s I) _ Ec)) in E as (H1 & H2 & H3).
      intros H. injection H as <-. destruct I. constructor; cbn; auto.
      constructor; [|assumption]. split; [exact H1|now rewrite H3].
    - destruct (d_icur s) as [[h [|e es]]|] eqn:Ei; try discriminate.
      destruct (h_ctx_close T ok bok KIAT iat_fl (h, e :: es) l) as [b|] eqn:E; [|discriminate].
      apply (h_ctx_close_inv _ _ _ _ _ (eq_ind _ (opt_inv ctx_inv) (i_icur s I) _ Ei)) in E as (H1 & H2 & H3).
      intros H. injection H as <-. destruct I. constructor; cbn; auto.
      constructor; [now split|assumption]. }
  destruct (rtype l =? T9)%N; [|discriminate].
  unfold h_step9. destruct (pad_line l); [intros H; injection H as <-; exact I|].
  destruct (any_adv (d_std s)).
  - destruct (d_actl s); [discriminate|].
    destruct (hrr "ADVFileControl" l) as [c|] eqn:E; [|discriminate]. apply hrr_some in E as [_ Hok].
    intros H. injection H as <-. destruct I. constructor; cbn; auto.
  - destruct (d_ctl s); [discriminate|].
    destruct (hrr "FileControl" l) as [c|] eqn:E; [|discriminate]. apply hrr_some in E as [_ Hok].
    intros H. injection H as <-. destruct I. constructor; cbn; auto.
Qed.

Lemma h_fold_inv ls : forall s s', inv s -> fold_left (h_dstep T ok bok) ls (Some s) = Some s' -> inv s'.
Proof.
  induction ls as [|l ls IH]; intros s s' I H; [injection H as <-; exact I|]. cbn [fold_left] in H.
  destruct (h_dstep T ok bok (Some s) l) as [s1|] eqn:E; [|now rewrite h_dstep_none in H].
  apply (IH s1 s'); [now apply (h_dstep_inv s l)|exact H].
Qed.

Lemma Forall_forallb_rev {A} (P : A -> Prop) (p : A -> bool) l :
  (forall x, P x -> p x = true) -> Forall P l -> forallb p (rev l) = true.
Proof.
  intros H F. rewrite forallb_rev. apply forallb_forall. intros x Hx. rewrite Forall_forall in F. auto.
Qed.

(* every record of an accepted file passed its check, every batch its batch check *)
Theorem h_sound ls f : h_read_file T ok bok ls = Some f -> tree_okb ok bok f = true.
Proof.
  unfold h_read_file. destruct (fold_left (h_dstep T ok bok) ls (Some d_init)) as [s|] eqn:E; [|discriminate].
  pose proof (h_fold_inv _ _ _ inv_init E) as I. unfold d_finish.
  destruct (d_hdr s) as [h|] eqn:Eh; [|discriminate]. destruct (d_cur s); [discriminate|].
  destruct (d_icur s); [discriminate|].
  destruct (if any_adv (d_std s) then d_actl s else d_ctl s) as [c|] eqn:Ec; [|discriminate].
  intros H. injection H as <-.
  assert (Hc : ok c = true).
  { destruct I as [_ _ _ _ _ I6 I7]. destruct (any_adv (d_std s)); [rewrite Ec in I7|rewrite Ec in I6]; assumption. }
  destruct I as [I1 I2 I3 _ _ _ _]. rewrite Eh in I1. unfold tree_okb, all_file. cbn [fl_hdr fl_batches fl_iat fl_ctl].
  rewrite I1, Hc.
  rewrite (Forall_forallb_rev std_inv (all_batch ok) _ (fun b H => proj1 H) I2).
  rewrite (Forall_forallb_rev iat_inv (all_batch ok) _ (fun b H => proj1 H) I3).
  rewrite (Forall_forallb_rev std_inv (fun b => bok (std_kind (bt_hdr b)) b) _ (fun b H => proj2 H) I2).
  rewrite (Forall_forallb_rev iat_inv (bok KIAT) _ (fun b H => proj2 H) I3).
  reflexivity.
Qed.

(* ------------------------------------------------------------------ *)
(* 4. the reader that accumulates unclosed batches                       *)

Notation gstep := (g_dstep T ok bok).

Lemma g_dstep_none ls : fold_left gstep ls None = None.
Proof. induction ls as [|l ls IH]; [reflexivity|exact IH]. Qed.

Lemma tag_flag lg o s' lg' : tag lg o = Some (s', lg') -> lg' = lg /\ o = Some s'.
Proof. destruct o as [s|]; [|discriminate]. cbn. intros H. injection H as <- <-. now split. Qed.

(* the flag is never reset *)
Lemma g_dstep_sticky s l s' lg' : gstep (Some (s, true)) l = Some (s', lg') -> lg' = true.
Proof.
  unfold g_dstep. destruct (negb (rune_count l =? 94)); [discriminate|]. cbv zeta.
  destruct (rtype l =? T1)%N; [intros H; now apply tag_flag in H|].
  destruct (rtype l =? T5)%N.
  { destruct (d_cur s); [destruct (linger5 s); [|discriminate]|]; intros H; now apply tag_flag in H. }
  destruct (rtype l =? T6)%N; [intros H; now apply tag_flag in H|].
  destruct (rtype l =? T7)%N; [intros H; now apply tag_flag in H|].
  destruct (rtype l =? T8)%N; [intros H; now apply tag_flag in H|].
  destruct (rtype l =? T9)%N; [intros H; now apply tag_flag in H|discriminate].
Qed.

Lemma g_fold_sticky ls : forall s s' lg', fold_left gstep ls (Some (s, true)) = Some (s', lg') -> lg' = true.
Proof.
  induction ls as [|l ls IH]; intros s s' lg' H; [now injection H as _ <-|]. cbn [fold_left] in H.
  destruct (gstep (Some (s, true)) l) as [[s1 lg1]|] eqn:E; [|now rewrite g_dstep_none in H].
  apply g_dstep_sticky in E. subst lg1. now apply (IH s1 s').
Qed.

Lemma g_dstep_strict s l s' : gstep (Some (s, false)) l = Some (s', false) <-> h_dstep T ok bok (Some s) l = Some s'.
Proof.
  unfold g_dstep, h_dstep. destruct (negb (rune_count l =? 94)); [split; discriminate|]. cbv zeta.
  assert (Htag : forall o, tag false o = Some (s', false) <-> o = Some s').
  { intros o. destruct o as [x|]; cbn; split; intros H; try discriminate; [now injection H as <-|now injection H as <-]. }
  destruct (rtype l =? T1)%N; [apply Htag|].
  destruct (rtype l =? T5)%N.
  { destruct (d_cur s) eqn:Ec; [|apply Htag]. split.
    - destruct (linger5 s); [|discriminate]. intros H. apply tag_flag in H as [H _]. discriminate H.
    - unfold h_step5. rewrite Ec. discriminate. }
  destruct (rtype l =? T6)%N; [apply Htag|].
  destruct (rtype l =? T7)%N; [apply Htag|].
  destruct (rtype l =? T8)%N; [apply Htag|].
  destruct (rtype l =? T9)%N; [apply Htag|split; discriminate].
Qed.

Lemma g_fold_strict ls : forall s s',
  fold_left gstep ls (Some (s, false)) = Some (s', false) <-> fold_left (h_dstep T ok bok) ls (Some s) = Some s'.
Proof.
  induction ls as [|l ls IH]; intros s s'.
  - cbn. split; intros H; [now injection H as <-|now injection H as <-].
  - cbn [fold_left]. split; intros H.
    + destruct (gstep (Some (s, false)) l) as [[s1 [|]]|] eqn:E.
      * apply g_fold_sticky in H. discriminate H.
      * apply g_dstep_strict in E. rewrite E. now apply IH.
      * now rewrite g_dstep_none in H.
    + destruct (h_dstep T ok bok (Some s) l) as [s1|] eqn:E; [|now rewrite h_dstep_none in H].
      apply g_dstep_strict in E. rewrite E. now apply IH.
Qed.

Lemma g_finish_strict s f : g_finish (s, false) = Some (f, false) <-> d_finish s = Some f.
Proof.
  unfold g_finish. split.
  - destruct (d_cur s) as [[h es]|] eqn:Ec.
    + destruct (d_icur (push_std s _)); destruct (d_finish _); intros H; try discriminate H; injection H as _ H; discriminate H.
    + destruct (d_icur s) eqn:Ei.
      * destruct (d_finish _); intros H; try discriminate H; injection H as _ H; discriminate H.
      * destruct (d_finish s); intros H; [now injection H as <-|discriminate H].
  - intros H. pose proof H as H0. unfold d_finish in H0.
    destruct (d_hdr s); [|discriminate]. destruct (d_cur s); [discriminate|]. destruct (d_icur s); [discriminate|].
    now rewrite H.
Qed.

(* (f, false) is returned exactly when the strict reader returns f *)
Theorem g_strict ls f : g_read_file T ok bok ls = Some (f, false) <-> h_read_file T ok bok ls = Some f.
Proof.
  unfold g_read_file, h_read_file. split.
  - destruct (fold_left gstep ls (Some (d_init, false))) as [[s [|]]|] eqn:E; [| |discriminate].
    + (* the flag was raised on the way: the result carries it *)
      unfold g_finish.
      destruct (d_cur s) as [[h es]|]; [destruct (d_icur (push_std s _))|destruct (d_icur s)];
        destruct (d_finish _); intros H; try discriminate H; injection H as _ H; discriminate H.
    + apply g_fold_strict in E. rewrite E. apply g_finish_strict.
  - destruct (fold_left (h_dstep T ok bok) ls (Some d_init)) as [s|] eqn:E; [|discriminate].
    apply g_fold_strict in E. rewrite E. apply g_finish_strict.
Qed.

End HFacts.

(* ------------------------------------------------------------------ *)
(* 5. write then read with validation (the proof follows DispatchFacts.read_write_file
      step by step; every record read back has to pass [ok], every closed batch [bok]) *)

Section HRound.
Variable T : list layout.
Hypothesis T_ok : forallb layout_ok T = true.
Variable ok : recordR -> bool.
Variable bok : kind -> batchR -> bool.

Notation hrr := (h_read_rec T ok).
Notation hstep := (h_dstep T ok bok).

(* the record as the reader builds it passes the check *)
Definition okp (x : recordR) : bool := ok (parsed_rec T x).

Lemma h_read_parsed x k : known_rec T x = true -> r_kind x = k -> okp x = true ->
  hrr k (render_rec T x) = Some (parsed_rec T x).
Proof. intros Hk He Ho. apply hrr_intro; [now apply read_parsed|exact Ho]. Qed.

Definition h_ctx_step (fv : flavor) (oc : option ctx) (l : bytes) : option ctx :=
  match oc with
  | None => None
  | Some c => if (rtype l =? T6)%N then h_ctx_entry T ok fv c l else h_ctx_addenda T ok fv c l
  end.

Lemma h_ctx_fold_none fv ls : fold_left (h_ctx_step fv) ls None = None.
Proof. induction ls as [|l ls IH]; [reflexivity|exact IH]. Qed.

Lemma h_ctx_step_fst fv c l c' : h_ctx_step fv (Some c) l = Some c' -> fst c' = fst c.
Proof.
  unfold h_ctx_step, h_ctx_entry, h_ctx_addenda. destruct (rtype l =? T6)%N.
  - destruct (hrr (fv_entry fv) l); [|discriminate]. intros H. now injection H as <-.
  - destruct (snd c) as [|e rest]; [discriminate|]. destruct (indicator1 (en_rec e)); [|discriminate].
    destruct (fv_addenda fv l) as [k|]; [|intros H; now injection H as <-].
    destruct (hrr k l); [|discriminate]. intros H. now injection H as <-.
Qed.

Lemma h_addenda_fold fv h e rest as_ : forall acc,
  (as_ = [] \/ indicator1 e = true) ->
  forallb (addenda_ok T fv) as_ = true -> forallb (known_rec T) as_ = true -> forallb okp as_ = true ->
  slots_okb (fv_slots fv) (map r_kind acc) (map r_kind as_) = true ->
  fold_left (h_ctx_step fv) (map (render_rec T) as_) (Some (h, mkEnt e acc :: rest))
  = Some (h, mkEnt e (acc ++ map (parsed_rec T) as_) :: rest).
Proof.
  induction as_ as [|a as_ IH]; intros acc Hind Hok Hkn Hop Hsl; [cbn; now rewrite app_nil_r|].
  destruct Hind as [Hind|Hind]; [discriminate|].
  cbn [forallb] in Hok, Hkn, Hop. apply andb_prop in Hok as [Ha Hok]. apply andb_prop in Hkn as [Hka Hkn].
  apply andb_prop in Hop as [Hoa Hop].
  cbn [map slots_okb] in Hsl. apply andb_prop in Hsl as [Hbef Hsl].
  unfold addenda_ok in Ha. apply andb_prop in Ha as [H7 Hk]. unfold line_is in H7. apply N.eqb_eq in H7.
  apply opt_str_eqb_some in Hk.
  cbn [map fold_left]. unfold h_ctx_step at 2. rewrite H7. change (T7 =? T6)%N with false. cbv iota.
  unfold h_ctx_addenda. cbn [snd fst en_rec en_addenda]. rewrite Hind, Hk.
  rewrite (h_read_parsed a (r_kind a) Hka eq_refl Hoa).
  rewrite attach_end by (now rewrite parsed_kind).
  rewrite (IH (acc ++ [parsed_rec T a])); auto.
  - now rewrite <- app_assoc.
  - now rewrite map_app; cbn [map]; rewrite parsed_kind.
Qed.

Lemma h_entry_fold fv h es e : entry_ok T fv e = true -> all_entry (known_rec T) e = true -> all_entry okp e = true ->
  fold_left (h_ctx_step fv) (entry_lines (entry_S T e)) (Some (h, es)) = Some (h, map_entry (parsed_rec T) e :: es).
Proof.
  intros Hok Hkn Hop. unfold entry_ok in Hok.
  apply andb_prop in Hok as [Hok Hsl]. apply andb_prop in Hok as [Hok Had]. apply andb_prop in Hok as [Hok Hind].
  apply andb_prop in Hok as [Hk H6]. apply String.eqb_eq in Hk. unfold line_is in H6. apply N.eqb_eq in H6.
  unfold all_entry in Hkn, Hop. apply andb_prop in Hkn as [Hke Hka]. apply andb_prop in Hop as [Hoe Hoa].
  unfold entry_lines, entry_S. cbn [e_rec e_addenda fold_left]. unfold h_ctx_step at 2. rewrite H6, N.eqb_refl.
  unfold h_ctx_entry. rewrite (h_read_parsed (en_rec e) (fv_entry fv) Hke Hk Hoe). cbn [fst snd].
  rewrite (h_addenda_fold fv h (parsed_rec T (en_rec e)) es (en_addenda e) []); auto.
  apply orb_prop in Hind as [Hn|Hi]; [left; now apply is_nil_spec|now right].
Qed.

Lemma h_entries_fold fv h es : forall es0,
  forallb (entry_ok T fv) es = true -> forallb (all_entry (known_rec T)) es = true -> forallb (all_entry okp) es = true ->
  fold_left (h_ctx_step fv) (flat_map entry_lines (map (entry_S T) es)) (Some (h, es0))
  = Some (h, rev (map (map_entry (parsed_rec T)) es) ++ es0).
Proof.
  induction es as [|e es IH]; intros es0 Hok Hkn Hop; [reflexivity|].
  cbn [forallb] in Hok, Hkn, Hop. apply andb_prop in Hok as [He Hok]. apply andb_prop in Hkn as [Hke Hkn].
  apply andb_prop in Hop as [Hoe Hop].
  cbn [map flat_map]. rewrite fold_left_app, (h_entry_fold fv h es0 e He Hke Hoe), IH by assumption.
  cbn [map rev]. now rewrite <- app_assoc.
Qed.

Lemma h_dstep_at s l t : rune_count l = 94 -> rtype l = t ->
  hstep (Some s) l =
    if (t =? T1)%N then h_step1 T ok s l else if (t =? T5)%N then h_step5 T ok s l else if (t =? T6)%N then h_step6 T ok s l
    else if (t =? T7)%N then h_step7 T ok s l else if (t =? T8)%N then h_step8 T ok bok s l
    else if (t =? T9)%N then h_step9 T ok s l else None.
Proof. intros H94 Ht. unfold h_dstep. rewrite H94, Ht. reflexivity. Qed.

Lemma h_lift_cur_fold ls : forall s c,
  d_cur s = Some c -> d_icur s = None -> not_iatcor (fst c) = true -> Forall entry_lines_ok ls ->
  fold_left hstep ls (Some s) = lift_cur s (fold_left (h_ctx_step (cur_fl (fst c))) ls (Some c)).
Proof.
  induction ls as [|l ls IH]; intros s c Hc Hi Hn Hls.
  - cbn. now rewrite with_cur_id.
  - inversion Hls as [|? ? [H94 Ht] Hrest]; subst. cbn [fold_left].
    assert (E : hstep (Some s) l = lift_cur s (h_ctx_step (cur_fl (fst c)) (Some c) l)).
    { destruct Ht as [Ht|Ht]; rewrite (h_dstep_at s l _ H94 Ht).
      - change (if (T6 =? T1)%N then _ else _) with (h_step6 T ok s l). unfold h_step6. rewrite Hi, Hc.
        unfold h_ctx_step. now rewrite Ht.
      - change (if (T7 =? T1)%N then _ else _) with (h_step7 T ok s l). unfold h_step7. rewrite Hc, Hn.
        unfold h_ctx_step. now rewrite Ht. }
    rewrite E. destruct (h_ctx_step (cur_fl (fst c)) (Some c) l) as [c'|] eqn:Ec.
    + pose proof (h_ctx_step_fst _ _ _ _ Ec) as Hf. cbn [lift_cur].
      rewrite (IH (with_cur s (Some c')) c'); [now rewrite Hf|reflexivity|exact Hi|now rewrite Hf|exact Hrest].
    + cbn [lift_cur]. now rewrite h_dstep_none, h_ctx_fold_none.
Qed.

Lemma h_lift_icur_fold ls : forall s c,
  d_icur s = Some c -> d_cur s = None -> Forall entry_lines_ok ls ->
  fold_left hstep ls (Some s) = lift_icur s (fold_left (h_ctx_step iat_fl) ls (Some c)).
Proof.
  induction ls as [|l ls IH]; intros s c Hi Hc Hls.
  - cbn. now rewrite with_icur_id.
  - inversion Hls as [|? ? [H94 Ht] Hrest]; subst. cbn [fold_left].
    assert (E : hstep (Some s) l = lift_icur s (h_ctx_step iat_fl (Some c) l)).
    { destruct Ht as [Ht|Ht]; rewrite (h_dstep_at s l _ H94 Ht).
      - change (if (T6 =? T1)%N then _ else _) with (h_step6 T ok s l). unfold h_step6. rewrite Hi.
        unfold h_ctx_step. now rewrite Ht.
      - change (if (T7 =? T1)%N then _ else _) with (h_step7 T ok s l). unfold h_step7, h_step7_iat. rewrite Hc, Hi.
        unfold h_ctx_step. now rewrite Ht. }
    rewrite E. destruct (h_ctx_step iat_fl (Some c) l) as [c'|] eqn:Ec.
    + cbn [lift_icur]. rewrite (IH (with_icur s (Some c')) c'); [reflexivity|reflexivity|exact Hc|exact Hrest].
    + cbn [lift_icur]. now rewrite h_dstep_none, h_ctx_fold_none.
Qed.

Notation pb := (pbatch T).

Lemma known_entries b : all_batch (rec_fitsb T) b = true -> forallb (all_entry (known_rec T)) (bt_entries b) = true.
Proof.
  unfold all_batch. intros Hfit. apply andb_prop in Hfit as [Hfit _]. apply andb_prop in Hfit as [_ Hfe].
  rewrite forallb_forall in *. intros e He. specialize (Hfe e He). unfold all_entry in *.
  apply andb_prop in Hfe as [H1 H2]. rewrite (fits_known _ _ H1). cbn [andb]. rewrite forallb_forall in *.
  intros a Ha. apply fits_known. now apply H2.
Qed.

Lemma h_std_batch_read adv b s :
  d_cur s = None -> d_icur s = None ->
  std_batch_ok T adv b = true -> all_batch (rec_fitsb T) b = true -> all_batch okp b = true ->
  bok (std_kind (parsed_rec T (bt_hdr b))) (pb b) = true ->
  fold_left hstep (batch_lines (std_batch_S T adv b)) (Some s) = Some (push_std s (pb b)).
Proof.
  intros Hc Hi Hok Hfit Hop Hbok. pose proof (known_entries b Hfit) as Hke.
  unfold std_batch_ok in Hok. cbv zeta in Hok.
  repeat match type of Hok with _ && _ = true => let K := fresh "K" in apply andb_prop in Hok as [Hok K] end.
  apply String.eqb_eq in Hok. rename Hok into Hkind.
  unfold line_is in K7, K. apply N.eqb_eq in K7, K. apply negb_true_iff in K6.
  apply eqb_prop in K2. apply String.eqb_eq in K0.
  unfold all_batch in Hfit, Hop. apply andb_prop in Hfit as [Hfit Hfc]. apply andb_prop in Hfit as [Hfh Hfe].
  apply andb_prop in Hop as [Hop Hoc]. apply andb_prop in Hop as [Hoh Hoe].
  unfold batch_lines, std_batch_S. cbn [b_hdr b_entries b_ctl]. rewrite K2, eqb_reflx.
  cbn [fold_left]. rewrite (h_dstep_at s _ _ (rec94 T T_ok _ Hfh) K7).
  change (if (T5 =? T1)%N then _ else _) with (h_step5 T ok s (render_rec T (bt_hdr b))).
  unfold h_step5. rewrite Hc, K6, (h_read_parsed (bt_hdr b) "BatchHeader" (fits_known _ _ Hfh) Hkind Hoh), K5.
  rewrite fold_left_app.
  rewrite (h_lift_cur_fold _ (with_cur s (Some (parsed_rec T (bt_hdr b), []))) (parsed_rec T (bt_hdr b), []));
    [|reflexivity|exact Hi|exact K4|now apply (entry_lines_shape T T_ok (cur_fl (parsed_rec T (bt_hdr b))))].
  cbn [fst]. rewrite h_entries_fold by assumption. cbn [lift_cur fold_left].
  rewrite (h_dstep_at _ _ _ (rec94 T T_ok _ Hfc) K).
  match goal with |- (if (T8 =? T1)%N then _ else _) = _ =>
    change (h_step8 T ok bok (with_cur (with_cur s (Some (parsed_rec T (bt_hdr b), [])))
                       (Some (parsed_rec T (bt_hdr b), rev (map (map_entry (parsed_rec T)) (bt_entries b)) ++ [])))
                    (render_rec T (bt_ctl b)) = Some (push_std s (pb b))) end.
  unfold h_step8. cbn [d_cur with_cur fst]. unfold h_ctx_close.
  rewrite (h_read_parsed (bt_ctl b) _ (fits_known _ _ Hfc) K0 Hoc). cbn [fst snd].
  rewrite app_nil_r, rev_involutive. cbv zeta.
  change (mkBat (parsed_rec T (bt_hdr b)) (map (map_entry (parsed_rec T)) (bt_entries b)) (parsed_rec T (bt_ctl b)))
    with (pb b). rewrite Hbok. reflexivity.
Qed.

Lemma h_iat_batch_read b s :
  d_cur s = None -> d_icur s = None ->
  iat_batch_ok T b = true -> all_batch (rec_fitsb T) b = true -> all_batch okp b = true ->
  bok KIAT (pb b) = true ->
  fold_left hstep (batch_lines (iat_batch_S T b)) (Some s) = Some (push_iat s (pb b)).
Proof.
  intros Hc Hi Hok Hfit Hop Hbok. pose proof (known_entries b Hfit) as Hke. unfold iat_batch_ok in Hok.
  repeat match type of Hok with _ && _ = true => let K := fresh "K" in apply andb_prop in Hok as [Hok K] end.
  apply String.eqb_eq in Hok. rename Hok into Hkind.
  unfold line_is in K4, K. apply N.eqb_eq in K4, K. apply String.eqb_eq in K0.
  unfold all_batch in Hfit, Hop. apply andb_prop in Hfit as [Hfit Hfc]. apply andb_prop in Hfit as [Hfh Hfe].
  apply andb_prop in Hop as [Hop Hoc]. apply andb_prop in Hop as [Hoh Hoe].
  unfold batch_lines, iat_batch_S. cbn [b_hdr b_entries b_ctl].
  cbn [fold_left]. rewrite (h_dstep_at s _ _ (rec94 T T_ok _ Hfh) K4).
  change (if (T5 =? T1)%N then _ else _) with (h_step5 T ok s (render_rec T (bt_hdr b))).
  unfold h_step5. rewrite Hc, K3, (h_read_parsed (bt_hdr b) "IATBatchHeader" (fits_known _ _ Hfh) Hkind Hoh).
  rewrite fold_left_app.
  rewrite (h_lift_icur_fold _ (with_icur s (Some (parsed_rec T (bt_hdr b), []))) (parsed_rec T (bt_hdr b), []));
    [|reflexivity|exact Hc|now apply (entry_lines_shape T T_ok iat_fl)].
  rewrite h_entries_fold by assumption. cbn [lift_icur fold_left].
  rewrite (h_dstep_at _ _ _ (rec94 T T_ok _ Hfc) K).
  match goal with |- (if (T8 =? T1)%N then _ else _) = _ =>
    change (h_step8 T ok bok (with_icur (with_icur s (Some (parsed_rec T (bt_hdr b), [])))
                       (Some (parsed_rec T (bt_hdr b), rev (map (map_entry (parsed_rec T)) (bt_entries b)) ++ [])))
                    (render_rec T (bt_ctl b)) = Some (push_iat s (pb b))) end.
  unfold h_step8. cbn [d_cur d_icur with_icur]. rewrite Hc, app_nil_r.
  destruct (bt_entries b) as [|e0 es0] eqn:Ees; [discriminate K2|]. rewrite <- Ees.
  destruct (rev (map (map_entry (parsed_rec T)) (bt_entries b))) as [|e1 es1] eqn:Er.
  { apply (f_equal (@length entryR)) in Er. rewrite rev_length, map_length, Ees in Er. discriminate Er. }
  unfold h_ctx_close. rewrite (h_read_parsed (bt_ctl b) _ (fits_known _ _ Hfc) K0 Hoc). cbn [fst snd].
  rewrite <- Er, rev_involutive. cbv zeta.
  change (mkBat (parsed_rec T (bt_hdr b)) (map (map_entry (parsed_rec T)) (bt_entries b)) (parsed_rec T (bt_ctl b)))
    with (pb b). rewrite Hbok. reflexivity.
Qed.

Lemma h_std_batches_read adv bs : forall s, quiet s ->
  forallb (std_batch_ok T adv) bs = true -> forallb (all_batch (rec_fitsb T)) bs = true ->
  forallb (all_batch okp) bs = true ->
  forallb (fun b => bok (std_kind (parsed_rec T (bt_hdr b))) (pb b)) bs = true ->
  fold_left hstep (flat_map batch_lines (map (std_batch_S T adv) bs)) (Some s)
  = Some (mkDS (d_hdr s) (rev (map pb bs) ++ d_std s) (d_iat s) None None (d_ctl s) (d_actl s)).
Proof.
  induction bs as [|b bs IH]; intros s [Hc Hi] Hok Hfit Hop Hbk.
  - cbn. destruct s. cbn in *. now subst.
  - cbn [forallb] in Hok, Hfit, Hop, Hbk. apply andb_prop in Hok as [Hb Hok]. apply andb_prop in Hfit as [Hfb Hfit].
    apply andb_prop in Hop as [Hob Hop]. apply andb_prop in Hbk as [Hbb Hbk].
    cbn [map flat_map]. rewrite fold_left_app, (h_std_batch_read adv b s Hc Hi Hb Hfb Hob Hbb).
    rewrite IH; [|split; [reflexivity|exact Hi]|assumption|assumption|assumption|assumption].
    cbn [push_std d_hdr d_std d_iat d_ctl d_actl map rev]. now rewrite <- app_assoc.
Qed.

Lemma h_iat_batches_read bs : forall s, quiet s ->
  forallb (iat_batch_ok T) bs = true -> forallb (all_batch (rec_fitsb T)) bs = true ->
  forallb (all_batch okp) bs = true -> forallb (fun b => bok KIAT (pb b)) bs = true ->
  fold_left hstep (flat_map batch_lines (map (iat_batch_S T) bs)) (Some s)
  = Some (mkDS (d_hdr s) (d_std s) (rev (map pb bs) ++ d_iat s) None None (d_ctl s) (d_actl s)).
Proof.
  induction bs as [|b bs IH]; intros s [Hc Hi] Hok Hfit Hop Hbk.
  - cbn. destruct s. cbn in *. now subst.
  - cbn [forallb] in Hok, Hfit, Hop, Hbk. apply andb_prop in Hok as [Hb Hok]. apply andb_prop in Hfit as [Hfb Hfit].
    apply andb_prop in Hop as [Hob Hop]. apply andb_prop in Hbk as [Hbb Hbk].
    cbn [map flat_map]. rewrite fold_left_app, (h_iat_batch_read b s Hc Hi Hb Hfb Hob Hbb).
    rewrite IH; [|split; [exact Hc|reflexivity]|assumption|assumption|assumption|assumption].
    cbn [push_iat d_hdr d_std d_iat d_ctl d_actl map rev]. now rewrite <- app_assoc.
Qed.

Lemma h_fillers_read k s : fold_left hstep (repeat nines k) (Some s) = Some s.
Proof.
  induction k as [|k IH]; [reflexivity|]. cbn [repeat fold_left].
  rewrite (h_dstep_at s nines T9 nines_94 eq_refl).
  change (if (T9 =? T1)%N then _ else _) with (h_step9 T ok s nines). unfold h_step9.
  change (pad_line nines) with true. exact IH.
Qed.

(* the batches as the reader builds them pass the batch check *)
Definition batches_okp (f : fileR) : bool :=
  forallb (fun b => bok (std_kind (parsed_rec T (bt_hdr b))) (pb b)) (fl_batches f)
  && forallb (fun b => bok KIAT (pb b)) (fl_iat f).

Theorem h_roundtrip f k :
  all_file (rec_fitsb T) f = true -> dispatchb T f = true ->
  all_file okp f = true -> batches_okp f = true ->
  h_read_file T ok bok (write_file T f ++ repeat nines k) = Some (parsed_file T f).
Proof.
  intros Hfit Hd Hop Hbk. unfold dispatchb in Hd.
  repeat match type of Hd with _ && _ = true => let K := fresh "K" in apply andb_prop in Hd as [Hd K] end.
  apply String.eqb_eq in Hd. rename Hd into Hkh. unfold line_is in K4, K0. apply N.eqb_eq in K4, K0.
  apply String.eqb_eq in K1. apply negb_true_iff in K.
  unfold all_file in Hfit, Hop.
  repeat match type of Hfit with _ && _ = true => let F := fresh "F" in apply andb_prop in Hfit as [Hfit F] end.
  repeat match type of Hop with _ && _ = true => let O := fresh "O" in apply andb_prop in Hop as [Hop O] end.
  unfold batches_okp in Hbk. apply andb_prop in Hbk as [Hbs Hbi].
  unfold h_read_file, write_file, record_lines, struct_of. cbn [f_hdr f_batches f_ctl].
  rewrite fold_left_app. cbn [fold_left].
  rewrite (h_dstep_at d_init _ _ (rec94 T T_ok _ Hfit) K4).
  change (if (T1 =? T1)%N then _ else _) with (h_step1 T ok d_init (render_rec T (fl_hdr f))).
  unfold h_step1. cbn [d_hdr d_init]. rewrite (h_read_parsed (fl_hdr f) "FileHeader" (fits_known _ _ Hfit) Hkh Hop).
  cbn [d_std d_iat d_cur d_icur d_ctl d_actl].
  rewrite fold_left_app, flat_map_app, fold_left_app.
  rewrite h_std_batches_read; [|split; reflexivity|assumption|assumption|assumption|assumption].
  rewrite h_iat_batches_read; [|split; reflexivity|assumption|assumption|assumption|assumption].
  cbn [d_hdr d_std d_iat d_ctl d_actl fold_left].
  rewrite (h_dstep_at _ _ _ (rec94 T T_ok _ F) K0).
  match goal with |- context [if (T9 =? T1)%N then _ else _] =>
    change (if (T9 =? T1)%N then _ else _) with
      (h_step9 T ok (mkDS (Some (parsed_rec T (fl_hdr f))) (rev (map pb (fl_batches f)) ++ [])
                     (rev (map pb (fl_iat f)) ++ []) None None None None) (render_rec T (fl_ctl f))) end.
  unfold h_step9. rewrite K. cbn [d_std d_actl d_ctl].
  rewrite (any_adv_parsed T _ _ K3).
  destruct (any_adv (fl_batches f)) eqn:Eadv.
  - rewrite (h_read_parsed (fl_ctl f) "ADVFileControl" (fits_known _ _ F) K1 O).
    rewrite h_fillers_read. unfold d_finish. cbn [d_hdr d_cur d_icur d_std d_iat d_actl d_ctl].
    rewrite (any_adv_parsed T _ _ K3), Eadv, !app_nil_r, !rev_involutive. reflexivity.
  - rewrite (h_read_parsed (fl_ctl f) "FileControl" (fits_known _ _ F) K1 O).
    rewrite h_fillers_read. unfold d_finish. cbn [d_hdr d_cur d_icur d_std d_iat d_actl d_ctl].
    rewrite (any_adv_parsed T _ _ K3), Eadv, !app_nil_r, !rev_involutive. reflexivity.
Qed.

End HRound.


(* ------------------------------------------------------------------ *)
(* 6. "parsing a rendered valid record yields a valid record"           *)

Lemma is_emptyb_mem s : mem_bytes s [[]] = is_emptyb s.
Proof. destruct s; reflexivity. Qed.

Lemma cond_agree_eval r r' c : cond_agreeb r r' c = true -> eval r' c = eval r c.
Proof.
  induction c as [| |t set|t set|t set|t set|k a b|k t n|k t n|t rg|t|a IHa b IHb|a IHa b IHb|a IHa|src fs];
    cbn [cond_agreeb eval]; intros H; try reflexivity.
  - (* CStrIn *)
    destruct set as [|m rest].
    { apply bytes_eqb_eq in H. now rewrite H. }
    destruct m as [|x m].
    + destruct rest as [|m2 rest].
      * apply eqb_prop in H. now rewrite !is_emptyb_mem, H.
      * apply bytes_eqb_eq in H. now rewrite H.
    + apply bytes_eqb_eq in H. now rewrite H.
  - apply bytes_eqb_eq in H. now rewrite H.
  - apply Z.eqb_eq in H. now rewrite H.
  - apply Z.eqb_eq in H. now rewrite H.
  - apply andb_prop in H as [H1 H2]. apply Z.eqb_eq in H1, H2. now rewrite H1, H2.
  - apply bytes_eqb_eq in H. now rewrite H.
  - apply bytes_eqb_eq in H. now rewrite H.
  - apply bytes_eqb_eq in H. now rewrite H.
  - apply bytes_eqb_eq in H. now rewrite H.
  - apply andb_prop in H as [H1 H2]. now rewrite IHa, IHb.
  - apply andb_prop in H as [H1 H2]. now rewrite IHa, IHb.
  - now rewrite IHa.
Qed.

Lemma rules_agree_valid R r r' : rules_agreeb R r r' = true -> rec_validb R r' = rec_validb R r.
Proof.
  unfold rules_agreeb, rec_validb. induction R as [|[lbl c] R IH]; [reflexivity|]. cbn [forallb snd]. intros H.
  apply andb_prop in H as [Hc HR]. unfold rejects at 1 3. now rewrite (cond_agree_eval r r' c Hc), IH.
Qed.

Lemma forallb_map' {A B} (p : B -> bool) (g : A -> B) l : forallb p (map g l) = forallb (fun x => p (g x)) l.
Proof. induction l as [|x l IH]; [reflexivity|]. cbn [map forallb]. now rewrite IH. Qed.

Lemma forallb_ext' {A} (p q : A -> bool) l : (forall x, p x = q x) -> forallb p l = forallb q l.
Proof. intros H. induction l as [|x l IH]; [reflexivity|]. cbn [forallb]. now rewrite H, IH. Qed.

Lemma all_entry_map (P : recordR -> bool) g e : all_entry P (map_entry g e) = all_entry (fun x => P (g x)) e.
Proof. unfold all_entry, map_entry. cbn [en_rec en_addenda]. now rewrite forallb_map'. Qed.

Lemma all_batch_map (P : recordR -> bool) g b : all_batch P (map_batch g b) = all_batch (fun x => P (g x)) b.
Proof.
  unfold all_batch, map_batch. cbn [bt_hdr bt_entries bt_ctl]. rewrite forallb_map'.
  now rewrite (forallb_ext' _ _ _ (all_entry_map P g)).
Qed.

Lemma all_file_map (P : recordR -> bool) g f : all_file P (map_file g f) = all_file (fun x => P (g x)) f.
Proof.
  unfold all_file, map_file. cbn [fl_hdr fl_batches fl_iat fl_ctl]. rewrite !forallb_map'.
  now rewrite !(forallb_ext' _ _ _ (all_batch_map P g)).
Qed.

Section InstFacts.
Variable T : list layout.
Hypothesis T_ok : forallb layout_ok T = true.
Variable RS : list (string * rules).
Variable AT : tables.

(* a record that validates and whose recognised rules read the same values after
   String() / Parse() validates when it is read back *)
Theorem valid_parsed x : rec_passb RS x = true -> rec_keepsb T RS x = true -> rec_passb RS (parsed_rec T x) = true.
Proof.
  unfold rec_passb, rec_keepsb. rewrite parsed_kind. intros Hv Hk. now rewrite (rules_agree_valid _ _ _ Hk).
Qed.

Lemma all_entry_impl2 (P Q R : recordR -> bool) e : (forall x, P x = true -> Q x = true -> R x = true) ->
  all_entry P e = true -> all_entry Q e = true -> all_entry R e = true.
Proof.
  intros H. unfold all_entry. intros HP HQ. apply andb_prop in HP as [P1 P2]. apply andb_prop in HQ as [Q1 Q2].
  rewrite (H _ P1 Q1). cbn [andb]. rewrite forallb_forall in *. auto.
Qed.

Lemma all_batch_impl2 (P Q R : recordR -> bool) b : (forall x, P x = true -> Q x = true -> R x = true) ->
  all_batch P b = true -> all_batch Q b = true -> all_batch R b = true.
Proof.
  intros H. unfold all_batch. intros HP HQ.
  apply andb_prop in HP as [HP P3]. apply andb_prop in HP as [P1 P2].
  apply andb_prop in HQ as [HQ Q3]. apply andb_prop in HQ as [Q1 Q2].
  rewrite (H _ P1 Q1), (H _ P3 Q3). cbn [andb]. rewrite andb_true_r. rewrite forallb_forall in *.
  intros e He. apply (all_entry_impl2 P Q R); auto.
Qed.

Lemma all_file_impl2 (P Q R : recordR -> bool) f : (forall x, P x = true -> Q x = true -> R x = true) ->
  all_file P f = true -> all_file Q f = true -> all_file R f = true.
Proof.
  intros H. unfold all_file. intros HP HQ.
  apply andb_prop in HP as [HP P4]. apply andb_prop in HP as [HP P3]. apply andb_prop in HP as [P1 P2].
  apply andb_prop in HQ as [HQ Q4]. apply andb_prop in HQ as [HQ Q3]. apply andb_prop in HQ as [Q1 Q2].
  rewrite (H _ P1 Q1), (H _ P4 Q4). cbn [andb]. rewrite andb_true_r. apply andb_true_intro. split.
  - rewrite forallb_forall in *. intros b Hb. apply (all_batch_impl2 P Q R); auto.
  - rewrite forallb_forall in *. intros b Hb. apply (all_batch_impl2 P Q R); auto.
Qed.

Lemma batches_okb_parsed f :
  batches_okb AT (parsed_file T f) = batches_okp T (batch_okb AT) f.
Proof.
  unfold batches_okb, batches_okp, parsed_file, map_file. cbn [fl_batches fl_iat].
  rewrite !forallb_map'. reflexivity.
Qed.

(* validation only rejects (and a returned flag [false] means the input kept the tree's shape) *)
Theorem valid_reader_refines ls f : read_file_valid T RS AT ls = Some (f, false) -> read_file T ls = Some f.
Proof. intros H. apply g_strict in H. now apply h_refines in H. Qed.

(* every record of the returned file passes the regenerated rules, every batch the arithmetic *)
Theorem valid_reader_sound ls f : read_file_valid T RS AT ls = Some (f, false) -> tree_validb RS AT f = true.
Proof. intros H. apply g_strict in H. now apply h_sound in H. Qed.

(* the default reader accepts what the writer wrote from a valid file, and returns it *)
Theorem valid_roundtrip_parsed f k :
  all_file (rec_fitsb T) f = true -> dispatchb T f = true ->
  tree_validb RS AT (parsed_file T f) = true ->
  read_file_valid T RS AT (write_file T f ++ repeat nines k) = Some (parsed_file T f, false).
Proof.
  intros Hfit Hd Hv. apply g_strict. unfold tree_validb, tree_okb in Hv.
  apply andb_prop in Hv as [Hv Hi]. apply andb_prop in Hv as [Hr Hs].
  apply (h_roundtrip T T_ok); auto.
  - unfold parsed_file in Hr. rewrite all_file_map in Hr. exact Hr.
  - rewrite <- batches_okb_parsed. unfold batches_okb. now rewrite Hs, Hi.
Qed.

Theorem valid_roundtrip f k :
  all_file (rec_fitsb T) f = true -> dispatchb T f = true ->
  all_file (rec_passb RS) f = true -> all_file (rec_keepsb T RS) f = true ->
  batches_okb AT (parsed_file T f) = true ->
  read_file_valid T RS AT (write_file T f ++ repeat nines k) = Some (parsed_file T f, false).
Proof.
  intros Hfit Hd Hv Hk Hb. apply g_strict. apply (h_roundtrip T T_ok); auto.
  - apply (all_file_impl2 (rec_passb RS) (rec_keepsb T RS)); auto. intros x. apply valid_parsed.
  - now rewrite <- batches_okb_parsed.
Qed.

End InstFacts.

(* ------------------------------------------------------------------ *)
(* 7. bytes: every physical layout of the written records                *)

Section InstText.
Variable T : list layout.
Hypothesis T_ok : forallb layout_ok T = true.
Variable RS : list (string * rules).
Variable AT : tables.

Theorem valid_text_roundtrip f k j0 recs :
  all_file (rec_fitsb T) f = true -> dispatchb T f = true -> all_file (rec_no_nl T) f = true ->
  tree_validb RS AT (parsed_file T f) = true ->
  map fst recs = write_file T f ++ repeat nines k ->
  Forall junk_ok j0 -> Forall (fun p => Forall junk_ok (snd p)) recs ->
  read_text_valid T RS AT (junk_bytes j0 ++ text_of recs) = Some (parsed_file T f, false).
Proof.
  intros Hfit Hd Hnl Hv Hrecs Hj0 Hj.
  pose proof (valid_roundtrip_parsed T T_ok RS AT f k Hfit Hd Hv) as Hread.
  pose proof (read_file_typed T _ _ (valid_reader_refines T RS AT _ _ Hread)) as Htyped.
  assert (Hwf : forallb wf_utf8 (write_file T f ++ repeat nines k) = true).
  { rewrite forallb_app. apply andb_true_intro. split.
    - apply all_file_lines. apply (all_file_impl (rec_fitsb T)); [exact (fits_wf T T_ok)|exact Hfit].
    - apply forallb_forall. intros x Hx. apply repeat_spec in Hx. subst. apply nines_line_ok. }
  assert (Hno : forallb no_nl (write_file T f ++ repeat nines k) = true).
  { rewrite forallb_app. apply andb_true_intro. split.
    - now apply all_file_lines.
    - apply forallb_forall. intros x Hx. apply repeat_spec in Hx. subst. apply nines_line_ok. }
  unfold read_text_valid. rewrite read_lines_text_of; [|exact Hj0|].
  - rewrite <- (map_map fst NLine), Hrecs, norm_lines_NLine. exact Hread.
  - apply Forall_forall. intros p Hp. split; [|rewrite Forall_forall in Hj; now apply Hj].
    assert (Hin : In (fst p) (write_file T f ++ repeat nines k)) by (rewrite <- Hrecs; now apply in_map).
    rewrite forallb_forall in Hwf, Hno. rewrite Forall_forall in Htyped. specialize (Htyped _ Hin).
    unfold line_ok. repeat split; auto; [apply Htyped|now apply typed_not_blank].
Qed.

End InstText.

From Coq Require Import Lia ZifyN ZifyNat ZifyBool.
From ACH Require Export Utf8 Utf8Facts.
Open Scope N_scope.

(* UTF-8 encoder facts: decode-after-encode, well-formed strings, ASCII strings. *)

Ltac Zify.zify_post_hook ::= Z.div_mod_to_equations.

Definition norm (r : N) : N :=
  if r <? 55296 then r else if r <=? 57343 then rune_error else if r <? 1114112 then r else rune_error.
Definition validb (r : N) : bool := (r <? 55296) || ((57343 <? r) && (r <? 1114112)).
Definition wf_utf8 (s : bytes) : bool := bytes_eqb (encode (runes s)) s.
Definition ch (r : N) : N * bytes := (norm r, encode_rune r).
Definition asciib (s : bytes) : bool := forallb (fun b => b <? 128) s.

(* ---------- boolean tests from arithmetic ranges ---------- *)

Lemma seq_size_2 b : 194 <= b <= 223 -> seq_size b = 2%nat.
Proof.
  intros H. unfold seq_size.
  destruct (b <? 194) eqn:E1; [apply N.ltb_lt in E1; lia|].
  destruct (b <=? 223) eqn:E2; [reflexivity|apply N.leb_gt in E2; lia].
Qed.

Lemma seq_size_3 b : 224 <= b <= 239 -> seq_size b = 3%nat.
Proof.
  intros H. unfold seq_size.
  destruct (b <? 194) eqn:E1; [apply N.ltb_lt in E1; lia|].
  destruct (b <=? 223) eqn:E2; [apply N.leb_le in E2; lia|].
  destruct (b <=? 239) eqn:E3; [reflexivity|apply N.leb_gt in E3; lia].
Qed.

Lemma seq_size_4 b : 240 <= b <= 244 -> seq_size b = 4%nat.
Proof.
  intros H. unfold seq_size.
  destruct (b <? 194) eqn:E1; [apply N.ltb_lt in E1; lia|].
  destruct (b <=? 223) eqn:E2; [apply N.leb_le in E2; lia|].
  destruct (b <=? 239) eqn:E3; [apply N.leb_le in E3; lia|].
  destruct (b <=? 244) eqn:E4; [reflexivity|apply N.leb_gt in E4; lia].
Qed.

Lemma range_true lo hi b : lo <= b <= hi -> (lo <=? b) && (b <=? hi) = true.
Proof.
  intros [H1 H2]. apply andb_true_intro. split; apply N.leb_le; assumption.
Qed.

Lemma range_spec lo hi b : (lo <=? b) && (b <=? hi) = true <-> lo <= b <= hi.
Proof.
  rewrite andb_true_iff, !N.leb_le. tauto.
Qed.

Lemma cont_true b : 128 <= b <= 191 -> cont b = true.
Proof. intros H. unfold cont. now apply range_true. Qed.

Lemma cont_spec b : cont b = true <-> 128 <= b <= 191.
Proof. unfold cont. apply range_spec. Qed.

Lemma second_ok_true b0 b1 :
  128 <= b1 <= 191 ->
  (b0 = 224 -> 160 <= b1) -> (b0 = 237 -> b1 <= 159) ->
  (b0 = 240 -> 144 <= b1) -> (b0 = 244 -> b1 <= 143) ->
  second_ok b0 b1 = true.
Proof.
  intros H Ha Hb Hc Hd. unfold second_ok.
  destruct (b0 =? 224) eqn:E1.
  { apply N.eqb_eq in E1. apply range_true. specialize (Ha E1). lia. }
  destruct (b0 =? 237) eqn:E2.
  { apply N.eqb_eq in E2. apply range_true. specialize (Hb E2). lia. }
  destruct (b0 =? 240) eqn:E3.
  { apply N.eqb_eq in E3. apply range_true. specialize (Hc E3). lia. }
  destruct (b0 =? 244) eqn:E4.
  { apply N.eqb_eq in E4. apply range_true. specialize (Hd E4). lia. }
  now apply cont_true.
Qed.

Lemma second_ok_spec b0 b1 :
  second_ok b0 b1 = true ->
  128 <= b1 <= 191 /\
  (b0 = 224 -> 160 <= b1) /\ (b0 = 237 -> b1 <= 159) /\
  (b0 = 240 -> 144 <= b1) /\ (b0 = 244 -> b1 <= 143).
Proof.
  unfold second_ok.
  destruct (b0 =? 224) eqn:E1.
  { apply N.eqb_eq in E1. rewrite range_spec. intros H. lia. }
  destruct (b0 =? 237) eqn:E2.
  { apply N.eqb_eq in E2. rewrite range_spec. intros H. lia. }
  destruct (b0 =? 240) eqn:E3.
  { apply N.eqb_eq in E3. rewrite range_spec. intros H. lia. }
  destruct (b0 =? 244) eqn:E4.
  { apply N.eqb_eq in E4. rewrite range_spec. intros H. lia. }
  apply N.eqb_neq in E1, E2, E3, E4. rewrite cont_spec. intros H. lia.
Qed.

Lemma seq_size_spec b :
  match seq_size b with
  | 0%nat => True
  | 2%nat => 194 <= b <= 223
  | 3%nat => 224 <= b <= 239
  | 4%nat => 240 <= b <= 244
  | _ => False
  end.
Proof.
  unfold seq_size.
  destruct (b <? 194) eqn:E1; [exact I|]. apply N.ltb_ge in E1.
  destruct (b <=? 223) eqn:E2; [apply N.leb_le in E2; lia|]. apply N.leb_gt in E2.
  destruct (b <=? 239) eqn:E3; [apply N.leb_le in E3; lia|]. apply N.leb_gt in E3.
  destruct (b <=? 244) eqn:E4; [apply N.leb_le in E4; lia|]. exact I.
Qed.

(* ---------- one decoding step on a well-formed multi-byte sequence ---------- *)

Lemma chunks_1 b0 x : b0 < 128 -> chunks (b0 :: x) = (b0, [b0]) :: chunks x.
Proof.
  intros H. rewrite chunks_cons. apply N.ltb_lt in H. now rewrite H.
Qed.

Lemma chunks_hi b0 x : 128 <= b0 -> chunks (b0 :: x) = chunks_multi b0 x.
Proof.
  intros H. rewrite chunks_cons. apply N.ltb_ge in H. now rewrite H.
Qed.

Lemma chunks_2 b0 b1 x :
  194 <= b0 <= 223 -> 128 <= b1 <= 191 ->
  chunks (b0 :: b1 :: x) = ((b0 - 192) * 64 + (b1 - 128), [b0; b1]) :: chunks x.
Proof.
  intros H0 H1. rewrite chunks_hi by lia. unfold chunks_multi.
  rewrite (seq_size_2 b0 H0).
  assert (E : second_ok b0 b1 = true) by (apply second_ok_true; lia).
  now rewrite E.
Qed.

Lemma chunks_3 b0 b1 b2 x :
  224 <= b0 <= 239 -> 128 <= b1 <= 191 -> 128 <= b2 <= 191 ->
  (b0 = 224 -> 160 <= b1) -> (b0 = 237 -> b1 <= 159) ->
  chunks (b0 :: b1 :: b2 :: x) =
  ((b0 - 224) * 4096 + (b1 - 128) * 64 + (b2 - 128), [b0; b1; b2]) :: chunks x.
Proof.
  intros H0 H1 H2 Ha Hb. rewrite chunks_hi by lia. unfold chunks_multi.
  rewrite (seq_size_3 b0 H0).
  assert (E : second_ok b0 b1 = true) by (apply second_ok_true; auto; lia).
  rewrite E, (cont_true b2 H2). reflexivity.
Qed.

Lemma chunks_4 b0 b1 b2 b3 x :
  240 <= b0 <= 244 -> 128 <= b1 <= 191 -> 128 <= b2 <= 191 -> 128 <= b3 <= 191 ->
  (b0 = 240 -> 144 <= b1) -> (b0 = 244 -> b1 <= 143) ->
  chunks (b0 :: b1 :: b2 :: b3 :: x) =
  ((b0 - 240) * 262144 + (b1 - 128) * 4096 + (b2 - 128) * 64 + (b3 - 128), [b0; b1; b2; b3]) :: chunks x.
Proof.
  intros H0 H1 H2 H3 Ha Hb. rewrite chunks_hi by lia. unfold chunks_multi.
  rewrite (seq_size_4 b0 H0).
  assert (E : second_ok b0 b1 = true) by (apply second_ok_true; auto; lia).
  rewrite E, (cont_true b2 H2), (cont_true b3 H3). reflexivity.
Qed.

Lemma chunks_err x : chunks (239 :: 191 :: 189 :: x) = (rune_error, [239; 191; 189]) :: chunks x.
Proof.
  rewrite chunks_3 by lia. reflexivity.
Qed.

(* ---------- decode after encode ---------- *)

Lemma chunks_encode_rune r x : chunks (encode_rune r ++ x) = (norm r, encode_rune r) :: chunks x.
Proof.
  unfold encode_rune, norm.
  destruct (r <? 128) eqn:E1.
  { apply N.ltb_lt in E1. cbn [app]. rewrite chunks_1 by assumption.
    assert (E : r <? 55296 = true) by (apply N.ltb_lt; lia). now rewrite E. }
  apply N.ltb_ge in E1.
  destruct (r <? 2048) eqn:E2.
  { apply N.ltb_lt in E2. cbn [app].
    assert (E : r <? 55296 = true) by (apply N.ltb_lt; lia). rewrite E.
    rewrite chunks_2 by lia. f_equal. f_equal. lia. }
  apply N.ltb_ge in E2.
  destruct (55296 <=? r) eqn:E3; cbn [andb].
  - apply N.leb_le in E3.
    assert (E : r <? 55296 = false) by (apply N.ltb_ge; lia). rewrite E.
    destruct (r <=? 57343) eqn:E4.
    { cbn [app]. apply chunks_err. }
    apply N.leb_gt in E4.
    destruct (r <? 65536) eqn:E5.
    { apply N.ltb_lt in E5. cbn [app].
      assert (E' : r <? 1114112 = true) by (apply N.ltb_lt; lia). rewrite E'.
      rewrite chunks_3 by lia. f_equal. f_equal. lia. }
    apply N.ltb_ge in E5.
    destruct (r <? 1114112) eqn:E6.
    { apply N.ltb_lt in E6. cbn [app].
      rewrite chunks_4 by lia. f_equal. f_equal. lia. }
    cbn [app]. apply chunks_err.
  - apply N.leb_gt in E3.
    assert (E : r <? 55296 = true) by (apply N.ltb_lt; lia). rewrite E.
    assert (E' : r <? 65536 = true) by (apply N.ltb_lt; lia). rewrite E'.
    cbn [app]. rewrite chunks_3 by lia. f_equal. f_equal. lia.
Qed.

Lemma norm_valid r : validb r = true -> norm r = r.
Proof.
  unfold validb, norm. intros H.
  destruct (r <? 55296) eqn:E1; [reflexivity|]. cbn [orb] in H.
  apply andb_prop in H as [H1 H2]. apply N.ltb_lt in H1.
  destruct (r <=? 57343) eqn:E2; [apply N.leb_le in E2; lia|].
  now rewrite H2.
Qed.

Lemma validb_norm r : validb (norm r) = true.
Proof.
  assert (Herr : validb rune_error = true) by reflexivity.
  unfold norm.
  destruct (r <? 55296) eqn:E1.
  { unfold validb. now rewrite E1. }
  destruct (r <=? 57343) eqn:E2; [exact Herr|].
  destruct (r <? 1114112) eqn:E3; [|exact Herr].
  unfold validb. rewrite E1, E3. cbn [orb]. apply N.leb_gt in E2.
  apply N.ltb_lt in E2. now rewrite E2.
Qed.

Lemma encode_rune_error : encode_rune rune_error = [239; 191; 189].
Proof. reflexivity. Qed.

Lemma encode_rune_norm r : encode_rune (norm r) = encode_rune r.
Proof.
  unfold norm.
  destruct (r <? 55296) eqn:E1; [reflexivity|]. apply N.ltb_ge in E1.
  destruct (r <=? 57343) eqn:E2.
  { apply N.leb_le in E2. rewrite encode_rune_error. unfold encode_rune.
    assert (A1 : r <? 128 = false) by (apply N.ltb_ge; lia).
    assert (A2 : r <? 2048 = false) by (apply N.ltb_ge; lia).
    assert (A3 : 55296 <=? r = true) by (apply N.leb_le; lia).
    apply N.leb_le in E2. now rewrite A1, A2, A3, E2. }
  apply N.leb_gt in E2.
  destruct (r <? 1114112) eqn:E3; [reflexivity|]. apply N.ltb_ge in E3.
  rewrite encode_rune_error. unfold encode_rune.
  assert (A1 : r <? 128 = false) by (apply N.ltb_ge; lia).
  assert (A2 : r <? 2048 = false) by (apply N.ltb_ge; lia).
  assert (A3 : r <=? 57343 = false) by (apply N.leb_gt; lia).
  assert (A4 : r <? 65536 = false) by (apply N.ltb_ge; lia).
  assert (A5 : r <? 1114112 = false) by (apply N.ltb_ge; lia).
  rewrite A1, A2, A3, A4, A5, andb_false_r. reflexivity.
Qed.

Lemma encode_nil : encode [] = [].
Proof. reflexivity. Qed.

Lemma encode_cons r rs : encode (r :: rs) = encode_rune r ++ encode rs.
Proof. reflexivity. Qed.

Lemma encode_app a b : encode (a ++ b) = encode a ++ encode b.
Proof. unfold encode. apply flat_map_app. Qed.

Lemma chunks_encode_app rs x : chunks (encode rs ++ x) = map ch rs ++ chunks x.
Proof.
  induction rs as [|r rs IH].
  - reflexivity.
  - rewrite encode_cons, <- app_assoc, chunks_encode_rune, IH. reflexivity.
Qed.

Lemma chunks_encode rs : chunks (encode rs) = map ch rs.
Proof.
  rewrite <- (app_nil_r (encode rs)), chunks_encode_app.
  change (chunks []) with (@nil (N * bytes)). apply app_nil_r.
Qed.

Lemma runes_encode rs : runes (encode rs) = map norm rs.
Proof.
  unfold runes. rewrite chunks_encode, map_map. reflexivity.
Qed.

Lemma map_norm_valid rs : forallb validb rs = true -> map norm rs = rs.
Proof.
  induction rs as [|r rs IH]; [reflexivity|].
  cbn [forallb map]. intros H. apply andb_prop in H as [H1 H2].
  rewrite (norm_valid r H1), (IH H2). reflexivity.
Qed.

Lemma runes_encode_valid rs : forallb validb rs = true -> runes (encode rs) = rs.
Proof.
  intros H. rewrite runes_encode. now apply map_norm_valid.
Qed.

Lemma rune_count_encode rs : rune_count (encode rs) = length rs.
Proof.
  unfold rune_count. rewrite chunks_encode. apply map_length.
Qed.

Lemma encode_map_norm rs : encode (map norm rs) = encode rs.
Proof.
  induction rs as [|r rs IH]; [reflexivity|].
  cbn [map]. rewrite !encode_cons, encode_rune_norm, IH. reflexivity.
Qed.

Lemma encode_runes_encode rs : encode (runes (encode rs)) = encode rs.
Proof.
  rewrite runes_encode. apply encode_map_norm.
Qed.

(* ---------- well-formed strings ---------- *)

Lemma wf_spec s : wf_utf8 s = true <-> encode (runes s) = s.
Proof. unfold wf_utf8. apply bytes_eqb_eq. Qed.

Lemma wf_encode rs : wf_utf8 (encode rs) = true.
Proof. apply wf_spec. apply encode_runes_encode. Qed.

Lemma forallb_validb_map_norm rs : forallb validb (map norm rs) = true.
Proof.
  induction rs as [|r rs IH]; [reflexivity|].
  cbn [map forallb]. rewrite validb_norm, IH. reflexivity.
Qed.

Lemma wf_runes_valid s : wf_utf8 s = true -> forallb validb (runes s) = true.
Proof.
  intros H. apply wf_spec in H.
  rewrite <- H at 1. rewrite runes_encode. apply forallb_validb_map_norm.
Qed.

Lemma wf_decompose s : wf_utf8 s = true -> exists rs, forallb validb rs = true /\ s = encode rs /\ runes s = rs.
Proof.
  intros H. exists (runes s). split; [now apply wf_runes_valid|].
  split; [|reflexivity]. apply wf_spec in H. now symmetry.
Qed.

Lemma chunks_wf s : wf_utf8 s = true -> chunks s = map (fun r => (r, encode_rune r)) (runes s).
Proof.
  intros H. pose proof (wf_runes_valid s H) as Hv. apply wf_spec in H.
  rewrite <- H at 1. rewrite chunks_encode.
  apply map_ext_in. intros r Hr. unfold ch.
  rewrite forallb_forall in Hv. rewrite (norm_valid r (Hv r Hr)). reflexivity.
Qed.

Lemma chunks_app_wf a b : wf_utf8 a = true -> chunks (a ++ b) = chunks a ++ chunks b.
Proof.
  intros H. apply wf_spec in H. rewrite <- H.
  rewrite chunks_encode_app, chunks_encode. reflexivity.
Qed.

Lemma runes_app_wf a b : wf_utf8 a = true -> runes (a ++ b) = runes a ++ runes b.
Proof.
  intros H. unfold runes. rewrite (chunks_app_wf a b H). apply map_app.
Qed.

Lemma rune_count_app_wf a b : wf_utf8 a = true -> rune_count (a ++ b) = (rune_count a + rune_count b)%nat.
Proof.
  intros H. unfold rune_count. rewrite (chunks_app_wf a b H). apply app_length.
Qed.

Lemma wf_app a b : wf_utf8 a = true -> wf_utf8 b = true -> wf_utf8 (a ++ b) = true.
Proof.
  intros Ha Hb. apply wf_spec. rewrite (runes_app_wf a b Ha), encode_app.
  apply wf_spec in Ha, Hb. now rewrite Ha, Hb.
Qed.

Lemma wf_nil : wf_utf8 [] = true.
Proof. reflexivity. Qed.

Lemma wf_concat l : forallb wf_utf8 l = true -> wf_utf8 (concat l) = true.
Proof.
  induction l as [|a l IH]; [intros _; exact wf_nil|].
  cbn [forallb concat]. intros H. apply andb_prop in H as [H1 H2].
  apply wf_app; [assumption|now apply IH].
Qed.

Lemma chunks_concat_wf l : forallb wf_utf8 l = true -> chunks (concat l) = concat (map chunks l).
Proof.
  induction l as [|a l IH]; [reflexivity|].
  cbn [forallb concat map]. intros H. apply andb_prop in H as [H1 H2].
  rewrite (chunks_app_wf a (concat l) H1), (IH H2). reflexivity.
Qed.

Lemma rune_count_concat_wf l : forallb wf_utf8 l = true -> rune_count (concat l) = list_sum (map rune_count l).
Proof.
  induction l as [|a l IH]; [reflexivity|].
  cbn [forallb concat map list_sum]. intros H. apply andb_prop in H as [H1 H2].
  rewrite (rune_count_app_wf a (concat l) H1), (IH H2). reflexivity.
Qed.

(* ---------- ASCII strings ---------- *)

Lemma chunks_ascii s : asciib s = true -> chunks s = map (fun b => (b, [b])) s.
Proof.
  unfold asciib. induction s as [|b s IH]; [reflexivity|].
  cbn [forallb map]. intros H. apply andb_prop in H as [H1 H2].
  apply N.ltb_lt in H1. rewrite (chunks_1 b s H1), (IH H2). reflexivity.
Qed.

Lemma runes_ascii s : asciib s = true -> runes s = s.
Proof.
  intros H. unfold runes. rewrite (chunks_ascii s H), map_map. cbn [fst]. apply map_id.
Qed.

Lemma encode_ascii s : asciib s = true -> encode s = s.
Proof.
  unfold asciib. induction s as [|b s IH]; [reflexivity|].
  cbn [forallb]. intros H. apply andb_prop in H as [H1 H2].
  rewrite encode_cons, (IH H2). unfold encode_rune. rewrite H1. reflexivity.
Qed.

Lemma wf_ascii s : asciib s = true -> wf_utf8 s = true.
Proof.
  intros H. apply wf_spec. rewrite (runes_ascii s H). now apply encode_ascii.
Qed.

Lemma rune_count_ascii s : asciib s = true -> rune_count s = length s.
Proof.
  intros H. unfold rune_count. rewrite (chunks_ascii s H). apply map_length.
Qed.

Lemma ascii_facts s : forallb (fun b => b <? 128) s = true -> rune_count s = length s /\ wf_utf8 s = true.
Proof.
  intros H. split; [now apply rune_count_ascii|now apply wf_ascii].
Qed.

(* ---------- every decoded rune is a scalar value ---------- *)

Lemma validb_true r : r < 55296 \/ 57343 < r < 1114112 -> validb r = true.
Proof.
  intros H. unfold validb.
  destruct (r <? 55296) eqn:E1; [reflexivity|]. apply N.ltb_ge in E1. cbn [orb].
  apply andb_true_intro. split; apply N.ltb_lt; lia.
Qed.

Lemma chunks_step_valid b0 t : exists r bs rest,
  chunks (b0 :: t) = (r, bs) :: chunks rest /\ validb r = true /\
  (length rest < length (b0 :: t))%nat.
Proof.
  destruct (b0 <? 128) eqn:E0.
  { apply N.ltb_lt in E0. exists b0, [b0], t. split; [now apply chunks_1|].
    split; [apply validb_true; lia|cbn [length]; lia]. }
  apply N.ltb_ge in E0. rewrite (chunks_hi b0 t E0).
  assert (Eerr : chunks_multi b0 t = (rune_error, [b0]) :: chunks t ->
    exists r bs rest, chunks_multi b0 t = (r, bs) :: chunks rest /\ validb r = true /\
      (length rest < length (b0 :: t))%nat).
  { intros H. exists rune_error, [b0], t. split; [exact H|].
    split; [reflexivity|cbn [length]; lia]. }
  pose proof (seq_size_spec b0) as Hs.
  unfold chunks_multi in *.
  destruct (seq_size b0) as [|[|[|[|[|k]]]]] eqn:Es; try (apply Eerr; reflexivity).
  - (* 2 *) destruct t as [|b1 t1]; [apply Eerr; reflexivity|].
    destruct (second_ok b0 b1) eqn:E1; [|apply Eerr; reflexivity].
    apply second_ok_spec in E1. destruct E1 as (R1 & _).
    exists ((b0 - 192) * 64 + (b1 - 128)), [b0; b1], t1. split; [reflexivity|].
    split; [apply validb_true; lia|cbn [length]; lia].
  - (* 3 *) destruct t as [|b1 [|b2 t2]]; try (apply Eerr; reflexivity).
    destruct (second_ok b0 b1 && cont b2) eqn:E1; [|apply Eerr; reflexivity].
    apply andb_prop in E1 as [E1 E2].
    apply second_ok_spec in E1. destruct E1 as (R1 & Ha & Hb & _).
    apply cont_spec in E2.
    exists ((b0 - 224) * 4096 + (b1 - 128) * 64 + (b2 - 128)), [b0; b1; b2], t2.
    split; [reflexivity|].
    split; [|cbn [length]; lia].
    apply validb_true.
    assert (C : b0 < 237 \/ b0 = 237 \/ 237 < b0) by lia.
    destruct C as [C|[C|C]].
    + left. lia.
    + left. specialize (Hb C). lia.
    + right. lia.
  - (* 4 *) destruct t as [|b1 [|b2 [|b3 t3]]]; try (apply Eerr; reflexivity).
    destruct (second_ok b0 b1 && cont b2 && cont b3) eqn:E1; [|apply Eerr; reflexivity].
    apply andb_prop in E1 as [E1 E3]. apply andb_prop in E1 as [E1 E2].
    apply second_ok_spec in E1. destruct E1 as (R1 & _ & _ & Hc & Hd).
    apply cont_spec in E2. apply cont_spec in E3.
    exists ((b0 - 240) * 262144 + (b1 - 128) * 4096 + (b2 - 128) * 64 + (b3 - 128)), [b0; b1; b2; b3], t3.
    split; [reflexivity|].
    split; [|cbn [length]; lia].
    apply validb_true. right.
    assert (C : b0 = 240 \/ 240 < b0 < 244 \/ b0 = 244) by lia.
    destruct C as [C|[C|C]].
    + specialize (Hc C). lia.
    + lia.
    + specialize (Hd C). lia.
Qed.

Lemma runes_valid l : forallb validb (runes l) = true.
Proof.
  unfold runes. induction l as [l IH] using list_len_ind.
  destruct l as [|b0 t]; [reflexivity|].
  destruct (chunks_step_valid b0 t) as (r & bs & rest & Hc & Hv & Hlen).
  rewrite Hc. cbn [map fst forallb]. rewrite Hv, (IH rest Hlen). reflexivity.
Qed.

(* ---------- appending an ASCII string to an arbitrary string ---------- *)

Lemma cont_lo b : b < 128 -> cont b = false.
Proof.
  intros H. destruct (cont b) eqn:E; [apply cont_hi in E; lia|reflexivity].
Qed.

Lemma second_ok_lo b0 b : b < 128 -> second_ok b0 b = false.
Proof.
  intros H. destruct (second_ok b0 b) eqn:E; [apply second_ok_hi in E; lia|reflexivity].
Qed.

Lemma chunks_app_ascii_r s x : asciib x = true -> chunks (s ++ x) = chunks s ++ chunks x.
Proof.
  intros Hx. destruct x as [|x0 x'].
  { rewrite app_nil_r. change (chunks []) with (@nil (N * bytes)). now rewrite app_nil_r. }
  assert (Hx0 : x0 < 128).
  { unfold asciib in Hx. cbn [forallb] in Hx. apply andb_prop in Hx as [Hx _]. now apply N.ltb_lt in Hx. }
  clear Hx.
  pose proof (fun b => second_ok_lo b x0 Hx0) as L1.
  pose proof (cont_lo x0 Hx0) as L2.
  induction s as [s IH] using list_len_ind.
  destruct s as [|b0 t]; [reflexivity|].
  assert (H : forall t', (length t' <= length t)%nat ->
            chunks (t' ++ x0 :: x') = chunks t' ++ chunks (x0 :: x')).
  { intros t' Ht'. apply IH. cbn [length]. lia. }
  clear IH.
  cbn [app].
  destruct (b0 <? 128) eqn:E0.
  { apply N.ltb_lt in E0.
    rewrite (chunks_1 b0 (t ++ x0 :: x') E0), (chunks_1 b0 t E0).
    cbn [app]. f_equal. apply (H t). lia. }
  apply N.ltb_ge in E0.
  rewrite (chunks_hi b0 (t ++ x0 :: x') E0), (chunks_hi b0 t E0).
  unfold chunks_multi.
  destruct (seq_size b0) as [|[|[|[|[|k]]]]] eqn:Es.
  - cbn [app]. f_equal. apply (H t). lia.
  - cbn [app]. f_equal. apply (H t). lia.
  - (* 2 *) destruct t as [|b1 t1].
    + cbn [app]. rewrite (L1 b0). reflexivity.
    + cbn [app]. destruct (second_ok b0 b1) eqn:E1.
      * cbn [app]. f_equal. apply (H t1). cbn [length]. lia.
      * cbn [app]. f_equal. apply (H (b1 :: t1)). cbn [length]. lia.
  - (* 3 *) destruct t as [|b1 [|b2 t2]].
    + cbn [app]. destruct x' as [|x1 x'']; [reflexivity|].
      rewrite (L1 b0). reflexivity.
    + cbn [app]. rewrite L2, andb_false_r.
      cbn [app]. f_equal. apply (H [b1]). cbn [length]. lia.
    + cbn [app]. destruct (second_ok b0 b1 && cont b2) eqn:E1.
      * cbn [app]. f_equal. apply (H t2). cbn [length]. lia.
      * cbn [app]. f_equal. apply (H (b1 :: b2 :: t2)). cbn [length]. lia.
  - (* 4 *) destruct t as [|b1 [|b2 [|b3 t3]]].
    + cbn [app]. destruct x' as [|x1 [|x2 x'']]; [reflexivity|reflexivity|].
      rewrite (L1 b0). reflexivity.
    + cbn [app]. destruct x' as [|x1 x''].
      * cbn [app]. f_equal. apply (H [b1]). cbn [length]. lia.
      * rewrite L2, andb_false_r. cbn [andb app]. f_equal. apply (H [b1]). cbn [length]. lia.
    + cbn [app]. rewrite L2, andb_false_r.
      cbn [app]. f_equal. apply (H [b1; b2]). cbn [length]. lia.
    + cbn [app]. destruct (second_ok b0 b1 && cont b2 && cont b3) eqn:E1.
      * cbn [app]. f_equal. apply (H t3). cbn [length]. lia.
      * cbn [app]. f_equal. apply (H (b1 :: b2 :: b3 :: t3)). cbn [length]. lia.
  - cbn [app]. f_equal. apply (H t). lia.
Qed.

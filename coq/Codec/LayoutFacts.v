(* Generic codec theorems, for ANY layout accepted by the boolean checker
   [layout_ok]:
     render_width   every rendered record has exactly 94 runes        (C02)
     render_wf      ... and is well-formed UTF-8
     parse_render   Parse(String(r)) recovers, for every aligned cut, the
                    rendered text of the field through its conversion    (C01)
     reparse_fixed  String(Parse(String(r)) over r) = String(r)          (C01) *)
From Coq Require Import String List Lia.
From ACH Require Import LayoutOk FieldsFacts.
Import ListNotations.
Local Open Scope nat_scope.

(* ------------------------------------------------------------------ *)
(* association lists                                                    *)

Lemma lookup_app (a b : recval) f :
  lookup (a ++ b) f = match lookup a f with Some v => Some v | None => lookup b f end.
Proof.
  induction a as [|[g v] a IH]; [reflexivity|]. cbn [app lookup].
  destruct (String.eqb f g); [reflexivity|exact IH].
Qed.

Lemma lookup_in (l : recval) f v : lookup l f = Some v -> In (f, v) l.
Proof.
  induction l as [|[g w] l IH]; [discriminate|]. cbn [lookup].
  destruct (String.eqb f g) eqn:E.
  - apply String.eqb_eq in E. subst g. intros H. injection H as ->. now left.
  - intros H. right. now apply IH.
Qed.

Lemma lookup_notin (l : recval) f : (forall v, ~ In (f, v) l) -> lookup l f = None.
Proof.
  intros H. destruct (lookup l f) as [v|] eqn:E; [|reflexivity]. apply lookup_in in E. now apply H in E.
Qed.

Lemma gets_lookup r1 r2 f : lookup r1 f = lookup r2 f -> gets r1 f = gets r2 f.
Proof. unfold gets. now intros ->. Qed.
Lemma geti_lookup r1 r2 f : lookup r1 f = lookup r2 f -> geti r1 f = geti r2 f.
Proof. unfold geti. now intros ->. Qed.

Lemma lookup_single f v : lookup [(f, v)] f = Some v.
Proof. cbn [lookup]. now rewrite String.eqb_refl. Qed.
Lemma gets_single f t : gets [(f, VS t)] f = t.
Proof. unfold gets. now rewrite lookup_single. Qed.
Lemma geti_single f z : geti [(f, VI z)] f = z.
Proof. unfold geti. now rewrite lookup_single. Qed.

(* a simple field segment reads one field only *)
Lemma render_seg_lookup s f r1 r2 :
  simple_field s = Some f -> lookup r1 f = lookup r2 f -> render_seg r1 s = render_seg r2 s.
Proof.
  intros Hs Hl. destruct s; cbn [simple_field] in Hs; try discriminate; injection Hs as ->; cbn [render_seg];
    rewrite ?(gets_lookup r1 r2 f Hl), ?(geti_lookup r1 r2 f Hl); reflexivity.
Qed.

(* ------------------------------------------------------------------ *)
(* string lists without duplicates                                      *)

Lemma mem_str_in x l : mem_str x l = true <-> In x l.
Proof.
  unfold mem_str. rewrite existsb_exists. split.
  - intros (y & Hy & E). apply String.eqb_eq in E. now subst.
  - intros H. exists x. split; [assumption|apply String.eqb_refl].
Qed.

Lemma nodupb_NoDup l : nodupb l = true -> NoDup l.
Proof.
  induction l as [|x l IH]; [constructor|]. cbn [nodupb]. intros H. apply andb_prop in H as [H1 H2].
  constructor; [|now apply IH]. intros Hin. apply mem_str_in in Hin. rewrite Hin in H1. discriminate.
Qed.

Lemma NoDup_app_disj {A} (a b : list A) x : NoDup (a ++ b) -> In x a -> In x b -> False.
Proof.
  induction a as [|y a IH]; [easy|]. cbn [app]. intros H Ha Hb. inversion H as [|? ? Hn Hd]; subst.
  destruct Ha as [->|Ha]; [|now apply IH]. apply Hn, in_or_app. now right.
Qed.

Lemma NoDup_app_r {A} (a b : list A) : NoDup (a ++ b) -> NoDup b.
Proof. induction a as [|y a IH]; [easy|]. cbn [app]. intros H. inversion H; subst. now apply IH. Qed.

Lemma nodup_flat_map_inj {A} (k : A -> list string) l :
  NoDup (flat_map k l) -> forall a b f, In a l -> In b l -> In f (k a) -> In f (k b) -> a = b.
Proof.
  induction l as [|y l IH]; [easy|]. cbn [flat_map]. intros H a b f Ha Hb Hfa Hfb.
  destruct Ha as [->|Ha], Hb as [->|Hb]; try reflexivity.
  - exfalso. apply (NoDup_app_disj _ _ f H Hfa). apply in_flat_map. now exists b.
  - exfalso. apply (NoDup_app_disj _ _ f H Hfb). apply in_flat_map. now exists a.
  - apply NoDup_app_r in H. now apply (IH H a b f).
Qed.

(* ------------------------------------------------------------------ *)
(* the column walk                                                      *)

Lemma cols_from_segs cuts col segs cs : cols_from cuts col segs = Some cs -> map cs_seg cs = segs.
Proof.
  revert col cs; induction segs as [|s segs IH]; intros col cs; cbn [cols_from].
  - intros H. now injection H as <-.
  - destruct (seg_width cuts col s) as [w|]; [|discriminate].
    destruct (cols_from cuts (col + w) segs) as [l|] eqn:E; [|discriminate].
    intros H. injection H as <-. cbn [map]. unfold cs_seg at 1. cbn [snd]. f_equal. now apply (IH (col + w)).
Qed.

Lemma list_sum_cons x l : list_sum (x :: l) = x + list_sum l.
Proof. reflexivity. Qed.
Lemma total_width_cons x l : total_width (x :: l) = cs_w x + total_width l.
Proof. reflexivity. Qed.
Lemma total_width_nil : total_width [] = 0.
Proof. reflexivity. Qed.

Lemma total_width_app a b : total_width (a ++ b) = total_width a + total_width b.
Proof. unfold total_width. rewrite map_app. apply list_sum_app. Qed.

Lemma cols_from_lo cuts col segs cs : cols_from cuts col segs = Some cs ->
  forall pre x post, cs = pre ++ x :: post ->
    cs_lo x = col + total_width pre /\ seg_width cuts (cs_lo x) (cs_seg x) = Some (cs_w x).
Proof.
  revert col cs; induction segs as [|s segs IH]; intros col cs; cbn [cols_from].
  - intros H. injection H as <-. intros [|? ?] ? ? E; discriminate.
  - destruct (seg_width cuts col s) as [w|] eqn:Ew; [|discriminate].
    destruct (cols_from cuts (col + w) segs) as [l|] eqn:E; [|discriminate].
    intros H. injection H as <-. intros [|y pre] x post Ecs; cbn [app] in Ecs; injection Ecs as <- ->.
    + rewrite total_width_nil. unfold cs_lo, cs_seg, cs_w. cbn [fst snd]. split; [lia|assumption].
    + destruct (IH (col + w) _ E pre x post eq_refl) as [H1 H2]. split; [|assumption].
      rewrite H1, total_width_cons. unfold cs_w at 1. cbn [fst snd]. lia.
Qed.

(* ------------------------------------------------------------------ *)
(* what the checker establishes                                         *)

Record ok_facts (L : layout) (cs : list colseg) : Prop := {
  ok_ix : l_ix L = IRune;
  ok_cols : cols L = Some cs;
  ok_segs : map cs_seg cs = l_segs L;
  ok_total : total_width cs = 94;
  ok_lo : forall pre x post, cs = pre ++ x :: post ->
            cs_lo x = total_width pre /\ seg_width (l_cuts L) (cs_lo x) (cs_seg x) = Some (cs_w x);
  ok_aligned : forall c, In c (l_cuts L) -> c_const c = None -> c_field c <> ""%string ->
            exists x, In x cs /\ aligned cs c = Some (cs_seg x) /\ cs_lo x = c_lo c /\ cs_lo x + cs_w x = c_hi c
                      /\ seg_field (cs_seg x) = Some (c_field c);
  ok_lit : forallb lit_ok (l_segs L) = true;
  ok_cut_keys : NoDup (flat_map cut_keys (l_cuts L));
  ok_seg_keys : NoDup (flat_map seg_keys (l_segs L));
  ok_lossy : forall f, In f (lossy_fields L) -> In f known_lossy }.

Lemma aligned_spec cs c s : aligned cs c = Some s ->
  exists x, In x cs /\ s = cs_seg x /\ cs_lo x = c_lo c /\ cs_lo x + cs_w x = c_hi c
            /\ seg_field (cs_seg x) = Some (c_field c).
Proof.
  unfold aligned. destruct (find (aligned_with c) cs) as [x|] eqn:E; [|discriminate].
  intros H. injection H as <-. apply find_some in E as [Hin Ha]. unfold aligned_with in Ha.
  apply andb_prop in Ha as [Ha H3]. apply andb_prop in Ha as [H1 H2].
  apply Nat.eqb_eq in H1, H2. exists x. repeat split; auto.
  unfold seg_has_field in H3. destruct (seg_field (cs_seg x)) as [g|]; [|discriminate].
  apply String.eqb_eq in H3. now subst.
Qed.

Lemma layout_ok_facts L : layout_ok L = true -> exists cs, ok_facts L cs.
Proof.
  unfold layout_ok. intros H.
  repeat match type of H with _ && _ = true => let H' := fresh "K" in apply andb_prop in H as [H H'] end.
  destruct (cols L) as [cs|] eqn:Ec; [|discriminate].
  apply andb_prop in K5 as [Kt Ka]. apply Nat.eqb_eq in Kt.
  exists cs. constructor; auto.
  - destruct (l_ix L); [reflexivity|discriminate].
  - now apply (cols_from_segs (l_cuts L) 0).
  - intros pre x post E. destruct (cols_from_lo _ _ _ _ Ec pre x post E) as [H1 H2]. split; [lia|assumption].
  - intros c Hc Hconst Hf. rewrite forallb_forall in Ka. specialize (Ka c Hc).
    unfold is_real in Ka. rewrite Hconst in Ka. apply String.eqb_neq in Hf. rewrite Hf in Ka. cbn [andb negb] in Ka.
    destruct (aligned cs c) as [s|] eqn:Es; [|discriminate].
    destruct (aligned_spec cs c s Es) as (x & Hx & -> & H1 & H2 & H3). exists x. auto.
  - now apply nodupb_NoDup.
  - now apply nodupb_NoDup.
  - intros f Hf. rewrite forallb_forall in K. apply mem_str_in. now apply K.
Qed.

(* ------------------------------------------------------------------ *)
(* rendered pieces                                                      *)

Definition piece (r : recval) (x : colseg) : bytes := render_seg r (cs_seg x).

Lemma render_pieces L cs r : map cs_seg cs = l_segs L -> render L r = concat (map (piece r) cs).
Proof. intros H. unfold render. rewrite <- H, map_map. reflexivity. Qed.

Lemma seg_fit L r x :
  seg_width (l_cuts L) (cs_lo x) (cs_seg x) = Some (cs_w x) -> lit_ok (cs_seg x) = true ->
  seg_widthb r x = true ->
  wf_utf8 (piece r x) = true /\ rune_count (piece r x) = cs_w x.
Proof.
  unfold piece, seg_widthb. destruct (cs_seg x) as [bs|f w|f w|f w|f|f|n h|src]; cbn [seg_width render_seg lit_ok];
    intros Hw Hlit Hfit.
  - injection Hw as <-. now split.
  - injection Hw as <-. split; [now apply wf_alphaField|apply rune_count_alphaField_any].
  - injection Hw as <-. split; [apply wf_numericField|apply rune_count_numericField].
  - injection Hw as <-. split; [now apply wf_stringField|apply rune_count_stringField_any].
  - apply andb_prop in Hfit as [H1 H2]. apply Nat.eqb_eq in H2. now split.
  - apply Nat.eqb_eq in Hfit. split; [apply wf_itoa|now rewrite rune_count_itoa].
  - destruct (render_custom n r) as [bs|]; [|discriminate].
    apply andb_prop in Hfit as [H1 H2]. apply Nat.eqb_eq in H2. now split.
  - discriminate.
Qed.

Lemma pieces_fit L cs r : ok_facts L cs -> widthb L r = true ->
  forall x, In x cs -> wf_utf8 (piece r x) = true /\ rune_count (piece r x) = cs_w x.
Proof.
  intros F Hw x Hx. unfold widthb in Hw. rewrite (ok_cols _ _ F) in Hw. rewrite forallb_forall in Hw.
  destruct (in_split _ _ Hx) as (pre & post & E).
  destruct (ok_lo _ _ F pre x post E) as [_ H2].
  apply (seg_fit L r x H2); [|now apply Hw].
  pose proof (ok_lit _ _ F) as Hl. rewrite forallb_forall in Hl. apply Hl.
  rewrite <- (ok_segs _ _ F). now apply in_map.
Qed.

Lemma pieces_wf L cs r : ok_facts L cs -> widthb L r = true -> forallb wf_utf8 (map (piece r) cs) = true.
Proof.
  intros F Hw. apply forallb_forall. intros p Hp. apply in_map_iff in Hp as (x & <- & Hx).
  now apply (pieces_fit L cs r F Hw x Hx).
Qed.

Lemma pieces_count L cs r : ok_facts L cs -> widthb L r = true ->
  forall l, incl l cs -> list_sum (map rune_count (map (piece r) l)) = total_width l.
Proof.
  intros F Hw l. induction l as [|x l IH]; [reflexivity|]. intros Hl.
  rewrite total_width_cons. cbn [map]. rewrite list_sum_cons.
  rewrite IH by (intros y Hy; apply Hl; now right).
  destruct (pieces_fit L cs r F Hw x) as [_ ->]; [apply Hl; now left|reflexivity].
Qed.

(* ------------------------------------------------------------------ *)
(* C02: width and well-formedness of every rendered record              *)

Theorem render_width_w L r : layout_ok L = true -> widthb L r = true -> rune_count (render L r) = 94.
Proof.
  intros Hok Hw. destruct (layout_ok_facts L Hok) as [cs F].
  rewrite (render_pieces L cs r (ok_segs _ _ F)).
  rewrite rune_count_concat_wf by now apply (pieces_wf L cs r).
  rewrite (pieces_count L cs r F Hw cs (incl_refl cs)). apply (ok_total _ _ F).
Qed.

Theorem render_wf_w L r : layout_ok L = true -> widthb L r = true -> wf_utf8 (render L r) = true.
Proof.
  intros Hok Hw. destruct (layout_ok_facts L Hok) as [cs F].
  rewrite (render_pieces L cs r (ok_segs _ _ F)). apply wf_concat. now apply (pieces_wf L cs r).
Qed.

Lemma fitsb_widthb L r : fitsb L r = true -> widthb L r = true.
Proof. unfold fitsb. intros H. now apply andb_prop in H as [H _]. Qed.

Theorem render_width L r : layout_ok L = true -> fitsb L r = true -> rune_count (render L r) = 94.
Proof. intros H1 H2. apply render_width_w; [assumption|now apply fitsb_widthb]. Qed.

Theorem render_wf L r : layout_ok L = true -> fitsb L r = true -> wf_utf8 (render L r) = true.
Proof. intros H1 H2. apply render_wf_w; [assumption|now apply fitsb_widthb]. Qed.

(* ------------------------------------------------------------------ *)
(* cutting a rendered record at piece boundaries                         *)

Lemma skipn_app_exact {A} (a b : list A) n : n = length a -> skipn n (a ++ b) = b.
Proof. intros ->. rewrite skipn_app, skipn_all, Nat.sub_diag. reflexivity. Qed.

Lemma firstn_app_exact {A} (a b : list A) n : n = length a -> firstn n (a ++ b) = a.
Proof. intros ->. rewrite firstn_app, firstn_all, Nat.sub_diag, firstn_O. apply app_nil_r. Qed.

Lemma length_concat_chunks l : length (concat (map chunks l)) = list_sum (map rune_count l).
Proof.
  induction l as [|a l IH]; [reflexivity|]. cbn [map concat]. rewrite list_sum_cons, app_length, IH. reflexivity.
Qed.

Lemma sub_piece pre p post :
  forallb wf_utf8 (pre ++ p :: post) = true ->
  forall lo hi, lo = list_sum (map rune_count pre) -> hi = lo + rune_count p ->
  sub (units IRune (concat (pre ++ p :: post))) lo hi = p.
Proof.
  intros Hwf lo hi -> ->. unfold sub, units.
  rewrite (chunks_concat_wf _ Hwf), map_app. cbn [map]. rewrite concat_app. cbn [concat].
  rewrite !map_app.
  rewrite skipn_app_exact by (now rewrite map_length, length_concat_chunks).
  replace (list_sum (map rune_count pre) + rune_count p - list_sum (map rune_count pre)) with (rune_count p) by lia.
  rewrite firstn_app_exact by (now rewrite map_length).
  apply chunks_concat.
Qed.

(* ------------------------------------------------------------------ *)
(* what Parse assigns                                                    *)

Lemma has_key_spec f c : has_key f c = true <-> cut_key c = Some f.
Proof.
  unfold has_key. destruct (cut_key c) as [g|]; [|split; discriminate]. rewrite String.eqb_eq.
  split; [now intros ->|intros H; now injection H as ->].
Qed.

Lemma parse_cut_keys us c g v : In (g, v) (parse_cut us c) -> cut_key c = Some g.
Proof.
  unfold parse_cut, cut_key. destruct (c_const c) as [bs|].
  - intros [H|[]]. now injection H as <- _.
  - destruct (String.eqb (c_field c) "") eqn:E; [intros []|].
    destruct (conv_value (c_conv c) (sub us (c_lo c) (c_hi c))) as [w|]; [|intros []].
    intros [H|[]]. now injection H as <- _.
Qed.

Lemma parse_cut_rev us c : rev (parse_cut us c) = parse_cut us c.
Proof.
  unfold parse_cut. destruct (c_const c); [reflexivity|].
  destruct (String.eqb (c_field c) ""); [reflexivity|].
  now destruct (conv_value (c_conv c) (sub us (c_lo c) (c_hi c))).
Qed.

Definition assigned (us : list bytes) (cuts : list cut) (f : string) : option value :=
  match find_key cuts f with Some c => lookup (parse_cut us c) f | None => None end.

Lemma find_key_in cuts f c : find_key cuts f = Some c -> In c cuts /\ cut_key c = Some f.
Proof. unfold find_key. intros H. apply find_some in H as [H1 H2]. now apply has_key_spec in H2. Qed.

Lemma find_key_none cuts f : ~ In f (flat_map cut_keys cuts) -> find_key cuts f = None.
Proof.
  intros H. destruct (find_key cuts f) as [c|] eqn:E; [|reflexivity]. exfalso. apply H.
  apply find_key_in in E as [H1 H2]. apply in_flat_map. exists c. split; [assumption|].
  unfold cut_keys. rewrite H2. now left.
Qed.

Lemma lookup_parse_cut_nokey us c f : has_key f c = false -> lookup (parse_cut us c) f = None.
Proof.
  intros H. apply lookup_notin. intros v Hin. apply parse_cut_keys in Hin. apply has_key_spec in Hin. congruence.
Qed.

Lemma lookup_parse us cuts f : NoDup (flat_map cut_keys cuts) ->
  lookup (flat_map (parse_cut us) cuts) f = assigned us cuts f
  /\ lookup (rev (flat_map (parse_cut us) cuts)) f = assigned us cuts f.
Proof.
  unfold assigned. induction cuts as [|c cuts IH]; [now split|]. cbn [flat_map]. intros Hnd.
  destruct (IH (NoDup_app_r _ _ Hnd)) as [IH1 IH2].
  rewrite rev_app_distr, parse_cut_rev, !lookup_app, IH1, IH2. unfold find_key. cbn [find]. fold (find_key cuts f).
  destruct (has_key f c) eqn:Ek.
  - rewrite find_key_none.
    + split; [|reflexivity]. now destruct (lookup (parse_cut us c) f).
    + intros Hin. apply (NoDup_app_disj _ _ f Hnd); [|assumption].
      apply has_key_spec in Ek. unfold cut_keys. rewrite Ek. now left.
  - rewrite (lookup_parse_cut_nokey us c f Ek). split; [reflexivity|].
    now destruct (match find_key cuts f with Some c0 => lookup (parse_cut us c0) f | None => None end).
Qed.

(* ------------------------------------------------------------------ *)
(* C01, first half: parsing a rendered record recovers the rendered text
   of every field through its conversion chain                          *)

Lemma sub_render L cs r : ok_facts L cs -> widthb L r = true ->
  forall x, In x cs ->
  sub (units (l_ix L) (render L r)) (cs_lo x) (cs_lo x + cs_w x) = render_seg r (cs_seg x).
Proof.
  intros F Hw x Hx. destruct (in_split _ _ Hx) as (pre & post & E).
  rewrite (ok_ix _ _ F), (render_pieces L cs r (ok_segs _ _ F)).
  pose proof (pieces_wf L cs r F Hw) as Hwf. rewrite E in Hwf |- *. rewrite map_app in Hwf |- *. cbn [map] in Hwf |- *.
  destruct (ok_lo _ _ F pre x post E) as [Hlo _].
  apply (sub_piece _ _ _ Hwf).
  - rewrite Hlo. symmetry. apply (pieces_count L cs r F Hw). rewrite E. intros y Hy. apply in_or_app. now left.
  - f_equal. symmetry. now apply (pieces_fit L cs r F Hw x).
Qed.

Theorem parse_render_w L r : layout_ok L = true -> widthb L r = true ->
  forall c, In c (l_cuts L) -> c_const c = None -> c_field c <> ""%string ->
  exists s, aligned_seg L c = Some s /\ In s (l_segs L) /\ seg_field s = Some (c_field c)
    /\ sub (units (l_ix L) (render L r)) (c_lo c) (c_hi c) = render_seg r s
    /\ lookup (parse L (render L r)) (c_field c) = conv_value (c_conv c) (render_seg r s).
Proof.
  intros Hok Hw c Hc Hconst Hf. destruct (layout_ok_facts L Hok) as [cs F].
  destruct (ok_aligned _ _ F c Hc Hconst Hf) as (x & Hx & Ha & Hlo & Hhi & Hsf).
  pose proof (sub_render L cs r F Hw x Hx) as Hsub. rewrite Hhi, Hlo in Hsub.
  exists (cs_seg x). unfold aligned_seg. rewrite (ok_cols _ _ F).
  repeat split; auto.
  - rewrite <- (ok_segs _ _ F). now apply in_map.
  - unfold parse. rewrite (render_width_w L r Hok Hw), Nat.eqb_refl.
    destruct (lookup_parse (units (l_ix L) (render L r)) (l_cuts L) (c_field c) (ok_cut_keys _ _ F)) as [-> _].
    unfold assigned.
    assert (Hk : cut_key c = Some (c_field c)).
    { unfold cut_key. rewrite Hconst. apply String.eqb_neq in Hf. now rewrite Hf. }
    destruct (find_key (l_cuts L) (c_field c)) as [c'|] eqn:Ef.
    + apply find_key_in in Ef as [Hc' Hk'].
      assert (c' = c).
      { apply (nodup_flat_map_inj cut_keys (l_cuts L) (ok_cut_keys _ _ F) c' c (c_field c)); auto;
          unfold cut_keys; [rewrite Hk'|rewrite Hk]; now left. }
      subst c'. unfold parse_cut. rewrite Hconst. apply String.eqb_neq in Hf. rewrite Hf, Hsub.
      destruct (conv_value (c_conv c) (render_seg r (cs_seg x))) as [v|]; [|reflexivity].
      apply lookup_single.
    + exfalso. unfold find_key in Ef. apply (find_none _ _ Ef) in Hc. apply has_key_spec in Hk. congruence.
Qed.

Theorem parse_render L r : layout_ok L = true -> fitsb L r = true ->
  forall c, In c (l_cuts L) -> c_const c = None -> c_field c <> ""%string ->
  exists s, aligned_seg L c = Some s /\ In s (l_segs L) /\ seg_field s = Some (c_field c)
    /\ sub (units (l_ix L) (render L r)) (c_lo c) (c_hi c) = render_seg r s
    /\ lookup (parse L (render L r)) (c_field c) = conv_value (c_conv c) (render_seg r s).
Proof. intros H1 H2. apply parse_render_w; [assumption|now apply fitsb_widthb]. Qed.

(* ------------------------------------------------------------------ *)
(* C01, second half: rendering the re-parsed record gives the same text *)

Lemma conv_value_trim cv t : is_trim_chain cv = true -> conv_value cv t = Some (VS (trim t)).
Proof.
  destruct cv as [|fn [|? ?]]; try discriminate. cbn [is_trim_chain]. intros H.
  apply orb_prop in H as [H|H]; [apply orb_prop in H as [H|H]|]; apply String.eqb_eq in H; subst fn; reflexivity.
Qed.

Lemma conv_value_num cv t : is_num_chain cv = true -> conv_value cv t = Some (VI (parseNumField t)).
Proof.
  destruct cv as [|fn [|? ?]]; try discriminate. cbn [is_num_chain]. intros H.
  apply String.eqb_eq in H; subst fn; reflexivity.
Qed.

Lemma is_nil_spec {A} (l : list A) : is_nil l = true -> l = [].
Proof. destruct l; [reflexivity|discriminate]. Qed.

Lemma in_int64b_eq z : in_int64b z = in_int64 z.
Proof. reflexivity. Qed.

Ltac generic_case H Hconv :=
  unfold generic_stable in H; cbn [render_seg] in H; rewrite Hconv in H; apply bytes_eqb_eq in H; exact H.

Lemma field_stable_sound r x f cv v :
  seg_widthb r x = true -> seg_intb r (cs_seg x) = true ->
  simple_field (cs_seg x) = Some f ->
  field_stable (cs_seg x) cv r = true ->
  conv_value cv (render_seg r (cs_seg x)) = Some v ->
  render_seg [(f, v)] (cs_seg x) = render_seg r (cs_seg x).
Proof.
  unfold seg_widthb. destruct (cs_seg x) as [bs|g w|g w|g w|g|g|n h|src];
    cbn [simple_field seg_intb field_stable]; intros Hfit Hint Hf Hst Hconv; try discriminate;
    injection Hf as ->; cbn [render_seg] in Hconv |- *.
  - (* SAlpha *)
    destruct (is_nil cv) eqn:E1.
    { apply is_nil_spec in E1. subst cv. injection Hconv as <-. rewrite gets_single. now apply alphaField_idem. }
    destruct (is_trim_chain cv) eqn:E2; [|generic_case Hst Hconv].
    rewrite (conv_value_trim cv _ E2) in Hconv. injection Hconv as <-. rewrite gets_single.
    now apply alphaField_trim_fixed.
  - (* SNum *)
    destruct (is_num_chain cv) eqn:E1; [|generic_case Hst Hconv].
    rewrite (conv_value_num cv _ E1) in Hconv. injection Hconv as <-. rewrite geti_single.
    apply andb_prop in Hint as [H1 H2]. apply Z.leb_le in H1, H2. now apply numericField_reparse.
  - (* SStr *)
    destruct (is_nil cv) eqn:E1.
    { apply is_nil_spec in E1. subst cv. injection Hconv as <-. rewrite gets_single. apply stringField_idem. }
    destruct (is_trim_chain cv) eqn:E2; [|generic_case Hst Hconv].
    rewrite (conv_value_trim cv _ E2) in Hconv. injection Hconv as <-. rewrite gets_single.
    now apply stringField_trim_fixed.
  - (* SRaw *)
    apply andb_prop in Hfit as [Hwf _].
    destruct (is_nil cv) eqn:E1.
    { apply is_nil_spec in E1. subst cv. injection Hconv as <-. now rewrite gets_single. }
    destruct (is_trim_chain cv) eqn:E2; [|generic_case Hst Hconv].
    rewrite (conv_value_trim cv _ E2) in Hconv. injection Hconv as <-. rewrite gets_single.
    now apply trim_id.
  - (* SItoa *)
    destruct (is_num_chain cv) eqn:E1; [|generic_case Hst Hconv].
    rewrite (conv_value_num cv _ E1) in Hconv. injection Hconv as <-. rewrite geti_single.
    rewrite in_int64b_eq in Hst. now apply itoa_reparse.
Qed.

Lemma seg_field_simple s f : simple_field s = Some f -> seg_field s = Some f.
Proof. destruct s; cbn [simple_field seg_field]; try discriminate; auto. Qed.

Lemma seg_stableb_simple L r s f : simple_field s = Some f ->
  seg_stableb L r s =
  match find_key (l_cuts L) f with
  | None => true
  | Some c => match c_const c with
              | Some bs => bytes_eqb (render_seg [(f, VS bs)] s) (render_seg r s)
              | None => field_stable s (c_conv c) r
              end
  end.
Proof. destruct s; cbn [simple_field]; intros H; try discriminate; injection H as ->; reflexivity. Qed.

Lemma lookup_overlay L r f : layout_ok L = true -> widthb L r = true ->
  lookup (overlay (parse L (render L r)) r) f =
  match assigned (units (l_ix L) (render L r)) (l_cuts L) f with Some v => Some v | None => lookup r f end.
Proof.
  intros Hok Hw. destruct (layout_ok_facts L Hok) as [cs F].
  unfold overlay, parse. rewrite (render_width_w L r Hok Hw), Nat.eqb_refl, lookup_app.
  now destruct (lookup_parse (units (l_ix L) (render L r)) (l_cuts L) f (ok_cut_keys _ _ F)) as [_ ->].
Qed.

Lemma simple_seg_stable L r s f :
  layout_ok L = true -> fitsb L r = true -> In s (l_segs L) -> simple_field s = Some f ->
  seg_stableb L r s = true ->
  render_seg (overlay (parse L (render L r)) r) s = render_seg r s.
Proof.
  intros Hok Hfit Hs Hsf Hst. pose proof (fitsb_widthb L r Hfit) as Hw.
  destruct (layout_ok_facts L Hok) as [cs F].
  rewrite (seg_stableb_simple L r s f Hsf) in Hst.
  pose proof (lookup_overlay L r f Hok Hw) as Hl. unfold assigned in Hl.
  destruct (find_key (l_cuts L) f) as [c|] eqn:Ef; [|now apply (render_seg_lookup s f)].
  apply find_key_in in Ef as [Hc Hk]. unfold cut_key in Hk. unfold parse_cut in Hl.
  destruct (c_const c) as [bs|] eqn:Econst.
  - injection Hk as Hk. rewrite Hk, lookup_single in Hl. apply bytes_eqb_eq in Hst. rewrite <- Hst.
    apply (render_seg_lookup s f); [assumption|]. now rewrite Hl, lookup_single.
  - destruct (String.eqb (c_field c) "") eqn:Ee; [discriminate|]. injection Hk as Hk.
    apply String.eqb_neq in Ee.
    destruct (ok_aligned _ _ F c Hc Econst Ee) as (x & Hx & _ & Hlo & Hhi & Hxf).
    assert (Exs : cs_seg x = s).
    { apply (nodup_flat_map_inj seg_keys (l_segs L) (ok_seg_keys _ _ F) (cs_seg x) s f); auto.
      - rewrite <- (ok_segs _ _ F). now apply in_map.
      - unfold seg_keys. rewrite Hxf, Hk. now left.
      - unfold seg_keys. rewrite (seg_field_simple s f Hsf). now left. }
    pose proof (sub_render L cs r F Hw x Hx) as Hsub. rewrite Hhi, Hlo, Exs in Hsub.
    rewrite Hsub, Hk in Hl.
    destruct (conv_value (c_conv c) (render_seg r s)) as [v|] eqn:Econv.
    + rewrite lookup_single in Hl.
      transitivity (render_seg [(f, v)] s).
      * apply (render_seg_lookup s f); [assumption|]. now rewrite Hl, lookup_single.
      * subst s. apply (field_stable_sound r x f (c_conv c) v); auto.
        -- unfold widthb in Hw. rewrite (ok_cols _ _ F), forallb_forall in Hw. now apply Hw.
        -- unfold fitsb in Hfit. apply andb_prop in Hfit as [_ Hi]. rewrite forallb_forall in Hi. now apply Hi.
    + cbn [lookup] in Hl. now apply (render_seg_lookup s f).
Qed.

Theorem reparse_fixed L r :
  layout_ok L = true -> fitsb L r = true -> stableb L r = true ->
  render L (overlay (parse L (render L r)) r) = render L r.
Proof.
  intros Hok Hfit Hst. unfold render. f_equal. apply map_ext_in. intros s Hs.
  unfold stableb in Hst. rewrite forallb_forall in Hst. specialize (Hst s Hs).
  destruct (simple_field s) as [f|] eqn:Esf; [now apply (simple_seg_stable L r s f)|].
  destruct s as [bs|g w|g w|g w|g|g|n h|src]; cbn [simple_field] in Esf; try discriminate Esf;
    cbn [seg_stableb] in Hst.
  - reflexivity.
  - now apply bytes_eqb_eq in Hst.
  - discriminate Hst.
Qed.

(* the parsed record itself: every field Parse assigns from columns holds the
   converted rendered text, every constant cut its constant, and nothing else
   is assigned *)
Theorem parse_render_fields L r f : layout_ok L = true -> fitsb L r = true ->
  lookup (parse L (render L r)) f =
  match find_key (l_cuts L) f with
  | None => None
  | Some c => match c_const c with
              | Some bs => Some (VS bs)
              | None => match aligned_seg L c with
                        | Some s => conv_value (c_conv c) (render_seg r s)
                        | None => None
                        end
              end
  end.
Proof.
  intros Hok Hfit. pose proof (fitsb_widthb L r Hfit) as Hw. destruct (layout_ok_facts L Hok) as [cs F].
  destruct (find_key (l_cuts L) f) as [c|] eqn:Ef.
  - pose proof Ef as Ef'. apply find_key_in in Ef' as [Hc Hk]. unfold cut_key in Hk.
    destruct (c_const c) as [bs|] eqn:Econst.
    + injection Hk as Hk. unfold parse. rewrite (render_width_w L r Hok Hw), Nat.eqb_refl.
      destruct (lookup_parse (units (l_ix L) (render L r)) (l_cuts L) f (ok_cut_keys _ _ F)) as [-> _].
      unfold assigned. rewrite Ef. unfold parse_cut. rewrite Econst, Hk. apply lookup_single.
    + destruct (String.eqb (c_field c) "") eqn:Ee; [discriminate|]. injection Hk as Hk.
      apply String.eqb_neq in Ee.
      destruct (parse_render_w L r Hok Hw c Hc Econst Ee) as (s & -> & _ & _ & _ & H). now rewrite <- Hk.
  - unfold parse. rewrite (render_width_w L r Hok Hw), Nat.eqb_refl.
    destruct (lookup_parse (units (l_ix L) (render L r)) (l_cuts L) f (ok_cut_keys _ _ F)) as [-> _].
    unfold assigned. now rewrite Ef.
Qed.

(* ------------------------------------------------------------------ *)
(* non-vacuity: a concrete EntryDetail-like layout and record value      *)

Local Open Scope string_scope.

Definition Ex_layout : layout := mklayout "ExEntryDetail" IRune
  [ SLit [54]%N
  ; SItoa "TransactionCode"
  ; SStr "RDFIIdentification" 8
  ; SRaw "CheckDigit"
  ; SAlpha "DFIAccountNumber" 17
  ; SNum "Amount" 10
  ; SAlpha "IdentificationNumber" 15
  ; SAlpha "IndividualName" 22
  ; SAlpha "DiscretionaryData" 2
  ; SItoa "AddendaRecordIndicator"
  ; SStr "TraceNumber" 15 ]
  [ mkcut 0 1 "" []
  ; mkcut 1 3 "TransactionCode" ["parseNumField"]
  ; mkcut 3 11 "RDFIIdentification" ["parseStringField"]
  ; mkcut 11 12 "CheckDigit" []
  ; mkcut 12 29 "DFIAccountNumber" ["parseStringFieldWithOpts"]
  ; mkcut 29 39 "Amount" ["parseNumField"]
  ; mkcut 39 54 "IdentificationNumber" []
  ; mkcut 54 76 "IndividualName" ["strings.TrimSpace"]
  ; mkcut 76 78 "DiscretionaryData" []
  ; mkcut 78 79 "AddendaRecordIndicator" ["parseNumField"]
  ; mkcut 79 94 "TraceNumber" [] ].

(* IndividualName "José Ñandú" contains two-byte runes; the amount overflows nothing *)
Definition Ex_record : recval :=
  [ ("TransactionCode", VI 22)
  ; ("RDFIIdentification", VS (bytes_of_string "23138010"))
  ; ("CheckDigit", VS (bytes_of_string "4"))
  ; ("DFIAccountNumber", VS (bytes_of_string "12345678"))
  ; ("Amount", VI 100000)
  ; ("IdentificationNumber", VS (bytes_of_string " id 7"))
  ; ("IndividualName", VS [74; 111; 115; 195; 169; 32; 195; 145; 97; 110; 100; 195; 186]%N)
  ; ("DiscretionaryData", VS (bytes_of_string "S"))
  ; ("AddendaRecordIndicator", VI 0)
  ; ("TraceNumber", VS (bytes_of_string "121042880000001")) ].

Example Ex_layout_ok : layout_ok Ex_layout = true.
Proof. vm_compute. reflexivity. Qed.
Example Ex_fits : fitsb Ex_layout Ex_record = true.
Proof. vm_compute. reflexivity. Qed.
Example Ex_stable : stableb Ex_layout Ex_record = true.
Proof. vm_compute. reflexivity. Qed.

Example Ex_render_width : rune_count (render Ex_layout Ex_record) = 94.
Proof. apply render_width; [exact Ex_layout_ok|exact Ex_fits]. Qed.
(* the record has 97 bytes: the width is counted in runes *)
Example Ex_render_bytes : length (render Ex_layout Ex_record) = 97.
Proof. vm_compute. reflexivity. Qed.
Example Ex_render_wf : wf_utf8 (render Ex_layout Ex_record) = true.
Proof. apply render_wf; [exact Ex_layout_ok|exact Ex_fits]. Qed.
Example Ex_parse_render :
  lookup (parse Ex_layout (render Ex_layout Ex_record)) "IndividualName"
  = Some (VS [74; 111; 115; 195; 169; 32; 195; 145; 97; 110; 100; 195; 186]%N).
Proof.
  rewrite (parse_render_fields Ex_layout Ex_record "IndividualName" Ex_layout_ok Ex_fits). vm_compute. reflexivity.
Qed.
Example Ex_reparse_fixed :
  render Ex_layout (overlay (parse Ex_layout (render Ex_layout Ex_record)) Ex_record) = render Ex_layout Ex_record.
Proof. apply reparse_fixed; [exact Ex_layout_ok|exact Ex_fits|exact Ex_stable]. Qed.

(* the side conditions are not vacuous either: values outside them break the conclusions *)
Example Ex_width_needs_fits :   (* CheckDigit of two characters: the record has 95 columns *)
  rune_count (render Ex_layout (("CheckDigit", VS (bytes_of_string "44")) :: Ex_record)) = 95.
Proof. vm_compute. reflexivity. Qed.
Example Ex_stable_needs_plain : (* a leading blank in a trimmed alpha field moves the text *)
  let r := ("IndividualName", VS (bytes_of_string " Doe")) :: Ex_record in
  fitsb Ex_layout r = true /\ stableb Ex_layout r = false /\
  render Ex_layout (overlay (parse Ex_layout (render Ex_layout r)) r) <> render Ex_layout r.
Proof. vm_compute. repeat split; discriminate. Qed.
